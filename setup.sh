#!/bin/sh
# Build the framework offline from files on disk: regenerate the translated constants from /repo,
# then build the Lean modules (models, proofs, property theorems, drivers) of every claimed check.
set -e
here="$(cd "$(dirname "$0")" && pwd)"
cd "$here/harness" && /venv/bin/python extract.py "${ZODB_REPO:-/repo}" > "$here/lean/ZodbModel/Generated.lean.new"
if ! cmp -s "$here/lean/ZodbModel/Generated.lean.new" "$here/lean/ZodbModel/Generated.lean"; then
  mv "$here/lean/ZodbModel/Generated.lean.new" "$here/lean/ZodbModel/Generated.lean"
else rm -f "$here/lean/ZodbModel/Generated.lean.new"; fi
/venv/bin/python "$here/harness/build_claimed.py"
