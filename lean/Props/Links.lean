/-
  LINK theorems — the duplicated vocabularies of the twenty developments agree.

  Each property C01…C20 has its own self-contained executable model, tied to the real code by its
  own correspondence check.  The theorems below tie the models to EACH OTHER: explicit translation
  functions between their data structures, and machine-checked proofs that encodings, sizes,
  offsets, indexes and query answers commute with the translations.  Together with the per-property
  theorems they make the developments one consistent model:

      bytes ──Format (C01/C09)──┐                         ┌── Pack    (C07)
        ║ = (§1)                 │                         ├── Demo    (C16)
      bytes ──Recover (C17) ── Copy.Store ─(§6)─ FileStore.Log ─(C04)─ History ─(§3)─┼── Mvcc    (C02/C15)
                                 sizes/offsets/index (§2) ─┘                         └── …

  Property theorems only (lemmas: `Proofs/Links*.lean`).  Where two models genuinely differ in a
  corner, the theorem carries the exact hypothesis under which they agree and a `decide`-checked
  example exhibits the corner.
-/
import Proofs.LinksBytes
import Proofs.LinksSizes
import Proofs.LinksHist
import Proofs.LinksDemo
import Proofs.LinksStore
import Proofs.LinksTwoPC
import Proofs.LinksUndo
import Proofs.LinksRules
import Proofs.FileStoreRefine
import Proofs.FileStoreRefine2
import Proofs.FileStoreTid
import Proofs.FileStoreTop
namespace Props.Links
open ZodbModel Proofs.Links

/-! ## §1  Byte layout: `Format.lean` (C01/C09) = `Recover.lean` (C17)

Translation `storeF : Copy.Store → List Format.FTxn`: newest-first ↦ file order; a pointer
`(level, index)` ↦ the byte offset `Recover.recOff`; `tloc` ↦ `Recover.storeSize older`. -/

/-- C01 ↔ C17: the same magic, the same header lengths (23 / 42), the same record and transaction
    lengths on corresponding inputs. -/
theorem layout_constants (older : Copy.Store) (t : Copy.Txn) (r : Copy.Rec) :
    Format.magic = Recover.magic ∧
    (txnF older t).hdrLen = Recover.hdrLen t ∧
    Recover.hdrLen ⟨0, 32, [], [], [], []⟩ = Format.transHdrLen ∧
    Recover.recLen ⟨0, 0, none, .uncreate⟩ = Format.dataHdrLen + 8 ∧
    (r.body ≠ .full [] → (recF older r).len = Recover.recLen r) ∧
    ((∀ r ∈ t.recs, r.body ≠ .full []) → (txnF older t).tlen = Recover.tlen t) :=
  ⟨by decide, rfl, by decide, by decide, recF_len older r, txnF_tlen older t⟩

/-- C01 ↔ C17, one record: `Recover.encRec` and `Format.encodeRec` write the same bytes — no hypothesis. -/
theorem encRec_same_bytes (older : Copy.Store) (r : Copy.Rec) :
    Recover.encRec older (Recover.storeSize older) r = Format.encodeRec (recF older r) :=
  encRec_eq older r

/-- C01 ↔ C17, whole file: the Data.fs image C17's recovery model reads (`Recover.encStore`) is
    byte for byte the image C01's crash model writes (`Format.encodeFile`) for the translated
    transactions.  Hypotheses: the status is one byte (C17 writes `[status]`, C01 `be 1 status`) and
    no pickle is empty (then C01 counts `plen or 8 = 8` into `tlen`, C17 counts 0) — both are part
    of either model's well-formedness (`StoreEnc`, `BodyWF`). -/
theorem encStore_eq_encodeFile (S : Copy.Store) (hs : StatusByte S) (hp : NoEmptyPickle S) :
    Recover.encStore S = Format.encodeFile (storeF S) :=
  encStore_eq S hs hp

/-- … in particular for every well-formed store of C17 -/
theorem encStore_eq_encodeFile_wf (S : Copy.Store) (h : Proofs.Recover.WFStore S) :
    Recover.encStore S = Format.encodeFile (storeF S) :=
  encStore_eq S (storeEnc_status h.2) (storeEnc_noEmpty h.2)

/-- C17's well-formedness implies C01's (`FileWF`), provided no tid is ff…ff: `read_index` treats
    that tid as its `stop` bound, `fsrecover` does not know it (corner: `ex_stop_corner`). -/
theorem wfStore_fileWF (S : Copy.Store) (h : Proofs.Recover.WFStore S)
    (htid : ∀ t ∈ S, t.tid ≠ 2 ^ 64 - 1) : Format.FileWF (storeF S) :=
  storeF_fileWF S h.2 htid

/-- C01 ∘ C17 (composition of `Props.C01.parse_encode` and `Props.C17.recover_identity`): on the
    image of a well-formed store BOTH readers — `FileStorage.__init__`/`read_index` (C01's
    `Disk.recover`) and `fsrecover.recover` (C17) — succeed and report the same transactions: the
    open accepts exactly `storeF S` (clean end, nothing truncated, `_pos` = file length =
    `Recover.storeSize S`), recovery's output iterates exactly like `S`, and both lists carry the
    same tid, status, user, description, extension and (oid, serial) per record, in the same order. -/
theorem both_readers_agree (S : Copy.Store) (h : Proofs.Recover.WFStore S)
    (htid : ∀ t ∈ S, t.tid ≠ 2 ^ 64 - 1) :
    ∃ r D rs, Disk.recover (Recover.encStore S) = .ok r ∧ r.IsClean (storeF S) ∧ r.how = .eof ∧
      r.saved = none ∧ r.pos = Recover.storeSize S ∧
      Recover.recover (Recover.encStore S) = .done D ∧ Copy.iterate S = some rs ∧
      Copy.iterate D = some rs ∧ rs.map ihdr = r.txns.map fhdr := by
  obtain ⟨r, h1, h2, h3, h4⟩ := Proofs.Disk.recover_clean_eof (storeF S) (wfStore_fileWF S h htid)
  obtain ⟨D, rs, h5, h6, h7⟩ := Proofs.Recover.recover_identity h
  rw [← encStore_eq_encodeFile_wf S h] at h1
  refine ⟨r, D, rs, h1, h2, h3, h4, ?_, h5, h6, h7, ?_⟩
  · rw [h2.2.1, ← encStore_eq_encodeFile_wf S h, Proofs.Recover.encStore_length]
  · rw [h2.2.2.2.2]; exact iterate_hdr h6

/-! non-vacuity and corners (the store of `Props.C17`: an undo back pointer and an un-creation) -/

def exS : Copy.Store :=
  [⟨3, 32, [], [], [], [⟨1, 3, some (1, 0), .back 0 0⟩, ⟨2, 3, some (0, 1), .uncreate⟩]⟩,
   ⟨2, 32, [], [100], [], [⟨1, 2, some (0, 0), .full [80, 46]⟩]⟩,
   ⟨1, 32, [117], [], [], [⟨1, 1, none, .full [78, 46]⟩, ⟨2, 1, none, .full [79, 46]⟩]⟩]

example : StatusByte exS ∧ NoEmptyPickle exS := by
  constructor
  · intro t ht; simp only [exS, List.mem_cons, List.not_mem_nil, or_false] at ht
    rcases ht with rfl | rfl | rfl <;> decide
  · intro t ht r hr; simp only [exS, List.mem_cons, List.not_mem_nil, or_false] at ht
    rcases ht with rfl | rfl | rfl <;>
      (simp only [List.mem_cons, List.not_mem_nil, or_false] at hr
       rcases hr with rfl | rfl <;> decide)
example : (storeF exS).map (·.tid) = [1, 2, 3] ∧ Format.FileWF (storeF exS) := by decide
example : Recover.encStore exS = Format.encodeFile (storeF exS) ∧ (Recover.encStore exS).length = 331 := by
  decide +kernel
example : (Disk.recover (Recover.encStore exS)).toOption.map (·.txns) = some (storeF exS) := by
  decide +kernel

/-- corner 1: a status ≥ 256 is written as one list element by C17's encoder and reduced mod 256 by
    C01's (neither is a byte string any more) -/
example : Recover.encStore [⟨1, 256 + 32, [], [], [], []⟩] ≠
    Format.encodeFile (storeF [⟨1, 256 + 32, [], [], [], []⟩]) := by decide +kernel
/-- corner 2: an empty pickle — same record bytes, but C01's `tlen` counts 8 for the body, C17's 0 -/
example : (txnF [] ⟨1, 32, [], [], [], [⟨1, 1, none, .full []⟩]⟩).tlen = 73 ∧
    Recover.tlen ⟨1, 32, [], [], [], [⟨1, 1, none, .full []⟩]⟩ = 65 := by decide

def exFF : Copy.Store := [⟨2 ^ 64 - 1, 32, [], [], [], [⟨1, 2 ^ 64 - 1, none, .full [78, 46]⟩]⟩]
/-- corner 3 (`stop` bound): a transaction with tid ff…ff is recovered by `fsrecover` but stops
    the scan of a FileStorage open, which accepts nothing -/
theorem ex_stop_corner :
    (Recover.recoverOut (Recover.encStore exFF)).map (·.map (·.tid)) = some [2 ^ 64 - 1] ∧
    (Disk.recover (Recover.encStore exFF)).toOption.map (fun r => (r.txns, r.how)) = some ([], .stop) := by
  decide +kernel

/-! ## §2  Sizes, offsets, index: `FileStore.lean` (C04) = `Format.lean` (C01/C09) = `History.lean`

Translation `logF : FileStore.Log → List Format.FTxn`: newest-first ↦ file order, records back in
file order, `tloc` ↦ `logEnd older`. -/

/-- C04 ↔ C01: the size C04 computes for a transaction (23 + ulen + dlen + elen + Σ(42 + len | 42 + 8)
    + 8) is the length of the bytes C01's encoder writes; the computed end of the log (`_pos`) is
    the length of the encoded file.  No hypothesis. -/
theorem fs_size_is_encoded_length (older : FileStore.Log) (t : FileStore.FTxn) (log : FileStore.Log) :
    (Format.encodeTxn (ftxnF older t)).length = t.size ∧
    (Format.encodeFile (logF log)).length = FileStore.logEnd log :=
  ⟨encodeTxn_ftxnF_length older t, encodeFile_logF_length log⟩

/-- C04 ↔ C01 ↔ C04's spec: the `tlen` field.  C01's `FTxn.tlen`, C04's `FTxn.tlen` and the
    `size` the abstract `History` reports in `undoLog` coincide (pickles non-empty — part of
    `LogInv`; for an empty pickle C01 counts 8, C04 counts 0). -/
theorem fs_tlen_agree {log : FileStore.Log} (h : FileStore.LogInv log) {t : FileStore.FTxn}
    (ht : t ∈ log) (older : FileStore.Log) :
    (ftxnF older t).tlen = t.tlen ∧ (FileStore.absTxn log t).tlen = t.tlen ∧
    (ftxnF older t).hdrLen = t.hdrLen :=
  ⟨ftxnF_tlen older t (logInv_noEmpty h t ht), Proofs.FileStoreRefine2.tlen_absTxn h ht, rfl⟩

/-- `_pos` of every reachable C04 state is the length of the C01 image of its log — after any
    number of commits, aborts, undos, restores and reopens. -/
theorem fs_pos_is_file_length {s : FileStore.FS} (h : FileStore.Inv s) :
    s.pos = (Format.encodeFile (logF s.log)).length := by
  rw [encodeFile_logF_length]; exact h.pos

/-- C04 ↔ C01/C09: the index `read_index` builds while scanning the image (C01's `indexOf`, the
    index C09 compares saved index files with) binds every oid to the offset C04's in-memory index
    holds (absent ⇔ 0). -/
theorem fs_index_is_scanned_index {s : FileStore.FS} (h : FileStore.Inv s) (oid : Nat) :
    Format.idxGet oid (Format.indexOf (logF s.log)) =
      (if FileStore.idxGet s.index oid = 0 then none else some (FileStore.idxGet s.index oid)) := by
  have := indexOf_logF s.log (logInv_noEmpty h.log) oid
  rw [Proofs.FileStoreStep.idxGet_rebuild] at this
  rw [h.index]; exact this

/-- C04's invariant plus the field widths of the format give C01's `FileWF` -/
theorem fs_log_fileWF {s : FileStore.FS} (h : FileStore.Inv s) (hb : FsBounded s.log) :
    Format.FileWF (logF s.log) :=
  logF_fileWF s.log h.log hb

/-- C04 ∘ C01: opening (C01's byte-level `FileStorage(path)`) the image of a reachable C04 state
    accepts exactly the translated log with a clean end, and finds the `_pos`, the `_ltid` and —
    oid by oid — the index of that state: the record-level `reopen` of C04 is the byte-level open
    of C01. -/
theorem fs_open_image {s : FileStore.FS} (h : FileStore.Inv s) (hb : FsBounded s.log) :
    ∃ r, Disk.recover (Format.encodeFile (logF s.log)) = .ok r ∧ r.txns = logF s.log ∧
      r.how = .eof ∧ r.saved = none ∧ r.bytes = Format.encodeFile (logF s.log) ∧
      r.pos = s.pos ∧ r.ltid = s.ltid ∧
      ∀ oid, Format.idxGet oid r.index =
        (if FileStore.idxGet s.index oid = 0 then none else some (FileStore.idxGet s.index oid)) := by
  obtain ⟨r, h1, h2, h3, h4⟩ := Proofs.Disk.recover_clean_eof (logF s.log) (fs_log_fileWF h hb)
  refine ⟨r, h1, h2.2.2.2.2, h3, h4, h2.1, ?_, ?_, ?_⟩
  · rw [h2.2.1]; exact (fs_pos_is_file_length h).symm
  · rw [h2.2.2.2.1, lastTid_logF, h.ltid]
  · intro oid; rw [h2.2.2.1]; exact fs_index_is_scanned_index h oid

/-- C17 ↔ C01 sizes: `Recover.storeSize` is C01's file position of the translated store -/
theorem storeSize_is_filePos (S : Copy.Store) (h : NoEmptyPickle S) :
    Disk.filePos (storeF S) = Recover.storeSize S ∧ (Recover.encStore S).length = Recover.storeSize S :=
  ⟨storeF_filePos S h, Proofs.Recover.encStore_length S⟩

/-! non-vacuity: the reachable state of `Props.C04` (4 transactions, a back pointer, a deletion) -/

def exOps : List FileStore.Op :=
  [.begin (some 1) 0 32 [65] [] [], .store 1 0 [7], .store 2 0 [8, 8], .vote, .finish,
   .begin none 0 32 [] [66] [], .store 1 1 [9], .store 1 1 [10], .vote, .finish,
   .begin none 0 32 [] [] [], .undo 2, .vote, .finish,
   .begin none 1 32 [] [] [], .delete 2 1, .vote, .finish]
def exFS : FileStore.FS := FileStore.run FileStore.init exOps

theorem exFS_inv : FileStore.Inv exFS :=
  Proofs.FileStoreTop.run_inv Proofs.FileStoreStep.inv_init exOps (by
    simp [exOps, Proofs.FileStoreTop.RunOk, FileStore.OpOk, FileStore.statusOk, FileStore.init])
instance (log : FileStore.Log) : Decidable (FsBounded log) := by unfold FsBounded; infer_instance
example : FsBounded exFS.log := by decide +kernel
example : exFS.pos = 403 ∧ (Format.encodeFile (logF exFS.log)).length = 403 := by decide +kernel
example : Format.FileWF (logF exFS.log) := by decide +kernel
example : (Disk.recover (Format.encodeFile (logF exFS.log))).toOption.map
    (fun r => (r.pos, r.ltid, Format.idxGet 1 r.index, Format.idxGet 2 r.index, Format.idxGet 3 r.index)) =
    some (403, 4, some 264, some 345, none) ∧
    (exFS.pos, exFS.ltid, FileStore.idxGet exFS.index 1, FileStore.idxGet exFS.index 2,
      FileStore.idxGet exFS.index 3) = (403, 4, 264, 345, 0) := by decide +kernel
/-- corner: an empty pickle — the bytes still have the length C04 computes (42), C01's `len` says 50 -/
example : (Format.encodeRec (drecF 4 ⟨1, 1, 0, .data []⟩)).length = 42 ∧
    (⟨1, 1, 0, .data []⟩ : FileStore.DRec).size = 42 ∧ (drecF 4 ⟨1, 1, 0, .data []⟩).len = 50 := by decide

/-- C05 ↔ C04 (↔ C01): the two-phase-commit machine of C05 keeps payloads as (length, tag) pairs
    and computes positions; translated to C04 (`twoTxn`: `dlen` bytes per payload, a zero back
    pointer for a deletion) its record and transaction sizes are C04's — hence, by
    `fs_size_is_encoded_length`, the lengths of the bytes C01 writes — and the pieces `tpc_vote`
    writes add up to exactly that size. -/
theorem twopc_sizes (t : TwoPC.FTxn) (r : TwoPC.Rec) (s : TwoPC.State) :
    (twoRec r).size = r.size ∧
    (twoTxn t).size = TwoPC.transHdrLen + t.ul + t.dl + t.el + TwoPC.recsSize t.recs + 8 ∧
    (∀ older, (Format.encodeTxn (ftxnF older (twoTxn t))).length =
      TwoPC.transHdrLen + t.ul + t.dl + t.el + TwoPC.recsSize t.recs + 8) ∧
    (TwoPC.votePieces s).sum = s.thl + TwoPC.recsSize s.tfile + 8 := by
  refine ⟨twoRec_size r, twoTxn_size t, fun older => ?_, ?_⟩
  · rw [encodeTxn_ftxnF_length, twoTxn_size]
  · have : ∀ l : List TwoPC.Rec, (l.map TwoPC.Rec.size).sum = TwoPC.recsSize l := by
      intro l; induction l with
      | nil => rfl
      | cons a l ih => simp only [List.map_cons, List.sum_cons, TwoPC.recsSize, ih]
    simp only [TwoPC.votePieces, List.cons_append, List.sum_cons, List.sum_append, this,
      List.sum_nil]
    omega

/-- C05 ↔ C04, `_pos`: `tpc_begin` of C05 computes `_thl` as C04's `Staged.thl`, and a
    `tpc_finish` after a successful vote advances `_pos` by exactly the size C04's `finish` adds
    (`pos + toTxn.size`) for the translated transaction, which it puts on top of the log. -/
theorem twopc_pos_advances_like_filestore (s : TwoPC.State) (t : TwoPC.TxnId) :
    (∀ tid st ul dl el, s.txn ≠ some t → s.commitLock = none →
      (TwoPC.doBegin s t tid st ul dl el).1.thl = 23 + ul + dl + el ∧
      (TwoPC.doBegin s t tid st ul dl el).1.ude = (ul, dl, el)) ∧
    (s.txn = some t → TwoPC.voted s → s.armed ≠ some 1 →
      s.thl = 23 + s.ude.1 + s.ude.2.1 + s.ude.2.2 →
      (TwoPC.doFinish s t).1.txns = ⟨s.tid, s.tstatus, s.ude.1, s.ude.2.1, s.ude.2.2, s.tfile⟩ :: s.txns ∧
      (TwoPC.doFinish s t).1.pos =
        s.pos + (twoTxn ⟨s.tid, s.tstatus, s.ude.1, s.ude.2.1, s.ude.2.2, s.tfile⟩).size) := by
  refine ⟨fun tid st ul dl el h1 h2 => ?_, fun h1 h2 h3 h4 => ?_⟩
  · unfold TwoPC.doBegin
    rw [if_neg h1, h2]
    simp only [TwoPC.transHdrLen]
    by_cases c1 : 23 + ul + dl + el > 65535
    · by_cases c2 : ul > 65535
      · simp [c1, c2]
      · by_cases c3 : dl > 65535
        · simp [c1, c2, c3]
        · by_cases c4 : el > 65535 <;> simp [c1, c2, c3, c4]
    · simp [c1]
  · unfold TwoPC.doFinish
    rw [if_neg (by simp [h1]), if_neg (by simp [h2]), if_neg h3]
    refine ⟨rfl, ?_⟩
    rw [twoTxn_size]
    show s.nextpos = _
    rw [h2.2.2, h4]
    simp only [TwoPC.transHdrLen]
    omega

/-- C05 ↔ C04 ↔ C01, reachable states: after ANY sequence of API calls of C05's machine (begins,
    stores, blob stores, deletes, votes, finishes, aborts, armed faults — failed and refused calls
    included) `_pos` is C04's computed end of the translated committed log, i.e. the length of the
    bytes C01 writes for it. -/
theorem twopc_pos_is_file_length (ops : List TwoPC.Op) :
    (TwoPC.run {} ops).pos = FileStore.logEnd ((TwoPC.run {} ops).txns.map twoTxn) ∧
    (TwoPC.run {} ops).pos =
      (Format.encodeFile (logF ((TwoPC.run {} ops).txns.map twoTxn))).length := by
  have h := (run_posInv {} ops posInv_init).pos
  rw [logSize2_eq_logEnd] at h
  exact ⟨h, by rw [encodeFile_logF_length]; exact h⟩

example : (TwoPC.run {} [.begin 1 5 32 1 2 0, .store 1 1 0 3 9, .delete 1 2 0, .store 1 2 0 4 8,
      .vote 1, .finish 1, .begin 2 6 32 0 0 0, .store 2 1 5 2 7, .vote 2, .abort 2]).pos = 129 := by
  decide +kernel

example : (twoTxn ⟨5, 32, 1, 2, 0, [⟨1, 5, 0, false, 3, 9⟩, ⟨2, 5, 0, true, 0, 0⟩]⟩).size = 129 ∧
    (Format.encodeTxn (ftxnF [] (twoTxn ⟨5, 32, 1, 2, 0, [⟨1, 5, 0, false, 3, 9⟩, ⟨2, 5, 0, true, 0, 0⟩]⟩))).length
      = 129 := by decide +kernel

/-! ## §3  History queries: `History.lean` (C04) = the private histories of C07, C16, C02/C15 -/

/-- C07 ↔ C04: `Pack.loadBefore` on the translated history is `History.loadBefore` (data, serial,
    end tid; `None`; KeyError), for every oid and bound, sorted or not, with NO hypothesis: both
    models take the LAST record of an oid in a transaction (`Pack.Txn.recOf` through `dedupLast`,
    `Proofs.Pack.recOf_eq_last`), as FileStorage's index does — duplicate-oid transactions
    included, see `ex_pack_duplicate_agrees`. -/
theorem pack_loadBefore_is_history (refs : Bytes → List Nat) (h : History.History) (o b : Nat) :
    Pack.loadBefore (histP refs h) o b = loadP (History.loadBefore h o b) :=
  loadBeforeP refs h o b

/-- … and the revision lists (what `recsOf`, `lastBefore`, `firstFrom`, `curAt` are computed from) -/
theorem pack_recsOf_is_history (refs : Bytes → List Nat) (h : History.History) (o : Nat) :
    Pack.recsOf (histP refs h) o = (History.revs h o).map (fun rv => (rv.tid, recP refs rv.record)) :=
  recsOfP refs h o

/-- the two well-formedness notions are the same predicate -/
theorem pack_sorted_is_history_wf (refs : Bytes → List Nat) (h : History.History) :
    Pack.Sorted (histP refs h) ↔ History.WF h := by
  unfold Pack.Sorted History.WF histP
  rw [List.pairwise_map]; rfl

def exDup : History.History :=
  [⟨1, 32, [], [], [], [⟨1, some [7], none⟩, ⟨2, some [5], none⟩, ⟨1, some [8], none⟩]⟩,
   ⟨2, 32, [], [], [], [⟨1, some [9], none⟩, ⟨1, none, none⟩]⟩]
/-- agreement on transactions with two records of one oid (FileStorage accepts a second `store`;
    a multi-transaction undo writes such transactions): both models answer the last record — the
    former first-wins `Pack.Txn.recOf` answered `[7]` and `[9]` here -/
theorem ex_pack_duplicate_agrees :
    History.loadBefore exDup 1 2 = .ok (some ([8], 1, some 2)) ∧
    Pack.loadBefore (histP (fun _ => []) exDup) 1 2 = .some [8] 1 (some 2) ∧
    History.loadBefore exDup 1 3 = .error .keyError ∧
    Pack.loadBefore (histP (fun _ => []) exDup) 1 3 = .keyError ∧
    ¬ UniqueOids exDup := by
  refine ⟨by decide, by decide, by decide, by decide, fun h => ?_⟩
  exact absurd (h _ List.mem_cons_self) (by decide)

def exH : History.History :=
  [⟨1, 32, [117], [], [], [⟨1, some [7], none⟩, ⟨2, some [8, 8], none⟩]⟩,
   ⟨2, 32, [], [], [], [⟨1, some [9], none⟩]⟩,
   ⟨3, 32, [], [], [], [⟨1, some [7], some 1⟩, ⟨2, none, none⟩]⟩]
example : UniqueOids exH ∧ NoBackToTombstone exH := by
  constructor
  · intro t ht; simp only [exH, List.mem_cons, List.not_mem_nil, or_false] at ht
    rcases ht with rfl | rfl | rfl <;> decide
  · intro t ht r hr; simp only [exH, List.mem_cons, List.not_mem_nil, or_false] at ht
    rcases ht with rfl | rfl | rfl <;>
      (simp only [List.mem_cons, List.not_mem_nil, or_false] at hr
       rcases hr with rfl | rfl <;> decide)
example : Pack.loadBefore (histP (fun _ => []) exH) 1 3 = .some [9] 2 (some 3) ∧
    Pack.loadBefore (histP (fun _ => []) exH) 2 4 = .keyError ∧
    Pack.loadBefore (histP (fun _ => []) exH) 1 1 = .none := by decide

/-- C16 ↔ C04: every query of a history-backed layer of the demo-storage model (`loadBeforeR`,
    `loadSerialR`, `historyR` on `revsOf`) is the corresponding `History` query on the same
    transactions (`code` names pickles, `Demo.Data = Nat`).  No hypothesis: both take the last
    record of an oid in a transaction. -/
theorem demo_layer_is_history (code : Bytes → Nat) (h : History.History) (o : Nat) :
    Demo.revsOf (histD code h) o = (History.revs h o).map (revD code) ∧
    (∀ b, Demo.loadBeforeR (Demo.revsOf (histD code h) o) b = resD code (History.loadBefore h o b)) ∧
    (∀ s, Demo.loadSerialR (Demo.revsOf (histD code h) o) s = dataD code (History.loadSerial h o s)) ∧
    (∀ n, Demo.historyR (Demo.revsOf (histD code h) o) n = histTidsD (History.history h o n)) :=
  ⟨revsOfD code h o, fun b => loadBeforeD code h o b, fun s => loadSerialD code h o s,
   fun n => historyD code h o n⟩

/-- C16 ↔ C04, `getTid`: agree when no back pointer leads to an un-creation (C16's layers carry no
    `dataTxn`: a record is a pickle or an un-creation; corner: `ex_demo_getTid_corner`) -/
theorem demo_layer_getTid_is_history (code : Bytes → Nat) (h : History.History) (o : Nat)
    (hn : NoBackToTombstone h) :
    Demo.getTidR (Demo.revsOf (histD code h) o) = tidD (History.getTid h o) :=
  getTidD code h o hn

def exTomb : History.History :=
  [⟨1, 32, [], [], [], [⟨1, some [7], none⟩]⟩, ⟨2, 32, [], [], [], [⟨1, none, none⟩]⟩,
   ⟨3, 32, [], [], [], [⟨1, some [9], none⟩]⟩, ⟨4, 32, [], [], [], [⟨1, none, some 2⟩]⟩]
/-- corner: transaction 4 undoes 3 by a back pointer to the deletion record of 2 — FileStorage's
    `getTid` answers 4 (`plen == 0 and back == 0` is false), a C16 layer raises KeyError; `load`
    raises in both -/
theorem ex_demo_getTid_corner :
    History.getTid exTomb 1 = .ok 4 ∧
    Demo.getTidR (Demo.revsOf (histD (fun _ => 0) exTomb) 1) = .error .keyError ∧
    History.load exTomb 1 = .error .keyError := by decide

example : Demo.loadBeforeR (Demo.revsOf (histD List.length exH) 1) 3 = .ok (some (1, 2, some 3)) ∧
    History.loadBefore exH 1 3 = .ok (some ([9], 2, some 3)) := by decide

/-- C02/C15 ↔ C04: the storage the MVCC model reads from (`Mvcc.stateAt`, newest-first log) answers,
    on the translated history, the newest revision below the bound, un-creations included … -/
theorem mvcc_stateAt_is_history (code : Bytes → Nat) (h : History.History) (b o : Nat) :
    Mvcc.stateAt (histM code h) b o =
      (((History.revs h o).filter fun r => decide (r.tid < b)).getLast?).map
        (fun rv => (rv.tid, rv.record.data.map code)) :=
  stateAtM code h b o

/-- … so whenever it shows an existing object it shows exactly `History.stateAt`, i.e. what
    `History.loadBefore` (C04: what FileStorage / MappingStorage answer) returns. -/
theorem mvcc_snapshot_is_history_snapshot (code : Bytes → Nat) (h : History.History) (b o : Nat) :
    (History.stateAt h b o).map (fun p => (p.2, some (code p.1))) =
      (Mvcc.stateAt (histM code h) b o).bind (fun p => p.2.map fun v => (p.1, some v)) :=
  stateAt_link code h b o

example : Mvcc.stateAt (histM List.length exH) 3 1 = some (2, some 1) ∧
    History.stateAt exH 3 1 = some ([9], 2) ∧
    Mvcc.stateAt (histM List.length exH) 4 2 = some (3, none) ∧ History.stateAt exH 4 2 = none := by decide

/-! ## §4  A demo storage over a base that does not know the oid = its changes alone -/

/-- C16: when the base raises KeyError for an oid (in particular: an EMPTY base, next theorem)
    `DemoStorage.loadBefore / loadSerial / getTid / history` are the changes storage's answers —
    including the `None`s and the end tids: the `findEnd` walk is never entered. -/
theorem demo_unknown_in_base (b : Demo.Store) (c : Demo.Layer) (ds : Demo.DState) (o : Nat)
    (h1 : ∀ t, b.loadBefore o t = .error .keyError) (h2 : ∀ s, b.loadSerial o s = .error .keyError)
    (h3 : b.getTid o = .error .keyError) (h4 : ∀ n, b.history o n = .error .keyError) :
    (∀ t, (Demo.Store.demo b c ds).loadBefore o t = (Demo.Store.leaf c).loadBefore o t) ∧
    (Demo.Store.demo b c ds).load o = (Demo.Store.leaf c).load o ∧
    (∀ s, (Demo.Store.demo b c ds).loadSerial o s = (Demo.Store.leaf c).loadSerial o s) ∧
    (Demo.Store.demo b c ds).getTid o = (Demo.Store.leaf c).getTid o ∧
    (∀ n, 0 < n → (Demo.Store.demo b c ds).history o n = (Demo.Store.leaf c).history o n) :=
  have hlb : ∀ t, (Demo.Store.demo b c ds).loadBefore o t = (Demo.Store.leaf c).loadBefore o t :=
    fun t => demoLoadBefore_unknown _ _ t h1
  ⟨hlb, by unfold Demo.Store.load; rw [hlb],
   fun s => demoLoadSerial_unknown _ _ s (h2 s), demoGetTid_unknown _ _ h3,
   fun n hn => demoHistory_unknown _ _ n hn h4⟩

/-- C16 ↔ C04: a demo storage over an empty base behaves as its changes storage — for every oid —
    and, when the changes hold the history `h`, as `History` on `h`. -/
theorem demo_over_empty_base (cu : Bool) (c : Demo.Layer) (ds : Demo.DState) :
    (∀ o t, (Demo.Store.demo (emptyBase cu) c ds).loadBefore o t = (Demo.Store.leaf c).loadBefore o t) ∧
    (∀ o, (Demo.Store.demo (emptyBase cu) c ds).load o = (Demo.Store.leaf c).load o) ∧
    (∀ o s, (Demo.Store.demo (emptyBase cu) c ds).loadSerial o s = (Demo.Store.leaf c).loadSerial o s) ∧
    (∀ o, (Demo.Store.demo (emptyBase cu) c ds).getTid o = (Demo.Store.leaf c).getTid o) ∧
    (∀ o n, 0 < n → (Demo.Store.demo (emptyBase cu) c ds).history o n = (Demo.Store.leaf c).history o n) ∧
    (Demo.Store.demo (emptyBase cu) c ds).lastTransaction = (Demo.Store.leaf c).lastTransaction ∧
    (Demo.Store.demo (emptyBase cu) c ds).iterator = (Demo.Store.leaf c).iterator := by
  have h := fun o => demo_unknown_in_base (emptyBase cu) c ds o (fun _ => rfl) (fun _ => rfl) rfl (fun _ => rfl)
  refine ⟨fun o => (h o).1, fun o => (h o).2.1, fun o => (h o).2.2.1, fun o => (h o).2.2.2.1,
    fun o => (h o).2.2.2.2, ?_, ?_⟩
  · show (if c.ltid = 0 then (0 : Nat) else c.ltid) = c.ltid
    split <;> simp_all
  · show ([] : List Demo.Txn) ++ c.txns = c.txns
    simp

theorem demo_over_empty_base_is_history (code : Bytes → Nat) (h : History.History) (cu : Bool)
    (l : Nat) (st : Option (Nat × Demo.Recs)) (ds : Demo.DState) (o b : Nat) :
    (Demo.Store.demo (emptyBase cu) ⟨histD code h, l, st, cu⟩ ds).loadBefore o b =
      resD code (History.loadBefore h o b) := by
  rw [(demo_over_empty_base cu _ ds).1]
  exact loadBeforeD code h o b

/-- corner: `history(oid, 0)` of an oid nobody knows — DemoStorage answers `[]`, a plain storage KeyError -/
example : (Demo.Store.demo (emptyBase false) (Demo.Layer.empty false) ⟨[], [], 0, none, true⟩).history 5 0 = .ok [] ∧
    (Demo.Store.leaf (Demo.Layer.empty false)).history 5 0 = .error .keyError := by decide

example : (Demo.Store.demo (emptyBase false) ⟨histD List.length exH, 3, none, false⟩ ⟨[], [], 0, none, true⟩).loadBefore 1 3
    = .ok (some (1, 2, some 3)) := by decide

/-! ## §5  Tid generation: `Tid.lean` satisfies what the other models assume of fresh tids -/

/-- the three restatements of `TimeStamp.laterThan` are the same function: `Tid.later` (C04),
    `Demo.laterThan` (C16), the `+ 1` fix-up of `Copy.fixTid` (C17), and `Mvcc.later` (C15) is its
    value on a stamp compared with itself -/
theorem laterThan_same (now old : Nat) :
    Demo.laterThan now old = Tid.later now old ∧ Tid.newTid old now = Tid.later now old ∧
    (Copy.fixTid (some old) now).1 = Tid.later now old ∧
    (Copy.fixTid (some old) now).2 = some (Tid.later now old) ∧
    Mvcc.later old = Tid.later old old := by
  refine ⟨rfl, rfl, ?_, ?_, ?_⟩
  · show (if now ≤ old then (old + 1, some (old + 1)) else (now, some now)).1 = if old < now then now else old + 1
    by_cases h : now ≤ old
    · rw [if_pos h, if_neg (by omega)]
    · rw [if_neg h, if_pos (by omega)]
  · show (if now ≤ old then (old + 1, some (old + 1)) else (now, some now)).2 =
      some (if old < now then now else old + 1)
    by_cases h : now ≤ old
    · rw [if_pos h, if_neg (by omega)]
    · rw [if_neg h, if_pos (by omega)]
  · unfold Mvcc.later Tid.later; rw [if_neg (by omega)]

/-- C03/C10 (`StoreRules.OpOK`), C06 (`Undo.OpOK`), C02 (`Mvcc.step (.begin …)` enabledness) and
    C16 (`Demo.beginTid`) assume or compute a fresh tid above everything committed.  The tid
    `Tid.newTid ts now` issued by `tpc_begin` meets all of them for EVERY clock reading `now`, as
    soon as the timestamp `ts` is at least every committed tid (C04: `Inv.ts`, `Inv.ltid`). -/
theorem newTid_meets_all_assumptions (ts now : Nat) :
    (∀ (s : StoreRules.Sys) (x : Nat), (∀ t ∈ s.view, t.tid ≤ ts) →
        StoreRules.OpOK s (.begin x (Tid.newTid ts now))) ∧
    (∀ (L : Undo.Log) (stores : List (Nat × Bytes)), (∀ t ∈ L, t.tid ≤ ts) → (∀ s ∈ stores, s.2 ≠ []) →
        Undo.OpOK L (.commit (Tid.newTid ts now) stores)) ∧
    (∀ (L : Undo.Log) (ids : List Nat), (∀ t ∈ L, t.tid ≤ ts) →
        Undo.OpOK L (.undo (Tid.newTid ts now) ids)) ∧
    (∀ (s : Mvcc.Sys) (c : Option Nat), s.infl = none → s.next ≤ ts + 1 → Mvcc.committerOk s c = true →
        ∃ s', Mvcc.step s (.begin c (Tid.newTid ts now)) = .ok s') ∧
    Demo.beginTid ts none now = Tid.newTid ts now ∧
    (∀ (s : FileStore.FS), s.ts = ts → FileStore.beginTid s none now = Tid.newTid ts now) := by
  have hgt : ts < Tid.newTid ts now := later_gt now ts
  refine ⟨fun s x hv t ht => ?_, fun L stores hL hs => ⟨fun t ht => ?_, hs⟩,
    fun L ids hL => ⟨fun t ht => ?_, trivial⟩, fun s c hi hn hc => ?_, rfl, fun s hs => by rw [← hs]; rfl⟩
  · have := hv t ht; omega
  · have := hL t ht; show t.tid < Tid.newTid ts now; omega
  · have := hL t ht; show t.tid < Tid.newTid ts now; omega
  · refine ⟨{ s with infl := some ⟨Tid.newTid ts now, c, [], .begun, []⟩, next := Tid.newTid ts now + 1 }, ?_⟩
    show (if s.infl = none ∧ s.next ≤ Tid.newTid ts now ∧ Mvcc.committerOk s c = true then _ else _) = _
    rw [if_pos ⟨hi, by omega, hc⟩]

/-- the whole stream: tids issued for ANY clock readings are pairwise increasing, so each is above
    all earlier ones — the list of commits they label is `History.WF`, `Pack.Sorted`,
    `StoreRules.Sorted` (newest first) at once. -/
theorem issued_tids_sorted (ts : Nat) (clock : List Nat) :
    (Tid.issue ts clock).Pairwise (· < ·) ∧ ∀ t ∈ Tid.issue ts clock, ts < t :=
  ⟨Proofs.FileStoreTid.issue_pairwise ts clock, Proofs.FileStoreTid.issue_gt ts clock⟩

example : Tid.issue 10 [5, 5, 20, 3] = [11, 12, 20, 21] := by decide

/-! ## §6  Record-level stores: `Copy.lean` (C17) = `FileStore.lean` (C04)

Translation `storeL : Copy.Store → FileStore.Log`: a pointer `(level, index)` ↦ the byte offset
`Recover.recOff`; records newest first.  This closes the chain
bytes (C01) = bytes (C17) — Copy.Store — FileStore.Log — History. -/

/-- the translations commute: Copy.Store → FileStore.Log → Format transactions is Copy.Store →
    Format transactions, and C04's computed end of log is C17's computed store size -/
theorem store_triangle (S : Copy.Store) :
    logF (storeL S) = storeF S ∧ FileStore.logEnd (storeL S) = Recover.storeSize S :=
  ⟨logF_storeL S, logEnd_storeL S⟩

/-- C17 ↔ C04, pointers: the record a `(level, index)` pointer designates in C17's store is the
    record at byte offset `recOff` in C04's log, and chasing back pointers (`_loadBack_impl`) ends
    at the same bytes / the same zero pointer. -/
theorem copy_pointers_are_offsets (S : Copy.Store) (l i : Nat) :
    (∀ r o, Copy.recAt S l i = some (r, o) →
      (FileStore.recAt (storeL S) (Recover.recOff S l i)).map (·.2) = some (recL o r)) ∧
    (∀ x, Copy.loadBack S l i = some x → FileStore.loadBack (storeL S) (Recover.recOff S l i) = x) :=
  ⟨fun _ _ h => recAt_storeL h, fun _ h => loadBack_storeL h⟩

/-- C17 ↔ C04: what C17's `FileStorage.iterator()` (`Copy.iterate`) yields is exactly the abstract
    history C04 assigns to the translated log (`FileStore.abs`): same transactions, same records,
    same resolved data, same `data_txn` hints.  Only hypothesis: the iteration does not hit a
    dangling pointer. -/
theorem copy_iterate_is_filestore_abs (S : Copy.Store) (rs : List Copy.ITxn)
    (h : Copy.iterate S = some rs) : FileStore.abs (openLog (storeL S)) = rs.map itxnH :=
  absLog_storeL h

/-- C17 ↔ C04 ↔ C01, everything at once.  A well-formed store of C17 (`WFStore`) whose `prev`
    fields are index values (`PrevOK`: true of every store written by `restore`, next theorem)
    is — translated and opened — a state of C04 satisfying C04's invariant; its abstract history is
    C17's iteration; hence (C04 `fs_refines_history`) every pointer-chasing query on it is the
    `History` query on C17's iteration; and its C01 image is C17's image. -/
theorem wfStore_is_filestore_state (S : Copy.Store) (h : Proofs.Recover.WFStore S) (hp : PrevOK S) :
    ∃ rs, Copy.iterate S = some rs ∧ FileStore.Inv (openLog (storeL S)) ∧
      FileStore.abs (openLog (storeL S)) = rs.map itxnH ∧
      (∀ oid, FileStore.load (openLog (storeL S)) oid = History.load (rs.map itxnH) oid) ∧
      (∀ oid b, FileStore.loadBefore (openLog (storeL S)) oid b = History.loadBefore (rs.map itxnH) oid b) ∧
      (∀ oid s, FileStore.loadSerial (openLog (storeL S)) oid s = History.loadSerial (rs.map itxnH) oid s) ∧
      Format.encodeFile (logF (openLog (storeL S)).log) = Recover.encStore S ∧
      (openLog (storeL S)).pos = (Recover.encStore S).length := by
  obtain ⟨rs, h1, _, _⟩ := Proofs.Copy.storeOK_source h.1
  have hst : ∀ t ∈ S, t.status ≠ 117 ∧ t.status ≠ 99 := by
    intro t ht
    rcases (h.2.2 t ht).2.1 with e | e <;> omega
  have hinv : FileStore.Inv (openLog (storeL S)) :=
    openLog_inv (logInv_storeL h.1 (storeEnc_noEmpty h.2) hst hp)
  have habs := copy_iterate_is_filestore_abs S rs h1
  refine ⟨rs, h1, hinv, habs, ?_, ?_, ?_, ?_, ?_⟩
  · intro oid; rw [Proofs.FileStoreRefine.load_refines hinv, habs]
  · intro oid b; rw [Proofs.FileStoreRefine.loadBefore_refines hinv, habs]
  · intro oid s; rw [Proofs.FileStoreRefine.loadSerial_refines hinv, habs]
  · rw [openLog_log, logF_storeL, encStore_eq_encodeFile_wf S h]
  · rw [hinv.pos, openLog_log, logEnd_storeL, Proofs.Recover.encStore_length]

/-- `PrevOK` is what `restore` establishes: every store produced by C17's copy loop from a `PrevOK`
    store (e.g. the empty one) is `PrevOK` -/
theorem copy_establishes_prevOK (src : List Copy.ITxn) (D₀ D : Copy.Store)
    (h : Copy.copy src D₀ = .ok D) (hp : PrevOK D₀) : PrevOK D :=
  copyLoop_prev h hp

example : PrevOK exS := by decide
example : (FileStore.abs (openLog (storeL exS))).map (·.recs) =
    [[⟨1, some [78, 46], none⟩, ⟨2, some [79, 46], none⟩], [⟨1, some [80, 46], none⟩],
     [⟨1, some [78, 46], some 1⟩, ⟨2, none, none⟩]] := by decide +kernel
example : (Copy.iterate exS).map (·.map itxnH) = some (FileStore.abs (openLog (storeL exS))) := by
  decide +kernel
example : FileStore.load (openLog (storeL exS)) 1 = .ok ([78, 46], 3) ∧
    (openLog (storeL exS)).pos = 331 := by decide +kernel

/-! ## §7  The undo model's log (C06) = `History` (C04)

`absU : Undo.Log → History`: commit order, every record's data and `data_txn` resolved through its
back pointer in the flattened record list (positions are ordinals there, not byte offsets). -/

/-- C06 ↔ C04: the object state the undo model reads (`Undo.dataOf`, i.e. `load` through index
    and back pointers on ordinals) is the data `History.load` answers on the abstracted log — for
    EVERY log, no invariant needed. -/
theorem undo_dataOf_is_history_load (L : Undo.Log) (oid : Nat) :
    Undo.dataOf (Undo.flat L) oid = histData (absU L) oid :=
  dataOf_absU L oid

/-- hence the three states C06's specification `Undo.verdictFor` compares when transaction `T` is
    undone — right after `T`, now, right before `T` — are `History.load` on the history up to and
    including `T`, on the current history (view `S` staged over `L`), and on the history before `T`. -/
theorem undo_verdict_states_are_history_loads (T : Undo.Txn) (older L : Undo.Log) (utid : Nat)
    (S : List Undo.Rec) (oid : Nat) :
    Undo.dataOf (Undo.flat (T :: older)) oid = histData (absU older ++ [absTxnU older T]) oid ∧
    Undo.dataOf (S ++ Undo.flat L) oid = histData (absU (⟨utid, false, S⟩ :: L)) oid ∧
    Undo.dataOf (Undo.flat older) oid = histData (absU older) oid :=
  ⟨dataOf_absU (T :: older) oid, dataOf_absU (⟨utid, false, S⟩ :: L) oid, dataOf_absU older oid⟩

/-- C06 ↔ C04, the `prev` chain: on every log satisfying C06's invariant `Undo.Inv` without packed
    transactions, `loadBefore` and `loadSerial` of the undo model (index, then `prev` pointers on
    ordinals, then back pointers) are `History.loadBefore` / `History.loadSerial` on the abstracted
    log — data, serial, end tid, `None` and KeyError alike.  Packed transactions are excluded
    because pack writes `prev = 0` into the records it copies (`Undo.RecOK`); corner:
    `ex_undo_packed_prev_corner`. -/
theorem undo_walks_are_history_queries (L : Undo.Log) (h : Undo.Inv L)
    (hp : ∀ t ∈ L, t.packed = false) (oid : Nat) :
    (∀ b, History.loadBefore (absU L) oid b = lbU (Undo.loadBefore (Undo.flat L) oid b)) ∧
    (∀ s, History.loadSerial (absU L) oid s =
      (match Undo.loadSerial (Undo.flat L) oid s with
       | some d => .ok d
       | none => .error .keyError)) :=
  ⟨fun b => loadBefore_absU (chainInv_of_inv h hp) oid b,
   fun s => loadSerial_absU (chainInv_of_inv h hp) oid s⟩

def exPacked : Undo.Log := [⟨2, true, [⟨1, 2, 0, .data [9]⟩]⟩, ⟨1, true, [⟨1, 1, 0, .data [7]⟩]⟩]
/-- corner: two revisions of one object inside the packed region (pack keeps an old revision when
    a later undo record points back to it) carry `prev = 0`; the `prev` walk of `loadBefore` then
    ends early with `None`, while the list specification (and the iterator) still shows revision 1.
    C04's `LogInv` (prev = index entry for EVERY record) does not cover such files either. -/
theorem ex_undo_packed_prev_corner :
    Undo.invB exPacked = true ∧ Undo.loadBefore (Undo.flat exPacked) 1 2 = .noRev ∧
    History.loadBefore (absU exPacked) 1 2 = .ok (some ([7], 1, some 2)) ∧
    Undo.dataOf (Undo.flat exPacked) 1 = some [9] ∧ histData (absU exPacked) 1 = some [9] := by decide

def exU : Undo.Log :=
  [⟨3, false, [⟨1, 3, 2, .back 1⟩, ⟨2, 3, 0, .data [5]⟩]⟩, ⟨2, false, [⟨1, 2, 1, .data [9]⟩]⟩,
   ⟨1, false, [⟨1, 1, 0, .data [7]⟩]⟩]
example : Undo.invB exU = true ∧ Undo.dataOf (Undo.flat exU) 1 = some [7] ∧
    absU exU = [⟨1, 32, [], [], [], [⟨1, some [7], none⟩]⟩, ⟨2, 32, [], [], [], [⟨1, some [9], none⟩]⟩,
      ⟨3, 32, [], [], [], [⟨2, some [5], none⟩, ⟨1, some [7], some 1⟩]⟩] ∧
    History.load (absU exU) 1 = .ok ([7], 3) := by decide
example : Undo.loadBefore (Undo.flat exU) 1 3 = .found [9] 2 (some 3) ∧
    History.loadBefore (absU exU) 1 3 = .ok (some ([9], 2, some 3)) ∧
    Undo.loadSerial (Undo.flat exU) 1 3 = some [7] ∧ History.loadSerial (absU exU) 1 3 = .ok [7] := by decide

/-! ## §8  The committed history of the store-rule machine (C03 / C10) = `History` (C04)

`absS enc : StoreRules.Hist → History`: commit order, records in store order, each stored record
encoded by `enc` (any function), un-creation records without data. -/

/-- C03/C10 ↔ C04: on a history with increasing tids (what the machine reaches:
    `Proofs.StoreRules` keeps `Sorted`), the queries the store rules consult are `History`
    queries on the abstracted history: the committed tid both simple storages compare with
    (`curS`: FileStorage's index / MappingStorage's `maxKey()`) is the tid of the newest revision
    — `History.getTid`, KeyError for an un-creation — and `loadSerial` of either storage kind
    (`loadSerialFile`: the `prev` walk with early stop; `loadSerialMapping`: the per-tid lookup)
    is `History.loadSerial`. -/
theorem storerules_queries_are_history_queries (enc : Resolve.Record → Bytes) (h : StoreRules.Hist)
    (hs : StoreRules.Sorted h) (o : Nat) :
    History.WF (absS enc h) ∧
    (∀ k, StoreRules.curS k h o = StoreRules.currentTid h o) ∧
    History.getTid (absS enc h) o =
      (match StoreRules.currentTid h o with
       | some t => if StoreRules.currentDeleted h o then .error .keyError else .ok t
       | none => .error .keyError) ∧
    (∀ k ser, History.loadSerial (absS enc h) o ser = okS enc (StoreRules.loadSerialS k h o ser)) := by
  refine ⟨absS_wf enc hs, fun k => Proofs.StoreRules.curS_eq hs o, getTid_absS enc h o, fun k ser => ?_⟩
  cases k with
  | file => exact loadSerial_absS_file enc hs o ser
  | mapping => exact loadSerial_absS_mapping enc hs o ser

def exRec (n : Nat) : Resolve.Record := { hdr := { cls := 1, args := 0 }, state := .atom n }
def exEnc (r : Resolve.Record) : Bytes := match r.state with | .atom n => [n] | _ => []
def exRules : StoreRules.Hist :=
  [⟨30, [⟨7, 20, exRec 0, exRec 0, false, true⟩], []⟩,
   ⟨20, [⟨7, 10, exRec 5, exRec 5, false, false⟩, ⟨8, 0, exRec 6, exRec 6, false, false⟩], []⟩,
   ⟨10, [⟨7, 0, exRec 4, exRec 4, false, false⟩], []⟩]
example : StoreRules.Sorted exRules := by unfold StoreRules.Sorted; decide
example : absS exEnc exRules =
    [⟨10, 32, [], [], [], [⟨7, some [4], none⟩]⟩,
     ⟨20, 32, [], [], [], [⟨8, some [6], none⟩, ⟨7, some [5], none⟩]⟩,
     ⟨30, 32, [], [], [], [⟨7, none, none⟩]⟩] ∧
    StoreRules.loadSerialFile exRules 7 20 = some (exRec 5) ∧
    History.loadSerial (absS exEnc exRules) 7 20 = .ok [5] ∧
    StoreRules.loadSerialMapping exRules 7 30 = none ∧
    History.loadSerial (absS exEnc exRules) 7 30 = .error .keyError ∧
    StoreRules.currentTid exRules 7 = some 30 ∧ StoreRules.currentDeleted exRules 7 = true ∧
    History.getTid (absS exEnc exRules) 7 = .error .keyError ∧
    History.getTid (absS exEnc exRules) 8 = .ok 20 := by decide

end Props.Links
