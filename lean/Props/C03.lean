/-
  C03 — No lost updates: writers of the same object cannot both commit blindly.

  Property theorems only (lemmas live in `Proofs/StoreRules*.lean`).  The model is the commit-lock
  two-phase-commit machine of `ZodbModel/StoreRules.lean`: ANY sequence of `begin / store /
  checkCurrent / vote / finish / abort` calls of ANY number of transactions against a FileStorage,
  a MappingStorage or a DemoStorage (changes ∈ {file, mapping} over base ∈ {file, mapping}), where
  the serial a writer passes to `store` / `checkCurrentSerialInTransaction` is arbitrary (it was
  read at an arbitrary earlier time — that is the lost-update scenario).  "All thread schedules of
  two or more committers" = all such call sequences: a `begin` while the lock is held is the step
  `blocked` that changes nothing.

  Vocabulary (defined in the model file): `currentTid h oid` = tid of the newest transaction in the
  newest-first history `h` that wrote `oid`; `viewOf k hist base` = what a reader of the storage
  sees (`hist`, for a DemoStorage `hist ++ base`); `RevOK E k older base r` = revision `r` written on
  top of `older` is not a lost update (no predecessor ∨ `r.base` = tid of the immediately preceding
  revision and the bytes were stored as passed ∨ the bytes are the resolver's merge of
  (state at `r.base`, state at the predecessor, wanted) — `Merged`).
-/
import Proofs.StoreRulesC03
namespace Props.C03
open ZodbModel ZodbModel.Resolve ZodbModel.StoreRules

/-! ### the commit lock -/

/-- While transaction `t` holds the commit lock, no call made on behalf of another transaction
    changes anything — in particular not the committed history and not `t`'s staged data.
    (Any state, reachable or not.) -/
theorem lock_freezes_history (E : Env) (s : Sys) (t : TxnId) (op : Op)
    (hl : s.lock = some t) (ha : op.actor ≠ t) : (step E s op).sys = s :=
  Proofs.StoreRules.step_nonholder E s t op hl ha

/-- … hence neither does any schedule fragment, however long, in which `t` makes no call. -/
theorem lock_freezes_history_run (E : Env) (s : Sys) (t : TxnId) (ops : List Op)
    (hl : s.lock = some t) (ha : ∀ op ∈ ops, op.actor ≠ t) : run E s ops = s :=
  Proofs.StoreRules.run_nonholder E s t ops hl ha

/-- `tpc_begin` of another transaction is not enabled while the lock is held … -/
theorem begin_blocks_while_held (E : Env) (s : Sys) (t t' : TxnId) (tid : Tid)
    (hl : s.lock = some t') (hne : t' ≠ t) :
    (step E s (.begin t tid)).out = .blocked ∧ (step E s (.begin t tid)).sys = s := by
  simp [step, hl, hne]

/-- … the lock changes hands only through a `begin` on a free lock and the holder's own
    `tpc_finish` / `tpc_abort` (so not at `tpc_vote`, not at a failing `store`) … -/
theorem lock_handover (E : Env) (s : Sys) (op : Op) :
    (step E s op).sys.lock = s.lock ∨
    (s.lock = none ∧ ∃ t tid, op = .begin t tid ∧ (step E s op).sys.lock = some t) ∨
    (∃ t, s.lock = some t ∧ (op = .finish t ∨ op = .abort t) ∧ (step E s op).sys.lock = none) :=
  Proofs.StoreRules.step_lock E s op

/-- … and the committed history changes only when the lock holder's `tpc_finish` prepends the
    transaction it staged under the lock. -/
theorem history_grows_only_at_finish (E : Env) (s : Sys) (op : Op) :
    (step E s op).sys.hist = s.hist ∨
    (∃ t, op = .finish t ∧ s.lock = some t ∧
      (step E s op).sys.hist = { tid := s.tid, recs := s.staged, checked := s.checked } :: s.hist) :=
  Proofs.StoreRules.step_hist E s op

/-! ### no lost update -/

/-- For every reachable state of the interleaving machine and every committed revision `r` — of
    every transaction `t` anywhere in the history — `r` is `RevOK` with respect to exactly the
    transactions committed before `t`: its base serial is the tid of the immediately preceding
    revision of that object, or its bytes are the resolver's output on (state at base, state at the
    predecessor, wanted), or the object had no revision yet. -/
theorem no_lost_update (E : Env) (k : Kind) (base : Hist) (hb : Sorted base) (s : Sys)
    (h : Reachable E k base s) :
    ∀ newer t older, s.hist = newer ++ t :: older → ∀ r ∈ t.recs, RevOK E k older base r := by
  intro newer t older hs
  have hi := Proofs.StoreRules.reachable_inv E k base hb s h
  have hn := hi.nlu
  rw [hi.kind, hi.base] at hn
  exact Proofs.StoreRules.nlu_split E k base s.hist hn newer t older hs

/-- The same for what is staged but not yet committed: whatever the lock holder has stored so far is
    `RevOK` against the current committed history (so a `tpc_finish` at any moment commits no lost
    update). -/
theorem staged_not_lost (E : Env) (k : Kind) (base : Hist) (hb : Sorted base) (s : Sys)
    (h : Reachable E k base s) : ∀ r ∈ s.staged, RevOK E k s.hist base r := by
  have hi := Proofs.StoreRules.reachable_inv E k base hb s h
  have hn := hi.staged
  rw [hi.kind, hi.base] at hn
  exact hn

/-- A `store` succeeds only if the serial passed is the tid of the latest committed revision (or
    there is none), or — outcome `resolvedStore` — the class merged the two changes. -/
theorem store_succeeds_only_if (E : Env) (k : Kind) (base : Hist) (hb : Sorted base) (s : Sys)
    (h : Reachable E k base s) (t : TxnId) (oid : Oid) (serial : Tid) (data : Record) :
    ((step E s (.store t oid serial data)).out = .ok →
      s.lock = some t ∧ (currentTid s.view oid = none ∨ currentTid s.view oid = some serial)) ∧
    ((step E s (.store t oid serial data)).out = .resolvedStore →
      s.lock = some t ∧ ∃ ct, currentTid s.view oid = some ct ∧ serial ≠ ct ∧
        ∃ rev, (step E s (.store t oid serial data)).sys.staged = rev :: s.staged ∧
          rev.oid = oid ∧ rev.base = serial ∧ rev.wanted = data ∧
          Merged E (loadSerialK k s.hist base) ct rev) :=
  Proofs.C03Props.store_succeeds_only_if E k base hb s h t oid serial data

/-- A `store` that fails with ConflictError stores nothing: the whole state is as before (only the
    process-wide `_unresolvable` class cache may have grown), and after the abort that follows the
    committed history is the old one and nothing is staged. -/
theorem conflict_stores_nothing (E : Env) (k : Kind) (base : Hist) (hb : Sorted base) (s : Sys)
    (h : Reachable E k base s) (t : TxnId) (oid : Oid) (serial : Tid) (data : Record)
    (hc : (step E s (.store t oid serial data)).out = .conflict) :
    (step E s (.store t oid serial data)).sys =
      { s with cache := (step E s (.store t oid serial data)).sys.cache } ∧
    (step E (step E s (.store t oid serial data)).sys (.abort t)).sys.hist = s.hist ∧
    (step E (step E s (.store t oid serial data)).sys (.abort t)).sys.staged = [] ∧
    (step E (step E s (.store t oid serial data)).sys (.abort t)).sys.lock = none :=
  Proofs.C03Props.conflict_stores_nothing E k base hb s h t oid serial data hc

/-- A conflicting `store` on a MappingStorage (no resolution) always fails. -/
theorem mapping_conflict_fails (E : Env) (base : Hist) (hb : Sorted base) (s : Sys)
    (h : Reachable E (.simple .mapping) base s) (t : TxnId) (hl : s.lock = some t)
    (oid : Oid) (serial ct : Tid) (data : Record)
    (hc : currentTid s.view oid = some ct) (hne : serial ≠ ct) :
    (step E s (.store t oid serial data)).out = .conflict := by
  have hi := Proofs.StoreRules.reachable_inv E (.simple .mapping) base hb s h
  rw [Proofs.StoreRules.step_store_eq E _ _ s hi t hl]
  exact (Proofs.StoreRules.storeSpec_unresolvable E s oid serial ct data hc hne
    (Or.inl (by rw [hi.kind]; rfl))).1

/-! ### un-creation records (`deleteObject`, undo of a creation) -/

/-- A writer whose copy predates the un-creation of the object cannot resurrect it: while the current
    revision is an un-creation record, a FileStorage `store` with any serial but that record's tid
    fails with ConflictError (the un-created state cannot be loaded, so no merge is possible) and
    stores nothing. -/
theorem stale_write_over_uncreation_conflicts (E : Env) (base : Hist) (hb : Sorted base) (s : Sys)
    (h : Reachable E (.simple .file) base s) (t : TxnId) (hl : s.lock = some t) (oid : Oid)
    (serial ct : Tid) (data : Record) (hc : currentTid s.hist oid = some ct)
    (hd : currentDeleted s.hist oid = true) (hne : serial ≠ ct) :
    (step E s (.store t oid serial data)).out = .conflict ∧
    (step E s (.store t oid serial data)).sys =
      { s with cache := (step E s (.store t oid serial data)).sys.cache } :=
  Proofs.C03Props.stale_write_over_uncreation_conflicts E base hb s h t hl oid serial ct data hc hd hne

/-- `deleteObject` itself is subject to the same comparison and never resolves. -/
theorem delete_checks_serial (E : Env) (s : Sys) (t : TxnId) (oid : Oid) (serial : Tid)
    (hk : s.kind = .simple .file) (hl : s.lock = some t) :
    (step E s (.delete t oid serial)).out =
      match currentTid s.hist oid with
      | none => .keyError
      | some ct => if serial = ct then .ok else .conflict :=
  Proofs.C03Props.delete_checks_serial E s t oid serial hk hl

/-! ### readCurrent -/

/-- `checkCurrentSerialInTransaction(oid, serial)` by the lock holder succeeds exactly when `serial`
    is the tid of the latest committed revision; it raises ReadConflictError exactly when there is a
    different one (POSKeyError when there is none, StorageTransactionError for a non-holder). -/
theorem readcurrent_check_exact (E : Env) (k : Kind) (base : Hist) (hb : Sorted base) (s : Sys)
    (h : Reachable E k base s) (t : TxnId) (oid : Oid) (serial : Tid) :
    (step E s (.check t oid serial)).out =
      if s.lock = some t then
        if checkDeleted s oid then .keyError else      -- FileStorage: current record is an un-creation
        match currentTid s.view oid with
        | none => .keyError
        | some ct => if ct = serial then .ok else .readConflict
      else .txnError :=
  Proofs.StoreRules.step_check_out E k base s (Proofs.StoreRules.reachable_inv E k base hb s h) t oid serial

/-- A commit that succeeds had, at each check and — by the lock — still at its `tpc_finish`,
    `currentTid o = declared serial` for every readCurrent object:
    (a) a successful check records the pair (ghost list `checked`) and nothing else changes;
    (b) while the lock is held every recorded pair is still current, in particular in the state in
        which the holder calls `tpc_finish`;
    (c) every committed transaction's recorded pairs were current with respect to exactly the
        transactions committed before it. -/
theorem readcurrent_checked (E : Env) (k : Kind) (base : Hist) (hb : Sorted base) (s : Sys)
    (h : Reachable E k base s) :
    (∀ t oid serial, (step E s (.check t oid serial)).out = .ok →
        s.lock = some t ∧ currentTid s.view oid = some serial ∧
        (step E s (.check t oid serial)).sys = { s with checked := (oid, serial) :: s.checked }) ∧
    (∀ p ∈ s.checked, currentTid s.view p.1 = some p.2) ∧
    (∀ newer t older, s.hist = newer ++ t :: older →
        ∀ p ∈ t.checked, currentTid (viewOf k older base) p.1 = some p.2) :=
  Proofs.C03Props.readcurrent_checked E k base hb s h

/-- The same without the ghost list, over explicit schedules: after a successful check of
    `(oid, serial)` by the lock holder `t`, let ANY further calls of ANY transactions follow — as long
    as `t` itself has neither finished nor aborted, `t` still holds the lock and `serial` is still
    the tid of the latest committed revision of `oid`; in particular in the state in which `t`
    calls `tpc_finish`. -/
theorem readcurrent_holds_until_finish (E : Env) (k : Kind) (base : Hist) (hb : Sorted base) (s : Sys)
    (h : Reachable E k base s) (t : TxnId) (oid : Oid) (serial : Tid)
    (hck : (step E s (.check t oid serial)).out = .ok) (ops : List Op)
    (hops : ∀ op ∈ ops, op ≠ .finish t ∧ op ≠ .abort t)
    (hok : Proofs.StoreRules.RunOK E (step E s (.check t oid serial)).sys ops) :
    (run E (step E s (.check t oid serial)).sys ops).lock = some t ∧
    currentTid (run E (step E s (.check t oid serial)).sys ops).view oid = some serial :=
  Proofs.C03Props.readcurrent_holds_until_finish E k base hb s h t oid serial hck ops hops hok

/-- A retry can succeed: whoever holds the lock and passes the serial that is current NOW (what a
    connection reads after it invalidated its stale copy) passes both the readCurrent check and the
    store — conflicts are never sticky. -/
theorem retry_can_succeed (E : Env) (k : Kind) (base : Hist) (hb : Sorted base) (s : Sys)
    (h : Reachable E k base s) (t : TxnId) (hl : s.lock = some t) (oid : Oid) (ct : Tid)
    (data : Record) (hc : currentTid s.view oid = some ct) (hnd : checkDeleted s oid = false) :
    (step E s (.check t oid ct)).out = .ok ∧ (step E s (.store t oid ct data)).out = .ok ∧
    (step E s (.store t oid ct data)).sys.staged =
      { oid := oid, base := ct, data := data, wanted := data, resolved := false } :: s.staged :=
  Proofs.C03Props.retry_can_succeed E k base hb s h t hl oid ct data hc hnd

/-- tids strictly increase along the committed history (for a DemoStorage: changes above base). -/
theorem tids_strictly_increase (E : Env) (k : Kind) (base : Hist) (hb : Sorted base) (s : Sys)
    (h : Reachable E k base s) : Sorted s.view :=
  (Proofs.StoreRules.reachable_inv E k base hb s h).sorted

/-! ### non-vacuity: a concrete three-writer run meets every hypothesis above

    Writer 1 creates object 7 (tid 10).  Writers 2 and 3 both read revision 10.  Writer 2 commits
    first (tid 20; writer 3's `begin` meanwhile is `blocked`).  Writer 3 then stores with the stale
    base 10: FileStorage merges (class 1 has a resolver), MappingStorage raises ConflictError, a
    readCurrent declaration on the stale serial raises ReadConflictError. -/

def exEnv : Env :=
  { ci := fun c => { importable := c != 9, hasResolver := c == 1 },
    resolver := fun _ o c n => .ok (.pair o (.pair c n)) }

def exRec (n : Nat) : Record := { hdr := { cls := 1, args := 0 }, state := .atom n }

def exPrefix : List Op :=
  [.begin 1 10, .store 1 7 0 (exRec 100), .vote 1, .finish 1,
   .begin 2 20, .begin 3 25, .store 2 7 10 (exRec 101), .check 2 7 10, .vote 2, .finish 2,
   .begin 3 30]

def exFile : Sys := run exEnv (init (.simple .file) []) exPrefix
def exMapping : Sys := run exEnv (init (.simple .mapping) []) exPrefix
def exDemo : Sys := run exEnv (init (.demo .file .mapping) []) exPrefix

example : Proofs.StoreRules.RunOK exEnv (init (.simple .file) []) exPrefix := by decide
example : Reachable exEnv (.simple .file) [] exFile :=
  Proofs.StoreRules.reachable_run exEnv _ _ _ .init exPrefix (by decide)
example : Reachable exEnv (.simple .mapping) [] exMapping :=
  Proofs.StoreRules.reachable_run exEnv _ _ _ .init exPrefix (by decide)
example : Reachable exEnv (.demo .file .mapping) [] exDemo :=
  Proofs.StoreRules.reachable_run exEnv _ _ _ .init exPrefix (by decide)
-- two committed transactions, writer 3 holds the lock, its base 10 is stale (current is 20)
example : exFile.hist.map (·.tid) = [20, 10] ∧ exFile.lock = some 3 ∧ currentTid exFile.view 7 = some 20 := by
  decide
-- the `begin` of writer 3 while writer 2 held the lock was blocked
example : (step exEnv (run exEnv (init (.simple .file) []) (exPrefix.take 5)) (.begin 3 25)).out = .blocked := by
  decide
-- FileStorage / DemoStorage: resolved, the stored state is resolver(state@10, state@20, wanted)
example : (step exEnv exFile (.store 3 7 10 (exRec 102))).out = .resolvedStore ∧
    (step exEnv exFile (.store 3 7 10 (exRec 102))).sys.staged.map (·.data.state) =
      [.pair (.atom 100) (.pair (.atom 101) (.atom 102))] := by decide
example : (step exEnv exDemo (.store 3 7 10 (exRec 102))).out = .resolvedStore := by decide
-- MappingStorage: ConflictError
example : (step exEnv exMapping (.store 3 7 10 (exRec 102))).out = .conflict := by decide
-- un-creation: writer 3 deletes object 7 (serial 20) and commits as 30; a writer still holding
-- revision 20 then conflicts, getTid raises POSKeyError, a store with the un-creation's tid is accepted
def exDeleted : Sys := run exEnv exFile [.delete 3 7 20, .vote 3, .finish 3, .begin 4 40]
example : currentDeleted exDeleted.hist 7 = true ∧ currentTid exDeleted.hist 7 = some 30 ∧
    (step exEnv exDeleted (.store 4 7 20 (exRec 103))).out = .conflict ∧
    (step exEnv exDeleted (.check 4 7 30)).out = .keyError ∧
    (step exEnv exDeleted (.store 4 7 30 (exRec 103))).out = .ok := by decide
-- readCurrent on the stale serial: ReadConflictError; on the current one: ok
example : (step exEnv exFile (.check 3 7 10)).out = .readConflict ∧
    (step exEnv exFile (.check 3 7 20)).out = .ok := by decide

end Props.C03
