/-
  C13 — Blob data commits, aborts, undoes and packs together with its object record.

  Property theorems only (lemmas: `Proofs/Blob*.lean`; model: `ZodbModel/Blob.lean`).

  Vocabulary.  `s.files : (oid, tid) ⇀ bytes` is the set of committed-named files
  `<oid>/<tid>.blob` (read through `aget`), `s.hist` the committed records (newest first),
  `s.dirty` the dirty list of the transaction in progress.  `Reach s`: `s` is reachable from the
  empty storage (FileStorage+blob_dir or the BlobStorage wrapper over a storage without undo) by ANY
  sequence of mkTemp / begin / store / storeBlob / restoreBlob / vote / finish / abort / foreign abort /
  undo / pack operations — successful or failing — with, for the wrapper only, the two restrictions
  spelled out at `ZodbModel.Blob.Admissible` (no pack inside a transaction; the base pack keeps only
  the newest blob revision per surviving object).  On FileStorage EVERY operation sequence is
  covered (`every_fs_history_is_covered`).
-/
import Proofs.BlobMain
namespace Props.C13
open ZodbModel ZodbModel.Blob

/-- a committed blob revision `k = (oid, tid)` is listed in the records -/
abbrev BlobRecIn (h : List Rec) (k : Key) : Prop := Proofs.Blob.BlobRecIn h k

/-- on FileStorage every operation sequence is a history the theorems below cover -/
theorem every_fs_history_is_covered (ops : List Op) : Reach (run (init .fs) ops) :=
  Proofs.Blob.reach_run_fs ops

/-! ### exactly one file per committed blob revision, no others -/

/-- Outside a transaction the set of committed-named files is exactly the set of committed blob
    revisions: every committed blob record has its file (one: `files` is a map), and there is no
    file without a committed blob record — after any history of commits, aborts at any phase,
    failed calls, undos and packs. -/
theorem blob_files_match_records {s : St} (hr : Reach s) (hn : s.txn = none) (k : Key) :
    (aget s.files k).isSome ↔ BlobRecIn s.hist k :=
  Proofs.Blob.files_match_records hr hn k

/-- Inside a transaction the only additional files are those of the dirty list, all of which carry
    the tid of the transaction in progress, which is above every committed tid. -/
theorem blob_files_in_txn {s : St} (hr : Reach s) {t : Txn} (hn : s.txn = some t) :
    (∀ k, (aget s.files k).isSome ↔ (BlobRecIn s.hist k ∨ k ∈ s.dirty)) ∧
    (∀ k ∈ s.dirty, k.2 = t.tid) ∧ (∀ r ∈ s.hist, r.tid < t.tid) :=
  ⟨(Proofs.Blob.reach_inv hr).filesIff, (Proofs.Blob.reach_inv hr).dirty_tid hn,
   (Proofs.Blob.reach_inv hr).fresh t hn⟩

/-! ### the file holds exactly the bytes written -/

/-- A successful `storeBlob(oid, …, file n)` puts exactly the bytes of the uncommitted file under
    the name `(oid, tid of the transaction)` and stages the blob record for it. -/
theorem blob_bytes_exact {s : St} {t : Txn} (hn : s.txn = some t) (oid n base : Nat) (b : Bytes)
    (hb : aget s.tmp n = some b) (hok : (step s (.storeBlob oid n base)).2.2 = .ok) :
    aget (next s (.storeBlob oid n base)).files (oid, t.tid) = some b ∧
    ∃ t', (next s (.storeBlob oid n base)).txn = some t' ∧
      ∃ r ∈ t'.staged, r.key = (oid, t.tid) ∧ r.kind = .blob :=
  Proofs.Blob.storeBlob_exact hn oid n base true b hb hok

/-- … and from then on no step of any history changes those bytes: a step leaves every existing
    file exactly as it is, or removes it — and it removes it only by aborting the transaction that
    created it, or by a pack after which no kept blob record names it.  Only exception: a file the
    transaction in progress has itself put in place (dirty, not yet committed) may be replaced by a
    further `undo` of that same transaction (`DB.undoMultiple`: the last undo's bytes win). -/
theorem blob_bytes_never_change {s : St} (hr : Reach s) (o : Op) (ha : Admissible s o) (k : Key)
    (b : Bytes) (hkb : aget s.files k = some b) :
    aget (next s o).files k = some b ∨
    (aget (next s o).files k = none ∧
      ((o = .abort ∧ k ∈ s.dirty) ∨
       (∃ T drop ko, o = .pack T drop ko ∧ ¬ BlobRecIn (next s o).hist k))) ∨
    (k ∈ s.dirty ∧ ∃ utid, o = .undo utid) :=
  Proofs.Blob.file_fate (Proofs.Blob.reach_inv hr) o ha k b hkb

/-- For the file of a COMMITTED blob revision there is no exception: its bytes stay until a pack
    removes the revision. -/
theorem committed_blob_bytes_stable {s : St} (hr : Reach s) (o : Op) (ha : Admissible s o) (k : Key)
    (b : Bytes) (hkb : aget s.files k = some b) (hc : BlobRecIn s.hist k) :
    aget (next s o).files k = some b ∨
    (aget (next s o).files k = none ∧
      ∃ T drop ko, o = .pack T drop ko ∧ ¬ BlobRecIn (next s o).hist k) := by
  have hI := Proofs.Blob.reach_inv hr
  have hnd : k ∉ s.dirty := by
    intro hd
    obtain ⟨t, ht, hk2⟩ := hI.dirtyTid k hd
    obtain ⟨r, hrm, hkey, _⟩ := hc
    have h1 := hI.fresh t ht r hrm
    have h2 : k.2 = r.tid := by rw [← hkey]; rfl
    omega
  rcases Proofs.Blob.file_fate hI o ha k b hkb with h | ⟨hn, ⟨_, hd⟩ | hp⟩ | ⟨hd, _⟩
  · exact Or.inl h
  · exact absurd hd hnd
  · exact Or.inr ⟨hn, hp⟩
  · exact absurd hd hnd

/-! ### abort / failed commit at every phase -/

/-- operations that can occur between `tpc_begin` and the end of a transaction -/
abbrev InTxnOp : Op → Prop := Proofs.Blob.InTxnOp

/-- begin; ANY sequence of transaction operations — stores, blob stores, restores, undos, with or
    without a vote (abort before / after vote), calls that raise (conflict, missing file, undo
    error), foreign aborts —; abort:  the blob directory holds exactly the files it held before, with
    the same bytes, and the records are unchanged. -/
theorem abort_leaves_no_blob {s : St} (hr : Reach s) (hn : s.txn = none) (tid : Nat)
    (body : List Op) (hb : ∀ o ∈ body, InTxnOp o) :
    let s' := run s (.begin tid :: body ++ [.abort])
    (∀ k, aget s'.files k = aget s.files k) ∧ s'.hist = s.hist ∧ s'.txn = none ∧ s'.dirty = [] :=
  Proofs.Blob.abort_leaves_no_blob (Proofs.Blob.reach_inv hr) hn tid body hb

/-! ### no other connection sees uncommitted blob bytes -/

/-- While a transaction is in progress no step creates, removes or alters any file that a reader of
    committed data can name (a reader names `(oid, serial)` with `serial` the tid of a committed
    record, and all of those are below the tid in progress — `blob_files_in_txn`).  Blob objects
    themselves only ever write to private working copies (`working_copy_private`). -/
theorem uncommitted_invisible {s : St} (hr : Reach s) {t : Txn} (hn : s.txn = some t) (o : Op)
    (ha : Admissible s o) (k : Key) (hk : k.2 < t.tid) :
    aget (next s o).files k = aget s.files k :=
  Proofs.Blob.uncommitted_invisible (Proofs.Blob.reach_inv hr) hn o ha k hk

/-- `Blob.open('w'|'a'|'r+')` and `consumeFile` change the private working copy only; what the
    object's committed pointer refers to is untouched, and reading prefers the working copy. -/
theorem working_copy_private (o : Obj) (m : Mode) (data : Bytes) :
    (o.write m data).committed = o.committed ∧ (o.consume data).committed = o.committed ∧
    (o.write m data).read = writeMode m o.read data ∧ (o.consume data).read = data :=
  ⟨rfl, rfl, rfl, rfl⟩

/-! ### undo -/

/-- what undoing record `r` has produced (see `Proofs.Blob.Restored`): a staged record
    `(r.oid, tid of the undo)` that copies the revision before `r`; if that is a blob revision, the
    file `(r.oid, undo tid)` holds exactly its bytes; else (un-creation, non-blob) no such file. -/
abbrev Restored := Proofs.Blob.Restored

/-- A successful undo (FileStorage) restores the previous bytes of EVERY blob of the undone
    transaction: the new current revision's file holds exactly the bytes of the revision before the
    undone transaction; undoing a creation leaves no file.  (Redo = undo of the undo.) -/
theorem undo_restores_blob {s : St} (hr : Reach s) {t : Txn} (hn : s.txn = some t) (utid : Nat)
    (hok : (step s (.undo utid)).2.2 = .ok) :
    ∃ t', (next s (.undo utid)).txn = some t' ∧ t'.tid = t.tid ∧
      ∀ r ∈ s.hist, r.tid = utid → Restored s t t'.staged (next s (.undo utid)).files r :=
  Proofs.Blob.undo_restores_blob (Proofs.Blob.reach_inv hr) hn utid hok

/-! ### pack -/

/-- FULL STRENGTH, FileStorage: for ANY pack time `T` and ANY set `drop` of records the packer
    decides to remove, the pack removes precisely the files of the blob revisions it removes — the
    file of every kept blob revision stays with its bytes, every other file is gone — and the kept
    blob revisions are the old ones minus the dropped ones, never one written after `T`. -/
theorem pack_removes_exactly {s : St} (hr : Reach s) (hfs : s.flavor = .fs) (hn : s.txn = none)
    (T : Nat) (drop : List Key) (ko : Bool) :
    let s' := next s (.pack T drop ko)
    (∀ k, BlobRecIn s'.hist k → aget s'.files k = aget s.files k ∧ (aget s.files k).isSome) ∧
    (∀ k, ¬ BlobRecIn s'.hist k → aget s'.files k = none) ∧
    (∀ k, BlobRecIn s'.hist k ↔ (BlobRecIn s.hist k ∧ ¬ (k ∈ drop ∧ k.2 ≤ T))) :=
  Proofs.Blob.pack_removes_exactly (Proofs.Blob.reach_inv hr) hn T drop ko
    (fun hw => by rw [hfs] at hw; cases hw)

/-- FULL STRENGTH, wrapper over an undo-capable base storage (`_packUndoing`: keep a file iff
    `loadSerial` of its (oid, tid) still succeeds): exact for any `T` and `drop`. -/
theorem pack_removes_exactly_undoing_wrapper {s : St} (hr : Reach s) (hn : s.txn = none) (T : Nat)
    (drop : List Key) :
    let h' := packHist T drop s.hist
    (∀ k, BlobRecIn h' k → aget (packUndoing s.files h') k = aget s.files k ∧ (aget s.files k).isSome) ∧
    (∀ k, ¬ BlobRecIn h' k → aget (packUndoing s.files h') k = none) :=
  Proofs.Blob.packUndoing_removes_exactly (Proofs.Blob.reach_inv hr) hn T drop

/-- PARTIAL, wrapper over a base storage without undo (`_packNonUndoing`, the code as it is: keep
    only the newest file per surviving object).  The full statement — the one above, for every `T`
    and `drop` — is FALSE for this code (`wrapper_nonundo_pack_removes_kept_blob`, open finding
    `C13:nonundo-pack-removes-kept-blob`).  It holds exactly under `WrapPackOK`: the base pack keeps,
    of every surviving object, only the newest blob revision (e.g. a pack time after every
    revision). -/
theorem pack_removes_exactly_nonundo_wrapper_partial {s : St} (hr : Reach s) (hn : s.txn = none)
    (T : Nat) (drop : List Key) (ko : Bool) (hok : WrapPackOK s T drop) :
    let s' := next s (.pack T drop ko)
    (∀ k, BlobRecIn s'.hist k → aget s'.files k = aget s.files k ∧ (aget s.files k).isSome) ∧
    (∀ k, ¬ BlobRecIn s'.hist k → aget s'.files k = none) ∧
    (∀ k, BlobRecIn s'.hist k ↔ (BlobRecIn s.hist k ∧ ¬ (k ∈ drop ∧ k.2 ≤ T))) :=
  Proofs.Blob.pack_removes_exactly (Proofs.Blob.reach_inv hr) hn T drop ko (fun _ => ⟨hn, hok⟩)

/-! ### committed files are never modified in place -/

/-- what a raw file-system event of a step may be (see `Proofs.Blob.EvOK`): never create / write /
    truncate / link onto `<oid>/<tid>.blob`; rename onto such a name only inside a transaction and only
    onto a name carrying that transaction's tid; a file leaves the directory only by the abort of its
    transaction or by a pack -/
abbrev EvOK := Proofs.Blob.EvOK

theorem committed_never_rewritten (s : St) (o : Op) : ∀ ev ∈ (step s o).2.1, EvOK s o ev :=
  Proofs.Blob.events_ok s o

/-- … and a name carrying the tid of the transaction in progress is never the name of a committed
    file: create-by-rename never replaces a committed file. -/
theorem rename_target_not_committed {s : St} (hr : Reach s) {t : Txn} (hn : s.txn = some t)
    (k : Key) (hk : k.2 = t.tid) : ¬ BlobRecIn s.hist k := by
  rintro ⟨r, hr', hkey, _⟩
  have h1 := (Proofs.Blob.reach_inv hr).fresh t hn r hr'
  have h2 : k.2 = r.tid := by rw [← hkey]; rfl
  omega

/-! ### savepoints -/

/-- Rolling back to a savepoint shows, for every blob, exactly the savepoint file that savepoint
    saw — whatever later savepoints stored and whichever rollbacks to later savepoints happened in
    between (repair 47a289a). -/
theorem savepoint_rollback_restores_blob (ts : TmpStore) (hI : TsInv ts) (ops : List TsOp)
    (hv : ∀ o ∈ ops, TsOp.After ts.position o) (oid : Nat) :
    ((runTs ts ops).reset ts.state).loadBlob oid = ts.loadBlob oid :=
  Proofs.Blob.savepoint_rollback_restores ts hI ops hv oid

/-! ### what is NOT true of the code (negation witnesses for the two excluded points) -/

/-- The wrapper's pack run between `storeBlob` and `tpc_finish` deletes the in-flight blob file; the
    transaction then commits a blob record without a file.  (Excluded from `Reach`: C13 does not
    quantify over a pack interleaved with a transaction in progress.) -/
theorem wrapper_pack_in_txn_loses_blob :
    let s := run (init .wrap) [.mkTemp 1 [1], .begin 5, .storeBlob 7 1 0, .pack 9 [] false,
                               .vote, .finish]
    s.txn = none ∧ BlobRecIn s.hist (7, 5) ∧ aget s.files (7, 5) = none := by
  refine ⟨by decide, ⟨⟨7, 5, .blob, 0, 5, 0⟩, by decide, by decide, by decide⟩, by decide⟩

/-- `_packNonUndoing` removes the blob file of a revision the base storage keeps: two revisions,
    pack time before both (MappingStorage drops nothing) — the record (7, 5) is still there, its file
    is gone.  The un-hypothesised `pack_removes_exactly` is false for the non-undo wrapper. -/
theorem wrapper_nonundo_pack_removes_kept_blob :
    let s0 := run (init .wrap) [.mkTemp 1 [1], .begin 5, .storeBlob 7 1 0, .vote, .finish,
                                .mkTemp 2 [2], .begin 6, .storeBlob 7 2 5, .vote, .finish]
    let s := next s0 (.pack 4 [] false)
    aget s0.files (7, 5) = some [1] ∧ BlobRecIn s.hist (7, 5) ∧ aget s.files (7, 5) = none ∧
    aget s.files (7, 6) = some [2] := by
  refine ⟨by decide, ⟨⟨7, 5, .blob, 0, 5, 0⟩, by decide, by decide, by decide⟩, by decide, by decide⟩

/-! ### non-vacuity: concrete non-trivial histories meet the hypotheses -/

/-- create (5), rewrite (6), undo of the rewrite (8), pack dropping the two older revisions -/
def exOps : List Op :=
  [.mkTemp 1 [1, 1], .begin 5, .storeBlob 7 1 0, .store 0 1 0, .vote, .finish,
   .mkTemp 2 [2], .begin 6, .storeBlob 7 2 5, .vote, .finish,
   .begin 8, .undo 6, .vote, .finish]

example : (run (init .fs) exOps).txn = none := by decide
example : aget (run (init .fs) exOps).files (7, 8) = some [1, 1] := by decide     -- undo brought the old bytes back
example : (step (run (init .fs) (exOps.take 12)) (.undo 6)).2.2 = .ok := by decide  -- hypothesis of undo_restores_blob
example : aget (next (run (init .fs) exOps) (.pack 7 [(7, 5), (7, 6)] true)).files (7, 5) = none := by decide
example : aget (next (run (init .fs) exOps) (.pack 7 [(7, 5), (7, 6)] true)).files (7, 8) = some [1, 1] := by
  decide
-- abort after vote with a blob stored: nothing left
example : (run (run (init .fs) exOps) [.mkTemp 3 [3], .begin 9, .storeBlob 7 3 8, .vote, .abort]).files
    = (run (init .fs) exOps).files := by decide
-- multi-undo: two rewrites of one blob undone in ONE transaction: the file of the undo revision holds the
-- bytes the LAST undo restores (the first undo's copy is renamed over)
example : aget (run (init .fs) [.mkTemp 1 [0], .begin 5, .storeBlob 7 1 0, .vote, .finish,
    .mkTemp 2 [1], .begin 6, .storeBlob 7 2 5, .vote, .finish,
    .mkTemp 3 [2], .begin 7, .storeBlob 7 3 6, .vote, .finish,
    .begin 9, .undo 7, .undo 6, .vote, .finish]).files (7, 9) = some [0] := by decide
-- un-creation: undoing the creating transaction leaves no file for the undo tid
example : aget (run (init .fs) [.mkTemp 1 [1], .begin 5, .storeBlob 7 1 0, .vote, .finish,
    .begin 6, .undo 5, .vote, .finish]).files (7, 6) = none := by decide
-- WrapPackOK is satisfiable on a non-trivial state: pack after both revisions, older one dropped
example : aget (next (run (init .wrap) [.mkTemp 1 [1], .begin 5, .storeBlob 7 1 0, .vote, .finish,
    .mkTemp 2 [2], .begin 6, .storeBlob 7 2 5, .vote, .finish]) (.pack 9 [(7, 5)] false)).files (7, 6)
    = some [2] := by decide
instance (s : St) (T : Nat) (drop : List Key) : Decidable (WrapPackOK s T drop) := by
  unfold WrapPackOK; infer_instance
example : WrapPackOK (run (init .wrap) [.mkTemp 1 [1], .begin 5, .storeBlob 7 1 0, .vote, .finish,
    .mkTemp 2 [2], .begin 6, .storeBlob 7 2 5, .vote, .finish]) 9 [(7, 5)] := by decide
example : ¬ WrapPackOK (run (init .wrap) [.mkTemp 1 [1], .begin 5, .storeBlob 7 1 0, .vote, .finish,
    .mkTemp 2 [2], .begin 6, .storeBlob 7 2 5, .vote, .finish]) 4 [] := by decide
-- savepoints: sp1 holds AAA, a later savepoint stores BBB, rollback to sp1 shows AAA
example : (((TmpStore.empty.storeBlob 7 [65] 3).storeBlob 7 [66] 3).reset
    (TmpStore.empty.storeBlob 7 [65] 3).state).loadBlob 7 = some [65] := by decide

end Props.C13
