/-
  C05 — A transaction that does not finish leaves no trace and blocks no one.

  Property theorems only (lemmas: Proofs/TwoPC.lean, Proofs/TwoPCCommit.lean,
  Proofs/TwoPCMachines.lean; model: ZodbModel/TwoPC.lean).

  Reading.  `obs s` is what the property talks about: the committed transactions, `_pos`, the
  physical length of Data.fs, the index, `_ltid`, the blob directory, "staging empty", "commit lock
  free", "no transaction in progress", "closed" — deliberately NOT the oid high-water mark.
  A *history* is any list of calls (`Op`): begins with any metadata lengths, stores, blob stores,
  deletes, votes, finishes, aborts — of any transactions, in any order, also with a transaction
  other than the current one — and `fault k` arming the k-th raw file operation of the next call
  to raise.  `NoCommit s ops` says that no call of `ops` reaches the commit point (the status flip
  of `tpc_finish`); `abortCurrent` is the mandated `tpc_abort`.  So `ops` ranges over every way a
  transaction can fail or be abandoned before the finish: abort after begin / after any store /
  after vote, over-long user/description/extension, conflict, quota, every raw write of store and
  of vote failing, a foreign participant's failing vote (= abort arriving after our vote), several
  failed transactions in a row, interleaved foreign calls.  Nothing is bounded.
-/
import Proofs.TwoPCCommit
import Proofs.TwoPCMachines
import ZodbModel.Generated
namespace Props.C05
open ZodbModel ZodbModel.TwoPC Proofs.TwoPC

/-- tie to the constants harness/extract.py translates from /repo's source on every run: the
    transaction-header and data-header lengths the model's offsets and sizes are built from -/
theorem tie_header_lengths :
    (Generated.transHdrLen = none ∨ Generated.transHdrLen = some transHdrLen) ∧
    (Generated.dataHdrLen = none ∨ Generated.dataHdrLen = some dataHdrLen) := by decide

/-- every state the storage can be in: opened empty with any quota, then any calls whatsoever -/
def Reachable (s : State) : Prop := ∃ (q : Option Nat) (ops : List Op), s = run { quota := q } ops

/-- reachable states satisfy the lock / staging discipline all theorems below rest on -/
theorem reachable_inv (s : State) (h : Reachable s) : Inv s := by
  obtain ⟨q, ops, rfl⟩ := h; exact Proofs.TwoPC.reachable_inv q ops

/-- **abort_restores.**  From any reachable open state `s` with no transaction in progress, after
    ANY calls that do not reach the commit point, the mandated abort gives back exactly the
    observable state of `s` — on disk (file length, committed transactions, blob directory) and in
    memory (`_pos`, index, `_ltid`, staging, lock, `_transaction`). -/
theorem abort_restores (s : State) (hr : Reachable s) (hopen : s.closed = false)
    (hidle : s.txn = none) (ops : List Op) (hn : NoCommit s ops) :
    obs (abortCurrent (run s ops)) = obs s :=
  Proofs.TwoPC.abort_restores s ops (reachable_inv s hr) hopen hidle hn

/-- **lock_free_after** (1): afterwards the commit lock is free and a `tpc_begin` of any
    transaction is enabled. -/
theorem lock_free_after (s : State) (hr : Reachable s) (hopen : s.closed = false)
    (ops : List Op) (hn : NoCommit s ops) :
    (abortCurrent (run s ops)).commitLock = none ∧ canBegin (abortCurrent (run s ops)) = true :=
  abortCurrent_lock _ (run_inv s ops (reachable_inv s hr))
    (by have := congrArg Core.closed (run_core s ops hn); simp [core] at this; rw [this]; exact hopen)

/-- **lock_free_after** (2): and the following transaction — any metadata within 16 bits, any
    stores without conflict, quota respected, no fault injected — begins, votes and finishes with
    every call answering `ok`; it is then the newest committed transaction, `_ltid` is its tid,
    the file ends exactly behind it, the index points every stored oid at it and is otherwise
    unchanged, and the storage is idle again. -/
theorem next_transaction_commits (s : State) (hr : Reachable s) (hopen : s.closed = false)
    (ops : List Op) (hn : NoCommit s ops)
    (hnofault : (abortCurrent (run s ops)).armed = none)
    (t : TxnId) (tid st ul dl el : Nat) (stores : List StoreArg)
    (hul : ul ≤ 65535) (hdl : dl ≤ 65535) (hel : el ≤ 65535)
    (hcf : ∀ a ∈ stores, ∀ c p, lookup a.oid (abortCurrent (run s ops)).index = some (c, p) → a.serial = c)
    (hq : ∀ q, (abortCurrent (run s ops)).quota = some q →
      (abortCurrent (run s ops)).pos + (transHdrLen + ul + dl + el)
        + recsSize (mkRecs (abortCurrent (run s ops)) tid stores) ≤ q) :
    let s₁ := abortCurrent (run s ops)
    let s₂ := run s₁ (cleanTxn t tid st ul dl el stores)
    allOk (outs s₁ (cleanTxn t tid st ul dl el stores)) ∧
    s₂.txns = newTxn s₁ tid st ul dl el stores :: s₁.txns ∧
    s₂.ltid = tid ∧
    s₂.pos = s₁.pos + (transHdrLen + ul + dl + el) + recsSize (mkRecs s₁ tid stores) + 8 ∧
    s₂.fileLen = s₂.pos ∧
    s₂.txn = none ∧ s₂.commitLock = none ∧ s₂.closed = false ∧
    (∀ a ∈ stores, ∃ p, lookup a.oid s₂.index = some (tid, p)) ∧
    (∀ oid, oid ∉ stores.map (·.oid) → lookup oid s₂.index = lookup oid s₁.index) := by
  have hinv := abortCurrent_inv _ (run_inv s ops (reachable_inv s hr))
  have hc1 : (run s ops).closed = false := by
    have := congrArg Core.closed (run_core s ops hn); simp [core] at this; rw [this]; exact hopen
  have hc2 : (abortCurrent (run s ops)).closed = false := by
    have := congrArg Core.closed (abortCurrent_core (run s ops)); simp [core] at this
    rw [this]; exact hc1
  exact clean_commit _ t tid st ul dl el stores hinv hc2 (abortCurrent_txn _ hc1) hnofault
    hul hdl hel hcf hq

/-- **wrong_txn_noop.**  A call made with a transaction other than the one being committed (also
    when none is): `store`, `storeBlob`, `deleteObject`, `tpc_vote`, `tpc_finish` raise
    StorageTransactionError, `tpc_abort` returns silently; no raw file operation is issued and
    nothing observable changes (the whole state is unchanged up to disarming a pending fault). -/
theorem wrong_txn_noop (s : State) (hopen : s.closed = false) (t' : TxnId) (ht : s.txn ≠ some t') :
    (∀ op, rejectedOp t' op → step s op = ({ s with armed := none }, [], .errTxn)) ∧
    step s (.abort t') = ({ s with armed := none }, [], .ok) ∧
    obs { s with armed := none } = obs s :=
  ⟨fun op h => wrong_txn_rejected s t' op hopen ht h, wrong_txn_abort s t' hopen ht, rfl⟩

/-- **nothing_before_vote.**  Starting between transactions, as long as no `tpc_vote` is called —
    whatever else is (begins, stores, deletes, aborts, faults, foreign calls, even a premature
    finish) — not a single write or truncate reaches the data file. -/
theorem nothing_before_vote (s : State) (hidle : s.txn = none) (ops : List Op)
    (hnv : ∀ o ∈ ops, ∀ t, o ≠ .vote t) : dataMuts (trace s ops) = [] :=
  Proofs.TwoPC.nothing_before_vote s ops (fun h => absurd hidle h) hnv

/-- Committed bytes are never touched by a transaction that does not finish: every raw write or
    truncate of calls that stay before the commit point is at an offset `≥ _pos`. -/
theorem writes_beyond_pos (s : State) (ops : List Op) (h : NoCommit s ops) :
    (trace s ops).all (evBeyond s.pos) = true := trace_beyond s ops h

/-- A vote that raises an I/O error — whichever raw write failed — either failed on the temp-file
    flush before touching the data file, or its last raw operation is the truncate back to `_pos`
    (`except:` path); nothing else of the state changes. -/
theorem vote_failure_truncates (s : State) (t : TxnId) (hopen : s.closed = false)
    (h : (step s (.vote t)).2.2 = .errIO) :
    ((step s (.vote t)).1 = { s with armed := none } ∧ dataMuts (step s (.vote t)).2.1 = []) ∨
    ((step s (.vote t)).1 = { s with armed := none, fileLen := s.pos } ∧
      (step s (.vote t)).2.1.getLast? = some (.trunc .data s.pos)) :=
  vote_failure s t hopen h

/-- **finish_failure_closes.**  A failure at the status flip: `tpc_finish` raises, the storage has
    closed itself (every later call answers `closed`), the `finally` clause has forgotten the
    transaction and released the commit lock; what memory held as committed is unchanged. -/
theorem finish_failure_closes (s : State) (t : TxnId) (hcm : commits s (.finish t))
    (ha : s.armed = some 1) :
    (step s (.finish t)).2.2 = .errIO ∧
    (step s (.finish t)).1 = { s with closed := true, txn := none, commitLock := none, armed := none } ∧
    ∀ op, step (step s (.finish t)).1 op = ((step s (.finish t)).1, [], .closed) :=
  Proofs.TwoPC.finish_failure_closes s t hcm ha

/-- "Blocks no one" when the abort itself fails: if `_abort` raises inside `tpc_abort(t)` (its
    truncate, or the removal of a blob file, fails) the call raises, the committed core is untouched,
    and the `finally` clause has released the commit lock: `tpc_begin` of any other transaction with
    admissible metadata is enabled and answers `ok`. -/
theorem abort_fault_releases_lock (s : State) (t : TxnId) (hopen : s.closed = false)
    (ht : s.txn = some t) :
    (doAbortFault s t).2.2 = .errIO ∧ (doAbortFault s t).1.commitLock = none ∧
    canBegin (doAbortFault s t).1 = true ∧ core (doAbortFault s t).1 = core s ∧
    ∀ t₂ tid st ul dl el, t₂ ≠ t → ul ≤ 65535 → dl ≤ 65535 → el ≤ 65535 →
      (step (doAbortFault s t).1 (.begin t₂ tid st ul dl el)).2.2 = .ok := by
  have h : doAbortFault s t = ({ s with commitLock := none, armed := none }, [.fault .data], .errIO) := by
    simp [doAbortFault, hopen, ht]
  rw [h]
  refine ⟨rfl, rfl, by simp [canBegin, hopen], rfl, ?_⟩
  intro t₂ tid st ul dl el hne hul hdl hel
  have h1 : ¬ ul > 65535 := by omega
  have h2 : ¬ dl > 65535 := by omega
  have h3 : ¬ el > 65535 := by omega
  have hne' : ¬ (t = t₂) := fun e => hne e.symm
  simp [step, hopen, doBegin, ht, hne', h1, h2, h3]

/-- The same through a DemoStorage over a FileStorage: when the truncate inside `changes.tpc_abort`
    fails, the error propagates, the demo storage has no transaction, and BOTH commit locks are free
    (DemoStorage releases its lock in a `finally`). -/
theorem demo_abort_fault_releases_locks (d : Demo.State fileMachine) (t : TxnId)
    (hopen : d.changes.closed = false) (hd : d.txn = some t) (hc : d.changes.txn = some t) :
    let r := doAbortFault d.changes t
    let d' := (Demo.doAbortFault d t (r.1, r.2.2)).1
    (Demo.doAbortFault d t (r.1, r.2.2)).2 = .errIO ∧ d'.txn = none ∧ d'.commitLock = none ∧
    d'.changes.commitLock = none ∧ canBegin d'.changes = true := by
  have h : doAbortFault d.changes t =
      ({ d.changes with commitLock := none, armed := none }, [.fault .data], .errIO) := by
    simp [doAbortFault, hopen, hc]
  simp [h, Demo.doAbortFault, hd, canBegin, hopen]

/-! ### MappingStorage (optionally under a BlobStorage) and DemoStorage -/

/-- C05 for MappingStorage: observable state restored, commit lock free, from every reachable
    idle state and every history that does not reach `tpc_finish` of the current transaction. -/
theorem mapping_abort_restores (pre ops : List Op)
    (hidle : (mappingMachine.run ({} : Mapping.State) pre).txn = none)
    (hn : mappingContract.NoCommit (mappingMachine.run {} pre) ops) :
    let s := mappingMachine.run ({} : Mapping.State) pre
    Mapping.obs (mappingMachine.abortCurrent (mappingMachine.run s ops)) = Mapping.obs s ∧
    (mappingMachine.abortCurrent (mappingMachine.run s ops)).commitLock = none := by
  have h := mappingContract.abort_restores _ ops
    (mappingContract.run_inv _ pre Proofs.TwoPC.Mapping.inv_init) rfl hidle hn
  exact ⟨h.1, by simpa [mappingMachine] using h.2.1⟩

/-- a foreign `tpc_abort` on a (Blob)MappingStorage changes nothing — in particular it leaves the
    in-flight transaction's blob files alone — and foreign store/vote/finish are rejected -/
theorem mapping_wrong_txn_noop (s : Mapping.State) (t' : TxnId) (ht : s.txn ≠ some t') :
    Mapping.step s (.abort t') = (s, .ok) ∧ Mapping.step s (.vote t') = (s, .errTxn) ∧
    Mapping.step s (.finish t') = (s, .errTxn) ∧
    (∀ oid ser dlen tag, Mapping.step s (.store t' oid ser dlen tag) = (s, .errTxn)) ∧
    (∀ oid ser dlen tag, Mapping.step s (.storeBlob t' oid ser dlen tag) = (s, .errTxn)) := by
  simp [Mapping.step, Mapping.doAbort, Mapping.doVote, Mapping.doFinish, Mapping.doStore, ht]

/-- C05 for DemoStorage over ANY changes storage meeting the commit-protocol contract `C`
    (hence over FileStorage, MappingStorage and stacked demo storages): after any history that does
    not reach the commit point — including a `changes.tpc_begin` that raises — the mandated abort
    restores the changes storage's observable state, leaves no demo transaction, frees the
    DemoStorage commit lock AND every commit lock below it, and the storage stays usable. -/
theorem demo_abort_restores {M : Machine} (C : Contract M) (d : Demo.State M)
    (hinv : DemoC.Inv C d) (husable : M.usable d.changes = true) (hidle : d.txn = none)
    (ops : List Op) (hn : (demoContract C).NoCommit d ops) :
    let d' := (demoMachine M).abortCurrent ((demoMachine M).run d ops)
    C.obs d'.changes = C.obs d.changes ∧ d'.txn = none ∧ d'.commitLock = none ∧
    M.lockFree d'.changes = true ∧ M.usable d'.changes = true := by
  have h := (demoContract C).abort_restores d ops hinv husable hidle hn
  have hobs := h.1
  simp only [demoContract, DemoC.obs, Prod.mk.injEq, decide_eq_decide] at hobs
  have hl := h.2.1
  simp only [demoMachine, Bool.and_eq_true, decide_eq_true_eq] at hl
  exact ⟨hobs.1, hobs.2.1.2 hidle, hl.1, hl.2, h.2.2⟩

/-- the two instances the harness drives, from their initial states -/
theorem demo_over_file_inv (q : Option Nat) (base : List (Oid × Tid)) (ops : List Op) :
    DemoC.Inv fileContract ((demoMachine fileMachine).run
      ({ changes := ({ quota := q } : State), base := base } : Demo.State fileMachine) ops) :=
  (demoContract fileContract).run_inv _ ops
    (demo_inv_init fileContract _ base (by intro _; simp) rfl)

theorem demo_over_mapping_inv (base : List (Oid × Tid)) (ops : List Op) :
    DemoC.Inv mappingContract ((demoMachine mappingMachine).run
      ({ changes := ({} : Mapping.State), base := base } : Demo.State mappingMachine) ops) :=
  (demoContract mappingContract).run_inv _ ops
    (demo_inv_init mappingContract _ base Proofs.TwoPC.Mapping.inv_init rfl)

/-- foreign calls on a DemoStorage: rejected / ignored without any effect -/
theorem demo_wrong_txn_noop {M : Machine} (d : Demo.State M) (t' : TxnId) (ht : d.txn ≠ some t') :
    (∀ oid ser dlen tag, Demo.step d (.store t' oid ser dlen tag) = (d, .errTxn)) ∧
    (∀ oid ser dlen tag, Demo.step d (.storeBlob t' oid ser dlen tag) = (d, .errTxn)) ∧
    Demo.step d (.finish t') = (d, .errTxn) ∧
    Demo.step d (.abort t') = (d, .ok) :=
  demo_wrong_txn d t' ht

/-! ### the boundary of the property in the code as it is: a failing `tpc_finish` callback

  `tpc_finish(t, f)` calls `f(tid)` before the commit point.  If `f` raises, the transaction has not
  finished, yet (model following FileStorage.tpc_finish / DemoStorage.tpc_finish line by line) the
  mandated abort can no longer restore the state.  A failing callback is NOT one of the error kinds
  C05 lists (I/O failure, quota, conflict, over-long metadata, a foreign failing vote), so this is
  outside the property: the two results below are NEGATIVE observations with concrete witnesses, both
  replayed on the real code (harness probe `finishcb`, counted as
  `observation:finish-callback-failure:*`; stand-alone scripts corpus/C05/observation_finish_callback_*.py).
  `abort_restores` above is unaffected: its histories are lists of `Op`, and the raising callback is
  not an `Op`. -/

/-- FileStorage: after `begin; store; vote; tpc_finish(t, raising f)` the storage has forgotten the
    transaction and freed the lock, `tpc_abort(t)` is ignored, and the voted bytes are still in the
    file behind `_pos` (and the staging area is not cleared) -/
theorem finish_callback_failure_leaves_voted_data :
    ∃ (s : State) (ops : List Op) (t : TxnId), Reachable s ∧ s.closed = false ∧ s.txn = none ∧
      NoCommit s ops ∧
      let s₁ := (doFinishCb (run s ops) t).1
      (doFinishCb (run s ops) t).2.2 = .errCallback ∧
      s₁.commitLock = none ∧ (step s₁ (.abort t)).1 = s₁ ∧
      s₁.pos < s₁.fileLen ∧ obs (abortCurrent s₁) ≠ obs s :=
  ⟨run {} [.begin 1 100 32 0 0 0, .store 1 1 0 10 7, .vote 1, .finish 1],
   [.begin 2 200 32 0 5 0, .store 2 2 0 30 9, .vote 2], 2,
   ⟨none, _, rfl⟩, by decide, by decide, by decide, by decide⟩

/-- DemoStorage over MappingStorage: after `tpc_finish(t, raising f)` the demo storage has no
    transaction but still holds its commit lock, the mandated `tpc_abort(t)` is ignored, and the next
    `tpc_begin` of any transaction blocks -/
theorem demo_finish_callback_failure_leaks_lock :
    ∃ (d : Demo.State mappingMachine) (t : TxnId),
      d.txn = some t ∧ d.commitLock = some t ∧
      let d₁ := (Demo.doFinishCb d t (Mapping.doFinishCb d.changes t)).1
      d₁.txn = none ∧ d₁.commitLock = some t ∧
      (Demo.step d₁ (.abort t)).2 = .ok ∧ (Demo.step d₁ (.abort t)).1.commitLock = some t ∧
      (Demo.step (Demo.step d₁ (.abort t)).1 (.begin 3 300 32 0 0 0)).2 = .blocked :=
  ⟨(mappingMachine |> demoMachine).run
      ({ changes := ({} : Mapping.State), base := [] } : Demo.State mappingMachine)
      [.begin 2 200 32 0 0 0, .store 2 1 0 5 5, .vote 2], 2, by decide, by decide, by decide⟩

/-! ### non-vacuity: concrete histories meet the hypotheses and exercise the failure paths -/

/-- one committed transaction (oid 1), quota 10000 -/
def ex0 : State :=
  run { quota := some 10000 }
    [.begin 1 100 32 3 4 0, .store 1 1 0 10 7, .vote 1, .finish 1]

example : Reachable ex0 := ⟨some 10000, _, rfl⟩
example : ex0.closed = false ∧ ex0.txn = none ∧ ex0.txns.length = 1 ∧ ex0.pos = 4 + 30 + 52 + 8 := by
  decide

/-- victim: two stores, the vote fails at its 3rd raw operation (temp flush, header, *record 1*) -/
def exVoteFault : List Op :=
  [.begin 2 200 32 0 5 0, .store 2 1 100 20 8, .store 2 2 0 30 9, .fault 3, .vote 2]

example : NoCommit ex0 exVoteFault := by decide
example : (step (run ex0 (exVoteFault.take 4)) (.vote 2)).2 =
    ([.write .tmp 0 134, .write .data 94 28, .fault .data, .trunc .data 94], .errIO) := by decide
example : obs (abortCurrent (run ex0 exVoteFault)) = obs ex0 := by decide

/-- foreign participant's vote fails: abort arrives after our successful vote -/
def exForeignVote : List Op := [.begin 2 200 32 0 5 0, .store 2 2 0 30 9, .vote 2]
example : NoCommit ex0 exForeignVote ∧ (run ex0 exForeignVote).fileLen = 94 + 28 + 72 + 8 ∧
    (step (run ex0 exForeignVote) (.abort 2)).2.1 = [.trunc .data 94] ∧
    obs (abortCurrent (run ex0 exForeignVote)) = obs ex0 := by decide

/-- over-long description, conflict, quota, foreign calls, blob — each leaves a state that differs
    from `ex0` before the abort and equals it after -/
example : (step ex0 (.begin 2 200 32 0 65536 0)).2.2 = .errMeta 1 ∧
    obs (step ex0 (.begin 2 200 32 0 65536 0)).1 ≠ obs ex0 ∧
    obs (abortCurrent (run ex0 [.begin 2 200 32 0 65536 0])) = obs ex0 := by decide
example : outs ex0 [.begin 2 200 32 0 0 0, .store 2 1 99 5 5, .store 2 3 0 9900 6, .storeBlob 2 4 0 5 5,
      .store 3 1 100 5 5, .vote 3, .finish 3, .abort 3] =
    [.ok, .errConflict, .ok, .errQuota, .errTxn, .errTxn, .errTxn, .ok] := by decide
example : obs (abortCurrent (run ex0 [.begin 2 200 32 0 0 0, .store 2 1 99 5 5,
    .store 2 3 0 9900 6, .storeBlob 2 4 0 5 5, .store 3 1 100 5 5, .vote 3, .finish 3, .abort 3])) = obs ex0 := by
  decide

/-- the hypothesis matters: a transaction that does reach the commit point changes `obs` -/
example : ¬ NoCommit ex0 [.begin 2 200 32 0 0 0, .store 2 1 100 5 5, .vote 2, .finish 2] ∧
    obs (run ex0 [.begin 2 200 32 0 0 0, .store 2 1 100 5 5, .vote 2, .finish 2]) ≠ obs ex0 := by decide

/-- finish failure -/
example : commits (run ex0 exForeignVote) (.finish 2) := by decide
example : (step (run ex0 (exForeignVote ++ [.fault 1])) (.finish 2)).2.2 = .errIO ∧
    (run ex0 (exForeignVote ++ [.fault 1, .finish 2])).closed = true := by decide

/-- DemoStorage over FileStorage: `changes.tpc_begin` fails (description too long); the abort still
    releases both locks and the next transaction begins -/
def exDemo : Demo.State fileMachine := { changes := ex0, base := [(9, 50)] }
example :
    let d1 := (demoMachine fileMachine).run exDemo [.begin 2 200 32 0 70000 0]
    let d2 := (demoMachine fileMachine).abortCurrent d1
    (Demo.step exDemo (.begin 2 200 32 0 70000 0)).2 = .errMeta 1 ∧
    d1.commitLock = some 2 ∧ d1.changes.commitLock = some 2 ∧
    d2.commitLock = none ∧ d2.changes.commitLock = none ∧ obs d2.changes = obs ex0 ∧
    (Demo.step d2 (.begin 3 300 32 0 0 0)).2 = .ok := by decide

end Props.C05
