/-
  Tie between constants translated from /repo's source on every run (`ZodbModel/Generated.lean`,
  written by harness/extract.py) and the constants the hand-written models use.  A constant that
  changed in the source makes the corresponding theorem fail to build.  (`none` = the source
  pattern was not found; the tie for it is vacuous and the correspondence check carries the link.)
-/
import ZodbModel.Generated
import ZodbModel.FsIndex
import ZodbModel.Format
import ZodbModel.Recover
import ZodbModel.IndexCache
namespace Props.Tie
open ZodbModel

def agrees (g : Option Nat) (m : Nat) : Bool := match g with | none => true | some v => v == m

/-- fsIndex splits an 8-byte key into a 6-byte prefix and a 2-byte suffix (`65536 = 256^2`) … -/
theorem fsIndex_prefix_split : agrees Generated.fsIndexPrefixBytes 6 = true ∧ 256 ^ (8 - 6) = 65536 := by
  decide
/-- … and stores 6-byte (48-bit) values. -/
theorem fsIndex_value_width : agrees Generated.fsIndexValueBytes 6 = true ∧ 256 ^ 6 = 2 ^ 48 := by
  decide

/-- the 4-byte FileStorage magic the byte-level models start every file with (`b"FS30"`) -/
theorem filestorage_magic :
    agrees Generated.magicAsNat (beVal ZodbModel.Format.magic) = true ∧
    ZodbModel.Format.magic = ZodbModel.Recover.magic := by decide

/-- `_check_sanity`: at most 5 records are compared with the index, and an index position below 100
    is never trusted -/
theorem sanity_constants :
    agrees Generated.sanityMaxChecked ZodbModel.IndexCache.maxChecked = true ∧
    agrees Generated.sanityMinPos 100 = true := by decide

/-- `fsrecover.scan` reads 8096-byte windows -/
theorem recover_scan_window : agrees Generated.recoverScanWindow ZodbModel.Recover.window = true := by
  decide

end Props.Tie
