/-
  Tie between constants translated from /repo's source on every run (`ZodbModel/Generated.lean`,
  written by harness/extract.py) and the constants the hand-written models use.  A constant that
  changed in the source makes the corresponding theorem fail to build.  (`none` = the source
  pattern was not found; the tie for it is vacuous and the correspondence check carries the link.)
-/
import ZodbModel.Generated
import ZodbModel.FsIndex
namespace Props.Tie
open ZodbModel

def agrees (g : Option Nat) (m : Nat) : Bool := match g with | none => true | some v => v == m

/-- fsIndex splits an 8-byte key into a 6-byte prefix and a 2-byte suffix (`65536 = 256^2`) … -/
theorem fsIndex_prefix_split : agrees Generated.fsIndexPrefixBytes 6 = true ∧ 256 ^ (8 - 6) = 65536 := by
  decide
/-- … and stores 6-byte (48-bit) values. -/
theorem fsIndex_value_width : agrees Generated.fsIndexValueBytes 6 = true ∧ 256 ^ 6 = 2 ^ 48 := by
  decide

end Props.Tie
