/-
  C16 — A demo storage never modifies its base and reads as changes-over-base.

  Property theorems only (helper lemmas: `Proofs/Demo*.lean`).  The model (`ZodbModel/Demo.lean`)
  follows DemoStorage.py as coded over abstract history-backed layers; a `Store` is a stack
  `demo (demo base c₁ _) c₂ _ …`, so every theorem about `Store` holds for all stackings.  The spec
  is ONE history: the concatenation `s.iterator` (base first) and, per oid, its revision list
  `s.revs o`, queried with the History semantics (`loadBeforeR`, `loadSerialR`, `getTidR`, `historyR`).

  Hypotheses (all decidable predicates on the state):
    `Sorted`      each layer's transactions are in increasing tid order,
    `TidOrdered`  every changes tid is above every tid below it,
    `BelowMax`    tids are below `maxtid`,
    `UncreateOverNothing`  a changes layer holds an un-creation record only for an oid unknown below.
  `Sorted` and `TidOrdered` are THEOREMS for every reachable state (`reachable_tid_ordered`): the
  repaired `tpc_begin` takes clock tids above `lastTransaction()`; only a caller passing an explicit
  tid must pass one above `lastTransaction()`.  `UncreateOverNothing` is NOT enforced by the code: undo
  through a demo storage whose changes support undo can write an un-creation over a base object; the
  model then shows the wrong answers (`uncreate_over_base_*`, open finding
  `C16:undo-over-base-(loadbefore|unwritable)`).
-/
import Proofs.DemoInv
namespace Props.C16
open ZodbModel ZodbModel.Demo Proofs.Demo

/-! ### 1. the base is never modified -/

/-- No API call made on a demo storage changes the storage below it: the result is a demo storage
    over the very same base, or (`pop`) that base itself, or (`push`) a new demo storage over the
    unchanged demo storage.  In particular no step of the two-phase commit reaches the base. -/
theorem demo_base_unchanged (b : Store) (c : Layer) (ds : DState) (op : Op) :
    (∃ c' ds', (step (.demo b c ds) op).1 = .demo b c' ds') ∨
    (step (.demo b c ds) op).1 = b ∨
    (∃ c' ds', (step (.demo b c ds) op).1 = .demo (.demo b c ds) c' ds') :=
  step_base b c ds op

/-- … and so does every history of transactions, undos, packs and allocations -/
theorem demo_base_unchanged_run (b : Store) (ops : List Op)
    (h : ∀ op ∈ ops, Op.isStack op = false) (c : Layer) (ds : DState) :
    ∃ c' ds', run (.demo b c ds) ops = .demo b c' ds' :=
  run_base b ops h c ds

/-- push, any history, pop: the storage pushed upon comes back exactly as it was -/
theorem push_pop (s : Store) (d : Oid) (ops : List Op) (h : ∀ op ∈ ops, Op.isStack op = false) :
    run s ([.push d] ++ ops ++ [.pop]) = s :=
  push_run_pop s d ops h

/-! ### 2. every read = the read on the concatenated history -/

/-- `loadBefore` (up to `None` ≈ POSKeyError, and exactly when no un-creation record of the oid exists),
    `load`, `loadSerial`, `getTid`, `history`: the demo stack answers as the single history
    `base ++ changes` does — including the end tid that joins a base revision to the first change. -/
theorem demo_load_is_merge (s : Store) (hs : Sorted s) (ho : TidOrdered s) (hm : BelowMax s)
    (hu : UncreateOverNothing s) (o : Oid) :
    (∀ t, vis (s.loadBefore o t) = vis (loadBeforeR (s.revs o) t)) ∧
    (AllData (s.revs o) → ∀ t, s.loadBefore o t = loadBeforeR (s.revs o) t) ∧
    s.load o = loadCurrentR (s.revs o) ∧
    (∀ ser, s.loadSerial o ser = loadSerialR (s.revs o) ser) ∧
    s.getTid o = getTidR (s.revs o) ∧
    (∀ n, 1 ≤ n → s.history o n = historyR (s.revs o) n) :=
  have hok := oidOK_of hs ho hm hu o
  ⟨store_loadBefore_vis s o hok, store_loadBefore_exact s o hok, store_load s o hok,
   store_loadSerial s o hok, store_getTid s o hok, fun n hn => store_history s o n hn⟩

/-- the revisions of an oid in a demo storage are the base's followed by the changes' -/
theorem revs_concat (b : Store) (c : Layer) (ds : DState) (o : Oid) :
    (Store.demo b c ds).revs o = b.revs o ++ c.revs o := revs_demo b c ds o

/-- `iterator()` yields the concatenated history in strictly increasing tid order, and
    `iterator(start, stop)` is its restriction to the range -/
theorem demo_iterator (s : Store) (hs : Sorted s) (ho : TidOrdered s) (a z : Tid) :
    s.iterator.Pairwise (fun x y => x.tid < y.tid) ∧
    s.iteratorRange a z = s.iterator.filter (fun t => a ≤ t.tid ∧ t.tid ≤ z) :=
  ⟨iterator_sorted hs ho, iteratorRange_eq s a z⟩

/-- **stack_assoc**: how a history is cut into layers does not matter — two stacks with the same
    concatenated history answer every read alike (e.g. `demo (demo b c₁) c₂` and `demo b (c₁ ++ c₂)`) -/
theorem stack_assoc (s₁ s₂ : Store) (h : s₁.iterator = s₂.iterator)
    (h₁ : Sorted s₁ ∧ TidOrdered s₁ ∧ BelowMax s₁ ∧ UncreateOverNothing s₁)
    (h₂ : Sorted s₂ ∧ TidOrdered s₂ ∧ BelowMax s₂ ∧ UncreateOverNothing s₂) (o : Oid) :
    (∀ t, vis (s₁.loadBefore o t) = vis (s₂.loadBefore o t)) ∧
    s₁.load o = s₂.load o ∧ (∀ ser, s₁.loadSerial o ser = s₂.loadSerial o ser) ∧
    s₁.getTid o = s₂.getTid o ∧ (∀ n, 1 ≤ n → s₁.history o n = s₂.history o n) := by
  obtain ⟨a1, a2, a3, a4⟩ := h₁
  obtain ⟨b1, b2, b3, b4⟩ := h₂
  obtain ⟨p1, _, p3, p4, p5, p6⟩ := demo_load_is_merge s₁ a1 a2 a3 a4 o
  obtain ⟨q1, _, q3, q4, q5, q6⟩ := demo_load_is_merge s₂ b1 b2 b3 b4 o
  have hr : s₁.revs o = s₂.revs o := by unfold Store.revs; rw [h]
  refine ⟨fun t => by rw [p1, q1, hr], by rw [p3, q3, hr], fun ser => by rw [p4, q4, hr],
    by rw [p5, q5, hr], fun n hn => by rw [p6 n hn, q6 n hn, hr]⟩

/-! ### 3. TidOrdered is an invariant of the (repaired) code -/

/-- Concurrency: in the model `begin` is ONE action — the tid is chosen (`beginTid` from
    `lastTransaction()`) and handed to the changes while the commit lock is held, and the lock is kept
    until `finish`/`abort` — so overlapping commits are exactly the operation lists below, in the order
    in which the commit lock was obtained.  That the code chooses the tid only AFTER acquiring
    `_commit_lock` is an [I] fact the harness checks on the real code (gated commit lock and scheduler
    runs, signature `C16:commit-tid-order`).

    Starting from an empty storage, whatever is done — as long as a caller who passes an explicit tid
    passes one above `lastTransaction()`; tids taken from the clock need no hypothesis at all, whatever
    the clock reads — every layer is sorted, every changes tid is above every tid below, and
    `lastTransaction()` dominates all tids. -/
theorem reachable_tid_ordered (canUndo : Bool) (ops : List Op)
    (hops : ∀ (pre : List Op) (op : Op) (post : List Op), ops = pre ++ op :: post →
      OpOK (run (.leaf (Layer.empty canUndo)) pre) op) :
    let s := run (.leaf (Layer.empty canUndo)) ops
    Sorted s ∧ TidOrdered s ∧ ∀ t ∈ s.iterator, t.tid ≤ s.lastTransaction :=
  have hi := run_inv (.leaf (Layer.empty canUndo)) ops
    (show Inv (.leaf (Layer.empty canUndo)) from layerInv_empty 0 canUndo) hops
  ⟨inv_sorted hi, inv_tidOrdered hi, inv_dominates hi⟩

/-- the newest snapshot (`lastTransaction() + 1`) shows every object exactly as `load` does -/
theorem newest_snapshot_is_current (s : Store) (hi : Inv s) (hm : BelowMax s)
    (hu : UncreateOverNothing s) (o : Oid) :
    vis (s.loadBefore o (s.lastTransaction + 1)) = vis (s.loadBefore o maxtid) :=
  snapshot_current hi hm hu o

/-! ### 4. conflict detection uses the merged current revision -/

/-- `store(oid, serial, …)` inside the transaction in progress succeeds iff `serial` is the tid of the
    current revision of the concatenated history — wherever that revision lives — and any serial is
    accepted for an oid unknown to all layers; otherwise ConflictError (nothing is resolvable here). -/
theorem demo_conflict_merged (b : Store) (c : Layer) (ds : DState) (x : Nat) (o : Oid) (ser : Tid)
    (d : Data) (htxn : ds.txn = some x) (hst : c.staged.isSome = true)
    (hs : Sorted (.demo b c ds)) (ho : TidOrdered (.demo b c ds)) (hm : BelowMax (.demo b c ds))
    (hu : UncreateOverNothing (.demo b c ds)) :
    ((Store.demo b c ds).revs o = [] → (step (.demo b c ds) (.store x o ser d)).2 = .ok) ∧
    (∀ tl dl, ((Store.demo b c ds).revs o).getLast? = some (tl, some dl) →
      (ser = tl → (step (.demo b c ds) (.store x o ser d)).2 = .ok) ∧
      (ser ≠ tl → (step (.demo b c ds) (.store x o ser d)).2 = .err .conflict)) :=
  store_conflict_merged b c ds x o ser d htxn hst (oidOK_of hs ho hm hu o) (by
    intro y hy
    obtain ⟨t, ht, he, _⟩ := mem_revsOf hy
    rw [← he]; exact hm t ht)

/-- `checkCurrentSerialInTransaction(oid, serial, …)` (readCurrent) inside the transaction in progress
    compares `serial` with the current tid of the *concatenated* history: accepted iff they are equal,
    ReadConflictError otherwise — also for a non-current serial of an object that lives only in the base
    — and POSKeyError for an object without (live) current revision.  It changes nothing. -/
theorem demo_readcurrent_merged (b : Store) (c : Layer) (ds : DState) (x : Nat) (o : Oid) (ser : Tid)
    (htxn : ds.txn = some x) (hs : Sorted (.demo b c ds)) (ho : TidOrdered (.demo b c ds))
    (hm : BelowMax (.demo b c ds)) (hu : UncreateOverNothing (.demo b c ds)) :
    step (.demo b c ds) (.checkCurrent x o ser) =
      (.demo b c ds, match getTidR ((Store.demo b c ds).revs o) with
                     | .error e => .err e
                     | .ok t => if t = ser then .ok else .err .readConflict) := by
  have h := store_getTid _ o (oidOK_of hs ho hm hu o)
  simp only [step, htxn, ne_eq, not_true_eq_false, if_false, h, checkCurrentOut]
  cases getTidR ((Store.demo b c ds).revs o) <;> rfl

/-! ### 5. new ids never collide -/

/-- For EVERY stream of candidate draws: the oid `new_oid` returns is not in the issued set and
    `load_current` fails for it in the changes and in the base; it is then recorded as issued.  If any
    candidate of the stream is free, an oid is returned. -/
theorem demo_oid_fresh (b : Store) (c : Layer) (ds : DState) (draws : List Oid) :
    (∀ o used, (step (.demo b c ds) (.newOid draws)).2 = .oid (some o) used →
      o ∉ ds.issued ∧ (Store.leaf c).live o = false ∧ b.live o = false ∧
      ∃ ds', (step (.demo b c ds) (.newOid draws)).1 = .demo b c ds' ∧ ds'.issued = o :: ds.issued ∧
        ds'.next = o + 1) ∧
    ((freeOid b c ds ds.next = true ∨ ∃ d ∈ draws, freeOid b c ds d = true) →
      ∃ o used, (step (.demo b c ds) (.newOid draws)).2 = .oid (some o) used) := by
  refine ⟨fun o used h => newOid_fresh b c ds draws o used h, ?_⟩
  intro h
  obtain ⟨o, nxt, u, hr⟩ := drawLoop_complete draws ds.next 0 h
  exact ⟨o, u, by simp [step, hr]⟩

/-- with no un-creation records, "`load_current` fails" is "no revision in that layer": the new oid
    is outside issued ∪ oids(changes) ∪ oids(base) -/
theorem demo_oid_fresh_oids (b : Store) (c : Layer) (ds : DState) (draws : List Oid) (o : Oid)
    (used : Nat) (hs : Sorted (.demo b c ds)) (ho : TidOrdered (.demo b c ds))
    (hm : BelowMax (.demo b c ds)) (hu : UncreateOverNothing (.demo b c ds))
    (hd : AllData ((Store.demo b c ds).revs o))
    (h : (step (.demo b c ds) (.newOid draws)).2 = .oid (some o) used) :
    o ∉ ds.issued ∧ c.revs o = [] ∧ b.revs o = [] := by
  obtain ⟨h1, h2, h3, _⟩ := newOid_fresh b c ds draws o used h
  rw [revs_demo] at hd
  have hmb : BelowMax b := belowMax_base hm
  have hb : b.revs o = [] := by
    apply Classical.byContradiction
    intro hne
    have := (live_iff b o (oidOK_of hs.1 ho.1 hmb hu.1 o) (allData_append hd).1 (by
      intro y hy
      obtain ⟨t, ht, he, _⟩ := mem_revsOf hy
      rw [← he]; exact hmb t ht)).2 hne
    rw [this] at h3; cases h3
  have hc : c.revs o = [] := by
    apply Classical.byContradiction
    intro hne
    have := (live_iff (.leaf c) o trivial (allData_append hd).2 (by
      intro y hy
      obtain ⟨t, ht, he, _⟩ := mem_revsOf hy
      rw [← he]; exact hm t (List.mem_append.2 (Or.inr ht)))).2 hne
    rw [this] at h2; cases h2
  exact ⟨h1, hc, hb⟩

/-! ### non-vacuity: a concrete two-level stack with an oid in both layers meets every hypothesis -/

def exOps : List Op :=
  [.begin 1 (some 10) 0, .store 1 1 0 101, .store 1 2 0 102, .vote 1, .finish 1,
   .begin 2 (some 20) 0, .store 2 1 10 103, .vote 2, .finish 2,
   .pushWith true 2,
   .begin 3 none 5,                        -- the clock (5) is far behind the base (20): tid 21
   .store 3 1 20 104, .vote 3, .finish 3,
   .push 7,
   .begin 4 (some 40) 0, .store 4 1 21 105, .store 4 7 0 106, .vote 4, .finish 4]

def exS : Store := run (.leaf (Layer.empty false)) exOps

example : Sorted exS ∧ TidOrdered exS ∧ BelowMax exS ∧ UncreateOverNothing exS := by decide
example : exS.revs 1 = [(10, some 101), (20, some 103), (21, some 104), (40, some 105)] := by decide
example : exS.loadBefore 1 15 = .ok (some (101, 10, some 20)) := by decide
example : exS.loadBefore 1 21 = .ok (some (103, 20, some 21)) := by decide   -- base revision closed by the change
example : exS.loadBefore 2 41 = .ok (some (102, 10, none)) := by decide
example : exS.lastTransaction = 40 := by decide
example : (step exS (.newOid [1, 7, 9])).2 = .oid (some 9) 3 := by decide   -- 7 (next), 1, 7 are taken
example : (step exS (.newOid [])).1.loadBefore 1 41 = exS.loadBefore 1 41 := by decide
example : (step (step exS (.begin 5 (some 50) 0)).1 (.store 5 1 21 107)).2 = .err .conflict := by decide
example : (step (step exS (.begin 5 (some 50) 0)).1 (.store 5 2 10 107)).2 = .ok := by decide
example : (step (step exS (.begin 5 (some 50) 0)).1 (.checkCurrent 5 1 21)).2 = .err .readConflict := by decide
example : (step (step exS (.begin 5 (some 50) 0)).1 (.checkCurrent 5 2 10)).2 = .ok := by decide

/-! ### the excluded point `UncreateOverNothing` (open finding): the model, following the code, gives
    the wrong answers — undo of the transaction that first changed a base object -/

def badOps : List Op :=
  [.begin 1 (some 10) 0, .store 1 1 0 101, .vote 1, .finish 1,
   .pushWith true 50,
   .begin 2 (some 20) 0, .store 2 1 10 102, .vote 2, .finish 2,
   .begin 3 (some 30) 0, .undo 3 20, .vote 3, .finish 3]

def badS : Store := run (.leaf (Layer.empty false)) badOps

/-- the hypothesis fails, everything else holds … -/
theorem uncreate_over_base_state :
    Sorted badS ∧ TidOrdered badS ∧ BelowMax badS ∧ ¬ UncreateOverNothing badS := by decide

/-- … the base revision (tid 10, valid until 20) can no longer be read at a time inside its interval
    (POSKeyError from the end-tid walk), although the concatenated history shows it … -/
theorem uncreate_over_base_loadBefore :
    badS.loadBefore 1 15 = .error .keyError ∧
    loadBeforeR (badS.revs 1) 15 = .ok (some (101, 10, some 20)) := by decide

/-- … and the object is unwritable: `load` reports serial 10, and a store with that serial, or with
    the un-creation's tid, conflicts. -/
theorem uncreate_over_base_unwritable :
    badS.load 1 = .ok (101, 10) ∧
    (step (step badS (.begin 4 (some 40) 0)).1 (.store 4 1 10 103)).2 = .err .conflict ∧
    (step (step badS (.begin 4 (some 40) 0)).1 (.store 4 1 30 103)).2 = .err .conflict := by decide

end Props.C16
