import ZodbModel.Demo
namespace Props.C16
open ZodbModel.Demo
theorem stub : maxtid = 2 ^ 63 - 1 := rfl
end Props.C16
