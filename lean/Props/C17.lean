/- C17 — work in progress: the property theorems are being added. -/
import ZodbModel.Recover
namespace Props.C17
open ZodbModel ZodbModel.Copy ZodbModel.Recover

/-- the empty store iterates to the empty history -/
theorem iterate_empty : iterate [] = some [] := rfl

end Props.C17
