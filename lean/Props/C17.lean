/-
  C17 — Copying or recovering a storage reproduces its full history.

  Property theorems only (helper lemmas: `Proofs/Copy.lean`, `Proofs/Recover*.lean`).

  Copy part (`ZodbModel/Copy.lean`, record level): the source is whatever `source.iterator()`
  yields (`List ITxn`: tid, status, metadata, records with resolved data — `none` = un-creation —
  and the one-hop `data_txn` hint), so every source kind is covered; the destination is a
  FileStorage built by `tpc_begin(txn, tid, status)` / `restore` / `tpc_vote` / `tpc_finish`.
  The spec is the abstract history `absH` (hints dropped) resp. the iteration itself.

  Recovery part (`ZodbModel/Recover.lean`, byte level): the input is an arbitrary byte list; a
  well-formed data file is `encStore S` for a record-level store `S` with `WFStore S`.
-/
import Proofs.RecoverDamage
import ZodbModel.Generated
namespace Props.C17
open ZodbModel ZodbModel.Copy ZodbModel.Recover Proofs.Copy Proofs.Recover

/-! ## copy -/

/-- `copy_same_history`.  For EVERY source whose tids strictly increase and whose `data_txn` hints
    are sound in the weakest sense (`SrcOKFrom []`: IF the hinted transaction precedes and holds a
    record of that oid, its last such record carries the same data — nothing is required of a hint
    that names an absent transaction), copying into the empty FileStorage succeeds and the
    destination's iterator yields the same history: same tids, status, user, description,
    extension, records (oid, tid, data with back pointers resolved), un-creations included. -/
theorem copy_same_history (src : List ITxn) (hsorted : TidsIncreasing src)
    (hhints : SrcOKFrom [] src) :
    ∃ D, copy src [] = .ok D ∧ ∃ its, iterate D = some its ∧ absH its = absH src :=
  Proofs.Copy.copy_same_history hsorted hhints

/-- the blob variant (`blob.copyTransactionsFromTo`: no time-stamp fix-up) needs no tid order -/
theorem copyBlob_same_history (src : List ITxn) (hhints : SrcOKFrom [] src) :
    ∃ D, copyBlobLoop src [] = .ok D ∧ ∃ its, iterate D = some its ∧ absH its = absH src :=
  Proofs.Copy.copyBlob_same_history hhints

/-- with the precise hints a FileStorage iterator yields (`SrcStrongFrom []`: the hint names the
    preceding transaction whose last record of the oid carries the data, under its own tid) the
    destination's iterator yields EXACTLY the source's iteration — hints included -/
theorem copy_same_iteration (src : List ITxn) (hsorted : TidsIncreasing src)
    (hhints : SrcStrongFrom [] src) : ∃ D, copy src [] = .ok D ∧ iterate D = some src :=
  Proofs.Copy.copy_same_iteration hsorted hhints

/-- every well-formed FileStorage (strictly increasing tids, record tid = transaction tid, each
    back pointer designating the last record of its oid in an older transaction — undo records,
    packed prefixes) is such a source: its iterator does not fail and yields increasing tids and
    precise hints.  Hence a FileStorage → FileStorage copy iterates identically. -/
theorem filestorage_is_source (S : Store) (h : StoreOK S) :
    ∃ src, iterate S = some src ∧ TidsIncreasing src ∧ SrcStrongFrom [] src :=
  storeOK_source h

theorem copy_filestorage (S : Store) (h : StoreOK S) :
    ∃ src D, iterate S = some src ∧ copy src [] = .ok D ∧ iterate D = some src := by
  obtain ⟨src, h1, h2, h3⟩ := storeOK_source h
  obtain ⟨D, h4, h5⟩ := Proofs.Copy.copy_same_iteration h2 h3
  exact ⟨src, D, h1, h4, h5⟩

/-- sources that never give a hint (MappingStorage, DemoStorage over it) are trivially sound -/
theorem hintless_source_ok (src : List ITxn) (h : ∀ t ∈ src, ∀ r ∈ t.recs, r.dataTxn = none) :
    SrcStrongFrom [] src := by
  suffices ∀ rp, SrcStrongFrom rp src from this []
  induction src with
  | nil => intro _; trivial
  | cons t rest ih =>
    intro rp
    refine ⟨fun r hr hh hdt => ?_, ih (fun t' ht' => h t' (List.mem_cons_of_mem _ ht')) _⟩
    rw [h t List.mem_cons_self r hr] at hdt
    simp at hdt

/-- `copy_range`: on a source with increasing tids `iterator(start, stop)` yields exactly the
    transactions with `start ≤ tid ≤ stop`, and copying that range reproduces their history (a
    hint that names a transaction before `start` is simply not used — the repaired `restore`) -/
theorem copy_range (src : List ITxn) (hsorted : TidsIncreasing src) (hhints : SrcOKFrom [] src)
    (start stop : Option Nat) :
    iterRange src start stop = src.filter (inRange start stop) ∧
    ∃ D, copy (iterRange src start stop) [] = .ok D ∧ ∃ its, iterate D = some its ∧
      absH its = absH (iterRange src start stop) :=
  ⟨iterRange_eq_filter hsorted start stop, Proofs.Copy.copy_range hsorted hhints start stop⟩

/-- blob contents: the destination gets exactly one blob file per source record that is a blob
    record whose file the source has, under the same (oid, tid), with the same content -/
theorem copy_blobs (isBlob : Bytes → Bool) (sb : Blobs) (src : List ITxn) (e : (Nat × Nat) × Bytes) :
    e ∈ copyBlobs isBlob sb src ↔
      ∃ t ∈ src, ∃ r ∈ t.recs, ∃ d, r.data = some d ∧ isBlob d = true ∧
        loadBlob sb r.oid r.tid = some e.2 ∧ e.1 = (r.oid, r.tid) :=
  mem_copyBlobs isBlob sb src e

/-- the header `restore` writes: the oid, the SOURCE record's tid, and as `prev` the newest
    committed record of that oid (the last one of the newest transaction that has one) -/
theorem restore_header (D : Store) (r : IRec) (x : Rec) (h : restoreRec D r = .ok x) :
    x.oid = r.oid ∧ x.serial = r.tid ∧ x.prev = indexGet D r.oid ∧
      ∀ l i, x.prev = some (l, i) → ∃ newer t older, D = newer ++ t :: older ∧ l = older.length ∧
        lastIdx r.oid (oids t) = some i ∧ ∀ n ∈ newer, lastIdx r.oid (oids n) = none := by
  obtain ⟨h1, h2, h3⟩ := restoreRec_fields h
  exact ⟨h1, h2, h3, fun l i hp => indexGet_spec (h3 ▸ hp)⟩

/-! ## recovery -/

/-- `recover_terminates`.  `recover` is a total function with the explicit fuel bound
    FUEL := file length + 1 for the main loop and for `scan`, and back pointer + 1 for
    `_loadBack_impl`; for EVERY byte image the bound is never exhausted.  (Provable only for the
    repaired `scan`, whose every window either returns or advances by a positive amount, and the
    repaired `_loadBack_impl`, whose back pointers strictly decrease.) -/
theorem recover_terminates (b : Bytes) : recover b ≠ .fuel := recover_ne_fuel b

/-- the inner loops, separately: `scan` returns 0 or a position strictly behind `pos` inside the
    file, never running out of `file length - pos + 1` units of fuel … -/
theorem scan_advances (b : Bytes) (fuel pos : Nat) (h : b.length - pos < fuel) :
    ∃ p, scan b fuel pos = some p ∧ (p = 0 ∨ (pos < p ∧ p ≤ b.length)) := scan_spec b fuel pos h

/-- … and following back pointers from `back` needs at most `back` hops -/
theorem loadBack_terminates (b : Bytes) (fuel back : Nat) (h : back < fuel) :
    loadBackB b fuel back ≠ .fuel := loadBackB_ne_fuel b fuel back h

/-- `recover_identity`.  On a well-formed file the run ends normally and the output storage's
    iterator yields exactly what the input's iterator yields (tids, status, metadata, records
    with resolved data, un-creations, hints). -/
theorem recover_identity (S : Store) (h : WFStore S) :
    ∃ D rs, recover (encStore S) = .done D ∧ iterate S = some rs ∧ iterate D = some rs :=
  Proofs.Recover.recover_identity h

theorem recover_identity_out (S : Store) (h : WFStore S) : recoverOut (encStore S) = iterate S := by
  obtain ⟨D, rs, h1, h2, h3⟩ := Proofs.Recover.recover_identity h
  simp [recoverOut, h1, h2, h3]

/-- `recover_prefix`.  For a well-formed file image followed by ARBITRARY bytes `g` (any
    truncation of, or damage to, everything behind a transaction boundary) the run ends normally
    and the output storage has, as its oldest part, a storage that iterates exactly like the
    well-formed part: every transaction ending before the damage is recovered, unchanged. -/
theorem recover_prefix (S : Store) (h : WFStore S) (g : Bytes) :
    ∃ D' newer D rs, recover (encStore S ++ g) = .done D' ∧ D' = newer ++ D ∧
      iterate S = some rs ∧ iterate D = some rs :=
  Proofs.Recover.recover_prefix h g

/-- `recover_only_input_txns_partial`.  `S = post ++ pre` is the original store, the image is the
    image of its oldest part `pre` followed by ARBITRARY bytes (the damaged region and whatever
    follows).  Hypothesis `NoFalseResync` (explicit, decidable for a concrete image — see
    `noFalseResync_of_check`): behind the intact prefix `read_txn_header` accepts a header only at
    the start of an intact transaction of `S` whose back pointers lead only through intact
    records.  Then the output's history is the whole history of `pre` followed only by
    transactions of `S`: unchanged tid, status, metadata and record bytes, in order, each whole.
    "partial": the statement without the hypothesis is FALSE for this file format — it has no
    checksum, so e.g. a changed pickle byte is copied (witness below: `damaged_pickle_is_copied`). -/
theorem recover_only_input_txns_partial (S pre post : Store) (g : Bytes) (hS : WFStore S)
    (hsplit : S = post ++ pre) (hnfr : NoFalseResync (encStore pre ++ g) S (storeSize pre)) :
    ∃ D' its src srcpre, recover (encStore pre ++ g) = .done D' ∧ iterate D' = some its ∧
      iterate S = some src ∧ iterate pre = some srcpre ∧
      (absH its).Sublist (absH src) ∧ absH srcpre <+: absH its :=
  Proofs.Recover.recover_only_input_txns hS hsplit hnfr

/-- the finite check that establishes `NoFalseResync` for a concrete image -/
theorem noFalseResync_of_check (F : Bytes) (S : Store) (p0 : Nat)
    (intact : List (Store × Txn × Store))
    (hint : ∀ e ∈ intact, S = e.1 ++ e.2.1 :: e.2.2 ∧ IntactAt F e.2.2 e.2.1)
    (hchk : ∀ p, p < F.length → p0 ≤ p →
      readTxnHeader F p none = .bad ∨ readTxnHeader F p none = .eof ∨
        ∃ e ∈ intact, p = storeSize e.2.2) :
    NoFalseResync F S p0 :=
  Proofs.Recover.noFalseResync_of_check intact hint hchk

/-! ## non-vacuity: a concrete history with an undo record and an un-creation

`t1` stores oids 1 and 2, `t2` rewrites oid 1, `t3` undoes `t2` and the creation of oid 2: a back
pointer to the first record of `t1`, and a zero back pointer. -/

def t1 : Txn := ⟨1, 32, [117], [], [], [⟨1, 1, none, .full [78, 46]⟩, ⟨2, 1, none, .full [79, 46]⟩]⟩
def t2 : Txn := ⟨2, 32, [], [100], [], [⟨1, 2, some (0, 0), .full [80, 46]⟩]⟩
def t3 : Txn := ⟨3, 32, [], [], [], [⟨1, 3, some (1, 0), .back 0 0⟩, ⟨2, 3, some (0, 1), .uncreate⟩]⟩
def exS : Store := [t3, t2, t1]

def exSrc : List ITxn :=
  [⟨1, 32, [117], [], [], [⟨1, 1, some [78, 46], none⟩, ⟨2, 1, some [79, 46], none⟩]⟩,
   ⟨2, 32, [], [100], [], [⟨1, 2, some [80, 46], none⟩]⟩,
   ⟨3, 32, [], [], [], [⟨1, 3, some [78, 46], some 1⟩, ⟨2, 3, none, none⟩]⟩]

theorem exS_ok : StoreOK exS := by
  refine ⟨⟨⟨trivial, by decide, ?_⟩, by decide, ?_⟩, by decide, ?_⟩
  · intro r hr
    simp only [t1, List.mem_cons, List.not_mem_nil, or_false] at hr
    rcases hr with rfl | rfl <;> exact ⟨rfl, trivial⟩
  · intro r hr
    simp only [t2, List.mem_cons, List.not_mem_nil, or_false] at hr
    subst hr
    exact ⟨rfl, trivial⟩
  · intro r hr
    simp only [t3, List.mem_cons, List.not_mem_nil, or_false] at hr
    rcases hr with rfl | rfl
    · exact ⟨rfl, t1, [], by decide, by decide⟩
    · exact ⟨rfl, trivial⟩

theorem exS_enc : StoreEnc exS := by
  refine ⟨by decide +kernel, ?_⟩
  intro t ht
  simp only [exS, List.mem_cons, List.not_mem_nil, or_false] at ht
  rcases ht with rfl | rfl | rfl
  all_goals
    refine ⟨by decide, by decide, by decide, by decide, by decide, ?_⟩
    intro r hr
    simp only [t1, t2, t3, List.mem_cons, List.not_mem_nil, or_false] at hr
    rcases hr with rfl | rfl <;> (refine ⟨by decide, by decide, ?_⟩; simp [hugeRead])

theorem exS_wf : WFStore exS := ⟨exS_ok, exS_enc⟩

/-- the iterator resolves the back pointer and reports the one-hop hint; the zero back pointer is
    an un-creation -/
example : iterate exS = some exSrc := by decide
/-- copying reproduces the iteration, writing a back pointer again (same image as the source) -/
example : (copy exSrc []).toOption.map iterate = some (some exSrc) := by decide
example : (copy exSrc []).toOption.map encStore = some (encStore exS) := by decide +kernel
/-- copying `iterator(3, None)`: the hinted transaction 1 is not in the destination, the record
    is restored as a full copy (the repaired `restore`; the unrepaired one raised UndoError) -/
example : (copy (iterRange exSrc (some 3) none) []).toOption.bind iterate =
    some [⟨3, 32, [], [], [], [⟨1, 3, some [78, 46], none⟩, ⟨2, 3, none, none⟩]⟩] := by decide

/-- recovery of the undamaged image (331 bytes) … -/
example : recoverOut (encStore exS) = some exSrc := by decide +kernel
/-- … of the image cut by exactly 8 bytes (the input on which the unrepaired `scan` never
    returned): the run ends, the two complete transactions are recovered … -/
example : recoverOut ((encStore exS).take ((encStore exS).length - 8)) = some (exSrc.take 2) := by
  decide +kernel

/-- … and of the image whose second transaction has its status byte overwritten with 'x' -/
def exDamaged : Bytes := (encStore exS).set (storeSize [t1] + 16) 120

theorem exDamaged_split : exDamaged = encStore [t1] ++ exDamaged.drop 124 := by decide +kernel

theorem ex_intact : IntactAt exDamaged [t2, t1] t3 := by
  refine ⟨⟨exDamaged.take 200, [], by decide +kernel, by decide +kernel⟩, ?_⟩
  intro r hr
  simp only [t3, List.mem_cons, List.not_mem_nil, or_false] at hr
  rcases hr with rfl | rfl
  · refine ⟨⟨by decide, by decide, trivial⟩, ?_⟩
    show ChainAt exDamaged [t2, t1] 0 0
    simp only [ChainAt, t1, t2, List.length_cons, List.length_nil]
    exact ⟨⟨exDamaged.take 28, exDamaged.drop (28 + 44), by decide +kernel, by decide +kernel⟩,
      ⟨by decide, by decide, by simp [hugeRead]⟩, by decide⟩
  · exact ⟨⟨by decide, by decide, trivial⟩, trivial⟩

/-- the damaged image meets the hypothesis of `recover_only_input_txns_partial` … -/
theorem ex_noFalseResync : NoFalseResync (encStore [t1] ++ exDamaged.drop 124) exS (storeSize [t1]) := by
  rw [← exDamaged_split]
  refine Proofs.Recover.noFalseResync_of_check [(([] : Store), t3, [t2, t1])] ?_ (by decide +kernel)
  intro e he
  simp only [List.mem_cons, List.not_mem_nil, or_false] at he
  subst he
  exact ⟨rfl, ex_intact⟩

/-- … so its conclusion holds for it; concretely the output is `t1`, then `t3` (found again by
    `scan` behind the damaged `t2`), both unchanged -/
example : ∃ D' its src srcpre, recover (encStore [t1] ++ exDamaged.drop 124) = .done D' ∧
    iterate D' = some its ∧ iterate exS = some src ∧ iterate [t1] = some srcpre ∧
    (absH its).Sublist (absH src) ∧ absH srcpre <+: absH its :=
  recover_only_input_txns_partial exS [t1] [t3, t2] _ exS_wf rfl ex_noFalseResync

example : recoverOut exDamaged = some [exSrc[0], exSrc[2]] := by decide +kernel

/-- the hypothesis cannot be dropped: one changed pickle byte (offset 190, 'P' → 'Q') passes every
    check of the tool, and the output contains a transaction that is NOT a transaction of the
    input (the format has no checksum) -/
theorem damaged_pickle_is_copied :
    recoverOut ((encStore exS).set 190 81) =
      some [exSrc[0], ⟨2, 32, [], [100], [], [⟨1, 2, some [81, 46], none⟩]⟩, exSrc[2]] := by
  decide +kernel

/-! ## tie to the constants translated from /repo's source on every run -/

/-- the header lengths the byte-level model hard-wires (23-byte transaction header, 42-byte data
    header) are the ones `ZODB.FileStorage.format` declares (`none` = pattern not found: vacuous,
    the harness checks the struct formats, the magic and `scan`'s 8096 / '.' itself) -/
theorem tie_header_lengths :
    (match Generated.transHdrLen with | some v => v == 23 | none => true) = true ∧
    (match Generated.dataHdrLen with | some v => v == 42 | none => true) = true ∧
    hdrLen ⟨0, 32, [], [], [], []⟩ = 23 ∧ recLen ⟨0, 0, none, .uncreate⟩ = 42 + 8 := by decide

end Props.C17
