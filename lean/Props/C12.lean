import ZodbModel.Conn
namespace Props.C12
open ZodbModel ZodbModel.Conn
theorem placeholder : init.lastTid = 1 := rfl
end Props.C12
