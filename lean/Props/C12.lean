/-
  C12 — Savepoint rollback restores the savepoint state exactly, any number of times.

  Property theorems only (helper lemmas live in `Proofs/Conn*.lean`).  The model is
  `ZodbModel/Conn.lean`: the bookkeeping of `ZODB.Connection.Connection` with its savepoint storage
  (`TmpStore`: `position`, `index`, `creating`, the records written so far; `savepoint`,
  `_rollback_savepoint`, `_commit_savepoint`, `_abort_savepoint`, the `AbortSavepoint`s that
  `transaction.join` hands to a resource that joins after a savepoint was made, and the invalidation of
  later savepoints by `Savepoint.rollback`).  `TmpStore.reset` is the repaired one (it installs copies of
  the saved `index` and `creating`), the finding `C12:rb:unadded-object-keeps-oid` is fixed.

  Every theorem quantifies over ALL programs in the C12 vocabulary (`c12`): read, modify, link, unlink
  (implicit add by reachability), explicit add, savepoint, rollback to any savepoint number, abort,
  commit — of any length, over any number of objects (`bound`) — through `Reachable`, and the rollback
  theorems additionally over ALL program segments that stay inside the transaction (`runTxn`: any mix of
  the above without commit/abort, further savepoints and rollbacks included).

  What a program can observe of an object is `reads s i`: the result of `read i` in state `s` (payload
  and references, or the error).

  Limits: one connection, no injected failure, no close (C11 covers those without savepoints; the
  harness also runs savepoint programs with conflicts and failing commits against the model).  A
  savepoint made before the connection joined the transaction is an `AbortSavepoint` — rolling back to
  it is `Connection.abort`; `rollback_exact` covers both kinds.  An object that lost its state (open finding
  C11:stored-new-object-ghostified-on-abort, also reachable through a rollback) reads as an error; the
  theorems speak about the objects that belong to the connection.
-/
import Proofs.ConnRel12
import Proofs.TmpBytes
namespace Props.C12
open ZodbModel ZodbModel.Conn Proofs.Conn

/-- the states a C12 program (any list of C12 operations) can reach from a fresh database -/
def Reachable (bound : Nat) (s : State) : Prop :=
  ∃ ops : List Op, (∀ op ∈ ops, c12 op = true) ∧ s = run bound init ops

theorem reachable_good {bound : Nat} {s : State} (h : Reachable bound s) : Good12 s := by
  obtain ⟨ops, hops, rfl⟩ := h
  exact run_good12 bound ops hops init good12_init

/-- `read i` returns `reads s i` -/
theorem read_is_reads (bound : Nat) (s : State) (i : ObjId) : (step bound s (.read i)).2 = reads s i :=
  step_read bound s i

/-- **savepoint_keeps_reads.**  A successful `transaction.savepoint()` changes nothing a program can
    read (it moves the changes into the temporary store and marks the objects clean). -/
theorem savepoint_keeps_reads (bound : Nat) (s : State) (hr : Reachable bound s)
    (hj : s.needsToJoin = false) (hok : (step bound s .savepoint).2 = .ok) :
    ∀ i, (s.objs i).jar = true → reads (stepH bound s .savepoint) i = reads s i := by
  have hg := reachable_good hr
  obtain ⟨_, _, _, _, _, h⟩ := savepoint_start hg hj bound hok
  intro i hjar
  rw [hg.1.str.jarOid] at hjar
  cases ho : (s.objs i).oid with
  | none => rw [ho] at hjar; cases hjar
  | some k => exact (h i k ho).1

/-- **rollback_exact.**  Let a savepoint be made in any reachable state `s1` (it gets the number
    `n = s1.sps.length`; if the connection has not joined the transaction yet it is an `AbortSavepoint`),
    let `a` be the state right after it, and let ANY program segment `ops` run that stays inside the
    transaction (modifications, new objects, further savepoints, rollbacks to this or other
    savepoints).  If `rollback n` then succeeds (the savepoint was not invalidated by a rollback to an
    older one), every object that belonged to the connection at the savepoint reads exactly as it did
    in `a`, and every object that did not belong to it then (in particular every object created after
    the savepoint) belongs to no database. -/
theorem rollback_exact (bound : Nat) (s1 : State) (hr : Reachable bound s1)
    (hok : (step bound s1 .savepoint).2 = .ok) (ops : List Op) (s : State)
    (hrun : runTxn bound (stepH bound s1 .savepoint) ops = some s)
    (hrb : (step bound s (.rollback s1.sps.length)).2 = .ok) :
    (∀ i, ((stepH bound s1 .savepoint).objs i).jar = true →
      reads (stepH bound s (.rollback s1.sps.length)) i = reads (stepH bound s1 .savepoint) i) ∧
    (∀ i, ((stepH bound s1 .savepoint).objs i).jar = false →
      ((stepH bound s (.rollback s1.sps.length)).objs i).jar = false ∧
      ((stepH bound s (.rollback s1.sps.length)).objs i).oid = none) := by
  cases hj : s1.needsToJoin with
  | false => exact rollback_exact_prog (reachable_good hr) hj bound hok ops hrun hrb
  | true => exact rollback_exact_unjoined_prog (reachable_good hr) hj bound ops hrun hrb

/-- **rollback_repeatable.**  Rolling back to the same savepoint a second time — after any further
    program segment inside the transaction — restores the same state again. -/
theorem rollback_repeatable (bound : Nat) (s1 : State) (hr : Reachable bound s1)
    (hok : (step bound s1 .savepoint).2 = .ok)
    (ops2 ops3 : List Op) (s2 s3 : State)
    (hrun2 : runTxn bound (stepH bound s1 .savepoint) ops2 = some s2)
    (hrb2 : (step bound s2 (.rollback s1.sps.length)).2 = .ok)
    (hrun3 : runTxn bound (stepH bound s2 (.rollback s1.sps.length)) ops3 = some s3)
    (hrb3 : (step bound s3 (.rollback s1.sps.length)).2 = .ok) :
    ∀ i, ((stepH bound s1 .savepoint).objs i).jar = true →
      reads (stepH bound s3 (.rollback s1.sps.length)) i = reads (stepH bound s1 .savepoint) i ∧
      reads (stepH bound s3 (.rollback s1.sps.length)) i =
        reads (stepH bound s2 (.rollback s1.sps.length)) i := by
  have h2 := (rollback_exact bound s1 hr hok ops2 s2 hrun2 hrb2).1
  have hrun : runTxn bound (stepH bound s1 .savepoint) (ops2 ++ [.rollback s1.sps.length] ++ ops3)
      = some s3 := by
    rw [runTxn_append, runTxn_append, hrun2]
    simp only [Option.bind_some]
    rw [runTxn_rollback]
    simp only [Option.bind_some]
    rw [stepH_of_notFailed bound s2 (.rollback s1.sps.length) (txnRollback_notFailed s2 _)] at hrun3
    exact hrun3
  have h3 := (rollback_exact bound s1 hr hok _ s3 hrun hrb3).1
  intro i hjar
  exact ⟨h3 i hjar, (h3 i hjar).trans (h2 i hjar).symm⟩

/-- **rollback_then_later_savepoints.**  After a successful rollback to savepoint `n` every savepoint
    made after it is invalid: rolling back to one of them raises `InvalidSavepointRollbackError` and
    changes nothing.  (Savepoint `n` itself, and savepoints made afterwards, can be rolled back to
    exactly: `rollback_exact` holds in every reachable state, `rollback_repeatable` for `n` again.) -/
theorem rollback_then_later_savepoints (bound : Nat) (s : State) (n : Nat)
    (hrb : (step bound s (.rollback n)).2 = .ok) (m : Nat) (hlt : n < m) (hm : m < s.sps.length) :
    step bound (stepH bound s (.rollback n)) (.rollback m) =
      (stepH bound s (.rollback n), .err .invalidSavepoint) := by
  rw [stepH_of_notFailed bound s (.rollback n) (txnRollback_notFailed s n)]
  exact rollback_later_invalid hrb m hlt hm

/-- **commit_after_savepoints_stores_final.**  When a transaction that used savepoints (the
    connection has savepoint storage) commits successfully: it is one transaction with one tid; for
    EVERY object of the connection, what the program could read last is what the database holds
    afterwards — with the new tid if the object is in the transaction, as the unchanged old record
    otherwise — and what the connection keeps reading; no other record changes; the savepoint storage
    is gone and no savepoint remains. -/
theorem commit_after_savepoints_stores_final (bound : Nat) (s : State) (hr : Reachable bound s)
    (hj : s.needsToJoin = false) (t : TmpStore) (hsp : s.sp = some t) (tid : Nat) (oids : List Nat)
    (hout : (step bound s (.commit .none)).2 = .committed tid oids) :
    let s' := (step bound s (.commit .none)).1
    (tid = s.lastTid + 1 ∧ s'.lastTid = tid ∧ s'.log = (tid, oids) :: s.log) ∧
    (∀ i k v rf, (s.objs i).oid = some k → reads s i = .value v rf →
      reads s' i = .value v rf ∧
      ∃ c, s'.committed.get k = some c ∧ c.val = v ∧ c.refs = rf ∧
        (k ∈ oids → c.serial = tid) ∧ (k ∉ oids → s.committed.get k = some c)) ∧
    (∀ k, k ∉ oids → s'.committed.get k = s.committed.get k) ∧
    s'.sp = none ∧ s'.sps = [] ∧ s'.needsToJoin = true :=
  commit_sp_core (reachable_good hr).1 hj hsp bound hout

/-- **abort_discards_all.**  `transaction.abort()` in any reachable state — whatever was saved in
    savepoints, rolled back or not: nothing visible to others changed; no savepoint storage and no
    savepoint remains; the connection is idle; every object of the committed database stays with the
    connection; every object of the connection reads as its committed record; and no other object
    belongs to the connection (everything new was disowned). -/
theorem abort_discards_all (bound : Nat) (s : State) (hr : Reachable bound s) :
    let s' := (step bound s .abort).1
    shared s' = shared s ∧ s'.sp = none ∧ s'.sps = [] ∧ s'.needsToJoin = true ∧ s'.registered = [] ∧
    (∀ i k, s.cache.get k = some i → s.committed.get k ≠ none → s'.cache.get k = some i) ∧
    (∀ i k, s'.cache.get k = some i →
      ∃ c, s.committed.get k = some c ∧ reads s' i = .value c.val c.refs) ∧
    (∀ i, (s'.objs i).jar = true → ∃ k, s'.cache.get k = some i) :=
  abort_core (reachable_good hr).1

/-- **savepoint_invisible_to_others.**  Neither a savepoint (successful or failed) nor a rollback
    changes anything another connection could read: committed records, last tid and transaction log
    are untouched, in every state. -/
theorem savepoint_invisible_to_others (bound : Nat) (s : State) (op : Op)
    (hop : op = .savepoint ∨ ∃ n, op = .rollback n) : shared (stepH bound s op) = shared s :=
  stepH_shared_sp bound s op hop

/-- every state a C12 program reaches satisfies the invariant the theorems rest on (in particular:
    every savepoint that is still valid describes a prefix of the temporary store, every oid in a saved
    index is cached, every created oid is indexed; see `Proofs.Conn.Inv12`) -/
theorem reachable_invariant (bound : Nat) (s : State) (hr : Reachable bound s) : Inv12 s :=
  (reachable_good hr).1

/-! ### the statements are not vacuous -/

/-- the reproduced program of the (fixed) finding: two rollbacks to savepoint 0, the second after an
    object was added by a later savepoint -/
def corpusProgram : List Op :=
  [.modify 0 1, .savepoint, .link 0 1, .savepoint, .rollback 0, .link 0 2, .savepoint, .rollback 0]

example : (step 3 (run 3 init corpusProgram) (.read 0)).2 = .value 1 [] := by decide
example : ((run 3 init corpusProgram).objs 2).jar = false ∧ ((run 3 init corpusProgram).objs 1).jar = false := by
  decide
example : (run 3 init corpusProgram).sp.isSome = true ∧
    (step 3 (run 3 init corpusProgram) (.commit .none)).2 = .committed 2 [0] := by decide
example : (step 3 (run 3 init [.modify 0 1, .savepoint, .modify 0 2, .savepoint, .rollback 0])
    (.rollback 1)).2 = .err .invalidSavepoint := by decide

/-! ### the byte level of the savepoint store (`ZodbModel/TmpBytes.lean`: `TmpStore.store/load/reset` on the
    bytes of the temporary file, with `Connection.savepoint` keeping `(position, index.copy())`)

    For ALL histories of stores (any oid, 8-byte or absent serial, any data — lengths that fit `p64`),
    savepoints and rollbacks to any savepoint number: -/
section TmpStoreBytes
open ZodbModel.TmpBytes

/-- `load` of the byte-level store is the abstract map oid ↦ (data, serial) of the history: the newest
    record stored for the oid since the state rolled back to, or the fall-through to the real storage -/
theorem tmpstore_load_refines (ops : List TmpBytes.Op) (hok : ∀ op ∈ ops, OpOk op) (oid : Bytes) :
    load (TmpBytes.run ops).t oid = specLoad (TmpBytes.run ops).m oid :=
  Proofs.TmpBytes.load_of_rel (Proofs.TmpBytes.inv_run ops hok).rel oid

/-- in particular `load` never fails on a store the class built itself: neither "Bad temporary storage" nor a
    short read, after any history of stores, savepoints and rollbacks -/
theorem tmpstore_load_never_fails (ops : List TmpBytes.Op) (hok : ∀ op ∈ ops, OpOk op) (oid : Bytes) :
    load (TmpBytes.run ops).t oid ≠ .bad ∧ load (TmpBytes.run ops).t oid ≠ .short := by
  rw [tmpstore_load_refines ops hok oid]
  unfold specLoad
  cases alookup (TmpBytes.run ops).m oid with
  | none => simp
  | some v => obtain ⟨d, sr⟩ := v; simp

/-- a rollback — `reset` with nothing but the position and the index copy the savepoint kept — gives
    back, byte for byte, the store (file, position, index) of the moment of the savepoint, and with it
    the abstract map of that moment; whatever was stored, saved and rolled back in between -/
theorem tmpstore_rollback_exact_bytes (ops : List TmpBytes.Op) (hok : ∀ op ∈ ops, OpOk op) (k : Nat)
    (g : T × AMap) (hg : (TmpBytes.run ops).sps[k]? = some g) :
    (TmpBytes.step (TmpBytes.run ops) (.rollback k)).t = g.1 ∧
      (TmpBytes.step (TmpBytes.run ops) (.rollback k)).m = g.2 := by
  have h := Proofs.TmpBytes.reset_exact (Proofs.TmpBytes.inv_run ops hok) hg
  simp [TmpBytes.step, hg, h]

/-- … so every record read back after the rollback is the one the savepoint held (the statement seeded
    change C12-18, a read memo that survives `reset`, breaks) -/
theorem tmpstore_rollback_reads (ops : List TmpBytes.Op) (hok : ∀ op ∈ ops, OpOk op) (k : Nat)
    (g : T × AMap) (hg : (TmpBytes.run ops).sps[k]? = some g) (oid : Bytes) :
    load (TmpBytes.step (TmpBytes.run ops) (.rollback k)).t oid = specLoad g.2 oid := by
  rw [(tmpstore_rollback_exact_bytes ops hok k g hg).1]
  exact Proofs.TmpBytes.load_of_rel ((Proofs.TmpBytes.inv_run ops hok).sp_rel k g hg) oid

/-- a savepoint records the store and map of its moment (the ghost the two theorems above speak about) -/
theorem tmpstore_save_records (ops : List TmpBytes.Op) :
    (TmpBytes.run (ops ++ [.save])).sps = (TmpBytes.run ops).sps ++ [((TmpBytes.run ops).t, (TmpBytes.run ops).m)] := by
  simp [TmpBytes.run, List.foldl_append, TmpBytes.step]

/-- stores only append: the temporary file grows by exactly the record -/
theorem tmpstore_store_appends (ops : List TmpBytes.Op) (hok : ∀ op ∈ ops, OpOk op)
    (o : Bytes) (sr : Option Bytes) (d : Bytes) (h : OpOk (.store o sr d)) :
    (TmpBytes.step (TmpBytes.run ops) (.store o sr d)).t.file =
      (TmpBytes.run ops).t.file ++ encEntry ⟨o, sr.getD z64, d⟩ :=
  (Proofs.TmpBytes.rel_store (Proofs.TmpBytes.inv_run ops hok).rel (Proofs.TmpBytes.inv_run ops hok).pos
    o sr d h).2.2

/-- non-vacuity: X saved by two savepoints, rollback to the first (the shape of seeded change C12-18);
    a rollback to a dropped savepoint number changes nothing -/
def tmpProgram : List TmpBytes.Op :=
  [.store [0, 1] none [7], .store [0, 2] (some [0, 0, 0, 0, 0, 0, 0, 5]) [], .save, .store [0, 1] none [8, 8],
   .save, .store [0, 3] none [9]]

example : ∀ op ∈ tmpProgram, OpOk op := by
  intro op h
  simp only [tmpProgram, List.mem_cons, List.mem_nil_iff, or_false] at h
  rcases h with h | h | h | h | h | h <;> subst h <;> simp [OpOk]
example : load (TmpBytes.run tmpProgram).t [0, 1] = .found [8, 8] z64 := by decide +kernel
example : load (TmpBytes.run (tmpProgram ++ [.rollback 0])).t [0, 1] = .found [7] z64 ∧
    load (TmpBytes.run (tmpProgram ++ [.rollback 0])).t [0, 3] = .fallback ∧
    (TmpBytes.run (tmpProgram ++ [.rollback 0])).t.file.length = 27 + 26 := by decide +kernel
example : (TmpBytes.run (tmpProgram ++ [.rollback 0, .rollback 1])).t =
    (TmpBytes.run (tmpProgram ++ [.rollback 0])).t := by decide +kernel

/-! entries ↔ bytes: `ZodbModel/Conn.lean` models the same class with the temporary file as a LIST OF
    ENTRIES (`position` = number of entries, `index` = entry numbers, `reset` = `entries.take`).  That
    abstraction is sound for the byte layout: -/
open Proofs.TmpBytes in
/-- (1) seeking to the byte offset of entry number `p` and parsing gives entry `p` -/
theorem tmpstore_entry_at_offset (es : List Entry) (p : Nat) (e : Entry) (idx : Index)
    (h : es[p]? = some e) (hidx : lookup idx e.oid = some (offset es p))
    (hs : e.serial.length = 8) (ho : e.oid.length < 2 ^ 64) (hd : e.data.length < 2 ^ 64) :
    load ⟨encAll es, (encAll es).length, idx⟩ e.oid = .found e.data e.serial :=
  Proofs.TmpBytes.load_of_rec _ e.oid e.serial e.data (encAll (es.drop (p + 1))) (offset es p) hidx
    (Proofs.TmpBytes.drop_offset_entry es p e h) hs ho hd

open Proofs.TmpBytes in
/-- (2) `store` on the bytes of `es` = appending one entry; `position` moves from the offset of entry number
    `es.length` to the offset of entry number `es.length + 1` -/
theorem tmpstore_store_is_append (es : List Entry) (idx : Index) (o : Bytes) (sr : Option Bytes) (d : Bytes) :
    (store ⟨encAll es, offset es es.length, idx⟩ o sr d).1 =
      ⟨encAll (es ++ [⟨o, sr.getD z64, d⟩]), offset (es ++ [⟨o, sr.getD z64, d⟩]) (es.length + 1),
       (o, offset es es.length) :: idx⟩ := by
  have h1 : offset (es ++ [⟨o, sr.getD z64, d⟩]) (es.length + 1) =
      (encAll (es ++ [⟨o, sr.getD z64, d⟩])).length := by
    have := offset_length (es ++ [⟨o, sr.getD z64, d⟩])
    simpa using this
  rw [h1, offset_length, encAll_append]
  have h2 : encAll [(⟨o, sr.getD z64, d⟩ : Entry)] = encEntry ⟨o, sr.getD z64, d⟩ := by simp [encAll]
  simp only [store, writeAt_end, h2, List.length_append]

open Proofs.TmpBytes in
/-- (3) `reset` to the byte offset of entry number `p` = `entries.take p` -/
theorem tmpstore_reset_is_take (es : List Entry) (p : Nat) (idx idx' : Index) :
    reset ⟨encAll es, (encAll es).length, idx⟩ (offset es p) idx' =
      ⟨encAll (es.take p), offset es p, idx'⟩ := by
  have hle := offset_le es p
  simp only [reset, truncate, take_offset]
  have : offset es p - (encAll es).length = 0 := by omega
  simp [this]

open Proofs.TmpBytes in
/-- … and for the entry-level store of the connection model itself: whatever `Conn.TmpStore.loadAt` returns
    for entry number `p` is what the byte-level `load` parses at that entry's offset, for ANY encoding `f` of
    the model's abstract records into (oid, serial, data) byte strings the class accepts -/
theorem conn_tmpstore_loadAt_bytes (f : Oid × Conn.Rec → Entry) (t : Conn.TmpStore) (k : Oid) (p : Nat)
    (r : Conn.Rec) (hload : t.loadAt k p = some r) (idx : Index)
    (hidx : lookup idx (f (k, r)).oid = some (offset (t.entries.map f) p))
    (hs : (f (k, r)).serial.length = 8) (ho : (f (k, r)).oid.length < 2 ^ 64)
    (hd : (f (k, r)).data.length < 2 ^ 64) :
    load ⟨encAll (t.entries.map f), (encAll (t.entries.map f)).length, idx⟩ (f (k, r)).oid =
      .found (f (k, r)).data (f (k, r)).serial := by
  have he : (t.entries.map f)[p]? = some (f (k, r)) := by
    unfold Conn.TmpStore.loadAt at hload
    rw [List.getElem?_map]
    cases hp : t.entries[p]? with
    | none => simp [hp] at hload
    | some x =>
      obtain ⟨k', r'⟩ := x
      simp only [hp] at hload
      split at hload
      · rename_i hk
        cases hload
        simp [hk]
      · cases hload
  exact tmpstore_entry_at_offset _ p _ idx he hidx hs ho hd

end TmpStoreBytes

end Props.C12
