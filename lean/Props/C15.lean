/-
  C15 — Historical connections read exactly the chosen past state and cannot write.

  Property theorems only (lemmas in `Proofs/MvccHist.lean`).  Model: `ZodbModel/Mvcc.lean` —
  `Hist {before, cache, log0}` is a `Connection(before=…)` over `HistoricalStorageAdapter`
  (`load = loadBefore(oid, before)`, no invalidations, writers raise), `getTID`/`refused` are
  `DB.getTID` and the check in `DB.open` as coded; `log0` is a history variable holding the committed
  log at the moment of `DB.open`.  "While live connections keep committing" = every reachable later
  state of the full MVCC transition system.
-/
import Proofs.MvccHist
namespace Props.C15
open ZodbModel.Mvcc Proofs.Mvcc

/-- In every reachable state, what a historical instance reads (from its cache or from the
    storage) is `stateAt log₀ before`: the state at the chosen point computed over the log AT OPEN
    TIME.  Later commits never show: the current log gives the same snapshot (`stateAt_mono`).  This
    covers objects changed later (older revision returned), deleted / un-created later (the data
    returned is the older `some v`), un-created before the bound (`some (t, none)` ⇒ POSKeyError) and
    created later (`none` ⇒ POSKeyError). -/
theorem historical_fixed {s : Sys} (hr : Reachable s) {h : Nat} (hh : h < s.nh) :
    (∀ oid, stateAt s.log (s.hists h).before oid = stateAt (s.hists h).log0 (s.hists h).before oid) ∧
    (∀ oid, hreadCommitted s h oid = stateAt (s.hists h).log0 (s.hists h).before oid) :=
  Proofs.Mvcc.historical_fixed hr hh

/-- the bound and the reference log of a historical instance never move, whatever happens
    (commits, invalidation deliveries, polls, `sync()` = `hpoll`) -/
theorem historical_bound_constant {s s' : Sys} {as : List Act} (h : Steps s as s') {k : Nat}
    (hk : k < s.nh) :
    k < s'.nh ∧ (s'.hists k).before = (s.hists k).before ∧ (s'.hists k).log0 = (s.hists k).log0 :=
  Proofs.Mvcc.hist_const_steps h hk

/-- `stateAt_mono`, the reason: transactions appended at or above the bound are invisible -/
theorem stateAt_mono {ext l : List Txn} {b : Nat} (oid : Nat) (h : ∀ T ∈ ext, b ≤ T.tid) :
    stateAt (ext ++ l) b oid = stateAt l b oid := Proofs.Mvcc.stateAt_append_ge oid h

/-- The check of `DB.open` exactly as coded (`before > ltid and before > getTID(ltid, None)`)
    refuses precisely the bounds later than the newest transaction's successor … -/
theorem future_refused (ltid before : Nat) : refused ltid before = true ↔ ltid + 1 < before :=
  Proofs.Mvcc.refused_iff ltid before

/-- … and `DB.open` acts accordingly: ValueError, or a fresh historical instance with exactly that
    bound, an empty cache of its own, looking at the current log. -/
theorem open_hist_rule (s : Sys) (a b : Option Nat) (bf : Nat) (hg : getTID a b = .ok (some bf))
    (hf : isFinishing s = false) :
    (headTid s.log + 1 < bf → step s (.openHist a b) = .err .valueError) ∧
    (bf ≤ headTid s.log + 1 → ∃ s', step s (.openHist a b) = .ok s' ∧ s'.nh = s.nh + 1 ∧
        (s'.hists s.nh).before = bf ∧ (s'.hists s.nh).log0 = s.log ∧
        ∀ oid, (s'.hists s.nh).cache oid = none) :=
  Proofs.Mvcc.open_hist_rule s a b bf hg hf

/-- `at = t` is `before = t + 1` (tid arithmetic as `getTID` computes it) -/
theorem at_before_equiv (s : Sys) (t : Nat) :
    getTID (some t) none = getTID none (some (t + 1)) ∧
    step s (.openHist (some t) none) = step s (.openHist none (some (t + 1))) :=
  Proofs.Mvcc.at_before_equiv s t

/-- passing both `at` and `before` is a ValueError -/
theorem at_and_before_rejected (s : Sys) (a b : Nat) (hf : isFinishing s = false) :
    step s (.openHist (some a) (some b)) = .err .valueError :=
  Proofs.Mvcc.at_and_before_rejected s a b hf

/-- commit through a historical connection raises ReadOnlyHistoryError; `store` / `new_oid` on its
    storage raise ReadOnlyError — in every state -/
theorem historical_cannot_commit (s : Sys) (h : Nat) :
    step s (.hcommit h) = .err .readOnlyHistory ∧ step s (.hstore h) = .err .readOnly ∧
    step s (.hnewOid h) = .err .readOnly := ⟨rfl, rfl, rfl⟩

/-- … and nothing done through a historical connection changes the committed log, the commit lock
    or any regular connection -/
theorem historical_actions_readonly {s s' : Sys} {a : Act} {h oid : Nat}
    (ha : a = .hread h oid ∨ a = .hpoll h ∨ a = .hcommit h ∨ a = .hstore h ∨ a = .hnewOid h)
    (hs : step s a = .ok s') :
    s'.log = s.log ∧ s'.infl = s.infl ∧ s'.next = s.next ∧ s'.insts = s.insts :=
  Proofs.Mvcc.hist_actions_readonly ha hs

/-! ### non-vacuity: a bound strictly inside the history, later commits touch the read oids -/

/-- writer 0 commits {1 ↦ 10} at 5 and {1 ↦ 11, 2 ↦ 20} at 7; a historical connection is opened
    `at = 5`; then the undo adapter un-creates oid 2 and rewrites oid 1 at 9, and oid 3 is created at 11 -/
def exTrace : List Act :=
  [.newInstance, .reopen 0, .pollRead 0, .pollApply 0,
   .write 0 1 (some 10), .begin (some 0) 5, .store [], .vote, .finishEnter, .publish,
   .pollRead 0, .pollApply 0, .write 0 1 (some 11), .write 0 2 (some 20),
   .begin (some 0) 7, .store [], .vote, .finishEnter, .publish,
   .openHist (some 5) none,          -- hist 0: before = 6
   .openHist none (some 8),          -- hist 1: before = 8 = ltid + 1
   .openHist (some 8) none,          -- refused (before = 9 > ltid + 1)
   .hread 0 1, .hread 1 1, .hread 1 2,
   .begin none 9, .store [(1, some 12), (2, none)], .vote, .finishEnter, .deliver 0, .publish,
   .pollRead 0, .pollApply 0, .write 0 3 (some 30),
   .begin (some 0) 11, .store [], .vote, .finishEnter, .publish]

def exS : Sys := run init exTrace
theorem exS_reachable : Reachable exS := reachable_run Reachable.init _

example : exS.nh = 2 ∧ (exS.hists 0).before = 6 ∧ (exS.hists 1).before = 8 ∧ headTid exS.log = 11 := by
  decide
-- changed later: still the old revisions; oid 2 / oid 3 did not exist at bound 6
example : hreadCommitted exS 0 1 = some (5, some 10) ∧ hreadCommitted exS 0 2 = none ∧
          hreadCommitted exS 0 3 = none := by decide
-- bound 8: oid 2 un-created later is still there, oid 1 at its revision 7, oid 3 not yet created
example : hreadCommitted exS 1 1 = some (7, some 11) ∧ hreadCommitted exS 1 2 = some (7, some 20) ∧
          hreadCommitted exS 1 3 = none := by decide
-- a live connection meanwhile sees the new state (oid 2 un-created, oid 1 rewritten)
example : stateAt exS.log 12 2 = some (9, none) ∧ stateAt exS.log 12 1 = some (9, some 12) := by decide
-- refusal rule at the boundary: at = ltid accepted, at = ltid + 1 refused, before = ltid + 1 accepted
example : refused 7 8 = false ∧ refused 7 9 = true := by decide
example : getTID (some 7) none = .ok (some 8) := rfl

end Props.C15
