/-
  C11 — In-memory objects follow the outcome of their transaction.

  Property theorems only (helper lemmas live in `Proofs/Conn*.lean`).  The model is
  `ZodbModel/Conn.lean` (bookkeeping of `ZODB.Connection.Connection`, the `ObjectWriter` stack, the
  failure handling of the `transaction` package).  Every theorem quantifies over ALL programs in the
  C11 vocabulary — read, modify, link, unlink (implicit add by reachability), explicit add, commit,
  commit failing at any phase (`Fail`), conflicting commits of another connection (`ext`), abort,
  close, reopen — of any length, over any number of objects (`bound`), through `Reachable`.

  The model is of the code after the repairs of `_store_objects` (finding
  C11:new-object-keeps-oid-after-failed-store) and of `_abort`/`tpc_abort` (finding
  C11:stored-new-object-ghostified-on-abort: a NEW object that was already stored when the commit fails
  is no longer invalidated before it is disowned, it keeps its state).  The clause "can be added again
  later" of `failed_commit_outcome` holds at full strength: the object belongs to no database and still
  has its state (`failed_commit_keeps_state`); `stored_new_object_keeps_state` runs the program of the
  former finding.
-/
import Proofs.ConnC11
namespace Props.C11
open ZodbModel ZodbModel.Conn Proofs.Conn

/-- the states a C11 program (any list of C11 operations) can reach from a fresh database -/
def Reachable (bound : Nat) (s : State) : Prop :=
  ∃ ops : List Op, (∀ op ∈ ops, c11 op = true) ∧ s = run bound init ops

theorem reachable_good {bound : Nat} {s : State} (h : Reachable bound s) : Good s := by
  obtain ⟨ops, hops, rfl⟩ := h
  exact run_good bound ops hops init good_init

/-- **commit_outcome.**  After a successful commit (in any reachable state, whatever `Fail` parameter did
    not make it fail): there is exactly one new transaction, with one tid; every registered object that
    was changed or added is in it; every record of it is the state of an object of the connection that
    is now up to date and carries that tid; every new object reachable from a stored one is stored in
    the same transaction; no other record changed; no object is left changed and the connection's
    bookkeeping is empty. -/
theorem commit_outcome (bound : Nat) (s : State) (hr : Reachable bound s) (f : Fail) (tid : Nat)
    (oids : List Nat) (hout : (txnCommit bound s f).2 = .committed tid oids) :
    let s' := (txnCommit bound s f).1
    (tid = s.lastTid + 1 ∧ s'.lastTid = tid ∧ s'.log = (tid, oids) :: s.log) ∧
    (∀ i ∈ s.registered, ∀ k, (s.objs i).oid = some k →
      (s.added.get k = some i ∨ (s.objs i).status = .changed) → k ∈ oids) ∧
    (∀ k ∈ oids, ∃ i, (s'.objs i).oid = some k ∧ s'.cache.get k = some i ∧
      (s'.objs i).status = .uptodate ∧ (s'.objs i).serial = tid ∧
      s'.committed.get k = some ⟨tid, (s'.objs i).val, (s'.objs i).refs⟩ ∧
      ((s.objs i).status ≠ .ghost → (s'.objs i).val = (s.objs i).val ∧ (s'.objs i).refs = (s.objs i).refs) ∧
      ∀ x ∈ (s'.objs i).refs, ∃ kx, (s'.objs x).oid = some kx ∧ ((s.objs x).oid = none → kx ∈ oids)) ∧
    (∀ k, k ∉ oids → s'.committed.get k = s.committed.get k) ∧
    (∀ i, (s'.objs i).status ≠ .changed) ∧
    (s'.registered = [] ∧ s'.added = [] ∧ s'.creating = [] ∧ s'.needsToJoin = true) :=
  Proofs.Conn.commit_outcome (reachable_good hr) bound f tid oids hout

/-- what "the transaction is undone" means for the objects, between the state `s` before and the state
    `s'` after: nothing visible to others changed; the connection is idle; an object of the database
    keeps its oid, is a ghost if it was modified, and if it is not a ghost it shows the committed record
    (a ghost is loaded from it on the next access: `ghost_shows_committed`); an object that was not in
    the database before (new in the transaction, or never added) belongs to no database. -/
def Undone (s s' : State) : Prop :=
  shared s' = shared s ∧
  (s'.registered = [] ∧ s'.added = [] ∧ s'.creating = [] ∧ s'.needsToJoin = true) ∧
  s'.snap = s'.committed ∧
  (∀ k j, s.cache.get k = some j → (s'.objs j).oid = some k ∧ s'.cache.get k = some j ∧
    ((s.objs j).status = .changed → (s'.objs j).status = .ghost) ∧
    ∃ c, s'.committed.get k = some c ∧
      ((s'.objs j).status = .uptodate →
        (s'.objs j).val = c.val ∧ (s'.objs j).refs = c.refs ∧ (s'.objs j).serial = c.serial)) ∧
  (∀ j, (∀ k, s.cache.get k ≠ some j) →
    (s'.objs j).oid = none ∧ (s'.objs j).jar = false ∧ (s'.objs j).status ≠ .changed ∧
    ((s.objs j).status ≠ .ghost →
      (s'.objs j).val = (s.objs j).val ∧ (s'.objs j).refs = (s.objs j).refs))

/-- **abort_outcome.**  `transaction.abort()` in any reachable state of an open connection undoes the
    transaction, and every new object keeps its state (it can be added again). -/
theorem abort_outcome (bound : Nat) (s : State) (hr : Reachable bound s) (hop : s.opened = true) :
    Undone s (txnAbort s) ∧
    (∀ j, (∀ k, s.cache.get k ≠ some j) → (s.objs j).status ≠ .ghost →
      ((txnAbort s).objs j).status ≠ .ghost) := by
  obtain ⟨rv, hkeep⟩ := Proofs.Conn.abort_outcome (reachable_good hr) hop
  refine ⟨⟨rv.shared, rv.idle, rv.snapNow, rv.committed, ?_⟩, hkeep⟩
  intro j hj
  obtain ⟨h1, h2, h3, h4⟩ := rv.fresh j hj
  exact ⟨h1, h2, h3, fun hg => ⟨(h4 hg).1, (h4 hg).2.1⟩⟩

/-- **failed_commit_outcome.**  A commit that fails — at ANY phase: `f` ranges over every failure point of
    `Fail` (a second resource manager before/after the connection in tpc_begin / commit / tpc_vote /
    tpc_finish, the j-th `store`, `tpc_vote` of the storage), and a conflict with another connection's
    commit needs no `f` at all — undoes the transaction: already in the state right after the failure,
    and again after the `transaction.abort()` the application then issues. -/
theorem failed_commit_outcome (bound : Nat) (s : State) (hr : Reachable bound s)
    (hop : s.opened = true) (f : Fail) (e : Err) (hout : (txnCommit bound s f).2 = .failed e) :
    Undone s (txnCommit bound s f).1 ∧
    Undone (txnCommit bound s f).1 (stepH bound s (.commit f)) := by
  have hg := reachable_good hr
  obtain ⟨s0, t, e1, e2, e3, e4, e5, h0, hP, rv⟩ := txnCommit_failed hg hop bound f e hout
  constructor
  · refine ⟨by rw [rv.shared, e4], rv.idle, rv.snapNow, ?_, ?_⟩
    · intro k j hc
      have := rv.committed k j (by rw [e2]; exact hc)
      rw [e1] at this; exact this
    · intro j hj
      obtain ⟨h1, h2, h3, h4⟩ := rv.fresh j (by rw [e2]; exact hj)
      rw [e1] at h4
      exact ⟨h1, h2, h3, fun hg => ⟨(h4 hg).1, (h4 hg).2.1⟩⟩
  · -- the application's abort after the failure: an abort in an idle state
    have hf : (step bound s (.commit f)).2.isFailed = true := by
      show (txnCommit bound s f).2.isFailed = true
      rw [hout]; rfl
    rw [stepH_of_failed _ _ _ hf]
    show Undone (txnCommit bound s f).1 (txnAbortAfterFailure (!s.needsToJoin) (txnCommit bound s f).1)
    have hi := txnCommit_inv11 hg.1 hg.2 bound f
    have hbb : (txnCommit bound s f).1.begun = false := by
      unfold txnCommit; dsimp only; split <;> exact afterCompletion_begun _
    obtain ⟨hn, hopn⟩ := txnCommit_ntj hg.1 hg.2 bound f
    have hop' : (txnCommit bound s f).1.opened = true := by rw [hopn]; exact hop
    have rv2 : Reverted (txnCommit bound s f).1 (txnCommit bound s f).1
        (txnAbortAfterFailure (!s.needsToJoin) (txnCommit bound s f).1) := by
      unfold txnAbortAfterFailure
      dsimp only
      split
      · have cf := cleanup_prePoll hi (Prog.refl hi.str) (Or.inr rfl) false (by intro hh; cases hh)
        rw [cleanup_not_begun hbb] at cf
        exact reverted_facts hi (Prog.refl hi.str) cf (by rw [cf.clean.2.opened]; exact hop')
      · exact reverted_facts hi (Prog.refl hi.str) (CleanupFacts.idle hi hn) hop'
    refine ⟨rv2.shared, rv2.idle, rv2.snapNow, rv2.committed, ?_⟩
    intro j hj
    obtain ⟨h1, h2, h3, h4⟩ := rv2.fresh j hj
    exact ⟨h1, h2, h3, fun hg => ⟨(h4 hg).1, (h4 hg).2.1⟩⟩

/-- **failed_commit_keeps_state.**  After a failed commit — whatever the failure, at whatever phase — an
    object that was not in the database before the transaction and had its state still has it (it is not a
    ghost; payload and references as before: `failed_commit_outcome`), so it can be added again later.
    (Full strength since the repair of C11:stored-new-object-ghostified-on-abort: the cleanup never
    invalidates an object that is cached under an oid of `_creating`, it disowns it with its state.) -/
theorem failed_commit_keeps_state (bound : Nat) (s : State) (hr : Reachable bound s)
    (hop : s.opened = true) (f : Fail) (e : Err) (hout : (txnCommit bound s f).2 = .failed e) :
    ∀ j, (∀ k, s.cache.get k ≠ some j) → (s.objs j).status ≠ .ghost →
      ((txnCommit bound s f).1.objs j).status ≠ .ghost := by
  obtain ⟨s0, t, e1, e2, _, _, _, _, _, rv⟩ := txnCommit_failed (reachable_good hr) hop bound f e hout
  intro j hj hg0
  obtain ⟨_, _, _, h4⟩ := rv.fresh j (by rw [e2]; exact hj)
  exact (h4 (by rw [e1]; exact hg0)).2.2

/-- the program of the finding: another connection commits the root, this one adds object 1 explicitly
    (payload 5), links it from the root and commits: conflict on the root after object 1 was stored -/
def lostStateProgram : List Op := [.ext 0 7, .modify 1 5, .add 1, .link 0 1, .commit .none]

/-- the program of the former finding C11:stored-new-object-ghostified-on-abort (fixed): `storedNewProgram` is
    a C11 program; its commit fails with a conflict after object 1 was stored; afterwards object 1 — new, not
    a ghost, payload 5 before the commit — belongs to no database and STILL HAS its state. -/
theorem stored_new_object_keeps_state :
    (∀ op ∈ lostStateProgram, c11 op = true) ∧
    ((run 3 init (lostStateProgram.take 4)).objs 1).status = .uptodate ∧
    ((run 3 init (lostStateProgram.take 4)).objs 1).val = 5 ∧
    (txnCommit 3 (run 3 init (lostStateProgram.take 4)) .none).2.isFailed = true ∧
    ((run 3 init lostStateProgram).objs 1).oid = none ∧
    ((run 3 init lostStateProgram).objs 1).status = .uptodate ∧
    ((run 3 init lostStateProgram).objs 1).val = 5 ∧
    (run 3 init lostStateProgram).d2 = false := by
  decide

/-- **ghost_shows_committed.**  "shows its last committed state again on next access": in every reachable
    state of an open connection, accessing a ghost of the database loads exactly the record of the
    current snapshot — which right after an abort or a failed commit is the committed record
    (`Undone`: `snap = committed`). -/
theorem ghost_shows_committed (bound : Nat) (s : State) (hr : Reachable bound s)
    (hop : s.opened = true) (k j : Nat) (hc : s.cache.get k = some j)
    (hg : (s.objs j).status = .ghost) :
    ∃ r, s.snap.get k = some r ∧ (access s j).2 = none ∧
      (access s j).1.objs j = { s.objs j with status := .uptodate, serial := r.serial, val := r.val,
                                              refs := r.refs } :=
  ghost_read (reachable_good hr).1 hop hc hg

/-- **close_requires_unjoined.**  `close()` of a connection joined to a transaction is refused and changes
    nothing (any state, reachable or not); and in every reachable state a connection that is NOT joined
    holds nothing uncommitted: no registered, added or created object, no changed object, and every
    object that has an oid is in the cache. -/
theorem close_requires_unjoined (bound : Nat) (s : State) :
    (s.needsToJoin = false → opClose s = (s, .err .connState)) ∧
    (Reachable bound s → s.needsToJoin = true →
      s.registered = [] ∧ s.added = [] ∧ s.creating = [] ∧ (∀ i, (s.objs i).status ≠ .changed) ∧
      (∀ i, (s.objs i).oid ≠ none → ∃ k, s.cache.get k = some i)) :=
  ⟨close_joined s, fun hr hn => unjoined_clean (reachable_good hr) hn⟩

/-- **reuse_has_no_uncommitted_state.**  A connection that was closed (successfully) and is taken from the
    pool again: nothing registered/added/created, no changed object, a fresh snapshot, and every cached
    object is a ghost or shows exactly the committed record. -/
theorem reuse_has_no_uncommitted_state (bound : Nat) (s : State) (hr : Reachable bound s)
    (hok : (opClose s).2.isFailed = false) (hclosed : (opClose s).1.opened = false) :
    let s2 := (opOpen (opClose s).1).1
    s2.opened = true ∧ s2.registered = [] ∧ s2.added = [] ∧ s2.creating = [] ∧ s2.needsToJoin = true ∧
    s2.snap = s2.committed ∧ (∀ i, (s2.objs i).status ≠ .changed) ∧
    (∀ k i, s2.cache.get k = some i → ∃ c, s2.committed.get k = some c ∧
      ((s2.objs i).status = .uptodate →
        (s2.objs i).val = c.val ∧ (s2.objs i).refs = c.refs ∧ (s2.objs i).serial = c.serial)) ∧
    (∀ i, (s2.objs i).oid ≠ none → ∃ k, s2.cache.get k = some i) :=
  reuse_clean (reachable_good hr) hok hclosed

/-- **no_step_but_commit_changes_storage** (used by C12 as well): nothing but a successful commit — of
    this connection or of the other one — changes what other connections can read. -/
theorem only_commit_changes_storage (bound : Nat) (s : State) (op : Op) :
    (∃ tid oids, (step bound s op).2 = .committed tid oids) ∨ (∃ tid, (step bound s op).2 = .extOk tid) ∨
    shared (step bound s op).1 = shared s :=
  step_shared bound s op

/-! ### non-vacuity: concrete programs reach the situations the theorems talk about -/

/-- implicit add by reachability, then a successful commit of three objects in one transaction -/
def progCommit : List Op := [.modify 0 5, .link 0 1, .link 1 2, .modify 2 7]

example : ∀ op ∈ progCommit, c11 op = true := by decide
example : (txnCommit 4 (run 4 init progCommit) .none).2 = .committed 2 [0, 1, 2] := by decide
example : ((txnCommit 4 (run 4 init progCommit) .none).1.objs 2).serial = 2 ∧
    ((txnCommit 4 (run 4 init progCommit) .none).1.objs 2).status = .uptodate ∧
    (txnCommit 4 (run 4 init progCommit) .none).1.committed.get 2 = some ⟨2, 7, []⟩ := by decide

/-- the same program with a commit failing at every phase: the new objects are disowned -/
example : ∀ f ∈ [Fail.beforeBegin, .afterBegin, .store 0, .store 1, .store 2, .afterCommit, .vote, .afterVote],
    (txnCommit 4 (run 4 init progCommit) f).2.isFailed = true ∧
    ((txnCommit 4 (run 4 init progCommit) f).1.objs 1).oid = none ∧
    ((txnCommit 4 (run 4 init progCommit) f).1.objs 2).oid = none ∧
    ((txnCommit 4 (run 4 init progCommit) f).1.objs 2).val = 7 ∧
    ((txnCommit 4 (run 4 init progCommit) f).1.objs 0).status = .ghost := by decide

/-- a conflict: the other connection commits the root between this connection's read and commit -/
example : (txnCommit 4 (run 4 init (.ext 0 9 :: progCommit)) .none).2 = .failed .conflict := by decide

/-- close is refused while joined, allowed afterwards, and the reopened connection is clean -/
example : (opClose (run 4 init progCommit)).2.isFailed = false ∧
    (opClose (run 4 init progCommit)).1.opened = true := by decide
example : (opClose (run 4 init (progCommit ++ [.abort]))).1.opened = false := by decide

end Props.C11
