import ZodbModel.Repozo
namespace Props.C18
open ZodbModel ZodbModel.Repozo
theorem placeholder : concat [] = [] := rfl
end Props.C18
