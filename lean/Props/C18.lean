/-
  C18 — repozo recover reproduces the backed-up data file byte for byte.

  Property theorems only (helper lemmas live in `Proofs/Repozo*.lean`).  The model
  (`ZodbModel/Repozo.lean`) follows `src/ZODB/scripts/repozo.py` function by function.  A system
  state `St` is a live source (`committed ++ tail`, `tail` = a transaction in progress), the
  repository, and a ghost history `hist` = (date, committed bytes of the source at that date) of
  every backup run that wrote a file, newest first, never pruned.

  `Reachable` (Proofs/RepozoSpec.lean) is: any initial source; the source may change ARBITRARILY
  between backups (appending complete transactions, replacement by a pack, a tail appearing or
  vanishing); backups run with any options at strictly increasing dates (repozo names files by the
  second); a `--quick` backup is covered only under the decidable hypothesis `QuickDetectable`,
  which `quick_safe_when_prefix_kept` shows to hold whenever no pack happened since the last backup.

  Trusted idealisations: MD5 collision-free (a checksum is the bytes), gzip is the identity.
-/
import Proofs.RepozoSpec
namespace Props.C18
open ZodbModel ZodbModel.Repozo Proofs.Repozo

/-- the backups the repository still holds, newest first: (date, committed bytes at that date) -/
def held (s : St) : List (Nat × Bytes) := s.hist.filter (fun e => holds s.repo e.1)

/-- the newest backup still held that is not later than `when` -/
def heldAsOf (s : St) (when : Nat) : Option (Nat × Bytes) :=
  (s.hist.filter (fun e => holds s.repo e.1 && decide (e.1 ≤ when))).head?

/-- `hist` lists the backups newest first, so `heldAsOf` really is "the last backup not later
    than `when` that the repository still holds". -/
theorem hist_newest_first (s : St) (h : Reachable s) : s.hist.Pairwise (fun a b => b.1 < a.1) :=
  hist_sorted h

/-- **repo_inv** — inductive invariant of every reachable state: the chunks `find_files` selects
    for "now" (the newest full backup and the incrementals since) concatenate to the committed
    bytes of the source at the last backup held, the first of them is a full backup, and the
    `.dat` next to it records exactly these chunks: consecutive ranges from 0, sizes and
    checksums.  With no backup held there is nothing to select. -/
theorem repo_inv (s : St) (h : Reachable s) (now : Nat) (hnow : s.last ≤ now) :
    match (held s).head? with
    | none => findFiles s.repo now = []
    | some e => concat (findFiles s.repo now) = e.2 ∧
        ∃ f0 rest, findFiles s.repo now = f0 :: rest ∧ f0.name.full = true ∧
          getK f0.name.date s.repo.dats = some (datOf (findFiles s.repo now) 0) := by
  have hs := reachable_sinv h
  exact inv_now hs.inv (fun f hf => Nat.le_trans (hs.filesLe f hf) hnow)

/-- **recover_is_snapshot** — for every date `when`, with or without `--with-verify`, whatever the
    output location held before: `do_recover -D when -o out` fails with "no files" when no backup
    not later than `when` is held; otherwise it leaves `out` = the committed bytes of the source
    at the newest such backup, byte for byte, no `.part` file, and `out.index` = the index saved
    from exactly these bytes. -/
theorem recover_is_snapshot (s : St) (h : Reachable s) (when : Nat) (withVerify : Bool) (o : Out) :
    doRecover s.repo when withVerify o =
      match heldAsOf s when with
      | none => (o, some .noFiles)
      | some e => (⟨some e.2, none, some e.2⟩, none) := by
  rw [doRecover_spec (reachable_sinv h).inv when withVerify o]
  unfold heldAsOf retained
  rw [find_filter]
  rfl

/-- the same for recovery to standard output -/
theorem recover_stdout_is_snapshot (s : St) (h : Reachable s) (when : Nat) (withVerify : Bool) :
    doRecoverStdout s.repo when withVerify =
      match heldAsOf s when with
      | none => ([], some .noFiles)
      | some e => (e.2, none) := by
  rw [doRecoverStdout_spec (reachable_sinv h).inv when withVerify]
  unfold heldAsOf retained
  rw [find_filter]
  rfl

/-- the newest backup is always held: a run that wrote a file is what `heldAsOf` returns for any
    date from its own on, until the next run (so `-k` never removes the backup just taken). -/
theorem backup_is_held (s : St) (h : Reachable s) (o : BOpts) (now : Nat) (hnow : s.last < now)
    (hq : o.quick = true → o.full = false → QuickDetectable s.repo s.src now)
    (hw : wroteFile (doBackup s.repo s.src o now).2 = true) (when : Nat) (hwhen : now ≤ when) :
    heldAsOf (backupStep s o now) when = some (now, s.src.committed) := by
  have hs := reachable_sinv h
  have hlt : ∀ f ∈ s.repo.files, f.name.date < now := fun f hf => by
    have := hs.filesLe f hf; omega
  obtain ⟨r', out, heq, _, _, hnew, _, _⟩ := doBackup_spec hs.inv hlt hq
  rw [heq] at hw
  obtain ⟨f, hf, hfd⟩ := hnew hw
  have hh : holds r' now = true := by
    simp only [holds, List.any_eq_true, beq_iff_eq]; exact ⟨f, hf, hfd⟩
  simp only [heldAsOf, backupStep, heq, hw, if_true]
  rw [List.filter_cons_of_pos (by simp [hh, hwhen])]
  rfl

/-- **backup_only_complete_txns** — a backup run that writes a file makes the repository
    reproduce exactly `committed`, the bytes up to the end of the last complete transaction:
    whatever `tail` a transaction in progress has appended to the file, no byte of it is copied. -/
theorem backup_only_complete_txns (s : St) (h : Reachable s) (o : BOpts) (now : Nat)
    (hnow : s.last < now) (hq : o.quick = true → o.full = false → QuickDetectable s.repo s.src now)
    (hw : wroteFile (doBackup s.repo s.src o now).2 = true) :
    doRecoverStdout (backupStep s o now).repo now false = (s.src.committed, none) := by
  rw [recover_stdout_is_snapshot _ (Reachable.backup o now h hnow hq),
    backup_is_held s h o now hnow hq hw now (Nat.le_refl _)]

/-- a backup run that writes nothing ("No changes") happens only when the whole source file —
    hence its committed part when no transaction is in progress — equals what the repository
    already reproduces: nothing committed is left out. -/
theorem noop_loses_nothing (s : St) (h : Reachable s) (o : BOpts) (now : Nat)
    (hnow : s.last < now) (hq : o.quick = true → o.full = false → QuickDetectable s.repo s.src now)
    (hn : (doBackup s.repo s.src o now).2 = .noop) :
    (doBackup s.repo s.src o now).1 = s.repo ∧ s.src.raw = concat (findFiles s.repo now) := by
  have hs := reachable_sinv h
  have hlt : ∀ f ∈ s.repo.files, f.name.date < now := fun f hf => by
    have := hs.filesLe f hf; omega
  obtain ⟨r', out, heq, _, _, _, hnoop, _⟩ := doBackup_spec hs.inv hlt hq
  rw [heq] at hn ⊢
  obtain ⟨h1, _, h3⟩ := hnoop hn
  refine ⟨h1, ?_⟩
  rw [h3, findFiles_now hs.inv (fun f hf => Nat.le_of_lt (hlt f hf)), concat_reverse_upToFull]

/-- the quick mode's hypothesis holds whenever the state last backed up is still a prefix of the
    file, i.e. when the source was only appended to since (no pack): then `--quick` needs no
    assumption at all. -/
theorem quick_safe_when_prefix_kept (s : St) (h : Reachable s) (now : Nat) (hnow : s.last ≤ now)
    (hp : ∀ e, (held s).head? = some e → e.2 <+: s.src.raw) :
    QuickDetectable s.repo s.src now := by
  have hs := reachable_sinv h
  exact quickDetectable_of_prefix hs.inv (fun f hf => Nat.le_trans (hs.filesLe f hf) hnow) hp

/-- **verify_iff_intact** — let `r` be the repository of a reachable state after ANY damage to
    its data files (files removed, contents changed; nothing added, `.dat` files untouched).
    Full verification succeeds iff every data file of the repository is still present with its
    recorded content; quick verification iff every one is present with its recorded size. -/
theorem verify_iff_intact (s : St) (h : Reachable s) (hne : s.repo.files ≠ []) (r : Repo)
    (hd : Damaged s.repo r) (now : Nat) (hnow : s.last ≤ now) :
    (doVerify r false now = none ↔ ∀ f0 ∈ s.repo.files, f0 ∈ r.files) ∧
    (doVerify r true now = none ↔
      ∀ f0 ∈ s.repo.files, ∃ f ∈ r.files, f.name = f0.name ∧ f.content.length = f0.content.length) := by
  have hs := reachable_sinv h
  have hle : ∀ f ∈ s.repo.files, f.name.date ≤ now := fun f hf => Nat.le_trans (hs.filesLe f hf) hnow
  constructor
  · rw [verify_damaged_iff false hs.inv hne hd hle]
    constructor
    · intro hall f0 hf0
      obtain ⟨f, hf, hn, _, hc⟩ := hall f0 hf0
      have : f = f0 := by
        cases f; cases f0
        simp only at hn
        have := hc rfl
        simp only at this
        subst hn; subst this; rfl
      rw [← this]; exact hf
    · intro hall f0 hf0
      exact ⟨f0, hall f0 hf0, rfl, rfl, fun _ => rfl⟩
  · rw [verify_damaged_iff true hs.inv hne hd hle]
    constructor
    · intro hall f0 hf0
      obtain ⟨f, hf, hn, hl, _⟩ := hall f0 hf0
      exact ⟨f, hf, hn, hl⟩
    · intro hall f0 hf0
      obtain ⟨f, hf, hn, hl⟩ := hall f0 hf0
      exact ⟨f, hf, hn, hl, by simp⟩

/-- both verifications succeed on the intact repository (once a backup exists) -/
theorem verify_intact_ok (s : St) (h : Reachable s) (hne : s.repo.files ≠ []) (quick : Bool)
    (now : Nat) (hnow : s.last ≤ now) : doVerify s.repo quick now = none := by
  have hs := reachable_sinv h
  have := verify_iff_intact s h hne s.repo (damaged_refl hs.inv) now hnow
  cases quick with
  | false => exact this.1.2 (fun f0 hf0 => hf0)
  | true => exact this.2.2 (fun f0 hf0 => ⟨f0, hf0, rfl, rfl⟩)

/-- **single_damage_detected** — for every data file `x` of the repository of a reachable state
    (of the newest or of a superseded full backup alike): removing it makes full and quick
    verification fail; replacing its content by any other bytes (a truncation, a flipped byte)
    makes full verification fail, and quick verification too when the size changed. -/
theorem single_damage_detected (s : St) (h : Reachable s) (x : DFile) (hx : x ∈ s.repo.files)
    (now : Nat) (hnow : s.last ≤ now) :
    (∀ quick, doVerify (delFile x.name s.repo) quick now ≠ none) ∧
    (∀ c, c ≠ x.content → doVerify (setContent x.name c s.repo) false now ≠ none) ∧
    (∀ c, c.length ≠ x.content.length → doVerify (setContent x.name c s.repo) true now ≠ none) := by
  have hs := reachable_sinv h
  have hne : s.repo.files ≠ [] := by intro e; rw [e] at hx; simp at hx
  refine ⟨?_, ?_, ?_⟩
  · intro quick hv
    have hiff := verify_iff_intact s h hne _ (damaged_delFile hs.inv x.name) now hnow
    cases quick with
    | false => exact not_mem_delFile (hiff.1.1 hv x hx) rfl
    | true =>
      obtain ⟨f, hf, hn, _⟩ := hiff.2.1 hv x hx
      exact not_mem_delFile hf hn
  · intro c hc hv
    have hiff := verify_iff_intact s h hne _ (damaged_setContent hs.inv x.name c) now hnow
    exact hc (mem_setContent (hiff.1.1 hv x hx) rfl).symm
  · intro c hc hv
    have hiff := verify_iff_intact s h hne _ (damaged_setContent hs.inv x.name c) now hnow
    obtain ⟨f, hf, hn, hl⟩ := hiff.2.1 hv x hx
    rw [mem_setContent hf hn] at hl
    exact hc hl

/-! ### non-vacuity: a concrete history — full backup, commit, incremental taken while a
    transaction is in progress, pack, full backup with `-k` — is reachable, recovers every date to
    the right bytes, verifies, and detects damage.  (Dates 1, 2, 3; bytes are small numbers.) -/

def o0 : BOpts := ⟨false, false, false, false⟩
def oQz : BOpts := ⟨false, true, true, false⟩
def ok_ : BOpts := ⟨false, false, false, true⟩

def s1 : St := backupStep (St.init ⟨[1, 2, 3], []⟩) o0 1
def s2 : St := backupStep { s1 with src := ⟨[1, 2, 3, 4, 5], [9, 9]⟩ } oQz 2
def s3 : St := backupStep { s2 with src := ⟨[1, 3, 4, 5, 6], []⟩ } ok_ 3

theorem s2_reachable : Reachable s2 :=
  .backup oQz 2 (.evolve _ (.backup o0 1 (.init _) (by decide) (by decide))) (by decide) (by decide)

theorem s3_reachable : Reachable s3 :=
  .backup ok_ 3 (.evolve _ s2_reachable) (by decide) (by decide)

example : s2.repo.files.map (fun f => (f.name.date, f.name.full, f.content)) =
    [(2, false, [4, 5]), (1, true, [1, 2, 3])] := by decide
example : (doRecover s2.repo 2 true ⟨some [7], none, some [8]⟩) =
    (⟨some [1, 2, 3, 4, 5], none, some [1, 2, 3, 4, 5]⟩, none) := by decide
example : (doRecover s2.repo 1 false ⟨none, none, none⟩).1.file = some [1, 2, 3] := by decide
example : (doRecover s2.repo 0 false ⟨none, none, none⟩).2 = some .noFiles := by decide
example : doVerify s2.repo false 5 = none ∧ doVerify s2.repo true 5 = none := by decide
example : doVerify (setContent ⟨2, false, true⟩ [4, 6] s2.repo) false 5 = some .verifySum ∧
    doVerify (setContent ⟨2, false, true⟩ [4, 6] s2.repo) true 5 = none ∧
    doVerify (setContent ⟨1, true, false⟩ [1, 2] s2.repo) true 5 = some .verifySize ∧
    doVerify (delFile ⟨1, true, false⟩ s2.repo) false 5 ≠ none := by decide
-- after the pack the third run is a full backup and `-k` drops the first two
example : s3.repo.files.map (fun f => (f.name.date, f.name.full)) = [(3, true)] := by decide
example : heldAsOf s3 2 = none ∧ heldAsOf s3 3 = some (3, [1, 3, 4, 5, 6]) := by decide

/-! ### the point excluded by `QuickDetectable`, exhibited on the model (and replayed on the real
    code by `corpus/C18/quick-excluded-point.json`): a backup taken while a transaction is in
    progress and nothing new is committed writes an EMPTY incremental; its range contains no byte,
    so after a pack that leaves the file at least as long `--quick` sees "nothing changed before
    the last chunk" and appends an incremental to the pre-pack full backup. -/

def e1 : St := backupStep (St.init ⟨[1, 2, 3], []⟩) o0 1
def e2 : St := backupStep { e1 with src := ⟨[1, 2, 3], [9]⟩ } o0 2          -- empty incremental
def e3pre : St := { e2 with src := ⟨[7, 7, 7, 7], []⟩ }                      -- pack, then growth
def e3 : St := backupStep e3pre ⟨false, true, false, false⟩ 3

example : (e2.repo.files.map (fun f => (f.name.date, f.content))) = [(2, []), (1, [1, 2, 3])] := by
  decide
theorem quick_excluded_point :
    ¬ QuickDetectable e3pre.repo e3pre.src 3 ∧
    (doRecover e3.repo 3 false ⟨none, none, none⟩).1.file = some [1, 2, 3, 7] ∧
    e3pre.src.committed = [7, 7, 7, 7] := by decide

end Props.C18
