/-
  C08 — Packing is safe under concurrent commits and under a crash at any point.

  Property theorems only (helper lemmas: `Proofs/PackProto.lean`, `Proofs/PackDisk.lean`).

  Part (a), concurrency: `ZodbModel/PackProto.lean` is the labelled transition system of
  `FileStorage.pack` + `FileStoragePacker.pack/copyRest/copyOne` at lock granularity, running
  against any number of committers (begin / vote / finish / abort / return) and readers
  (FilePool get / read / put).  "For all thread schedules" = for every state `Reachable` through
  ANY action sequence the system accepts, from any initial database.

  Part (b), crash: `ZodbModel/PackDisk.lean` is the pack's file-system event list on a directory;
  "for all crash points" = for every `cut` of every event list of the shape the code produces
  (with arbitrary contents of the files being written = every byte cut, and committers' raw
  operations interleaved).

  The models follow the code AFTER four repairs made in /repo while this check was built:
  the swap is a hard link + one atomic os.replace (the two-rename sequence survives only as the
  fallback when `os.link` fails); the leftover .old is removed inside the try/finally that clears
  the flag; the saved index is removed before the swap; copyRest re-writes the header length of a
  copied transaction whose back pointer could not be kept.
-/
import Proofs.PackProto
import Proofs.PackProtoMutants
import Proofs.PackDisk
namespace Props.C08
open ZodbModel

/-! ## (a) all schedules -/
section Proto
open ZodbModel.PackProto

/-- Whenever the packer holds the commit lock (reading a transaction header at its copy position,
    seeing EOF, swapping) no transaction is in flight, no unfinished bytes follow the committed
    end of Data.fs, the packer never took unfinished bytes for a header, and everything beyond
    what it has copied is a sequence of complete, published transactions. -/
theorem packer_sees_quiescent {s : State} (h : Reachable s) (hl : s.commitLock = some .packer) :
    s.inflight = none ∧ s.pending = none ∧ s.corrupt = false ∧
    ∀ t ∈ s.file.drop s.copied, t ∈ s.hist := by
  have inv := Proofs.PackProto.reachable_inv h
  obtain ⟨h1, h2⟩ := Proofs.PackProto.quiescent_of_packer_lock inv hl
  exact ⟨h1, h2, inv.nocorrupt, fun t ht => inv.sub.subset (List.mem_of_mem_drop ht)⟩

/-- No commit is ever lost, under EVERY interleaving: the stored log is the published history in
    order minus packed-away transactions; every commit that returned (before, during or after a
    pack) was published; and every published transaction later than the time of every swap that
    was performed is stored.  (What a pack may drop at or before its pack time is C07's subject.) -/
theorem pack_no_lost_commit {s : State} (h : Reachable s) :
    s.file.Sublist s.hist ∧ (∀ t ∈ s.returned, t ∈ s.hist) ∧
    (∀ t ∈ s.hist, s.packedUpTo < t → t ∈ s.file) ∧
    (∀ t ∈ s.returned, s.packedUpTo < t → t ∈ s.file) := by
  have inv := Proofs.PackProto.reachable_inv h
  exact ⟨inv.sub, inv.ret, inv.keep, fun t ht hlt => inv.keep t (inv.ret t ht) hlt⟩

/-- … in particular when the pack is done. -/
theorem pack_done_no_lost_commit {s : State} (h : Reachable s) (_ : s.phase = .done) :
    ∀ t ∈ s.returned, s.packedUpTo < t → t ∈ s.file := (pack_no_lost_commit h).2.2.2

/-- The swap installs exactly: a sublist of the transactions below packpos (all at or before the
    pack time) followed by EVERY later transaction of the file, in order — nothing that was
    committed while the packer copied is missing; the ghost history is untouched. -/
theorem swap_exact {s s' : State} (h : Reachable s) (hs : step s .swapEnd = some s') :
    s'.file = s.kept ++ s.file.drop s.k ∧ s.kept.Sublist (s.file.take s.k) ∧
    (∀ t ∈ s.file.take s.k, t ≤ s.packT) ∧ s'.hist = s.hist ∧ s'.returned = s.returned :=
  Proofs.PackProto.swapEnd_file (Proofs.PackProto.reachable_inv h) hs

/-- `packedUpTo` (the bound below which `pack_no_lost_commit` allows absences) is nothing but the
    largest pack time of a swap that happened. -/
theorem packedUpTo_only_by_swap {s s' : State} {a : Act} (hs : step s a = some s') :
    (a ≠ .swapEnd → s'.packedUpTo = s.packedUpTo) ∧
    (a = .swapEnd → s'.packedUpTo = max s.packedUpTo s.packT) :=
  Proofs.PackProto.packedUpTo_step hs

/-- A second concurrent pack is refused: from `_pack_is_in_progress := True` until it is cleared,
    starting a pack is impossible and the refusal ('Already packing') leaves the state unchanged. -/
theorem second_pack_refused {s : State} (h : Reachable s) (hr : s.phase.running = true) (T : Tid) :
    step s (.packStart T) = none ∧ step s .packRefused = some s :=
  Proofs.PackProto.second_refused (Proofs.PackProto.reachable_inv h) hr T

/-- … and stays refused: however many further attempts are made while the pack runs — each one
    refused — the state (in particular `_pack_is_in_progress`) is unchanged, so the NEXT attempt is
    refused as well; a refusal never clears the flag, and the flag is set in every running phase. -/
theorem pack_refusal_repeatable {s : State} (h : Reachable s) (hr : s.phase.running = true)
    (n : Nat) (T : Tid) :
    s.packFlag = true ∧ run s (List.replicate n .packRefused) = some s ∧
    step s (.packStart T) = none ∧
    (∀ s', step s .packRefused = some s' → s'.packFlag = true ∧ s' = s) := by
  have inv := Proofs.PackProto.reachable_inv h
  have hf := inv.flag hr
  refine ⟨hf, Proofs.PackProto.refused_repeat hf n, (Proofs.PackProto.second_refused inv hr T).1, ?_⟩
  intro s' hs'
  rw [(Proofs.PackProto.second_refused inv hr T).2] at hs'
  cases hs'
  exact ⟨hf, rfl⟩

/-- A pack that cannot complete — an exception at ANY step from the flag being set up to and
    including the swap — leaves the stored log, the history, the returned commits and the
    in-flight transaction unchanged, the flag cleared, the packer idle and the commit lock not
    with the packer: a committer's lock is untouched, otherwise the lock is free, a commit can
    begin and a new pack can start; the state is an ordinary reachable one again (every theorem
    of this file keeps applying). -/
theorem pack_failure_unchanged {s s' : State} (h : Reachable s) (hs : step s .packFail = some s') :
    s'.file = s.file ∧ s'.hist = s.hist ∧ s'.returned = s.returned ∧ s'.pending = s.pending ∧
    s'.inflight = s.inflight ∧ s'.packFlag = false ∧ s'.phase = .idle ∧
    (s.commitLock = some .committer → s'.commitLock = some .committer) ∧
    (s.commitLock ≠ some .committer → s'.commitLock = none ∧
      ∀ t, (∀ u ∈ s'.hist, u < t) → ∃ s'', step s' (.begin t) = some s'') ∧
    (∀ T, ∃ s'', step s' (.packStart T) = some s'') ∧ Reachable s' := by
  have hreach := Proofs.PackProto.reachable_step h hs
  obtain ⟨_, rfl⟩ := Proofs.PackProto.packFail_eq hs
  refine ⟨rfl, rfl, rfl, rfl, rfl, rfl, rfl, ?_, ?_, ?_, hreach⟩
  · intro hc; simp [hc]
  · intro hc
    have hl : (if s.commitLock = some Owner.packer then none else s.commitLock) = none := by
      cases hcl : s.commitLock with
      | none => simp
      | some o => cases o <;> simp_all
    exact ⟨hl, fun t ht => Proofs.PackProto.begin_enabled hl ht⟩
  · intro T; simp [step, PPhase.running]

/-- While the packer copies (every phase in which the code does not hold the commit lock) it does
    not own the lock: committers are blocked only while it reads one header / swaps. -/
theorem committers_run_during_copy {s : State} (h : Reachable s)
    (hp : s.phase.holdsLock = false) : s.commitLock ≠ some .packer := by
  intro hl
  have := (Proofs.PackProto.reachable_inv h).plock.mpr hl
  rw [hp] at this; cases this

/-- Readers (pool discipline part of "readers never see a wrong state").
    Full statement (DESIGN): reads during a pack satisfy C02 or raise ReadConflictError with a
    snapshot at or before the pack time.  Proved here: under every schedule no read ever combines
    the current index with a file handle of another generation of Data.fs — every pooled or
    handed-out handle is on the current file, and the swap happens with no handle out and the pool
    emptied.  Missing (C02's MVCC model / checked on the real code by harness/c08.py): the
    snapshot semantics of the values read and the ReadConflictError for snapshots older than the
    pack time. -/
theorem pack_reader_safe_partial {s : State} (h : Reachable s) :
    s.badRead = false ∧ (∀ g ∈ s.pool, g = s.gen) ∧ (∀ g ∈ s.out, g = s.gen) ∧
    (s.phase = .midSwap → s.pool = [] ∧ s.out = []) := by
  have inv := Proofs.PackProto.reachable_inv h
  exact ⟨inv.good, inv.pool, inv.out, inv.mid⟩

/-! non-vacuity: one concrete schedule — pack at time 2 of [1,2,3]; commit 4 lands during the bulk
    copy, commit 5 lands during `copyRest` while the packer has released the commit lock for
    transaction 3, a reader holds a handle across part of it; the pack swaps, finishes, and a
    second pack attempt in the middle is refused. -/
def demo : List Act :=
  [.packStart 2, .scan 2, .bulkCopy [2], .begin 4, .vote, .finish, .ret 4, .packRefused,
   .acquireCommit, .readHdr, .releaseForBody, .begin 5, .vote, .readerGet, .copyBody, .finish,
   .ret 5, .reacquire, .readHdr, .releaseForBody, .copyBody, .readerRead 0, .reacquire, .readHdr,
   .releaseForBody, .copyBody, .readerPut 0, .reacquire, .readHdr, .swapBegin, .swapEnd,
   .releaseCommit, .clearFlag, .readerGet, .readerRead 1]

example : (run (init [1, 2, 3]) demo).map (fun s => (s.file, s.hist, s.returned, s.phase)) =
    some ([2, 3, 4, 5], [1, 2, 3, 4, 5], [1, 2, 3, 4, 5], .done) := by decide
example : (run (init [1, 2, 3]) demo).map (fun s => (s.packedUpTo, s.commitLock, s.packFlag,
    s.gen, s.badRead)) = some (2, none, false, 1, false) := by decide

/-- the demo's final state is reachable, so the theorems above apply to a state in which a commit
    completed during `copyRest` -/
example : ∃ s, Reachable s ∧ s.phase = .done ∧ 5 ∈ s.returned ∧ s.file = [2, 3, 4, 5] := by
  refine ⟨(run (init [1, 2, 3]) demo).get (by decide), ⟨[1, 2, 3], demo, ?_⟩, ?_⟩ <;> decide

/-- the packer is blocked while a committer is between begin and finish … -/
example : run (init [1, 2, 3])
    [.packStart 2, .scan 2, .bulkCopy [2], .begin 4, .vote, .acquireCommit] = none := by decide
/-- … a committer cannot begin while the packer reads a header or swaps … -/
example : run (init [1, 2, 3])
    [.packStart 2, .scan 2, .bulkCopy [2], .acquireCommit, .readHdr, .begin 4] = none := by decide
/-- … the swap waits for readers, and readers wait for the swap. -/
example : run (init [1, 2]) [.packStart 1, .scan 1, .bulkCopy [], .acquireCommit, .readHdr,
    .releaseForBody, .copyBody, .reacquire, .readHdr, .readerGet, .swapBegin] = none := by decide
example : run (init [1, 2]) [.packStart 1, .scan 1, .bulkCopy [], .acquireCommit, .readHdr,
    .releaseForBody, .copyBody, .reacquire, .readHdr, .swapBegin, .readerGet] = none := by decide
/-- three attempts during one running pack are all refused, a fourth `packStart` is impossible -/
example : run (init [1, 2, 3]) [.packStart 2, .scan 2, .packRefused, .bulkCopy [2], .packRefused,
    .acquireCommit, .packRefused, .packStart 3] = none := by decide
example : (run (init [1, 2, 3]) [.packStart 2, .scan 2, .packRefused, .bulkCopy [2], .packRefused,
    .acquireCommit, .packRefused]).map (fun s => (s.packFlag, s.phase)) =
    some (true, .holdsCommit) := by decide
/-- a failing pack in the middle of `copyRest` (holding the lock) frees the lock and the flag -/
example : (run (init [1, 2, 3]) [.packStart 2, .scan 2, .bulkCopy [2], .acquireCommit, .readHdr,
    .packFail, .begin 4, .vote, .finish, .packStart 3]).map
    (fun s => (s.file, s.phase, s.packFlag)) = some ([1, 2, 3, 4], .started, true) := by decide

/-! necessity: the same statements FAIL for protocols weakened in one place
    (`Proofs/PackProtoMutants.lean`) — the theorems hold because of the lock discipline. -/
section Necessity
open Proofs.PackProtoMutants

/-- releasing the commit lock before the swap: commit 4 lands in the old file after the packer saw
    EOF; it returned, is later than the pack time, and is NOT stored (`pack_no_lost_commit` fails) -/
example : (runM .releaseBeforeSwap (init [1, 2, 3])
    [.packStart 2, .scan 2, .bulkCopy [2], .acquireCommit, .readHdr, .releaseForBody, .copyBody,
     .reacquire, .readHdr, .swapBegin, .begin 4, .vote, .finish, .ret 4, .swapEnd]).map
    (fun s => (s.file, s.returned, s.packedUpTo)) = some ([2, 3], [1, 2, 3, 4], 2) := by decide

/-- reading the next header without the commit lock: the packer takes the voted, unfinished
    transaction 4 for a header (`packer_sees_quiescent` fails: corrupt) -/
example : (runM .headerWithoutLock (init [1, 2, 3])
    [.packStart 2, .scan 2, .bulkCopy [2], .acquireCommit, .readHdr, .releaseForBody, .begin 4,
     .vote, .copyBody, .readHdr]).map (fun s => (s.corrupt, s.pending, s.commitLock)) =
    some (true, some 4, some .committer) := by decide

/-- not emptying the pool: after the swap a reader is handed a handle on the old file and reads it
    with the new index (`pack_reader_safe_partial` fails: badRead) -/
example : (runM .poolNotEmptied (init [1, 2])
    [.readerGet, .readerPut 0, .packStart 1, .scan 1, .bulkCopy [], .acquireCommit, .readHdr,
     .releaseForBody, .copyBody, .reacquire, .readHdr, .swapBegin, .swapEnd, .releaseCommit,
     .clearFlag, .readerGet, .readerRead 0]).map (fun s => (s.badRead, s.gen)) =
    some (true, 1) := by decide

/-- ending the copy at the file_end snapshot of the scan: commit 4, finished during the bulk copy
    and returned, is lost (`pack_no_lost_commit` / `swap_exact` fail) -/
example : (runM .eofNotReread (init [1, 2, 3])
    [.packStart 2, .scan 2, .bulkCopy [2], .begin 4, .vote, .finish, .ret 4, .acquireCommit,
     .readHdr, .releaseForBody, .copyBody, .reacquire, .readHdr, .swapBegin, .swapEnd]).map
    (fun s => (s.file, s.returned)) = some ([2, 3], [1, 2, 3, 4]) := by decide

/-- the unweakened protocol refuses each of those schedules at the decisive step -/
example : run (init [1, 2, 3])
    [.packStart 2, .scan 2, .bulkCopy [2], .acquireCommit, .readHdr, .releaseForBody, .copyBody,
     .reacquire, .readHdr, .swapBegin, .begin 4] = none := by decide
example : run (init [1, 2, 3])
    [.packStart 2, .scan 2, .bulkCopy [2], .acquireCommit, .readHdr, .releaseForBody, .begin 4,
     .vote, .copyBody, .readHdr] = none := by decide

end Necessity

end Proto

/-! ## (b) all crash points -/
section Disk
open ZodbModel.PackDisk Proofs.PackDisk

/-- Crash at ANY point of a pack whose swap uses the hard link (`os.link` works — the normal case
    since the repair of the two-rename swap): for every cut of the pack's event list — every byte cut of every write to
    .pack / .index_tmp, every boundary around the removals, the link, the replace and the index
    rename, with committers' raw operations interleaved anywhere — reopening finds a Data.fs (no
    empty database is ever created) holding either the unpacked or the packed database, each with
    every transaction whose status byte had been written (a superset of the commits that had
    returned, see `returned_are_committed`).  Up to and including the link it is the unpacked one,
    from the replace on the packed one. -/
theorem pack_crash_either (r : Run) (u0 kept : List Tid) (k : Nat) (wf : WF r u0 kept k)
    (hl : LinksSupported r) (cut : Nat) :
    ∃ o, openDir (image r.d0 r.trace cut) = some o ∧ o.created = false ∧
      (o.txns = committed r u0 cut ∨ o.txns = packOf kept k (committed r u0 cut)) ∧
      (cut ≤ r.midSwapCut → o.txns = committed r u0 cut) ∧
      (r.midSwapCut < cut → o.txns = packOf kept k (committed r u0 cut)) := by
  by_cases h1 : cut ≤ r.preA.length
  · obtain ⟨b, hb⟩ := before_swap wf h1
    obtain ⟨o, ho, ht, hc⟩ := openDir_db hb
    exact ⟨o, ho, hc, Or.inl ht, fun _ => ht, fun h => by unfold Run.midSwapCut at h; omega⟩
  · by_cases h2 : cut = r.midSwapCut
    · subst h2
      obtain ⟨b, hb⟩ := mid_swap_links wf hl
      obtain ⟨o, ho, ht, hc⟩ := openDir_db hb
      exact ⟨o, ho, hc, Or.inl ht, fun _ => ht, fun h => absurd h (Nat.lt_irrefl _)⟩
    · have h3 : r.preA.length + 2 ≤ cut := by unfold Run.midSwapCut at h2; omega
      obtain ⟨b, hb⟩ := after_swap wf h3
      obtain ⟨o, ho, ht, hc⟩ := openDir_db hb
      exact ⟨o, ho, hc, Or.inr ht, fun h => by unfold Run.midSwapCut at h; omega, fun _ => ht⟩

/-- The same for the two-rename fallback (taken only when `os.link` fails), for every cut OTHER
    THAN the one between the two renames. -/
theorem pack_crash_either_partial (r : Run) (u0 kept : List Tid) (k : Nat) (wf : WF r u0 kept k)
    (cut : Nat) (hne : cut ≠ r.midSwapCut) :
    ∃ o, openDir (image r.d0 r.trace cut) = some o ∧ o.created = false ∧
      (o.txns = committed r u0 cut ∨ o.txns = packOf kept k (committed r u0 cut)) := by
  by_cases h1 : cut ≤ r.preA.length
  · obtain ⟨b, hb⟩ := before_swap wf h1
    obtain ⟨o, ho, ht, hc⟩ := openDir_db hb
    exact ⟨o, ho, hc, Or.inl ht⟩
  · have h3 : r.preA.length + 2 ≤ cut := by unfold Run.midSwapCut at hne; omega
    obtain ⟨b, hb⟩ := after_swap wf h3
    obtain ⟨o, ho, ht, hc⟩ := openDir_db hb
    exact ⟨o, ho, hc, Or.inr ht⟩

/-- The negation for the fallback, for EVERY pack that takes it: at the cut between
    `rename(Data.fs → Data.fs.old)` and `rename(Data.fs.pack → Data.fs)` there is no Data.fs;
    opening creates the EMPTY database while every committed transaction sits in Data.fs.old. -/
theorem pack_crash_between_renames_loses_data (r : Run) (u0 kept : List Tid) (k : Nat)
    (wf : WF r u0 kept k) (hl : ¬ LinksSupported r) :
    ∃ o b, openDir (image r.d0 r.trace r.midSwapCut) = some o ∧ o.created = true ∧ o.txns = [] ∧
      o.after.old = some (.db (committed r u0 r.midSwapCut) b) := by
  have hl : r.links = false := by
    unfold LinksSupported at hl; cases h : r.links <;> simp_all
  obtain ⟨hd, b, hold⟩ := mid_swap_nolinks wf hl
  obtain ⟨o, ho, ht, hc, hao, _⟩ := openDir_missing hd
  refine ⟨o, b, ho, hc, ht, ?_⟩
  rw [hao, hold]
  unfold committed Run.midSwapCut
  rw [take_trace_mid rfl, finishes_append]
  cases r.links <;> simp [swapEvs, finishes]

/-- Commits that had returned before a cut are among the transactions whose status byte had been
    written before it, provided the event list has the shape the code guarantees (`tpc_finish`
    returns after its status-byte write; `PackProto`: `ret t` needs `t` published). -/
theorem returned_are_committed (r : Run) (u0 : List Tid)
    (hret : ∀ cut, ∀ t ∈ rets (r.trace.take cut), t ∈ finishes (r.trace.take cut)) (cut : Nat) :
    ∀ t ∈ returned r cut, t ∈ committed r u0 cut := fun t ht =>
  List.mem_append_right _ (hret cut t ht)

/-- The packed database keeps every committed transaction beyond packpos, in order: nothing a
    concurrent committer added is dropped by either alternative of `pack_crash_either`. -/
theorem packed_keeps_later (kept : List Tid) (k : Nat) (u : List Tid) :
    ∀ t ∈ u.drop k, t ∈ packOf kept k u := fun _ ht => List.mem_append_right _ ht

/-- What an open answers depends on Data.fs alone: leftover .pack / .old files and the saved
    index (a cache, C09) never influence it. -/
theorem leftovers_ignored (d d' : Dir) (h : d.data = d'.data) :
    (openDir d).map (·.txns) = (openDir d').map (·.txns) ∧
    (openDir d).map (·.created) = (openDir d').map (·.created) :=
  openDir_txns_data_only h

/-! non-vacuity: a concrete pack of [1,2,3] at packpos 2 keeping [2], with a leftover .old and a
    saved index, commit 4 voted and finished while .pack is written, commit 5 after the swap,
    keep_old = False, index saved.  It meets `WF`; every cut is enumerated. -/
def exD0 : Dir := { data := some (.db [1, 2, 3] false), old := some (.db [0] false),
                    index := some (.idx [1, 2]) }
def exA : List Ev :=
  [.remove .old, .put .pack .junk, .vote, .put .pack .junk, .finish 4, .ret 4, .put .pack .junk,
   .put .pack (.db [2, 3, 4] false), .remove .index]
def exB : List Ev :=
  [.vote, .remove .old, .finish 5, .ret 5, .put .indexTmp .junk, .put .indexTmp (.idx [2, 3, 4, 5]),
   .remove .index, .rename .indexTmp .index]
def exRun (links : Bool) : Run := { d0 := exD0, preA := exA, links := links, postB := exB }

example (links : Bool) : WF (exRun links) [1, 2, 3] [2] 2 := by
  cases links <;> exact ⟨⟨false, rfl⟩, by decide, by decide, by decide, by decide⟩

/-- every cut of the concrete pack, with links: unpacked up to the link, packed afterwards -/
example : (List.range 20).map (fun cut =>
    (openDir (image exD0 (exRun true).trace cut)).map (fun o => (o.txns, o.created))) =
    [some ([1, 2, 3], false), some ([1, 2, 3], false), some ([1, 2, 3], false),
     some ([1, 2, 3], false), some ([1, 2, 3], false), some ([1, 2, 3, 4], false),
     some ([1, 2, 3, 4], false), some ([1, 2, 3, 4], false), some ([1, 2, 3, 4], false),
     some ([1, 2, 3, 4], false), some ([1, 2, 3, 4], false),
     some ([2, 3, 4], false), some ([2, 3, 4], false), some ([2, 3, 4], false),
     some ([2, 3, 4, 5], false), some ([2, 3, 4, 5], false), some ([2, 3, 4, 5], false),
     some ([2, 3, 4, 5], false), some ([2, 3, 4, 5], false), some ([2, 3, 4, 5], false)] := by
  decide

/-- the fallback's bad cut on the concrete pack: an empty database is created, data sits in .old -/
example : (openDir (image exD0 (exRun false).trace (exRun false).midSwapCut)).map
    (fun o => (o.txns, o.created, o.after.old, o.after.pack)) =
    some ([], true, some (.db [1, 2, 3, 4] false), some (.db [2, 3, 4] false)) := by decide

end Disk

end Props.C08
