/-
  C07 — Packing never changes what is observable at or after the pack time.

  Property theorems only (lemmas: `Proofs/Pack*.lean`; model: `ZodbModel/Pack.lean`,
  `ZodbModel/Reach.lean`).  Vocabulary:

    History            commit-ordered list of transactions; a record is (oid, data?, refs, back?)
    loadBefore h o b   the storage's answer (data, serial, end tid | None | KeyError) for snapshot b
    ReachableAt h b o  o is reachable from the root (oid 0) through `refs` in the snapshot before b
    packFS h T gc      FileStorage.pack as coded in fspack.py (GC marks, copyToPacktime, copyRest);
                       `(packFS h T gc).hist h` is the history afterwards (unchanged unless `.ok`)
    packMapping s T gc MappingStorage.pack (already-packed guard, step 1, step 2)

  The pack time `T` is a tid; "before the pack time" is `tid ≤ T` exactly as both storages compare
  (`th.tid > self.packtime: break`, `tid_data.keys(None, stop)`), "observable at or after T" is the
  set of pairs (snapshot bound b > T, oid reachable in that snapshot).

  What is proved at full strength, what only in part (and why) — in this order below:
    FileStorage   pack_preserves_loads           under the explicit hypothesis `NoResurrection`
                                                  (strengthened w.r.t. DESIGN: the DESIGN form is
                                                  refuted by `pack_preserves_loads_weakNR_false`)
                  pack_keeps_later_txns, pack_backpointers_consistent      full
                  pack_removes_only_R_partial     sentence 1 without its "not written afterwards"
                                                  clause; the full sentence is refuted for the code
                                                  by `pack_removes_only_R_false_for_FileStorage`
                                                  (recorded defect C07:fs-gc-drops-current-revision-
                                                  of-garbage-object-written-after-T)
                  pack_idempotent_partial / pack_earlier_noop_partial
                                                  under `NoBackToTombstone`; without it refuted by
                                                  `pack_idempotent_false_for_FileStorage` (recorded
                                                  defect C07:fs-repack-same-time-removes-more)
                  pack_empty_noop, pack_failure_unchanged, pack_never_out_of_fuel   full
    MappingStorage mapping_pack_preserves_loads (no NoResurrection needed), mapping_pack_keeps_later_txns,
                  mapping_pack_removes_only_R (sentence 1 in full), mapping_pack_idempotent,
                  mapping_pack_earlier_refused, mapping_pack_empty_noop            full
-/
import Proofs.PackIdemGC
namespace Props.C07
open ZodbModel ZodbModel.Pack Proofs.Pack

/-! ## FileStorage -/

/-- **Sentence 2 (loads).**  For every snapshot bound `b` above the pack time and every object
    reachable from the root in that snapshot, the packed storage returns the same data, the same
    serial and the same end tid.  gc off: no further hypothesis.  gc on: `NoResurrection h T` — no
    record written after `T` references an oid that is unreachable at `T`, unless that oid has a
    record with `T < tid ≤` the referencing tid (sentence 1 allows such an object to be removed;
    the harness measures how often generated histories meet the hypothesis).
    `NoDangling` of the DESIGN is not needed: a dangling reference makes the gc pack fail with
    KeyError, which changes nothing (`pack_failure_unchanged`). -/
theorem pack_preserves_loads (h : History) (T : Tid) (gc : Bool) (hs : Sorted h)
    (hNR : gc = true → NoResurrection h T) :
    ∀ b, T < b → ∀ o, ReachableAt h b o → ∀ d s e, loadBefore h o b = .some d s e →
      loadBefore ((packFS h T gc).hist h) o b = .some d s e :=
  fun _ hb _ hr _ _ _ hl => packFS_preserves_loads hs hNR hb hr hl

/-- the state an undo of a transaction after the pack time restores (the revision current just
    before that transaction) is still there: undo behaves identically -/
theorem pack_preserves_undo_target (h : History) (T : Tid) (gc : Bool) (hs : Sorted h)
    (hNR : gc = true → NoResurrection h T) (t : Txn) (_ht : t ∈ h) (hgt : T < t.tid) :
    ∀ o, ReachableAt h t.tid o → ∀ d s e, loadBefore h o t.tid = .some d s e →
      loadBefore ((packFS h T gc).hist h) o t.tid = .some d s e :=
  fun _ hr _ _ _ hl => packFS_preserves_loads hs hNR hgt hr hl

/-- **Sentence 2 (transactions).**  Every transaction after the pack time is still there, in
    order, with identical status, metadata and records (oid, data, length, references); `Txn.core`
    only forgets whether a record is stored as data or as a back pointer … -/
theorem pack_keeps_later_txns (h : History) (T : Tid) (gc : Bool) (hs : Sorted h) :
    (((packFS h T gc).hist h).filter (fun t => decide (T < t.tid))).map Txn.core =
      (h.filter (fun t => decide (T < t.tid))).map Txn.core :=
  packFS_keeps_later hs

/-- … and every back pointer of the packed history again points to an older record of the same
    oid that resolves to the same data (so iteration and undo read the same pickles). -/
theorem pack_backpointers_consistent (h : History) (T : Tid) (gc : Bool) (hs : Sorted h)
    (hb : BackOK h) : BackOK ((packFS h T gc).hist h) :=
  packFS_backOK hs hb

/-- **Sentence 1, partial.**  A record that is gone after the pack was written at or before the
    pack time, and either was superseded at the pack time or belongs to an object that is not
    (reachable from the root and existing) at the pack time.
    FULL STATEMENT (false for FileStorage, see next theorem): … and has no record after `T`. -/
theorem pack_removes_only_R_partial (h : History) (T : Tid) (gc : Bool) (hs : Sorted h)
    (t : Txn) (ht : t ∈ h) (r : Rec) (hr : r ∈ t.recs)
    (hgone : hasRec ((packFS h T gc).hist h) t.tid r.oid = false) :
    t.tid ≤ T ∧ (supersededAt h T t.tid r.oid = true ∨
      ¬ (ReachableAtT h T r.oid ∧ LiveAt h (T + 1) r.oid)) :=
  packFS_removes_only hs ht hr hgone

/-- witness history of the recorded defect: oid 1 is garbage at `T = 5` and written again at 6 -/
def exGarbageWritten : History :=
  [⟨2, false, 3, [], [⟨0, some [10], 50, [1], none⟩, ⟨1, some [1], 50, [], none⟩]⟩,
   ⟨4, false, 3, [], [⟨0, some [11], 50, [], none⟩]⟩,
   ⟨6, false, 3, [], [⟨1, some [2], 50, [], none⟩]⟩]

/-- **Sentence 1 in full is false for FileStorage**: the gc pack removes revision (tid 2, oid 1),
    which is not superseded at `T = 5` and whose object *is* written after `T`. -/
theorem pack_removes_only_R_false_for_FileStorage :
    ∃ h T, Sorted h ∧ ∃ t ∈ h, ∃ r ∈ t.recs,
      hasRec ((packFS h T true).hist h) t.tid r.oid = false ∧
      supersededAt h T t.tid r.oid = false ∧ writtenAfter h T r.oid = true :=
  ⟨exGarbageWritten, 5, sortedB_sound (by decide),
    ⟨2, false, 3, [], [⟨0, some [10], 50, [1], none⟩, ⟨1, some [1], 50, [], none⟩]⟩, by decide,
    ⟨1, some [1], 50, [], none⟩, by decide, by decide, by decide, by decide⟩

/-- witness: garbage at `T = 5` (tid 4), referenced again at 6 without being written, written at 8 -/
def exWeakNR : History :=
  [⟨2, false, 3, [], [⟨0, some [10], 50, [1], none⟩, ⟨1, some [1], 50, [], none⟩]⟩,
   ⟨4, false, 3, [], [⟨0, some [11], 50, [], none⟩]⟩,
   ⟨6, false, 3, [], [⟨0, some [12], 50, [1], none⟩]⟩,
   ⟨8, false, 3, [], [⟨1, some [2], 50, [], none⟩]⟩]

/-- **The DESIGN's weaker NoResurrection does not suffice**: under it (the referenced oid has
    *some* record after `T`) oid 1 is reachable in the snapshot before 7 and loads revision 2
    before the pack, and does not load afterwards. -/
theorem pack_preserves_loads_weakNR_false :
    ∃ h T b o d s e, Sorted h ∧ NoResurrectionWeak h T ∧ T < b ∧ ReachableAt h b o ∧
      loadBefore h o b = .some d s e ∧ loadBefore ((packFS h T true).hist h) o b ≠ .some d s e :=
  ⟨exWeakNR, 5, 7, 1, [1], 2, some 8, sortedB_sound (by decide),
    noResurrectionWeakB_sound (by decide), by decide,
    (reachListAt_sound (L := [1, 0]) (by decide) 1).1 (by decide), by decide, by decide⟩

/-- **Sentence 3, partial** (same time).  Packing again to the same time with the same gc flag
    changes nothing (the second call is refused as redundant, fails again, or frees nothing) —
    for sorted histories with consistent back pointers in which no undo record at or before `T`
    resolves to an un-creation.
    FULL STATEMENT (false for FileStorage, see `pack_idempotent_false_for_FileStorage`): without
    `NoBackToTombstone`. -/
theorem pack_idempotent_partial (h : History) (T : Tid) (gc : Bool) (hs : Sorted h)
    (hb : BackOK h) (hNB : NoBackToTombstone h T) :
    (packFS ((packFS h T gc).hist h) T gc).hist ((packFS h T gc).hist h) = (packFS h T gc).hist h :=
  packFS_idem hs hb hNB

/-- **Sentence 3, partial** (earlier time): after a pack to `T` that was carried out, a pack to
    any `T' ≤ T` changes nothing (refused as redundant when it would cut through the packed
    transactions, else it frees nothing). -/
theorem pack_earlier_noop_partial (h h' : History) (T T' : Tid) (gc : Bool) (hs : Sorted h)
    (hb : BackOK h) (hNB : NoBackToTombstone h T) (hp : packFS h T gc = .ok h') (hle : T' ≤ T) :
    (packFS h' T' gc).hist h' = h' :=
  packFS_repack_ok hs hb hNB hp hle

/-- witness of the recorded defect: oid 1 is created (4), un-created by undo (6), re-created (8),
    and that is undone (10) by a record whose back pointer resolves to the un-creation of 6 -/
def exRepack : History :=
  [⟨2, false, 3, [], [⟨0, some [10], 50, [], none⟩]⟩,
   ⟨4, false, 3, [], [⟨1, some [1], 50, [], none⟩]⟩,
   ⟨6, false, 3, [], [⟨1, none, 0, [], none⟩]⟩,
   ⟨8, false, 3, [], [⟨1, some [2], 50, [], none⟩]⟩,
   ⟨10, false, 3, [], [⟨1, none, 0, [], some 6⟩]⟩,
   ⟨12, false, 3, [], [⟨0, some [11], 50, [], none⟩]⟩]

/-- **Sentence 3 in full is false for FileStorage**: the second gc-off pack to the same time
    removes the packed un-creation record (tid 10, oid 1) the first one kept. -/
theorem pack_idempotent_false_for_FileStorage :
    ∃ h T, Sorted h ∧ BackOK h ∧
      (packFS ((packFS h T false).hist h) T false).hist ((packFS h T false).hist h) ≠
        (packFS h T false).hist h :=
  ⟨exRepack, 11, sortedB_sound (by decide), backOKB_sound (by decide), by decide⟩

/-- packing an empty database (no record at all) is a no-op -/
theorem pack_empty_noop (h : History) (T : Tid) (gc : Bool)
    (hemp : ∀ t ∈ h, t.recs = []) : packFS h T gc = .noop := by
  unfold packFS
  have : h.all (fun t => t.recs.isEmpty) = true := by
    rw [List.all_eq_true]; intro t ht; simp [hemp t ht]
  simp [this]

/-- a pack that is refused (redundant), fails (dangling reference: KeyError) or frees nothing
    leaves the history exactly as it was -/
theorem pack_failure_unchanged (h : History) (T : Tid) (gc : Bool)
    (hne : ∀ h', packFS h T gc ≠ .ok h') : (packFS h T gc).hist h = h := by
  cases hp : packFS h T gc with
  | ok h' => exact absurd hp (hne h')
  | noop => rfl
  | redundant => rfl
  | error _ => rfl

/-- the reachability search never runs out of the fuel it is given (`Reach.closure_isSome`) -/
theorem pack_never_out_of_fuel (h : History) (T : Tid) (gc : Bool) : packFS h T gc ≠ .error .fuel :=
  packFS_ne_fuel h T gc

/-! ## MappingStorage -/

/-- loads: every object reachable in a snapshot above the pack time answers identically — with
    no NoResurrection hypothesis (the sweep follows the references of every remaining revision and
    starts from every object written after the pack time) and whatever the outcome of the pack
    (done, refused, KeyError for a dangling reference after step 1) -/
theorem mapping_pack_preserves_loads (s : MState) (T : Tid) (gc : Bool) (hs : Sorted s.h) :
    ∀ b, T < b → ∀ o, ReachableAt s.h b o →
      loadBefore (packMapping s T gc).1.h o b = loadBefore s.h o b :=
  fun _ hb _ hr => packMapping_preserves_loads hs hb hr

/-- every transaction after the pack time is untouched -/
theorem mapping_pack_keeps_later_txns (s : MState) (T : Tid) (gc : Bool) :
    (packMapping s T gc).1.h.filter (fun t => decide (T < t.tid)) =
      s.h.filter (fun t => decide (T < t.tid)) :=
  packMapping_keeps_later s T gc

/-- **Sentence 1 in full**: a removed record was written at or before the pack time and was
    superseded at the pack time, or belongs to an object unreachable at the pack time that has no
    record afterwards -/
theorem mapping_pack_removes_only_R (s : MState) (T : Tid) (gc : Bool) (hs : Sorted s.h)
    (t : Txn) (ht : t ∈ s.h) (r : Rec) (hr : r ∈ t.recs)
    (hgone : hasRec (packMapping s T gc).1.h t.tid r.oid = false) :
    t.tid ≤ T ∧ (supersededAt s.h T t.tid r.oid = true ∨
      (¬ ReachableAtT s.h T r.oid ∧ writtenAfter s.h T r.oid = false)) :=
  packMapping_removes_only_R hs ht hr hgone

/-- packing again to the same or an earlier time changes nothing: same time = no-op, earlier time
    = refused (ValueError) -/
theorem mapping_pack_idempotent (s : MState) (T T' : Tid) (gc gc' : Bool) (hle : T' ≤ T) :
    (packMapping (packMapping s T gc).1 T' gc').1 = (packMapping s T gc).1 ∨
      (packMapping s T gc).1 = s := by
  rcases packMapping_lastPack_cases s T gc with e | e
  · exact Or.inr e
  · exact Or.inl (packMapping_of_lastPack_ge e hle)

theorem mapping_pack_earlier_refused (s : MState) (T T' : Tid) (gc : Bool) (hlt : T' < T)
    (hl : s.lastPack = some T) (hne : s.h.all (fun t => t.recs.isEmpty) = false) :
    packMapping s T' gc = (s, .error .valueError) := by
  unfold packMapping
  simp only [hne, hl, Bool.false_eq_true, if_false, Option.any_some, beq_iff_eq, decide_eq_true_eq]
  rw [if_neg (by omega), if_pos hlt]

theorem mapping_pack_empty_noop (lp : Option Tid) (T : Tid) (gc : Bool) :
    packMapping ⟨[], lp⟩ T gc = (⟨[], lp⟩, .noop) := by
  simp [packMapping]

/-! ## non-vacuity: a history with an undo record whose back pointer crosses the pack time, with
    garbage, on which the gc pack frees a record and every hypothesis above holds -/

/-- tid 2: root→[1,2], oid 1 = A, oid 2, oid 3 (garbage).  tid 4: oid 1 = B (→[2]).  pack time 5.
    tid 6: undo of 4 (oid 1 back pointer to tid 2).  tid 8: root→[1]. -/
def exH : History :=
  [⟨2, false, 3, [], [⟨0, some [10], 50, [1, 2], none⟩, ⟨1, some [1], 50, [], none⟩,
                      ⟨2, some [3], 50, [], none⟩, ⟨3, some [4], 50, [], none⟩]⟩,
   ⟨4, false, 3, [], [⟨1, some [2], 50, [2], none⟩]⟩,
   ⟨6, false, 3, [], [⟨1, some [1], 50, [], some 2⟩]⟩,
   ⟨8, false, 3, [], [⟨0, some [11], 50, [1], none⟩]⟩]

example : Sorted exH := sortedB_sound (by decide)
example : BackOK exH := backOKB_sound (by decide)
example : NoResurrection exH 5 := noResurrectionB_sound (by decide)
example : NoBackToTombstone exH 5 := by
  intro t ht _ r hr hb
  simp only [exH, List.mem_cons, List.mem_nil_iff, or_false] at ht
  rcases ht with rfl | rfl | rfl | rfl <;> simp at hr <;>
    (try rcases hr with rfl | rfl | rfl | rfl) <;> (try subst hr) <;> simp at hb ⊢
/-- the pack succeeds, drops the garbage revision (2, oid 3), keeps the non-current revision
    (2, oid 1) the undo record points to, and keeps the back pointer -/
example : (packFS exH 5 true).hist exH =
    [⟨2, true, 3, [], [⟨0, some [10], 50, [1, 2], none⟩, ⟨1, some [1], 50, [], none⟩,
                       ⟨2, some [3], 50, [], none⟩]⟩,
     ⟨4, true, 3, [], [⟨1, some [2], 50, [2], none⟩]⟩,
     ⟨6, false, 3, [], [⟨1, some [1], 50, [], some 2⟩]⟩,
     ⟨8, false, 3, [], [⟨0, some [11], 50, [1], none⟩]⟩] := by decide
example : loadBefore exH 1 9 = .some [1] 6 none := by decide
example : loadBefore exH 1 6 = .some [2] 4 (some 6) := by decide
example : ReachableAt exH 6 2 := (reachListAt_sound (L := [2, 1, 0]) (by decide) 2).1 (by decide)
/-- gc off drops the non-current revision (2, oid 1) as well; the undo record of tid 6 that pointed
    to it now carries the data itself (same data, no back pointer) -/
example : (packFS exH 5 false).hist exH =
    [⟨2, true, 3, [], [⟨0, some [10], 50, [1, 2], none⟩, ⟨2, some [3], 50, [], none⟩,
                       ⟨3, some [4], 50, [], none⟩]⟩,
     ⟨4, true, 3, [], [⟨1, some [2], 50, [2], none⟩]⟩,
     ⟨6, false, 3, [], [⟨1, some [1], 50, [], none⟩]⟩,
     ⟨8, false, 3, [], [⟨0, some [11], 50, [1], none⟩]⟩] := by decide
/-- MappingStorage on the witness of the FileStorage defect: the superseded root revision goes,
    revision (2, oid 1) of the garbage object written again at 6 stays -/
example : (packMapping ⟨exGarbageWritten, none⟩ 5 true).1.h =
    [⟨2, true, 3, [], [⟨1, some [1], 50, [], none⟩]⟩,
     ⟨4, false, 3, [], [⟨0, some [11], 50, [], none⟩]⟩,
     ⟨6, false, 3, [], [⟨1, some [2], 50, [], none⟩]⟩] := by decide

end Props.C07
