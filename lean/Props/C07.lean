/-
  C07 — Packing never changes what is observable at or after the pack time.  (work in progress)
-/
import ZodbModel.Pack
namespace Props.C07
open ZodbModel ZodbModel.Pack

/-- packing an empty database is a no-op -/
theorem pack_empty_noop (T : Tid) (gc : Bool) : (packFS [] T gc).hist [] = [] := by
  simp [packFS, PackOut.hist]

end Props.C07
