/-
  C20 — Object ids are never issued twice or for an object that already exists.

  Property theorems only (helper lemmas: `Proofs/Oid.lean`, `Proofs/DemoMachine.lean`).  Model:
  `ZodbModel/Oid.lean` (BaseStorage/FileStorage/MappingStorage counters; histories over
  `newOid | store o | restore o | setMax o | abort | finish | pack keep | reopen`) and the draw loop of
  DemoStorage (`ZodbModel/Demo.lean`).  Each operation is one critical section of the storage lock, so
  a schedule of concurrent allocators is an operation list: the history theorems are the statement
  "for all thread schedules".  `Connection.new_oid`, `TmpStore` (savepoints) and the import path
  delegate to the storage's `new_oid` (exercised by the correspondence check).
-/
import Proofs.Oid
import Proofs.DemoMachine
namespace Props.C20
open ZodbModel ZodbModel.Oid Proofs.Oid

/-- **counter_dominates**: in every state reachable from a freshly created storage, every id issued
    in this session and every oid with a record (committed or written by the transaction in progress)
    is `≤` the counter, and the ids issued in this session are pairwise distinct. -/
theorem counter_dominates (k : Kind) (ops : List Op) :
    let s := run (St.init k) ops
    (∀ o ∈ s.issued, o ≤ s.counter) ∧ (∀ o ∈ s.index, o ≤ s.counter) ∧
    (∀ o ∈ s.tindex, o ≤ s.counter) ∧ s.issued.Nodup :=
  run_inv _ ops (inv_init k)

/-- **new_oid_fresh**: for every history, the id an allocation returns differs from all ids issued
    earlier in the same open session and from every oid with a record present (or being written);
    it is `counter + 1` and becomes the counter. -/
theorem new_oid_fresh (k : Kind) (pre : List Op) (s' : St) (c : Nat)
    (h : step (run (St.init k) pre) .newOid = (s', .oid c)) :
    let s := run (St.init k) pre
    c ∉ s.issued ∧ c ∉ s.index ∧ c ∉ s.tindex ∧ c = s.counter + 1 ∧ s'.counter = c ∧
    s'.issued = c :: s.issued := by
  obtain ⟨h1, h2, h3, _⟩ := run_inv _ pre (inv_init k)
  obtain ⟨e1, e2, e3, _, _, _⟩ := newOid_out h
  refine ⟨fun hm => ?_, fun hm => ?_, fun hm => ?_, e1, e2, e3⟩
  · have := h1 c hm; omega
  · have := h2 c hm; omega
  · have := h3 c hm; omega

/-- **reopen_dominates**: close + open of a file storage sets the counter to the largest oid of the
    index (0 if empty): everything stored before is `≤` the counter again, whatever the state was. -/
theorem reopen_dominates (s : St) (hk : s.kind = .file) :
    let s' := (step s .reopen).1
    s'.index = s.index ∧ (∀ o ∈ s'.index, o ≤ s'.counter) ∧ (s'.counter = 0 ∨ s'.counter ∈ s'.index) ∧
    s'.issued = [] := by
  simp only [step, hk]
  exact ⟨trivial, fun o ho => le_maxOid ho, maxOid_mem_or_zero _, trivial⟩

/-- **no_wraparound**: at `2^64 - 1` an error is raised instead of wrapping (the state of a file
    storage is unchanged; MappingStorage keeps failing); and every id that IS issued lies strictly
    above the old counter and fits 8 bytes. -/
theorem no_wraparound (s : St) :
    (s.kind = .file → s.counter = top → step s .newOid = (s, .err .overflow)) ∧
    (s.kind = .mapping → top ≤ s.counter → (step s .newOid).2 = .err .overflow) ∧
    (∀ s' c, s.counter < 2 ^ 64 → step s .newOid = (s', .oid c) → s.counter < c ∧ c < 2 ^ 64) := by
  refine ⟨?_, ?_, ?_⟩
  · intro hk hc
    simp only [step, hk, hc]
    rfl
  · intro hk hc
    have : ¬ s.counter + 1 < 2 ^ 64 := by unfold top at hc; omega
    simp [step, hk, this]
  · intro s' c hlt h
    have he := (newOid_out h).1
    refine ⟨by omega, ?_⟩
    unfold step at h
    cases hk : s.kind with
    | file =>
      rw [hk] at h
      simp only at h
      rw [newOidNat_spec _ hlt] at h
      by_cases hc : s.counter + 1 < 2 ^ 64
      · omega
      · simp [hc] at h
    | mapping =>
      rw [hk] at h
      simp only at h
      by_cases hc : s.counter + 1 < 2 ^ 64
      · omega
      · simp [hc] at h

/-- `BaseStorage.new_oid` as coded on the 8-byte string (fast path on the last byte, carry through
    `struct.pack`) is `+ 1` on the value and raises exactly at `ff ff ff ff ff ff ff ff` -/
theorem new_oid_bytes (last : Bytes) (hl : last.length = 8) (hw : BytesWF last) :
    beVal last < 2 ^ 64 ∧
    newOidBytes last = (if beVal last + 1 < 2 ^ 64 then .ok (be 8 (beVal last + 1))
                        else .error .overflow) := by
  have hlt : beVal last < 2 ^ 64 := by
    have := beVal_lt 8 last hl hw
    have e : (256 : Nat) ^ 8 = 2 ^ 64 := by decide
    omega
  refine ⟨hlt, ?_⟩
  rw [newOidBytes_spec last hl hw, newOidNat_spec _ hlt]
  by_cases hc : beVal last + 1 < 2 ^ 64
  · simp [hc]
  · simp [hc]

/-- abort, finish, pack, stores and allocations never lower the counter (only a reopen recomputes it) -/
theorem counter_never_lowered (s : St) (op : Op) (h : ∀ (_ : op = .reopen), False) :
    s.counter ≤ (step s op).1.counter := counter_mono s op h

/-- stores and restores of a larger oid raise the counter to it -/
theorem store_raises (s : St) (o : Nat) :
    o ≤ (step s (.store o)).1.counter ∧ (s.kind = .file → o ≤ (step s (.restore o)).1.counter) := by
  refine ⟨by simp only [step]; omega, fun hk => by simp only [step, hk]; omega⟩

/-- DemoStorage (C16's `demo_oid_fresh`): for every draw stream the oid returned is not in the issued
    set and `load_current` fails for it in both layers; it is added to the issued set, and stays there
    until a transaction that stored it finishes. -/
theorem demo_new_oid_fresh (b : Demo.Store) (c : Demo.Layer) (ds : Demo.DState) (draws : List Nat)
    (o : Nat) (used : Nat)
    (h : (Demo.step (.demo b c ds) (.newOid draws)).2 = .oid (some o) used) :
    o ∉ ds.issued ∧ (Demo.Store.leaf c).live o = false ∧ b.live o = false ∧
    ∃ ds', (Demo.step (.demo b c ds) (.newOid draws)).1 = .demo b c ds' ∧
      ds'.issued = o :: ds.issued ∧ ds'.next = o + 1 :=
  Proofs.Demo.newOid_fresh b c ds draws o used h

/-! non-vacuity: a history that stores above the counter, packs, and reopens -/
def exOps : List Op :=
  [.newOid, .store 300, .newOid, .finish, .store 7, .abort, .pack [1, 301], .newOid, .reopen, .newOid]

example : outs (St.init .file) exOps =
    [.oid 1, .ok, .oid 301, .ok, .ok, .ok, .ok, .oid 302, .ok, .oid 1] := by decide
example : (run (St.init .file) [.store 300, .finish, .reopen]).counter = 300 := by decide
example : (step (run (St.init .file) [.store top]) .newOid).2 = .err .overflow := by decide
example : newOidBytes [0, 0, 0, 0, 0, 0, 1, 255] = .ok [0, 0, 0, 0, 0, 0, 2, 0] := by decide
example : newOidBytes [255, 255, 255, 255, 255, 255, 255, 255] = .error .overflow := by decide

end Props.C20
