/-
  C09 — Index and side files are only caches; a read-only open changes nothing.

  Property theorems only (lemmas: `Proofs/FormatScan.lean`, `Proofs/IndexCache*.lean`).

  Vocabulary (`ZodbModel/IndexCache.lean`):
    saveIndex cs                what `_save_index` stores when `cs` is committed: (`_pos`, `_index`)
    saveBytes pos ix / loadIndex   the index file as a stream of frames / `fsIndex.load` inside the
                                bare `except` of `_restore_index` (`none` = no usable index)
    checkSanity file ix pos     `_check_sanity`: `some ltid` = accepted, `none` = ignored
    openWith ro file idx        `FileStorage(path, read_only=ro)` on the bytes `file` with a decoded
                                index (or none); `openFile` takes the raw index-file bytes
    Opened.state                bytes of Data.fs after the open, `_pos`, `_index`, `_ltid`, `_oid`
    openDir / apiStep / runApi  directory level: which files an open and each public method touch
-/
import Proofs.IndexCacheCrash
namespace Props.C09
open ZodbModel ZodbModel.Format ZodbModel.Disk ZodbModel.IndexCache

/-- Coherence with C01: opening without an index IS the recovery of C01 (`Disk.recover`), so every
    statement of C01 about crash images carries over to the index variants below. -/
theorem open_without_index_is_recover (b : Bytes) :
    (openWith false b none).map (fun o => (o.bytes, o.pos, o.index, o.ltid, o.how))
      = (recover b).map (fun r => (r.bytes, r.pos, r.index, r.ltid, r.how)) := by
  unfold openWith restoreIndex recover
  cases readIndex b 4 [] 0 with
  | error e => rfl
  | ok r => rfl

/-- Scanning from the saved position with the saved map = scanning from 4 with the empty map, on
    every file that still begins with the data the index was saved for, followed by ANYTHING
    (later commits, a torn tail, garbage): same position, index, last tid, kind of ending, same
    exception if any; the full scan merely also lists the transactions before the saved position. -/
theorem scan_from_saved (cs : List FTxn) (hw : FileWF cs) (ext : Bytes) (l : Nat) :
    readIndex (encodeFile cs ++ ext) 4 [] l
      = (readIndex (encodeFile cs ++ ext) (saveIndex cs).pos (saveIndex cs).index (lastTid l cs)).map
          (Proofs.Format.ScanResult.withTxns cs) :=
  Proofs.IndexCache.readIndex_from_saved cs hw ext l

/-- `_check_sanity` can hand back only one tid for such an index: that of the transaction ending at
    the saved position (which is the `ltid` a full scan has when it gets there) — and it never
    raises, whatever index it is given. -/
theorem sanity_ltid (cs : List FTxn) (hw : FileWF cs) (ext : Bytes) (ix : Index) :
    (∃ r, checkSanity (encodeFile cs ++ ext) ix (encodeFile cs).length = .ok r) ∧
    ∀ l', checkSanity (encodeFile cs ++ ext) ix (encodeFile cs).length = .ok (some l') →
      l' = lastTid 0 cs :=
  ⟨Proofs.IndexCache.checkSanity_no_error cs hw ext ix,
   fun l' h => Proofs.IndexCache.checkSanity_saved cs hw ext ix 0 l' h⟩

/-- THE cache theorem, without a pack in between (full statement `index_is_cache` — for an index
    saved at ANY earlier moment, "even before a pack" — is FALSE for the code, see
    `stale_index_across_pack_accepted` below; what is missing here is exactly the pack case).
    If the index file was written when `cs` was committed and the data file now is that data
    followed by anything (all later commits, aborts, crash images of C01), then opening with the
    index file gives exactly the outcome of opening without it: the same state (bytes of Data.fs
    after the open, position, index, last tid, max oid) or the same exception — read-only or not. -/
theorem index_is_cache_partial (ro : Bool) (cs : List FTxn) (hw : FileWF cs) (ext : Bytes) :
    (openFile ro (encodeFile cs ++ ext)
        (some (saveBytes (saveIndex cs).pos (saveIndex cs).index))).map Opened.state
      = (openFile ro (encodeFile cs ++ ext) none).map Opened.state := by
  have hl := Proofs.IndexCache.loadIndex_save (saveIndex cs).pos (saveIndex cs).index
    (Proofs.IndexCache.fileLen_lt cs hw) (Proofs.IndexCache.indexOf_wf cs hw)
  unfold openFile
  simp only [Option.bind_some, hl, Option.map_some, Option.bind_none, Option.map_none]
  exact Proofs.IndexCache.openWith_saved_eq ro cs hw ext

/-- C09 × C01 — "all crash states of C01 reopened with every such index": take ANY history
    `ops1 ++ ops2` of two-phase commits, save the index after `ops1` (any earlier moment), crash at
    ANY later cut (event prefix + byte prefix of a write): opening the crash image with that index
    gives exactly the outcome of opening it without (which, by C01 `crash_prefix`, is the cleanly
    written file of a prefix of the commits that contains every returned one). -/
theorem index_is_cache_on_crash_images (ro : Bool) (cs : List FTxn) (ops1 ops2 : List Op)
    (hcs : FileWF cs) (hops : OpsWF cs (ops1 ++ ops2)) (k nb : Nat) :
    (openWith ro (image (encodeFile cs) (trace cs (ops1 ++ ops2)) ((trace cs ops1).length + k) nb)
        (some (saveIndex (cs ++ newCommits cs ops1)))).map Opened.state
      = (openWith ro (image (encodeFile cs) (trace cs (ops1 ++ ops2)) ((trace cs ops1).length + k) nb)
          none).map Opened.state :=
  Proofs.IndexCache.open_crash_image_with_saved_index ro cs ops1 ops2 hcs hops k nb

/-- … and an index the sanity check rejects — or on which it raises, having read garbage where a
    foreign index points — is ignored altogether, whatever it contains and whatever the file is. -/
theorem rejected_index_ignored (ro : Bool) (file : Bytes) (s : SavedIndex)
    (h : ∀ l, checkSanity file s.index s.pos ≠ .ok (some l)) :
    openWith ro file (some s) = openWith ro file none :=
  Proofs.IndexCache.openWith_rejected ro file s h

/-- A saved index file loads back to what was saved … -/
theorem index_file_roundtrip (cs : List FTxn) (hw : FileWF cs) :
    loadIndex (saveBytes (saveIndex cs).pos (saveIndex cs).index)
      = some ((saveIndex cs).pos, (saveIndex cs).index) :=
  Proofs.IndexCache.loadIndex_save _ _ (Proofs.IndexCache.fileLen_lt cs hw)
    (Proofs.IndexCache.indexOf_wf cs hw)

/-- … every strict byte-prefix of it (the empty file included) loads as "no index", so opening with
    a cut-short index file IS opening without one. -/
theorem truncated_index_rejected (pos : Nat) (ix : Index) (k : Nat)
    (hk : k < (saveBytes pos ix).length) (ro : Bool) (file : Bytes) :
    loadIndex ((saveBytes pos ix).take k) = none ∧
    openFile ro file (some ((saveBytes pos ix).take k)) = openFile ro file none := by
  have h := Proofs.IndexCache.loadIndex_trunc pos ix k hk
  exact ⟨h, by simp [openFile, h]⟩

/-- Leftover `.tmp`, `.lock`, `.pack`, `.old`, `.trN`, `.index_tmp` files: two directories that
    agree on Data.fs and Data.fs.index open to the same state (or the same exception). -/
theorem leftover_files_ignored (ro : Bool) (d d' : Dir) (h1 : dirGet d "" = dirGet d' "")
    (h2 : dirGet d ".index" = dirGet d' ".index") :
    (openDir ro d).map (·.1) = (openDir ro d').map (·.1) :=
  Proofs.IndexCache.openDir_congr ro d d' h1 h2

/-- A read-only open issues no create/write/truncate/rename/remove at all — also on a file with an
    unfinished transaction at its end, also when the index is missing or stale — and leaves the
    bytes of Data.fs as they are; every later call sequence on the read-only instance issues none
    either (`close` included: `_save_index` returns at once). -/
theorem ro_no_mutation (d : Dir) (o : Opened) (evs : List FsEv) (h : openDir true d = .ok (o, evs))
    (ops : List ApiOp) :
    evs = [] ∧ some o.bytes = dirGet d "" ∧
    (runApi d o.pos o.index { ro := true } ops).2 = [] :=
  ⟨(Proofs.IndexCache.openDir_ro d o evs h).1, (Proofs.IndexCache.openDir_ro d o evs h).2,
   (Proofs.IndexCache.runApi_ro d o.pos o.index ops { ro := true } rfl rfl).1⟩

/-- Every write API on a read-only instance is refused: ReadOnlyError, or StorageTransactionError
    for tpc_vote/tpc_finish (which compare the transaction first; none can have begun). -/
theorem ro_refuses_writes (d : Dir) (pos : Nat) (ix : Index) (ops : List ApiOp) :
    ∀ oo ∈ (runApi d pos ix { ro := true } ops).1, oo.1.isWrite = true →
      oo.2 = .readOnly ∨ oo.2 = .storageTransaction :=
  (Proofs.IndexCache.runApi_ro d pos ix ops { ro := true } rfl rfl).2

/-! ### the pack case: negation witness (open defect, DESIGN section 5 item 9)

`exBefore` is a history T1a={C}, T1b={A}, T2a={D}, T2b={A}, T2c={C} of equal-size transactions
(oids A=1, C=2, D=3); the index is saved after T1b.  Packing (gc off, pack time after T2c) keeps
the current records only and drops the transactions that become empty: `exPacked` = T2a, T2b, T2c
with status 'p', now at the offsets T1a, T1b, T2a had.  The stale index (pos = 152 = a transaction
boundary of the packed file, A ↦ 101 = where A's record sits in the packed file) passes
`_check_sanity`; the scan continues behind T2b; D, committed in T2a, is in no index. -/

def exTxn (pos tid oid prev st : Nat) : FTxn := ⟨tid, st, [], [], [], [⟨oid, tid, prev, pos, .data [oid]⟩]⟩
def exBefore : List FTxn :=
  [exTxn 4 1000 2 0 32, exTxn 78 1001 1 0 32, exTxn 152 1002 3 0 32, exTxn 226 1003 1 101 32,
   exTxn 300 1004 2 27 32]
def exPacked : List FTxn := [exTxn 4 1002 3 0 112, exTxn 78 1003 1 0 112, exTxn 152 1004 2 0 112]

/-- after an open: was the index used, and where is `oid` -/
def lookupAfterOpen (r : Except Err Opened) (oid : Nat) : Option (Bool × Option Nat) :=
  match r with
  | .ok o => some (o.usedIndex, idxGet oid o.index)
  | .error _ => none

theorem stale_index_across_pack_accepted :
    FileWF exBefore ∧ FileWF exPacked ∧
    saveIndex (exBefore.take 2) = ⟨152, [(1, 101), (2, 27)]⟩ ∧
    -- without the index file: D (oid 3) is found at offset 27
    lookupAfterOpen (openWith false (encodeFile exPacked) none) 3 = some (false, some 27) ∧
    -- with the pre-pack index: the index is accepted and D is gone
    lookupAfterOpen (openWith false (encodeFile exPacked) (some (saveIndex (exBefore.take 2)))) 3
      = some (true, none) := by
  refine ⟨by decide, by decide, by decide +kernel, by decide +kernel, by decide +kernel⟩

/-! ### non-vacuity -/

open Props.C09 in
/-- the hypotheses of `index_is_cache_partial` are met by the concrete history above with a torn
    tail behind it; the index (saved after 2 of 5 transactions, i.e. 3 transactions old) is used -/
example : FileWF (exBefore.take 2) ∧
    lookupAfterOpen (openWith false (encodeFile exBefore ++ [1, 2, 3])
      (some (saveIndex (exBefore.take 2)))) 3 = some (true, some 175) ∧
    lookupAfterOpen (openWith false (encodeFile exBefore ++ [1, 2, 3]) none) 3
      = some (false, some 175) := by
  refine ⟨by decide, by decide +kernel, by decide +kernel⟩

example : (saveBytes 152 [(1, 101), (2, 27)]).length = 61 ∧
    loadIndex (saveBytes 152 [(1, 101), (2, 27)]) = some (152, [(1, 101), (2, 27)]) ∧
    loadIndex ((saveBytes 152 [(1, 101), (2, 27)]).take 60) = none := by
  refine ⟨by decide +kernel, by decide +kernel, by decide +kernel⟩

/-- a read-only session that issues write calls: all refused, no event -/
example : runApi [] 4 [] { ro := true } [.load, .store, .tpcBegin, .tpcVote, .pack, .newOid, .close]
    = ([(.load, .ok), (.store, .readOnly), (.tpcBegin, .readOnly), (.tpcVote, .storageTransaction),
        (.pack, .readOnly), (.newOid, .readOnly), (.close, .ok)], []) := by decide

/-- … whereas the same calls on a writable instance do touch files (the guards matter) -/
example : (runApi [] 4 [] { ro := false } [.tpcBegin, .store, .tpcVote, .tpcFinish, .close]).2 ≠ [] := by
  decide

end Props.C09
