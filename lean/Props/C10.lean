/-
  C10 — Conflict resolution stores exactly the class's three-way merge.

  Property theorems only (lemmas live in `Proofs/Resolve.lean`, `Proofs/StoreRules*.lean`).
  Two levels:
  * the function `tryToResolve` (= `ConflictResolution.tryToResolveConflict`, model in
    `ZodbModel/Resolve.lean`) for ANY storage `loadSerial`, cache, serials, records — this also
    covers the call from `FileStorage._transactionalUndoRecord` (`undoResolve`);
  * the commit-lock machine of `ZodbModel/StoreRules.lean` (FileStorage, DemoStorage over either
    changes storage; MappingStorage never resolves) in every reachable state of any interleaving.
  States are trees over opaque atoms and persistent references in all seven formats
  `PersistentReference.__init__` distinguishes; the class's resolver is an arbitrary function that
  returns a state, raises ConflictError, or raises anything else.  The pickle byte layout is
  runtime and tied to the model by the correspondence check (harness/c10.py).
-/
import Proofs.ResolveC10
namespace Props.C10
open ZodbModel ZodbModel.Resolve ZodbModel.StoreRules Proofs.Resolve

/-! ### the stored record is the resolver's output -/

/-- `tryToResolveConflict` succeeds with record `d` EXACTLY when: the class of the new pickle is
    importable, not cached as unresolvable and has `_p_resolveConflict`; `loadSerial(oid, oldSerial)`
    and the committed revision (`committedData` if given, else `loadSerial(oid, committedSerial)`)
    exist; the resolver applied to (state at oldSerial, committed state, new state) — in this
    order — returns `m`; and `d` is the new pickle's class meta data followed by `m` re-pickled. -/
theorem stored_is_resolver_output (E : Env) (ls : Oid → Tid → Option Record) (cache : List ClassId)
    (oid : Oid) (committedSerial oldSerial : Tid) (newpickle : Record) (committedData : Option Record)
    (d : Record) :
    (tryToResolve E ls cache oid committedSerial oldSerial newpickle committedData).out = .ok d ↔
    ∃ old committed m,
      Invoked E ls cache oid committedSerial oldSerial newpickle committedData old committed ∧
      E.resolver newpickle.hdr.cls (loadState E.ci old.state) (loadState E.ci committed.state)
        (loadState E.ci newpickle.state) = .ok m ∧
      d = { hdr := newpickle.hdr, state := dumpState m } :=
  tryToResolve_ok_iff E ls cache oid committedSerial oldSerial newpickle committedData d

/-- whenever the resolver is invoked at all, it is with exactly those three states -/
theorem resolver_arguments (E : Env) (ls : Oid → Tid → Option Record) (cache : List ClassId)
    (oid : Oid) (committedSerial oldSerial : Tid) (newpickle : Record) (committedData : Option Record)
    (c : Call)
    (h : (tryToResolve E ls cache oid committedSerial oldSerial newpickle committedData).call = some c) :
    ∃ old committed,
      Invoked E ls cache oid committedSerial oldSerial newpickle committedData old committed ∧
      c = { cls := newpickle.hdr.cls, old := loadState E.ci old.state,
            committed := loadState E.ci committed.state, new := loadState E.ci newpickle.state } :=
  tryToResolve_call E ls cache oid committedSerial oldSerial newpickle committedData c h

/-- In every reachable state of the machine, a `store` by the lock holder that reports resolution
    has staged exactly one revision whose data is `resolver(state at the writer's base serial, state
    at the committed tid, wanted)` re-pickled after the writer's class meta data; the oid was added
    to `_resolved`; the resolver was called exactly once, with those arguments; nothing else
    changed. -/
theorem store_stores_resolver_output (E : Env) (k : Kind) (base : Hist) (hb : Sorted base) (s : Sys)
    (h : Reachable E k base s) (t : TxnId) (oid : Oid) (serial : Tid) (data : Record)
    (ho : (step E s (.store t oid serial data)).out = .resolvedStore) :
    ∃ ct old committed m,
      currentTid s.view oid = some ct ∧ serial ≠ ct ∧
      loadSerialK k s.hist base oid serial = some old ∧
      loadSerialK k s.hist base oid ct = some committed ∧
      E.resolver data.hdr.cls (loadState E.ci old.state) (loadState E.ci committed.state)
        (loadState E.ci data.state) = .ok m ∧
      step E s (.store t oid serial data) =
        { sys := { s with staged := { oid := oid, base := serial,
                                      data := { hdr := data.hdr, state := dumpState m },
                                      wanted := data, resolved := true } :: s.staged,
                          resolved := oid :: s.resolved },
          out := .resolvedStore,
          calls := [{ cls := data.hdr.cls, old := loadState E.ci old.state,
                      committed := loadState E.ci committed.state,
                      new := loadState E.ci data.state }] } :=
  Proofs.C10Props.store_stores_resolver_output E k base hb s h t oid serial data ho

/-- The same for everything committed: a committed revision flagged `resolved` is the merge of
    (state at its base serial, state of the immediately preceding revision, wanted), both states
    being what `loadSerial` returned from the transactions committed before it. -/
theorem committed_resolved_is_merge (E : Env) (k : Kind) (base : Hist) (hb : Sorted base) (s : Sys)
    (h : Reachable E k base s) (newer : Hist) (t : Txn) (older : Hist)
    (hs : s.hist = newer ++ t :: older) (r : Rev) (hr : r ∈ t.recs) (hres : r.resolved = true) :
    ∃ ct, currentTid (viewOf k older base) r.oid = some ct ∧ r.base ≠ ct ∧
      Merged E (loadSerialK k older base) ct r :=
  Proofs.C10Props.committed_resolved_is_merge E k base hb s h newer t older hs r hr hres

/-- and a committed revision NOT flagged `resolved` holds the writer's bytes unchanged -/
theorem committed_unresolved_is_wanted (E : Env) (k : Kind) (base : Hist) (hb : Sorted base) (s : Sys)
    (h : Reachable E k base s) (newer : Hist) (t : Txn) (older : Hist)
    (hs : s.hist = newer ++ t :: older) (r : Rev) (hr : r ∈ t.recs) (hres : r.resolved = false) :
    r.data = r.wanted :=
  Proofs.C10Props.committed_unresolved_is_wanted E k base hb s h newer t older hs r hr hres

/-- Exactness (no spurious conflict): if the kind resolves, the class is importable and has a
    resolver, both revisions can be loaded and the resolver returns `m`, then the conflicting store
    succeeds with the merge. -/
theorem resolvable_conflict_resolves (E : Env) (k : Kind) (base : Hist) (hb : Sorted base) (s : Sys)
    (h : Reachable E k base s) (t : TxnId) (hl : s.lock = some t) (oid : Oid) (serial ct : Tid)
    (data old committed : Record) (m : LState)
    (hc : currentTid s.view oid = some ct) (hne : serial ≠ ct) (hk : k.resolves = true)
    (himp : (E.ci data.hdr.cls).importable = true) (hres : (E.ci data.hdr.cls).hasResolver = true)
    (hold : loadSerialK k s.hist base oid serial = some old)
    (hcom : loadSerialK k s.hist base oid ct = some committed)
    (hm : E.resolver data.hdr.cls (loadState E.ci old.state) (loadState E.ci committed.state)
            (loadState E.ci data.state) = .ok m) :
    (step E s (.store t oid serial data)).out = .resolvedStore ∧
    (step E s (.store t oid serial data)).sys.staged =
      { oid := oid, base := serial, data := { hdr := data.hdr, state := dumpState m },
        wanted := data, resolved := true } :: s.staged :=
  Proofs.C10Props.resolvable_conflict_resolves E k base hb s h t hl oid serial ct data old committed m hc hne hk himp hres hold hcom hm

/-! ### references are preserved -/

/-- `persistent_id ∘ persistent_load` is the identity on the data of every one of the seven
    reference formats — (oid, class), bare oid, ['m', (db, oid, class)], ['n', (db, oid)],
    ['w', (oid,)], ['w', (oid, db)], [oid] — … -/
theorem refs_preserved (r : LRef) (h : noBad r) :
    (persistentId (persistentLoad r)).mapK embedK = r :=
  persistentId_persistentLoad_noBad r h

/-- … except that a class slot holding a `BadClass` (unimportable global) is rewritten to its
    `(module, name)` tuple, which the format allows; format, oid, database and weakness are kept. -/
theorem refs_preserved_badclass (r : LRef) :
    persistentId (persistentLoad r) = r.mapK normK ∧
    (persistentLoad r).oid = r.oid ∧ (persistentLoad r).database_name = r.db ∧
    (persistentLoad r).weak = r.isWeak := ⟨rfl, rfl, rfl, rfl⟩

/-- Pickle level: a reference that went unpickle → `persistent_load` → resolver (untouched) →
    `persistent_id` → pickle comes out in the same format with the same oid, database, weakness and
    class; byte-identical slot when the class is importable. -/
theorem refs_roundtrip (ci : ClassId → ClassInfo) (r : PRef) :
    dumpRef (loadRef ci r) = normRef ci r ∧
    (normRef ci r).oid = r.oid ∧ (normRef ci r).db = r.db ∧ (normRef ci r).isWeak = r.isWeak ∧
    (normRef ci r).klass.map PKlass.id = r.klass.map PKlass.id ∧
    (RefImportable ci r → normRef ci r = r) := by
  obtain ⟨h1, h2, h3, h4⟩ := normRef_same_target ci r
  exact ⟨dumpRef_loadRef ci r, h1, h2, h3, h4, normRef_importable ci r⟩

/-- Whole states: a state the resolver returns unchanged is stored as it was pickled (identically
    when every referenced class is importable), and the references of ANY stored merge are exactly
    the (normalised) references of the resolver's result, in order. -/
theorem state_roundtrip (ci : ClassId → ClassInfo) (s : PState) (m : LState) :
    dumpState (loadState ci s) = s.map (normRef ci) ∧
    ((∀ r ∈ s.refs, RefImportable ci r) → dumpState (loadState ci s) = s) ∧
    (dumpState m).refs = m.refs.map dumpRef :=
  ⟨dumpState_loadState ci s, dumpState_loadState_importable ci s, dumpState_refs m⟩

/-! ### unresolvable conflicts -/

/-- No resolver / class not importable / class cached as unresolvable / a revision cannot be loaded
    / the resolver raises ConflictError or anything else ⇒ `tryToResolveConflict` raises exactly the
    ConflictError built at its end (every other exception is funnelled into it). -/
theorem unresolvable_is_conflict_error (E : Env) (ls : Oid → Tid → Option Record)
    (cache : List ClassId) (oid : Oid) (cs os : Tid) (np : Record) (cd : Option Record)
    (h : (E.ci np.hdr.cls).importable = false ∨ (E.ci np.hdr.cls).hasResolver = false ∨
         np.hdr.cls ∈ cache ∨ ls oid os = none ∨ committedOf ls oid cs cd = none ∨
         ∀ old committed, ls oid os = some old → committedOf ls oid cs cd = some committed →
           ∃ e, E.resolver np.hdr.cls (loadState E.ci old.state) (loadState E.ci committed.state)
             (loadState E.ci np.state) = .error e) :
    (tryToResolve E ls cache oid cs os np cd).out =
      .error { oid := oid, committedSerial := cs, oldSerial := os } :=
  tryToResolve_fails E ls cache oid cs os np cd h

/-- In every reachable state, a conflicting `store` (serial ≠ tid of the current revision) for
    which the storage does not resolve (MappingStorage), or the class offers no resolver, or is not
    importable, or the resolver fails in any way, ends in ConflictError and stores nothing: the state
    is as before except possibly for the `_unresolvable` class cache; `_resolved` in particular is
    unchanged. -/
theorem unresolvable_conflict_stores_nothing (E : Env) (k : Kind) (base : Hist) (hb : Sorted base)
    (s : Sys) (h : Reachable E k base s) (t : TxnId) (hl : s.lock = some t) (oid : Oid)
    (serial ct : Tid) (data : Record)
    (hc : currentTid s.view oid = some ct) (hne : serial ≠ ct)
    (hbad : k.resolves = false ∨ (E.ci data.hdr.cls).importable = false ∨
      (E.ci data.hdr.cls).hasResolver = false ∨
      ∀ old committed, loadSerialK k s.hist base oid serial = some old →
        loadSerialK k s.hist base oid ct = some committed →
        ∃ e, E.resolver data.hdr.cls (loadState E.ci old.state) (loadState E.ci committed.state)
          (loadState E.ci data.state) = .error e) :
    (step E s (.store t oid serial data)).out = .conflict ∧
    (step E s (.store t oid serial data)).sys =
      { s with cache := (step E s (.store t oid serial data)).sys.cache } :=
  Proofs.C10Props.unresolvable_conflict_stores_nothing E k base hb s h t hl oid serial ct data hc hne hbad

/-- The `_unresolvable` cache never makes a resolvable class fail: in reachable states it only
    contains classes without `_p_resolveConflict`. -/
theorem unresolvable_cache_sound (E : Env) (k : Kind) (base : Hist) (hb : Sorted base) (s : Sys)
    (h : Reachable E k base s) : ∀ c ∈ s.cache, (E.ci c).hasResolver = false :=
  (Proofs.StoreRules.reachable_inv E k base hb s h).cache

/-! ### reporting at vote, and the writer's connection -/

/-- `tpc_vote` of the lock holder returns `_resolved`, and an oid is in it exactly when one of the
    transaction's staged revisions of that oid went through resolution (for a DemoStorage the inner
    `changes.tpc_vote()` never reports anything, so "Unexpected resolved conflicts" cannot occur). -/
theorem resolved_reported_at_vote (E : Env) (k : Kind) (base : Hist) (hb : Sorted base) (s : Sys)
    (h : Reachable E k base s) (t : TxnId) (hl : s.lock = some t) :
    (step E s (.vote t)).out = .voted s.resolved ∧
    (∀ o, o ∈ s.resolved ↔ ∃ r ∈ s.staged, r.oid = o ∧ r.resolved = true) ∧
    s.innerResolved = [] := by
  have hi := Proofs.StoreRules.reachable_inv E k base hb s h
  exact ⟨Proofs.StoreRules.step_vote_out E k base s hi t hl, hi.resolvedIff, hi.inner⟩

/-- The writer's connection (`Connection.tpc_vote` ghostifies every oid the vote reported,
    `tpc_finish` otherwise keeps the object's own state under the new serial) reads, after the
    commit, exactly what was stored for every object it wrote — the merged state when there was a
    resolution. -/
theorem writer_reads_stored_state (E : Env) (k : Kind) (base : Hist) (hb : Sorted base) (s : Sys)
    (h : Reachable E k base s) :
    ∀ r ∈ s.staged, connRead (some r.data) (afterCommit s.resolved r.oid r.wanted s.tid) = some r.data :=
  Proofs.C10Props.writer_reads_stored_state E k base hb s h

/-! ### undo -/

/-- `_transactionalUndoRecord` resolves with the same function and the arguments (state written by
    the transaction being undone, current state, state before the undone transaction): the undo
    record is `resolver(undone, current, previous)` re-pickled, and every failure is an UndoError. -/
theorem undo_uses_same_resolver (E : Env) (ls : Oid → Tid → Option Record) (cache : List ClassId)
    (oid : Oid) (ctid undoneTid : Tid) (preData currentData d : Record) :
    ((undoResolve E ls cache oid ctid undoneTid preData currentData).out = .ok d ↔
      ∃ undone m,
        (E.ci preData.hdr.cls).importable = true ∧ preData.hdr.cls ∉ cache ∧
        (E.ci preData.hdr.cls).hasResolver = true ∧ ls oid undoneTid = some undone ∧
        E.resolver preData.hdr.cls (loadState E.ci undone.state) (loadState E.ci currentData.state)
          (loadState E.ci preData.state) = .ok m ∧
        d = { hdr := preData.hdr, state := dumpState m }) ∧
    (∀ e, (undoResolve E ls cache oid ctid undoneTid preData currentData).out = .error e →
      e = .undoError) :=
  Proofs.C10Props.undo_uses_same_resolver E ls cache oid ctid undoneTid preData currentData d

/-- The whole undo decision for one object (`undoRecord` = `_transactionalUndoRecord`): if the undo
    record is a merge, it is `resolver(state written by the undone transaction, CURRENT state — also
    when the current revision is itself an undo record —, state before the undone transaction)`
    re-pickled after the previous revision's class meta data … -/
theorem undo_record_merged (E : Env) (k : Kind) (hist base : Hist) (cache : List ClassId) (oid : Oid)
    (undone : Tid) (d : Record)
    (h : (undoRecord E k hist base cache oid undone).out = .merged d) :
    ∃ ct preData curData old m,
      currentTid (viewOf k hist base) oid = some ct ∧ ct ≠ undone ∧
      prevRecord (viewOf k hist base) oid undone = some preData ∧
      loadSerialMapping (viewOf k hist base) oid ct = some curData ∧
      loadSerialK k hist base oid undone = some old ∧
      E.resolver preData.hdr.cls (loadState E.ci old.state) (loadState E.ci curData.state)
        (loadState E.ci preData.state) = .ok m ∧
      d = { hdr := preData.hdr, state := dumpState m } :=
  Proofs.C10Props.undo_record_merged E k hist base cache oid undone d h

/-- … and if it is a plain copy (undone revision is current, or holds the current data) it is the
    previous revision and the resolver is not called. -/
theorem undo_record_copy (E : Env) (k : Kind) (hist base : Hist) (cache : List ClassId) (oid : Oid)
    (undone : Tid) (d : Record)
    (h : (undoRecord E k hist base cache oid undone).out = .copy d) :
    prevRecord (viewOf k hist base) oid undone = some d ∧
    (undoRecord E k hist base cache oid undone).call = none :=
  Proofs.C10Props.undo_record_copy E k hist base cache oid undone d h

/-! ### non-vacuity -/

def exEnv : Env :=
  { ci := fun c => { importable := c != 9, hasResolver := c == 1 || c == 3 },
    resolver := fun c o cm n =>
      if c = 1 then .ok (.pair o (.pair cm n)) else if c = 3 then .error .conflict else .error (.other 1) }

/-- a state holding one reference of each of the seven formats; class 9 is not importable -/
def exState (n : Nat) : PState :=
  .pair (.atom n)
    (.pair (.ref (.oidClass 2 (.global 1)))
      (.pair (.ref (.oidOnly 3))
        (.pair (.ref (.multi 5 4 (.global 9)))
          (.pair (.ref (.multiOid 5 6))
            (.pair (.ref (.weak 7)) (.pair (.ref (.weakDb 8 5)) (.ref (.weakOld 9))))))))

def exRec (c n : Nat) : Record := { hdr := { cls := c, args := 0 }, state := exState n }

def exLs : Oid → Tid → Option Record := fun o t => if o = 7 ∧ (t = 10 ∨ t = 20) then some (exRec 1 t) else none

-- the resolver is invoked and its result stored (class 1), arguments in the right order
example : (tryToResolve exEnv exLs [] 7 20 10 (exRec 1 30) none).out =
    .ok { hdr := { cls := 1, args := 0 },
          state := dumpState (.pair (loadState exEnv.ci (exState 10))
                      (.pair (loadState exEnv.ci (exState 20)) (loadState exEnv.ci (exState 30)))) } := by
  decide
-- the unimportable class inside the 'm' reference comes back as its (module, name) tuple, all else identical
example : dumpState (loadState exEnv.ci (exState 1)) =
    .pair (.atom 1)
      (.pair (.ref (.oidClass 2 (.global 1)))
        (.pair (.ref (.oidOnly 3))
          (.pair (.ref (.multi 5 4 (.named 9)))
            (.pair (.ref (.multiOid 5 6))
              (.pair (.ref (.weak 7)) (.pair (.ref (.weakDb 8 5)) (.ref (.weakOld 9)))))))) := by decide
-- no resolver (class 2), unimportable (9), resolver raises ConflictError (3), missing old revision
example : (tryToResolve exEnv exLs [] 7 20 10 (exRec 2 30) none).out = .error ⟨7, 20, 10⟩ ∧
    (tryToResolve exEnv exLs [] 7 20 10 (exRec 2 30) none).cache = [2] := by decide
example : (tryToResolve exEnv exLs [] 7 20 10 (exRec 9 30) none).out = .error ⟨7, 20, 10⟩ := by decide
example : (tryToResolve exEnv exLs [] 7 20 10 (exRec 3 30) none).out = .error ⟨7, 20, 10⟩ := by decide
example : (tryToResolve exEnv exLs [] 7 20 0 (exRec 1 30) none).out = .error ⟨7, 20, 0⟩ := by decide

end Props.C10
