/-
  C19 — The oid index behaves as an ordered map and survives save/load.

  Property theorems only (helper lemmas live in `Proofs/FsIndex.lean`).  The abstract spec is a
  *sorted dictionary*: a partial function `Nat → Option Nat` (here: `get ix`) together with the
  strictly increasing list of its keys.  Every operation of the model of `fsIndex`
  (`ZodbModel/FsIndex.lean`) is shown to act on that dictionary exactly as the corresponding
  sorted-dictionary operation, errors included, for every index reachable through the API
  (`Inv`), every key `< 2^64` and every value `< 2^48`.
-/
import Proofs.FsIndex
namespace Props.C19
open ZodbModel ZodbModel.FsIndex

/-- a two-prefix example index (used by the non-vacuity examples) -/
def exIx0 : Idx := [(2, [(1, 10)]), (3, [(7, 20)])]

/-- The empty index satisfies the invariant, and has no keys. -/
theorem inv_empty : Inv ([] : Idx) ∧ ∀ k, get [] k = none := Proofs.FsIndex.inv_empty

/-- insert / update: succeeds, keeps the invariant, and changes exactly the entry `k`. -/
theorem set_refines (ix : Idx) (k v : Nat) (h : Inv ix) (hk : k < 2 ^ 64) (hv : v < 2 ^ 48) :
    ∃ ix', set ix k v = .ok ix' ∧ Inv ix' ∧
      ∀ k', get ix' k' = if k' = k then some v else get ix k' :=
  Proofs.FsIndex.set_refines ix k v h hk hv

/-- a value that does not fit 64 bits is rejected (struct.error), nothing changes -/
theorem set_overflow (ix : Idx) (k v : Nat) (hv : 2 ^ 64 ≤ v) : set ix k v = .error .structError :=
  Proofs.FsIndex.set_overflow ix k v hv

/-- delete: KeyError exactly when the key is absent, otherwise removes exactly the entry `k`. -/
theorem del_refines (ix : Idx) (k : Nat) (h : Inv ix) :
    (get ix k = none → del ix k = .error .keyError) ∧
    (get ix k ≠ none → ∃ ix', del ix k = .ok ix' ∧ Inv ix' ∧
      ∀ k', get ix' k' = if k' = k then none else get ix k') :=
  Proofs.FsIndex.del_refines ix k h

/-- `update(mapping)` / `fsIndex(mapping)`: succeeds for in-range items, keeps the invariant, and
    afterwards every key holds the last value given for it in `kvs`, else what it held before —
    exactly `dict.update`. -/
theorem update_refines (ix : Idx) (kvs : List (Nat × Nat)) (h : Inv ix)
    (hw : ∀ kv ∈ kvs, kv.1 < 2 ^ 64 ∧ kv.2 < 2 ^ 48) :
    ∃ ix', update ix kvs = .ok ix' ∧ Inv ix' ∧ ∀ k, get ix' k = updSpec (get ix k) k kvs :=
  Proofs.FsIndex.update_refines kvs ix h hw

example : (match update exIx0 [(0x20001, 5), (0x20002, 6), (0x20001, 7)] with
           | .ok ix => (get ix 0x20001, get ix 0x20002, get ix 0x30007) | .error _ => (none, none, none))
          = (some 7, some 6, some 20) := by decide

/-- clear -/
theorem clear_refines (ix : Idx) : Inv (clear ix) ∧ ∀ k, get (clear ix) k = none :=
  Proofs.FsIndex.inv_empty

/-- membership agrees with lookup -/
theorem contains_iff (ix : Idx) (k : Nat) : contains ix k = true ↔ get ix k ≠ none := by
  unfold contains; cases get ix k <;> simp

/-- iteration: `items` lists exactly the dictionary's entries … -/
theorem mem_items_iff (ix : Idx) (h : Inv ix) (k v : Nat) :
    (k, v) ∈ items ix ↔ get ix k = some v := Proofs.FsIndex.mem_items_iff ix h k v

/-- … in strictly increasing key order (so `keys` is *the* sorted key list, without duplicates) … -/
theorem keys_strictly_sorted (ix : Idx) (h : Inv ix) : (keys ix).Pairwise (· < ·) :=
  Proofs.FsIndex.keys_sorted ix h

/-- … `keys`/`values` are its projections and `len` is its length. -/
theorem keys_values_len (ix : Idx) :
    keys ix = (items ix).map (·.1) ∧ values ix = (items ix).map (·.2) ∧ len ix = (items ix).length :=
  ⟨rfl, rfl, Proofs.FsIndex.len_eq ix⟩

/-- `m` is the smallest key of the dictionary that is `≥ k` -/
def IsLeastGE (ix : Idx) (k m : Nat) : Prop :=
  get ix m ≠ none ∧ k ≤ m ∧ ∀ m', get ix m' ≠ none → k ≤ m' → m ≤ m'

/-- `m` is the largest key of the dictionary that is `≤ k` -/
def IsGreatestLE (ix : Idx) (k m : Nat) : Prop :=
  get ix m ≠ none ∧ m ≤ k ∧ ∀ m', get ix m' ≠ none → m' ≤ k → m' ≤ m

/-- `minKey(key)`: the smallest key not below `key`, for *every* query key — in particular one
    whose 6-byte prefix is absent —, and `ValueError` exactly when there is none. -/
theorem minKey_refines (ix : Idx) (h : Inv ix) (k : Nat) (hk : k < 2 ^ 64) :
    (∀ m, minKey ix (some k) = .ok m ↔ IsLeastGE ix k m) ∧
    (minKey ix (some k) = .error .valueError ↔ ∀ m, get ix m ≠ none → m < k) ∧
    (∀ e, minKey ix (some k) = .error e → e = .valueError) :=
  Proofs.FsIndex.minKey_refines ix h k hk

/-- `maxKey(key)`: the largest key not above `key`; `ValueError` exactly when there is none. -/
theorem maxKey_refines (ix : Idx) (h : Inv ix) (k : Nat) (hk : k < 2 ^ 64) :
    (∀ m, maxKey ix (some k) = .ok m ↔ IsGreatestLE ix k m) ∧
    (maxKey ix (some k) = .error .valueError ↔ ∀ m, get ix m ≠ none → k < m) ∧
    (∀ e, maxKey ix (some k) = .error e → e = .valueError) :=
  Proofs.FsIndex.maxKey_refines ix h k hk

/-- `minKey()` / `maxKey()`: smallest / largest key, `ValueError` exactly on the empty index. -/
theorem minKey_none_refines (ix : Idx) (h : Inv ix) :
    (∀ m, minKey ix none = .ok m ↔ IsLeastGE ix 0 m) ∧
    (minKey ix none = .error .valueError ↔ ∀ m, get ix m = none) ∧
    (∀ e, minKey ix none = .error e → e = .valueError) :=
  Proofs.FsIndex.minKey_none_refines ix h

theorem maxKey_none_refines (ix : Idx) (h : Inv ix) :
    (∀ m, maxKey ix none = .ok m ↔ (get ix m ≠ none ∧ ∀ m', get ix m' ≠ none → m' ≤ m)) ∧
    (maxKey ix none = .error .valueError ↔ ∀ m, get ix m = none) ∧
    (∀ e, maxKey ix none = .error e → e = .valueError) :=
  Proofs.FsIndex.maxKey_none_refines ix h

/-- `record_iternext(next)` (the storage's record iteration, which relies on smallest-key-not-below):
    whatever `next` is — present, absent, with an absent prefix — the record returned is that of the
    smallest key not below `next`, and the key handed back for the following call is the smallest key
    above it (`None` exactly when there is none), so the documented loop visits every key from `next`
    on exactly once, in order; `ValueError` exactly when no key is `≥ next`. -/
theorem recordIterNext_refines (ix : Idx) (h : Inv ix) (k : Nat) (hk : k < 2 ^ 64) :
    (∀ oid nx, recordIterNext ix (some k) = .ok (oid, nx) →
        IsLeastGE ix k oid ∧
        (∀ n, nx = some n ↔ IsLeastGE ix (oid + 1) n) ∧
        (nx = none ↔ ∀ m, get ix m ≠ none → m ≤ oid)) ∧
    ((∀ m, get ix m ≠ none → m < k) → recordIterNext ix (some k) = .error .valueError) := by
  refine ⟨?_, ?_⟩
  · intro oid nx hr
    unfold recordIterNext at hr
    obtain ⟨hok, herr, hall⟩ := minKey_refines ix h k hk
    cases hm : minKey ix (some k) with
    | error e => rw [hm] at hr; cases hr
    | ok o =>
      rw [hm] at hr
      simp only at hr
      by_cases hlt : o + 1 < 2 ^ 64
      · rw [if_pos hlt] at hr
        obtain ⟨hok2, herr2, hall2⟩ := minKey_refines ix h (o + 1) hlt
        cases hm2 : minKey ix (some (o + 1)) with
        | ok n =>
          rw [hm2] at hr
          simp only [Except.ok.injEq, Prod.mk.injEq] at hr
          obtain ⟨rfl, rfl⟩ := hr
          have hn := (hok2 n).1 hm2
          refine ⟨(hok o).1 hm, ?_, ?_⟩
          · intro n'
            constructor
            · intro he; cases he; exact hn
            · intro hn'
              have h1 := hn.2.2 n' hn'.1 hn'.2.1
              have h2 := hn'.2.2 n hn.1 hn.2.1
              have : n = n' := Nat.le_antisymm h1 h2
              rw [this]
          · constructor
            · intro he; cases he
            · intro hall'
              have := hall' n hn.1
              have := hn.2.1
              omega
        | error e =>
          have he := hall2 e hm2
          subst he
          rw [hm2] at hr
          simp only [Except.ok.injEq, Prod.mk.injEq] at hr
          obtain ⟨rfl, rfl⟩ := hr
          have hnone := herr2.1 hm2
          refine ⟨(hok o).1 hm, ?_, ?_⟩
          · intro n'
            constructor
            · intro he; cases he
            · intro hn'
              have := hnone n' hn'.1
              have := hn'.2.1
              omega
          · constructor
            · intro _ m hm'
              have := hnone m hm'
              omega
            · intro _; rfl
      · rw [if_neg hlt] at hr
        simp only [Except.ok.injEq, Prod.mk.injEq] at hr
        obtain ⟨rfl, rfl⟩ := hr
        refine ⟨(hok o).1 hm, ?_, ?_⟩
        · intro n'
          constructor
          · intro he; cases he
          · intro hn'
            have hb := Proofs.FsIndex.get_lt ix h n' hn'.1
            have := hn'.2.1
            omega
        · constructor
          · intro _ m hm'
            have := Proofs.FsIndex.get_lt ix h m hm'
            omega
          · intro _; rfl
  · intro hnone
    obtain ⟨_, herr, _⟩ := minKey_refines ix h k hk
    unfold recordIterNext
    rw [herr.2 hnone]

example : recordIterNext exIx0 (some 0x10005) = .ok (0x20001, some 0x30007) := by decide
example : recordIterNext exIx0 (some 0x20002) = .ok (0x30007, none) := by decide
example : recordIterNext exIx0 (some 0x30008) = .error .valueError := by decide

/-- save then load yields an equal index and position (bucket strings are decoded exactly). -/
theorem save_load_id (ix : Idx) (h : Inv ix) (pos : Nat) : load (save ix pos) = (pos, ix) :=
  Proofs.FsIndex.save_load_id ix h pos

/-- every state reachable from the empty index through `set`/`del`/`clear` with in-range
    arguments satisfies `Inv` (so the theorems above apply to every reachable index). -/
theorem reachable_inv (ops : List Op) (hw : ∀ o ∈ ops, OpWF o) : Inv (ops.foldl applyOp []) :=
  Proofs.FsIndex.reachable_inv ops hw

/-! non-vacuity: a concrete two-prefix index (the reproduced defect's keys) meets `Inv`, and the
    bounded searches at an absent prefix return the neighbouring keys. -/
def exIx : Idx := [(2, [(1, 10)]), (3, [(7, 20)])]
example : Inv exIx := by decide
example : minKey exIx (some 0x10005) = .ok 0x20001 := by decide
example : maxKey exIx (some 0x40000) = .ok 0x30007 := by decide
example : minKey exIx (some (2 ^ 64 - 1)) = .error .valueError := by decide
example : maxKey [(0, [(5, 1)])] (some 3) = .error .valueError := by decide

end Props.C19
