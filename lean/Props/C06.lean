/-
  C06 — Undo restores the pre-transaction state or changes nothing.

  Property theorems only (lemmas live in `Proofs/Undo*.lean`).  The model (`ZodbModel/Undo.lean`)
  follows `FileStorage.undo / _txn_find / _txn_undo_write / _transactionalUndoRecord / _undoDataInfo`
  on the record structure of the file: `L : Log` is the committed file (transactions newest first),
  `flat L` its data records, `load / loadBefore / loadSerial` chase `index → prev → back` as the code
  does, and `undoTxn resolve L utid ids` is a whole undo transaction (tpc_begin(utid); undo(id) for
  each id; tpc_abort on the first UndoError, else vote + finish).  The resolver is a parameter.

  Reading of the property.  For a transaction `T` inside the log `newer ++ T :: older` and an object
  `oid` written by `T`, three states are compared, each of them a `load` answer on a prefix of the
  history:  `u` = the state right after `T` (`dataOf (flat (T :: older)) oid`), `c` = the current state
  (`dataOf (flat L) oid`), `p` = the state immediately before `T` (`dataOf (flat older) oid`; `none` =
  the object does not exist).  `verdictFor` (model file, 20 lines, no pointers except "the current
  revision is T's own revision or a pointer copy of it") says
      restore   if the current revision is T's (or a copy of it), or `u` and `c` are equal data;
      merge m   if they differ, all three states exist and `resolve oid u c p = some m`;
      refuse    otherwise.
  All theorems hold for every log satisfying `Inv` (every reachable log: `reachable_inv`; every file
  the harness reads back from the real storage, including packed ones, is checked with `invB`), every
  transaction in it, every tid of the undo transaction and every resolver: no bound on sizes.
-/
import Proofs.UndoSteps
namespace Props.C06
open ZodbModel ZodbModel.Undo

/-- **undo_restores_or_unchanged.**  Undoing `T` either fails — the log is unchanged — or appends
    exactly one transaction `U` (tid `utid`, status ' ') that writes exactly the objects `T` wrote,
    and after it every such object has, with serial `utid`, the state it had immediately before `T`
    (`none` = it no longer exists, when `T` created it), or — when a later, different change exists —
    the resolver's merge of (state written by T, current state, state before T).  No object of a
    successful undo has verdict `refuse`. -/
theorem undo_restores_or_unchanged (resolve : Resolver) (newer : Log) (T : Txn) (older : Log)
    (hInv : Inv (newer ++ T :: older)) (utid : Nat) :
    (∃ e, undoTxn resolve (newer ++ T :: older) utid [T.tid] = (newer ++ T :: older, some e)) ∨
    (∃ U, undoTxn resolve (newer ++ T :: older) utid [T.tid] = (U :: (newer ++ T :: older), none) ∧
      U.tid = utid ∧ U.packed = false ∧ (∀ oid, oid ∈ U.oids ↔ oid ∈ T.oids) ∧
      ∀ oid ∈ T.oids,
        (∀ d s, load (flat (U :: (newer ++ T :: older))) oid = some (d, s) → s = utid) ∧
        match verdictFor resolve (flat (newer ++ T :: older)) T older oid with
        | .restore => dataOf (flat (U :: (newer ++ T :: older))) oid = dataOf (flat older) oid
        | .merge m => m ≠ [] → dataOf (flat (U :: (newer ++ T :: older))) oid = some m
        | .refuse => False) :=
  Proofs.Undo.undo_restores_or_unchanged resolve newer T older hInv utid

/-- **undo_succeeds_iff.**  The undo of a not-packed transaction succeeds exactly when no object it
    wrote is refused: "if a later change is neither equal in effect nor mergeable, the undo fails"
    and conversely it does not fail otherwise. -/
theorem undo_succeeds_iff (resolve : Resolver) (newer : Log) (T : Txn) (older : Log)
    (hInv : Inv (newer ++ T :: older)) (hp : T.packed = false) (utid : Nat) :
    (undoTxn resolve (newer ++ T :: older) utid [T.tid]).2 = none ↔
      ∀ oid ∈ T.oids, verdictFor resolve (flat (newer ++ T :: older)) T older oid ≠ .refuse :=
  Proofs.Undo.undo_succeeds_iff resolve newer T older hInv hp utid

/-- **undo_other_untouched.**  After a successful undo, objects `T` did not write answer `load`,
    `loadBefore` (every bound) and `loadSerial` (every serial) exactly as before; and for *every*
    object all earlier revisions are untouched: `loadBefore` at any bound `≤ utid` returns the same
    data and serial (only the `end_tid` of the formerly current revision becomes `utid`), `loadSerial`
    at any serial `< utid` the same data. -/
theorem undo_other_untouched (resolve : Resolver) (newer : Log) (T : Txn) (older : Log)
    (hInv : Inv (newer ++ T :: older)) (utid : Nat) (U : Txn)
    (h : undoTxn resolve (newer ++ T :: older) utid [T.tid] = (U :: (newer ++ T :: older), none)) :
    (∀ oid, oid ∉ T.oids →
      load (flat (U :: (newer ++ T :: older))) oid = load (flat (newer ++ T :: older)) oid ∧
      (∀ b, loadBefore (flat (U :: (newer ++ T :: older))) oid b
              = loadBefore (flat (newer ++ T :: older)) oid b) ∧
      (∀ s, loadSerial (flat (U :: (newer ++ T :: older))) oid s
              = loadSerial (flat (newer ++ T :: older)) oid s)) ∧
    (∀ oid b, b ≤ utid →
      (loadBefore (flat (U :: (newer ++ T :: older))) oid b).rev
        = (loadBefore (flat (newer ++ T :: older)) oid b).rev) ∧
    (∀ oid s, s < utid →
      loadSerial (flat (U :: (newer ++ T :: older))) oid s
        = loadSerial (flat (newer ++ T :: older)) oid s) :=
  Proofs.Undo.undo_other_untouched resolve newer T older hInv utid U h

/-- **undo_fails_atomically.**  Whatever transactions an undo transaction names (one or several):
    if it ends with an UndoError the committed log — hence every query answer — is exactly as before. -/
theorem undo_fails_atomically (resolve : Resolver) (L : Log) (utid : Nat) (ids : List Nat)
    (L' : Log) (e : UErr) (h : undoTxn resolve L utid ids = (L', some e)) : L' = L :=
  Proofs.Undo.undo_fails_atomically resolve L utid ids L' e h

/-- … and there are only these two outcomes: error with the log unchanged, or one appended transaction. -/
theorem undo_outcomes (resolve : Resolver) (L : Log) (utid : Nat) (ids : List Nat) :
    (∃ e, undoTxn resolve L utid ids = (L, some e)) ∨
    (∃ S, undoTxn resolve L utid ids = ({ tid := utid, packed := false, recs := S } :: L, none)) :=
  Proofs.Undo.undoTxn_cases resolve L utid ids

/-- step level: after a failed `undo` call the caller's `tpc_abort` gives back the storage state of
    before `tpc_begin` (staged records dropped), and the transaction cannot be finished. -/
theorem failed_undo_abort (resolve : Resolver) (fs : FS) (hfs : fs.txn = none) (utid tid : Nat)
    (e : UErr) (h : ((fs.tpcBegin utid).undo resolve tid).2 = .error e) :
    ((fs.tpcBegin utid).undo resolve tid).1.abort = fs ∧
    ((fs.tpcBegin utid).undo resolve tid).1.finish.log = fs.log :=
  Proofs.Undo.failed_undo_abort resolve fs hfs utid tid e h

/-- **undo_is_txn.**  A successful undo transaction (of one or several transactions) is one ordinary
    transaction appended to the log: the new log is `U :: L` with tid `utid`, status ' ', and it
    satisfies the same well-formedness invariant — so every theorem of this file applies to it again
    (it can be read, packed over, and undone like any other transaction). -/
theorem undo_is_txn (resolve : Resolver) (L : Log) (hInv : Inv L) (utid : Nat)
    (hu : ∀ t ∈ L, t.tid < utid) (ids : List Nat) (L' : Log)
    (h : undoTxn resolve L utid ids = (L', none)) :
    ∃ U, L' = U :: L ∧ U.tid = utid ∧ U.packed = false ∧ Inv (U :: L) :=
  Proofs.Undo.undoTxn_inv resolve hInv utid hu ids h

/-- **undo_records.**  The record `U` holds for each object of `T`: `prev` is the position of the
    object's current revision, and in the restore case the payload is a back pointer to the revision
    immediately before `T` (0 = un-creation) — the iterator's `data_txn` is the tid of that revision —;
    in the merge case it is the resolver's output as data. -/
theorem undo_records (resolve : Resolver) (newer : Log) (T : Txn) (older : Log)
    (hInv : Inv (newer ++ T :: older)) (utid : Nat) (U : Txn)
    (h : undoTxn resolve (newer ++ T :: older) utid [T.tid] = (U :: (newer ++ T :: older), none)) :
    ∀ oid ∈ T.oids, ∃ x, U.recs.find? (fun r => r.oid = oid) = some x ∧
      x.oid = oid ∧ x.tid = utid ∧ x.prev = lastPos oid (flat (newer ++ T :: older)) ∧
      match verdictFor resolve (flat (newer ++ T :: older)) T older oid with
      | .restore => x.pl = .back (lastPos oid (flat older)) ∧
          dataTxn (flat (newer ++ T :: older)) x
            = ((flat older).find? (fun r => r.oid = oid)).map (·.tid)
      | .merge m => m ≠ [] → x.pl = .data m
      | .refuse => False :=
  Proofs.Undo.undo_records resolve newer T older hInv utid U h

/-- **undo_newest_restores.**  Undoing the newest transaction (not packed) always succeeds and gives
    *every* object the state it had before that transaction. -/
theorem undo_newest_restores (resolve : Resolver) (T : Txn) (older : Log) (hInv : Inv (T :: older))
    (hp : T.packed = false) (utid : Nat) :
    ∃ U, undoTxn resolve (T :: older) utid [T.tid] = (U :: T :: older, none) ∧
      ∀ oid, dataOf (flat (U :: T :: older)) oid = dataOf (flat older) oid :=
  Proofs.Undo.undo_newest_restores resolve T older hInv hp utid

/-- **undo_undo.**  An undo transaction `U` (of one or several transactions) can itself be undone:
    with nothing committed in between, `undo [U]` succeeds and every object has again the state it
    had before `U` (the undone state is restored). -/
theorem undo_undo (resolve : Resolver) (L : Log) (hInv : Inv L) (utid : Nat)
    (hu : ∀ t ∈ L, t.tid < utid) (ids : List Nat) (U : Txn)
    (h : undoTxn resolve L utid ids = (U :: L, none)) (utid' : Nat) :
    ∃ UU, undoTxn resolve (U :: L) utid' [utid] = (UU :: U :: L, none) ∧
      ∀ oid, dataOf (flat (UU :: U :: L)) oid = dataOf (flat L) oid :=
  Proofs.Undo.undo_undo resolve L hInv utid hu ids U h utid'

/-- **packed_not_undoable.**  A transaction with status 'p' is refused and nothing changes. -/
theorem packed_not_undoable (resolve : Resolver) (newer : Log) (T : Txn) (older : Log)
    (hInv : Inv (newer ++ T :: older)) (hp : T.packed = true) (utid : Nat) :
    undoTxn resolve (newer ++ T :: older) utid [T.tid] = (newer ++ T :: older, some .nonUndoable) :=
  Proofs.Undo.packed_not_undoable resolve newer T older hInv hp utid

/-- an id that names no transaction of the file is refused and nothing changes -/
theorem unknown_tid_refused (resolve : Resolver) (L : Log) (utid tid : Nat)
    (h : ∀ t ∈ L, t.tid ≠ tid) : undoTxn resolve L utid [tid] = (L, some .invalidTid) :=
  Proofs.Undo.unknown_tid_refused resolve L utid tid h

/-- **undo_reports_written.**  The oids a successful `undo` call returns — which
    `UndoAdapterInstance` hands to `_invalidate_finish`, so that other connections drop them at their
    next boundary — are exactly the oids the undone transaction wrote. -/
theorem undo_reports_written (resolve : Resolver) (newer : Log) (T : Txn) (older : Log)
    (hInv : Inv (newer ++ T :: older)) (utid : Nat) (fs : FS) (hfs : fs.log = newer ++ T :: older)
    (hst : fs.txn = some { tid := utid }) (oids : List Nat)
    (h : (fs.undo resolve T.tid).2 = .ok oids) : ∀ oid, oid ∈ oids ↔ oid ∈ T.oids :=
  Proofs.Undo.undo_reports_written resolve newer T older hInv utid fs hfs hst oids h

/-- **undo_call_step** (several transactions in one undo transaction, general step).  One
    `undo(T.tid)` call on top of the records `S` staged by the earlier calls of the same transaction:
    if it succeeds, then relative to the *view* `S ++ file` (staged records are the current revisions)
    every object of `T` is restored / merged as `verdictFor` on that view says, no other object of the
    view changes, and the staged records stay well formed (so the step can be iterated:
    `undoAll`/`undoTxn` is by definition the sequence of these calls). -/
theorem undo_call_step (resolve : Resolver) (newer : Log) (T : Txn) (older : Log)
    (hInv : Inv (newer ++ T :: older)) (utid : Nat) (S : List Rec)
    (hS : StagedOK utid (flat (newer ++ T :: older)) S) (S' : List Rec) (oids : List Nat)
    (h : undoCall resolve (newer ++ T :: older) S utid T.tid = .ok (S', oids)) :
    StagedOK utid (flat (newer ++ T :: older)) S' ∧ (∀ oid, oid ∈ oids ↔ oid ∈ T.oids) ∧
    (∀ oid ∈ T.oids,
      match verdictFor resolve (S ++ flat (newer ++ T :: older)) T older oid with
      | .restore => dataOf (S' ++ flat (newer ++ T :: older)) oid = dataOf (flat older) oid
      | .merge m => m ≠ [] → dataOf (S' ++ flat (newer ++ T :: older)) oid = some m
      | .refuse => False) ∧
    (∀ oid, oid ∉ T.oids →
      dataOf (S' ++ flat (newer ++ T :: older)) oid = dataOf (S ++ flat (newer ++ T :: older)) oid) :=
  Proofs.Undo.undoCall_step resolve newer T older hInv utid S hS S' oids h

/-- … and such a call succeeds exactly when no object of `T` is refused on that view. -/
theorem undo_call_ok_iff (resolve : Resolver) (newer : Log) (T : Txn) (older : Log)
    (hInv : Inv (newer ++ T :: older)) (hp : T.packed = false) (utid : Nat) (S : List Rec)
    (hS : StagedOK utid (flat (newer ++ T :: older)) S) :
    (∃ x, undoCall resolve (newer ++ T :: older) S utid T.tid = .ok x) ↔
      ∀ oid ∈ T.oids,
        verdictFor resolve (S ++ flat (newer ++ T :: older)) T older oid ≠ .refuse :=
  Proofs.Undo.undoCall_ok_iff resolve hInv hp hS

/-- **undo_multi_newest_first.**  Undoing the k newest transactions in one undo transaction, ids
    given newest first (the order of `undoLog`), always succeeds and gives every object the state it
    had before the oldest of them. -/
theorem undo_multi_newest_first (resolve : Resolver) (Ts older : Log) (hInv : Inv (Ts ++ older))
    (hp : ∀ t ∈ Ts, t.packed = false) (utid : Nat) :
    ∃ U, undoTxn resolve (Ts ++ older) utid (Ts.map (·.tid)) = (U :: (Ts ++ older), none) ∧
      ∀ oid, dataOf (flat (U :: (Ts ++ older))) oid = dataOf (flat older) oid :=
  Proofs.Undo.undo_multi_newest_first resolve Ts older hInv hp utid

/-- the decision of `_transactionalUndoRecord` for the newest record of an oid in `T` is the
    property's verdict (the heart of the refinement; `undoRecord` is the model of that method) -/
theorem undo_record_is_verdict (resolve : Resolver) (newer : Log) (T : Txn) (older : Log)
    (hInv : Inv (newer ++ T :: older)) (hp : T.packed = false) (utid : Nat) (S : List Rec)
    (hS : StagedOK utid (flat (newer ++ T :: older)) S)
    (oid : Nat) (r : Rec) (k : Nat) (h : Proofs.Undo.newestFor oid T.recs = some (r, k)) :
    undoRecord resolve S (flat (newer ++ T :: older)) r ((flat older).length + k + 1)
      = verdictPayload r (verdictFor resolve (S ++ flat (newer ++ T :: older)) T older oid) :=
  Proofs.Undo.undoRecord_ctx resolve hInv hp hS h

/-- **steps_compute_undoTxn.**  The step-level operations the correspondence driver executes in lock
    step with the real storage — `tpc_begin(utid)`, `undo(id)` for each id (stopping at the first
    UndoError), then `tpc_vote`+`tpc_finish`, or `tpc_abort` after an error — compute exactly `undoTxn`;
    after an error the abort gives back the very state of before `tpc_begin`. -/
theorem steps_compute_undoTxn (resolve : Resolver) (fs : FS) (hfs : fs.txn = none) (utid : Nat)
    (ids : List Nat) :
    match (fs.tpcBegin utid).undoSeq resolve ids with
    | (fs', none) => (fs'.finish.log, (none : Option UErr)) = undoTxn resolve fs.log utid ids ∧
        fs'.finish.txn = none
    | (fs', some e) => (fs'.abort.log, some e) = undoTxn resolve fs.log utid ids ∧ fs'.abort = fs ∧
        fs'.finish.log = fs.log :=
  Proofs.Undo.steps_eq_undoTxn resolve fs hfs utid ids

/-- `load` reads the newest record of the object (the index designates the first record of that oid in
    the newest-first file), for any file whatsoever: the three states `verdictFor` compares are the
    states held by the newest record of the object in the three prefixes of the history. -/
theorem index_is_newest_record (oid : Nat) (F : List Rec) :
    recAt F (lastPos oid F) = F.find? (fun r => r.oid = oid) :=
  Proofs.Undo.recAt_lastPos oid F

/-- **reachable_inv.**  Every log reachable from the empty file by ordinary commits and undo
    transactions with growing tids satisfies `Inv`; and `invB` decides `Inv` (used on files read back
    from the real storage, e.g. after a pack). -/
theorem reachable_inv (resolve : Resolver) (ops : List Op) (h : OpsOK resolve [] ops) :
    Inv (run resolve [] ops) :=
  Proofs.Undo.run_inv resolve ops [] True.intro h

theorem invB_iff (L : Log) : invB L = true ↔ Inv L := Proofs.Undo.invB_iff L

/-! ### non-vacuity: concrete histories -/

/-- a counter-like resolver on two-byte states `[1, n]`: keeps the later increment -/
def exRes : Resolver := fun _ o c n =>
  match o, c, n with
  | [1, a], [1, b], [1, d] => some [1, b + d - a]
  | _, _, _ => none

/-- T10 creates objects 1, 2 (plain) and 3 (counter); T20 rewrites 1 and 3; T30 rewrites 2 and 3 -/
def exL : Log :=
  commitTxn (commitTxn (commitTxn [] 10 [(3, [1, 5]), (2, [0, 20]), (1, [0, 10])])
    20 [(3, [1, 7]), (1, [0, 11])]) 30 [(3, [1, 8]), (2, [0, 21])]

example : Inv exL := (invB_iff exL).1 (by decide)

/-- undo of T20 (not the last one): object 1 restored, counter 3 merged (8 + 5 - 7), 2 untouched -/
example : (undoTxn exRes exL 40 [20]).2 = none := by decide
example : dataOf (flat (undoTxn exRes exL 40 [20]).1) 1 = some [0, 10] := by decide
example : dataOf (flat (undoTxn exRes exL 40 [20]).1) 3 = some [1, 6] := by decide
example : dataOf (flat (undoTxn exRes exL 40 [20]).1) 2 = some [0, 21] := by decide
example : verdictFor exRes (flat exL) ⟨20, false, [⟨3, 20, 3, .data [1, 7]⟩, ⟨1, 20, 1, .data [0, 11]⟩]⟩
    (commitTxn [] 10 [(3, [1, 5]), (2, [0, 20]), (1, [0, 10])]) 3 = .merge [1, 6] := by decide

/-- undo of T10 (creation of 1, 2, 3 followed by conflicting changes) is refused, nothing changes -/
example : undoTxn exRes exL 40 [10] = (exL, some (.failures [3, 2, 1])) := by decide

/-- undo of the creating transaction when it is the only one: the objects no longer exist -/
example : dataOf (flat (undoTxn exRes (commitTxn [] 10 [(1, [0, 10])]) 20 [10]).1) 1 = none := by decide

/-- undo of undo: the undone state is back -/
example : dataOf (flat (undoTxn exRes (undoTxn exRes exL 40 [20]).1 50 [40]).1) 1 = some [0, 11] := by
  decide
example : dataOf (flat (undoTxn exRes (undoTxn exRes exL 40 [20]).1 50 [40]).1) 3 = some [1, 8] := by
  decide

/-- several transactions in one undo transaction, newest first: back to the state before T20 -/
example : dataOf (flat (undoTxn exRes exL 40 [30, 20]).1) 3 = some [1, 5] := by decide
example : dataOf (flat (undoTxn exRes exL 40 [30, 20]).1) 2 = some [0, 20] := by decide
/-- … oldest first needs the resolver for 3 and fails on nothing else -/
example : (undoTxn exRes exL 40 [20, 30]).2 = none := by decide

/-- a file as the real packer leaves it (read back from Data.fs by the harness): three packed
    transactions whose records all carry `prev = 0` although two revisions of objects 0, 1, 2 survive
    below the pack time (they are back-pointer targets of the undo transaction 40), then the not-packed
    undo transaction.  It satisfies `Inv`; undoing 40 restores what 30 wrote; 30 itself is refused. -/
def exPacked : Log :=
  [⟨40, false, [⟨2, 40, 8, .back 4⟩, ⟨4, 40, 7, .back 0⟩, ⟨0, 40, 6, .back 1⟩, ⟨1, 40, 5, .back 3⟩]⟩,
   ⟨30, true, [⟨2, 30, 0, .data [1, 20]⟩, ⟨4, 30, 0, .data [0, 7]⟩, ⟨0, 30, 0, .data [0, 6]⟩,
               ⟨1, 30, 0, .data [0, 5]⟩]⟩,
   ⟨20, true, [⟨2, 20, 0, .data [1, 26]⟩, ⟨1, 20, 0, .data [0, 4]⟩]⟩,
   ⟨10, true, [⟨3, 10, 0, .data [1, 26]⟩, ⟨0, 10, 0, .data [0, 2]⟩]⟩]

example : Inv exPacked := (invB_iff exPacked).1 (by decide)
example : dataOf (flat exPacked) 4 = none := by decide
example : dataOf (flat (undoTxn exRes exPacked 50 [40]).1) 4 = some [0, 7] := by decide
example : dataOf (flat (undoTxn exRes exPacked 50 [40]).1) 1 = some [0, 5] := by decide
example : undoTxn exRes exPacked 50 [30] = (exPacked, some .nonUndoable) := by decide

/-- Interpretation witness ("absent vs absent").  T10 creates object 1; 20 = undo 10 (object gone);
    30 = undo 20 (back); 40 = undo 10 again (gone again, through another un-creation record).  Undoing
    20 now is refused although the current state (absent) equals the state 20 wrote (absent): the code
    decides "equal in effect" on data records only.  `verdictFor` says `refuse` here, the refusal leaves
    the log unchanged (`undo_fails_atomically`); the correspondence oracle accepts either outcome in
    exactly this situation (agreed with the coordinator: no sentence of C06 says when an undo must
    succeed). -/
def exGrey : Log :=
  (undoTxn exRes (undoTxn exRes (undoTxn exRes (commitTxn [] 10 [(1, [0, 10])]) 20 [10]).1 30 [20]).1
    40 [10]).1

example : (exGrey.map (·.tid)) = [40, 30, 20, 10] := by decide
example : dataOf (flat exGrey) 1 = none := by decide
example : undoTxn exRes exGrey 50 [20] = (exGrey, some (.failures [1])) := by decide

/-- a packed transaction is refused -/
example : undoTxn exRes [⟨10, true, [⟨1, 10, 0, .data [0, 10]⟩]⟩] 20 [10]
    = ([⟨10, true, [⟨1, 10, 0, .data [0, 10]⟩]⟩], some .nonUndoable) := by decide

end Props.C06
