/-
  C01 — Committed transactions survive a crash at any point; unfinished ones vanish.

  Property theorems only (lemmas: `Proofs/Format.lean`, `Proofs/Disk.lean`).

  Vocabulary (`ZodbModel/Format.lean`, `ZodbModel/Disk.lean`):
    encodeFile ts      the bytes of a data file holding the finished transactions `ts`
    recover b          what a writable `FileStorage(path)` open makes of the bytes `b`
                       (`read_index` from offset 4 + truncation of a rejected tail): the file
                       afterwards, `_pos`, `_index`, `_ltid`, the accepted transactions
    r.IsClean p        `r` is exactly the state of a cleanly written file holding `p`
                       (bytes = encodeFile p, pos = its length, index, last tid, transactions = p)
    trace cs ops       raw write/truncate/fsync events (and `ret` markers of returned commits) of a
                       history `ops` of two-phase commits on a file that already holds `cs`
    image b es k nb    crash image: the first `k` events and the first `nb` bytes of the next write
-/
import ZodbModel.Generated
import Proofs.DiskIdem
namespace Props.C01
open ZodbModel ZodbModel.Format ZodbModel.Disk

/-! ### tie to the constants extracted from format.py on every run -/

def agrees (g : Option Nat) (m : Nat) : Bool := match g with | none => true | some v => v == m

/-- TRANS_HDR_LEN = calcsize(TRANS_HDR) = 23 = length of the encoded fixed header -/
theorem tie_transHdrLen :
    agrees Generated.transHdrLen transHdrLen = true ∧
    agrees Generated.transHdrStructLen transHdrLen = true ∧
    (∀ a b c d e f, (encodeHdr a b c d e f).length = transHdrLen) :=
  ⟨by decide, by decide, fun _ _ _ _ _ _ => Proofs.Format.encodeHdr_length _ _ _ _ _ _⟩

/-- DATA_HDR_LEN = calcsize(DATA_HDR) = 42 = length of the fixed part of a record -/
theorem tie_dataHdrLen :
    agrees Generated.dataHdrLen dataHdrLen = true ∧
    agrees Generated.dataHdrStructLen dataHdrLen = true ∧
    (∀ r : FRec, r.len = dataHdrLen + (if r.body.plen = 0 then 8 else r.body.plen)) :=
  ⟨by decide, by decide, fun _ => rfl⟩

/-- `_metadata_size` = 4 = length of the magic "FS30"; status letters as used by the model -/
theorem tie_metadata_status :
    agrees Generated.metadataSize metadataSize = true ∧ magic.length = metadataSize ∧
    magic = "FS30".toList.map Char.toNat ∧
    stCheckpoint = 'c'.toNat ∧ stUndone = 'u'.toNat ∧ stNormal = ' '.toNat ∧ stPacked = 'p'.toNat :=
  ⟨by decide, by decide, by decide, by decide, by decide, by decide, by decide⟩

/-! ### the file format round-trips, and a torn transaction is never accepted -/

/-- One transaction: the scanner step on an encoded well-formed transaction (followed by anything)
    accepts exactly that transaction, with the record offsets `index.update` needs, and steps over
    `tl + 8` bytes. -/
theorem parse_encode_txn (t : FTxn) (pos : Nat) (more : Bytes) (h : TxnWF pos t) :
    parseTxn (encodeTxn t ++ more) pos = .ok t (txnPrecs pos t) (t.tlen + 8) :=
  Proofs.Format.parseTxn_encode t pos more h

/-- Whole file: opening `encodeFile ts` recovers exactly `ts` — same bytes (nothing truncated,
    nothing saved aside), position = file length, the index of `ts`, last tid, transaction list. -/
theorem parse_encode (ts : List FTxn) (h : FileWF ts) :
    ∃ r, recover (encodeFile ts) = .ok r ∧ r.IsClean ts ∧ r.how = .eof ∧ r.saved = none :=
  Proofs.Disk.recover_clean_eof ts h

/-- Every strict byte-prefix of a transaction being written (whatever its ASCII status byte) is rejected
    at its start without accepting anything: nothing there ⇒ clean end of file, fewer than 23 bytes
    ⇒ truncate, else the length test `pos + tl + 8 > file_size` fires ⇒ truncate. -/
theorem parse_torn (st : Nat) (t : FTxn) (pos n : Nat) (hb : ∀ r ∈ t.recs, BodyWF r.body)
    (htl : t.tlen < 2 ^ 64) (hn : n < t.tlen + 8) (hst : st < 128) :
    parseTxn ((encodeTxnSt st t).take n) pos = if n = 0 then .eof else .truncate (decide (23 ≤ n)) :=
  Proofs.Format.parseTxn_torn st t pos n hb htl hn hst

/-- … and so is the complete transaction while its status byte is still 'c' (voted, not finished),
    whatever follows it. -/
theorem parse_torn_checkpoint (t : FTxn) (pos : Nat) (more : Bytes)
    (hb : ∀ r ∈ t.recs, BodyWF r.body) :
    parseTxn (encodeTxnSt stCheckpoint t ++ more) pos = .truncate true :=
  Proofs.Format.parseTxn_checkpoint t pos more hb

/-! ### the crash theorem -/

/-- For EVERY history of two-phase commits (commit, abort after vote, failing vote, abort before
    vote, finish whose fsync raises; transactions with arbitrary records: stores, deletes, undo back pointers, restores) on a
    file that already holds any well-formed `cs`, and EVERY cut `(k, nb)` of its event trace
    (event prefix + byte prefix of the next write, i.e. every chunking of every write):
    reopening the crash image succeeds and yields exactly the cleanly written file of the first `n`
    transactions in commit order, where `n` is at least the number of commits that had returned
    and at most the number of commits of the history.  `IsClean` includes the bytes of the file
    after the open, so no object can show a partially written or mixed state, and the last
    transaction id is that of the last surviving transaction. -/
theorem crash_prefix (cs : List FTxn) (ops : List Op) (hcs : FileWF cs) (hops : OpsWF cs ops)
    (k nb : Nat) :
    ∃ n, returned ((trace cs ops).take k) ≤ n ∧ n ≤ (newCommits cs ops).length ∧
      ∃ r, recover (image (encodeFile cs) (trace cs ops) k nb) = .ok r ∧
        r.IsClean (cs ++ (newCommits cs ops).take n) :=
  Proofs.Disk.crash_prefix ops cs k hcs hops nb

/-- Without a crash the file holds every commit of the history; every commit that returned is among
    them (a tpc_finish whose fsync raised has its transaction in the file without having returned). -/
theorem no_crash_all_committed (cs : List FTxn) (ops : List Op) (hcs : FileWF cs)
    (hops : OpsWF cs ops) :
    applyEvents (encodeFile cs) (trace cs ops) = encodeFile (cs ++ newCommits cs ops) ∧
    FileWF (cs ++ newCommits cs ops) ∧ returned (trace cs ops) ≤ (newCommits cs ops).length :=
  Proofs.Disk.trace_apply ops cs hcs hops

/-- A commit does not return before its data has been forced to stable storage: every `ret` in
    every trace is immediately preceded by `write p vote-bytes`, `write (p+16) status-byte` and an
    fsync that SUCCEEDED (`Ev.fsync`; an fsync that raises is `Ev.fsyncFailed`, after which
    `_finish` closes the storage and re-raises: the history `finishFsyncFails` has no `ret`), and
    no later event of the history writes or truncates below the end of that transaction. -/
theorem fsync_before_return (cs : List FTxn) (ops : List Op) (hops : OpsWF cs ops)
    (pre post : List Ev) (h : trace cs ops = pre ++ .ret :: post) :
    ∃ pre' p w s, pre = pre' ++ [.write p w, .write (p + 16) s, .fsync] ∧ 16 < w.length ∧
      s.length = 1 ∧ ∀ e ∈ post, ¬ Proofs.Disk.touchesBelow (p + w.length) e :=
  Proofs.Disk.fsync_before_return ops cs pre post hops h

/-- Recovery is idempotent on every crash image: opening the recovered file again finds the same
    state and has nothing to cut off. -/
theorem recover_idempotent (cs : List FTxn) (ops : List Op) (hcs : FileWF cs) (hops : OpsWF cs ops)
    (k nb : Nat) :
    ∃ r, recover (image (encodeFile cs) (trace cs ops) k nb) = .ok r ∧
      recover r.bytes = .ok { r with how := .eof, saved := none } := by
  obtain ⟨n, _, _, r, h1, h2⟩ := crash_prefix cs ops hcs hops k nb
  have hw : FileWF (cs ++ (newCommits cs ops).take n) :=
    Proofs.Disk.fileWF_take cs ops hcs hops n
  exact ⟨r, h1, Proofs.Disk.recover_idempotent_of_clean _ r _ hw h1 h2⟩


/-- … and on ARBITRARY bytes, damaged files included: whatever a writable open makes of a file
    (unless it raises, or stops at the time-travel bound, which a plain open never does below tid
    ff…ff), opening the result again finds exactly the same state and cuts nothing off. -/
theorem recover_idempotent_any (b : Bytes) (r : Recovered) (h : recover b = .ok r)
    (hs : r.how ≠ .stop) :
    recover r.bytes = .ok { r with how := .eof, saved := none } :=
  Proofs.Disk.recover_idempotent_any b r h hs

/-- Crash, reopen, keep working, crash again: the reopened file IS a cleanly written file `p`
    (a prefix of what was committed), so every further history on it and every further cut is again
    covered by `crash_prefix` — the guarantee holds along any sequence of crashes and recoveries. -/
theorem crash_recover_continue (cs : List FTxn) (ops : List Op) (hcs : FileWF cs) (hops : OpsWF cs ops)
    (k nb : Nat) :
    ∃ p r, recover (image (encodeFile cs) (trace cs ops) k nb) = .ok r ∧ r.bytes = encodeFile p ∧
      FileWF p ∧
      ∀ (ops' : List Op) (k' nb' : Nat), OpsWF p ops' →
        ∃ n, returned ((trace p ops').take k') ≤ n ∧ n ≤ (newCommits p ops').length ∧
          ∃ r', recover (image r.bytes (trace p ops') k' nb') = .ok r' ∧
            r'.IsClean (p ++ (newCommits p ops').take n) := by
  obtain ⟨n, _, _, r, h1, h2⟩ := crash_prefix cs ops hcs hops k nb
  have hw := Proofs.Disk.fileWF_take cs ops hcs hops n
  refine ⟨_, r, h1, h2.1, hw, ?_⟩
  intro ops' k' nb' ho
  rw [h2.1]
  exact crash_prefix _ ops' hw ho k' nb'

/-! ### non-vacuity: a concrete history with three commits, an abort after vote, a failing vote and
    an abort before vote meets the hypotheses; cuts in the middle of a record, between vote and
    finish, and after everything recover to 1, 1 and 3 transactions. -/

def exT1 : FTxn := ⟨1000, 32, [117], [100, 101], [], [⟨1, 1000, 0, 0, .data [1, 2, 3]⟩]⟩
def exT2 : FTxn := ⟨1001, 32, [], [], [9], [⟨1, 1001, 30, 0, .data [4]⟩, ⟨2, 1001, 0, 0, .back 0⟩]⟩
def exT3 : FTxn := ⟨1002, 112, [], [], [], [⟨2, 999, 0, 0, .back 30⟩]⟩
def exOps : List Op :=
  [.commit exT1, .abortAfterVote exT2, .commit exT2, .voteFails exT3 30, .abortBeforeVote, .commit exT3]

def recoveredCount (b : Bytes) : Option (Nat × Nat × Nat) :=
  match recover b with
  | .ok r => some (r.txns.length, r.pos, r.ltid)
  | .error _ => none

example : FileWF [] ∧ OpsWF [] exOps := by decide
-- a finish whose fsync raises: the transaction is in the file, nothing has returned
example : trace [] [.finishFsyncFails exT1] =
      [.write 4 (voteBytes 4 exT1), .write 20 [32], .fsyncFailed] ∧
    returned (trace [] [.finishFsyncFails exT1]) = 0 ∧
    recoveredCount (image (encodeFile []) (trace [] [.finishFsyncFails exT1]) 3 0) = some (1, 83, 1000) := by
  decide +kernel
/- trace: w4+79 w20+1 fsync ret | w83+125 t83 | w83+125 w99+1 fsync ret | w208+30 t208 | w208+81 w224+1 fsync ret -/
example : (trace [] exOps).length = 16 ∧ returned (trace [] exOps) = 3 := by decide +kernel
-- cut 70 bytes into the second vote write of exT2 (inside its first record): exT1 only
example : recoveredCount (image (encodeFile []) (trace [] exOps) 6 70) = some (1, 83, 1000) := by
  decide +kernel
-- cut between vote and finish of exT2 (complete transaction, status still 'c'): exT1 only
example : recoveredCount (image (encodeFile []) (trace [] exOps) 7 0) = some (1, 83, 1000) := by
  decide +kernel
-- status byte flipped, fsync not yet issued: exT2 is in (n may exceed the returned commits)
example : recoveredCount (image (encodeFile []) (trace [] exOps) 8 0) = some (2, 208, 1001) := by
  decide +kernel
-- after the whole history
example : recoveredCount (image (encodeFile []) (trace [] exOps) 16 0) = some (3, 289, 1002) := by
  decide +kernel

end Props.C01
