/-
  C14 — Object graphs round-trip and reference extraction is exact.

  Property theorems only (helper lemmas: `Proofs/RefsTree|RefsWriter|RefsCommit|RefsLoad|RefsRound|RefsFresh`).
  Model: `ZodbModel/Refs.lean` — `ObjectWriter.persistent_id/serialize`, the writer stack loop of
  `Connection._store_objects`, the loop of `Connection._commit`, `referencesf`/`get_refs` over the
  reference tokens, and `ObjectReader._persistent_load` with the per-connection caches.  The pickle
  virtual machine is not modelled: a record is the pair of token trees it decodes to.

  Vocabulary (defined in the model file, section "specification vocabulary"):
    TokFor env objs s l tk      `tk` is the reference `persistent_id` prescribes for leaf `l`
    RecFor env objs s o r       record `r` is object `o` with every persistent leaf replaced by its token
    strongRefs env objs s ls    oids of the strong, same-database leaves among `ls`, in order
    Stored objs p h             `h` is registered-and-added/changed, or oid-less and referred to by a
                                Stored object (least such set)
    SameTarget env objs sf ls   a loaded leaf stands for what the in-memory leaf referred to
-/
import Proofs.RefsFresh
namespace Props.C14
open ZodbModel ZodbModel.Refs ZodbModel.Refs.Tree Proofs.Refs

/-! ## reference extraction is exact -/

/-- `referencesf` of the record `serialize` writes for object `h` = the oids of the ordinary
    (strong, own-connection) persistent leaves of the object's class meta and state, in pickling
    order with repetitions — no weak reference, no cross-database reference; never an error. -/
theorem refs_exact (env : Env) (objs : List Obj) (s s' : WState) (h : H) (r : Record)
    (hs : serialize env objs s h = .ok (r, s')) :
    ∃ o, objs[h]? = some o ∧ referencesOf r.tokens = .ok (strongRefs env objs s' o.leaves) := by
  obtain ⟨o, ho, _, hr, _⟩ := serialize_spec hs
  exact ⟨o, ho, referencesOf_tokFor (recFor_tokens hr)⟩

/-- the same for every record of a whole commit, with the oids the objects have when it is over -/
theorem refs_exact_commit (env : Env) (objs : List Obj) (p : Pending) (out : List (H × Record))
    (sf : WState) (hc : commit env objs p = .ok (out, sf)) :
    ∀ hr ∈ out, ∃ o, objs[hr.1]? = some o ∧
      referencesOf hr.2.tokens = .ok (strongRefs env objs sf o.leaves) := by
  intro hr hm
  obtain ⟨o, ho, hrec⟩ := commit_records hc hr hm
  exact ⟨o, ho, referencesOf_tokFor (recFor_tokens hrec)⟩

/-- `get_refs` lists the same oids as `referencesf` -/
theorem getRefs_same_oids (toks : List Tok) :
    (getRefs toks).map (fun l => l.map (·.1)) = referencesOf toks := getRefs_fst toks

/-- An all-ASCII oid that a Python-2 record hands over as `str` is normalised back to the same
    bytes … -/
theorem ascii_oid_normalised (b : Bytes) (tk : OidTok) (hd : decodePy2Str b = .ok tk) :
    tk.norm = .ok b := by
  unfold decodePy2Str at hd
  split at hd
  · rename_i h
    simp only [Except.ok.injEq] at hd; subst hd
    simp [OidTok.norm, asciiEncode, h]
  · simp at hd

/-- … so a record whose all-ASCII oids arrive as `str` has exactly the references of the same
    record with `bytes` oids, for every list of tokens (every reference format) … -/
theorem ascii_oid_refs (toks : List Tok) :
    referencesOf (toks.map (Tok.mapOid py2)) = referencesOf toks := referencesOf_py2 toks

/-- … and loads to the same objects. -/
theorem ascii_oid_load (lenv : LEnv) (db : Db) (ls : LState) (tk : Tok) :
    persistentLoad lenv db ls (Tok.mapOid py2 tk) = persistentLoad lenv db ls tk :=
  persistentLoad_py2 lenv db ls tk

/-! ## what a commit stores -/

/-- the writer stack loop never runs out of the fuel the model gives it (so `outOfFuel` is not an
    outcome, and the theorems below about `commit … = .ok …` cover every terminating run) -/
theorem commit_fuel_sufficient (env : Env) (objs : List Obj) (p : Pending) :
    commit env objs p ≠ .error .outOfFuel := Proofs.Refs.commit_fuel_sufficient env objs p

/-- A successful commit stores exactly: the registered objects that were added or changed, and the
    objects without oid reachable from stored objects through references — no more, no fewer, each
    once; and the writer stack is drained. -/
theorem stored_iff_reachable_or_added (env : Env) (objs : List Obj) (p : Pending)
    (out : List (H × Record)) (sf : WState) (hnd : p.registered.Nodup)
    (hc : commit env objs p = .ok (out, sf)) :
    (∀ h, h ∈ out.map (·.1) ↔ Stored objs p h) ∧ (out.map (·.1)).Nodup ∧ sf.stack = [] :=
  commit_stored hnd hc

/-- every stored object has an oid afterwards -/
theorem stored_has_oid (env : Env) (objs : List Obj) (p : Pending) (out : List (H × Record))
    (sf : WState) (hc : commit env objs p = .ok (out, sf)) :
    ∀ hr ∈ out, ∃ oid, finalOid objs sf hr.1 = some oid := commit_out_oid hc

/-- A stored record never embeds another persistent object's state: it is the object's class, and
    its class arguments and state with the same containers and plain values, in which every
    persistent leaf has become the reference token of its target — in particular its plain values
    are exactly the object's own. -/
theorem no_embedded_persistent_state (env : Env) (objs : List Obj) (p : Pending)
    (out : List (H × Record)) (sf : WState) (hc : commit env objs p = .ok (out, sf)) :
    ∀ hr ∈ out, ∃ o, objs[hr.1]? = some o ∧ RecFor env objs sf o hr.2 ∧ hr.2.atoms = o.atoms ∧
      Tree.Forall2 (TokFor env objs sf) o.leaves hr.2.tokens := by
  intro hr hm
  obtain ⟨o, ho, hrec⟩ := commit_records hc hr hm
  exact ⟨o, ho, hrec, recFor_atoms hrec, recFor_tokens hrec⟩

/-! ## loading -/

/-- one in-memory object per (database, oid), whatever is loaded in whatever order -/
theorem one_object_per_oid (lenv : LEnv) (ops : List LOp) (h1 h2 : Nat) (x1 x2 : LObj)
    (e1 : (lrun lenv ops).heap[h1]? = some x1) (e2 : (lrun lenv ops).heap[h2]? = some x2)
    (hd : x1.db = x2.db) (ho : x1.oid = x2.oid) : h1 = h2 :=
  Proofs.Refs.one_object_per_oid (lrun_inv lenv ops).1 e1 e2 hd ho

/-- every reference of every loaded state leads to the in-memory object that has the reference's
    (normalised) oid in the reference's database -/
theorem loaded_refs_lead_to_oid (lenv : LEnv) (ops : List LOp) (h : Nat) (x : LObj) (t : Tree LLeaf)
    (e : (lrun lenv ops).heap[h]? = some x) (hs : x.state = some t) :
    ∃ r, lookup (x.db, x.oid) lenv.store = some r ∧
      Tree.Rel (LeafFor x.db (lrun lenv ops)) r.state t :=
  (lrun_inv lenv ops).2 h x t e hs

/-- Round trip.  Commit a graph; put the records it stores into a database under the oids the
    objects got; load anything in any order in another connection.  Then every activated object
    that carries the oid of a stored object `o` has the state of `o`: the same containers and
    plain values, every strong reference leading to THE in-memory object (see
    `one_object_per_oid`) whose oid and database are those of the object `o` referred to, every
    weak reference carrying the oid (and database) of its target. -/
theorem roundtrip_graph (env : Env) (objs : List Obj) (p : Pending) (out : List (H × Record))
    (sf : WState) (hc : commit env objs p = .ok (out, sf)) (lenv : LEnv)
    (hstore : ∀ hr ∈ out, ∀ oid, finalOid objs sf hr.1 = some oid →
      lookup (env.db, oid) lenv.store = some hr.2)
    (ops : List LOp) :
    ∀ hr ∈ out, ∀ (o : Obj) (oid : Oid) (hl : Nat) (x : LObj) (t : Tree LLeaf),
      objs[hr.1]? = some o → finalOid objs sf hr.1 = some oid →
      (lrun lenv ops).heap[hl]? = some x → x.db = env.db → x.oid = oid → x.state = some t →
      Tree.Rel (SameTarget env objs sf (lrun lenv ops)) o.state t :=
  roundtrip_session hc lenv hstore ops

/-- Distinct stored objects have distinct oids, provided `new_oid` does what C20 says (`FreshOK`:
    its answers are pairwise different and not in use by an object of this connection). -/
theorem stored_oids_distinct (env : Env) (objs : List Obj) (p : Pending) (out : List (H × Record))
    (sf : WState) (hf : FreshOK env objs) (hc : commit env objs p = .ok (out, sf)) :
    ∀ hr1 ∈ out, ∀ hr2 ∈ out, ∀ oid, finalOid objs sf hr1.1 = some oid →
      finalOid objs sf hr2.1 = some oid → hr1.1 = hr2.1 := commit_oids_distinct hf hc

/-- Round trip without a hypothesis on the database: take ANY database `base`, add the records of
    the commit under the oids of their objects (`putRecords`), load anything in any order. -/
theorem roundtrip_graph_after_commit (env : Env) (objs : List Obj) (p : Pending)
    (out : List (H × Record)) (sf : WState) (hf : FreshOK env objs) (hnd : p.registered.Nodup)
    (hc : commit env objs p = .ok (out, sf)) (base : Store) (dbs : List Db) (missing : List Cls)
    (ops : List LOp) :
    let lenv : LEnv := { store := putRecords env.db objs sf out base, dbs := dbs, missing := missing }
    ∀ hr ∈ out, ∀ (o : Obj) (oid : Oid) (hl : Nat) (x : LObj) (t : Tree LLeaf),
      objs[hr.1]? = some o → finalOid objs sf hr.1 = some oid →
      (lrun lenv ops).heap[hl]? = some x → x.db = env.db → x.oid = oid → x.state = some t →
      Tree.Rel (SameTarget env objs sf (lrun lenv ops)) o.state t :=
  roundtrip_session hc _ (commit_putRecords hf hnd hc base) ops

/-- Classes.  If the references of the database cache the right classes (`ClsOK`: what holds as
    long as no object changes its class — the limitation serialize.py documents), a loaded object
    has the class of the stored object, and is a broken-object placeholder exactly when that
    class cannot be imported. -/
theorem roundtrip_class (env : Env) (objs : List Obj) (p : Pending) (out : List (H × Record))
    (sf : WState) (hc : commit env objs p = .ok (out, sf)) (lenv : LEnv)
    (hstore : ∀ hr ∈ out, ∀ oid, finalOid objs sf hr.1 = some oid →
      lookup (env.db, oid) lenv.store = some hr.2)
    (hcls : ClsOK lenv.store) (ops : List LOp) :
    ∀ hr ∈ out, ∀ (o : Obj) (oid : Oid) (hl : Nat) (x : LObj),
      objs[hr.1]? = some o → finalOid objs sf hr.1 = some oid →
      (lrun lenv ops).heap[hl]? = some x → x.db = env.db → x.oid = oid →
      x.cls = o.cls ∧ x.broken = lenv.missing.contains o.cls := by
  intro hr hm o oid hl x ho hoid ex hdb hxo
  obtain ⟨o', ho', hrec⟩ := commit_records hc hr hm
  rw [ho] at ho'; cases ho'
  have hl' := hstore hr hm oid hoid
  rw [← hdb, ← hxo] at hl'
  have := lrun_cls lenv hcls ops hl x hr.2 ex hl'
  rw [hrec.1] at this
  exact this

/-- the references a commit writes cache the class of the object they refer to -/
theorem written_refs_cache_target_class (env : Env) (objs : List Obj) (p : Pending)
    (out : List (H × Record)) (sf : WState) (hc : commit env objs p = .ok (out, sf)) :
    ∀ hr ∈ out, ∃ o, objs[hr.1]? = some o ∧ hr.2.cls = o.cls ∧
      ∀ l ∈ o.leaves, ∃ tk ∈ hr.2.tokens, TokFor env objs sf l tk := by
  intro hr hm
  obtain ⟨o, ho, hrec⟩ := commit_records hc hr hm
  exact ⟨o, ho, hrec.1, fun l hl => forall2_get (recFor_tokens hrec) hl⟩

/-! ## non-vacuity: a concrete graph with sharing, a cycle, a self-made oid-less chain, a class with
    constructor arguments, a weak reference and a cross-database reference -/

def exEnv : Env := { db := 0, conn := 1, xrefs := true, conns := [(0, 1), (1, 2)], implicit := [],
                     fresh := fun k => [k + 10] }
/-- 0: the root mapping (changed) → 1;  1: new, → 2 (strong and weak), → 0 (cycle), → 3 (other db);
    2: new, class with `__getnewargs__`, → 1, → 2 (self);  3: object of database 1;
    4: new but unreachable -/
def exObjs : List Obj := [
  { cls := 1, newargs := none, state := .node 2 [.atom 5, .leaf (.strong 1)], oid := some [0],
    jar := .conn 0 1 },
  { cls := 3, newargs := none,
    state := .node 0 [.leaf (.strong 2), .leaf (.weak 2), .leaf (.strong 0), .leaf (.strong 3),
                      .leaf (.weak 3)],
    oid := none, jar := .none },
  { cls := 4, newargs := some (.node 1 [.atom 7]),
    state := .node 0 [.leaf (.strong 1), .node 1 [.leaf (.strong 2)]], oid := none, jar := .none },
  { cls := 3, newargs := none, state := .atom 0, oid := some [9], jar := .conn 1 2 },
  { cls := 3, newargs := none, state := .atom 1, oid := none, jar := .none } ]
def exPend : Pending := { registered := [0], added := [], changed := [0] }

/-- the commit succeeds and stores root, 1 and 2 — not the foreign object 3, not the unreachable 4 -/
example : (commit exEnv exObjs exPend).toOption.map (fun r => r.1.map (·.1)) = some [0, 1, 2] := by
  decide
example : exPend.registered.Nodup := by decide
/-- the tokens: `(oid, class)`, bare oid for the class with arguments, weak, cross-database `m` -/
example : (commit exEnv exObjs exPend).toOption.map (fun r => r.1.map (fun hr => hr.2.tokens)) =
    some [[.tup (.bytes [10]) 3],
          [.oid (.bytes [11]), .weak (.bytes [11]) none, .tup (.bytes [0]) 1, .multi 1 (.bytes [9]) 3,
           .weak (.bytes [9]) (some 1)],
          [.tup (.bytes [10]) 3, .oid (.bytes [11])]] := by decide
/-- … of which `referencesf` keeps the strong same-database ones -/
example : (commit exEnv exObjs exPend).toOption.map
      (fun r => r.1.map (fun hr => (referencesOf hr.2.tokens).toOption)) =
    some [some [[10]], some [[11], [0]], some [[10], [11]]] := by decide
/-- `str` oids are re-encoded; a weak reference in the legacy format is skipped -/
example : (referencesOf [.tup (.str [97, 98]) 3, .legacyWeak (.bytes [1]), .oid (.str [48])]).toOption =
    some [[97, 98], [48]] := by decide
example : (decodePy2Str [97, 98, 99]).toOption = some (.str [97, 98, 99]) := by decide
/-- an invalid cross-database reference (xrefs disabled) makes the commit fail -/
example : (commit { exEnv with xrefs := false } exObjs exPend).toOption.isNone = true := by decide

/-- loading the stored records in a fresh session: root → object [10] → object [11] → back, one
    in-memory object per oid (3 objects of database 0 and the ghost of the foreign one) -/
def exStore : Store :=
  match commit exEnv exObjs exPend with
  | .ok (out, sf) => out.filterMap fun hr => (finalOid exObjs sf hr.1).map fun o => ((0, o), hr.2)
  | .error _ => []
def exLenv : LEnv := { store := exStore, dbs := [0, 1], missing := [] }
def exOps : List LOp := [.get 0 [0], .activate 0, .activate 1, .activate 2, .get 0 [10], .activate 1]
example : (lrun exLenv exOps).heap.map (fun x => (x.db, x.oid, x.cls, x.state.isSome)) =
    [(0, [0], 1, true), (0, [10], 3, true), (0, [11], 4, true), (1, [9], 3, false)] := by decide
example : ((lrun exLenv exOps).heap[1]?.bind (·.state)).map (·.leaves) =
    some [.obj 2, .wref none [11], .obj 0, .obj 3, .wref (some 1) [9]] := by decide

/-- the example meets the hypotheses of `stored_oids_distinct` / `roundtrip_graph_after_commit` -/
example : FreshOK exEnv exObjs := by
  refine ⟨fun i j h => ?_, fun k h o oid ho hj hoid => ?_, fun h1 h2 o1 o2 oid e1 e2 j1 j2 a1 a2 => ?_⟩
  · simpa [exEnv] using h
  · have : h < 5 := (List.getElem?_eq_some_iff.1 ho).1
    have hk : exEnv.fresh k = [k + 10] := rfl
    rw [hk]
    intro he; subst he
    match h, this with
    | 0, _ => simp [exObjs] at ho; subst ho; simp at hoid
    | 1, _ => simp [exObjs] at ho; subst ho; simp at hoid
    | 2, _ => simp [exObjs] at ho; subst ho; simp at hoid
    | 3, _ => simp [exObjs] at ho; subst ho; simp [exEnv, Env.own] at hj
    | 4, _ => simp [exObjs] at ho; subst ho; simp at hoid
  · have l1 : h1 < 5 := (List.getElem?_eq_some_iff.1 e1).1
    have l2 : h2 < 5 := (List.getElem?_eq_some_iff.1 e2).1
    match h1, l1, h2, l2 with
    | 0, _, 0, _ => rfl
    | 0, _, 1, _ => simp [exObjs] at e2; subst e2; simp at a2
    | 0, _, 2, _ => simp [exObjs] at e2; subst e2; simp at a2
    | 0, _, 3, _ => simp [exObjs] at e2; subst e2; simp [exEnv, Env.own] at j2
    | 0, _, 4, _ => simp [exObjs] at e2; subst e2; simp at a2
    | 1, _, _, _ => simp [exObjs] at e1; subst e1; simp at a1
    | 2, _, _, _ => simp [exObjs] at e1; subst e1; simp at a1
    | 3, _, _, _ => simp [exObjs] at e1; subst e1; simp [exEnv, Env.own] at j1
    | 4, _, _, _ => simp [exObjs] at e1; subst e1; simp at a1

end Props.C14
