import ZodbModel.Refs
namespace Props.C14
open ZodbModel ZodbModel.Refs

/-- placeholder while the proofs are being written -/
theorem ascii_oid_normalised_bytes (b : Bytes) : (OidTok.bytes b).norm = .ok b := rfl

end Props.C14
