/-
  C04 — The storage answers every revision query from the committed history.
  (property theorems only; lemmas live in Proofs/FileStore*.lean)  -- WORK IN PROGRESS
-/
import Proofs.FileStoreTid
namespace Props.C04
open ZodbModel

/-- For EVERY sequence of clock readings (stalled, stepping back, anything) the tids issued by
    consecutive `tpc_begin`s strictly increase, and all lie above the starting timestamp. -/
theorem tid_strict_mono (ts : Nat) (clock : List Nat) :
    (Tid.issue ts clock).Pairwise (· < ·) ∧ (∀ t ∈ Tid.issue ts clock, ts < t) ∧
    (Tid.issue ts clock).length = clock.length :=
  ⟨Proofs.FileStoreTid.issue_pairwise ts clock, Proofs.FileStoreTid.issue_gt ts clock,
   Proofs.FileStoreTid.issue_length ts clock⟩

end Props.C04
