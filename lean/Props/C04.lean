/-
  C04 — The storage answers every revision query from the committed history.

  Property theorems only (helper lemmas live in `Proofs/FileStore*.lean`).

  Spec    `ZodbModel/History.lean`: a storage IS the ordered list of its committed transactions;
          every query is a list function over that list.
  Model   `ZodbModel/FileStore.lean`: the pointer structure of FileStorage — committed records with
          prev / back pointers at computed file offsets, the oid index, staging, two-phase commit,
          undo and restore records, the index rebuilt by a forward scan — and
          `ZodbModel/Tid.lean`: tid generation.
  Claim   for EVERY state reachable through the storage API (`Inv`, preserved by every step),
          every query computed by pointer chasing equals the same-named `History` function on the
          abstract history `abs s`; `finish` appends exactly the staged transaction and nothing else
          changes the history; tids strictly increase for every clock; reopening changes no answer.
-/
import Proofs.FileStoreTop
import Proofs.Mapping
import ZodbModel.Generated
namespace Props.C04
open ZodbModel ZodbModel.FileStore

/-! ### every query is answered from the committed history -/

/-- `fs_refines_history`: under the invariant of reachable states, each query of the model of
    FileStorage (index → prev chain → back-pointer chain; forward iteration with either scan
    direction of `_skip_to_start`; backward undo search) returns exactly what the list-of-
    transactions specification returns on `abs s` — answers, `None`s and KeyErrors alike, for all
    oids (known or unknown), all tid bounds, all sizes and windows. -/
theorem fs_refines_history {s : FS} (h : Inv s) :
    (∀ oid, FileStore.load s oid = History.load (abs s) oid) ∧
    (∀ oid serial, FileStore.loadSerial s oid serial = History.loadSerial (abs s) oid serial) ∧
    (∀ oid b, FileStore.loadBefore s oid b = History.loadBefore (abs s) oid b) ∧
    (∀ oid, FileStore.getTid s oid = History.getTid (abs s) oid) ∧
    FileStore.lastTransaction s = History.lastTransaction (abs s) ∧
    (∀ oid n, FileStore.history s oid n = History.history (abs s) oid n) ∧
    (∀ start stop back, FileStore.iterator s start stop back = History.iterator (abs s) start stop) ∧
    (∀ first last, FileStore.undoLog s first last = History.undoLog (abs s) first last) ∧
    (∀ p first last, FileStore.undoLogF s p first last = History.undoLogF (abs s) p first last) ∧
    (∀ n, FileStore.lastInvalidations s n = History.lastInvalidations (abs s) n) :=
  ⟨Proofs.FileStoreRefine.load_refines h,
   Proofs.FileStoreRefine.loadSerial_refines h,
   Proofs.FileStoreRefine.loadBefore_refines h,
   Proofs.FileStoreRefine.getTid_refines h,
   Proofs.FileStoreRefine2.lastTransaction_refines h,
   Proofs.FileStoreRefine2.history_refines h,
   Proofs.FileStoreRefine2.iterator_refines h,
   Proofs.FileStoreRefine2.undoLog_refines h,
   Proofs.FileStoreRefine2.undoLogF_refines h,
   Proofs.FileStoreRefine2.lastInvalidations_refines h⟩

/-  FULL STATEMENT (does NOT hold for the code as it is, finding
    `C04:fs:record_iternext-stops-at-uncreated`):
        ∀ next, FileStore.recordIterNext s next = History.recordIterNext (abs s) next
    `record_iternext` takes the smallest INDEXED oid; the index keeps the oid of an object whose newest
    record is a deletion / an undone creation, and the call raises POSKeyError there instead of
    skipping it ("iterate over the CURRENT records").  Proved: the statement when every known object
    currently exists; the model (= the code) always equals `codeRecordIterNext`; and a witness that the
    full statement fails. -/
theorem record_iternext_partial {s : FS} (h : Inv s)
    (hall : ∀ o ∈ History.oids (abs s), ∃ r, History.load (abs s) o = .ok r) (next : Nat) :
    FileStore.recordIterNext s next = History.recordIterNext (abs s) next :=
  Proofs.FileStoreRefine2.recordIterNext_refines_partial h hall next

/-- what `record_iternext` computes in every reachable state: the code-shaped walk over the history -/
theorem record_iternext_as_coded {s : FS} (h : Inv s) (next : Nat) :
    FileStore.recordIterNext s next = Proofs.FileStoreRefine2.codeRecordIterNext (abs s) next :=
  Proofs.FileStoreRefine2.recordIterNext_code h next

/-- the crux (DESIGN A.1) on its own: following `prev` from the index entry visits exactly the
    newest record of the oid in every transaction that has one, newest first -/
theorem pointer_chase_is_list_spec {s : FS} (h : Inv s) (oid : Nat) :
    chain s.log (idxGet s.index oid) = Proofs.FileStoreBasic.revRecs s.log oid := by
  rw [h.index]; exact Proofs.FileStoreBasic.chain_lastPos h.log oid

/-- the abstract history of a reachable state is well formed: tids strictly increase in commit order -/
theorem history_wf {s : FS} (h : Inv s) : History.WF (abs s) := Proofs.FileStoreTop.abs_wf h

/-! ### every step keeps the invariant; only `finish` changes the history -/

/-- `step_preserves_inv`: begin (explicit tid above the last committed one, or ANY clock reading),
    store, deleteObject, restore, undo, vote, finish, abort and reopen keep the invariant. -/
theorem step_preserves_inv {s : FS} (h : Inv s) (op : Op) (hok : OpOk s op) : Inv (step s op).1 :=
  Proofs.FileStoreStep.step_inv h op hok

/-- the empty storage satisfies the invariant … -/
theorem init_inv : Inv init := Proofs.FileStoreStep.inv_init

/-- … hence so does every state reachable by API calls that keep the caller's contract. -/
theorem reachable_inv (ops : List Op) (hok : Proofs.FileStoreTop.RunOk init ops) : Inv (run init ops) :=
  Proofs.FileStoreTop.run_inv Proofs.FileStoreStep.inv_init ops hok

/-- `step_abs`: a successful `finish` appends exactly the staged transaction (its back pointers
    resolved in the committed file); every other step — including failed ones, aborts and reopen —
    leaves the abstract history unchanged. -/
theorem step_abs (s : FS) (op : Op) :
    abs (step s op).1 = abs s ∨
    ∃ st, op = .finish ∧ s.txn = some st ∧ st.voted = true ∧
      abs (step s op).1 = abs s ++ [absTxn s.log st.toTxn] :=
  Proofs.FileStoreTop.step_abs s op

/-- `_txn_find` (used by undo and by restore's `prev_txn` hint) finds every committed transaction
    by its id — including, since the repair of `pos > 39`, an empty first transaction with hardly
    any metadata (reproduced defect `C04:undolog-skips-short-first-txn`, fixed in /repo). -/
theorem txn_find_total {s : FS} {t : FTxn} (h : Inv s) (ht : t ∈ s.log) :
    ∃ older, txnFind t.tid s.log = some (t, older) :=
  Proofs.FileStoreTop.txnFind_total h ht

/-! ### tids strictly increase, whatever the clock does -/

/-- `tid_strict_mono`: for EVERY sequence of clock readings (stalled, stepping back, anything) the
    tids issued by consecutive `tpc_begin`s strictly increase and lie above the starting timestamp. -/
theorem tid_strict_mono (ts : Nat) (clock : List Nat) :
    (Tid.issue ts clock).Pairwise (· < ·) ∧ (∀ t ∈ Tid.issue ts clock, ts < t) ∧
    (Tid.issue ts clock).length = clock.length :=
  ⟨Proofs.FileStoreTid.issue_pairwise ts clock, Proofs.FileStoreTid.issue_gt ts clock,
   Proofs.FileStoreTid.issue_length ts clock⟩

/-- the same on the storage: along every run — whatever `now` each `begin` reads, with aborted
    transactions in between, undo, restore, reopen — the committed tids strictly increase. -/
theorem committed_tids_increase (ops : List Op) (hok : Proofs.FileStoreTop.RunOk init ops) :
    History.WF (abs (run init ops)) :=
  Proofs.FileStoreTop.abs_wf (reachable_inv ops hok)

/-- a transaction begun at ANY clock reading gets a tid above everything committed so far -/
theorem begin_tid_above_committed {s : FS} (h : Inv s) (now : Nat) :
    s.ltid < beginTid s none now ∧ ∀ t ∈ abs s, t.tid < beginTid s none now := by
  have hlt := Proofs.FileStoreStep.lt_beginTid h none now trivial
  refine ⟨hlt, ?_⟩
  intro t ht
  unfold abs at ht
  rw [List.mem_reverse, Proofs.FileStoreRefine.absLog_eq_map h.log] at ht
  obtain ⟨ft, hft, rfl⟩ := List.mem_map.1 ht
  have := Proofs.FileStoreBasic.tid_le_lastTid h.log hft
  have := h.ltid
  show ft.tid < _
  omega

/-- `stateAt_mono` (DESIGN 3.1): what `loadBefore(·, b)` shows of an object is not changed by
    committing further transactions with tid ≥ b — with `step_abs` and the monotone tids: no later
    commit changes the snapshot below its own tid. -/
theorem snapshot_stable (h₁ h₂ : History.History) (b oid : Nat) (hb : ∀ t ∈ h₂, b ≤ t.tid) :
    History.stateAt (h₁ ++ h₂) b oid = History.stateAt h₁ b oid :=
  Proofs.FileStoreHistory.stateAt_mono h₁ h₂ b oid hb

/-! ### closing and reopening changes no answer -/

/-- `reopen_same`: the index rebuilt by a forward scan of the file binds every oid to the same
    offset as the index maintained incrementally, `_pos` and `_ltid` are recomputed to the same
    values, the invariant holds again and the abstract history is the same … -/
theorem reopen_same {s : FS} (h : Inv s) :
    (reopen s).log = s.log ∧ (reopen s).pos = s.pos ∧ (reopen s).ltid = s.ltid ∧
    (∀ oid, idxGet (reopen s).index oid = idxGet s.index oid) ∧
    abs (reopen s) = abs s ∧ Inv (reopen s) :=
  have r := Proofs.FileStoreTop.reopen_state h
  ⟨r.1, r.2.1, r.2.2.1, r.2.2.2.1, Proofs.FileStoreTop.reopen_abs s, Proofs.FileStoreStep.reopen_inv h⟩

/-- … so every query gives the same answer after the reopen as before. -/
theorem reopen_answers_same {s : FS} (h : Inv s) :
    (∀ oid, FileStore.load (reopen s) oid = FileStore.load s oid) ∧
    (∀ oid serial, FileStore.loadSerial (reopen s) oid serial = FileStore.loadSerial s oid serial) ∧
    (∀ oid b, FileStore.loadBefore (reopen s) oid b = FileStore.loadBefore s oid b) ∧
    (∀ oid, FileStore.getTid (reopen s) oid = FileStore.getTid s oid) ∧
    FileStore.lastTransaction (reopen s) = FileStore.lastTransaction s ∧
    (∀ oid n, FileStore.history (reopen s) oid n = FileStore.history s oid n) ∧
    (∀ start stop back, FileStore.iterator (reopen s) start stop back = FileStore.iterator s start stop back) ∧
    (∀ first last, FileStore.undoLog (reopen s) first last = FileStore.undoLog s first last) ∧
    (∀ p first last, FileStore.undoLogF (reopen s) p first last = FileStore.undoLogF s p first last) ∧
    (∀ n, FileStore.lastInvalidations (reopen s) n = FileStore.lastInvalidations s n) ∧
    (∀ next, FileStore.recordIterNext (reopen s) next = FileStore.recordIterNext s next) := by
  have h' := Proofs.FileStoreStep.reopen_inv h
  have a := fs_refines_history h
  have b := fs_refines_history h'
  have e := Proofs.FileStoreTop.reopen_abs s
  rw [e] at b
  exact ⟨fun o => (b.1 o).trans (a.1 o).symm,
         fun o t => (b.2.1 o t).trans (a.2.1 o t).symm,
         fun o t => (b.2.2.1 o t).trans (a.2.2.1 o t).symm,
         fun o => (b.2.2.2.1 o).trans (a.2.2.2.1 o).symm,
         b.2.2.2.2.1.trans a.2.2.2.2.1.symm,
         fun o n => (b.2.2.2.2.2.1 o n).trans (a.2.2.2.2.2.1 o n).symm,
         fun x y z => (b.2.2.2.2.2.2.1 x y z).trans (a.2.2.2.2.2.2.1 x y z).symm,
         fun x y => (b.2.2.2.2.2.2.2.1 x y).trans (a.2.2.2.2.2.2.2.1 x y).symm,
         fun p x y => (b.2.2.2.2.2.2.2.2.1 p x y).trans (a.2.2.2.2.2.2.2.2.1 p x y).symm,
         fun n => (b.2.2.2.2.2.2.2.2.2 n).trans (a.2.2.2.2.2.2.2.2.2 n).symm,
         fun n => by
           rw [record_iternext_as_coded h', record_iternext_as_coded h, e]⟩

/-! ### tie to constants translated from the source on every run (`ZodbModel/Generated.lean`) -/

def agrees (g : Option Nat) (m : Nat) : Bool := match g with | none => true | some v => v == m

/-- the offsets of the model are computed with the header lengths of `format.py`
    (`DATA_HDR_LEN` = 42 + payload | 8-byte back pointer, `TRANS_HDR_LEN` = 23 + metadata) -/
theorem tie_header_lengths :
    agrees Generated.dataHdrLen (DRec.size ⟨0, 0, 0, .data []⟩) = true ∧
    agrees Generated.dataHdrStructLen (DRec.size ⟨0, 0, 0, .data []⟩) = true ∧
    DRec.size ⟨0, 0, 0, .back 0⟩ = DRec.size ⟨0, 0, 0, .data []⟩ + 8 ∧
    agrees Generated.transHdrLen (FTxn.hdrLen ⟨0, 0, [], [], [], []⟩) = true ∧
    agrees Generated.transHdrStructLen (FTxn.hdrLen ⟨0, 0, [], [], [], []⟩) = true ∧
    FTxn.size ⟨0, 0, [], [], [], []⟩ = FTxn.hdrLen ⟨0, 0, [], [], [], []⟩ + 8 ∧ logEnd [] = 4 := by
  decide

/-! ### non-vacuity: a concrete reachable state with a back-pointer record and three revisions

    tid 1: create oids 1 and 2 (explicit tid);  tid 2: rewrite oid 1 twice (clock stalled at 0);
    tid 3: undo tid 2 (clock stepped back) — oid 1 now has three revisions, the newest a back pointer;
    tid 4: delete oid 2.  Then close and reopen. -/
def exOps : List Op :=
  [.begin (some 1) 0 32 [65] [] [], .store 1 0 [7], .store 2 0 [8, 8], .vote, .finish,
   .begin none 0 32 [] [66] [], .store 1 1 [9], .store 1 1 [10], .vote, .finish,
   .begin none 0 32 [] [] [], .undo 2, .vote, .finish,
   .begin none 1 32 [] [] [], .delete 2 1, .vote, .finish,
   .reopen]

def exS : FS := run init exOps

example : Proofs.FileStoreTop.RunOk init exOps := by
  simp [exOps, Proofs.FileStoreTop.RunOk, OpOk, statusOk, init]

example : Inv exS := reachable_inv exOps (by
  simp [exOps, Proofs.FileStoreTop.RunOk, OpOk, statusOk, init])

example : (abs exS).map (·.tid) = [1, 2, 3, 4] := by decide
example : exS.pos = 403 ∧ exS.ltid = 4 ∧ idxGet exS.index 1 = 264 ∧ idxGet exS.index 2 = 345 := by decide
example : FileStore.load exS 1 = .ok ([7], 3) := by decide                 -- through the back pointer
example : FileStore.loadBefore exS 1 3 = .ok (some ([10], 2, some 3)) := by decide   -- last duplicate wins
example : FileStore.loadBefore exS 1 2 = .ok (some ([7], 1, some 2)) := by decide
example : FileStore.loadBefore exS 1 1 = .ok none := by decide
example : FileStore.loadSerial exS 1 3 = .ok [7] := by decide
example : FileStore.load exS 2 = .error .keyError := by decide             -- deleted
example : FileStore.loadBefore exS 2 4 = .ok (some ([8, 8], 1, some 4)) := by decide
example : FileStore.load exS 3 = .error .keyError := by decide             -- unknown
example : (FileStore.iterator exS (some 3) (some 3) true).map (·.recs) = [[⟨1, some [7], some 1⟩]] := by
  decide
example : (FileStore.undoLog exS 0 2).map (·.tid) = [4, 3] := by decide
-- a filter selects first, the window counts the selected transactions
example : (FileStore.undoLogF exS (fun e => e.user == [65] || e.desc == [66]) 0 1).map (·.tid) = [2] ∧
    (FileStore.undoLogF exS (fun e => e.user == [65] || e.desc == [66]) 1 5).map (·.tid) = [1] := by decide

/-- witness for `C04:fs:record_iternext-stops-at-uncreated`: in `exS` oid 1 exists and oid 2 is deleted.
    The history says: oid 1 is the only current record (no next); the code names the deleted oid 2
    as next and raises KeyError there. -/
theorem record_iternext_stops_at_uncreated :
    Inv exS ∧
    History.recordIterNext (abs exS) 0 = .ok (1, 3, [7], none) ∧
    FileStore.recordIterNext exS 0 = .ok (1, 3, [7], some 2) ∧
    History.recordIterNext (abs exS) 2 = .error .valueError ∧
    FileStore.recordIterNext exS 2 = .error .keyError :=
  ⟨reachable_inv exOps (by simp [exOps, Proofs.FileStoreTop.RunOk, OpOk, statusOk, init]),
   by decide, by decide, by decide, by decide⟩

/-- a transaction that is voted but not finished lies complete in the file, checkpoint flag set:
    the iterator (which reads the file) must not report it -/
def exVoted : FS := run exS [.begin none 0 32 [] [] [], .store 1 3 [11], .vote]
example : (fileLog exVoted).map (·.tid) = [5, 4, 3, 2, 1] ∧ (fileLog exVoted).map (·.status) = [99, 32, 32, 32, 32] ∧
    (FileStore.iterator exVoted none none false).map (·.tid) = [1, 2, 3, 4] ∧
    (FileStore.iterator exVoted (some 4) none true).map (·.tid) = [4] ∧
    (FileStore.iterator exVoted (some 5) (some 9) false).map (·.tid) = [] := by decide

/-- the repaired quirk: an empty first transaction with 3 bytes of metadata ends at offset 38 < 39
    and is nevertheless listed by `undoLog` and found by `_txn_find` -/
def exShort : FS := run init [.begin (some 1) 0 32 [97, 98, 99] [] [], .vote, .finish]
example : exShort.pos = 38 ∧ (FileStore.undoLog exShort 0 20).map (·.tid) = [1] ∧
    (txnFind 1 exShort.log).isSome = true := by decide

/-! ### MappingStorage

    The same specification, the model of `MappingStorage` (`ZodbModel/Mapping.lean`: `_data`,
    `_transactions` as sorted maps, `_tdata` as a dict). -/

/-- every query of the MappingStorage model equals the `History` function on its abstraction -/
theorem mapping_refines_history {m : Mapping.MS} (h : Proofs.Mapping.Inv m) :
    (∀ oid b, Mapping.loadBefore m oid b = History.loadBefore (Mapping.abs m) oid b) ∧
    (∀ oid serial, Mapping.loadSerial m oid serial = History.loadSerial (Mapping.abs m) oid serial) ∧
    (∀ oid, Mapping.getTid m oid = History.getTid (Mapping.abs m) oid) ∧
    Mapping.lastTransaction m = History.lastTransaction (Mapping.abs m) ∧
    (∀ oid n, Mapping.history m oid n = History.history (Mapping.abs m) oid n) ∧
    (∀ start stop, Mapping.iterator m start stop = History.iterator (Mapping.abs m) start stop) :=
  ⟨Proofs.Mapping.loadBefore_refines h, Proofs.Mapping.loadSerial_refines h, Proofs.Mapping.getTid_refines h,
   Proofs.Mapping.lastTransaction_refines h, Proofs.Mapping.history_refines h,
   Proofs.Mapping.iterator_refines h⟩

/-- begin (explicit tid above the last one, or ANY clock reading), store, finish, abort keep the
    invariant, starting from the empty storage -/
theorem mapping_step_preserves_inv {m : Mapping.MS} (h : Proofs.Mapping.Inv m) (op : Mapping.Op)
    (hok : Proofs.Mapping.OpOk m op) : Proofs.Mapping.Inv (Mapping.step m op).1 :=
  Proofs.Mapping.step_inv h op hok

theorem mapping_init_inv : Proofs.Mapping.Inv Mapping.init := Proofs.Mapping.inv_init

/-- only `finish` changes the history: it appends exactly the staged transaction -/
theorem mapping_step_abs {m : Mapping.MS} (h : Proofs.Mapping.Inv m) (op : Mapping.Op) :
    Mapping.abs (Mapping.step m op).1 = Mapping.abs m ∨
    ∃ st, op = .finish ∧ m.txn = some st ∧
      Mapping.abs (Mapping.step m op).1 =
        Mapping.abs m ++ [Mapping.toTxn ⟨st.tid, st.user, st.desc, st.ext, st.tdata⟩] :=
  Proofs.Mapping.step_abs h op

/-- tids strictly increase in commit order, whatever the clock reads at `tpc_begin` -/
theorem mapping_history_wf {m : Mapping.MS} (h : Proofs.Mapping.Inv m) : History.WF (Mapping.abs m) :=
  Proofs.Mapping.abs_wf h

/-- non-vacuity: two transactions (clock stalled), a duplicate store, queries at the boundaries -/
def exM : Mapping.MS :=
  [Mapping.Op.begin none 5 [] [] [], .store 1 0 [7], .store 2 0 [8], .finish,
   .begin none 5 [] [] [], .store 1 5 [9], .store 1 5 [10], .finish].foldl
    (fun m op => (Mapping.step m op).1) Mapping.init

example : (Mapping.abs exM).map (·.tid) = [5, 6] := by decide
example : Mapping.loadBefore exM 1 6 = .ok (some ([7], 5, some 6)) := by decide
example : Mapping.loadBefore exM 1 7 = .ok (some ([10], 6, none)) := by decide
example : Mapping.loadBefore exM 1 5 = .ok none := by decide
example : Mapping.loadBefore exM 3 5 = .error .keyError := by decide

end Props.C04
