/-
  C02 — Every transaction reads from one consistent snapshot.

  Property theorems only (helper lemmas live in `Proofs/Mvcc*.lean`).  The model
  (`ZodbModel/Mvcc.lean`) is a transition system whose actions are the critical sections of
  `mvccadapter.py` / `Connection.py` / the storages' `tpc_finish`; "for all programs, interleavings
  and schedules" is "for every state reachable through accepted actions" (`Reachable`).

  Vocabulary: `stateAt log b oid` is the newest revision of `oid` with tid `< b` (the storage's
  `loadBefore`); `vlog s` is the committed log plus the transaction inside its finish section
  (which is certain to be published); `start` is `_start`; an *epoch* of instance `i` is the span
  between two of its `pollApply` actions (`live = true` until its own commit, close or the next poll).
-/
import Proofs.MvccHist
import Proofs.MvccPool
namespace Props.C02
open ZodbModel.Mvcc Proofs.Mvcc

/-- The inductive invariant (A)-(D) of DESIGN C02 (`Proofs.Mvcc.Inv`: `Glob`, `InstInv`,
    `HistInv`) holds in every reachable state. -/
theorem mvcc_inv {s : Sys} (hr : Reachable s) : Inv s := Proofs.Mvcc.mvcc_inv hr

/-- Every read — own uncommitted change, cache hit or storage load — returns the state of ONE
    point of the commit order: `stateAt (vlog s) start_i`, overlaid with the connection's own
    uncommitted changes.  (`readEnabled`: inside an epoch, not while committing, and a cache miss
    has to wait for the storage lock while a finish section is in progress.) -/
theorem snapshot_consistent {s : Sys} (hr : Reachable s) {i oid : Nat}
    (hen : readEnabled s i oid = true) :
    readNow s i oid = overlay (s.insts i).pending (stateAt (vlog s) (s.insts i).start) oid :=
  Proofs.Mvcc.snapshot_consistent hr hen

/-- … and that point is the same for all reads of the epoch: no action of anybody (commits of
    others, deliveries, other polls, closes, re-opens, new instances) changes the bound or the
    snapshot function of instance `i`; only `i`'s own `pollApply` does. -/
theorem snapshot_stable {s s' : Sys} (hr : Reachable s) (a : Act) (h : step s a = .ok s')
    {i : Nat} (hi : i < s.n) (ha : a ≠ .pollApply i) :
    (s'.insts i).start = (s.insts i).start ∧
    ∀ oid, stateAt (vlog s') (s'.insts i).start oid = stateAt (vlog s) (s.insts i).start oid :=
  Proofs.Mvcc.snapshot_stable hr a h hi ha

/-- serial and data of the committed revision a read consults (what `load` returns / what the
    cached object carries as `_p_serial`) are those of the snapshot -/
theorem read_serial_consistent {s : Sys} (hr : Reachable s) {i oid : Nat}
    (hen : readEnabled s i oid = true) (hp : lookup oid (s.insts i).pending = none) :
    readCommitted s i oid = stateAt (vlog s) (s.insts i).start oid :=
  Proofs.Mvcc.readCommitted_eq (Proofs.Mvcc.mvcc_inv hr) hen hp

/-- Freshness: a `pollApply` starts an epoch whose bound lies above every transaction published
    so far … -/
theorem snapshot_fresh {s s' : Sys} (hr : Reachable s) {i : Nat}
    (h : step s (.pollApply i) = .ok s') :
    (s'.insts i).live = true ∧ ∀ T ∈ s.log, T.tid < (s'.insts i).start :=
  Proofs.Mvcc.snapshot_fresh hr h

/-- … in particular above every transaction published before the `pollRead` that began the
    boundary, whatever other threads do between the two halves of the poll. -/
theorem snapshot_fresh_trace {s0 s1 s2 s3 : Sys} {i : Nat} {as : List Act} (hr : Reachable s0)
    (h1 : step s0 (.pollRead i) = .ok s1) (h2 : Steps s1 as s2)
    (h3 : step s2 (.pollApply i) = .ok s3) :
    ∀ T ∈ s0.log, T.tid < (s3.insts i).start :=
  Proofs.Mvcc.snapshot_fresh_trace hr h1 h2 h3

/-- Inside an epoch every cache entry (including those kept across close / re-open from the pool
    and across polls) equals the snapshot at the bound. -/
theorem cache_coherent {s : Sys} (hr : Reachable s) {i : Nat} (hi : i < s.n)
    (hl : (s.insts i).live = true) {oid : Nat} {e : Nat × Data}
    (hc : (s.insts i).cache oid = some e) :
    stateAt (vlog s) (s.insts i).start oid = some e :=
  Proofs.Mvcc.cache_coherent hr hi hl hc

/-- FileStorage's reader pool: while a finisher holds the write lock (`writing`) no reader file is
    handed out — the lock discipline behind clause (D): storage reads cannot happen inside a finish
    section.  (Model: `ZodbModel.Mvcc.FilePool`, one action per `with self._cond:` block.) -/
theorem pool_mutex {p : FilePool.Pool} (hr : FilePool.PReachable p) :
    ¬ (p.writing = true ∧ 0 < p.out) := Proofs.Mvcc.FilePool.pool_mutex hr

/-- the committed log only grows -/
theorem log_grows {s s' : Sys} (a : Act) (h : step s a = .ok s') :
    s'.log = s.log ∨ ∃ T, s'.log = T :: s.log := Proofs.Mvcc.log_grows a h

/-! ### non-vacuity: a foreign commit lands between an epoch's poll and its last read -/

/-- reader 0 and writer 1; the writer commits {1,2 ↦ 10} at tid 5; the reader polls (bound 6) and
    reads oid 1; the writer commits {1,2 ↦ 20} at tid 7 (delivered to the reader) -/
def exTrace : List Act :=
  [.newInstance, .newInstance, .reopen 0, .reopen 1, .pollRead 0, .pollApply 0, .pollRead 1, .pollApply 1,
   .write 1 1 (some 10), .write 1 2 (some 10), .begin (some 1) 5, .store [], .vote, .finishEnter,
   .deliver 0, .publish,
   .pollRead 0, .pollApply 0, .read 0 1,
   .pollRead 1, .pollApply 1, .write 1 1 (some 20), .write 1 2 (some 20), .begin (some 1) 7, .store [],
   .vote, .finishEnter, .deliver 0, .publish]

def exS : Sys := run init exTrace

theorem exS_reachable : Reachable exS := reachable_run Reachable.init _

example : headTid exS.log = 7 ∧ (exS.insts 0).start = 6 ∧ (exS.insts 0).inval = some [2, 1] := by decide
-- the reader still reads the OLD group {10, 10}: oid 1 from its cache, oid 2 from the storage
example : readEnabled exS 0 1 = true ∧ readEnabled exS 0 2 = true := by decide
example : readNow exS 0 1 = some (some 10) ∧ readNow exS 0 2 = some (some 10) := by decide
example : readCommitted exS 0 2 = some (5, some 10) := by decide
-- after its next poll it reads the NEW group {20, 20}; the stale cache entry is gone
def exS' : Sys := run exS [.pollRead 0, .pollApply 0]
example : (exS'.insts 0).start = 8 ∧ (exS'.insts 0).cache 1 = none := by decide
example : readNow exS' 0 1 = some (some 20) ∧ readNow exS' 0 2 = some (some 20) := by decide

/-- the poll-versus-invalidate window: the reader reads `lastTransaction()` (= 5), the writer
    enters its finish section and delivers tid 7, and only then the reader applies the poll -/
def exTrace2 : List Act :=
  [.newInstance, .newInstance, .reopen 0, .reopen 1, .pollRead 0, .pollApply 0, .pollRead 1, .pollApply 1,
   .write 1 1 (some 10), .write 1 2 (some 10), .begin (some 1) 5, .store [], .vote, .finishEnter,
   .deliver 0, .publish,
   .pollRead 0, .pollApply 0, .read 0 1,
   .pollRead 1, .pollApply 1, .write 1 1 (some 20), .write 1 2 (some 20), .begin (some 1) 7, .store [],
   .vote, .pollRead 0, .finishEnter, .deliver 0, .pollApply 0]

def exW : Sys := run init exTrace2
-- bound 8 although tid 7 is not loadable yet: the cache entry of oid 1 was dropped, and the
-- storage read has to wait for the finish section (so the reader cannot see a mixed state)
example : headTid exW.log = 5 ∧ (exW.insts 0).start = 8 ∧ (exW.insts 0).cache 1 = none := by decide
example : readEnabled exW 0 1 = false ∧ readEnabled exW 0 2 = false := by decide
example : readNow (run exW [.publish]) 0 1 = some (some 20) ∧
          readNow (run exW [.publish]) 0 2 = some (some 20) := by decide
-- (with `max` replaced by `ltid` alone the bound would be 6 here and the drained invalidations lost)

end Props.C02
