/-
  LINK lemmas, history queries: the abstract specification `ZodbModel/History.lean` (C04) against
  the private history vocabularies of `Pack.lean` (C07), `Demo.lean` (C16, one layer) and
  `Mvcc.lean` (C02/C15).  Each translation is a plain `map`; the lemmas show that the revision
  lists, and then every query, commute with it.  Core Lean only.
-/
import ZodbModel.History
import ZodbModel.Pack
import ZodbModel.Demo
import ZodbModel.Mvcc
import Proofs.PackBasic
namespace Proofs.Links
open ZodbModel

/-! ### list facts -/

theorem dec_beq (a b : Nat) : decide (a = b) = (a == b) := by
  by_cases h : a = b <;> simp [h]

theorem filterMap_congr' {α β} {f g : α → Option β} {l : List α} (h : ∀ x ∈ l, f x = g x) :
    l.filterMap f = l.filterMap g := by
  induction l with
  | nil => rfl
  | cons a l ih =>
    simp only [List.filterMap_cons, h a List.mem_cons_self,
      ih (fun x hx => h x (List.mem_cons_of_mem _ hx))]

/-- with at most one hit the first hit is the last hit -/
theorem find?_eq_filter_getLast? {α} (p : α → Bool) (l : List α)
    (h : l.Pairwise (fun a b => ¬ (p a = true ∧ p b = true))) :
    l.find? p = (l.filter p).getLast? := by
  induction l with
  | nil => rfl
  | cons a l ih =>
    obtain ⟨h1, h2⟩ := List.pairwise_cons.1 h
    by_cases ha : p a = true
    · have : l.filter p = [] := List.filter_eq_nil_iff.2 (fun b hb hpb => h1 b hb ⟨ha, hpb⟩)
      simp [List.find?_cons, List.filter_cons, ha, this]
    · have ha' : p a = false := by simpa using ha
      simp only [List.find?_cons, List.filter_cons, ha', ih h2]
      simp

/-- the last hit, searched from the back -/
theorem reverse_find?_eq (p : α → Bool) (l : List α) : l.reverse.find? p = (l.filter p).getLast? :=
  List.getLast?_filter.symm

/-! ## Pack (C07) -/

/-- a History record as a Pack record; `refs` is the uninterpreted `referencesf` -/
def recP (refs : Bytes → List Nat) (r : History.Rec) : Pack.Rec :=
  ⟨r.oid, r.data, (r.data.map List.length).getD 0, (r.data.map refs).getD [], r.dataTxn⟩

def txnP (refs : Bytes → List Nat) (t : History.Txn) : Pack.Txn :=
  ⟨t.tid, t.status == History.stPacked, t.user.length + t.desc.length + t.ext.length,
    t.user ++ t.desc ++ t.ext, t.recs.map (recP refs)⟩

def histP (refs : Bytes → List Nat) (h : History.History) : Pack.History := h.map (txnP refs)

/-- every transaction holds at most one record per oid -/
def UniqueOids (h : History.History) : Prop := ∀ t ∈ h, (t.recs.map (·.oid)).Nodup

def loadP : Except History.Err (Option (Bytes × Nat × Option Nat)) → Pack.Load
  | .error _ => .keyError
  | .ok none => .none
  | .ok (some (d, t, e)) => .some d t e

/-- both models take the LAST record of an oid in a transaction (`Proofs.Pack.recOf_eq_last`) -/
theorem recOfP (refs : Bytes → List Nat) (t : History.Txn) (o : Nat) :
    (txnP refs t).recOf o = (t.recOf o).map (recP refs) := by
  rw [Proofs.Pack.recOf_eq_last]
  unfold History.Txn.recOf txnP
  simp only
  rw [List.filter_map, List.getLast?_map]
  rfl

theorem recsOfP (refs : Bytes → List Nat) (h : History.History) (o : Nat) :
    Pack.recsOf (histP refs h) o =
      (History.revs h o).map (fun rv => (rv.tid, recP refs rv.record)) := by
  unfold Pack.recsOf History.revs histP
  rw [List.filterMap_map, List.map_filterMap]
  refine filterMap_congr' (fun t _ => ?_)
  simp only [Function.comp, recOfP refs t o, Option.map_map]
  rfl

theorem packFirst (refs : Bytes → List Nat) (l : List History.Rev) (b : Nat) :
    Option.map (fun x : Nat × Pack.Rec => x.1)
      (List.find? (fun x => decide (b ≤ x.1)) (l.map fun rv => (rv.tid, recP refs rv.record))) =
    Option.map History.Rev.tid (l.filter fun r => decide (b ≤ r.tid)).head? := by
  rw [List.find?_map, List.head?_filter, Option.map_map]; rfl

theorem packLast (refs : Bytes → List Nat) (l : List History.Rev) (b : Nat) :
    List.find? (fun x : Nat × Pack.Rec => decide (x.1 < b))
      (l.map fun rv => (rv.tid, recP refs rv.record)).reverse =
    Option.map (fun rv => (rv.tid, recP refs rv.record))
      (l.filter fun r => decide (r.tid < b)).getLast? := by
  rw [← List.map_reverse, List.find?_map, List.getLast?_filter]; rfl

/-- `Pack.loadBefore` on the translated history is `History.loadBefore` -/
theorem loadBeforeP (refs : Bytes → List Nat) (h : History.History) (o b : Nat) :
    Pack.loadBefore (histP refs h) o b = loadP (History.loadBefore h o b) := by
  unfold Pack.loadBefore Pack.lastBefore Pack.firstFrom History.loadBefore
  rw [recsOfP refs h o]
  simp only [List.isEmpty_map]
  cases hE : (History.revs h o).isEmpty with
  | true => simp [loadP]
  | false =>
    simp only [Bool.false_eq_true, if_false]
    rw [packFirst, packLast]
    cases ((History.revs h o).filter fun r => decide (r.tid < b)).getLast? with
    | none => simp [loadP]
    | some rv =>
      simp only [Option.map_some]
      show (match rv.record.data with
            | none => Pack.Load.keyError
            | some d => Pack.Load.some d rv.tid _) = _
      cases rv.record.data with
      | none => simp [loadP]
      | some d => simp [loadP]

/-! ## Demo (C16), one layer -/

def txnD (code : Bytes → Nat) (t : History.Txn) : Demo.Txn :=
  ⟨t.tid, t.status == History.stPacked, t.recs.map fun r => (r.oid, r.data.map code)⟩

def histD (code : Bytes → Nat) (h : History.History) : List Demo.Txn := h.map (txnD code)

def revD (code : Bytes → Nat) (rv : History.Rev) : Demo.Rev := (rv.tid, rv.record.data.map code)

theorem recOfD (code : Bytes → Nat) (t : History.Txn) (o : Nat) :
    Demo.recOf (txnD code t).recs o = (t.recOf o).map (fun r => r.data.map code) := by
  unfold Demo.recOf History.Txn.recOf txnD
  simp only
  rw [← List.map_reverse, List.find?_map, ← List.getLast?_filter, Option.map_map, List.getLast?_eq_head?_reverse,
    List.getLast?_eq_head?_reverse]
  have : (List.filter ((fun r : Nat × Option Nat => decide (r.1 = o)) ∘ fun r : History.Rec =>
      (r.oid, r.data.map code)) t.recs) = t.recs.filter (fun r => r.oid == o) := by
    refine List.filter_congr (fun x _ => ?_)
    exact dec_beq _ _
  rw [this]
  cases ((t.recs.filter fun r => r.oid == o).reverse.head?) <;> rfl

theorem revsOfD (code : Bytes → Nat) (h : History.History) (o : Nat) :
    Demo.revsOf (histD code h) o = (History.revs h o).map (revD code) := by
  unfold Demo.revsOf History.revs histD
  rw [List.filterMap_map, List.map_filterMap]
  refine filterMap_congr' (fun t _ => ?_)
  simp only [Function.comp, recOfD, Option.map_map]
  rfl

def resD (code : Bytes → Nat) :
    Except History.Err (Option (Bytes × Nat × Option Nat)) → Except Demo.Err (Option Demo.LB)
  | .error _ => .error .keyError
  | .ok none => .ok none
  | .ok (some (d, t, e)) => .ok (some (code d, t, e))

theorem filter_before (code : Bytes → Nat) (l : List History.Rev) (b : Nat) :
    Demo.before (l.map (revD code)) b = (l.filter fun r => decide (r.tid < b)).map (revD code) := by
  unfold Demo.before
  rw [List.filter_map]; rfl

theorem filter_after (code : Bytes → Nat) (l : List History.Rev) (b : Nat) :
    Demo.after (l.map (revD code)) b = (l.filter fun r => decide (b ≤ r.tid)).map (revD code) := by
  unfold Demo.after
  rw [List.filter_map]
  congr 1
  refine List.filter_congr (fun x _ => ?_)
  simp [Function.comp, revD]

/-- `loadBefore` of a history-backed layer of the demo-storage model is `History.loadBefore` -/
theorem loadBeforeD (code : Bytes → Nat) (h : History.History) (o b : Nat) :
    Demo.loadBeforeR (Demo.revsOf (histD code h) o) b = resD code (History.loadBefore h o b) := by
  unfold Demo.loadBeforeR History.loadBefore
  rw [revsOfD, filter_before, filter_after]
  simp only [List.isEmpty_map]
  cases hE : (History.revs h o).isEmpty with
  | true => simp [resD]
  | false =>
    simp only [Bool.false_eq_true, if_false, List.getLast?_map]
    cases ((History.revs h o).filter fun r => decide (r.tid < b)).getLast? with
    | none => simp [resD]
    | some rv =>
      simp only [Option.map_some, revD]
      cases rv.record.data with
      | none => simp [resD]
      | some d =>
        simp only [resD, List.head?_map, Option.map_map]
        rfl

def dataD (code : Bytes → Nat) : Except History.Err Bytes → Except Demo.Err Demo.Data
  | .error _ => .error .keyError
  | .ok d => .ok (code d)

theorem loadSerialD (code : Bytes → Nat) (h : History.History) (o s : Nat) :
    Demo.loadSerialR (Demo.revsOf (histD code h) o) s = dataD code (History.loadSerial h o s) := by
  unfold Demo.loadSerialR History.loadSerial
  rw [revsOfD, List.find?_map]
  have : ((fun x : Demo.Rev => decide (x.1 = s)) ∘ revD code) = fun r : History.Rev => r.tid == s := by
    funext r; exact dec_beq _ _
  rw [this]
  cases (History.revs h o).find? (fun r => r.tid == s) with
  | none => simp [dataD]
  | some rv =>
    simp only [Option.map_some, revD]
    cases rv.record.data <;> simp [dataD]

def tidD : Except History.Err Nat → Except Demo.Err Demo.Tid
  | .error _ => .error .keyError
  | .ok t => .ok t

/-- back pointers never lead to an un-creation: a record without data has no `dataTxn` either -/
def NoBackToTombstone (h : History.History) : Prop :=
  ∀ t ∈ h, ∀ r ∈ t.recs, r.data = none → r.dataTxn = none

theorem recOf_mem {t : History.Txn} {o : Nat} {r : History.Rec} (h : t.recOf o = some r) : r ∈ t.recs := by
  unfold History.Txn.recOf at h
  have := List.mem_of_getLast? h
  exact (List.mem_filter.1 this).1

theorem revs_mem {h : History.History} {o : Nat} {rv : History.Rev} (hm : rv ∈ History.revs h o) :
    ∃ t ∈ h, rv.record ∈ t.recs := by
  unfold History.revs at hm
  obtain ⟨t, ht, he⟩ := List.mem_filterMap.1 hm
  cases hr : t.recOf o with
  | none => simp [hr] at he
  | some r =>
    simp only [hr, Option.map_some, Option.some.injEq] at he
    subst he
    exact ⟨t, ht, recOf_mem hr⟩

theorem getTidD (code : Bytes → Nat) (h : History.History) (o : Nat) (hn : NoBackToTombstone h) :
    Demo.getTidR (Demo.revsOf (histD code h) o) = tidD (History.getTid h o) := by
  unfold Demo.getTidR History.getTid
  rw [revsOfD, List.getLast?_map]
  cases hl : (History.revs h o).getLast? with
  | none => simp [tidD]
  | some rv =>
    obtain ⟨t, ht, hr⟩ := revs_mem (List.mem_of_getLast? hl)
    have := hn t ht _ hr
    simp only [Option.map_some, revD]
    cases hd : rv.record.data with
    | none => simp [tidD, this hd]
    | some d => simp [tidD]

def histTidsD : Except History.Err (List History.HistEntry) → Except Demo.Err (List Demo.Tid)
  | .error _ => .error .keyError
  | .ok l => .ok (l.map (·.tid))

theorem historyD (code : Bytes → Nat) (h : History.History) (o n : Nat) :
    Demo.historyR (Demo.revsOf (histD code h) o) n = histTidsD (History.history h o n) := by
  unfold Demo.historyR History.history
  rw [revsOfD]
  simp only [List.isEmpty_map]
  cases (History.revs h o).isEmpty with
  | true => simp [histTidsD]
  | false =>
    simp only [Bool.false_eq_true, if_false, histTidsD, ← List.map_reverse, ← List.map_take,
      List.map_map]
    rfl

/-! ## Mvcc (C02 / C15) -/

def txnM (code : Bytes → Nat) (t : History.Txn) : Mvcc.Txn :=
  ⟨t.tid, none, t.recs.reverse.map fun r => (r.oid, r.data.map code)⟩

/-- Mvcc keeps its log newest first -/
def histM (code : Bytes → Nat) (h : History.History) : List Mvcc.Txn := (h.map (txnM code)).reverse

theorem lookup_eq_find? (o : Nat) (ws : List (Nat × Mvcc.Data)) :
    Mvcc.lookup o ws = (ws.find? (fun w => w.1 == o)).map (·.2) := by
  induction ws with
  | nil => rfl
  | cons w ws ih =>
    obtain ⟨a, d⟩ := w
    simp only [Mvcc.lookup, List.find?_cons]
    by_cases h : a = o
    · simp [h]
    · have : (a == o) = false := by simp [h]
      simp only [h, if_false, this, ih]

theorem lookupM (code : Bytes → Nat) (t : History.Txn) (o : Nat) :
    Mvcc.lookup o (txnM code t).writes = (t.recOf o).map (fun r => r.data.map code) := by
  rw [lookup_eq_find?]
  unfold History.Txn.recOf txnM
  simp only
  rw [List.find?_map, ← List.getLast?_filter, Option.map_map]
  have : (List.filter ((fun w : Nat × Mvcc.Data => w.1 == o) ∘ fun r : History.Rec =>
      (r.oid, r.data.map code)) t.recs) = t.recs.filter (fun r => r.oid == o) := rfl
  rw [this]
  cases ((t.recs.filter fun r => r.oid == o).getLast?) <;> rfl

/-- `stateAt` as a list query over a newest-first log -/
theorem stateAt_eq_findSome (L : List Mvcc.Txn) (b o : Nat) :
    Mvcc.stateAt L b o =
      L.findSome? (fun t => if t.tid < b then (Mvcc.lookup o t.writes).map (fun d => (t.tid, d)) else none) := by
  induction L with
  | nil => rfl
  | cons t L ih =>
    simp only [Mvcc.stateAt, List.findSome?_cons]
    by_cases hb : t.tid < b
    · simp only [hb, if_true]
      cases Mvcc.lookup o t.writes with
      | none => simpa using ih
      | some d => simp
    · simp only [hb, if_false]; exact ih

/-- `Mvcc.stateAt` on the translated history: the newest revision below `b` (un-creations included) -/
theorem stateAtM (code : Bytes → Nat) (h : History.History) (b o : Nat) :
    Mvcc.stateAt (histM code h) b o =
      (((History.revs h o).filter fun r => decide (r.tid < b)).getLast?).map
        (fun rv => (rv.tid, rv.record.data.map code)) := by
  rw [stateAt_eq_findSome, ← List.head?_filterMap, histM, List.filterMap_reverse, List.head?_reverse,
    List.filterMap_map, ← List.getLast?_map]
  congr 1
  unfold History.revs
  rw [List.filter_filterMap, List.map_filterMap]
  refine filterMap_congr' (fun t _ => ?_)
  simp only [Function.comp, lookupM]
  show (if t.tid < b then _ else none) = _
  cases t.recOf o with
  | none => simp
  | some r =>
    by_cases hb : t.tid < b <;> simp [hb, Option.filter, txnM]

/-- `History.stateAt` as a list query -/
theorem histStateAt_eq (h : History.History) (b o : Nat) :
    History.stateAt h b o =
      (((History.revs h o).filter fun r => decide (r.tid < b)).getLast?).bind
        (fun rv => rv.record.data.map fun d => (d, rv.tid)) := by
  unfold History.stateAt History.loadBefore
  by_cases hE : History.revs h o = []
  · simp [hE]
  · have hE' : (History.revs h o).isEmpty = false := by simpa using hE
    simp only [hE', Bool.false_eq_true, if_false]
    generalize ((History.revs h o).filter fun r => decide (r.tid < b)).getLast? = x
    cases x with
    | none => rfl
    | some rv =>
      simp only [Option.bind_some]
      cases rv.record.data <;> rfl

/-- … hence the snapshot `History.stateAt` is what a connection of the MVCC model reads from its
    storage when the revision exists -/
theorem stateAt_link (code : Bytes → Nat) (h : History.History) (b o : Nat) :
    (History.stateAt h b o).map (fun p => (p.2, some (code p.1))) =
      (Mvcc.stateAt (histM code h) b o).bind (fun p => p.2.map fun v => (p.1, some v)) := by
  rw [stateAtM, histStateAt_eq]
  generalize ((History.revs h o).filter fun r => decide (r.tid < b)).getLast? = x
  cases x with
  | none => rfl
  | some rv =>
    simp only [Option.map_some, Option.bind_some]
    cases rv.record.data <;> rfl

end Proofs.Links
