/-
  Helper lemmas for C17, recovery part: TERMINATION.  Every loop of the model of `fsrecover`
  (`scan`, `_loadBack_impl`, the record iteration, the main loop) carries fuel; here the fuel the
  model supplies (file length + 1, resp. back pointer + 1) is shown never to run out, for every
  byte image.  Core Lean only.
-/
import ZodbModel.Recover
namespace Proofs.Recover
open ZodbModel ZodbModel.Copy ZodbModel.Recover

theorem slice_length (b : Bytes) (p n : Nat) : (slice b p n).length = min n (b.length - p) := by
  simp [slice, List.length_take, List.length_drop]

/-! ### `scan` advances -/

/-- what one window of `scan` may answer: a found position lies strictly behind `pos` and inside
    the window; an advance is strictly positive (this is what the repaired end-of-file rule
    guarantees) -/
def WinOK (pos wlen : Nat) : Win → Prop
  | .found p => pos < p ∧ p ≤ pos + wlen
  | .advance n => 0 < n ∧ n ≤ wlen
  | .ret0 => True

theorem scanWin_spec (pos wlen : Nat) (hw : 0 < wlen) :
    ∀ (rest : Bytes) (i : Nat), i + rest.length = wlen → WinOK pos wlen (scanWin pos wlen i rest) := by
  intro rest
  induction rest with
  | nil => intro i _; simp only [scanWin, WinOK]; omega
  | cons x rest ih =>
    intro i hi
    simp only [List.length_cons] at hi
    simp only [scanWin]
    split
    · split
      · split
        · trivial
        · simp only [WinOK]; omega
      · split
        · simp only [WinOK]; omega
        · exact ih (i + 1) (by omega)
    · exact ih (i + 1) (by omega)

/-- `scan` never runs out of fuel when given more than the number of bytes behind `pos`, and its
    result is 0 or a position strictly behind `pos` within the file -/
theorem scan_spec (b : Bytes) :
    ∀ (fuel pos : Nat), b.length - pos < fuel →
      ∃ p, scan b fuel pos = some p ∧ (p = 0 ∨ (pos < p ∧ p ≤ b.length)) := by
  intro fuel
  induction fuel with
  | zero => intro pos h; omega
  | succ f ih =>
    intro pos h
    simp only [scan]
    split
    · exact ⟨0, rfl, .inl rfl⟩
    · rename_i hne
      have hwl : 0 < (slice b pos window).length := by
        cases hs : slice b pos window with
        | nil => simp [hs] at hne
        | cons a l => simp
      have hlen := slice_length b pos window
      have hspec := scanWin_spec pos (slice b pos window).length hwl (slice b pos window) 0 (by simp)
      split
      · rename_i p hp
        rw [hp] at hspec
        simp only [WinOK] at hspec
        exact ⟨p, rfl, .inr ⟨hspec.1, by omega⟩⟩
      · exact ⟨0, rfl, .inl rfl⟩
      · rename_i n hn
        rw [hn] at hspec
        simp only [WinOK] at hspec
        obtain ⟨p, h1, h2⟩ := ih (pos + n) (by omega)
        refine ⟨p, h1, ?_⟩
        rcases h2 with h2 | h2
        · exact .inl h2
        · exact .inr ⟨by omega, h2.2⟩

/-! ### back-pointer chains strictly decrease -/

theorem loadBackB_ne_fuel (b : Bytes) : ∀ (fuel back : Nat), back < fuel → loadBackB b fuel back ≠ .fuel := by
  intro fuel
  induction fuel with
  | zero => intro back h; omega
  | succ f ih =>
    intro back h
    simp only [loadBackB]
    split
    · simp
    · split
      · simp
      · split
        · split <;> simp
        · split
          · simp
          · split
            · simp
            · split
              · simp
              · exact ih _ (by omega)

/-! ### the record iteration -/

theorem readRec_ne_fuel (b : Bytes) (tpos tend pos : Nat) : readRec b tpos tend pos ≠ .fuel := by
  unfold readRec
  split
  · simp
  · split
    · simp
    · simp only
      split
      · split <;> simp
      · split
        · simp
        · split
          · simp
          · split
            · simp
            · have := loadBackB_ne_fuel b (num b (pos + 42) 8 + 1) (num b (pos + 42) 8) (by omega)
              split
              · simp
              · rename_i h; exact absurd h this
              · split <;> simp

/-- a record that is read lies inside the transaction and is at least a header long -/
theorem readRec_one {b : Bytes} {tpos tend pos : Nat} {ir : IRec} {dlen : Nat}
    (h : readRec b tpos tend pos = .one ir dlen) : 42 ≤ dlen ∧ pos + dlen ≤ tend := by
  unfold readRec at h
  split at h
  · simp at h
  · split at h
    · simp at h
    · simp only at h
      split at h
      · split at h
        · simp at h
        · rename_i hc
          simp only [RecRes.one.injEq] at h
          omega
      · split at h
        · simp at h
        · split at h
          · simp at h
          · rename_i hc
            split at h
            · simp only [RecRes.one.injEq] at h; omega
            · split at h
              · simp at h
              · simp at h
              · split at h
                · simp at h
                · simp only [RecRes.one.injEq] at h; omega

theorem readRecs_ne_fuel (b : Bytes) (D : Store) (tpos tend : Nat) :
    ∀ (fuel pos : Nat), tend - pos < fuel → readRecs b D tpos tend fuel pos ≠ .fuel := by
  intro fuel
  induction fuel with
  | zero => intro pos h; omega
  | succ f ih =>
    intro pos h
    simp only [readRecs]
    split
    · rename_i hlt
      split
      · simp
      · rename_i hf; exact absurd hf (readRec_ne_fuel b tpos tend pos)
      · rename_i ir dlen hone
        have := readRec_one hone
        split
        · simp
        · have := ih (pos + dlen) (by omega)
          split
          · simp
          · simp
          · rename_i hf; exact absurd hf this
    · split <;> simp

/-! ### `read_txn_header` -/

theorem readTxnHeader_txn {b : Bytes} {pos : Nat} {ltid : Option Nat} {npos tid st : Nat}
    {u d e : Bytes} {rpos tend : Nat}
    (h : readTxnHeader b pos ltid = .txn npos tid st u d e rpos tend) :
    pos < npos ∧ npos ≤ b.length ∧ npos = tend + 8 ∧ rpos ≤ tend ∧ pos < rpos := by
  unfold readTxnHeader at h
  split at h
  · simp at h
  · simp only at h
    repeat' split at h
    all_goals first | (simp at h; done) | skip
    all_goals
      simp only [Hdr.txn.injEq] at h
      obtain ⟨h1, -, -, -, -, -, h7, h8⟩ := h
      omega

theorem readTxnHeader_undone {b : Bytes} {pos : Nat} {ltid : Option Nat} {npos tid : Nat}
    (h : readTxnHeader b pos ltid = .undone npos tid) : pos < npos ∧ npos ≤ b.length := by
  unfold readTxnHeader at h
  split at h
  · simp at h
  · simp only at h
    repeat' split at h
    all_goals first | (simp at h; done) | skip
    all_goals
      simp only [Hdr.undone.injEq] at h
      obtain ⟨h1, -⟩ := h
      omega

/-! ### the main loop -/

/-- the measure argument: from a position inside the file, `file length - pos + 2` units of fuel
    suffice (each iteration ends, or moves strictly forward, or jumps to 0 and ends) -/
theorem recoverLoop_ne_fuel (b : Bytes) :
    ∀ (fuel pos : Nat) (ltid ts : Option Nat) (D : Store),
      ((pos = 0 ∧ 1 ≤ fuel) ∨ (0 < pos ∧ pos ≤ b.length ∧ b.length - pos + 2 ≤ fuel)) →
      recoverLoop b fuel pos ltid ts D ≠ .fuel := by
  intro fuel
  induction fuel with
  | zero => intro pos _ _ _ h; omega
  | succ f ih =>
    intro pos ltid ts D h
    simp only [recoverLoop]
    split
    · simp
    · rename_i hpos
      have hp : 0 < pos ∧ pos ≤ b.length ∧ b.length - pos + 2 ≤ f + 1 := by omega
      split
      · simp
      · -- bad header: scan
        obtain ⟨p, hsc, hp'⟩ := scan_spec b (b.length + 1) pos (by omega)
        rw [hsc]
        exact ih p ltid ts D (by omega)
      · rename_i npos tid hh
        have := readTxnHeader_undone hh
        exact ih npos _ ts D (by omega)
      · rename_i npos tid st u d e rpos tend hh
        have hx := readTxnHeader_txn hh
        have hr := readRecs_ne_fuel b D pos tend (b.length + 1) rpos (by omega)
        split
        · rename_i hf; exact absurd hf hr
        · obtain ⟨p, hsc, hp'⟩ := scan_spec b (b.length + 1) npos (by omega)
          rw [hsc]
          exact ih p _ _ D (by omega)
        · exact ih npos _ _ _ (by omega)

/-- `recover_terminates`: with FUEL := file length + 1 the main loop (and every inner loop) of
    `fsrecover.recover` ends without exhausting it, for EVERY byte image. -/
theorem recover_ne_fuel (b : Bytes) : recover b ≠ .fuel := by
  unfold recover
  split
  · simp
  · rename_i hm
    have hlen : 4 ≤ b.length := by
      have h1 : slice b 0 4 = magic := by simpa using hm
      have h2 := slice_length b 0 4
      rw [h1] at h2
      simp [magic] at h2
      omega
    exact recoverLoop_ne_fuel b _ 4 none none [] (by omega)

theorem recoverLoop_ne_notFS (b : Bytes) :
    ∀ (fuel pos : Nat) (ltid ts : Option Nat) (D : Store), recoverLoop b fuel pos ltid ts D ≠ .notFS := by
  intro fuel
  induction fuel with
  | zero => intro _ _ _ _; simp [recoverLoop]
  | succ f ih =>
    intro pos ltid ts D
    simp only [recoverLoop]
    split
    · simp
    · split
      · simp
      · split
        · simp
        · exact ih _ _ _ _
      · exact ih _ _ _ _
      · split
        · simp
        · split
          · simp
          · exact ih _ _ _ _
        · exact ih _ _ _ _

/-- the output storage only grows: whatever was committed stays, as the oldest part -/
theorem recoverLoop_suffix (b : Bytes) :
    ∀ (fuel pos : Nat) (ltid ts : Option Nat) (D D' : Store),
      recoverLoop b fuel pos ltid ts D = .done D' → ∃ newer, D' = newer ++ D := by
  intro fuel
  induction fuel with
  | zero => intro _ _ _ _ _ h; simp [recoverLoop] at h
  | succ f ih =>
    intro pos ltid ts D D' h
    simp only [recoverLoop] at h
    split at h
    · simp only [Outcome.done.injEq] at h; exact ⟨[], by simp [h]⟩
    · split at h
      · simp only [Outcome.done.injEq] at h; exact ⟨[], by simp [h]⟩
      · split at h
        · simp at h
        · exact ih _ _ _ _ _ h
      · exact ih _ _ _ _ _ h
      · split at h
        · simp at h
        · split at h
          · simp at h
          · exact ih _ _ _ _ _ h
        · obtain ⟨newer, hn⟩ := ih _ _ _ _ _ h
          exact ⟨_, hn.trans (List.append_cons _ _ _)⟩

end Proofs.Recover
