/-
  Helper lemmas for C02 / C15: facts about `stateAt` on a newest-first log, `lookup`, `upd`.
  Core Lean only.
-/
import ZodbModel.Mvcc
namespace Proofs.Mvcc
open ZodbModel.Mvcc

@[simp] theorem upd_same {α : Type} (f : Nat → α) (i : Nat) (x : α) : upd f i x i = x := by
  simp [upd]

theorem upd_other {α : Type} (f : Nat → α) (i j : Nat) (x : α) (h : j ≠ i) : upd f i x j = f j := by
  simp [upd, h]

/-- newest first: tids strictly decrease along the list -/
abbrev Sorted (l : List Txn) : Prop := l.Pairwise (fun a b => b.tid < a.tid)

theorem lookup_none_iff {oid : Nat} {ws : List (Nat × Data)} :
    lookup oid ws = none ↔ oid ∉ oidsOf ws := by
  induction ws with
  | nil => simp [lookup, oidsOf]
  | cons x r ih =>
    obtain ⟨o, d⟩ := x
    simp only [lookup, oidsOf, List.map_cons, List.mem_cons, not_or]
    by_cases h : o = oid
    · simp [h]
    · simp only [h, if_false]
      rw [ih]
      constructor
      · intro h2; exact ⟨fun e => h e.symm, h2⟩
      · intro h2; exact h2.2

theorem lookup_some_mem {oid : Nat} {ws : List (Nat × Data)} {d : Data}
    (h : lookup oid ws = some d) : oid ∈ oidsOf ws := by
  by_cases hm : oid ∈ oidsOf ws
  · exact hm
  · rw [← lookup_none_iff] at hm; rw [hm] at h; cases h

theorem lookup_isSome_of_mem {oid : Nat} {ws : List (Nat × Data)} (h : oid ∈ oidsOf ws) :
    ∃ d, lookup oid ws = some d := by
  cases hl : lookup oid ws with
  | none => rw [lookup_none_iff] at hl; exact absurd h hl
  | some d => exact ⟨d, rfl⟩

/-! ### stateAt -/

theorem stateAt_cons (t : Txn) (l : List Txn) (b : Nat) (oid : Nat) :
    stateAt (t :: l) b oid =
      if t.tid < b then (match lookup oid t.writes with
                         | some d => some (t.tid, d)
                         | none => stateAt l b oid)
      else stateAt l b oid := rfl

/-- a transaction at or above the bound is invisible -/
theorem stateAt_cons_ge {t : Txn} {l : List Txn} {b : Nat} (oid : Nat) (h : b ≤ t.tid) :
    stateAt (t :: l) b oid = stateAt l b oid := by
  rw [stateAt_cons]; simp [Nat.not_lt.mpr h]

/-- a transaction that does not write `oid` is invisible for `oid` -/
theorem stateAt_cons_notin {t : Txn} {l : List Txn} {b : Nat} {oid : Nat} (h : oid ∉ t.oids) :
    stateAt (t :: l) b oid = stateAt l b oid := by
  rw [stateAt_cons]
  have : lookup oid t.writes = none := lookup_none_iff.mpr h
  simp [this]

theorem stateAt_cons_hit {t : Txn} {l : List Txn} {b : Nat} {oid : Nat} {d : Data}
    (h : t.tid < b) (hd : lookup oid t.writes = some d) :
    stateAt (t :: l) b oid = some (t.tid, d) := by
  rw [stateAt_cons]; simp [h, hd]

/-- `stateAt_mono`: appending (newest first: prepending) transactions with tid ≥ b never changes
    the snapshot before `b` -/
theorem stateAt_append_ge {ext l : List Txn} {b : Nat} (oid : Nat) (h : ∀ T ∈ ext, b ≤ T.tid) :
    stateAt (ext ++ l) b oid = stateAt l b oid := by
  induction ext with
  | nil => rfl
  | cons t r ih =>
    rw [List.cons_append, stateAt_cons_ge oid (h t (by simp))]
    exact ih (fun T hT => h T (by simp [hT]))

theorem stateAt_lt {l : List Txn} {b : Nat} {oid : Nat} {ser : Nat} {d : Data}
    (h : stateAt l b oid = some (ser, d)) : ser < b := by
  induction l with
  | nil => simp [stateAt] at h
  | cons t r ih =>
    rw [stateAt_cons] at h
    split at h
    · next hlt =>
      split at h
      · simp at h; omega
      · exact ih h
    · exact ih h

/-- the revision returned is a record of a transaction in the log -/
theorem stateAt_mem {l : List Txn} {b : Nat} {oid : Nat} {ser : Nat} {d : Data}
    (h : stateAt l b oid = some (ser, d)) : ∃ T ∈ l, T.tid = ser ∧ lookup oid T.writes = some d := by
  induction l with
  | nil => simp [stateAt] at h
  | cons t r ih =>
    rw [stateAt_cons] at h
    split at h
    · split at h
      · next d' hd =>
        simp at h; obtain ⟨h1, h2⟩ := h
        exact ⟨t, by simp, h1, by rw [hd, h2]⟩
      · obtain ⟨T, hT, h1⟩ := ih h; exact ⟨T, by simp [hT], h1⟩
    · obtain ⟨T, hT, h1⟩ := ih h; exact ⟨T, by simp [hT], h1⟩

/-- the revision found below `b` is also what one finds just above its own serial -/
theorem stateAt_at_serial {l : List Txn} {b : Nat} {oid : Nat} {ser : Nat} {d : Data}
    (h : stateAt l b oid = some (ser, d)) : stateAt l (ser + 1) oid = some (ser, d) := by
  induction l with
  | nil => simp [stateAt] at h
  | cons t r ih =>
    rw [stateAt_cons] at h
    split at h
    · next hlt =>
      split at h
      · next d' hd =>
        simp at h; obtain ⟨h1, h2⟩ := h
        rw [stateAt_cons_hit (by omega) hd, h1, h2]
      · next hd =>
        have hn : oid ∉ t.oids := lookup_none_iff.mp hd
        rw [stateAt_cons_notin hn]; exact ih h
    · next hge =>
      have := stateAt_lt h
      rw [stateAt_cons_ge oid (by omega)]; exact ih h

/-- in a sorted log, no writer of `oid` lies strictly between the revision found and the bound -/
theorem stateAt_newest {l : List Txn} (hs : Sorted l) {b : Nat} {oid : Nat} {ser : Nat} {d : Data}
    (h : stateAt l b oid = some (ser, d)) :
    ∀ T ∈ l, T.tid < b → oid ∈ T.oids → T.tid ≤ ser := by
  induction l with
  | nil => intro T hT; cases hT
  | cons t r ih =>
    intro T hT hlt hoid
    have hsr : Sorted r := (List.pairwise_cons.mp hs).2
    have hhd := (List.pairwise_cons.mp hs).1
    rw [stateAt_cons] at h
    rcases List.mem_cons.mp hT with rfl | hT'
    · -- T is the head
      simp only [hlt, if_true] at h
      obtain ⟨d', hd'⟩ := lookup_isSome_of_mem hoid
      simp [hd'] at h; omega
    · split at h
      · split at h
        · simp at h; have := hhd T hT'; omega
        · exact ih hsr h T hT' hlt hoid
      · exact ih hsr h T hT' hlt hoid

/-- a cached revision `(ser, d)` is the snapshot before `b` as soon as `ser < b` and nobody wrote
    `oid` in `(ser, b)` -/
theorem stateAt_of_entry {l : List Txn} {b : Nat} {oid : Nat} {ser : Nat} {d : Data}
    (h1 : stateAt l (ser + 1) oid = some (ser, d)) (hlt : ser < b)
    (h2 : ∀ T ∈ l, ser < T.tid → oid ∈ T.oids → b ≤ T.tid) :
    stateAt l b oid = some (ser, d) := by
  induction l with
  | nil => simp [stateAt] at h1
  | cons t r ih =>
    have h2r : ∀ T ∈ r, ser < T.tid → oid ∈ T.oids → b ≤ T.tid :=
      fun T hT => h2 T (by simp [hT])
    rw [stateAt_cons] at h1
    split at h1
    · next hl =>
      split at h1
      · next d' hd =>
        simp at h1; obtain ⟨e1, e2⟩ := h1
        rw [stateAt_cons_hit (by omega) hd, e1, e2]
      · next hd =>
        rw [stateAt_cons_notin (lookup_none_iff.mp hd)]; exact ih h1 h2r
    · next hge =>
      by_cases hm : oid ∈ t.oids
      · have := h2 t (by simp) (by omega) hm
        rw [stateAt_cons_ge oid this]; exact ih h1 h2r
      · rw [stateAt_cons_notin hm]; exact ih h1 h2r

/-! ### headTid -/

theorem le_headTid {l : List Txn} (hs : Sorted l) : ∀ T ∈ l, T.tid ≤ headTid l := by
  intro T hT
  cases l with
  | nil => cases hT
  | cons t r =>
    simp only [headTid]
    rcases List.mem_cons.mp hT with rfl | h
    · exact Nat.le_refl _
    · exact Nat.le_of_lt ((List.pairwise_cons.mp hs).1 T h)

theorem headTid_lt {l : List Txn} {b : Nat} (hb : 0 < b) (h : ∀ T ∈ l, T.tid < b) : headTid l < b := by
  cases l with
  | nil => exact hb
  | cons t r => exact h t (by simp)

theorem headTid_mem {l : List Txn} (h : 0 < headTid l) : ∃ T ∈ l, T.tid = headTid l := by
  cases l with
  | nil => simp [headTid] at h
  | cons t r => exact ⟨t, by simp, rfl⟩

/-! ### dropping the commit lock -/

theorem dropInfl_log (s : Sys) : (dropInfl s).log = s.log := by unfold dropInfl; split <;> rfl
theorem dropInfl_insts (s : Sys) : (dropInfl s).insts = s.insts := by unfold dropInfl; split <;> rfl
theorem dropInfl_hists (s : Sys) : (dropInfl s).hists = s.hists := by unfold dropInfl; split <;> rfl
theorem dropInfl_nh (s : Sys) : (dropInfl s).nh = s.nh := by unfold dropInfl; split <;> rfl
theorem dropInfl_infl (s : Sys) : (dropInfl s).infl = none := by
  unfold dropInfl; split
  · rfl
  · next h => exact h

/-! ### the finish section -/

theorem finishing_some {s : Sys} {f : Infl} :
    finishing s = some f ↔ s.infl = some f ∧ f.phase = .finishing := by
  unfold finishing
  cases hi : s.infl with
  | none => simp
  | some f0 =>
    by_cases hp : f0.phase = .finishing
    · simp only [hp, if_true, Option.some.injEq]
      constructor
      · intro h; subst h; exact ⟨rfl, hp⟩
      · intro h; exact h.1
    · simp only [hp, if_false, Option.some.injEq]
      constructor
      · intro h; cases h
      · intro h; rw [h.1] at hp; exact absurd h.2 hp

theorem finishing_none {s : Sys} :
    finishing s = none ↔ ∀ f, s.infl = some f → f.phase ≠ .finishing := by
  constructor
  · intro h f hf hp
    have := (finishing_some (s := s) (f := f)).mpr ⟨hf, hp⟩
    rw [h] at this; cases this
  · intro h
    cases hfin : finishing s with
    | none => rfl
    | some f => have := finishing_some.mp hfin; exact absurd this.2 (h f this.1)

theorem vlog_cases (s : Sys) :
    (∃ f, s.infl = some f ∧ f.phase = .finishing ∧ vlog s = f.txn :: s.log) ∨
    ((∀ f, s.infl = some f → f.phase ≠ .finishing) ∧ vlog s = s.log) := by
  unfold vlog
  cases hfin : finishing s with
  | none => exact Or.inr ⟨finishing_none.mp hfin, rfl⟩
  | some f => have := finishing_some.mp hfin; exact Or.inl ⟨f, this.1, this.2, rfl⟩

theorem isFinishing_false {s : Sys} :
    isFinishing s = false ↔ ∀ f, s.infl = some f → f.phase ≠ .finishing := by
  unfold isFinishing
  rw [← finishing_none]
  cases finishing s <;> simp

end Proofs.Mvcc
