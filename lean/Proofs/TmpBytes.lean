/-
  Lemmas for the byte level of `Connection.TmpStore` (ZodbModel/TmpBytes.lean).
-/
import ZodbModel.TmpBytes
namespace Proofs.TmpBytes
open ZodbModel ZodbModel.TmpBytes

theorem writeAt_end (f r : Bytes) : writeAt f f.length r = f ++ r := by
  simp [writeAt]

theorem truncate_prefix (g ext : Bytes) : truncate (g ++ ext) g.length = g := by
  simp [truncate]

theorem encEntry_length (e : Entry) :
    (encEntry e).length = 8 + e.oid.length + e.serial.length + 8 + e.data.length := by
  simp [encEntry, be_length]; omega

/-- reading back a record that sits at `pos` -/
theorem load_of_rec (t : T) (oid sr d post : Bytes) (pos : Nat)
    (hl : lookup t.index oid = some pos)
    (hf : t.file.drop pos = encEntry ⟨oid, sr, d⟩ ++ post)
    (hs : sr.length = 8) (ho : oid.length < 2 ^ 64) (hd : d.length < 2 ^ 64) :
    load t oid = .found d sr := by
  unfold load
  simp only [hl, hf, encEntry]
  have e1 : ∀ rest : Bytes, (be 8 oid.length ++ rest).take 8 = be 8 oid.length :=
    fun rest => List.take_left' (be_length 8 _)
  have e2 : ∀ rest : Bytes, (be 8 oid.length ++ rest).drop 8 = rest :=
    fun rest => List.drop_left' (be_length 8 _)
  have hpow : (256 : Nat) ^ 8 = 2 ^ 64 := by decide
  have ho' : oid.length < 256 ^ 8 := by rw [hpow]; exact ho
  have hd' : d.length < 256 ^ 8 := by rw [hpow]; exact hd
  simp only [List.append_assoc, e1, e2, beVal_be 8 _ ho']
  have e3 : ∀ rest : Bytes, (oid ++ rest).take oid.length = oid := fun rest => List.take_left' rfl
  have e4 : ∀ rest : Bytes, (oid ++ rest).drop oid.length = rest := fun rest => List.drop_left' rfl
  simp only [e3, e4]
  have e5 : ∀ rest : Bytes, (sr ++ rest).take 8 = sr := fun rest => List.take_left' hs
  have h16 : (sr ++ be 8 d.length).length = 16 := by simp [hs, be_length]
  have e6 : ∀ rest : Bytes, (sr ++ (be 8 d.length ++ rest)).take 16 = sr ++ be 8 d.length := by
    intro rest; rw [← List.append_assoc]; exact List.take_left' h16
  have e7 : ∀ rest : Bytes, (sr ++ (be 8 d.length ++ rest)).drop 16 = rest := by
    intro rest; rw [← List.append_assoc]; exact List.drop_left' h16
  have e8 : (sr ++ be 8 d.length).drop 8 = be 8 d.length := List.drop_left' hs
  have e9 : ∀ rest : Bytes, (d ++ rest).take d.length = d := fun rest => List.take_left' rfl
  simp only [e5, e6, e7, e8, beVal_be 8 _ hd', e9]
  simp only [List.length_append, be_length, hs, ne_eq, not_true_eq_false, if_false]
  rw [if_neg (by omega), if_neg (by omega)]

/-! ### the invariant -/

/-- the concrete store `t` is the abstract map `m`: same domain, and every bound oid's newest record
    sits, well-formed, at its index position -/
def Rel (t : T) (m : AMap) : Prop :=
  (∀ oid, alookup m oid = none → lookup t.index oid = none) ∧
  (∀ oid d sr, alookup m oid = some (d, sr) →
    ∃ pos post, lookup t.index oid = some pos ∧ pos ≤ t.file.length ∧
      t.file.drop pos = encEntry ⟨oid, sr, d⟩ ++ post ∧
      sr.length = 8 ∧ oid.length < 2 ^ 64 ∧ d.length < 2 ^ 64)

theorem load_of_rel {t : T} {m : AMap} (h : Rel t m) (oid : Bytes) : load t oid = specLoad m oid := by
  unfold specLoad
  cases hm : alookup m oid with
  | none => simp [load, h.1 oid hm]
  | some v =>
    obtain ⟨d, sr⟩ := v
    obtain ⟨pos, post, hl, _, hf, hs, ho, hd⟩ := h.2 oid d sr hm
    simpa using load_of_rec t oid sr d post pos hl hf hs ho hd

theorem rel_store {t : T} {m : AMap} (h : Rel t m) (hp : t.position = t.file.length)
    (o : Bytes) (sr : Option Bytes) (d : Bytes) (hok : OpOk (.store o sr d)) :
    Rel (store t o sr d).1 ((o, (d, (store t o sr d).2)) :: m) ∧
      (store t o sr d).1.position = (store t o sr d).1.file.length ∧
      (store t o sr d).1.file = t.file ++ encEntry ⟨o, sr.getD z64, d⟩ := by
  obtain ⟨hsr, ho, hd⟩ := hok
  have hser : (sr.getD z64).length = 8 := by
    cases sr with
    | none => simp [z64]
    | some s => simpa using hsr s rfl
  have hfile : (store t o sr d).1.file = t.file ++ encEntry ⟨o, sr.getD z64, d⟩ := by
    simp [store, hp, writeAt_end]
  refine ⟨⟨?_, ?_⟩, ?_, hfile⟩
  · intro oid hm
    by_cases hk : o = oid
    · simp [alookup, hk] at hm
    · simp only [alookup, hk, if_false] at hm
      simp [store, lookup, hk, h.1 oid hm]
  · intro oid d' sr' hm
    by_cases hk : o = oid
    · subst hk
      simp only [alookup, if_true, Option.some.injEq, Prod.mk.injEq] at hm
      obtain ⟨rfl, rfl⟩ := hm
      refine ⟨t.position, [], by simp [store, lookup], ?_, ?_, hser, ho, hd⟩
      · rw [hfile, hp]; simp
      · rw [hfile, hp]; simp [store]
    · simp only [alookup, hk, if_false] at hm
      obtain ⟨pos, post, hl, hle, hf, hs, ho', hd'⟩ := h.2 oid d' sr' hm
      refine ⟨pos, post ++ encEntry ⟨o, sr.getD z64, d⟩, by simp [store, lookup, hk, hl], ?_, ?_, hs, ho', hd'⟩
      · rw [hfile]; simp; omega
      · rw [hfile, List.drop_append_of_le_length hle, hf, List.append_assoc]
  · rw [hfile]; simp [store, hp]

/-- every reachable state: the store is its abstract map; every live savepoint's saved store is a prefix
    of the file (in savepoint order) and was itself a good store for its saved map -/
structure Inv (s : St) : Prop where
  pos : s.t.position = s.t.file.length
  rel : Rel s.t s.m
  sp_pos : ∀ (k : Nat) (g : T × AMap), s.sps[k]? = some g → g.1.position = g.1.file.length
  sp_rel : ∀ (k : Nat) (g : T × AMap), s.sps[k]? = some g → Rel g.1 g.2
  sp_pre : ∀ (k : Nat) (g : T × AMap), s.sps[k]? = some g → g.1.file <+: s.t.file
  chain : ∀ (i j : Nat) (a b : T × AMap), i ≤ j → s.sps[i]? = some a → s.sps[j]? = some b →
    a.1.file <+: b.1.file

theorem inv_init : Inv {} := by
  constructor <;> simp [Rel, alookup, lookup]

/-- the heart of it: `reset` with what `Connection.savepoint` kept gives back the saved store itself -/
theorem reset_exact {s : St} (h : Inv s) {k : Nat} {g : T × AMap} (hg : s.sps[k]? = some g) :
    reset s.t g.1.position g.1.index = g.1 := by
  obtain ⟨ext, hext⟩ := h.sp_pre k g hg
  have hp := h.sp_pos k g hg
  simp only [reset, hp, ← hext, truncate_prefix]
  cases hg1 : g.1
  simp [hg1] at hp ⊢
  exact hp.symm

theorem getElem?_append_single {α} (l : List α) (x : α) (k : Nat) (g : α)
    (h : (l ++ [x])[k]? = some g) : l[k]? = some g ∨ (k = l.length ∧ g = x) := by
  by_cases hk : k < l.length
  · left; rwa [List.getElem?_append_left hk] at h
  · right
    rw [List.getElem?_append_right (by omega)] at h
    have : k - l.length = 0 := by
      rcases Nat.eq_zero_or_pos (k - l.length) with h0 | h0
      · exact h0
      · rw [List.getElem?_eq_none (by simp; omega)] at h; cases h
    rw [this] at h
    simp at h
    exact ⟨by omega, h.symm⟩

theorem inv_step {s : St} (h : Inv s) (op : Op) (hok : OpOk op) : Inv (step s op) := by
  cases op with
  | store o sr d =>
    obtain ⟨hrel, hpos, hfile⟩ := rel_store h.rel h.pos o sr d hok
    have hst : step s (.store o sr d) =
        { s with t := (store s.t o sr d).1, m := (o, (d, (store s.t o sr d).2)) :: s.m } := rfl
    rw [hst]
    exact { pos := hpos, rel := hrel, sp_pos := h.sp_pos, sp_rel := h.sp_rel,
            sp_pre := fun k g hg => by
              obtain ⟨ext, hext⟩ := h.sp_pre k g hg
              exact ⟨ext ++ encEntry ⟨o, sr.getD z64, d⟩, by
                show g.1.file ++ _ = (store s.t o sr d).1.file
                rw [hfile, ← hext, List.append_assoc]⟩,
            chain := h.chain }
  | save =>
    have hst : step s .save = { s with sps := s.sps ++ [(s.t, s.m)] } := rfl
    rw [hst]
    refine { pos := h.pos, rel := h.rel, sp_pos := ?_, sp_rel := ?_, sp_pre := ?_, chain := ?_ }
    · intro k g hg
      rcases getElem?_append_single _ _ _ _ hg with hg | ⟨_, rfl⟩
      · exact h.sp_pos k g hg
      · exact h.pos
    · intro k g hg
      rcases getElem?_append_single _ _ _ _ hg with hg | ⟨_, rfl⟩
      · exact h.sp_rel k g hg
      · exact h.rel
    · intro k g hg
      rcases getElem?_append_single _ _ _ _ hg with hg | ⟨_, rfl⟩
      · exact h.sp_pre k g hg
      · exact List.prefix_rfl
    · intro i j a b hij ha hb
      rcases getElem?_append_single _ _ _ _ hb with hb | ⟨hj, rfl⟩
      · rcases getElem?_append_single _ _ _ _ ha with ha | ⟨hi, rfl⟩
        · exact h.chain i j a b hij ha hb
        · have : j < s.sps.length := by
            rcases Nat.lt_or_ge j s.sps.length with h1 | h1
            · exact h1
            · rw [List.getElem?_eq_none h1] at hb; cases hb
          omega
      · rcases getElem?_append_single _ _ _ _ ha with ha | ⟨_, rfl⟩
        · exact h.sp_pre i a ha
        · exact List.prefix_rfl
  | rollback k =>
    cases hg : s.sps[k]? with
    | none =>
      have : step s (.rollback k) = s := by simp [step, hg]
      rw [this]; exact h
    | some g =>
      have hst : step s (.rollback k) =
          { t := reset s.t g.1.position g.1.index, m := g.2, sps := s.sps.take (k + 1) } := by
        simp [step, hg]
      rw [hst, reset_exact h hg]
      have htake : ∀ i x, (s.sps.take (k + 1))[i]? = some x → i ≤ k ∧ s.sps[i]? = some x := by
        intro i x hx
        rw [List.getElem?_take] at hx
        split at hx
        · exact ⟨by omega, hx⟩
        · cases hx
      refine { pos := h.sp_pos k g hg, rel := h.sp_rel k g hg, sp_pos := ?_, sp_rel := ?_,
               sp_pre := ?_, chain := ?_ }
      · intro i x hx; exact h.sp_pos i x (htake i x hx).2
      · intro i x hx; exact h.sp_rel i x (htake i x hx).2
      · intro i x hx
        obtain ⟨hik, hx'⟩ := htake i x hx
        exact h.chain i k x g hik hx' hg
      · intro i j a b hij ha hb
        exact h.chain i j a b hij (htake i a ha).2 (htake j b hb).2

theorem inv_run (ops : List Op) (hok : ∀ op ∈ ops, OpOk op) : Inv (run ops) := by
  unfold run
  suffices ∀ (s : St), Inv s → Inv (ops.foldl step s) from this {} inv_init
  induction ops with
  | nil => intro s hs; exact hs
  | cons op ops ih =>
    intro s hs
    exact ih (fun o ho => hok o (List.mem_cons_of_mem _ ho)) _
      (inv_step hs op (hok op List.mem_cons_self))

end Proofs.TmpBytes

/-! ### entries ↔ bytes: the abstraction `ZodbModel/Conn.lean` uses for the same class (the temporary file
    as a LIST OF ENTRIES, `position` = number of entries, `index` = entry numbers) is sound for the byte
    layout -/
namespace Proofs.TmpBytes
open ZodbModel ZodbModel.TmpBytes

/-- the bytes of a temporary file holding the entries `es` -/
def encAll (es : List Entry) : Bytes := es.flatMap encEntry

/-- byte offset of entry number `p` -/
def offset (es : List Entry) (p : Nat) : Nat := (encAll (es.take p)).length

theorem encAll_append (a b : List Entry) : encAll (a ++ b) = encAll a ++ encAll b := by
  simp [encAll, List.flatMap_append]

theorem encAll_split (es : List Entry) (p : Nat) : encAll es = encAll (es.take p) ++ encAll (es.drop p) := by
  rw [← encAll_append, List.take_append_drop]

theorem drop_offset (es : List Entry) (p : Nat) : (encAll es).drop (offset es p) = encAll (es.drop p) := by
  rw [encAll_split es p]
  exact List.drop_left' rfl

theorem take_offset (es : List Entry) (p : Nat) : (encAll es).take (offset es p) = encAll (es.take p) := by
  rw [encAll_split es p]
  exact List.take_left' rfl

theorem offset_le (es : List Entry) (p : Nat) : offset es p ≤ (encAll es).length := by
  rw [encAll_split es p]; simp [offset]

theorem offset_length (es : List Entry) : offset es es.length = (encAll es).length := by
  simp [offset]

theorem drop_offset_entry (es : List Entry) (p : Nat) (e : Entry) (h : es[p]? = some e) :
    (encAll es).drop (offset es p) = encEntry e ++ encAll (es.drop (p + 1)) := by
  rw [drop_offset]
  have hp : p < es.length := by
    rcases Nat.lt_or_ge p es.length with h1 | h1
    · exact h1
    · rw [List.getElem?_eq_none h1] at h; cases h
  have he : es[p] = e := by
    rw [List.getElem?_eq_getElem hp] at h; exact Option.some.inj h
  rw [List.drop_eq_getElem_cons hp, he]
  simp [encAll]

end Proofs.TmpBytes
