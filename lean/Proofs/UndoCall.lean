/-
  Helper lemmas for C06, part 4: one `storage.undo(tid)` call on a well-formed log, in
  specification terms (`verdictFor`), for an arbitrary set `S` of records already staged by earlier
  undo calls of the same transaction.  Core Lean only.
-/
import Proofs.UndoLoop
namespace Proofs.Undo
open ZodbModel ZodbModel.Undo

/-- `loadSerial` walks through the records of newer transactions -/
theorem loadSerial_newer (s oid : Nat) (newer rest : Log) (hInv : Inv (newer ++ rest))
    (hn : ∀ t ∈ newer, s < t.tid) (hnp : ∀ t ∈ newer, t.packed = false) :
    loadSerial (flat (newer ++ rest)) oid s = loadSerial (flat rest) oid s := by
  induction newer with
  | nil => rfl
  | cons t newer ih =>
    have ih := ih hInv.2.2.2 (fun x hx => hn x (List.mem_cons_of_mem _ hx))
      (fun x hx => hnp x (List.mem_cons_of_mem _ hx))
    rw [← ih]
    simp only [List.cons_append, flat]
    unfold loadSerial
    apply chaseSerial_newer
    intro n hn' ho
    have := hInv.1 n hn'
    refine ⟨?_, ?_⟩
    · rw [this.1]; exact hn t List.mem_cons_self
    · rw [← ho]; exact this.2.1 (hnp t List.mem_cons_self)

theorem flat_cons (T : Txn) (older : Log) : flat (T :: older) = T.recs ++ flat older := rfl

theorem flat_split (newer : Log) (T : Txn) (older : Log) :
    flat (newer ++ T :: older) = flat newer ++ (T.recs ++ flat older) := by
  rw [flat_append, flat_cons]

/-- facts about the newest record `r` of `oid` in transaction `T` of a well-formed log -/
theorem newest_ctx {newer : Log} {T : Txn} {older : Log} (hInv : Inv (newer ++ T :: older))
    (hp : T.packed = false) {oid : Nat} {r : Rec} {k : Nat} (h : newestFor oid T.recs = some (r, k)) :
    r ∈ T.recs ∧ r.oid = oid ∧ r.tid = T.tid ∧ r.prev = lastPos oid (flat older) ∧
    lastPos oid (flat (T :: older)) = (flat older).length + k + 1 ∧
    dataAt (flat (newer ++ T :: older)) ((flat older).length + k + 1) = dataOf (flat (T :: older)) oid ∧
    dataAt (flat (newer ++ T :: older)) r.prev = dataOf (flat older) oid ∧
    loadSerial (flat (newer ++ T :: older)) oid r.tid
      = dataAt (flat (newer ++ T :: older)) ((flat older).length + k + 1) := by
  obtain ⟨hr, ho, hl, hat⟩ := newestFor_some h (flat older)
  have hrec := (Inv_suffix hInv).1 r hr
  have hle := (recAt_le_length hat).2
  have hprev : r.prev = lastPos oid (flat older) := by rw [← ho]; exact hrec.2.1 hp
  have hd1 : dataAt (flat (newer ++ T :: older)) ((flat older).length + k + 1)
      = dataOf (flat (T :: older)) oid := by
    rw [flat_split, dataAt, loadBack_append_le _ _ _ hle, dataOf_eq, flat_cons, hl]
  refine ⟨hr, ho, hrec.1, hprev, hl, hd1, ?_, ?_⟩
  · have : flat (newer ++ T :: older) = (flat newer ++ T.recs) ++ flat older := by
      rw [flat_split, List.append_assoc]
    rw [this, dataAt, hprev, loadBack_append_le _ _ _ (lastPos_le oid (flat older)), dataOf_eq]
  · rw [hrec.1, loadSerial_newer T.tid oid newer (T :: older) hInv (Inv_newer_tid hInv)
      (Inv_newer_unpacked hInv hp)]
    unfold loadSerial
    rw [flat_cons, hl, chaseSerial_hit hat hrec.1, flat_split, dataAt, dataAt,
      loadBack_append_le _ _ _ hle]

theorem staged_back_le {utid : Nat} {F S : List Rec} (hS : StagedOK utid F S) :
    ∀ s ∈ S, ∀ b, s.pl = .back b → b ≤ F.length := by
  intro s hs b hb
  have := (hS s hs).2.2
  rw [hb] at this
  exact this

/-- `_transactionalUndoRecord` on the newest record of `oid` in `T` = the property's verdict -/
theorem undoRecord_ctx (resolve : Resolver) {newer : Log} {T : Txn} {older : Log}
    (hInv : Inv (newer ++ T :: older)) (hp : T.packed = false) {utid : Nat} {S : List Rec}
    (hS : StagedOK utid (flat (newer ++ T :: older)) S)
    {oid : Nat} {r : Rec} {k : Nat} (h : newestFor oid T.recs = some (r, k)) :
    undoRecord resolve S (flat (newer ++ T :: older)) r ((flat older).length + k + 1)
      = verdictPayload r (verdictFor resolve (S ++ flat (newer ++ T :: older)) T older oid) := by
  obtain ⟨_, ho, _, _, hl, hd1, hd2, hd3⟩ := newest_ctx hInv hp h
  rw [undoRecord_eq_spec resolve S _ r _ (staged_back_le hS) (Inv_BackOK hInv) (by rw [ho]; exact hd3)]
  unfold verdictFor
  rw [ho, hd1, hd2, hl]

theorem verdictPayload_eq_none {r : Rec} {v : Verdict} : verdictPayload r v = none ↔ v = .refuse := by
  cases v <;> simp [verdictPayload]

/-- which oids fail in one undo call: exactly those of `T` whose verdict is `refuse` -/
theorem undoLoop_fail_iff (resolve : Resolver) {newer : Log} {T : Txn} {older : Log}
    (hInv : Inv (newer ++ T :: older)) (hp : T.packed = false) {utid : Nat} {S : List Rec}
    (hS : StagedOK utid (flat (newer ++ T :: older)) S) (oid : Nat) :
    oid ∈ (undoLoop resolve S (flat (newer ++ T :: older)) utid (flat older).length T.recs).2 ↔
      (oid ∈ T.oids ∧
        verdictFor resolve (S ++ flat (newer ++ T :: older)) T older oid = .refuse) := by
  cases hn : newestFor oid T.recs with
  | none =>
    have hno := (newestFor_none_iff oid T.recs).1 hn
    have := (undoLoop_not_mem resolve S (flat (newer ++ T :: older)) utid (flat older).length oid
      T.recs hno).1
    constructor
    · exact fun hm => absurd hm this
    · rintro ⟨hm, _⟩
      obtain ⟨x, hx, hxo⟩ := List.mem_map.1 hm
      exact absurd hxo (hno x hx)
  | some x =>
    obtain ⟨r, k⟩ := x
    have hspec := (undoLoop_spec resolve S (flat (newer ++ T :: older)) utid (flat older).length oid
      T.recs r k hn).1
    rw [hspec, undoRecord_ctx resolve hInv hp hS hn, verdictPayload_eq_none]
    have hr := newestFor_some hn []
    constructor
    · exact fun hv => ⟨List.mem_map.2 ⟨r, hr.1, hr.2.1⟩, hv⟩
    · exact fun hv => hv.2

/-- the records one undo call stages are well formed -/
theorem undoLoop_staged (resolve : Resolver) {newer : Log} {T : Txn} {older : Log}
    (hInv : Inv (newer ++ T :: older)) (hp : T.packed = false) (utid : Nat) (S : List Rec) :
    StagedOK utid (flat (newer ++ T :: older))
      (undoLoop resolve S (flat (newer ++ T :: older)) utid (flat older).length T.recs).1 := by
  intro x hx
  obtain ⟨h1, h2, r, hr, pos, _, hu⟩ := undoLoop_mem resolve S _ utid _ T.recs x hx
  refine ⟨h1, fun _ => h2, ?_⟩
  have hrec := (Inv_suffix hInv).1 r hr
  have hlen : (flat older).length ≤ (flat (newer ++ T :: older)).length := by
    rw [flat_split]; simp only [List.length_append]; omega
  rcases undoRecord_payload resolve S _ r pos x.pl hu with hq | hq | ⟨m, hm, hq⟩
  · rw [hq]; show r.prev ≤ _
    rw [hrec.2.1 hp]; have := lastPos_le r.oid (flat older); omega
  · rw [hq]; show 0 ≤ _; omega
  · rw [hq]; exact hm

/-- reading the current data of an oid whose newest record in the view is `x` -/
theorem dataOf_find {A F : List Rec} (hA : ∀ a ∈ A, ∀ b, a.pl = .back b → b ≤ F.length)
    (hF : BackOK F) {oid : Nat} {x : Rec} (hx : A.find? (fun r => r.oid = oid) = some x) :
    dataOf (A ++ F) oid = match x.pl with
                          | .data m => some m
                          | .back b => dataAt F b := by
  have hc : recAt (A ++ F) (lastPos oid (A ++ F)) = some x := by
    rw [recAt_lastPos, List.find?_append, hx]; rfl
  exact dataOf_view hA hF oid hc

theorem load_find {A F : List Rec} {oid : Nat} {x : Rec}
    (hx : A.find? (fun r => r.oid = oid) = some x) : (load (A ++ F) oid).map (·.2) =
      (load (A ++ F) oid).map (fun _ => x.tid) := by
  induction A with
  | nil => simp at hx
  | cons a A ih =>
    simp only [List.find?_cons] at hx
    by_cases ho : a.oid = oid
    · simp only [ho, decide_true, Option.some.injEq] at hx; subst hx
      simp only [load, List.cons_append, lastPos, if_pos ho, loadAt, if_true]
      cases recData (A ++ F) a <;> simp
    · simp only [ho, decide_false] at hx
      have ih := ih hx
      have hle := lastPos_le oid (A ++ F)
      simp only [load, List.cons_append, lastPos, if_neg ho, loadAt] at ih ⊢
      rw [if_neg (by omega)]
      exact ih

/-- the state of an object of `T` after one successful undo call: what `verdictFor` says -/
theorem undoLoop_data (resolve : Resolver) {newer : Log} {T : Txn} {older : Log}
    (hInv : Inv (newer ++ T :: older)) (hp : T.packed = false) {utid : Nat} {S : List Rec}
    (hS : StagedOK utid (flat (newer ++ T :: older)) S) {oid : Nat} (ho : oid ∈ T.oids) :
    let F := flat (newer ++ T :: older)
    let N := (undoLoop resolve S F utid (flat older).length T.recs).1
    match verdictFor resolve (S ++ F) T older oid with
    | .refuse => True
    | .restore => dataOf (N ++ S ++ F) oid = dataOf (flat older) oid
    | .merge m => m ≠ [] → dataOf (N ++ S ++ F) oid = some m := by
  intro F N
  obtain ⟨r, k, hn⟩ := newestFor_isSome_of_mem ho
  have hctx := newest_ctx hInv hp hn
  have hrec := undoRecord_ctx resolve hInv hp hS hn
  have hfind := (undoLoop_spec resolve S F utid (flat older).length oid T.recs r k hn).2
  have hN := undoLoop_staged resolve hInv hp utid S
  have hNS : StagedOK utid F (N ++ S) := by
    intro x hx
    rcases List.mem_append.1 hx with hx | hx
    · exact hN x hx
    · exact hS x hx
  have hdata : ∀ pl, verdictPayload r (verdictFor resolve (S ++ F) T older oid) = some pl →
      dataOf (N ++ S ++ F) oid = match pl with
                                  | .data m => some m
                                  | .back b => dataAt F b := by
    intro pl hpl
    have hf := hfind pl (by rw [hrec]; exact hpl)
    have hf' : (N ++ S).find? (fun r => r.oid = oid)
        = some { oid := oid, tid := utid, prev := lastPos oid F, pl := pl } := by
      rw [List.find?_append, hf]; rfl
    exact dataOf_find (staged_back_le hNS) (Inv_BackOK hInv) hf'
  cases hv : verdictFor resolve (S ++ F) T older oid with
  | refuse => exact True.intro
  | restore =>
    rw [hv] at hdata
    have := hdata _ rfl
    simp only at this
    rw [this, hctx.2.2.2.2.2.2.1]
  | merge m =>
    rw [hv] at hdata
    intro hm
    have := hdata _ rfl
    simp only [hm, if_false] at this
    exact this

end Proofs.Undo
