/-
  Helper lemmas for C17, recovery part: the byte layout.  `At F p bs` says that the bytes `bs`
  occur in the image `F` at offset `p`; from the occurrence of an encoded transaction / record the
  fields that `read_txn_header`, `TransactionRecordIterator` and `_loadBack_impl` read are derived.
  Core Lean only.
-/
import Proofs.RecoverTerm
namespace Proofs.Recover
open ZodbModel ZodbModel.Copy ZodbModel.Recover

/-- the bytes `bs` occur in `F` at offset `p` -/
def At (F : Bytes) (p : Nat) (bs : Bytes) : Prop :=
  ∃ pre post, F = pre ++ bs ++ post ∧ pre.length = p

theorem At.slice_eq {F : Bytes} {p : Nat} {bs : Bytes} (h : At F p bs) : slice F p bs.length = bs := by
  obtain ⟨pre, post, rfl, rfl⟩ := h
  simp [ZodbModel.Recover.slice, List.append_assoc]

theorem At.len {F : Bytes} {p : Nat} {bs : Bytes} (h : At F p bs) : p + bs.length ≤ F.length := by
  obtain ⟨pre, post, rfl, rfl⟩ := h
  simp only [List.length_append]; omega

theorem At.app {F : Bytes} {p : Nat} {x y : Bytes} (h : At F p (x ++ y)) :
    At F p x ∧ At F (p + x.length) y := by
  obtain ⟨pre, post, rfl, rfl⟩ := h
  exact ⟨⟨pre, y ++ post, by simp [List.append_assoc], rfl⟩,
         ⟨pre ++ x, post, by simp [List.append_assoc], by simp⟩⟩

theorem At.right {F : Bytes} {p : Nat} {bs : Bytes} (h : At F p bs) (g : Bytes) : At (F ++ g) p bs := by
  obtain ⟨pre, post, rfl, rfl⟩ := h
  exact ⟨pre, post ++ g, by simp [List.append_assoc], rfl⟩

theorem At.trans {F X Y : Bytes} {p q : Nat} (h1 : At F p X) (h2 : At X q Y) : At F (p + q) Y := by
  obtain ⟨pre, post, rfl, rfl⟩ := h1
  obtain ⟨pre', post', rfl, rfl⟩ := h2
  exact ⟨pre ++ pre', post' ++ post, by simp [List.append_assoc], by simp⟩

theorem At.self (X : Bytes) : At X 0 X := ⟨[], [], by simp, rfl⟩

theorem At.mid (a b c : Bytes) : At (a ++ b ++ c) a.length b := ⟨a, c, rfl, rfl⟩

/-- an `n`-byte big-endian field -/
theorem At.num_eq {F : Bytes} {p n v : Nat} (h : At F p (be n v)) (hv : v < 256 ^ n) : num F p n = v := by
  have := h.slice_eq
  rw [be_length] at this
  rw [ZodbModel.Recover.num, this, beVal_be n v hv]

theorem At.byte_eq {F : Bytes} {p x : Nat} (h : At F p [x]) : num F p 1 = x := by
  have := h.slice_eq
  simp only [List.length_cons, List.length_nil, Nat.zero_add] at this
  rw [ZodbModel.Recover.num, this]
  simp [beVal]

/-! ### lengths of the encodings -/

theorem encBody_length (older : Store) (r : Rec) : (encBody older r.body).length + 34 = recLen r := by
  unfold encBody recLen
  cases r.body <;> simp [be_length] <;> omega

theorem encRec_length (older : Store) (tpos : Nat) (r : Rec) :
    (encRec older tpos r).length = recLen r := by
  have := encBody_length older r
  simp only [encRec, List.length_append, be_length]
  omega

theorem encRecs_length (older : Store) (tpos : Nat) (rs : List Rec) :
    (encRecs older tpos rs).length = recsLen rs := by
  induction rs with
  | nil => rfl
  | cons r rs ih => simp [encRecs, recsLen, encRec_length, ih]

theorem encTxn_length (older : Store) (t : Txn) : (encTxn older t).length = tlen t + 8 := by
  simp only [encTxn, List.length_append, be_length, encRecs_length, List.length_cons,
    List.length_nil, tlen, hdrLen]

theorem encStore_length (S : Store) : (encStore S).length = storeSize S := by
  induction S with
  | nil => rfl
  | cons t older ih => simp [encStore, storeSize, encTxn_length, ih]

theorem recLen_ge (r : Rec) : 42 ≤ recLen r := by unfold recLen; omega

theorem storeSize_ge (S : Store) : 4 ≤ storeSize S := by
  induction S with
  | nil => simp [storeSize]
  | cons t older ih => simp only [storeSize]; omega

theorem recsLen_take_le (rs : List Rec) (i : Nat) : recsLen (rs.take i) ≤ recsLen rs := by
  induction rs generalizing i with
  | nil => simp [recsLen]
  | cons r rs ih =>
    cases i with
    | zero => simp [recsLen]
    | succ j => simp only [List.take_succ_cons, recsLen]; have := ih j; omega

theorem recsLen_take_get (rs : List Rec) (i : Nat) (hi : i < rs.length) :
    recsLen (rs.take i) + recLen rs[i] ≤ recsLen rs := by
  induction rs generalizing i with
  | nil => simp at hi
  | cons r rs ih =>
    cases i with
    | zero => simp [recsLen]
    | succ j =>
      simp only [List.take_succ_cons, recsLen, List.getElem_cons_succ]
      have := ih j (by simpa using hi); omega

/-! ### well-formedness needed by the encoding -/

/-- the fields of a record fit their widths; a pickle is non-empty (plen = 0 means "back pointer")
    and below the pinned allocation limit -/
def RecEnc (r : Rec) : Prop :=
  r.oid < 2 ^ 64 ∧ r.serial < 2 ^ 64 ∧
    (match r.body with | .full d => d ≠ [] ∧ d.length < hugeRead | _ => True)

def TxnEnc (t : Txn) : Prop :=
  t.tid < 2 ^ 64 ∧ (t.status = 32 ∨ t.status = 112) ∧ t.user.length < 2 ^ 16 ∧
    t.desc.length < 2 ^ 16 ∧ t.ext.length < 2 ^ 16 ∧ ∀ r ∈ t.recs, RecEnc r

/-- every offset of the image fits 8 bytes and every transaction is encodable -/
def StoreEnc (S : Store) : Prop := storeSize S < 2 ^ 64 ∧ ∀ t ∈ S, TxnEnc t

theorem recOff_le (S : Store) (l i : Nat) : recOff S l i ≤ storeSize S := by
  induction S with
  | nil => simp [recOff]
  | cons t older ih =>
    simp only [recOff, storeSize]
    split
    · have := recsLen_take_le t.recs i
      simp only [tlen]; omega
    · omega

/-! ### the fields of an encoded record -/

theorem encRec_fields {F : Bytes} {q : Nat} {older : Store} {tpos : Nat} {r : Rec}
    (h : At F q (encRec older tpos r)) (ho : r.oid < 2 ^ 64) (hs : r.serial < 2 ^ 64)
    (ht : tpos < 2 ^ 64) :
    num F q 8 = r.oid ∧ num F (q + 8) 8 = r.serial ∧ num F (q + 24) 8 = tpos ∧
      num F (q + 32) 2 = 0 ∧ At F (q + 34) (encBody older r.body) ∧ q + recLen r ≤ F.length := by
  have hl := h.len
  rw [encRec_length] at hl
  unfold encRec at h
  obtain ⟨h, hbody⟩ := h.app
  obtain ⟨h, hvlen⟩ := h.app
  obtain ⟨h, htloc⟩ := h.app
  obtain ⟨h, hprev⟩ := h.app
  obtain ⟨hoid, hser⟩ := h.app
  simp only [List.length_append, be_length] at hbody hvlen htloc hprev hser
  refine ⟨hoid.num_eq (by simpa using ho), hser.num_eq (by simpa using hs), ?_, ?_, ?_, hl⟩
  · exact (show q + 24 = q + (8 + 8 + 8) by omega) ▸ htloc.num_eq (by simpa using ht)
  · exact (show q + 32 = q + (8 + 8 + 8 + 8) by omega) ▸ hvlen.num_eq (by simp)
  · exact (show q + 34 = q + (8 + 8 + 8 + 8 + 2) by omega) ▸ hbody

theorem encBody_full {F : Bytes} {q : Nat} {older : Store} {d : Bytes}
    (h : At F q (encBody older (.full d))) (hd : d.length < 2 ^ 64) :
    num F q 8 = d.length ∧ slice F (q + 8) d.length = d := by
  unfold encBody at h
  obtain ⟨h1, h2⟩ := h.app
  rw [be_length] at h2
  exact ⟨h1.num_eq (by simpa using hd), h2.slice_eq⟩

theorem encBody_back {F : Bytes} {q : Nat} {older : Store} {l i : Nat}
    (h : At F q (encBody older (.back l i))) (ho : recOff older l i < 2 ^ 64) :
    num F q 8 = 0 ∧ num F (q + 8) 8 = recOff older l i := by
  unfold encBody at h
  obtain ⟨h1, h2⟩ := h.app
  rw [be_length] at h2
  exact ⟨h1.num_eq (by simp), h2.num_eq (by simpa using ho)⟩

theorem encBody_uncreate {F : Bytes} {q : Nat} {older : Store}
    (h : At F q (encBody older .uncreate)) : num F q 8 = 0 ∧ num F (q + 8) 8 = 0 := by
  unfold encBody at h
  obtain ⟨h1, h2⟩ := h.app
  rw [be_length] at h2
  exact ⟨h1.num_eq (by simp), h2.num_eq (by simp)⟩

/-! ### the fields of an encoded transaction -/

theorem encTxn_fields {F : Bytes} {p : Nat} {older : Store} {t : Txn}
    (h : At F p (encTxn older t)) (ht : TxnEnc t) (hl : tlen t < 2 ^ 64) :
    num F p 8 = t.tid ∧ slice F (p + 8) 8 = be 8 (tlen t) ∧ num F (p + 16) 1 = t.status ∧
      num F (p + 17) 2 = t.user.length ∧ num F (p + 19) 2 = t.desc.length ∧
      num F (p + 21) 2 = t.ext.length ∧ slice F (p + 23) t.user.length = t.user ∧
      slice F (p + 23 + t.user.length) t.desc.length = t.desc ∧
      slice F (p + 23 + t.user.length + t.desc.length) t.ext.length = t.ext ∧
      At F (p + hdrLen t) (encRecs older (storeSize older) t.recs) ∧
      slice F (p + tlen t) 8 = be 8 (tlen t) ∧ p + tlen t + 8 ≤ F.length := by
  have hlen := h.len
  rw [encTxn_length] at hlen
  obtain ⟨htid, hst, hu, hd, he, -⟩ := ht
  unfold encTxn at h
  obtain ⟨h, h11⟩ := h.app
  obtain ⟨h, h10⟩ := h.app
  obtain ⟨h, h9⟩ := h.app
  obtain ⟨h, h8⟩ := h.app
  obtain ⟨h, h7⟩ := h.app
  obtain ⟨h, h6⟩ := h.app
  obtain ⟨h, h5⟩ := h.app
  obtain ⟨h, h4⟩ := h.app
  obtain ⟨h, h3⟩ := h.app
  obtain ⟨h1, h2⟩ := h.app
  simp only [List.length_append, be_length, List.length_cons, List.length_nil, encRecs_length]
    at h2 h3 h4 h5 h6 h7 h8 h9 h10 h11
  have e2 := h2.slice_eq; rw [be_length] at e2
  have e11 := h11.slice_eq; rw [be_length] at e11
  refine ⟨h1.num_eq (by simpa using htid), e2, ?_, ?_, ?_, ?_, ?_, ?_, ?_, ?_, ?_, by omega⟩
  · exact (show p + 16 = p + (8 + 8) by omega) ▸ h3.byte_eq
  · exact (show p + 17 = p + (8 + 8 + (0 + 1)) by omega) ▸ h4.num_eq (by simpa using hu)
  · exact (show p + 19 = p + (8 + 8 + (0 + 1) + 2) by omega) ▸ h5.num_eq (by simpa using hd)
  · exact (show p + 21 = p + (8 + 8 + (0 + 1) + 2 + 2) by omega) ▸ h6.num_eq (by simpa using he)
  · exact (show p + 23 = p + (8 + 8 + (0 + 1) + 2 + 2 + 2) by omega) ▸ h7.slice_eq
  · exact (show p + 23 + t.user.length = p + (8 + 8 + (0 + 1) + 2 + 2 + 2 + t.user.length) by omega) ▸
      h8.slice_eq
  · exact (show p + 23 + t.user.length + t.desc.length =
      p + (8 + 8 + (0 + 1) + 2 + 2 + 2 + t.user.length + t.desc.length) by omega) ▸ h9.slice_eq
  · exact (show p + hdrLen t =
      p + (8 + 8 + (0 + 1) + 2 + 2 + 2 + t.user.length + t.desc.length + t.ext.length) by
        simp only [hdrLen]) ▸ h10
  · exact (show p + tlen t = p + (8 + 8 + (0 + 1) + 2 + 2 + 2 + t.user.length + t.desc.length +
      t.ext.length + recsLen t.recs) by simp only [tlen, hdrLen]) ▸ e11

end Proofs.Recover
