/-
  Historical instances (C15) and the trace form of freshness (C02).
-/
import Proofs.MvccStable
namespace Proofs.Mvcc
open ZodbModel.Mvcc

/-- finite executions -/
inductive Steps : Sys → List Act → Sys → Prop
  | nil (s : Sys) : Steps s [] s
  | cons {s s' s'' : Sys} (a : Act) (as : List Act) : step s a = .ok s' → Steps s' as s'' →
      Steps s (a :: as) s''

theorem steps_reachable {s s' : Sys} {as : List Act} (hr : Reachable s) (h : Steps s as s') :
    Reachable s' := by
  induction h with
  | nil => exact hr
  | cons a _ hs _ ih => exact ih (Reachable.step a hr hs)

theorem steps_log_mono {s s' : Sys} {as : List Act} (h : Steps s as s') :
    ∀ T ∈ s.log, T ∈ s'.log := by
  induction h with
  | nil => exact fun T hT => hT
  | cons a _ hs _ ih =>
    intro T hT
    apply ih
    rcases log_grows a hs with e | ⟨T', e⟩
    · rw [e]; exact hT
    · rw [e]; exact List.mem_cons_of_mem _ hT

/-- a `pollApply` that follows a `pollRead` (whatever happens in between) puts the bound above
    every transaction published before that `pollRead` -/
theorem snapshot_fresh_trace {s0 s1 s2 s3 : Sys} {i : Nat} {as : List Act} (hr : Reachable s0)
    (h1 : step s0 (.pollRead i) = .ok s1) (h2 : Steps s1 as s2)
    (h3 : step s2 (.pollApply i) = .ok s3) :
    ∀ T ∈ s0.log, T.tid < (s3.insts i).start := by
  intro T hT
  have hr2 : Reachable s2 := steps_reachable (Reachable.step _ hr h1) h2
  have hlog1 : s1.log = s0.log := by obtain ⟨_, _, _, rfl⟩ := pollRead_ok h1; rfl
  have hT2 : T ∈ s2.log := steps_log_mono h2 T (by rw [hlog1]; exact hT)
  exact (snapshot_fresh hr2 h3).2 T hT2

/-! ### C15 -/

theorem historical_fixed {s : Sys} (hr : Reachable s) {h : Nat} (hh : h < s.nh) :
    (∀ oid, stateAt s.log (s.hists h).before oid = stateAt (s.hists h).log0 (s.hists h).before oid) ∧
    (∀ oid, hreadCommitted s h oid = stateAt (s.hists h).log0 (s.hists h).before oid) := by
  have v := (mvcc_inv hr).hist h hh
  obtain ⟨ext, hx, hge⟩ := v.h1
  have e1 : ∀ oid, stateAt s.log (s.hists h).before oid
      = stateAt (s.hists h).log0 (s.hists h).before oid := by
    intro oid; rw [hx]; exact stateAt_append_ge oid hge
  refine ⟨e1, fun oid => ?_⟩
  unfold hreadCommitted
  cases hc : (s.hists h).cache oid with
  | some e => exact (v.h3 oid e hc).symm
  | none => exact e1 oid

/-- bound and reference log of an existing historical instance never change -/
theorem hist_const {s s' : Sys} (a : Act) (h : step s a = .ok s') {k : Nat} (hk : k < s.nh) :
    (s'.hists k).before = (s.hists k).before ∧ (s'.hists k).log0 = (s.hists k).log0 := by
  cases a with
  | newInstance => have := newInstance_ok h; subst this; exact ⟨rfl, rfl⟩
  | reopen i => obtain ⟨_, _, rfl⟩ := reopen_ok h; exact ⟨rfl, rfl⟩
  | close i => obtain ⟨_, rfl⟩ := close_ok h; exact ⟨rfl, rfl⟩
  | pollRead i => obtain ⟨_, _, _, rfl⟩ := pollRead_ok h; exact ⟨rfl, rfl⟩
  | pollApply i => obtain ⟨L, _, _, _, rfl⟩ := pollApply_ok h; exact ⟨rfl, rfl⟩
  | read i oid =>
    obtain ⟨_, hc⟩ := read_ok h
    rcases hc with rfl | ⟨_, _, _, _, _, _, rfl⟩ <;> exact ⟨rfl, rfl⟩
  | write i oid d => obtain ⟨_, rfl⟩ := write_ok h; exact ⟨rfl, rfl⟩
  | invalidateCache i => obtain ⟨_, rfl⟩ := invalidateCache_ok h; exact ⟨rfl, rfl⟩
  | abort i =>
    obtain ⟨_, _, rfl⟩ := abort_ok h
    dsimp only
    split
    · rw [dropInfl_hists]; exact ⟨rfl, rfl⟩
    · exact ⟨rfl, rfl⟩
  | begin c t => obtain ⟨_, _, rfl⟩ := begin_ok h; exact ⟨rfl, rfl⟩
  | store ws => obtain ⟨f, ws', _, _, rfl⟩ := store_ok h; exact ⟨rfl, rfl⟩
  | vote => obtain ⟨f, _, _, rfl⟩ := vote_ok h; exact ⟨rfl, rfl⟩
  | extAbort => obtain ⟨f, _, _, rfl⟩ := extAbort_ok h; exact ⟨rfl, rfl⟩
  | finishEnter => obtain ⟨f, _, _, rfl⟩ := finishEnter_ok h; exact ⟨rfl, rfl⟩
  | deliver j => obtain ⟨f, _, _, _, _, _, rfl⟩ := deliver_ok h; exact ⟨rfl, rfl⟩
  | publish =>
    obtain ⟨f, _, _, _, rfl⟩ := publish_ok h
    cases f.who with
    | none => exact ⟨rfl, rfl⟩
    | some j => exact ⟨rfl, rfl⟩
  | openHist a b =>
    obtain ⟨_, _, _, _, rfl⟩ := openHist_ok h
    show (upd s.hists s.nh _ k).before = _ ∧ (upd s.hists s.nh _ k).log0 = _
    rw [upd_other _ _ _ _ (by omega)]; exact ⟨rfl, rfl⟩
  | hread hh oid =>
    obtain ⟨_, hc⟩ := hread_ok h
    rcases hc with rfl | ⟨_, _, _, _, rfl⟩
    · exact ⟨rfl, rfl⟩
    · show (upd s.hists hh _ k).before = _ ∧ (upd s.hists hh _ k).log0 = _
      by_cases e : k = hh
      · subst e; rw [upd_same]; exact ⟨rfl, rfl⟩
      · rw [upd_other _ _ _ _ e]; exact ⟨rfl, rfl⟩
  | hpoll hh => have := hpoll_ok h; subst this; exact ⟨rfl, rfl⟩
  | hcommit hh => exact absurd h hcommit_not_ok
  | hstore hh => exact absurd h hstore_not_ok
  | hnewOid hh => exact absurd h hnewOid_not_ok

theorem hist_const_steps {s s' : Sys} {as : List Act} (h : Steps s as s') {k : Nat} (hk : k < s.nh) :
    k < s'.nh ∧ (s'.hists k).before = (s.hists k).before ∧ (s'.hists k).log0 = (s.hists k).log0 := by
  induction h with
  | nil => exact ⟨hk, rfl, rfl⟩
  | @cons s s1 s2 a _ hs _ ih =>
    have hc := hist_const a hs hk
    have hk1 : k < s1.nh := by
      cases a with
      | openHist a b => obtain ⟨_, _, _, _, rfl⟩ := openHist_ok hs; show k < s.nh + 1; omega
      | newInstance => have := newInstance_ok hs; subst this; exact hk
      | reopen i => obtain ⟨_, _, rfl⟩ := reopen_ok hs; exact hk
      | close i => obtain ⟨_, rfl⟩ := close_ok hs; exact hk
      | pollRead i => obtain ⟨_, _, _, rfl⟩ := pollRead_ok hs; exact hk
      | pollApply i => obtain ⟨L, _, _, _, rfl⟩ := pollApply_ok hs; exact hk
      | read i oid =>
        obtain ⟨_, hc⟩ := read_ok hs
        rcases hc with rfl | ⟨_, _, _, _, _, _, rfl⟩ <;> exact hk
      | write i oid d => obtain ⟨_, rfl⟩ := write_ok hs; exact hk
      | invalidateCache i => obtain ⟨_, rfl⟩ := invalidateCache_ok hs; exact hk
      | abort i =>
        obtain ⟨_, _, rfl⟩ := abort_ok hs
        dsimp only
        split
        · rw [dropInfl_nh]; exact hk
        · exact hk
      | begin c t => obtain ⟨_, _, rfl⟩ := begin_ok hs; exact hk
      | store ws => obtain ⟨f, ws', _, _, rfl⟩ := store_ok hs; exact hk
      | vote => obtain ⟨f, _, _, rfl⟩ := vote_ok hs; exact hk
      | extAbort => obtain ⟨f, _, _, rfl⟩ := extAbort_ok hs; exact hk
      | finishEnter => obtain ⟨f, _, _, rfl⟩ := finishEnter_ok hs; exact hk
      | deliver j => obtain ⟨f, _, _, _, _, _, rfl⟩ := deliver_ok hs; exact hk
      | publish =>
        obtain ⟨f, _, _, _, rfl⟩ := publish_ok hs
        cases f.who with
        | none => exact hk
        | some j => exact hk
      | hread hh oid =>
        obtain ⟨_, hc⟩ := hread_ok hs
        rcases hc with rfl | ⟨_, _, _, _, rfl⟩ <;> exact hk
      | hpoll hh => have := hpoll_ok hs; subst this; exact hk
      | hcommit hh => exact absurd hs hcommit_not_ok
      | hstore hh => exact absurd hs hstore_not_ok
      | hnewOid hh => exact absurd hs hnewOid_not_ok
    obtain ⟨h1, h2, h3⟩ := ih hk1
    exact ⟨h1, by rw [h2, hc.1], by rw [h3, hc.2]⟩

/-- `DB.open(at=…/before=…)`: refused exactly when the normalised bound is later than the newest
    transaction's successor; otherwise a historical instance with that bound, looking at the
    current log, is created -/
theorem open_hist_rule (s : Sys) (a b : Option Nat) (bf : Nat) (hg : getTID a b = .ok (some bf))
    (hf : isFinishing s = false) :
    (headTid s.log + 1 < bf → step s (.openHist a b) = .err .valueError) ∧
    (bf ≤ headTid s.log + 1 → ∃ s', step s (.openHist a b) = .ok s' ∧ s'.nh = s.nh + 1 ∧
        (s'.hists s.nh).before = bf ∧ (s'.hists s.nh).log0 = s.log ∧
        ∀ oid, (s'.hists s.nh).cache oid = none) := by
  constructor
  · intro hlt
    have hr := (refused_iff (headTid s.log) bf).mpr hlt
    simp only [step, hf, hg, hr]
    rfl
  · intro hle
    have hr := (refused_false_iff (headTid s.log) bf).mpr hle
    refine ⟨_, by simp only [step, hf, hg, hr]; rfl, rfl, ?_, ?_, ?_⟩
    · show (upd s.hists s.nh _ s.nh).before = bf; rw [upd_same]
    · show (upd s.hists s.nh _ s.nh).log0 = s.log; rw [upd_same]
    · intro oid; show (upd s.hists s.nh _ s.nh).cache oid = none; rw [upd_same]

theorem at_before_equiv (s : Sys) (t : Nat) :
    getTID (some t) none = getTID none (some (t + 1)) ∧
    step s (.openHist (some t) none) = step s (.openHist none (some (t + 1))) := by
  constructor
  · rfl
  · simp only [step, getTID, later]

theorem at_and_before_rejected (s : Sys) (a b : Nat) (hf : isFinishing s = false) :
    step s (.openHist (some a) (some b)) = .err .valueError := by
  simp only [step, hf, getTID]; rfl

/-- actions through a historical instance never touch the committed log, the commit lock or
    any regular instance -/
theorem hist_actions_readonly {s s' : Sys} {a : Act} {h oid : Nat}
    (ha : a = .hread h oid ∨ a = .hpoll h ∨ a = .hcommit h ∨ a = .hstore h ∨ a = .hnewOid h)
    (hs : step s a = .ok s') :
    s'.log = s.log ∧ s'.infl = s.infl ∧ s'.next = s.next ∧ s'.insts = s.insts := by
  rcases ha with rfl | rfl | rfl | rfl | rfl
  · obtain ⟨_, hc⟩ := hread_ok hs
    rcases hc with rfl | ⟨_, _, _, _, rfl⟩ <;> exact ⟨rfl, rfl, rfl, rfl⟩
  · have := hpoll_ok hs; subst this; exact ⟨rfl, rfl, rfl, rfl⟩
  · exact absurd hs hcommit_not_ok
  · exact absurd hs hstore_not_ok
  · exact absurd hs hnewOid_not_ok

end Proofs.Mvcc

namespace Proofs.Mvcc
open ZodbModel.Mvcc

theorem reachable_run {s : Sys} (hr : Reachable s) (as : List Act) : Reachable (run s as) := by
  induction as generalizing s with
  | nil => exact hr
  | cons a r ih =>
    unfold run
    split
    · next s' hs => exact ih (Reachable.step a hr hs)
    · exact ih hr

end Proofs.Mvcc
