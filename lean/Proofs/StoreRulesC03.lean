/-
  Proofs of the longer property theorems of `Props/C03.lean` (same statements; the property file only
  applies them).  Core Lean only.
-/
import Proofs.StoreRulesThm
namespace Proofs.C03Props
open ZodbModel ZodbModel.Resolve ZodbModel.StoreRules Proofs.Resolve

theorem store_succeeds_only_if (E : Env) (k : Kind) (base : Hist) (hb : Sorted base) (s : Sys)
    (h : Reachable E k base s) (t : TxnId) (oid : Oid) (serial : Tid) (data : Record) :
    ((step E s (.store t oid serial data)).out = .ok →
      s.lock = some t ∧ (currentTid s.view oid = none ∨ currentTid s.view oid = some serial)) ∧
    ((step E s (.store t oid serial data)).out = .resolvedStore →
      s.lock = some t ∧ ∃ ct, currentTid s.view oid = some ct ∧ serial ≠ ct ∧
        ∃ rev, (step E s (.store t oid serial data)).sys.staged = rev :: s.staged ∧
          rev.oid = oid ∧ rev.base = serial ∧ rev.wanted = data ∧
          Merged E (loadSerialK k s.hist base) ct rev) := by
  have hi := Proofs.StoreRules.reachable_inv E k base hb s h
  by_cases hl : s.lock = some t
  · rw [Proofs.StoreRules.step_store_eq E k base s hi t hl]
    have hv : viewOf s.kind s.hist s.base = s.view := rfl
    cases Proofs.StoreRules.storeSpec_outcome E s oid serial data with
    | conflict hout _ _ => rw [hout]; exact ⟨fun h => (by cases h), fun h => (by cases h)⟩
    | stored rev hoid hbase hwanted hok hsys hout =>
      rw [hout, hsys]
      unfold RevOK at hok
      rw [hv, hoid] at hok
      constructor
      · intro ho
        refine ⟨hl, ?_⟩
        cases hc : currentTid s.view oid with
        | none => left; rfl
        | some ct =>
          right
          rw [hc] at hok
          rcases hok with ⟨h1, _, _⟩ | ⟨_, h2, _⟩
          · rw [← h1, hbase]
          · rw [h2] at ho; cases ho
      · intro ho
        refine ⟨hl, ?_⟩
        cases hc : currentTid s.view oid with
        | none =>
          rw [hc] at hok
          rw [hok.2] at ho
          cases ho
        | some ct =>
          rw [hc] at hok
          rcases hok with ⟨_, _, h3⟩ | ⟨h1, _, h3⟩
          · rw [h3] at ho; cases ho
          · refine ⟨ct, rfl, by rw [← hbase]; exact h1, rev, rfl, hoid, hbase, hwanted, ?_⟩
            rw [hi.kind, hi.base] at h3
            exact h3
  · have : (step E s (.store t oid serial data)).out = .txnError := by simp [step, hl]
    rw [this]
    exact ⟨fun h => (by cases h), fun h => (by cases h)⟩

theorem conflict_stores_nothing (E : Env) (k : Kind) (base : Hist) (hb : Sorted base) (s : Sys)
    (h : Reachable E k base s) (t : TxnId) (oid : Oid) (serial : Tid) (data : Record)
    (hc : (step E s (.store t oid serial data)).out = .conflict) :
    (step E s (.store t oid serial data)).sys =
      { s with cache := (step E s (.store t oid serial data)).sys.cache } ∧
    (step E (step E s (.store t oid serial data)).sys (.abort t)).sys.hist = s.hist ∧
    (step E (step E s (.store t oid serial data)).sys (.abort t)).sys.staged = [] ∧
    (step E (step E s (.store t oid serial data)).sys (.abort t)).sys.lock = none := by
  have hi := Proofs.StoreRules.reachable_inv E k base hb s h
  by_cases hl : s.lock = some t
  · rw [Proofs.StoreRules.step_store_eq E k base s hi t hl] at hc ⊢
    cases Proofs.StoreRules.storeSpec_outcome E s oid serial data with
    | conflict hout hsys _ =>
      refine ⟨hsys, ?_⟩
      rw [hsys]
      simp only [step]
      rw [if_pos hl]
      exact ⟨rfl, rfl, rfl⟩
    | stored rev _ _ _ _ _ hout =>
      rw [hout] at hc
      split at hc <;> cases hc
  · have : (step E s (.store t oid serial data)).out = .txnError := by simp [step, hl]
    rw [this] at hc
    cases hc

theorem readcurrent_checked (E : Env) (k : Kind) (base : Hist) (hb : Sorted base) (s : Sys)
    (h : Reachable E k base s) :
    (∀ t oid serial, (step E s (.check t oid serial)).out = .ok →
        s.lock = some t ∧ currentTid s.view oid = some serial ∧
        (step E s (.check t oid serial)).sys = { s with checked := (oid, serial) :: s.checked }) ∧
    (∀ p ∈ s.checked, currentTid s.view p.1 = some p.2) ∧
    (∀ newer t older, s.hist = newer ++ t :: older →
        ∀ p ∈ t.checked, currentTid (viewOf k older base) p.1 = some p.2) := by
  have hi := Proofs.StoreRules.reachable_inv E k base hb s h
  refine ⟨?_, hi.checked, ?_⟩
  · intro t oid serial ho
    obtain ⟨hl, _, hc, hsys⟩ := Proofs.StoreRules.step_check_ok E s t oid serial ho
    refine ⟨hl, ?_, hsys⟩
    have hcv := Proofs.StoreRules.curK_eq_view (k := s.kind) (hist := s.hist) (base := s.base)
      hi.sorted oid
    have hv : viewOf s.kind s.hist s.base = s.view := rfl
    rw [hv, hc] at hcv
    exact hcv.symm
  · intro newer t older hs
    have hr := hi.rc
    rw [hi.kind, hi.base] at hr
    exact Proofs.StoreRules.rc_split k base s.hist hr newer t older hs

theorem readcurrent_holds_until_finish (E : Env) (k : Kind) (base : Hist) (hb : Sorted base) (s : Sys)
    (h : Reachable E k base s) (t : TxnId) (oid : Oid) (serial : Tid)
    (hck : (step E s (.check t oid serial)).out = .ok) (ops : List Op)
    (hops : ∀ op ∈ ops, op ≠ .finish t ∧ op ≠ .abort t)
    (hok : Proofs.StoreRules.RunOK E (step E s (.check t oid serial)).sys ops) :
    (run E (step E s (.check t oid serial)).sys ops).lock = some t ∧
    currentTid (run E (step E s (.check t oid serial)).sys ops).view oid = some serial := by
  obtain ⟨hl, _, hsys⟩ := (readcurrent_checked E k base hb s h).1 t oid serial hck
  have hr : Reachable E k base (step E s (.check t oid serial)).sys := .step _ h trivial
  have hl' : (step E s (.check t oid serial)).sys.lock = some t := by rw [hsys]; exact hl
  obtain ⟨r1, r2⟩ := Proofs.StoreRules.run_keeps_checked E k base hb _ hr t hl' ops hops hok
  refine ⟨r1, r2 (oid, serial) ?_⟩
  rw [hsys]
  exact List.mem_cons_self

theorem retry_can_succeed (E : Env) (k : Kind) (base : Hist) (hb : Sorted base) (s : Sys)
    (h : Reachable E k base s) (t : TxnId) (hl : s.lock = some t) (oid : Oid) (ct : Tid)
    (data : Record) (hc : currentTid s.view oid = some ct) (hnd : checkDeleted s oid = false) :
    (step E s (.check t oid ct)).out = .ok ∧ (step E s (.store t oid ct data)).out = .ok ∧
    (step E s (.store t oid ct data)).sys.staged =
      { oid := oid, base := ct, data := data, wanted := data, resolved := false } :: s.staged := by
  have hi := Proofs.StoreRules.reachable_inv E k base hb s h
  refine ⟨?_, ?_⟩
  · rw [Proofs.StoreRules.step_check_out E k base s hi t oid ct, if_pos hl, hnd, hc]
    simp
  · rw [Proofs.StoreRules.step_store_eq E k base s hi t hl]
    unfold Proofs.StoreRules.storeSpec
    rw [hc]
    simp [Proofs.StoreRules.acceptRes]

theorem stale_write_over_uncreation_conflicts (E : Env) (base : Hist) (hb : Sorted base) (s : Sys)
    (h : Reachable E (.simple .file) base s) (t : TxnId) (hl : s.lock = some t) (oid : Oid)
    (serial ct : Tid) (data : Record) (hc : currentTid s.hist oid = some ct)
    (hd : currentDeleted s.hist oid = true) (hne : serial ≠ ct) :
    (step E s (.store t oid serial data)).out = .conflict ∧
    (step E s (.store t oid serial data)).sys =
      { s with cache := (step E s (.store t oid serial data)).sys.cache } := by
  have hi := Proofs.StoreRules.reachable_inv E (.simple .file) base hb s h
  have hv : s.view = s.hist := by
    show viewOf s.kind s.hist s.base = s.hist
    rw [hi.kind]; rfl
  have hs : Sorted s.hist := by rw [← hv]; exact hi.sorted
  rw [Proofs.StoreRules.step_store_eq E _ base s hi t hl]
  apply Proofs.StoreRules.storeSpec_unresolvable E s oid serial ct data (by rw [hv]; exact hc) hne
  right
  apply tryToResolve_fails
  right; right; right; right; left
  show committedOf (loadSerialK s.kind s.hist s.base) oid ct none = none
  rw [hi.kind]
  exact Proofs.StoreRules.loadSerialFile_deleted hs hc hd

theorem delete_checks_serial (E : Env) (s : Sys) (t : TxnId) (oid : Oid) (serial : Tid)
    (hk : s.kind = .simple .file) (hl : s.lock = some t) :
    (step E s (.delete t oid serial)).out =
      match currentTid s.hist oid with
      | none => .keyError
      | some ct => if serial = ct then .ok else .conflict := by
  simp only [step]
  rw [if_pos hl, hk]
  simp only
  cases currentTid s.hist oid with
  | none => rfl
  | some ct => simp only; split <;> rfl

end Proofs.C03Props
