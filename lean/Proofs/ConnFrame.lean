/-
  Connection model, part 2: the shared storage (`committed`, `lastTid`, `log`) is written only by the
  storage's `tpc_finish` and by the other connection's commit (`ext`).  Everything else — in particular
  every savepoint, rollback, abort and failed commit — leaves it alone.
-/
import Proofs.ConnBasic
namespace Proofs.Conn
open ZodbModel ZodbModel.Conn

theorem foldl_pres {β : Type} (P : State → Prop) (f : State → β → State)
    (h : ∀ s x, P s → P (f s x)) : ∀ (l : List β) (s : State), P s → P (l.foldl f s) := by
  intro l
  induction l with
  | nil => intro s hs; exact hs
  | cons x t ih => intro s hs; exact ih _ (h _ _ hs)

/-- the part of the state other connections can see -/
def shared (s : State) : Map Rec × Tid × List (Tid × List Oid) := (s.committed, s.lastTid, s.log)

section frame
variable (c : Map Rec × Tid × List (Tid × List Oid))

theorem access_shared {s s' : State} {i} (h : access s i = .ok s') : shared s' = shared s := by
  unfold access at h
  simp only at h
  repeat' split at h
  all_goals first | (injection h with h; subst h; rfl) | (simp at h) | skip
  all_goals cases h

theorem join_shared (s : State) : shared (join s) = shared s := by
  unfold join; split <;> rfl

theorem markChanged_shared (s : State) (i) : shared (markChanged s i) = shared s := by
  unfold markChanged
  simp only
  repeat' split
  all_goals first | rfl | (simp [shared, setO, join]; try split <;> rfl)

theorem disown_shared (s : State) (i) : shared (disown s i) = shared s := rfl

theorem invalidate_shared (s : State) (k) : shared (invalidate s k) = shared s := by
  unfold invalidate; split <;> rfl

theorem invalidateAll_shared (s : State) (ks) : shared (invalidateAll s ks) = shared s :=
  foldl_pres (fun t => shared t = shared s) invalidate
    (fun t k h => by rw [invalidate_shared]; exact h) ks s rfl

theorem abortOne_shared (s : State) (i) : shared (abortOne s i) = shared s := by
  unfold abortOne
  split
  · rfl
  · split
    · rfl
    · exact invalidate_shared _ _

theorem abortObjs_shared (s : State) : shared (abortObjs s) = shared s :=
  foldl_pres (fun t => shared t = shared s) abortOne
    (fun t k h => by rw [abortOne_shared]; exact h) _ s rfl

theorem uncreate_shared (s : State) (k) : shared (uncreate s k) = shared s := by
  unfold uncreate; split <;> rfl

theorem invalidateCreating_shared (s : State) (ks) : shared (invalidateCreating s ks) = shared s :=
  foldl_pres (fun t => shared t = shared s) uncreate
    (fun t k h => by rw [uncreate_shared]; exact h) ks s rfl

theorem abortSavepoint_shared (s : State) : shared (abortSavepoint s) = shared s := by
  unfold abortSavepoint
  split
  · rfl
  · simp only [invalidateAll_shared]
    exact invalidateCreating_shared _ _

theorem connAbort_shared (s : State) : shared (connAbort s) = shared s := by
  unfold connAbort tpcCleanup
  show shared (invalidateCreating _ _) = _
  rw [invalidateCreating_shared, abortSavepoint_shared, abortObjs_shared]

theorem drainAdded_shared (s : State) : shared (drainAdded s) = shared s := by
  unfold drainAdded
  show shared (List.foldl _ s s.added) = _
  exact foldl_pres (fun t => shared t = shared s) _ (fun t k h => h) _ s rfl

theorem connTpcAbort_shared (s : State) : shared (connTpcAbort s) = shared s := by
  unfold connTpcAbort tpcCleanup
  split
  · rfl
  · show shared (drainAdded _) = _
    rw [drainAdded_shared]
    show shared (invalidateCreating _ _) = _
    rw [invalidateCreating_shared, invalidateAll_shared]
    show shared (abortSavepoint s) = _
    exact abortSavepoint_shared s

theorem pollOne_shared (s : State) (p) : shared (pollOne s p) = shared s := by
  unfold pollOne
  simp only
  split
  · split <;> rfl
  · rfl

theorem poll_shared (s : State) : shared (poll s) = shared s := by
  unfold poll
  exact foldl_pres (fun t => shared t = shared s) pollOne
    (fun t k h => by rw [pollOne_shared]; exact h) _ _ rfl

theorem afterCompletion_shared (s : State) : shared (afterCompletion s) = shared s := by
  unfold afterCompletion
  simp only
  split
  · rw [poll_shared]; rfl
  · rfl

theorem cleanup_shared (v : Bool) (s : State) : shared (cleanup v s) = shared s := by
  unfold cleanup
  rw [connTpcAbort_shared]
  split
  · rfl
  · exact connAbort_shared s

theorem persistentId_shared (acc : State × List ObjId) (r) :
    shared (persistentId acc r).1 = shared acc.1 := by
  obtain ⟨s, pushed⟩ := acc
  unfold persistentId
  simp only
  split <;> rfl

theorem serialize_shared (s : State) (refs) : shared (serialize s refs).1 = shared s := by
  unfold serialize
  suffices h : ∀ (l : List ObjId) (acc : State × List ObjId),
      shared (l.foldl persistentId acc).1 = shared acc.1 from h refs (s, [])
  intro l
  induction l with
  | nil => intro acc; rfl
  | cons x t ih => intro acc; simp only [List.foldl_cons]; rw [ih, persistentId_shared]

theorem storageStore_shared {s s' : State} {k r} (h : storageStore s k r = .ok s') :
    shared s' = shared s := by
  unfold storageStore at h
  simp only at h
  repeat' split at h
  all_goals first | (injection h with h; subst h; rfl) | cases h

theorem storeOne_shared (s : State) (i) : shared (storeOne s i).2.1 = shared s := by
  unfold storeOne
  simp only
  split
  · rfl
  · split
    · split <;> rfl
    · rename_i s1 hacc
      have h1 := access_shared hacc
      split
      · simp only [shared, setO] at *
        rw [← h1]
        have := serialize_shared s1 (s1.objs i).refs
        simp only [shared] at this
        split at h1 <;> simp_all
      · split
        · have := serialize_shared s1 (s1.objs i).refs
          simp only [shared] at this h1 ⊢
          split at h1 <;> simp_all
        · rename_i s2 hst
          have h2 := storageStore_shared hst
          have := serialize_shared s1 (s1.objs i).refs
          simp only [shared] at this h1 h2 ⊢
          split at h1 <;> simp_all

end frame

end Proofs.Conn
