/-
  Connection model, part 2: the shared storage (`committed`, `lastTid`, `log`) is written only by the
  storage's `tpc_finish` and by the other connection's commit (`ext`).  Everything else — in particular
  every savepoint, rollback, abort and failed commit — leaves it alone.
-/
import Proofs.ConnBasic
namespace Proofs.Conn
open ZodbModel ZodbModel.Conn

theorem foldl_pres {β : Type} (P : State → Prop) (f : State → β → State)
    (h : ∀ s x, P s → P (f s x)) : ∀ (l : List β) (s : State), P s → P (l.foldl f s) := by
  intro l
  induction l with
  | nil => intro s hs; exact hs
  | cons x t ih => intro s hs; exact ih _ (h _ _ hs)

theorem foldl_frame {β γ : Type} (π : State → γ) (f : State → β → State)
    (h : ∀ s x, π (f s x) = π s) (l : List β) (s : State) : π (l.foldl f s) = π s :=
  foldl_pres (fun t => π t = π s) f (fun t x ht => by rw [h]; exact ht) l s rfl

/-- the part of the state other connections can see -/
def shared (s : State) : Map Rec × Tid × List (Tid × List Oid) := (s.committed, s.lastTid, s.log)

@[simp] theorem setO_shared (s : State) (i o) : shared (setO s i o) = shared s := rfl

@[simp] theorem access_shared (s : State) (i) : shared (access s i).1 = shared s := by
  unfold access
  simp only
  repeat' split
  all_goals rfl

@[simp] theorem join_shared (s : State) : shared (join s) = shared s := by
  unfold join; split <;> rfl

@[simp] theorem markChanged_shared (s : State) (i) : shared (markChanged s i) = shared s := by
  unfold markChanged
  dsimp only
  repeat' split
  all_goals first | rfl | (show shared (join _) = _; rw [join_shared]; rfl)

@[simp] theorem disown_shared (s : State) (i) : shared (disown s i) = shared s := rfl

@[simp] theorem invalidate_shared (s : State) (k) : shared (invalidate s k) = shared s := by
  unfold invalidate; split <;> rfl

@[simp] theorem invalidateAll_shared (s : State) (ks) : shared (invalidateAll s ks) = shared s :=
  foldl_frame shared invalidate invalidate_shared ks s

@[simp] theorem abortOne_shared (s : State) (i) : shared (abortOne s i) = shared s := by
  unfold abortOne
  split
  · rfl
  · split
    · rfl
    · split
      · rfl
      · exact invalidate_shared _ _

@[simp] theorem abortObjs_shared (s : State) : shared (abortObjs s) = shared s :=
  foldl_frame shared abortOne abortOne_shared _ s

@[simp] theorem uncreate_shared (s : State) (k) : shared (uncreate s k) = shared s := by
  unfold uncreate; split <;> rfl

@[simp] theorem invalidateCreating_shared (s : State) (ks) : shared (invalidateCreating s ks) = shared s :=
  foldl_frame shared uncreate uncreate_shared ks s

@[simp] theorem tpcCleanup_shared (s : State) : shared (tpcCleanup s) = shared s := rfl
@[simp] theorem dropTmp_shared (s : State) : shared (dropTmp s) = shared s := rfl
@[simp] theorem storageAbort_shared (s : State) : shared (storageAbort s) = shared s := rfl
@[simp] theorem clearRegistered_shared (s : State) : shared (clearRegistered s) = shared s := rfl
@[simp] theorem resetTmp_shared (s : State) (t p idx cr) : shared (resetTmp s t p idx cr) = shared s := rfl

@[simp] theorem invalidateOwnCreating_shared (s : State) : shared (invalidateOwnCreating s) = shared s := by
  unfold invalidateOwnCreating
  show shared (invalidateCreating _ _) = _
  simp

@[simp] theorem invalidateModified_shared (s : State) : shared (invalidateModified s) = shared s := by
  unfold invalidateModified; simp

@[simp] theorem abortSavepoint_shared (s : State) : shared (abortSavepoint s) = shared s := by
  unfold abortSavepoint
  split <;> simp

@[simp] theorem connAbort_shared (s : State) : shared (connAbort s) = shared s := by
  unfold connAbort; simp

@[simp] theorem drainAdded_shared (s : State) : shared (drainAdded s) = shared s := by
  unfold drainAdded
  show shared (List.foldl _ s s.added) = _
  exact foldl_frame shared (fun (s : State) (p : Oid × ObjId) => disown { s with added := s.added.del p.1 } p.2) (fun t k => rfl) _ s

@[simp] theorem connTpcAbort_shared (s : State) : shared (connTpcAbort s) = shared s := by
  unfold connTpcAbort
  split <;> simp

@[simp] theorem pollOne_shared (s : State) (p) : shared (pollOne s p) = shared s := by
  unfold pollOne
  simp only
  split
  · split <;> rfl
  · rfl

@[simp] theorem poll_shared (s : State) : shared (poll s) = shared s := by
  unfold poll
  exact foldl_frame shared pollOne pollOne_shared _ _

@[simp] theorem afterCompletion_shared (s : State) : shared (afterCompletion s) = shared s := by
  unfold afterCompletion
  simp only
  split
  · rw [poll_shared]; rfl
  · rfl

@[simp] theorem cleanup_shared (v : Bool) (s : State) : shared (cleanup v s) = shared s := by
  unfold cleanup
  rw [connTpcAbort_shared]
  split
  · rfl
  · exact connAbort_shared s

@[simp] theorem persistentId_shared (acc : State × List ObjId) (r) :
    shared (persistentId acc r).1 = shared acc.1 := by
  obtain ⟨s, pushed⟩ := acc
  unfold persistentId
  simp only
  split <;> rfl

@[simp] theorem serialize_shared (s : State) (refs) : shared (serialize s refs).1 = shared s := by
  unfold serialize
  suffices h : ∀ (l : List ObjId) (acc : State × List ObjId),
      shared (l.foldl persistentId acc).1 = shared acc.1 from h refs (s, [])
  intro l
  induction l with
  | nil => intro acc; rfl
  | cons x t ih => intro acc; simp only [List.foldl_cons]; rw [ih, persistentId_shared]

@[simp] theorem storageStore_shared (s : State) (k r) : shared (storageStore s k r).1 = shared s := by
  unfold storageStore
  simp only
  repeat' split
  all_goals rfl

@[simp] theorem classify_shared (s : State) (i k) : shared (classify s i k) = shared s := by
  unfold classify; split <;> rfl

@[simp] theorem storeRec_shared (s : State) (i k r) : shared (storeRec s i k r).1 = shared s := by
  unfold storeRec
  dsimp only
  repeat' split
  all_goals first | rfl | exact storageStore_shared s k r

theorem pickleAccess_cases (s : State) (i) :
    pickleAccess s i = (s, some .injected) ∨ pickleAccess s i = access s i := by
  unfold pickleAccess; split
  · exact Or.inl rfl
  · exact Or.inr rfl

@[simp] theorem pickleAccess_shared (s : State) (i) : shared (pickleAccess s i).1 = shared s := by
  rcases pickleAccess_cases s i with h | h <;> rw [h]
  exact access_shared s i

@[simp] theorem storeOne_shared (s : State) (i) : shared (storeOne s i).1.1 = shared s := by
  unfold storeOne
  dsimp only
  repeat' split
  all_goals simp

@[simp] theorem dropStack_shared (s : State) (st) : shared (dropStack s st) = shared s :=
  foldl_frame shared disownPending (fun _ _ => rfl) st s

@[simp] theorem storeObjects_shared (fuel : Nat) (s : State) (st) :
    shared (storeObjects fuel s st).1 = shared s := by
  induction fuel generalizing s st with
  | zero => cases st <;> simp [storeObjects]
  | succ n ih =>
    cases st with
    | nil => rfl
    | cons i rest =>
      simp only [storeObjects]
      split
      · rw [ih]; simp
      · simp

@[simp] theorem commitLoop_shared (fuel : Nat) (s : State) (l) :
    shared (commitLoop fuel s l).1 = shared s := by
  induction l generalizing s with
  | nil => rfl
  | cons i rest ih =>
    simp only [commitLoop]
    repeat' split
    all_goals simp [ih]

@[simp] theorem connCommitPlain_shared (b : Nat) (s : State) :
    shared (connCommitPlain b s).1 = shared s := commitLoop_shared _ _ _

@[simp] theorem connSavepoint_shared (b : Nat) (s : State) :
    shared (connSavepoint b s).1 = shared s := by
  unfold connSavepoint
  dsimp only
  split
  · simp only [connCommitPlain_shared]; unfold ensureTmp; split <;> rfl
  · have h : ∀ t, shared (mergeCreating t) = shared t := by
      intro t; unfold mergeCreating; split <;> rfl
    rw [h, connCommitPlain_shared]; unfold ensureTmp; split <;> rfl

@[simp] theorem replay_shared (src : TmpStore) (s : State) (l) :
    shared (replay src s l).1 = shared s := by
  induction l generalizing s with
  | nil => rfl
  | cons k rest ih =>
    simp only [replay]
    repeat' split
    all_goals simp [ih]

@[simp] theorem commitSavepoint_shared (s : State) : shared (commitSavepoint s).1 = shared s := by
  unfold commitSavepoint
  split
  · rfl
  · simp only [replay_shared]; rfl

@[simp] theorem connCommit_shared (b : Nat) (s : State) : shared (connCommit b s).1 = shared s := by
  unfold connCommit
  dsimp only
  repeat' split
  all_goals simp

@[simp] theorem rollbackSavepoint_shared (s : State) (p idx cr) :
    shared (rollbackSavepoint s p idx cr) = shared s := by
  unfold rollbackSavepoint
  dsimp only
  split <;> simp

theorem txnRollback_shared (s : State) (n) : shared (txnRollback s n).1 = shared s := by
  unfold txnRollback
  repeat' split
  all_goals first | rfl | (simp; rfl)

theorem txnSavepoint_shared (b : Nat) (s : State) : shared (txnSavepoint b s).1 = shared s := by
  unfold txnSavepoint
  dsimp only
  repeat' split
  all_goals first | rfl | (simp; done) | (show shared (connSavepoint b s).1 = _; simp)

theorem txnAbort_shared (s : State) : shared (txnAbort s) = shared s := by
  unfold txnAbort
  simp only [afterCompletion_shared]
  split
  · rfl
  · exact connAbort_shared s

theorem txnAbortAfterFailure_shared (j : Bool) (s : State) :
    shared (txnAbortAfterFailure j s) = shared s := by
  unfold txnAbortAfterFailure
  simp only [afterCompletion_shared]
  split
  · exact connAbort_shared s
  · rfl

theorem mutate_shared (s : State) (i f) : shared (mutate s i f).1 = shared s := by
  unfold mutate
  dsimp only
  repeat' split
  all_goals first | rfl | (simp; done)

theorem opAdd_shared (s : State) (i) : shared (opAdd s i).1 = shared s := by
  unfold opAdd
  simp only
  repeat' split
  all_goals first | rfl | skip
  simp only [shared, setO]
  exact join_shared _

theorem opClose_shared (s : State) : shared (opClose s).1 = shared s := by
  unfold opClose; split <;> rfl

theorem opOpen_shared (s : State) : shared (opOpen s).1 = shared s := by
  unfold opOpen; split
  · rfl
  · simp only [poll_shared]; rfl

/-- a commit that does not report success leaves the shared storage alone -/
theorem commitJoined_shared (b : Nat) (s : State) :
    (∃ tid oids, (commitJoined b s).2 = .committed tid oids) ∨
    shared (commitJoined b s).1 = shared s := by
  unfold commitJoined
  dsimp only
  repeat' split
  all_goals first | (left; exact ⟨_, _, rfl⟩) | (right; simp; try rfl)

theorem txnCommit_shared (b : Nat) (s : State) (f) :
    (∃ tid oids, (txnCommit b s f).2 = .committed tid oids) ∨
    shared (txnCommit b s f).1 = shared s := by
  unfold txnCommit
  dsimp only
  split
  · right; simp; rfl
  · rcases commitJoined_shared b { s with fail := f, nstores := 0, sps := [] } with h | h
    · left; exact h
    · right; simp only [afterCompletion_shared]; exact h

/-- **No step other than a successful commit (of this or of the other connection) changes what other
    connections can read.** -/
theorem step_shared (b : Nat) (s : State) (op : Op) :
    (∃ tid oids, (step b s op).2 = .committed tid oids) ∨ (∃ tid, (step b s op).2 = .extOk tid) ∨
    shared (step b s op).1 = shared s := by
  cases op with
  | read i =>
    right; right
    simp only [step]
    split <;> simp
  | modify i v => right; right; exact mutate_shared _ _ _
  | link i j => right; right; exact mutate_shared _ _ _
  | unlink i j => right; right; exact mutate_shared _ _ _
  | add i => right; right; exact opAdd_shared _ _
  | commit f =>
    rcases txnCommit_shared b s f with h | h
    · left; exact h
    · right; right; exact h
  | abort => right; right; exact txnAbort_shared s
  | savepoint => right; right; exact txnSavepoint_shared b s
  | rollback n => right; right; exact txnRollback_shared s n
  | close => right; right; exact opClose_shared s
  | open_ => right; right; exact opOpen_shared s
  | ext i v =>
    simp only [step, opExt]
    repeat' split
    · right; right; rfl
    · right; right; rfl
    · right; left; exact ⟨_, rfl⟩
  | peek i => right; right; rfl

end Proofs.Conn
