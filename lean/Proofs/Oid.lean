/-
  Helper lemmas for C20 (`Props/C20.lean`): the counter-based allocators never hand out an id
  twice or one that is present; byte-level `new_oid` = `+ 1` with an error at `2^64 - 1`.
  Core Lean only.
-/
import ZodbModel.Oid
namespace Proofs.Oid
open ZodbModel ZodbModel.Oid

/-! ### `new_oid` on the value -/

theorem newOidNat_spec (c : Nat) (hc : c < 2 ^ 64) :
    newOidNat c = if c + 1 < 2 ^ 64 then .ok (c + 1) else .error .overflow := by
  unfold newOidNat
  by_cases h : c % 256 < 255
  · have : c + 1 < 2 ^ 64 := by omega
    simp [h, this]
  · simp [h]

theorem newOidNat_ok {c r : Nat} (h : newOidNat c = .ok r) : r = c + 1 ∧ (c + 1 < 2 ^ 64 ∨ c % 256 < 255) := by
  unfold newOidNat at h
  split at h
  · cases h; exact ⟨rfl, Or.inr ‹_›⟩
  · split at h
    · cases h; exact ⟨rfl, Or.inl ‹_›⟩
    · cases h

/-! ### `new_oid` on the 8 bytes -/

theorem be_beVal : ∀ (n : Nat) (b : Bytes), b.length = n → BytesWF b → be n (beVal b) = b := by
  intro n
  induction n with
  | zero => intro b hl _; simp [be, List.length_eq_zero_iff.1 hl]
  | succ n ih =>
    intro b hl hw
    have hne : b ≠ [] := by intro h; rw [h] at hl; simp at hl
    have hsplit := List.dropLast_concat_getLast hne
    have hx : b.getLast hne < 256 := hw _ (List.getLast_mem hne)
    have hlen : b.dropLast.length = n := by simp [hl]
    have hw' : BytesWF b.dropLast := fun x hx => hw x (List.dropLast_subset b hx)
    have hv : beVal b = beVal b.dropLast * 256 + b.getLast hne := by
      conv => lhs; rw [← hsplit]
      exact beVal_append _ _
    rw [be, hv]
    have h1 : (beVal b.dropLast * 256 + b.getLast hne) / 256 = beVal b.dropLast := by omega
    have h2 : (beVal b.dropLast * 256 + b.getLast hne) % 256 = b.getLast hne := by omega
    rw [h1, h2, ih _ hlen hw']
    exact hsplit

theorem beVal_lt : ∀ (n : Nat) (b : Bytes), b.length = n → BytesWF b → beVal b < 256 ^ n := by
  intro n
  induction n with
  | zero => intro b hl _; simp [beVal, List.length_eq_zero_iff.1 hl]
  | succ n ih =>
    intro b hl hw
    have hne : b ≠ [] := by intro h; rw [h] at hl; simp at hl
    have hsplit := List.dropLast_concat_getLast hne
    have hx : b.getLast hne < 256 := hw _ (List.getLast_mem hne)
    have hlen : b.dropLast.length = n := by simp [hl]
    have hw' : BytesWF b.dropLast := fun x hx => hw x (List.dropLast_subset b hx)
    have hv : beVal b = beVal b.dropLast * 256 + b.getLast hne := by
      conv => lhs; rw [← hsplit]
      exact beVal_append _ _
    have := ih _ hlen hw'
    rw [hv, Nat.pow_succ]
    omega

/-- **`BaseStorage.new_oid` as coded on the 8-byte string is `+ 1` on its value, and raises exactly
    at `ff…ff`** -/
theorem newOidBytes_spec (last : Bytes) (hl : last.length = 8) (hw : BytesWF last) :
    newOidBytes last = (match newOidNat (beVal last) with
                        | .ok v => .ok (be 8 v)
                        | .error e => .error e) := by
  have hne : last ≠ [] := by intro h; rw [h] at hl; simp at hl
  have hsplit := List.dropLast_concat_getLast hne
  have hx : last.getLast hne < 256 := hw _ (List.getLast_mem hne)
  have hlen : last.dropLast.length = 7 := by simp [hl]
  have hw' : BytesWF last.dropLast := fun x hx => hw x (List.dropLast_subset last hx)
  have hv : beVal last = beVal last.dropLast * 256 + last.getLast hne := by
    conv => lhs; rw [← hsplit]
    exact beVal_append _ _
  have hg : last.getLast? = some (last.getLast hne) := List.getLast?_eq_some_getLast hne
  have hmod : beVal last % 256 = last.getLast hne := by omega
  unfold newOidBytes newOidNat
  rw [hg, hmod]
  simp only
  by_cases hd : last.getLast hne < 255
  · rw [if_pos hd, if_pos hd]
    simp only
    congr 1
    have h1 : (beVal last + 1) / 256 = beVal last.dropLast := by omega
    have h2 : (beVal last + 1) % 256 = last.getLast hne + 1 := by omega
    rw [be, h1, h2, be_beVal 7 _ hlen hw']
  · rw [if_neg hd, if_neg hd]
    by_cases hv2 : beVal last + 1 < 2 ^ 64
    · simp [hv2]
    · simp [hv2]

/-! ### the invariant: the counter dominates everything issued or present -/

def Inv (s : St) : Prop :=
  (∀ o ∈ s.issued, o ≤ s.counter) ∧ (∀ o ∈ s.index, o ≤ s.counter) ∧
  (∀ o ∈ s.tindex, o ≤ s.counter) ∧ s.issued.Nodup

theorem inv_init (k : Kind) : Inv (St.init k) := by
  simp [Inv, St.init]

theorem foldl_max_ge (l : List Nat) (a : Nat) : a ≤ l.foldl max a ∧ ∀ o ∈ l, o ≤ l.foldl max a := by
  induction l generalizing a with
  | nil => simp
  | cons x t ih =>
    simp only [List.foldl_cons, List.mem_cons]
    obtain ⟨h1, h2⟩ := ih (max a x)
    refine ⟨by omega, ?_⟩
    intro o ho
    rcases ho with ho | ho
    · subst ho; omega
    · exact h2 o ho

theorem le_maxOid {l : List Nat} {o : Nat} (h : o ∈ l) : o ≤ maxOid l := (foldl_max_ge l 0).2 o h

theorem maxOid_mem_or_zero (l : List Nat) : maxOid l = 0 ∨ maxOid l ∈ l := by
  unfold maxOid
  suffices ∀ a, l.foldl max a = a ∨ l.foldl max a ∈ l by
    rcases this 0 with h | h
    · left; exact h
    · right; exact h
  induction l with
  | nil => intro a; left; rfl
  | cons x t ih =>
    intro a
    simp only [List.foldl_cons, List.mem_cons]
    rcases ih (max a x) with h | h
    · rw [h]
      by_cases hax : x ≤ a
      · left; omega
      · right; left; omega
    · right; right; exact h

/-- a successful allocation returns `counter + 1`, within 8 bytes, and makes it the counter -/
theorem newOid_out {s s' : St} {c : Nat} (h : step s .newOid = (s', .oid c)) :
    c = s.counter + 1 ∧ s'.counter = c ∧ s'.issued = c :: s.issued ∧ s'.index = s.index ∧
    s'.tindex = s.tindex ∧ s'.kind = s.kind := by
  unfold step at h
  cases hk : s.kind with
  | file =>
    rw [hk] at h
    simp only at h
    cases hn : newOidNat s.counter with
    | error e => rw [hn] at h; simp at h
    | ok r =>
      rw [hn] at h
      simp only [Prod.mk.injEq, Out.oid.injEq] at h
      obtain ⟨h1, h2⟩ := h
      subst h2
      subst h1
      exact ⟨(newOidNat_ok hn).1, rfl, rfl, rfl, rfl, rfl⟩
  | mapping =>
    rw [hk] at h
    simp only at h
    split at h
    · simp only [Prod.mk.injEq, Out.oid.injEq] at h
      obtain ⟨h1, h2⟩ := h
      subst h2
      subst h1
      exact ⟨rfl, rfl, rfl, rfl, rfl, rfl⟩
    · simp at h

/-- **every operation preserves the invariant** -/
theorem step_inv (s : St) (op : Op) (h : Inv s) : Inv (step s op).1 := by
  obtain ⟨h1, h2, h3, h4⟩ := h
  cases op with
  | newOid =>
    cases hr : step s .newOid with
    | mk s' out =>
      cases out with
      | oid c =>
        obtain ⟨e1, e2, e3, e4, e5, _⟩ := newOid_out hr
        refine ⟨?_, ?_, ?_, ?_⟩
        · intro o ho
          rw [e3] at ho; rw [e2]
          rcases List.mem_cons.1 ho with ho | ho
          · omega
          · have := h1 o ho; omega
        · intro o ho; rw [e4] at ho; rw [e2]; have := h2 o ho; omega
        · intro o ho; rw [e5] at ho; rw [e2]; have := h3 o ho; omega
        · rw [e3]
          refine List.nodup_cons.2 ⟨?_, h4⟩
          intro hm
          have := h1 c hm
          omega
      | ok =>
        unfold step at hr
        cases hk : s.kind <;> rw [hk] at hr <;> simp only at hr
        · split at hr <;> simp at hr
        · split at hr <;> simp at hr
      | err e =>
        unfold step at hr
        cases hk : s.kind <;> rw [hk] at hr <;> simp only at hr
        · split at hr
          · simp at hr
          · simp only [Prod.mk.injEq] at hr
            rw [← hr.1]; exact ⟨h1, h2, h3, h4⟩
        · split at hr
          · simp at hr
          · simp only [Prod.mk.injEq] at hr
            rw [← hr.1]
            exact ⟨fun o ho => Nat.le_succ_of_le (h1 o ho), fun o ho => Nat.le_succ_of_le (h2 o ho),
              fun o ho => Nat.le_succ_of_le (h3 o ho), h4⟩
  | store o =>
    refine ⟨fun x hx => ?_, fun x hx => ?_, fun x hx => ?_, h4⟩
    · have := h1 x hx; simp only [step]; omega
    · have := h2 x hx; simp only [step]; omega
    · simp only [step, List.mem_cons] at hx ⊢
      rcases hx with hx | hx
      · omega
      · have := h3 x hx; omega
  | restore o =>
    simp only [step]
    cases s.kind with
    | mapping => exact ⟨h1, h2, h3, h4⟩
    | file =>
      refine ⟨fun x hx => ?_, fun x hx => ?_, fun x hx => ?_, h4⟩
      · have := h1 x hx; simp only; omega
      · have := h2 x hx; simp only; omega
      · simp only [List.mem_cons] at hx ⊢
        rcases hx with hx | hx
        · omega
        · have := h3 x hx; omega
  | setMax o =>
    simp only [step]
    cases s.kind with
    | mapping => exact ⟨h1, h2, h3, h4⟩
    | file =>
      refine ⟨fun x hx => ?_, fun x hx => ?_, fun x hx => ?_, h4⟩
      · have := h1 x hx; simp only; omega
      · have := h2 x hx; simp only; omega
      · have := h3 x hx; simp only; omega
  | abort => exact ⟨h1, h2, by simp [step], h4⟩
  | finish =>
    refine ⟨h1, ?_, by simp [step], h4⟩
    intro x hx
    simp only [step, List.mem_append] at hx
    rcases hx with hx | hx
    · exact h3 x hx
    · exact h2 x hx
  | pack keep =>
    refine ⟨h1, ?_, h3, h4⟩
    intro x hx
    simp only [step, List.mem_filter] at hx
    exact h2 x hx.1
  | reopen =>
    simp only [step]
    cases s.kind with
    | mapping => exact ⟨h1, h2, h3, h4⟩
    | file =>
      refine ⟨by simp, ?_, by simp, by simp⟩
      intro x hx
      exact le_maxOid hx

theorem run_inv (s : St) (ops : List Op) (h : Inv s) : Inv (run s ops) := by
  induction ops generalizing s with
  | nil => exact h
  | cons op ops ih => exact ih _ (step_inv s op h)

/-- the counter only goes down by a reopen -/
theorem counter_mono (s : St) (op : Op) (h : ∀ (_ : op = .reopen), False) :
    s.counter ≤ (step s op).1.counter := by
  cases op with
  | newOid =>
    simp only [step]
    cases s.kind with
    | file =>
      simp only
      cases hn : newOidNat s.counter with
      | error e => simp
      | ok r => simp only; have := (newOidNat_ok hn).1; omega
    | mapping => simp only; split <;> simp
  | store o => simp only [step]; omega
  | restore o => simp only [step]; cases s.kind <;> simp only <;> omega
  | setMax o => simp only [step]; cases s.kind <;> simp only <;> omega
  | abort => simp [step]
  | finish => simp [step]
  | pack keep => simp [step]
  | reopen => exact absurd rfl (fun h' => h h')

end Proofs.Oid
