/-
  C14 helper lemmas, part 2: `ObjectWriter.persistent_id` / `serialize` and `referencesf`.
  Core Lean only.
-/
import Proofs.RefsTree
namespace Proofs.Refs
open ZodbModel ZodbModel.Refs ZodbModel.Refs.Tree

/-! ### lookup -/

theorem lookup_cons {α β : Type} [DecidableEq α] (k k' : α) (v : β) (l : List (α × β)) :
    lookup k ((k', v) :: l) = if k = k' then some v else lookup k l := rfl

theorem lookup_mem {α β : Type} [DecidableEq α] {k : α} {v : β} {l : List (α × β)}
    (h : lookup k l = some v) : (k, v) ∈ l := by
  induction l with
  | nil => simp [lookup] at h
  | cons x t ih =>
    obtain ⟨k', v'⟩ := x
    rw [lookup_cons] at h
    split at h
    · simp_all
    · exact List.mem_cons_of_mem _ (ih h)

theorem lookup_isSome_of_mem {α β : Type} [DecidableEq α] {k : α} {v : β} {l : List (α × β)}
    (h : (k, v) ∈ l) : lookup k l ≠ none := by
  induction l with
  | nil => simp at h
  | cons x t ih =>
    obtain ⟨k', v'⟩ := x
    rw [lookup_cons]
    split
    · simp
    · rcases List.mem_cons.1 h with h | h
      · simp_all
      · exact ih h

/-! ### how the writer state grows -/

/-- `s'` is `s` after some more `persistent_id` calls: assignments are kept, and a handle gets an
    assignment only if the object had no oid of its own.  (The stack is not constrained.) -/
def Ext (objs : List Obj) (s s' : WState) : Prop :=
  (∀ h oid, lookup h s.assigned = some oid → lookup h s'.assigned = some oid) ∧
  (∀ h, lookup h s.assigned = none → lookup h s'.assigned ≠ none →
    ∃ o, objs[h]? = some o ∧ o.oid = none)

theorem ext_refl (objs : List Obj) (s : WState) : Ext objs s s :=
  ⟨fun _ _ h => h, fun _ h h' => absurd h h'⟩

theorem ext_trans {objs : List Obj} {a b c : WState} (h1 : Ext objs a b) (h2 : Ext objs b c) :
    Ext objs a c := by
  refine ⟨fun h oid e => h2.1 _ _ (h1.1 _ _ e), fun h e e' => ?_⟩
  cases hb : lookup h b.assigned with
  | none => exact h2.2 h hb e'
  | some x => exact h1.2 h e (by simp [hb])

/-- the stack plays no role in `Ext` -/
theorem ext_stack (objs : List Obj) (s : WState) (st : List H) : Ext objs s { s with stack := st } :=
  ⟨fun _ _ h => h, fun _ h h' => absurd h h'⟩

theorem ext_of_stack {objs : List Obj} {s s' : WState} (st : List H)
    (h : Ext objs { s with stack := st } s') : Ext objs s s' := h

theorem curOid_mono {objs : List Obj} {s s' : WState} (he : Ext objs s s') {h : H} {o : Obj}
    (ho : objs[h]? = some o) {oid : Oid} (hc : curOid o s h = some oid) : curOid o s' h = some oid := by
  unfold curOid at hc ⊢
  cases hl : lookup h s.assigned with
  | some x =>
    rw [hl] at hc
    rw [he.1 _ _ hl]; exact hc
  | none =>
    rw [hl] at hc
    cases hl' : lookup h s'.assigned with
    | none => exact hc
    | some y =>
      obtain ⟨o', ho', hn⟩ := he.2 h hl (by simp [hl'])
      rw [ho] at ho'; cases ho'
      simp [hn] at hc

theorem curJar_mono {env : Env} {objs : List Obj} {s s' : WState} (he : Ext objs s s') {h : H}
    {o : Obj} (ho : objs[h]? = some o) {oid : Oid} (hc : curOid o s h = some oid) :
    curJar env o s' h = curJar env o s h := by
  unfold curOid at hc
  unfold curJar
  cases hl : lookup h s.assigned with
  | some x => rw [he.1 _ _ hl]
  | none =>
    rw [hl] at hc
    cases hl' : lookup h s'.assigned with
    | none => rfl
    | some y =>
      obtain ⟨o', ho', hn⟩ := he.2 h hl (by simp [hl'])
      rw [ho] at ho'; cases ho'
      simp [hn] at hc

theorem tokFor_mono {env : Env} {objs : List Obj} {s s' : WState} (he : Ext objs s s') {l : PLeaf}
    {tk : Tok} (h : TokFor env objs s l tk) : TokFor env objs s' l tk := by
  cases l with
  | strong t =>
    obtain ⟨o, oid, ho, hc, hm⟩ := h
    refine ⟨o, oid, ho, curOid_mono he ho hc, ?_⟩
    rw [curJar_mono he ho hc]
    exact hm
  | weak t =>
    obtain ⟨o, oid, ho, hc, hm⟩ := h
    refine ⟨o, oid, ho, curOid_mono he ho hc, ?_⟩
    rw [curJar_mono he ho hc]
    exact hm

/-! ### one `persistent_id` call -/

theorem assign_ext {env : Env} {objs : List Obj} {s : WState} {h : H} {o : Obj}
    (ho : objs[h]? = some o) (hc : curOid o s h = none) : Ext objs s (assign env s h).2 := by
  unfold curOid at hc
  cases hl : lookup h s.assigned with
  | some x => simp [hl] at hc
  | none =>
    rw [hl] at hc
    refine ⟨fun h' oid e => ?_, fun h' e e' => ?_⟩
    · simp only [assign, lookup_cons]
      split
      · subst_vars; simp [hl] at e
      · exact e
    · simp only [assign, lookup_cons] at e'
      split at e'
      · subst_vars; exact ⟨o, ho, hc⟩
      · exact absurd e e'

theorem assign_curOid {env : Env} (s : WState) (h : H) (o : Obj) :
    curOid o (assign env s h).2 h = some (assign env s h).1 := by
  simp [curOid, assign, lookup_cons]

theorem assign_curJar {env : Env} (s : WState) (h : H) (o : Obj) :
    curJar env o (assign env s h).2 h = env.own := by
  simp [curJar, assign, lookup_cons]

theorem persistentId_spec {env : Env} {objs : List Obj} {s s' : WState} {l : PLeaf} {tk : Tok}
    (h : persistentId env objs s l = .ok (tk, s')) : Ext objs s s' ∧ TokFor env objs s' l tk := by
  cases l with
  | weak t =>
    simp only [persistentId] at h
    cases ho : objs[t]? with
    | none => simp [ho] at h
    | some o =>
      simp only [ho] at h
      cases hc : curOid o s t with
      | none =>
        simp only [hc, Except.ok.injEq, Prod.mk.injEq] at h
        obtain ⟨rfl, rfl⟩ := h
        refine ⟨assign_ext ho hc, o, (assign env s t).1, ho, assign_curOid s t o, ?_⟩
        simp [assign_curJar]
      | some oid =>
        simp only [hc] at h
        cases hj : curJar env o s t with
        | none => simp [hj] at h
        | conn d c =>
          simp only [hj] at h
          split at h
          · rename_i heq
            simp only [Except.ok.injEq, Prod.mk.injEq] at h
            obtain ⟨rfl, rfl⟩ := h
            exact ⟨ext_refl _ _, o, oid, ho, hc, by simp [hj, heq]⟩
          · rename_i hne
            simp only [Except.ok.injEq, Prod.mk.injEq] at h
            obtain ⟨rfl, rfl⟩ := h
            exact ⟨ext_refl _ _, o, oid, ho, hc, by simp [hj, hne]⟩
  | strong t =>
    simp only [persistentId] at h
    cases ho : objs[t]? with
    | none => simp [ho] at h
    | some o =>
      simp only [ho] at h
      cases hc : curOid o s t with
      | none =>
        simp only [hc, Except.ok.injEq, Prod.mk.injEq] at h
        obtain ⟨rfl, rfl⟩ := h
        refine ⟨assign_ext ho hc, o, (assign env s t).1, ho, assign_curOid s t o, ?_⟩
        simp [assign_curJar]
      | some oid =>
        simp only [hc] at h
        split at h
        · rename_i heq
          simp only [Except.ok.injEq, Prod.mk.injEq] at h
          obtain ⟨rfl, rfl⟩ := h
          exact ⟨ext_refl _ _, o, oid, ho, hc, by simp [heq]⟩
        · rename_i hne
          cases hx : crossCheck env (curJar env o s t) oid with
          | error e => simp [hx] at h
          | ok d =>
            simp only [hx, Except.ok.injEq, Prod.mk.injEq] at h
            obtain ⟨rfl, rfl⟩ := h
            refine ⟨ext_refl _ _, o, oid, ho, hc, ?_⟩
            -- crossCheck succeeded, so the jar is `conn d c`
            have : ∃ c, curJar env o s t = .conn d c := by
              unfold crossCheck at hx
              split at hx
              · simp at hx
              · cases hj : curJar env o s t with
                | none => simp [hj] at hx
                | conn d' c' =>
                  simp only [hj] at hx
                  cases hl : lookup d' env.conns with
                  | none => simp [hl] at hx
                  | some c'' =>
                    simp only [hl] at hx
                    split at hx
                    · simp at hx
                    · split at hx
                      · simp at hx
                      · simp at hx; exact ⟨c', by rw [hx]⟩
            obtain ⟨c, hj⟩ := this
            simp only [hne, if_false]
            exact ⟨d, c, hj, rfl⟩

/-! ### a whole record -/

theorem mapS_persistentId {env : Env} {objs : List Obj} {ls : List PLeaf} {s s' : WState}
    {toks : List Tok} (h : mapS (persistentId env objs) s ls = .ok (toks, s')) :
    Ext objs s s' ∧ Forall2 (TokFor env objs s') ls toks := by
  have := mapS_rel (f := persistentId env objs) (fun _ => True) (Ext objs) (TokFor env objs)
    (ext_refl objs) (fun _ _ _ => ext_trans) (fun _ _ _ _ he h => tokFor_mono he h)
    (fun s l m s' _ hf => ⟨trivial, persistentId_spec hf⟩) trivial h
  exact this.2

theorem traverse_persistentId {env : Env} {objs : List Obj} {t : Tree PLeaf} {s s' : WState}
    {t' : Tree Tok} (h : traverse (persistentId env objs) s t = .ok (t', s')) :
    Ext objs s s' ∧ Tree.Rel (TokFor env objs s') t t' := by
  have := traverse_rel (f := persistentId env objs) (fun _ => True) (Ext objs) (TokFor env objs)
    (ext_refl objs) (fun _ _ _ => ext_trans) (fun _ _ _ _ he h => tokFor_mono he h)
    (fun s l m s' _ hf => ⟨trivial, persistentId_spec hf⟩) trivial h
  exact this.2

theorem recFor_mono {env : Env} {objs : List Obj} {s s' : WState} (he : Ext objs s s') {o : Obj}
    {r : Record} (h : RecFor env objs s o r) : RecFor env objs s' o r := by
  obtain ⟨h1, h2, h3⟩ := h
  refine ⟨h1, ?_, Rel.imp (fun _ _ => tokFor_mono he) h3⟩
  cases ha : o.newargs <;> cases hb : r.args <;> simp only [ha, hb] at h2 ⊢
  exact Rel.imp (fun _ _ => tokFor_mono he) h2

/-- `serialize`: the record is the object with every persistent leaf replaced by its token; and the
    leaves are processed in the order class meta, state -/
theorem serialize_spec {env : Env} {objs : List Obj} {s s' : WState} {h : H} {r : Record}
    (hs : serialize env objs s h = .ok (r, s')) :
    ∃ o, objs[h]? = some o ∧ Ext objs s s' ∧ RecFor env objs s' o r ∧
      mapS (persistentId env objs) s o.leaves = .ok (r.tokens, s') := by
  unfold serialize at hs
  cases ho : objs[h]? with
  | none => simp [ho] at hs
  | some o =>
    refine ⟨o, rfl, ?_⟩
    simp only [ho] at hs
    cases ha : o.newargs with
    | none =>
      simp only [ha] at hs
      cases ht : traverse (persistentId env objs) s o.state with
      | error e => simp [ht] at hs
      | ok p =>
        obtain ⟨st, s1⟩ := p
        simp only [ht, Except.ok.injEq, Prod.mk.injEq] at hs
        obtain ⟨rfl, rfl⟩ := hs
        obtain ⟨e, rel⟩ := traverse_persistentId ht
        refine ⟨e, ⟨rfl, by simp [ha], rel⟩, ?_⟩
        simpa [Obj.leaves, Record.tokens, ha] using traverse_leaves _ _ _ _ _ ht
    | some a =>
      simp only [ha] at hs
      cases ht1 : traverse (persistentId env objs) s a with
      | error e => simp [ht1] at hs
      | ok p1 =>
        obtain ⟨a', s1⟩ := p1
        simp only [ht1] at hs
        cases ht : traverse (persistentId env objs) s1 o.state with
        | error e => simp [ht] at hs
        | ok p =>
          obtain ⟨st, s2⟩ := p
          simp only [ht, Except.ok.injEq, Prod.mk.injEq] at hs
          obtain ⟨rfl, rfl⟩ := hs
          obtain ⟨e1, rel1⟩ := traverse_persistentId ht1
          obtain ⟨e2, rel2⟩ := traverse_persistentId ht
          refine ⟨ext_trans e1 e2, ⟨rfl, ?_, rel2⟩, ?_⟩
          · simp only [ha]
            exact Rel.imp (fun _ _ => tokFor_mono e2) rel1
          · simp only [Obj.leaves, Record.tokens, ha]
            exact mapS_append_of_ok (traverse_leaves _ _ _ _ _ ht1) (traverse_leaves _ _ _ _ _ ht)

/-- leaves and tokens of object and record correspond position by position -/
theorem recFor_tokens {env : Env} {objs : List Obj} {s : WState} {o : Obj} {r : Record}
    (h : RecFor env objs s o r) : Forall2 (TokFor env objs s) o.leaves r.tokens := by
  obtain ⟨_, h2, h3⟩ := h
  unfold Obj.leaves Record.tokens
  cases ha : o.newargs <;> cases hb : r.args <;> simp only [ha, hb] at h2 ⊢
  · simpa using h3.2
  · exact forall2_append h2.2 h3.2

theorem recFor_atoms {env : Env} {objs : List Obj} {s : WState} {o : Obj} {r : Record}
    (h : RecFor env objs s o r) : r.atoms = o.atoms := by
  obtain ⟨_, h2, h3⟩ := h
  unfold Obj.atoms Record.atoms
  cases ha : o.newargs <;> cases hb : r.args <;> simp only [ha, hb] at h2 ⊢
  · simpa using (Rel.atoms h3).symm
  · rw [Rel.atoms h2, Rel.atoms h3]

/-! ### `referencesf` is exact -/

theorem referencesOf_tokFor {env : Env} {objs : List Obj} {s : WState} {ls : List PLeaf}
    {toks : List Tok} (h : Forall2 (TokFor env objs s) ls toks) :
    referencesOf toks = .ok (strongRefs env objs s ls) := by
  induction h with
  | nil => rfl
  | @cons l tk ls toks hl _ ih =>
    cases l with
    | weak t =>
      obtain ⟨o, oid, ho, hc, hm⟩ := hl
      simp only [strongRefs]
      by_cases hown : curJar env o s t = env.own
      · rw [if_pos hown] at hm
        subst hm; simpa [referencesOf] using ih
      · rw [if_neg hown] at hm
        obtain ⟨d, c, _, rfl⟩ := hm; simpa [referencesOf] using ih
    | strong t =>
      obtain ⟨o, oid, ho, hc, hm⟩ := hl
      simp only [strongRefs, ho]
      by_cases hown : curJar env o s t = env.own
      · rw [if_pos hown] at hm
        simp only [hown, if_true, hc]
        subst hm
        cases o.newargs.isSome <;> simp [referencesOf, OidTok.norm, ih]
      · rw [if_neg hown] at hm
        simp only [hown, if_false]
        obtain ⟨d, c, _, rfl⟩ := hm
        cases o.newargs.isSome <;> simpa [referencesOf] using ih

/-- `str` oids: a reference whose oid arrives as `str` counts exactly like the same reference with
    the oid as bytes -/
def Tok.mapOid (f : OidTok → OidTok) : Tok → Tok
  | .oid o => .oid (f o)
  | .tup o c => .tup (f o) c
  | .weak o d => .weak (f o) d
  | .multi d o c => .multi d (f o) c
  | .multiOid d o => .multiOid d (f o)
  | .legacyWeak o => .legacyWeak (f o)

/-- replace every all-ASCII `bytes` oid by the `str` the Python-2 pickle decodes to -/
def py2 : OidTok → OidTok
  | .bytes b => if b.all (· < 128) then .str b else .bytes b
  | .str s => .str s

theorem norm_py2 (o : OidTok) : (py2 o).norm = o.norm := by
  cases o with
  | bytes b =>
    by_cases h : b.all (· < 128) = true
    · simp [py2, OidTok.norm, asciiEncode, h]
    · simp [py2, h]
  | str s => rfl

theorem referencesOf_py2 (toks : List Tok) :
    referencesOf (toks.map (Tok.mapOid py2)) = referencesOf toks := by
  induction toks with
  | nil => rfl
  | cons t ts ih =>
    cases t <;> simp [referencesOf, Tok.mapOid, norm_py2, ih]

end Proofs.Refs
