/-
  LINK lemmas, record-level stores: the store of C17 (`ZodbModel/Copy.lean`: pointers are
  (level, index) pairs, resolved by `Copy.loadBack` / `Copy.recAt`, iterated by `Copy.iterate`)
  against the log of C04 (`ZodbModel/FileStore.lean`: pointers are byte offsets, resolved by
  `FileStore.loadBack` / `FileStore.recAt`, abstracted to a `History` by `FileStore.absLog`).

  The translation `storeL` keeps the transactions newest first, puts the records newest first and
  turns every pointer into the byte offset `Recover.recOff` computes — the offset the encoder of
  C17 writes, hence (Proofs/LinksBytes.lean) the one the encoder of C01 writes.
-/
import Proofs.LinksBytes
import Proofs.LinksSizes
namespace Proofs.Links
open ZodbModel

def cBodyL (older : Copy.Store) : Copy.Body → FileStore.Body
  | .full d => .data d
  | .back l i => .back (Recover.recOff older l i)
  | .uncreate => .back 0

def recL (older : Copy.Store) (r : Copy.Rec) : FileStore.DRec :=
  ⟨r.oid, r.serial, Recover.ptrOff older r.prev, cBodyL older r.body⟩

def txnL (older : Copy.Store) (t : Copy.Txn) : FileStore.FTxn :=
  ⟨t.tid, t.status, t.user, t.desc, t.ext, (t.recs.map (recL older)).reverse⟩

def storeL : Copy.Store → FileStore.Log
  | [] => []
  | t :: older => txnL older t :: storeL older

/-- what the iterator yields, as a `History` transaction (the per-record tid is dropped: it is the
    transaction's tid in a well-formed store) -/
def itxnH (x : Copy.ITxn) : History.Txn :=
  ⟨x.tid, x.status, x.user, x.desc, x.ext, x.recs.map fun r => ⟨r.oid, r.data, r.dataTxn⟩⟩

/-! ### sizes and the commuting triangle -/

theorem recL_size (older : Copy.Store) (r : Copy.Rec) : (recL older r).size = Recover.recLen r := by
  obtain ⟨oid, serial, prev, body⟩ := r
  cases body <;> rfl

theorem recsSize_recL (older : Copy.Store) (rs : List Copy.Rec) :
    FileStore.recsSize ((rs.map (recL older)).reverse) = Recover.recsLen rs := by
  induction rs with
  | nil => rfl
  | cons r rs ih =>
    rw [List.map_cons, List.reverse_cons, Proofs.FileStoreBasic.recsSize_append, ih]
    simp only [FileStore.recsSize, recL_size, Recover.recsLen]
    omega

theorem txnL_size (older : Copy.Store) (t : Copy.Txn) : (txnL older t).size = Recover.tlen t + 8 := by
  show (23 + t.user.length + t.desc.length + t.ext.length) +
    FileStore.recsSize ((t.recs.map (recL older)).reverse) + 8 = _
  rw [recsSize_recL]; rfl

theorem logEnd_storeL (S : Copy.Store) : FileStore.logEnd (storeL S) = Recover.storeSize S := by
  induction S with
  | nil => rfl
  | cons t older ih => simp only [storeL, FileStore.logEnd, Recover.storeSize, ih, txnL_size]

theorem fsBodyF_cBodyL (older : Copy.Store) (b : Copy.Body) : fsBodyF (cBodyL older b) = bodyF older b := by
  cases b <;> rfl

/-- Copy.Store → FileStore.Log → Format  =  Copy.Store → Format -/
theorem logF_storeL (S : Copy.Store) : logF (storeL S) = storeF S := by
  induction S with
  | nil => rfl
  | cons t older ih =>
    rw [storeL, logF, storeF, ih]
    congr 2
    unfold ftxnF txnL txnF
    simp only [List.reverse_reverse, List.map_map, logEnd_storeL]
    congr 1
    apply List.map_congr_left
    intro r _
    simp only [Function.comp, drecF, recL, recF, fsBodyF_cBodyL]

/-! ### a pointer designates the same record in both stores -/

theorem recAtIn_mid (base : Nat) (pre : List FileStore.DRec) (r : FileStore.DRec)
    (older : List FileStore.DRec) :
    FileStore.recAtIn base (pre ++ r :: older) (base + FileStore.recsSize older) = some r := by
  induction pre with
  | nil => simp [FileStore.recAtIn]
  | cons a pre ih =>
    simp only [List.cons_append, FileStore.recAtIn]
    have h1 := Proofs.FileStoreBasic.recsSize_append pre (r :: older)
    have h2 := Proofs.FileStoreBasic.size_ge r
    simp only [FileStore.recsSize] at h1
    rw [if_neg (by omega)]
    exact ih

theorem getElem?_split {α} {l : List α} {i : Nat} {x : α} (h : l[i]? = some x) :
    l = l.take i ++ x :: l.drop (i + 1) := by
  induction l generalizing i with
  | nil => simp at h
  | cons a l ih =>
    cases i with
    | zero => simp at h; simp [h]
    | succ j =>
      simp only [List.getElem?_cons_succ] at h
      simp only [List.take_succ_cons, List.drop_succ_cons, List.cons_append]
      rw [← ih h]

theorem recAtIn_recL (older : Copy.Store) (base : Nat) (rs : List Copy.Rec) (i : Nat) (r : Copy.Rec)
    (h : rs[i]? = some r) :
    FileStore.recAtIn base ((rs.map (recL older)).reverse) (base + Recover.recsLen (rs.take i)) =
      some (recL older r) := by
  have hs := getElem?_split h
  have : (rs.map (recL older)).reverse =
      ((rs.drop (i + 1)).map (recL older)).reverse ++ recL older r :: ((rs.take i).map (recL older)).reverse := by
    conv => lhs; rw [hs]
    simp [List.map_append, List.reverse_append]
  rw [this, ← recsSize_recL older (rs.take i)]
  exact recAtIn_mid _ _ _ _

theorem recOff_bounds {S : Copy.Store} {l i : Nat} {r : Copy.Rec} {o : Copy.Store}
    (h : Copy.recAt S l i = some (r, o)) :
    27 ≤ Recover.recOff S l i ∧ Recover.recOff S l i + 42 ≤ Recover.storeSize S := by
  induction S with
  | nil => simp [Copy.recAt] at h
  | cons t older ih =>
    simp only [Copy.recAt] at h
    simp only [Recover.recOff, Recover.storeSize]
    split at h
    · rename_i hl
      rw [if_pos hl]
      cases hr : t.recs[i]? with
      | none => simp [hr] at h
      | some x =>
        have hi : i < t.recs.length := by
          have := List.getElem?_eq_some_iff.1 hr; exact this.1
        have h1 := Proofs.Recover.recsLen_take_get t.recs i hi
        have h2 := Proofs.Recover.recLen_ge t.recs[i]
        have h3 := Proofs.Recover.storeSize_ge older
        simp only [Recover.tlen, Recover.hdrLen]
        omega
    · rename_i hl
      rw [if_neg hl]
      have := ih h
      omega

theorem recAt_storeL {S : Copy.Store} {l i : Nat} {r : Copy.Rec} {o : Copy.Store}
    (h : Copy.recAt S l i = some (r, o)) :
    (FileStore.recAt (storeL S) (Recover.recOff S l i)).map (·.2) = some (recL o r) := by
  induction S with
  | nil => simp [Copy.recAt] at h
  | cons t older ih =>
    have hb := recOff_bounds h
    simp only [Copy.recAt] at h
    simp only [Recover.recOff] at hb ⊢
    simp only [storeL, FileStore.recAt, logEnd_storeL]
    split at h
    · rename_i hl
      rw [if_pos hl] at hb ⊢
      cases hr : t.recs[i]? with
      | none => simp [hr] at h
      | some x =>
        simp only [hr, Option.map_some, Option.some.injEq, Prod.mk.injEq] at h
        obtain ⟨rfl, rfl⟩ := h
        rw [if_pos (by omega)]
        have := recAtIn_recL older (Recover.storeSize older + Recover.hdrLen t) t.recs i x hr
        have hrecs : (txnL older t).recs = (t.recs.map (recL older)).reverse := rfl
        have hh : (txnL older t).hdrLen = Recover.hdrLen t := rfl
        rw [hrecs, hh, this]; rfl
    · rename_i hl
      rw [if_neg hl] at hb ⊢
      have h1 := recOff_bounds h
      rw [if_neg (by omega)]
      exact ih h

theorem loadBack_recAt {S : Copy.Store} {l i : Nat} {x : Option Bytes}
    (h : Copy.loadBack S l i = some x) : ∃ r o, Copy.recAt S l i = some (r, o) := by
  induction S with
  | nil => simp [Copy.loadBack] at h
  | cons t older ih =>
    simp only [Copy.loadBack] at h
    simp only [Copy.recAt]
    split at h
    · rename_i hl
      rw [if_pos hl]
      cases hr : t.recs[i]? with
      | none => simp [hr] at h
      | some r => exact ⟨r, older, rfl⟩
    · rename_i hl
      rw [if_neg hl]
      exact ih h

theorem loadBack_storeL {S : Copy.Store} {l i : Nat} {x : Option Bytes}
    (h : Copy.loadBack S l i = some x) :
    FileStore.loadBack (storeL S) (Recover.recOff S l i) = x := by
  induction S generalizing l i with
  | nil => simp [Copy.loadBack] at h
  | cons t older ih =>
    obtain ⟨r0, o0, h0⟩ := loadBack_recAt h
    have hb := recOff_bounds h0
    simp only [Copy.loadBack] at h
    simp only [Recover.recOff] at hb ⊢
    simp only [storeL, FileStore.loadBack, logEnd_storeL]
    split at h
    · rename_i hl
      rw [if_pos hl] at hb ⊢
      cases hr : t.recs[i]? with
      | none => simp [hr] at h
      | some r =>
        simp only [hr] at h
        rw [if_pos (by omega)]
        have := recAtIn_recL older (Recover.storeSize older + Recover.hdrLen t) t.recs i r hr
        have hrecs : (txnL older t).recs = (t.recs.map (recL older)).reverse := rfl
        have hh : (txnL older t).hdrLen = Recover.hdrLen t := rfl
        rw [hrecs, hh, this]
        show (match cBodyL older r.body with
              | .data d => some d
              | .back q => FileStore.loadBack (storeL older) q) = x
        cases hbd : r.body with
        | full d => rw [hbd] at h; cases h; rfl
        | uncreate =>
          rw [hbd] at h; cases h
          exact Proofs.FileStoreBasic.loadBack_zero _
        | back l' i' =>
          rw [hbd] at h
          exact ih h
    · rename_i hl
      rw [if_neg hl] at hb ⊢
      obtain ⟨r1, o1, h1⟩ := loadBack_recAt h
      have h2 := recOff_bounds h1
      rw [if_neg (by omega)]
      exact ih h

/-! ### the iterator of C17 is the abstraction function of C04 -/

theorem absRec_recL {older : Copy.Store} {r : Copy.Rec} {x : Copy.IRec}
    (h : Copy.iterRec older r = some x) :
    FileStore.absRec (storeL older) (recL older r) = ⟨x.oid, x.data, x.dataTxn⟩ := by
  unfold Copy.iterRec at h
  unfold FileStore.absRec recL
  cases hb : r.body with
  | full d => simp only [hb] at h; cases h; rfl
  | uncreate => simp only [hb] at h; cases h; rfl
  | back l i =>
    simp only [hb] at h
    cases h1 : Copy.loadBack older l i with
    | none => simp [h1] at h
    | some d =>
      cases h2 : Copy.recAt older l i with
      | none => simp [h1, h2] at h
      | some ro =>
        obtain ⟨r', o'⟩ := ro
        simp only [h1, h2] at h
        split at h
        · cases h
          have hq := (recOff_bounds h2).1
          have hne : Recover.recOff older l i ≠ 0 := by omega
          simp only [cBodyL, hne, if_false]
          rw [loadBack_storeL h1]
          have := recAt_storeL h2
          have h3 : (FileStore.recAt (storeL older) (Recover.recOff older l i)).map (fun th => th.2.tid) =
              ((FileStore.recAt (storeL older) (Recover.recOff older l i)).map (·.2)).map (·.tid) := by
            rw [Option.map_map]; rfl
          rw [h3, this]; rfl
        · cases h

theorem absRecs_recL {older : Copy.Store} {rs : List Copy.Rec} {xs : List Copy.IRec}
    (h : Copy.iterRecs older rs = some xs) :
    rs.map (fun r => FileStore.absRec (storeL older) (recL older r)) =
      xs.map (fun r => ⟨r.oid, r.data, r.dataTxn⟩) := by
  induction rs generalizing xs with
  | nil => simp only [Copy.iterRecs] at h; cases h; rfl
  | cons r rs ih =>
    simp only [Copy.iterRecs] at h
    cases h1 : Copy.iterRec older r with
    | none => simp [h1] at h
    | some x =>
      cases h2 : Copy.iterRecs older rs with
      | none => simp [h1, h2] at h
      | some ys =>
        simp only [h1, h2] at h
        cases h
        simp only [List.map_cons, absRec_recL h1, ih h2]

theorem absTxn_txnL {older : Copy.Store} {t : Copy.Txn} {x : Copy.ITxn}
    (h : Copy.iterTxn older t = some x) :
    FileStore.absTxn (storeL older) (txnL older t) = itxnH x := by
  unfold Copy.iterTxn at h
  cases h3 : Copy.iterRecs older t.recs with
  | none => simp [h3] at h
  | some xs =>
    simp only [h3] at h
    cases h
    unfold FileStore.absTxn txnL itxnH
    simp only [List.reverse_reverse, List.map_map]
    rw [← absRecs_recL h3]
    rfl

/-- `FileStore.abs` of the translated store is what `Copy.iterate` yields -/
theorem absLog_storeL {S : Copy.Store} {rs : List Copy.ITxn} (h : Copy.iterate S = some rs) :
    (FileStore.absLog (storeL S)).reverse = rs.map itxnH := by
  induction S generalizing rs with
  | nil => simp only [Copy.iterate] at h; cases h; rfl
  | cons t older ih =>
    simp only [Copy.iterate] at h
    cases h1 : Copy.iterate older with
    | none => simp [h1] at h
    | some ts =>
      cases h2 : Copy.iterTxn older t with
      | none => simp [h1, h2] at h
      | some x =>
        simp only [h1, h2] at h
        cases h
        simp only [storeL, FileStore.absLog, List.reverse_cons, ih h1, absTxn_txnL h2, List.map_append,
          List.map_cons, List.map_nil]


/-! ### C17's well-formed stores satisfy C04's log invariant -/

/-- every `prev` field holds what the index held when the record was written (what `store`,
    `restore`, undo write; `StoreOK` of C17 leaves `prev` unconstrained because neither the iterator
    nor recovery reads it) -/
def PrevOK : Copy.Store → Prop
  | [] => True
  | t :: older => (∀ r ∈ t.recs, r.prev = Copy.indexGet older r.oid) ∧ PrevOK older

theorem lastRecIn_snoc (base : Nat) (l : List FileStore.DRec) (a : FileStore.DRec) (oid : Nat) :
    FileStore.lastRecIn base (l ++ [a]) oid =
      match FileStore.lastRecIn (base + a.size) l oid with
      | some rp => some rp
      | none => if a.oid = oid then some (a, base) else none := by
  induction l with
  | nil => simp [FileStore.lastRecIn, FileStore.recsSize]
  | cons b l ih =>
    simp only [List.cons_append, FileStore.lastRecIn]
    by_cases hb : b.oid = oid
    · simp only [hb, if_true]
      rw [Proofs.FileStoreBasic.recsSize_append]
      simp only [FileStore.recsSize]
      congr 2; omega
    · simp only [hb, if_false]; exact ih

theorem lastRecIn_recL (older : Copy.Store) (rs : List Copy.Rec) (oid : Nat) : ∀ base,
    (FileStore.lastRecIn base ((rs.map (recL older)).reverse) oid).map (·.2) =
      (Copy.lastIdx oid (rs.map (·.oid))).map (fun i => base + Recover.recsLen (rs.take i)) := by
  induction rs with
  | nil => intro base; rfl
  | cons r rs ih =>
    intro base
    rw [List.map_cons, List.reverse_cons, lastRecIn_snoc]
    have ih' := ih (base + (recL older r).size)
    simp only [List.map_cons, Copy.lastIdx]
    cases h1 : FileStore.lastRecIn (base + (recL older r).size) ((rs.map (recL older)).reverse) oid with
    | some rp =>
      rw [h1] at ih'
      cases h2 : Copy.lastIdx oid (rs.map (·.oid)) with
      | none => rw [h2] at ih'; simp at ih'
      | some i =>
        rw [h2] at ih'
        simp only [Option.map_some, Option.some.injEq] at ih' ⊢
        rw [ih', recL_size]
        simp only [List.take_succ_cons, Recover.recsLen]; omega
    | none =>
      rw [h1] at ih'
      cases h2 : Copy.lastIdx oid (rs.map (·.oid)) with
      | some i => rw [h2] at ih'; simp at ih'
      | none =>
        show Option.map _ (if r.oid = oid then _ else _) = Option.map _ (if r.oid = oid then _ else _)
        by_cases ho : r.oid = oid
        · simp [ho, Recover.recsLen]
        · simp [ho]

theorem indexGet_lt {S : Copy.Store} {oid l i : Nat} (h : Copy.indexGet S oid = some (l, i)) :
    l < S.length := by
  induction S with
  | nil => simp [Copy.indexGet] at h
  | cons t older ih =>
    simp only [Copy.indexGet] at h
    split at h
    · cases h; simp
    · have := ih h; simp only [List.length_cons]; omega

theorem lastPos_storeL (S : Copy.Store) (oid : Nat) :
    FileStore.lastPos oid (storeL S) = Recover.ptrOff S (Copy.indexGet S oid) := by
  induction S with
  | nil => rfl
  | cons t older ih =>
    simp only [storeL, FileStore.lastPos, Copy.indexGet, logEnd_storeL]
    have hrecs : (txnL older t).recs = (t.recs.map (recL older)).reverse := rfl
    have hh : (txnL older t).hdrLen = Recover.hdrLen t := rfl
    have key := lastRecIn_recL older t.recs oid (Recover.storeSize older + Recover.hdrLen t)
    rw [hrecs, hh]
    have hoids : Copy.oids t = t.recs.map (·.oid) := rfl
    rw [hoids]
    cases h1 : FileStore.lastRecIn (Recover.storeSize older + Recover.hdrLen t)
        ((t.recs.map (recL older)).reverse) oid with
    | some rp =>
      rw [h1] at key
      cases h2 : Copy.lastIdx oid (t.recs.map (·.oid)) with
      | none => rw [h2] at key; simp at key
      | some i =>
        rw [h2] at key
        simp only [Option.map_some, Option.some.injEq] at key
        simp only [Recover.ptrOff, Recover.recOff, if_true]
        exact key
    | none =>
      rw [h1] at key
      cases h2 : Copy.lastIdx oid (t.recs.map (·.oid)) with
      | some i => rw [h2] at key; simp at key
      | none =>
        simp only
        rw [ih]
        cases h3 : Copy.indexGet older oid with
        | none => rfl
        | some li =>
          obtain ⟨l, i⟩ := li
          have := indexGet_lt h3
          simp only [Recover.ptrOff, Recover.recOff]
          rw [if_neg (by omega)]

theorem txnAt_recAt {S : Copy.Store} {l : Nat} {t' : Copy.Txn} {o' : Copy.Store}
    (h : Proofs.Copy.txnAt S l = some (t', o')) (i : Nat) :
    Copy.recAt S l i = (t'.recs[i]?).map (fun r => (r, o')) := by
  induction S with
  | nil => simp [Proofs.Copy.txnAt] at h
  | cons t older ih =>
    simp only [Proofs.Copy.txnAt] at h
    simp only [Copy.recAt]
    split at h
    · rename_i hl
      cases h
      rw [if_pos hl]
    · rename_i hl
      rw [if_neg hl]; exact ih h

theorem lastIdx_get {oid : Nat} {l : List Nat} {i : Nat} (h : Copy.lastIdx oid l = some i) :
    l[i]? = some oid := by
  induction l generalizing i with
  | nil => simp [Copy.lastIdx] at h
  | cons o rest ih =>
    simp only [Copy.lastIdx] at h
    cases h1 : Copy.lastIdx oid rest with
    | some j =>
      rw [h1] at h
      cases h
      simp only [List.getElem?_cons_succ]
      exact ih h1
    | none =>
      simp only [h1] at h
      by_cases ho : o = oid
      · simp only [ho, if_true, Option.some.injEq] at h
        subst h; simp [ho]
      · simp [ho] at h

theorem mem_storeL {S : Copy.Store} {t' : FileStore.FTxn} (h : t' ∈ storeL S) :
    ∃ t ∈ S, t'.tid = t.tid := by
  induction S with
  | nil => cases h
  | cons t older ih =>
    simp only [storeL] at h
    rcases List.mem_cons.1 h with rfl | h
    · exact ⟨t, List.mem_cons_self, rfl⟩
    · obtain ⟨t0, h0, h1⟩ := ih h
      exact ⟨t0, List.mem_cons_of_mem _ h0, h1⟩

/-- a well-formed store of C17 whose `prev` fields are index values is, translated, a log
    satisfying the invariant of C04 -/
theorem logInv_storeL {S : Copy.Store} (hok : Proofs.Copy.StoreOK S) (hne : NoEmptyPickle S)
    (hst : ∀ t ∈ S, t.status ≠ 117 ∧ t.status ≠ 99) (hp : PrevOK S) :
    FileStore.LogInv (storeL S) := by
  induction S with
  | nil => trivial
  | cons t older ih =>
    obtain ⟨hok1, hok2, hok3⟩ := hok
    refine ⟨?_, ?_, hst t List.mem_cons_self,
      ih hok1 (fun x hx => hne x (List.mem_cons_of_mem _ hx))
        (fun x hx => hst x (List.mem_cons_of_mem _ hx)) hp.2⟩
    · intro t' ht'
      obtain ⟨t0, h0, h1⟩ := mem_storeL ht'
      have := hok2 t0 h0
      show t'.tid < t.tid
      omega
    · intro r' hr'
      have hr'' : r' ∈ (t.recs.map (recL older)).reverse := hr'
      obtain ⟨r, hr, rfl⟩ := List.mem_map.1 (List.mem_reverse.1 hr'')
      obtain ⟨hser, hptr⟩ := hok3 r hr
      refine ⟨hser, ?_, ?_⟩
      · show Recover.ptrOff older r.prev = _
        rw [lastPos_storeL, hp.1 r hr]; rfl
      · show (match cBodyL older r.body with
              | .data d => d ≠ []
              | .back q => q = 0 ∨ ∃ th, FileStore.recAt (storeL older) q = some th ∧ th.2.oid = r.oid)
        cases hb : r.body with
        | full d =>
          simp only [cBodyL]
          intro e; exact hne t List.mem_cons_self r hr (by rw [hb, e])
        | uncreate => simp only [cBodyL]; exact Or.inl trivial
        | back l i =>
          simp only [cBodyL]
          right
          rw [hb] at hptr
          obtain ⟨t', o', h1, h2⟩ := hptr
          have h3 := lastIdx_get h2
          have hoids : Copy.oids t' = t'.recs.map (·.oid) := rfl
          rw [hoids, List.getElem?_map] at h3
          cases h4 : t'.recs[i]? with
          | none => rw [h4] at h3; simp at h3
          | some r0 =>
            rw [h4] at h3
            simp only [Option.map_some, Option.some.injEq] at h3
            have h5 : Copy.recAt older l i = some (r0, o') := by rw [txnAt_recAt h1, h4]; rfl
            have h6 := recAt_storeL h5
            cases h7 : FileStore.recAt (storeL older) (Recover.recOff older l i) with
            | none => rw [h7] at h6; simp at h6
            | some th =>
              rw [h7] at h6
              simp only [Option.map_some, Option.some.injEq] at h6
              exact ⟨th, rfl, by rw [h6]; exact h3⟩

/-- the C04 state a FileStorage open builds on a log: index, `_pos`, `_ltid` from the scan -/
def openLog (log : FileStore.Log) : FileStore.FS :=
  FileStore.reopen { log := log, index := [], pos := 4, ltid := 0, ts := 0, txn := none }

theorem openLog_inv {log : FileStore.Log} (h : FileStore.LogInv log) : FileStore.Inv (openLog log) := by
  unfold openLog FileStore.reopen
  simp only [Proofs.FileStoreStep.readIndex_eq]
  refine ⟨h, rfl, Proofs.FileStoreStep.idxGet_rebuild log, Proofs.FileStoreStep.rebuild_pos log, rfl,
    Nat.le_refl _, ?_⟩
  intro st hst; simp at hst

theorem openLog_log (log : FileStore.Log) : (openLog log).log = log := rfl

/-! ### every store built by `restore` (C17's copy, recovery's output) satisfies `PrevOK` -/

theorem restoreRecs_prev {D : Copy.Store} {rs : List Copy.IRec} {xs : List Copy.Rec}
    (h : Copy.restoreRecs D rs = .ok xs) : ∀ x ∈ xs, x.prev = Copy.indexGet D x.oid := by
  induction rs generalizing xs with
  | nil => simp only [Copy.restoreRecs] at h; cases h; intro x hx; cases hx
  | cons r rs ih =>
    simp only [Copy.restoreRecs] at h
    cases h1 : Copy.restoreRec D r with
    | error e => simp [h1] at h
    | ok x =>
      cases h2 : Copy.restoreRecs D rs with
      | error e => simp [h1, h2] at h
      | ok ys =>
        simp only [h1, h2] at h
        cases h
        intro y hy
        rcases List.mem_cons.1 hy with rfl | hy
        · obtain ⟨f1, _, f3⟩ := Proofs.Copy.restoreRec_fields h1
          rw [f3, f1]
        · exact ih h2 y hy

theorem restoreTxn_prev {D D' : Copy.Store} {t : Copy.ITxn} {tid : Nat}
    (h : Copy.restoreTxn D t tid = .ok D') (hp : PrevOK D) : PrevOK D' := by
  unfold Copy.restoreTxn at h
  cases h1 : Copy.restoreRecs D t.recs with
  | error e => simp [h1] at h
  | ok rs =>
    simp only [h1] at h
    cases h
    exact ⟨restoreRecs_prev h1, hp⟩

theorem copyLoop_prev {src : List Copy.ITxn} {ts : Option Nat} {D D' : Copy.Store}
    (h : Copy.copyLoop src ts D = .ok D') (hp : PrevOK D) : PrevOK D' := by
  induction src generalizing ts D with
  | nil => simp only [Copy.copyLoop] at h; cases h; exact hp
  | cons t rest ih =>
    simp only [Copy.copyLoop] at h
    cases h1 : Copy.restoreTxn D t (Copy.fixTid ts t.tid).1 with
    | error e => simp [h1] at h
    | ok D1 =>
      simp only [h1] at h
      exact ih h (restoreTxn_prev h1 hp)

instance instDecidablePrevOK : (S : Copy.Store) → Decidable (PrevOK S)
  | [] => isTrue trivial
  | t :: older => by
    unfold PrevOK
    have := instDecidablePrevOK older
    infer_instance

end Proofs.Links
