/-
  Helper lemmas for C07 (`Props/C07.lean`), part 1: list facts, the query functions of
  `ZodbModel/Pack.lean` on `pre ++ post`, and erasure of back pointers.  Core Lean only.
-/
import ZodbModel.Pack
namespace Proofs.Pack
open ZodbModel ZodbModel.Pack

/-! ### lists -/

theorem find?_eq_head?_of_all {α} (p : α → Bool) (l : List α) (h : ∀ x ∈ l, p x = true) :
    l.find? p = l.head? := by
  cases l with
  | nil => rfl
  | cons a t => simp [List.find?, h a (List.mem_cons_self ..)]

theorem find?_eq_none_of_all {α} (p : α → Bool) (l : List α) (h : ∀ x ∈ l, p x = false) :
    l.find? p = none := by
  rw [List.find?_eq_none]; intro x hx; simp [h x hx]

theorem getLast?_filter_of_last {α} (p : α → Bool) (l : List α) (x : α)
    (h : l.getLast? = some x) (hp : p x = true) : (l.filter p).getLast? = some x := by
  rw [List.getLast?_filter]
  rw [← List.head?_reverse] at h
  cases hr : l.reverse with
  | nil => simp [hr] at h
  | cons a t =>
    rw [hr] at h; simp only [List.head?_cons, Option.some.injEq] at h; subst h
    simp [List.find?, hp]

/-! ### sortedness and the split at the pack time -/

abbrev preOf (h : History) (T : Tid) : History := h.takeWhile (fun t => decide (t.tid ≤ T))
abbrev postOf (h : History) (T : Tid) : History := h.dropWhile (fun t => decide (t.tid ≤ T))

theorem pre_append_post (h : History) (T : Tid) : preOf h T ++ postOf h T = h :=
  List.takeWhile_append_dropWhile

theorem pre_le {h : History} {T : Tid} {t : Txn} (ht : t ∈ preOf h T) : t.tid ≤ T := by
  have hall : (preOf h T).all (fun t => decide (t.tid ≤ T)) = true := List.all_takeWhile
  have := List.all_eq_true.1 hall t ht
  simpa using this

theorem post_gt {h : History} {T : Tid} (hs : Sorted h) : ∀ t ∈ postOf h T, T < t.tid := by
  induction h with
  | nil => simp [postOf]
  | cons a rest ih =>
    intro t ht
    unfold postOf at ht
    rw [List.dropWhile_cons] at ht
    have hs' : Sorted rest := (List.pairwise_cons.1 hs).2
    split at ht
    · exact ih hs' t ht
    · rename_i hna
      have ha : T < a.tid := by simpa using hna
      rcases List.mem_cons.1 ht with rfl | ht
      · exact ha
      · have h1 : a.tid < t.tid := (List.pairwise_cons.1 hs).1 t ht
        omega

theorem sorted_append {a b : History} (hs : Sorted (a ++ b)) : Sorted a ∧ Sorted b ∧
    ∀ x ∈ a, ∀ y ∈ b, x.tid < y.tid := by
  have := List.pairwise_append.1 hs
  exact ⟨this.1, this.2.1, this.2.2⟩

theorem sorted_pre {h : History} (T : Tid) (hs : Sorted h) : Sorted (preOf h T) := by
  have := pre_append_post h T ▸ hs
  exact (sorted_append (a := preOf h T) (b := postOf h T) (by rw [pre_append_post]; exact hs)).1

theorem sorted_post {h : History} (T : Tid) (hs : Sorted h) : Sorted (postOf h T) :=
  (sorted_append (a := preOf h T) (b := postOf h T) (by rw [pre_append_post]; exact hs)).2.1

/-- in a sorted history a tid identifies the transaction -/
theorem sorted_tid_inj {h : History} (hs : Sorted h) {a b : Txn} (ha : a ∈ h) (hb : b ∈ h)
    (e : a.tid = b.tid) : a = b := by
  induction h with
  | nil => simp at ha
  | cons x rest ih =>
    have ⟨h1, h2⟩ := List.pairwise_cons.1 hs
    rcases List.mem_cons.1 ha with rfl | ha' <;> rcases List.mem_cons.1 hb with rfl | hb'
    · rfl
    · have h3 : a.tid < b.tid := h1 b hb'
      omega
    · have h3 : b.tid < a.tid := h1 a ha'
      omega
    · exact ih h2 ha' hb'

/-! ### recsOf -/

theorem recsOf_append (a b : History) (o : Oid) : recsOf (a ++ b) o = recsOf a o ++ recsOf b o := by
  simp [recsOf]

theorem mem_recsOf {h : History} {o : Oid} {x : Tid × Rec} (hx : x ∈ recsOf h o) :
    ∃ t ∈ h, t.tid = x.1 ∧ t.recOf o = some x.2 := by
  simp only [recsOf, List.mem_filterMap, Option.map_eq_some_iff] at hx
  obtain ⟨t, ht, r, hr, rfl⟩ := hx
  exact ⟨t, ht, rfl, hr⟩

theorem mem_recsOf_of {h : History} {o : Oid} {t : Txn} {r : Rec} (ht : t ∈ h)
    (hr : t.recOf o = some r) : (t.tid, r) ∈ recsOf h o := by
  simp only [recsOf, List.mem_filterMap, Option.map_eq_some_iff]
  exact ⟨t, ht, r, hr, rfl⟩

/-! ### several records of one oid in a transaction: the last one counts -/

abbrev OidNodup (l : List Rec) : Prop := l.Pairwise (fun a b => a.oid ≠ b.oid)

theorem dedupLast_sub : ∀ {l : List Rec} {r : Rec}, r ∈ dedupLast l → r ∈ l := by
  intro l
  induction l with
  | nil => intro r h; simp [dedupLast] at h
  | cons a rest ih =>
    intro r h
    simp only [dedupLast] at h
    split at h
    · exact List.mem_cons_of_mem _ (ih h)
    · rcases List.mem_cons.1 h with rfl | h
      · exact List.mem_cons_self ..
      · exact List.mem_cons_of_mem _ (ih h)

theorem dedupLast_covers : ∀ {l : List Rec} {r : Rec}, r ∈ l → ∃ r' ∈ dedupLast l, r'.oid = r.oid := by
  intro l
  induction l with
  | nil => intro r h; simp at h
  | cons a rest ih =>
    intro r h
    simp only [dedupLast]
    rcases List.mem_cons.1 h with rfl | h
    · split
      · rename_i hany
        obtain ⟨x, hx, hox⟩ := List.any_eq_true.1 hany
        obtain ⟨r', hr', e⟩ := ih hx
        exact ⟨r', hr', by rw [e]; simpa using hox⟩
      · exact ⟨r, List.mem_cons_self .., rfl⟩
    · obtain ⟨r', hr', e⟩ := ih h
      split
      · exact ⟨r', hr', e⟩
      · exact ⟨r', List.mem_cons_of_mem _ hr', e⟩

theorem dedupLast_nodup : ∀ (l : List Rec), OidNodup (dedupLast l) := by
  intro l
  induction l with
  | nil => exact List.Pairwise.nil
  | cons a rest ih =>
    simp only [dedupLast]
    split
    · exact ih
    · rename_i hany
      refine List.Pairwise.cons ?_ ih
      intro b hb e
      apply hany
      exact List.any_eq_true.2 ⟨b, dedupLast_sub hb, by simp [e]⟩

theorem dedupLast_of_nodup : ∀ {l : List Rec}, OidNodup l → dedupLast l = l := by
  intro l
  induction l with
  | nil => intro _; rfl
  | cons a rest ih =>
    intro h
    obtain ⟨h1, h2⟩ := List.pairwise_cons.1 h
    simp only [dedupLast]
    have : rest.any (fun x => x.oid == a.oid) = false := by
      rw [List.any_eq_false]
      intro x hx
      have := h1 x hx
      simp only [beq_iff_eq]
      exact fun e => this e.symm
    simp [this, ih h2]

theorem dedupLast_map {f : Rec → Rec} (hf : ∀ r, (f r).oid = r.oid) :
    ∀ (l : List Rec), dedupLast (l.map f) = (dedupLast l).map f := by
  intro l
  induction l with
  | nil => rfl
  | cons a rest ih =>
    simp only [List.map_cons, dedupLast, List.any_map, Function.comp_def, hf]
    split
    · exact ih
    · simp [ih]

theorem dedupLast_filter_oid (keep : Oid → Bool) :
    ∀ (l : List Rec), dedupLast (l.filter (fun r => keep r.oid)) = (dedupLast l).filter (fun r => keep r.oid) := by
  intro l
  induction l with
  | nil => rfl
  | cons a rest ih =>
    by_cases hk : keep a.oid = true
    · rw [List.filter_cons_of_pos (by simpa using hk)]
      simp only [dedupLast]
      have hany : (rest.filter (fun r => keep r.oid)).any (fun x => x.oid == a.oid) =
          rest.any (fun x => x.oid == a.oid) := by
        rw [Bool.eq_iff_iff, List.any_eq_true, List.any_eq_true]
        constructor
        · rintro ⟨x, hx, e⟩; exact ⟨x, (List.mem_filter.1 hx).1, e⟩
        · rintro ⟨x, hx, e⟩
          refine ⟨x, List.mem_filter.2 ⟨hx, ?_⟩, e⟩
          have : x.oid = a.oid := by simpa using e
          simp [this, hk]
      rw [hany]
      split
      · exact ih
      · rw [List.filter_cons_of_pos (by simpa using hk), ih]
    · rw [List.filter_cons_of_neg (by simpa using hk)]
      simp only [dedupLast]
      split
      · exact ih
      · rw [List.filter_cons_of_neg (by simpa using hk)]; exact ih

theorem oidNodup_filter {l : List Rec} (p : Rec → Bool) (h : OidNodup l) : OidNodup (l.filter p) :=
  List.Pairwise.sublist List.filter_sublist h

theorem oidNodup_map {l : List Rec} {f : Rec → Rec} (hf : ∀ r, (f r).oid = r.oid) (h : OidNodup l) :
    OidNodup (l.map f) := by
  unfold OidNodup
  rw [List.pairwise_map]
  exact h.imp (fun hab => by rw [hf, hf]; exact hab)

/-- `recOf` is the LAST record of the oid (the form used by `History.lean` / the C04 model) -/
theorem find?_dedupLast (o : Oid) : ∀ (l : List Rec),
    (dedupLast l).find? (fun r => r.oid == o) = (l.filter (fun r => r.oid == o)).getLast? := by
  intro l
  induction l with
  | nil => rfl
  | cons a rest ih =>
    simp only [dedupLast]
    by_cases hany : rest.any (fun x => x.oid == a.oid) = true
    · rw [if_pos hany, ih]
      by_cases ha : a.oid = o
      · rw [List.filter_cons_of_pos (by simpa using ha)]
        obtain ⟨x, hx, hox⟩ := List.any_eq_true.1 hany
        have hxo : x.oid = o := by rw [← ha]; simpa using hox
        have hne : rest.filter (fun r => r.oid == o) ≠ [] := by
          intro hc
          have : x ∈ rest.filter (fun r => r.oid == o) := List.mem_filter.2 ⟨hx, by simpa using hxo⟩
          rw [hc] at this; simp at this
        rw [List.getLast?_cons_of_ne_nil hne]
      · rw [List.filter_cons_of_neg (by simpa using ha)]
    · rw [if_neg hany]
      by_cases ha : a.oid = o
      · have hnil : rest.filter (fun r => r.oid == o) = [] := by
          rw [List.filter_eq_nil_iff]
          intro x hx hox
          apply hany
          exact List.any_eq_true.2 ⟨x, hx, by rw [ha]; exact hox⟩
        rw [List.filter_cons_of_pos (by simpa using ha), hnil]
        simp [List.find?, ha]
      · rw [List.filter_cons_of_neg (by simpa using ha)]
        have : (a.oid == o) = false := by simpa using ha
        simp only [List.find?, this]
        exact ih

theorem recOf_eq_last (t : Txn) (o : Oid) :
    t.recOf o = (t.recs.filter (fun r => r.oid == o)).getLast? := find?_dedupLast o t.recs

theorem recOf_mem {t : Txn} {o : Oid} {r : Rec} (h : t.recOf o = some r) : r ∈ t.recs ∧ r.oid = o := by
  unfold Txn.recOf at h
  have h1 := List.mem_of_find?_eq_some h
  have h2 := List.find?_some h
  exact ⟨dedupLast_sub h1, by simpa using h2⟩

theorem recOf_mem_dedup {t : Txn} {o : Oid} {r : Rec} (h : t.recOf o = some r) :
    r ∈ dedupLast t.recs := by
  unfold Txn.recOf at h
  exact List.mem_of_find?_eq_some h

theorem recOf_isSome_of_mem {t : Txn} {r : Rec} (h : r ∈ t.recs) : (t.recOf r.oid).isSome := by
  unfold Txn.recOf
  rw [List.find?_isSome]
  obtain ⟨r', hr', e⟩ := dedupLast_covers h
  exact ⟨r', hr', by simp [e]⟩

theorem recsOf_tid_le {h : History} {T : Tid} (hle : ∀ t ∈ h, t.tid ≤ T) {o : Oid} :
    ∀ x ∈ recsOf h o, x.1 ≤ T := by
  intro x hx
  obtain ⟨t, ht, e, _⟩ := mem_recsOf hx
  rw [← e]; exact hle t ht

theorem recsOf_tid_gt {h : History} {T : Tid} (hgt : ∀ t ∈ h, T < t.tid) {o : Oid} :
    ∀ x ∈ recsOf h o, T < x.1 := by
  intro x hx
  obtain ⟨t, ht, e, _⟩ := mem_recsOf hx
  rw [← e]; exact hgt t ht

/-! ### queries on `pre ++ post` for a bound above the pack time -/

theorem lastBefore_append {pre post : History} {T b : Tid} (hb : T < b)
    (hpre : ∀ t ∈ pre, t.tid ≤ T) (o : Oid) :
    lastBefore (pre ++ post) o b = (lastBefore post o b).or (lastRec pre o) := by
  unfold lastBefore lastRec
  rw [recsOf_append, List.reverse_append, List.find?_append]
  congr 1
  rw [find?_eq_head?_of_all, List.head?_reverse]
  intro x hx
  have h1 : x.1 ≤ T := recsOf_tid_le hpre x (List.mem_reverse.1 hx)
  simp only [decide_eq_true_eq]; omega

theorem firstFrom_append {pre post : History} {T b : Tid} (hb : T < b)
    (hpre : ∀ t ∈ pre, t.tid ≤ T) (o : Oid) :
    firstFrom (pre ++ post) o b = firstFrom post o b := by
  unfold firstFrom
  rw [recsOf_append, List.find?_append, find?_eq_none_of_all]
  · simp
  · intro x hx
    have h1 : x.1 ≤ T := recsOf_tid_le hpre x hx
    simp only [decide_eq_false_iff_not]; omega

/-- at the pack time itself nothing after it is visible -/
theorem lastBefore_at_T {pre post : History} {T : Tid}
    (hpre : ∀ t ∈ pre, t.tid ≤ T) (hpost : ∀ t ∈ post, T < t.tid) (o : Oid) :
    lastBefore (pre ++ post) o (T + 1) = lastRec pre o := by
  rw [lastBefore_append (T := T) (by omega) hpre]
  have : lastBefore post o (T + 1) = none := by
    unfold lastBefore
    apply find?_eq_none_of_all
    intro x hx
    have h1 : T < x.1 := recsOf_tid_gt hpost x (List.mem_reverse.1 hx)
    simp only [decide_eq_false_iff_not]; omega
  rw [this]; rfl

theorem lastBefore_mem {h : History} {o : Oid} {b : Tid} {x : Tid × Rec}
    (hx : lastBefore h o b = some x) : x ∈ recsOf h o ∧ x.1 < b := by
  unfold lastBefore at hx
  have h1 := List.mem_of_find?_eq_some hx
  have h2 := List.find?_some hx
  exact ⟨List.mem_reverse.1 h1, by simpa using h2⟩

theorem lastBefore_isSome_of {h : History} {o : Oid} {b : Tid} {x : Tid × Rec}
    (hx : x ∈ recsOf h o) (hb : x.1 < b) : (lastBefore h o b).isSome := by
  unfold lastBefore
  rw [List.find?_isSome]
  exact ⟨x, List.mem_reverse.2 hx, by simpa using hb⟩

theorem lastRec_mem {h : History} {o : Oid} {x : Tid × Rec} (hx : lastRec h o = some x) :
    x ∈ recsOf h o := List.mem_of_getLast? hx

/-! ### erasing back pointers (`packRec`) does not change any answer -/

def Txn.core (t : Txn) : Txn := { t with recs := t.recs.map packRec }

@[simp] theorem packRec_oid (r : Rec) : (packRec r).oid = r.oid := rfl
@[simp] theorem packRec_data (r : Rec) : (packRec r).data = r.data := rfl
@[simp] theorem packRec_dlen (r : Rec) : (packRec r).dlen = r.dlen := rfl
@[simp] theorem packRec_refs (r : Rec) : (packRec r).refs = r.refs := rfl
@[simp] theorem packRec_back (r : Rec) : (packRec r).back = none := rfl
@[simp] theorem packRec_idem (r : Rec) : packRec (packRec r) = packRec r := rfl
@[simp] theorem core_tid (t : Txn) : (Txn.core t).tid = t.tid := rfl

theorem find?_oid_map_packRec (l : List Rec) (o : Oid) :
    (l.map packRec).find? (fun r => r.oid == o) = (l.find? (fun r => r.oid == o)).map packRec := by
  rw [List.find?_map]; rfl

theorem recOf_core (t : Txn) (o : Oid) : (Txn.core t).recOf o = (t.recOf o).map packRec := by
  unfold Txn.recOf Txn.core
  simp only
  rw [dedupLast_map (f := packRec) (fun _ => rfl)]
  exact find?_oid_map_packRec _ _

def tagPack (x : Tid × Rec) : Tid × Rec := (x.1, packRec x.2)

theorem recsOf_core (h : History) (o : Oid) :
    recsOf (h.map Txn.core) o = (recsOf h o).map tagPack := by
  induction h with
  | nil => rfl
  | cons t rest ih =>
    simp only [recsOf, List.map_cons, List.filterMap_cons] at ih ⊢
    rw [recOf_core]
    cases ht : t.recOf o with
    | none => simpa using ih
    | some r => simp [tagPack, ih]

theorem loadBefore_core (h : History) (o : Oid) (b : Tid) :
    loadBefore (h.map Txn.core) o b = loadBefore h o b := by
  unfold loadBefore lastBefore firstFrom
  rw [recsOf_core]
  simp only [List.isEmpty_map, ← List.map_reverse, List.find?_map]
  have e1 : ((fun x : Tid × Rec => decide (x.1 < b)) ∘ tagPack) = (fun x => decide (x.1 < b)) := rfl
  have e2 : ((fun x : Tid × Rec => decide (b ≤ x.1)) ∘ tagPack) = (fun x => decide (b ≤ x.1)) := rfl
  rw [e1, e2]
  split
  · rfl
  · cases hl : (recsOf h o).reverse.find? (fun x => decide (x.1 < b)) with
    | none => simp
    | some x =>
      obtain ⟨t, r⟩ := x
      simp only [Option.map_some, tagPack, packRec_data]
      cases r.data with
      | none => rfl
      | some d =>
        simp only [Option.map_map]
        rfl

/-- histories that agree up to back pointers answer every load identically -/
theorem loadBefore_congr_core {h1 h2 : History} (e : h1.map Txn.core = h2.map Txn.core)
    (o : Oid) (b : Tid) : loadBefore h1 o b = loadBefore h2 o b := by
  rw [← loadBefore_core h1, ← loadBefore_core h2, e]

end Proofs.Pack
