/-
  Helper lemmas for C05 about the FileStorage two-phase-commit machine (ZodbModel/TwoPC.lean):
  the committed core is untouched by every call that does not reach the commit point, the
  lock / staging invariant is inductive, the mandated abort returns to an idle state, and the
  shape of the raw data-file trace.
-/
import ZodbModel.TwoPC
namespace Proofs.TwoPC
open ZodbModel ZodbModel.TwoPC

/-- the committed, durable part of the state plus configuration -/
structure Core where
  txns : List FTxn
  pos : Nat
  index : List (Oid × Tid × Nat)
  ltid : Tid
  blobs : List (Oid × Tid)
  closed : Bool
  quota : Option Nat
deriving DecidableEq

def core (s : State) : Core :=
  { txns := s.txns, pos := s.pos, index := s.index, ltid := s.ltid, blobs := s.blobs,
    closed := s.closed, quota := s.quota }

/-- lock / staging discipline of an open storage -/
def Inv (s : State) : Prop :=
  s.closed = false →
    (s.txn = none → s.commitLock = none ∧ s.tfile = [] ∧ s.tindex = [] ∧ s.dirty = [] ∧
                    s.fileLen = s.pos) ∧
    (∀ t, s.txn = some t → s.commitLock = some t ∧ (s.nextpos = 0 → s.fileLen = s.pos))

theorem inv_init : Inv {} := by
  intro _; simp

/-! ### core preservation -/

theorem doBegin_core (s : State) (t tid st ul dl el) : core (doBegin s t tid st ul dl el).1 = core s := by
  unfold doBegin
  split
  · rfl
  · split
    · rfl
    · simp only []
      repeat' split
      all_goals rfl

theorem stage_core (s : State) (oid del dlen tag blob) : core (stage s oid del dlen tag blob).1 = core s := by
  unfold stage
  simp only []
  repeat' split
  all_goals rfl

theorem doStore_core (s : State) (t oid ser dlen tag blob) :
    core (doStore s t oid ser dlen tag blob).1 = core s := by
  unfold doStore
  split
  · rfl
  · simp only []
    split
    · split
      · rfl
      · rw [stage_core]; rfl
    · rw [stage_core]; rfl

theorem doDelete_core (s : State) (t oid ser) : core (doDelete s t oid ser).1 = core s := by
  unfold doDelete
  split
  · rfl
  · split
    · rfl
    · split
      · rfl
      · rw [stage_core]

theorem doVote_core (s : State) (t) : core (doVote s t).1 = core s := by
  unfold doVote
  split
  · rfl
  · simp only []
    split
    · repeat' split
      all_goals rfl
    · rfl

theorem doAbort_core (s : State) (t) : core (doAbort s t).1 = core s := by
  unfold doAbort
  split <;> rfl

theorem doFinish_core (s : State) (t) (h : ¬ commits s (.finish t)) (hc : s.closed = false) :
    core (doFinish s t).1 = core s := by
  unfold doFinish
  split
  · rfl
  · split
    · rfl
    · exfalso; apply h
      unfold commits
      simp_all

theorem core_armed (s : State) (a) : core { s with armed := a } = core s := rfl

theorem step_core (s : State) (op : Op) (h : ¬ commits s op) : core (step s op).1 = core s := by
  unfold step
  split
  · rfl
  · rename_i hc
    have hc' : s.closed = false := by simpa using hc
    cases op with
    | fault k => rfl
    | «begin» t tid st ul dl el => simp only [core_armed, doBegin_core]
    | store t oid ser dlen tag => simp only [core_armed, doStore_core]
    | storeBlob t oid ser dlen tag => simp only [core_armed, doStore_core]
    | delete t oid ser => simp only [core_armed, doDelete_core]
    | vote t => simp only [core_armed, doVote_core]
    | finish t => simp only [core_armed]; exact doFinish_core s t h hc'
    | abort t => simp only [core_armed, doAbort_core]

/-! ### the invariant is inductive -/

theorem inv_armed (s : State) (a) (h : Inv s) : Inv { s with armed := a } := h

theorem doBegin_inv (s : State) (t tid st ul dl el) (h : Inv s) (hc : s.closed = false) :
    Inv (doBegin s t tid st ul dl el).1 := by
  have h' := h hc
  unfold doBegin
  split
  · exact h
  · split
    · exact h
    · rename_i hl
      have hidle : s.fileLen = s.pos := by
        cases htx : s.txn with
        | none => exact (h'.1 htx).2.2.2.2
        | some t' => have := (h'.2 t' htx).1; simp_all
      simp only []
      repeat' split
      all_goals (intro _; simp [hidle])

theorem stage_inv (s : State) (oid del dlen tag blob) (t : TxnId) (h : Inv s) (ht : s.txn = some t) :
    Inv (stage s oid del dlen tag blob).1 := by
  intro hc
  have hc0 : s.closed = false := by
    revert hc; unfold stage; simp only []; repeat' split
    all_goals exact id
  have h' := (h hc0).2 t ht
  unfold stage; simp only []
  repeat' split
  all_goals simp_all

theorem doStore_inv (s : State) (t oid ser dlen tag blob) (h : Inv s) :
    Inv (doStore s t oid ser dlen tag blob).1 := by
  unfold doStore
  split
  · exact h
  · rename_i ht
    have ht' : s.txn = some t := by simpa using ht
    have h0 : Inv { s with maxOid := max s.maxOid oid } := h
    simp only []
    split
    · split
      · exact h0
      · exact stage_inv _ _ _ _ _ _ t h0 ht'
    · exact stage_inv _ _ _ _ _ _ t h0 ht'

theorem doDelete_inv (s : State) (t oid ser) (h : Inv s) : Inv (doDelete s t oid ser).1 := by
  unfold doDelete
  split
  · exact h
  · rename_i ht
    have ht' : s.txn = some t := by simpa using ht
    split
    · exact h
    · split
      · exact h
      · exact stage_inv _ _ _ _ _ _ t h ht'

theorem doVote_inv (s : State) (t) (h : Inv s) : Inv (doVote s t).1 := by
  unfold doVote
  split
  · exact h
  · rename_i ht
    have ht' : s.txn = some t := by simpa using ht
    simp only []
    repeat' split
    all_goals first
      | exact h
      | (intro hc
         have h' := (h hc).2 t ht'
         simp_all
         try omega)

theorem doAbort_inv (s : State) (t) (h : Inv s) : Inv (doAbort s t).1 := by
  unfold doAbort
  split
  · exact h
  · rename_i ht
    have ht' : s.txn = some t := by simpa using ht
    intro hc
    have h' := (h hc).2 t ht'
    by_cases hn : s.nextpos = 0 <;> simp_all

theorem doFinish_inv (s : State) (t) (h : Inv s) : Inv (doFinish s t).1 := by
  unfold doFinish
  split
  · exact h
  · split
    · exact h
    · rename_i hv
      have hv' : voted s := by simpa using hv
      split
      · intro hc; simp at hc
      · intro hc
        simp only [] at hc ⊢
        unfold voted at hv'
        simp [hv'.2.1]

theorem step_inv (s : State) (op : Op) (h : Inv s) : Inv (step s op).1 := by
  unfold step
  split
  · exact h
  · rename_i hc
    have hc' : s.closed = false := by simpa using hc
    cases op with
    | fault k => exact h
    | «begin» t tid st ul dl el => exact inv_armed _ _ (doBegin_inv s t tid st ul dl el h hc')
    | store t oid ser dlen tag => exact inv_armed _ _ (doStore_inv s t oid ser dlen tag false h)
    | storeBlob t oid ser dlen tag => exact inv_armed _ _ (doStore_inv s t oid ser dlen tag true h)
    | delete t oid ser => exact inv_armed _ _ (doDelete_inv s t oid ser h)
    | vote t => exact inv_armed _ _ (doVote_inv s t h)
    | finish t => exact inv_armed _ _ (doFinish_inv s t h)
    | abort t => exact inv_armed _ _ (doAbort_inv s t h)

/-! ### op lists -/

theorem run_cons (s : State) (o : Op) (os : List Op) : run s (o :: os) = run (step s o).1 os := rfl

theorem run_inv (s : State) (ops : List Op) (h : Inv s) : Inv (run s ops) := by
  induction ops generalizing s with
  | nil => exact h
  | cons o os ih => rw [run_cons]; exact ih _ (step_inv s o h)

theorem run_core (s : State) (ops : List Op) (h : NoCommit s ops) : core (run s ops) = core s := by
  induction ops generalizing s with
  | nil => rfl
  | cons o os ih =>
    rw [run_cons, ih _ h.2, step_core s o h.1]

theorem abortCurrent_inv (s : State) (h : Inv s) : Inv (abortCurrent s) := by
  unfold abortCurrent
  split
  · exact step_inv _ _ h
  · exact h

theorem abortCurrent_core (s : State) : core (abortCurrent s) = core s := by
  unfold abortCurrent
  split
  · apply step_core; unfold commits; exact id
  · rfl

theorem step_abort_txn (s : State) (t : TxnId) (hc : s.closed = false) (ht : s.txn = some t) :
    (step s (.abort t)).1.txn = none ∧ (step s (.abort t)).2.2 = .ok := by
  unfold step doAbort
  simp [hc, ht]

theorem abortCurrent_txn (s : State) (hc : s.closed = false) : (abortCurrent s).txn = none := by
  unfold abortCurrent
  split
  · rename_i t ht; exact (step_abort_txn s t hc ht).1
  · assumption

/-- in an open state without a transaction in progress, `obs` is a function of the core -/
theorem obs_idle (s : State) (h : Inv s) (hc : s.closed = false) (ht : s.txn = none) :
    obs s = { txns := s.txns, pos := s.pos, fileLen := s.pos, index := s.index, ltid := s.ltid,
              blobFiles := s.blobs, stagingEmpty := true, lockFree := true, txnNone := true,
              closed := false } := by
  have h' := (h hc).1 ht
  unfold obs
  simp [h', hc, ht]

theorem obs_eq_of_core (s s' : State) (h : Inv s) (h' : Inv s') (hc : s.closed = false)
    (ht : s.txn = none) (ht' : s'.txn = none) (hcore : core s' = core s) : obs s' = obs s := by
  have hc' : s'.closed = false := by
    have := congrArg Core.closed hcore; simp [core] at this; rw [this]; exact hc
  rw [obs_idle s h hc ht, obs_idle s' h' hc' ht']
  have e := hcore
  simp only [core, Core.mk.injEq] at e
  simp [e]

/-- C05 headline: whatever calls were made since the idle state `s` — any transactions, stores,
    deletes, votes, armed faults, foreign calls, earlier aborts — as long as none reached the commit
    point, the mandated abort gives back exactly the observable state `s` had. -/
theorem abort_restores (s : State) (ops : List Op) (h : Inv s) (hc : s.closed = false)
    (ht : s.txn = none) (hn : NoCommit s ops) : obs (abortCurrent (run s ops)) = obs s := by
  have hcore : core (abortCurrent (run s ops)) = core s := by
    rw [abortCurrent_core, run_core s ops hn]
  have hc' : (run s ops).closed = false := by
    have := congrArg Core.closed (run_core s ops hn); simp [core] at this; rw [this]; exact hc
  exact obs_eq_of_core s _ h (abortCurrent_inv _ (run_inv s ops h)) hc ht
    (abortCurrent_txn _ hc') hcore

/-! ### calls with a transaction other than the current one -/

/-- the calls that carry a transaction and are rejected when it is not the current one -/
def rejectedOp (t' : TxnId) : Op → Prop
  | .store t _ _ _ _ => t = t'
  | .storeBlob t _ _ _ _ => t = t'
  | .delete t _ _ => t = t'
  | .vote t => t = t'
  | .finish t => t = t'
  | _ => False

theorem wrong_txn_rejected (s : State) (t' : TxnId) (op : Op) (hc : s.closed = false)
    (ht : s.txn ≠ some t') (hop : rejectedOp t' op) :
    step s op = ({ s with armed := none }, [], .errTxn) := by
  cases op <;> simp only [rejectedOp] at hop <;> subst hop <;>
    simp [step, hc, doStore, doDelete, doVote, doFinish, ht]

theorem wrong_txn_abort (s : State) (t' : TxnId) (hc : s.closed = false) (ht : s.txn ≠ some t') :
    step s (.abort t') = ({ s with armed := none }, [], .ok) := by
  simp [step, hc, doAbort, ht]

theorem obs_armed (s : State) (a) : obs { s with armed := a } = obs s := rfl

/-! ### the raw data-file trace -/

def dataMuts (evs : List Ev) : List Ev := evs.filter isDataMut

theorem stage_no_data (s : State) (oid del dlen tag blob) :
    dataMuts (stage s oid del dlen tag blob).2.1 = [] := by
  unfold stage; simp only []
  repeat' split
  all_goals simp [dataMuts, isDataMut]

/-- while a transaction is in progress and has not voted, `_nextpos` is 0 -/
def Unvoted (s : State) : Prop := s.txn ≠ none → s.nextpos = 0

theorem stage_nextpos (s : State) (oid del dlen tag blob) :
    (stage s oid del dlen tag blob).1.nextpos = s.nextpos ∧
    (stage s oid del dlen tag blob).1.txn = s.txn := by
  unfold stage; simp only []
  repeat' split
  all_goals exact ⟨rfl, rfl⟩

theorem step_unvoted (s : State) (op : Op) (h : Unvoted s) (hop : ∀ t, op ≠ .vote t) :
    Unvoted (step s op).1 ∧ dataMuts (step s op).2.1 = [] := by
  unfold step
  split
  · exact ⟨h, rfl⟩
  · cases op with
    | fault k => exact ⟨h, rfl⟩
    | vote t => exact absurd rfl (hop t)
    | «begin» t tid st ul dl el =>
      simp only [doBegin, Unvoted]
      repeat' split
      all_goals first
        | exact ⟨h, rfl⟩
        | exact ⟨fun _ => rfl, rfl⟩
    | store t oid ser dlen tag =>
      simp only [doStore, Unvoted]
      repeat' split
      all_goals first
        | exact ⟨h, rfl⟩
        | (refine ⟨?_, stage_no_data _ _ _ _ _ _⟩
           simp only [(stage_nextpos _ _ _ _ _ _).1, (stage_nextpos _ _ _ _ _ _).2]; exact h)
    | storeBlob t oid ser dlen tag =>
      simp only [doStore, Unvoted]
      repeat' split
      all_goals first
        | exact ⟨h, rfl⟩
        | (refine ⟨?_, stage_no_data _ _ _ _ _ _⟩
           simp only [(stage_nextpos _ _ _ _ _ _).1, (stage_nextpos _ _ _ _ _ _).2]; exact h)
    | delete t oid ser =>
      simp only [doDelete, Unvoted]
      repeat' split
      all_goals first
        | exact ⟨h, rfl⟩
        | (refine ⟨?_, stage_no_data _ _ _ _ _ _⟩
           simp only [(stage_nextpos _ _ _ _ _ _).1, (stage_nextpos _ _ _ _ _ _).2]; exact h)
    | finish t =>
      simp only [doFinish]
      split
      · exact ⟨h, rfl⟩
      · rename_i ht
        have ht' : s.txn = some t := by simpa using ht
        have hn : s.nextpos = 0 := h (by simp [ht'])
        have : ¬ voted s := by unfold voted; simp [hn]
        simp [this]; exact ⟨h, rfl⟩
    | abort t =>
      simp only [doAbort]
      split
      · exact ⟨h, rfl⟩
      · rename_i ht
        have ht' : s.txn = some t := by simpa using ht
        have hn : s.nextpos = 0 := h (by simp [ht'])
        refine ⟨fun _ => rfl, ?_⟩
        simp only [hn, dataMuts, ne_eq, not_true_eq_false, ite_false, List.nil_append,
          List.filter_eq_nil_iff, List.mem_map]
        rintro a ⟨⟨o, d⟩, _, rfl⟩
        simp [isDataMut]

theorem dataMuts_append (a b : List Ev) : dataMuts (a ++ b) = dataMuts a ++ dataMuts b := by
  simp [dataMuts]

theorem nothing_before_vote (s : State) (ops : List Op) (h : Unvoted s)
    (hop : ∀ o ∈ ops, ∀ t, o ≠ .vote t) : dataMuts (trace s ops) = [] := by
  induction ops generalizing s with
  | nil => rfl
  | cons o os ih =>
    have h1 := step_unvoted s o h (hop o (by simp))
    simp only [trace, dataMuts_append, h1.2, List.nil_append]
    exact ih _ h1.1 (fun o' ho' => hop o' (by simp [ho']))

/-- a data-file mutation does not touch bytes below `p` -/
def evBeyond (p : Nat) : Ev → Bool
  | .write .data off _ => decide (p ≤ off)
  | .trunc .data n => decide (p ≤ n)
  | _ => true

theorem writesFrom_beyond (p off : Nat) (l : List Nat) (h : p ≤ off) :
    (writesFrom off l).all (evBeyond p) = true := by
  induction l generalizing off with
  | nil => rfl
  | cons n t ih =>
    simp only [writesFrom, List.all_cons, Bool.and_eq_true]
    exact ⟨by simp [evBeyond, h], ih (off + n) (by omega)⟩

theorem stage_beyond (s : State) (oid del dlen tag blob) :
    (stage s oid del dlen tag blob).2.1.all (evBeyond s.pos) = true := by
  unfold stage; simp only []
  repeat' split
  all_goals simp [evBeyond]

theorem doVote_beyond (s : State) (t) : (doVote s t).2.1.all (evBeyond s.pos) = true := by
  have hw := fun l => writesFrom_beyond s.pos s.pos l (Nat.le_refl _)
  unfold doVote
  split
  · rfl
  · simp only []
    repeat' split
    all_goals simp [List.all_append, hw, evBeyond]

theorem step_beyond (s : State) (op : Op) : (step s op).2.1.all (evBeyond s.pos) = true := by
  unfold step
  split
  · rfl
  · cases op with
    | fault k => rfl
    | vote t => exact doVote_beyond s t
    | «begin» t tid st ul dl el =>
      simp only [doBegin]
      repeat' split
      all_goals rfl
    | store t oid ser dlen tag =>
      simp only [doStore]
      repeat' split
      all_goals first
        | rfl
        | exact stage_beyond _ _ _ _ _ _
    | storeBlob t oid ser dlen tag =>
      simp only [doStore]
      repeat' split
      all_goals first
        | rfl
        | exact stage_beyond _ _ _ _ _ _
    | delete t oid ser =>
      simp only [doDelete]
      repeat' split
      all_goals first
        | rfl
        | exact stage_beyond _ _ _ _ _ _
    | finish t =>
      simp only [doFinish]
      repeat' split
      all_goals simp [evBeyond]
    | abort t =>
      simp only [doAbort]
      repeat' split
      all_goals simp [evBeyond]

/-- `_pos` only moves at the commit point -/
theorem step_pos (s : State) (op : Op) (h : ¬ commits s op) : (step s op).1.pos = s.pos :=
  congrArg Core.pos (step_core s op h)

/-- no call that stays before the commit point ever writes or truncates below `_pos`: committed
    bytes are never touched by an unfinished transaction -/
theorem trace_beyond (s : State) (ops : List Op) (h : NoCommit s ops) :
    (trace s ops).all (evBeyond s.pos) = true := by
  induction ops generalizing s with
  | nil => rfl
  | cons o os ih =>
    simp only [trace, List.all_append, Bool.and_eq_true]
    refine ⟨step_beyond s o, ?_⟩
    have := ih _ h.2
    rwa [step_pos s o h.1] at this

/-! ### a failing vote, a failing finish -/

theorem getLast_two (l : List Ev) (a b : Ev) : (l ++ [a, b]).getLast? = some b := by
  simp [List.getLast?_append]

theorem step_vote_open (s : State) (t : TxnId) (hc : s.closed = false) :
    step s (.vote t) = ({ (doVote s t).1 with armed := none }, (doVote s t).2) := by
  simp [step, hc]

/-- tpc_vote raising an I/O error: either the temp-file flush failed before anything touched the
    data file, or the `except:` path ran and its last raw operation truncated back to `_pos`.
    Nothing else changes (in particular `_nextpos`, the staging area and the lock). -/
theorem vote_failure (s : State) (t : TxnId) (hc : s.closed = false)
    (h : (step s (.vote t)).2.2 = .errIO) :
    ((step s (.vote t)).1 = { s with armed := none } ∧ dataMuts (step s (.vote t)).2.1 = []) ∨
    ((step s (.vote t)).1 = { s with armed := none, fileLen := s.pos } ∧
      (step s (.vote t)).2.1.getLast? = some (.trunc .data s.pos)) := by
  revert h
  rw [step_vote_open s t hc]
  unfold doVote
  simp only []
  repeat' split
  all_goals
    intro h
    first
      | (simp at h; done)
      | exact Or.inl ⟨rfl, rfl⟩
      | exact Or.inr ⟨rfl, getLast_two _ _ _⟩

/-- a successful vote: only `_nextpos` and the physical file length change -/
theorem vote_ok (s : State) (t : TxnId) (h : (step s (.vote t)).2.2 = .ok) :
    (step s (.vote t)).1 =
      { s with armed := none, nextpos := s.pos + (s.thl + recsSize s.tfile) + 8,
               fileLen := max s.fileLen (s.pos + (s.thl + recsSize s.tfile) + 8) } := by
  revert h
  simp only [step, doVote]
  repeat' split
  all_goals
    intro h
    first
      | (simp at h; done)
      | rfl

/-- a failure at the status flip (the commit point): the storage closes itself, and the `finally`
    of tpc_finish forgets the transaction and releases the commit lock; afterwards the object
    answers nothing any more.  What memory believes to be committed is unchanged. -/
theorem finish_failure_closes (s : State) (t : TxnId) (hcm : commits s (.finish t))
    (ha : s.armed = some 1) :
    (step s (.finish t)).2.2 = .errIO ∧
    (step s (.finish t)).1 = { s with closed := true, txn := none, commitLock := none, armed := none } ∧
    ∀ op, step (step s (.finish t)).1 op = ((step s (.finish t)).1, [], .closed) := by
  obtain ⟨hc, ht, hv⟩ := hcm
  have h1 : step s (.finish t) =
      ({ s with closed := true, txn := none, commitLock := none, armed := none },
       [.fault .data, .write .data (s.pos + 16) 1], .errIO) := by
    simp [step, hc, doFinish, ht, hv, ha]
  rw [h1]
  refine ⟨rfl, rfl, ?_⟩
  intro op
  simp [step]

/-- the commit point passed without a fault -/
theorem finish_ok (s : State) (t : TxnId) (hcm : commits s (.finish t)) (ha : s.armed ≠ some 1) :
    step s (.finish t) =
      ({ s with txns := { tid := s.tid, status := s.tstatus, ul := s.ude.1, dl := s.ude.2.1,
                          el := s.ude.2.2, recs := s.tfile } :: s.txns,
                pos := s.nextpos, index := update s.index s.tindex, ltid := s.tid,
                blobs := s.dirty ++ s.blobs, dirty := [], tindex := [], tfile := [],
                txn := none, commitLock := none, armed := none },
       [.write .data (s.pos + 16) 1, .fsync .data], .ok) := by
  obtain ⟨hc, ht, hv⟩ := hcm
  simp [step, hc, doFinish, ht, hv, ha]

/-! ### the lock after the mandated abort -/

theorem abortCurrent_lock (s : State) (h : Inv s) (hc : s.closed = false) :
    (abortCurrent s).commitLock = none ∧ canBegin (abortCurrent s) = true := by
  have hi := abortCurrent_inv s h
  have hcl : (abortCurrent s).closed = false := by
    have := congrArg Core.closed (abortCurrent_core s); simp [core] at this; rw [this]; exact hc
  have hl := ((hi hcl).1 (abortCurrent_txn s hc)).1
  exact ⟨hl, by simp [canBegin, hcl, hl]⟩

end Proofs.TwoPC
