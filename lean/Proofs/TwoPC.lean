/-
  Helper lemmas for C05 about the FileStorage two-phase-commit machine (ZodbModel/TwoPC.lean):
  the committed core is untouched by every call that does not reach the commit point, the
  lock / staging invariant is inductive, the mandated abort returns to an idle state, and the
  shape of the raw data-file trace.
-/
import ZodbModel.TwoPC
namespace Proofs.TwoPC
open ZodbModel ZodbModel.TwoPC

/-- the committed, durable part of the state plus configuration -/
structure Core where
  txns : List FTxn
  pos : Nat
  index : List (Oid × Tid × Nat)
  ltid : Tid
  blobs : List (Oid × Tid)
  closed : Bool
  quota : Option Nat
deriving DecidableEq

def core (s : State) : Core :=
  { txns := s.txns, pos := s.pos, index := s.index, ltid := s.ltid, blobs := s.blobs,
    closed := s.closed, quota := s.quota }

/-- lock / staging discipline of an open storage -/
def Inv (s : State) : Prop :=
  s.closed = false →
    (s.txn = none → s.commitLock = none ∧ s.tfile = [] ∧ s.tindex = [] ∧ s.dirty = [] ∧
                    s.fileLen = s.pos) ∧
    (∀ t, s.txn = some t → s.commitLock = some t ∧ (s.nextpos = 0 → s.fileLen = s.pos))

theorem inv_init : Inv {} := by
  intro _; simp

/-! ### core preservation -/

theorem doBegin_core (s : State) (t tid st ul dl el) : core (doBegin s t tid st ul dl el).1 = core s := by
  unfold doBegin
  split
  · rfl
  · split
    · rfl
    · simp only []
      repeat' split
      all_goals rfl

theorem stage_core (s : State) (oid del dlen tag blob) : core (stage s oid del dlen tag blob).1 = core s := by
  unfold stage
  simp only []
  repeat' split
  all_goals rfl

theorem doStore_core (s : State) (t oid ser dlen tag blob) :
    core (doStore s t oid ser dlen tag blob).1 = core s := by
  unfold doStore
  split
  · rfl
  · simp only []
    split
    · split
      · rfl
      · rw [stage_core]; rfl
    · rw [stage_core]; rfl

theorem doDelete_core (s : State) (t oid ser) : core (doDelete s t oid ser).1 = core s := by
  unfold doDelete
  split
  · rfl
  · split
    · rfl
    · split
      · rfl
      · rw [stage_core]

theorem doVote_core (s : State) (t) : core (doVote s t).1 = core s := by
  unfold doVote
  split
  · rfl
  · simp only []
    split
    · repeat' split
      all_goals rfl
    · rfl

theorem doAbort_core (s : State) (t) : core (doAbort s t).1 = core s := by
  unfold doAbort
  split <;> rfl

theorem doFinish_core (s : State) (t) (h : ¬ commits s (.finish t)) (hc : s.closed = false) :
    core (doFinish s t).1 = core s := by
  unfold doFinish
  split
  · rfl
  · split
    · rfl
    · exfalso; apply h
      unfold commits
      simp_all

theorem core_armed (s : State) (a) : core { s with armed := a } = core s := rfl

theorem step_core (s : State) (op : Op) (h : ¬ commits s op) : core (step s op).1 = core s := by
  unfold step
  split
  · rfl
  · rename_i hc
    have hc' : s.closed = false := by simpa using hc
    cases op with
    | fault k => rfl
    | «begin» t tid st ul dl el => simp only [core_armed, doBegin_core]
    | store t oid ser dlen tag => simp only [core_armed, doStore_core]
    | storeBlob t oid ser dlen tag => simp only [core_armed, doStore_core]
    | delete t oid ser => simp only [core_armed, doDelete_core]
    | vote t => simp only [core_armed, doVote_core]
    | finish t => simp only [core_armed]; exact doFinish_core s t h hc'
    | abort t => simp only [core_armed, doAbort_core]

/-! ### the invariant is inductive -/

theorem inv_armed (s : State) (a) (h : Inv s) : Inv { s with armed := a } := h

theorem doBegin_inv (s : State) (t tid st ul dl el) (h : Inv s) (hc : s.closed = false) :
    Inv (doBegin s t tid st ul dl el).1 := by
  have h' := h hc
  unfold doBegin
  split
  · exact h
  · split
    · exact h
    · rename_i hl
      have hidle : s.fileLen = s.pos := by
        cases htx : s.txn with
        | none => exact (h'.1 htx).2.2.2.2
        | some t' => have := (h'.2 t' htx).1; simp_all
      simp only []
      repeat' split
      all_goals (intro _; simp [hidle])

theorem stage_inv (s : State) (oid del dlen tag blob) (t : TxnId) (h : Inv s) (ht : s.txn = some t) :
    Inv (stage s oid del dlen tag blob).1 := by
  intro hc
  have hc0 : s.closed = false := by
    revert hc; unfold stage; simp only []; repeat' split
    all_goals exact id
  have h' := (h hc0).2 t ht
  unfold stage; simp only []
  repeat' split
  all_goals simp_all

theorem doStore_inv (s : State) (t oid ser dlen tag blob) (h : Inv s) :
    Inv (doStore s t oid ser dlen tag blob).1 := by
  unfold doStore
  split
  · exact h
  · rename_i ht
    have ht' : s.txn = some t := by simpa using ht
    have h0 : Inv { s with maxOid := max s.maxOid oid } := h
    simp only []
    split
    · split
      · exact h0
      · exact stage_inv _ _ _ _ _ _ t h0 ht'
    · exact stage_inv _ _ _ _ _ _ t h0 ht'

theorem doDelete_inv (s : State) (t oid ser) (h : Inv s) : Inv (doDelete s t oid ser).1 := by
  unfold doDelete
  split
  · exact h
  · rename_i ht
    have ht' : s.txn = some t := by simpa using ht
    split
    · exact h
    · split
      · exact h
      · exact stage_inv _ _ _ _ _ _ t h ht'

theorem doVote_inv (s : State) (t) (h : Inv s) : Inv (doVote s t).1 := by
  unfold doVote
  split
  · exact h
  · rename_i ht
    have ht' : s.txn = some t := by simpa using ht
    simp only []
    repeat' split
    all_goals first
      | exact h
      | (intro hc
         have h' := (h hc).2 t ht'
         simp_all
         try omega)

theorem doAbort_inv (s : State) (t) (h : Inv s) : Inv (doAbort s t).1 := by
  unfold doAbort
  split
  · exact h
  · rename_i ht
    have ht' : s.txn = some t := by simpa using ht
    intro hc
    have h' := (h hc).2 t ht'
    by_cases hn : s.nextpos = 0 <;> simp_all

theorem doFinish_inv (s : State) (t) (h : Inv s) : Inv (doFinish s t).1 := by
  unfold doFinish
  split
  · exact h
  · split
    · exact h
    · rename_i hv
      have hv' : voted s := by simpa using hv
      split
      · intro hc; simp at hc
      · intro hc
        simp only [] at hc ⊢
        unfold voted at hv'
        simp [hv'.2.1]

theorem step_inv (s : State) (op : Op) (h : Inv s) : Inv (step s op).1 := by
  unfold step
  split
  · exact h
  · rename_i hc
    have hc' : s.closed = false := by simpa using hc
    cases op with
    | fault k => exact h
    | «begin» t tid st ul dl el => exact inv_armed _ _ (doBegin_inv s t tid st ul dl el h hc')
    | store t oid ser dlen tag => exact inv_armed _ _ (doStore_inv s t oid ser dlen tag false h)
    | storeBlob t oid ser dlen tag => exact inv_armed _ _ (doStore_inv s t oid ser dlen tag true h)
    | delete t oid ser => exact inv_armed _ _ (doDelete_inv s t oid ser h)
    | vote t => exact inv_armed _ _ (doVote_inv s t h)
    | finish t => exact inv_armed _ _ (doFinish_inv s t h)
    | abort t => exact inv_armed _ _ (doAbort_inv s t h)

/-! ### op lists -/

theorem run_cons (s : State) (o : Op) (os : List Op) : run s (o :: os) = run (step s o).1 os := rfl

theorem run_inv (s : State) (ops : List Op) (h : Inv s) : Inv (run s ops) := by
  induction ops generalizing s with
  | nil => exact h
  | cons o os ih => rw [run_cons]; exact ih _ (step_inv s o h)

theorem run_core (s : State) (ops : List Op) (h : NoCommit s ops) : core (run s ops) = core s := by
  induction ops generalizing s with
  | nil => rfl
  | cons o os ih =>
    rw [run_cons, ih _ h.2, step_core s o h.1]

theorem abortCurrent_inv (s : State) (h : Inv s) : Inv (abortCurrent s) := by
  unfold abortCurrent
  split
  · exact step_inv _ _ h
  · exact h

theorem abortCurrent_core (s : State) : core (abortCurrent s) = core s := by
  unfold abortCurrent
  split
  · apply step_core; unfold commits; exact id
  · rfl

theorem step_abort_txn (s : State) (t : TxnId) (hc : s.closed = false) (ht : s.txn = some t) :
    (step s (.abort t)).1.txn = none ∧ (step s (.abort t)).2.2 = .ok := by
  unfold step doAbort
  simp [hc, ht]

theorem abortCurrent_txn (s : State) (hc : s.closed = false) : (abortCurrent s).txn = none := by
  unfold abortCurrent
  split
  · rename_i t ht; exact (step_abort_txn s t hc ht).1
  · assumption

/-- in an open state without a transaction in progress, `obs` is a function of the core -/
theorem obs_idle (s : State) (h : Inv s) (hc : s.closed = false) (ht : s.txn = none) :
    obs s = { txns := s.txns, pos := s.pos, fileLen := s.pos, index := s.index, ltid := s.ltid,
              blobFiles := s.blobs, stagingEmpty := true, lockFree := true, txnNone := true,
              closed := false } := by
  have h' := (h hc).1 ht
  unfold obs
  simp [h', hc, ht]

theorem obs_eq_of_core (s s' : State) (h : Inv s) (h' : Inv s') (hc : s.closed = false)
    (ht : s.txn = none) (ht' : s'.txn = none) (hcore : core s' = core s) : obs s' = obs s := by
  have hc' : s'.closed = false := by
    have := congrArg Core.closed hcore; simp [core] at this; rw [this]; exact hc
  rw [obs_idle s h hc ht, obs_idle s' h' hc' ht']
  have e := hcore
  simp only [core, Core.mk.injEq] at e
  simp [e]

/-- C05 headline: whatever calls were made since the idle state `s` — any transactions, stores,
    deletes, votes, armed faults, foreign calls, earlier aborts — as long as none reached the commit
    point, the mandated abort gives back exactly the observable state `s` had. -/
theorem abort_restores (s : State) (ops : List Op) (h : Inv s) (hc : s.closed = false)
    (ht : s.txn = none) (hn : NoCommit s ops) : obs (abortCurrent (run s ops)) = obs s := by
  have hcore : core (abortCurrent (run s ops)) = core s := by
    rw [abortCurrent_core, run_core s ops hn]
  have hc' : (run s ops).closed = false := by
    have := congrArg Core.closed (run_core s ops hn); simp [core] at this; rw [this]; exact hc
  exact obs_eq_of_core s _ h (abortCurrent_inv _ (run_inv s ops h)) hc ht
    (abortCurrent_txn _ hc') hcore

end Proofs.TwoPC
