/-
  Helper lemmas for C06 (`Props/C06.lean`), part 1: positions, the index, pointer chasing and how
  they behave when newer records are put in front of a file (`N ++ F`).  Core Lean only.
-/
import ZodbModel.Undo
namespace Proofs.Undo
open ZodbModel ZodbModel.Undo

/-! ### lastPos -/

theorem lastPos_le (oid : Nat) (F : List Rec) : lastPos oid F ≤ F.length := by
  induction F with
  | nil => simp [lastPos]
  | cons r older ih => simp only [lastPos, List.length_cons]; split <;> omega

theorem lastPos_eq_zero_iff (oid : Nat) (F : List Rec) :
    lastPos oid F = 0 ↔ ∀ r ∈ F, r.oid ≠ oid := by
  induction F with
  | nil => simp [lastPos]
  | cons r older ih =>
    simp only [lastPos, List.mem_cons, forall_eq_or_imp]
    by_cases h : r.oid = oid
    · simp [h]
    · simp [h, ih]

theorem lastPos_append (oid : Nat) (N F : List Rec) :
    lastPos oid (N ++ F) = if lastPos oid N = 0 then lastPos oid F else lastPos oid N + F.length := by
  induction N with
  | nil => simp [lastPos]
  | cons r N ih =>
    simp only [List.cons_append, lastPos]
    by_cases h : r.oid = oid
    · simp [h]; omega
    · simp [h, ih]

theorem lastPos_append_of_not_mem (oid : Nat) (N F : List Rec) (h : ∀ r ∈ N, r.oid ≠ oid) :
    lastPos oid (N ++ F) = lastPos oid F := by
  rw [lastPos_append, if_pos ((lastPos_eq_zero_iff oid N).2 h)]

theorem tipos_eq (S F : List Rec) (oid : Nat) : tipos S F oid = lastPos oid (S ++ F) := by
  unfold tipos
  rw [lastPos_append]
  by_cases h : lastPos oid S = 0
  · simp [h]
  · simp [h]

/-! ### prepending newer records does not disturb positions of the file -/

theorem recAt_append_le (N F : List Rec) (p : Nat) (h : p ≤ F.length) :
    recAt (N ++ F) p = recAt F p := by
  induction N with
  | nil => rfl
  | cons r N ih =>
    simp only [List.cons_append, recAt]
    rw [if_neg (by simp only [List.length_append]; omega), ih]

theorem loadBack_append_le (N F : List Rec) (p : Nat) (h : p ≤ F.length) :
    loadBack (N ++ F) p = loadBack F p := by
  induction N with
  | nil => rfl
  | cons r N ih =>
    simp only [List.cons_append, loadBack]
    rw [if_neg (by simp only [List.length_append]; omega), ih]

theorem loadAt_append_le (N F : List Rec) (p : Nat) (h : p ≤ F.length) :
    loadAt (N ++ F) p = loadAt F p := by
  induction N with
  | nil => rfl
  | cons r N ih =>
    simp only [List.cons_append, loadAt]
    rw [if_neg (by simp only [List.length_append]; omega), ih]

theorem chaseBefore_append_le (b : Nat) (N F : List Rec) (p : Nat) (e : Option Nat)
    (h : p ≤ F.length) : chaseBefore b (N ++ F) p e = chaseBefore b F p e := by
  induction N with
  | nil => rfl
  | cons r N ih =>
    simp only [List.cons_append, chaseBefore]
    rw [if_neg (by simp only [List.length_append]; omega), ih]

theorem chaseSerial_append_le (s : Nat) (N F : List Rec) (p : Nat) (h : p ≤ F.length) :
    chaseSerial s (N ++ F) p = chaseSerial s F p := by
  induction N with
  | nil => rfl
  | cons r N ih =>
    simp only [List.cons_append, chaseSerial]
    rw [if_neg (by simp only [List.length_append]; omega), ih]

theorem recAt_zero (F : List Rec) : recAt F 0 = none := by
  induction F with
  | nil => rfl
  | cons r F ih => simp [recAt, ih]

theorem loadBack_zero (F : List Rec) : loadBack F 0 = none := by
  induction F with
  | nil => rfl
  | cons r F ih => simp [loadBack, ih]

theorem loadAt_zero (F : List Rec) : loadAt F 0 = none := by
  induction F with
  | nil => rfl
  | cons r F ih => simp [loadAt, ih]

theorem recAt_length (r : Rec) (older : List Rec) : recAt (r :: older) (older.length + 1) = some r := by
  simp [recAt]

theorem recAt_le_length {F : List Rec} {p : Nat} {c : Rec} (h : recAt F p = some c) :
    0 < p ∧ p ≤ F.length := by
  induction F with
  | nil => simp [recAt] at h
  | cons r F ih =>
    simp only [recAt] at h
    split at h
    · simp_all
    · have := ih h; simp only [List.length_cons]; omega

/-- the record the index designates is the first record of that oid -/
theorem recAt_lastPos (oid : Nat) (F : List Rec) :
    recAt F (lastPos oid F) = F.find? (fun r => r.oid = oid) := by
  induction F with
  | nil => rfl
  | cons r F ih =>
    simp only [lastPos, List.find?_cons]
    by_cases h : r.oid = oid
    · simp [h, recAt]
    · have := lastPos_le oid F
      simp only [h, if_false, decide_false, recAt]
      rw [if_neg (by omega), ih]

theorem recAt_lastPos_oid {oid : Nat} {F : List Rec} {c : Rec}
    (h : recAt F (lastPos oid F) = some c) : c.oid = oid := by
  rw [recAt_lastPos] at h
  have := List.find?_some h
  simpa using this

theorem recAt_lastPos_isSome {oid : Nat} {F : List Rec} (h : lastPos oid F ≠ 0) :
    ∃ c, recAt F (lastPos oid F) = some c := by
  rw [recAt_lastPos]
  have : ¬ ∀ r ∈ F, r.oid ≠ oid := fun hh => h ((lastPos_eq_zero_iff oid F).2 hh)
  cases hf : F.find? (fun r => r.oid = oid) with
  | some c => exact ⟨c, rfl⟩
  | none =>
    exfalso; apply this
    intro r hr
    have := List.find?_eq_none.1 hf r hr
    simpa using this

/-! ### data at a position -/

/-- the pickle reachable from position `p` (`_loadBack_impl(oid, p)[0]`) -/
abbrev dataAt (F : List Rec) (p : Nat) : Option Bytes := (loadBack F p).map (·.1)

theorem loadAt_fst (F : List Rec) (p : Nat) : (loadAt F p).map (·.1) = dataAt F p := by
  induction F with
  | nil => rfl
  | cons r F ih =>
    simp only [loadAt, dataAt, loadBack]
    split
    · unfold recData; cases r.pl <;> simp [Option.map_map, Function.comp_def]
    · exact ih

theorem dataOf_eq (F : List Rec) (oid : Nat) : dataOf F oid = dataAt F (lastPos oid F) := by
  unfold dataOf load; exact loadAt_fst F _

theorem dataOf_append_of_not_mem (oid : Nat) (N F : List Rec) (h : ∀ r ∈ N, r.oid ≠ oid) :
    dataOf (N ++ F) oid = dataOf F oid := by
  rw [dataOf_eq, dataOf_eq, lastPos_append_of_not_mem oid N F h,
    dataAt, loadBack_append_le N F _ (lastPos_le oid F)]

theorem load_append_of_not_mem (oid : Nat) (N F : List Rec) (h : ∀ r ∈ N, r.oid ≠ oid) :
    load (N ++ F) oid = load F oid := by
  unfold load
  rw [lastPos_append_of_not_mem oid N F h, loadAt_append_le N F _ (lastPos_le oid F)]

theorem loadBefore_append_of_not_mem (oid : Nat) (b : Nat) (N F : List Rec)
    (h : ∀ r ∈ N, r.oid ≠ oid) : loadBefore (N ++ F) oid b = loadBefore F oid b := by
  unfold loadBefore
  rw [lastPos_append_of_not_mem oid N F h, chaseBefore_append_le b N F _ _ (lastPos_le oid F)]

theorem loadSerial_append_of_not_mem (oid : Nat) (s : Nat) (N F : List Rec)
    (h : ∀ r ∈ N, r.oid ≠ oid) : loadSerial (N ++ F) oid s = loadSerial F oid s := by
  unfold loadSerial
  rw [lastPos_append_of_not_mem oid N F h, chaseSerial_append_le s N F _ (lastPos_le oid F)]

/-! ### back pointers point backwards -/

/-- flat form of the back-pointer part of `Inv` -/
def BackOK : List Rec → Prop
  | [] => True
  | r :: older => (∀ b, r.pl = .back b → b ≤ older.length) ∧ BackOK older

theorem BackOK_append {N F : List Rec} (hN : ∀ r ∈ N, ∀ b, r.pl = .back b → b ≤ F.length)
    (hF : BackOK F) : BackOK (N ++ F) := by
  induction N with
  | nil => exact hF
  | cons r N ih =>
    refine ⟨?_, ih (fun x hx => hN x (List.mem_cons_of_mem _ hx))⟩
    intro b hb
    have := hN r (List.mem_cons_self) b hb
    show b ≤ (N ++ F).length
    rw [List.length_append]; omega

theorem BackOK_recAt {F : List Rec} (h : BackOK F) {p : Nat} {c : Rec} (hc : recAt F p = some c)
    {b : Nat} (hb : c.pl = .back b) : b < p := by
  induction F with
  | nil => simp [recAt] at hc
  | cons r F ih =>
    simp only [recAt] at hc
    split at hc
    · simp only [Option.some.injEq] at hc; subst hc
      have := h.1 b hb; omega
    · exact ih h.2 hc

/-- under `BackOK` the code's form of reading a record's data (`_loadBack_impl` on the whole file)
    agrees with the structural one -/
theorem dataAt_of_recAt {F : List Rec} (h : BackOK F) {p : Nat} {c : Rec} (hc : recAt F p = some c) :
    dataAt F p = match c.pl with
                 | .data d => some d
                 | .back b => dataAt F b := by
  induction F with
  | nil => simp [recAt] at hc
  | cons r F ih =>
    simp only [recAt] at hc
    by_cases hp : p = F.length + 1
    · rw [if_pos hp] at hc
      simp only [Option.some.injEq] at hc; subst hc
      simp only [dataAt, loadBack, if_pos hp]
      cases hpl : r.pl with
      | data d => simp
      | back b =>
        have := h.1 b hpl
        simp only
        rw [if_neg (by omega)]
    · rw [if_neg hp] at hc
      have ih := ih h.2 hc
      have hle := (recAt_le_length hc).2
      simp only [dataAt, loadBack, if_neg hp] at ih ⊢
      rw [ih]
      cases hpl : c.pl with
      | data d => rfl
      | back b =>
        have := BackOK_recAt h.2 hc hpl
        simp only
        rw [if_neg (by omega)]

theorem Inv_BackOK {L : Log} (h : Inv L) : BackOK (flat L) := by
  induction L with
  | nil => exact True.intro
  | cons t older ih =>
    obtain ⟨hr, _, _, hi⟩ := h
    simp only [flat]
    apply BackOK_append _ (ih hi)
    intro r hr' b hb
    have := (hr r hr').2.2
    rw [hb] at this
    exact this

end Proofs.Undo
