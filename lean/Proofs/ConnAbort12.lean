/-
  Connection model, part 14 (C12): `Connection.abort` / `tpc_abort` when there may be savepoint
  storage: everything of the transaction is discarded, whatever was saved in savepoints.
-/
import Proofs.ConnTxn12
import Proofs.ConnC11
namespace Proofs.Conn
open ZodbModel ZodbModel.Conn

/-! ### projections of `fixed` -/

theorem invalidateCreating_sp (s : State) (ks) : (invalidateCreating s ks).sp = s.sp := by
  have := invalidateCreating_fixed s ks; simp only [fixed, Prod.mk.injEq] at this; exact this.1
theorem invalidateCreating_sps (s : State) (ks) : (invalidateCreating s ks).sps = s.sps := by
  have := invalidateCreating_fixed s ks; simp only [fixed, Prod.mk.injEq] at this; exact this.2.1
theorem invalidateCreating_creating (s : State) (ks) : (invalidateCreating s ks).creating = s.creating := by
  have := invalidateCreating_fixed s ks; simp only [fixed, Prod.mk.injEq] at this
  exact this.2.2.2.2.2.2.2.2.1
theorem invalidateCreating_registered (s : State) (ks) :
    (invalidateCreating s ks).registered = s.registered := by
  have := invalidateCreating_fixed s ks; simp only [fixed, Prod.mk.injEq] at this
  exact this.2.2.2.2.2.2.2.2.2.1
theorem invalidateCreating_ntj (s : State) (ks) :
    (invalidateCreating s ks).needsToJoin = s.needsToJoin := by
  have := invalidateCreating_fixed s ks; simp only [fixed, Prod.mk.injEq] at this
  exact this.2.2.2.2.2.2.2.2.2.2
theorem invalidateCreating_snap (s : State) (ks) : (invalidateCreating s ks).snap = s.snap := by
  have := invalidateCreating_fixed s ks; simp only [fixed, Prod.mk.injEq] at this; exact this.2.2.1

theorem invalidateAll_sp (s : State) (ks) : (invalidateAll s ks).sp = s.sp := by
  have := invalidateAll_fixed s ks; simp only [fixed, Prod.mk.injEq] at this; exact this.1
theorem invalidateAll_sps (s : State) (ks) : (invalidateAll s ks).sps = s.sps := by
  have := invalidateAll_fixed s ks; simp only [fixed, Prod.mk.injEq] at this; exact this.2.1
theorem invalidateAll_creating (s : State) (ks) : (invalidateAll s ks).creating = s.creating := by
  have := invalidateAll_fixed s ks; simp only [fixed, Prod.mk.injEq] at this
  exact this.2.2.2.2.2.2.2.2.1
theorem invalidateAll_registered (s : State) (ks) : (invalidateAll s ks).registered = s.registered := by
  have := invalidateAll_fixed s ks; simp only [fixed, Prod.mk.injEq] at this
  exact this.2.2.2.2.2.2.2.2.2.1
theorem invalidateAll_ntj (s : State) (ks) : (invalidateAll s ks).needsToJoin = s.needsToJoin := by
  have := invalidateAll_fixed s ks; simp only [fixed, Prod.mk.injEq] at this
  exact this.2.2.2.2.2.2.2.2.2.2
theorem invalidateAll_snap (s : State) (ks) : (invalidateAll s ks).snap = s.snap := by
  have := invalidateAll_fixed s ks; simp only [fixed, Prod.mk.injEq] at this; exact this.2.2.1

theorem abortObjs_sp (s : State) : (abortObjs s).sp = s.sp := by
  have := abortObjs_fixed s; simp only [fixed, Prod.mk.injEq] at this; exact this.1
theorem abortObjs_sps (s : State) : (abortObjs s).sps = s.sps := by
  have := abortObjs_fixed s; simp only [fixed, Prod.mk.injEq] at this; exact this.2.1
theorem abortObjs_creating (s : State) : (abortObjs s).creating = s.creating := by
  have := abortObjs_fixed s; simp only [fixed, Prod.mk.injEq] at this
  exact this.2.2.2.2.2.2.2.2.1
theorem abortObjs_registered (s : State) : (abortObjs s).registered = s.registered := by
  have := abortObjs_fixed s; simp only [fixed, Prod.mk.injEq] at this
  exact this.2.2.2.2.2.2.2.2.2.1
theorem abortObjs_ntj (s : State) : (abortObjs s).needsToJoin = s.needsToJoin := by
  have := abortObjs_fixed s; simp only [fixed, Prod.mk.injEq] at this
  exact this.2.2.2.2.2.2.2.2.2.2

theorem abortSavepoint_sp (s : State) : (abortSavepoint s).sp = none := by
  unfold abortSavepoint
  split
  · assumption
  · rw [invalidateAll_sp]; rfl

theorem abortSavepoint_sps (s : State) : (abortSavepoint s).sps = s.sps := by
  unfold abortSavepoint
  split
  · rfl
  · rw [invalidateAll_sps]; show (invalidateCreating _ _).sps = _; rw [invalidateCreating_sps]

theorem abortSavepoint_creating (s : State) : (abortSavepoint s).creating = s.creating := by
  unfold abortSavepoint
  split
  · rfl
  · rw [invalidateAll_creating]; show (invalidateCreating _ _).creating = _
    rw [invalidateCreating_creating]

theorem connAbort_sp (s : State) : (connAbort s).sp = none := by
  show (invalidateCreating _ _).sp = none
  rw [invalidateCreating_sp, abortSavepoint_sp]

theorem connAbort_sps (s : State) : (connAbort s).sps = s.sps := by
  show (invalidateCreating _ _).sps = _
  rw [invalidateCreating_sps, abortSavepoint_sps, abortObjs_sps]

/-! ### what `_abort_savepoint` achieves -/

theorem abortSavepoint_effect {s : State} {tt : TmpStore} (hS : Str [] s) (hsp : s.sp = some tt)
    (K : Nat → Prop) (hK : ∀ k, tt.creating.has k = true → ¬ K k) :
    (∀ k, tt.creating.has k = true → (abortSavepoint s).cache.get k = none) ∧
    (∀ k, tt.index.get k ≠ none → ∀ i, (abortSavepoint s).cache.get k = some i →
      ((abortSavepoint s).objs i).status = .ghost) ∧
    Keeps K s (abortSavepoint s) := by
  have he : abortSavepoint s =
      invalidateAll (dropTmp (invalidateCreating s tt.creating.keys)) tt.index.keys := by
    unfold abortSavepoint; rw [hsp]
  rw [he]
  have hu := invalidateCreating_str hS tt.creating.keys
  have hd : Str [] (dropTmp (invalidateCreating s tt.creating.keys)) := (dropTmp_clean hu).1
  have hc := invalidateAll_clean hd tt.index.keys
  refine ⟨?_, ?_, ?_⟩
  · intro k hk
    have hm : k ∈ tt.creating.keys := by rw [Map.mem_keys_iff, ← Map.has_iff]; exact hk
    have h1 := invalidateCreating_cache hS tt.creating.keys k hm
    cases hg : (invalidateAll (dropTmp (invalidateCreating s tt.creating.keys)) tt.index.keys).cache.get k with
    | none => rfl
    | some i =>
      have := hc.2.cache k i hg
      have h1' : (dropTmp (invalidateCreating s tt.creating.keys)).cache.get k = none := h1
      rw [h1'] at this; cases this
  · intro k hk i hi
    exact invalidateAll_ghost hd tt.index.keys k (Map.mem_keys_iff.2 hk) i hi
  · have k1 := invalidateCreating_keeps K hS tt.creating.keys (by
      intro k hk
      rw [Map.mem_keys_iff, ← Map.has_iff] at hk
      exact hK k hk)
    have k2 : Keeps K (invalidateCreating s tt.creating.keys)
        (dropTmp (invalidateCreating s tt.creating.keys)) := Keeps.of_objs rfl
    exact (k1.trans k2).trans (invalidateAll_keeps K _ _)

/-! ### the situation in which the transaction is abandoned, and what is left afterwards -/

/-- the oid was created in this transaction -/
def crKey (t : State) (k : Nat) : Prop :=
  t.creating.has k = true ∨ ∃ tt, t.sp = some tt ∧ tt.creating.has k = true

/-- a record for the oid was written to the temporary store -/
def inTmp (t : State) (k : Nat) : Prop := ∃ tt, t.sp = some tt ∧ tt.index.get k ≠ none

structure AbortReady (t : State) : Prop where
  str : Str [] t
  regOid : ∀ i ∈ t.registered, (t.objs i).oid ≠ none
  changedReg : ∀ i, (t.objs i).status = .changed → i ∈ t.registered
  addedReg : ∀ k i, t.added.get k = some i → i ∈ t.registered
  serial0 : ∀ i, (t.objs i).oid = none → (t.objs i).serial = 0
  addedSerial : ∀ k i, t.added.get k = some i → (t.objs i).serial = 0
  addedUncommitted : ∀ k, t.added.get k ≠ none → t.committed.get k = none
  commFresh : ∀ k, t.committed.get k ≠ none → k < t.nextOid
  tidB : ∀ k c, t.committed.get k = some c → 1 ≤ c.serial ∧ c.serial ≤ t.lastTid
  owned : ∀ k i, t.cache.get k = some i → t.committed.get k ≠ none ∨ crKey t k
  crSerial : ∀ k i, t.cache.get k = some i → crKey t k → (t.objs i).serial = 0
  crUncommitted : ∀ k, crKey t k → t.committed.get k = none
  coh : ∀ k i c, t.cache.get k = some i → t.committed.get k = some c → (t.objs i).status ≠ .ghost →
    inTmp t k ∨ ((t.objs i).serial = c.serial ∧
      ((t.objs i).status = .uptodate → (t.objs i).val = c.val ∧ (t.objs i).refs = c.refs))

structure AbortDone (t X : State) : Prop where
  clean : Clean [] t X
  spNone : X.sp = none
  creatingNil : X.creating = []
  regNil : X.registered = []
  addedNil : X.added = []
  ntj : X.needsToJoin = true
  noChanged : ∀ i, (X.objs i).status ≠ .changed
  serial0 : ∀ i, (X.objs i).oid = none → (X.objs i).serial = 0
  coh : ∀ k i, X.cache.get k = some i → ∃ c, X.committed.get k = some c ∧
    ((X.objs i).status ≠ .ghost → (X.objs i).serial = c.serial) ∧
    ((X.objs i).status = .uptodate → (X.objs i).val = c.val ∧ (X.objs i).refs = c.refs)
  sps : X.sps = t.sps
  shared : shared X = shared t
  kept : ∀ j k, (t.objs j).oid = some k → t.committed.get k ≠ none → (X.objs j).oid = some k

theorem shared_committed {a b : State} (h : shared a = shared b) : a.committed = b.committed := by
  simp only [shared, Prod.mk.injEq] at h; exact h.1

/-- **`Connection.abort` discards the transaction**, with or without savepoint storage. -/
theorem connAbort_done {t : State} (h : AbortReady t) : AbortDone t (connAbort t) := by
  have hS := h.str
  let K : Nat → Prop := fun k => t.added.get k = none ∧ ¬ crKey t k
  -- the stages
  have cA := abortObjs_clean hS
  have kA : Keeps K t (abortObjs t) := abortObjs_keeps K hS (fun k hk => hk.1)
  have eA := abortObjs_effect hS
  have cB : Clean [] (abortObjs t) (abortSavepoint (abortObjs t)) := abortSavepoint_clean cA.1
  have hBsp := abortSavepoint_sp (abortObjs t)
  have hBcr : (abortSavepoint (abortObjs t)).creating = t.creating := by
    rw [abortSavepoint_creating, abortObjs_creating]
  have eB : (∀ k, (∃ tt, t.sp = some tt ∧ tt.creating.has k = true) →
        (abortSavepoint (abortObjs t)).cache.get k = none) ∧
      (∀ k, inTmp t k → ∀ i, (abortSavepoint (abortObjs t)).cache.get k = some i →
        ((abortSavepoint (abortObjs t)).objs i).status = .ghost) ∧
      Keeps K (abortObjs t) (abortSavepoint (abortObjs t)) := by
    cases hsp : t.sp with
    | none =>
      refine ⟨?_, ?_, ?_⟩
      · rintro k ⟨tt, h1, _⟩; (first | cases h1 | (rw [hsp] at h1; cases h1))
      · rintro k ⟨tt, h1, _⟩; (first | cases h1 | (rw [hsp] at h1; cases h1))
      · rw [abortSavepoint_none (by rw [abortObjs_sp]; exact hsp)]; exact Keeps.refl K _
    | some tt =>
      have hA : (abortObjs t).sp = some tt := by rw [abortObjs_sp]; exact hsp
      obtain ⟨e1, e2, e3⟩ := abortSavepoint_effect cA.1 hA K (by
        intro k hk hK
        exact hK.2 (Or.inr ⟨tt, hsp, hk⟩))
      refine ⟨?_, ?_, e3⟩
      · rintro k ⟨tt', h1, h2⟩; (first | cases h1 | (rw [hsp] at h1; cases h1)); exact e1 k h2
      · rintro k ⟨tt', h1, h2⟩; (first | cases h1 | (rw [hsp] at h1; cases h1)); exact e2 k h2
  obtain ⟨eB1, eB2, kB⟩ := eB
  have cC : Clean [] (abortSavepoint (abortObjs t)) (invalidateOwnCreating (abortSavepoint (abortObjs t))) :=
    invalidateOwnCreating_clean cB.1
  have eC : ∀ k, t.creating.has k = true →
      (invalidateOwnCreating (abortSavepoint (abortObjs t))).cache.get k = none := by
    intro k hk
    show (invalidateCreating _ _).cache.get k = none
    apply invalidateCreating_cache cB.1
    rw [hBcr, Map.mem_keys_iff, ← Map.has_iff]; exact hk
  have kC : Keeps K (abortSavepoint (abortObjs t)) (invalidateOwnCreating (abortSavepoint (abortObjs t))) := by
    have k1 := invalidateCreating_keeps K cB.1 (abortSavepoint (abortObjs t)).creating.keys (by
      intro k hk hK
      rw [hBcr, Map.mem_keys_iff, ← Map.has_iff] at hk
      exact hK.2 (Or.inl hk))
    exact k1.trans (Keeps.of_objs rfl)
  have cX : Clean [] (invalidateOwnCreating (abortSavepoint (abortObjs t))) (connAbort t) :=
    tpcCleanup_clean cC.1
  have kX : Keeps K (invalidateOwnCreating (abortSavepoint (abortObjs t))) (connAbort t) :=
    Keeps.of_objs rfl
  have kAll : Keeps K t (connAbort t) := ((kA.trans kB).trans kC).trans kX
  have shAX : Shrink (abortObjs t) (connAbort t) := (cB.2.trans cC.2).trans cX.2
  have shBX : Shrink (abortSavepoint (abortObjs t)) (connAbort t) := cC.2.trans cX.2
  have shCX : Shrink (invalidateOwnCreating (abortSavepoint (abortObjs t))) (connAbort t) := cX.2
  have sh : Shrink t (connAbort t) := cA.2.trans shAX
  have hSX : Str [] (connAbort t) := cX.1
  have hcomm : (connAbort t).committed = t.committed := shared_committed (connAbort_shared t)
  -- created objects are out of the cache
  have hunc : ∀ k, crKey t k → (connAbort t).cache.get k = none := by
    intro k hk
    cases hc : (connAbort t).cache.get k with
    | none => rfl
    | some i =>
      rcases hk with hk | hk
      · have := shCX.cache k i hc; rw [eC k hk] at this; cases this
      · have := shBX.cache k i hc; rw [eB1 k hk] at this; cases this
  -- registered objects
  have hreg : ∀ i ∈ t.registered, ∀ k, (t.objs i).oid = some k →
      (t.added.get k = some i → ((connAbort t).objs i).oid = none) ∧
      (t.added.get k = none → t.creating.has k = false → tmpCreated t k = false →
        ((connAbort t).objs i).status = .ghost ∨ ((connAbort t).objs i).oid = none) := by
    intro i hi k hk
    obtain ⟨e1, e2⟩ := eA i hi k hk
    constructor
    · intro ha
      rw [shAX.noneKept i (e1 ha)]; exact e1 ha
    · intro ha hncr hntc
      rcases e2 ha hncr hntc with h1 | h1
      · exact Or.inl (shAX.ghostKept i h1)
      · right; rw [shAX.noneKept i h1]; exact h1
  have haddX : (connAbort t).added = [] := by
    apply Map.eq_nil_of_get_none
    intro k
    cases hc : (connAbort t).added.get k with
    | none => rfl
    | some j =>
      exfalso
      have h1 := sh.added k j hc
      have := (hreg j (h.addedReg k j h1) k (hS.addedS k j h1).1).1 h1
      have h3 := (hSX.addedS k j hc).1
      rw [this] at h3; cases h3
  -- a disowned object was new
  have hdis : ∀ j k, (t.objs j).oid = some k → ((connAbort t).objs j).oid = none →
      t.added.get k = some j ∨ (t.cache.get k = some j ∧ crKey t k) := by
    intro j k hj hX
    have hkn := hS.known j k hj
    simp only [List.not_mem_nil, or_false] at hkn
    rcases hkn with hkn | hkn
    · right
      refine ⟨hkn, ?_⟩
      apply Classical.byContradiction
      intro hn
      have hKk : K k := by
        refine ⟨?_, hn⟩
        cases ha : t.added.get k with
        | none => rfl
        | some j' => have := (hS.addedS k j' ha).2; rw [hkn] at this; cases this
      have := kAll j k hj hKk
      rw [hX] at this; cases this
    · exact Or.inl hkn
  refine ⟨⟨hSX, sh⟩, connAbort_sp t, rfl, rfl, ?_, rfl, ?_, ?_, ?_, connAbort_sps t, connAbort_shared t, ?_⟩
  · exact haddX
  · -- noChanged
    intro j hch
    have hts : (t.objs j).status = .changed := by
      rcases sh.status j with h1 | h1 | h1
      · rw [← h1]; exact hch
      · rw [h1] at hch; cases hch
      · rw [h1.2.1] at hch; cases hch
    have hr := h.changedReg j hts
    obtain ⟨k, hk⟩ := Option.ne_none_iff_exists'.1 (h.regOid j hr)
    obtain ⟨e1, e2⟩ := hreg j hr k hk
    have hcases : ((connAbort t).objs j).status = .ghost ∨ ((connAbort t).objs j).oid = none := by
      cases ha : t.added.get k with
      | none =>
        have hcrk : crKey t k → ((connAbort t).objs j).oid = none := by
          intro hck
          rcases sh.oid j with h1 | h1
          · exfalso
            have hoid : ((connAbort t).objs j).oid = some k := by rw [h1]; exact hk
            have hkn := hSX.known j k hoid
            simp only [List.not_mem_nil, or_false, haddX, Map.get_nil] at hkn
            rcases hkn with h2 | h2
            · rw [hunc k hck] at h2; cases h2
            · cases h2
          · exact h1.1
        cases hcr : t.creating.has k with
        | false =>
          cases htc : tmpCreated t k with
          | false => exact e2 ha hcr htc
          | true =>
            right
            apply hcrk
            right
            unfold tmpCreated at htc
            cases hsp' : t.sp with
            | none => rw [hsp'] at htc; cases htc
            | some tt => rw [hsp'] at htc; exact ⟨tt, rfl, htc⟩
        | true => exact Or.inr (hcrk (Or.inl hcr))
      | some j' =>
        have := hS.inj j' j k (hS.addedS k j' ha).1 hk
        subst this
        exact Or.inr (e1 ha)
    rcases hcases with h1 | h1
    · rw [h1] at hch; cases hch
    · exact sh.disownedClean j h1 (by rw [hk]; simp) hch
  · -- serial0
    intro j hj
    rw [(sh.val j).2.2]
    cases ho : (t.objs j).oid with
    | none => exact h.serial0 j ho
    | some k =>
      rcases hdis j k ho hj with h1 | ⟨h1, h2⟩
      · exact h.addedSerial k j h1
      · exact h.crSerial k j h1 h2
  · -- coh
    intro k i hc
    have hct := sh.cache k i hc
    have hcm : t.committed.get k ≠ none := by
      rcases h.owned k i hct with h1 | h1
      · exact h1
      · rw [hunc k h1] at hc; cases hc
    obtain ⟨c, hcc⟩ := Option.ne_none_iff_exists'.1 hcm
    refine ⟨c, by rw [hcomm]; exact hcc, ?_⟩
    have hoid := hSX.cacheS k i hc
    have hst : ((connAbort t).objs i).status ≠ .ghost →
        ((connAbort t).objs i).status = (t.objs i).status ∧ (t.objs i).status ≠ .ghost ∧ ¬ inTmp t k := by
      intro hg
      have hgt : (t.objs i).status ≠ .ghost := fun hh => hg (sh.ghostKept i hh)
      refine ⟨?_, hgt, ?_⟩
      · rcases sh.status i with h1 | h1 | h1
        · exact h1
        · exact absurd h1 hg
        · rw [h1.2.2] at hoid; cases hoid
      · intro hin
        have hcB : (abortSavepoint (abortObjs t)).cache.get k = some i := shBX.cache k i hc
        exact hg (shBX.ghostKept i (eB2 k hin i hcB))
    constructor
    · intro hg
      obtain ⟨_, hgt, hnin⟩ := hst hg
      rcases h.coh k i c hct hcc hgt with h1 | h1
      · exact absurd h1 hnin
      · rw [(sh.val i).2.2]; exact h1.1
    · intro hu
      have hg : ((connAbort t).objs i).status ≠ .ghost := by rw [hu]; simp
      obtain ⟨hsame, hgt, hnin⟩ := hst hg
      rcases h.coh k i c hct hcc hgt with h1 | h1
      · exact absurd h1 hnin
      · rw [(sh.val i).1, (sh.val i).2.1]; exact h1.2 (by rw [← hsame]; exact hu)
  · -- kept
    intro j k hj hcm
    apply kAll j k hj
    constructor
    · cases ha : t.added.get k with
      | none => rfl
      | some j' =>
        have := h.addedUncommitted k (by rw [ha]; simp)
        exact absurd this hcm
    · intro hcr
      exact hcm (h.crUncommitted k hcr)

/-- further cleanup steps that disown nothing keep the result -/
theorem abortDone_more {t X Z : State} (h : AbortDone t X) (hc : Clean [] X Z)
    (hsp : Z.sp = none) (hcr : Z.creating = []) (hreg : Z.registered = []) (hntj : Z.needsToJoin = true)
    (hsps : Z.sps = X.sps) (hsh : shared Z = shared X)
    (hk : ∀ j k, (X.objs j).oid = some k → (Z.objs j).oid = some k) : AbortDone t Z := by
  have sh := hc.2
  refine ⟨⟨hc.1, h.clean.2.trans sh⟩, hsp, hcr, hreg, ?_, hntj, ?_, ?_, ?_, by rw [hsps, h.sps],
    by rw [hsh, h.shared], fun j k hj hcm => hk j k (h.kept j k hj hcm)⟩
  · apply Map.eq_nil_of_get_none
    intro k
    cases hz : Z.added.get k with
    | none => rfl
    | some j => have := sh.added k j hz; rw [h.addedNil] at this; cases this
  · intro j hch
    rcases sh.status j with h1 | h1 | h1
    · rw [h1] at hch; exact h.noChanged j hch
    · rw [h1] at hch; cases hch
    · exact h.noChanged j h1.1
  · intro j hj
    rw [(sh.val j).2.2]
    cases ho : (X.objs j).oid with
    | none => exact h.serial0 j ho
    | some k => have := hk j k ho; rw [hj] at this; cases this
  · intro k i hz
    have hx := sh.cache k i hz
    obtain ⟨c, hcc, q1, q2⟩ := h.coh k i hx
    refine ⟨c, by rw [shared_committed hsh]; exact hcc, ?_, ?_⟩
    · intro hg
      have hgx : (X.objs i).status ≠ .ghost := fun hh => hg (sh.ghostKept i hh)
      rw [(sh.val i).2.2]; exact q1 hgx
    · intro hu
      have hux : (X.objs i).status = .uptodate := by
        rcases sh.status i with h1 | h1 | h1
        · rw [← h1]; exact hu
        · rw [h1] at hu; cases hu
        · exact absurd h1.1 (h.noChanged i)
      rw [(sh.val i).1, (sh.val i).2.1]; exact q2 hux

theorem connTpcAbort_done {t X : State} (h : AbortDone t X) : AbortDone t (connTpcAbort X) := by
  by_cases hb : X.begun = true
  · have te := connTpcAbort_effect h.clean.1 h.spNone hb
    refine abortDone_more h te.clean te.spNone te.creatingNil te.regNil te.ntj te.frame.1 (connTpcAbort_shared X) ?_
    intro j k hj
    refine te.keeps j k hj ⟨by rw [h.addedNil]; rfl, by rw [h.creatingNil]; rfl⟩
  · have : connTpcAbort X = X := by unfold connTpcAbort; simp [hb]
    rw [this]; exact h

theorem connAbort_again {t X : State} (h : AbortDone t X) : AbortDone t (connAbort X) := by
  have ae := connAbort_effect h.clean.1 h.spNone
  refine abortDone_more h ae.clean ae.spNone ae.creatingNil ae.regNil ae.ntj ae.frame.1 (connAbort_shared X) ?_
  intro j k hj
  refine ae.keeps j k hj ⟨by rw [h.addedNil]; rfl, by rw [h.creatingNil]; rfl⟩

theorem cleanup_done {t : State} (h : AbortReady t) : AbortDone t (cleanup false t) :=
  connTpcAbort_done (connAbort_done h)

/-- at the end of the transaction the connection is in a state of the invariant again -/
theorem abortDone_afterCompletion {t X : State} (hr : AbortReady t) (h : AbortDone t X)
    (hop : X.opened = true) : Inv12 (afterCompletion X) := by
  have hcomm := shared_committed h.shared
  have hlt : X.lastTid = t.lastTid := by
    have := h.shared; simp only [shared, Prod.mk.injEq] at this; exact this.2.1
  have hpp : PrePoll { X with begun := false, sps := [], fail := .none } := by
    refine ⟨h.clean.1.congr rfl rfl rfl rfl, h.spNone, rfl, h.creatingNil, h.regNil, h.addedNil, h.ntj,
      h.noChanged, h.serial0, ?_, ?_, ?_⟩
    · intro k hk
      show k < X.nextOid
      rw [h.clean.2.nextOid]
      exact hr.commFresh k (by rw [← hcomm]; exact hk)
    · intro k c hk
      show 1 ≤ c.serial ∧ c.serial ≤ X.lastTid
      rw [hlt]
      exact hr.tidB k c (by rw [← hcomm]; exact hk)
    · intro k i hc
      obtain ⟨c, hcc, _, q2⟩ := h.coh k i hc
      exact ⟨c, hcc, fun hu _ => q2 hu⟩
  have hi := poll_inv11 hpp
  have he : afterCompletion X = poll { X with begun := false, sps := [], fail := .none } := by
    unfold afterCompletion; dsimp only; rw [if_pos hop]
  rw [he]
  apply hi.toInv12
  · rw [poll_opened]; exact hop
  · obtain ⟨f, _⟩ := poll_facts { X with begun := false, sps := [], fail := .none }
    rw [f.2.2.1, f.2.1]

/-! ### the states in which a transaction is abandoned -/

theorem Inv12.abortReady {s : State} (h : Inv12 s) : AbortReady s := by
  have hcr : ∀ k, crKey s k → ∃ tt, s.sp = some tt ∧ tt.creating.has k = true := by
    rintro k (h1 | h1)
    · rw [h.creatingNil] at h1; cases h1
    · exact h1
  refine ⟨h.str, h.regOid, h.changedReg, h.addedReg, h.serial0, h.addedSerial, h.addedUncommitted,
    h.commFresh, h.tidB, ?_, ?_, ?_, ?_⟩
  · intro k i hc
    rcases h.owned k i hc with h1 | h1
    · exact Or.inl h1
    · exact Or.inr (Or.inr h1)
  · intro k i hc hk
    obtain ⟨tt, ht, hk'⟩ := hcr k hk
    exact (h.tmp tt ht).crSerial k i hk' hc
  · intro k hk
    obtain ⟨tt, ht, hk'⟩ := hcr k hk
    exact ((h.tmp tt ht).crIdx k hk').2
  · intro k i c hc hcm hg
    obtain ⟨r, hr, q1, q2⟩ := h.coh k i hc
    by_cases hin : inTmp s k
    · exact Or.inl hin
    · right
      have : r = c := by
        unfold loadRec at hr
        cases hsp : s.sp with
        | none =>
          rw [hsp] at hr
          simp only [h.snapEq, hcm] at hr
          cases hr; rfl
        | some tt =>
          rw [hsp] at hr
          have : tt.index.get k = none := by
            cases hi : tt.index.get k with
            | none => rfl
            | some p => exact absurd ⟨tt, hsp, by rw [hi]; simp⟩ hin
          simp only [this, h.snapEq, hcm] at hr
          cases hr; rfl
      subst this
      exact ⟨q1 hg, q2⟩

/-! ### … in particular the state in which a `_commit` into the temporary store failed -/

/-- the record the connection can load for a committed oid carries the committed serial -/
theorem Inv12.loadSerial {e : State} (h : Inv12 e) {k : Nat} {r0 c : Rec} (hr0 : loadRec e k = some r0)
    (hcm : e.committed.get k = some c) : r0.serial = c.serial := by
  unfold loadRec at hr0
  cases hsp : e.sp with
  | none =>
    rw [hsp] at hr0
    simp only [h.snapEq, hcm] at hr0
    cases hr0; rfl
  | some t0 =>
    rw [hsp] at hr0
    have w0 := h.tmp t0 hsp
    cases hp : t0.index.get k with
    | some p =>
      simp only [hp] at hr0
      obtain ⟨_, rr, hrr⟩ := w0.idx k p hp
      rw [TmpStore.loadAt_of hrr] at hr0; cases hr0
      exact (w0.recSerial k p _ hp hrr).1 c hcm
    | none =>
      simp only [hp, h.snapEq, hcm] at hr0
      cases hr0; rfl

theorem Prog.createdUncommitted {e r : State} (h : Inv12 e) (hP : Prog e [] r) {k : Nat}
    (hk : r.creating.has k = true) : e.committed.get k = none := by
  rcases hP.creatingNew k hk with h1 | h1 | ⟨i, h1⟩ | ⟨i, h1, h2, h3⟩
  · rw [h.creatingNil] at h1; cases h1
  · cases hcm : e.committed.get k with
    | none => rfl
    | some c => have := h.commFresh k (by rw [hcm]; simp); omega
  · exact h.addedUncommitted k (by rw [h1]; simp)
  · cases hcm : e.committed.get k with
    | none => rfl
    | some c =>
      exfalso
      obtain ⟨r0, hr0, q1, _⟩ := h.coh k i h1
      have hs := q1 h3
      rw [h2] at hs
      have := h.loadSerial hr0 hcm
      have := (h.tidB k c hcm).1
      omega

theorem Prog.keptSerial {e r : State} (hP : Prog e [] r) {k i : Nat} (hc : e.cache.get k = some i) :
    r.cache.get k = some i ∧ (r.objs i).serial = (e.objs i).serial := by
  refine ⟨hP.cacheGrow k i hc, ?_⟩
  by_cases hg : (e.objs i).status = .ghost
  · exact hP.ghostSerial i hg
  · exact (hP.objVal i hg).2.2

theorem Prog.createdSerial {e r : State} (h : Inv12 e) (hP : Prog e [] r) {k i : Nat}
    (hc : r.cache.get k = some i) (hk : r.creating.has k = true) : (r.objs i).serial = 0 := by
  have hoi := hP.str.cacheS k i hc
  rcases hP.creatingNew k hk with h7 | h7 | ⟨i', h7⟩ | ⟨i', h7, h8, _⟩
  · rw [h.creatingNil] at h7; cases h7
  · have h0o : (e.objs i).oid = none := by
      cases hh : (e.objs i).oid with
      | none => rfl
      | some k0 =>
        have := hP.oidKeep i k0 hh; rw [hoi] at this; cases this
        have := h.str.fresh i k hh; omega
    rw [hP.serialKept i (Or.inl h0o)]; exact h.serial0 i h0o
  · have : i' = i := hP.str.inj i' i k (hP.oidKeep i' k (h.str.addedS k i' h7).1) hoi
    subst this
    rw [hP.serialKept i' (Or.inr ⟨k, h7⟩)]; exact h.addedSerial k i' h7
  · obtain ⟨g1, g2⟩ := hP.keptSerial h7
    rw [hc] at g1; cases g1
    rw [g2]; exact h8

theorem failState_abortReady {e t : State} {t0 : TmpStore} (h : Inv12 e) (hsp0 : e.sp = some t0)
    (hP : Prog e [] t) (hF : TmpFail t0 e t) : AbortReady t := by
  obtain ⟨tt, hsp, hR⟩ := hF
  have w0 := h.tmp t0 hsp0
  have hctx := hP.ctx
  simp only [ctx, Prod.mk.injEq] at hctx
  obtain ⟨cx1, cx2, cx3, cx4, cx5, cx6, cx7, cx8, cx9, cx10, cx11⟩ := hctx
  have hoid0 : ∀ j, (t.objs j).oid = none → (e.objs j).oid = none := by
    intro j hj
    cases ho : (e.objs j).oid with
    | none => rfl
    | some k0 => have := hP.oidKeep j k0 ho; rw [hj] at this; cases this
  have hcrk : ∀ k, crKey t k → t.creating.has k = true ∨ t0.creating.has k = true := by
    rintro k (h1 | ⟨tt', h1, h2⟩)
    · exact Or.inl h1
    · rw [hsp] at h1; cases h1; rw [hR.cr] at h2; exact Or.inr h2
  refine ⟨hP.str, ?_, ?_, ?_, ?_, ?_, ?_, ?_, ?_, ?_, ?_, ?_, ?_⟩
  · intro i hi
    rw [cx7] at hi
    obtain ⟨k, hk⟩ := Option.ne_none_iff_exists'.1 (h.regOid i hi)
    rw [hP.oidKeep i k hk]; simp
  · intro i hi
    rw [cx7]; exact h.changedReg i (hP.noChange i hi)
  · intro k i hi
    rw [cx7]; exact h.addedReg k i (hP.addedSub k i hi)
  · intro j hj
    have h0 := hoid0 j hj
    rw [hP.serialKept j (Or.inl h0)]; exact h.serial0 j h0
  · intro k i hi
    have h0 := hP.addedSub k i hi
    rw [hP.serialKept i (Or.inr ⟨k, h0⟩)]; exact h.addedSerial k i h0
  · intro k hk
    obtain ⟨i, hi⟩ := Option.ne_none_iff_exists'.1 hk
    rw [cx2]; exact h.addedUncommitted k (by rw [hP.addedSub k i hi]; simp)
  · intro k hk
    rw [cx2] at hk
    have := h.commFresh k hk; have := hP.nextOid; omega
  · intro k c hk
    rw [cx2] at hk; rw [cx3]; exact h.tidB k c hk
  · -- owned
    intro k i hc
    rcases hP.cachedOrigin hc with h1 | h1
    · rcases h.owned k i h1 with h2 | ⟨t1, ht1, h2⟩
      · left; rw [cx2]; exact h2
      · right; right
        rw [hsp0] at ht1; cases ht1
        exact ⟨tt, hsp, by rw [hR.cr]; exact h2⟩
    · exact Or.inr (Or.inl h1)
  · -- crSerial
    intro k i hc hk
    rcases hcrk k hk with h1 | h1
    · exact hP.createdSerial h hc h1
    · obtain ⟨j0, hj0⟩ := w0.idxCached k (w0.crIdx k h1).1
      obtain ⟨g1, g2⟩ := hP.keptSerial hj0
      rw [hc] at g1; cases g1
      rw [g2]; exact w0.crSerial k i h1 hj0
  · -- crUncommitted
    intro k hk
    rw [cx2]
    rcases hcrk k hk with h1 | h1
    · exact hP.createdUncommitted h h1
    · exact (w0.crIdx k h1).2
  · -- coh
    intro k i c hc hcm hg
    by_cases hin : tt.index.get k = none
    · right
      have hoi := hP.str.cacheS k i hc
      have hst : (t.objs i).status = (e.objs i).status := by
        apply Classical.byContradiction
        intro hne
        exact hR.statusNew i k hoi hne hin
      have h0i : t0.index.get k = none := by
        cases hh : t0.index.get k with
        | none => rfl
        | some p => exact absurd hin (hR.idxKeep k (by rw [hh]; simp))
      rw [cx2] at hcm
      have hce : e.cache.get k = some i := by
        rcases hP.cachedOrigin hc with h1 | h1
        · exact h1
        · have := hP.createdUncommitted h h1; rw [hcm] at this; cases this
      have hge : (e.objs i).status ≠ .ghost := by rw [← hst]; exact hg
      obtain ⟨r0, hr0, q1, q2⟩ := h.coh k i hce
      have : r0 = c := by
        unfold loadRec at hr0
        rw [hsp0] at hr0
        simp only [h0i, h.snapEq, hcm] at hr0
        cases hr0; rfl
      subst this
      obtain ⟨v1, v2, v3⟩ := hP.objVal i hge
      rw [v1, v2, v3, hst]
      exact ⟨q1 hge, q2⟩
    · exact Or.inl ⟨tt, hsp, hin⟩

end Proofs.Conn
