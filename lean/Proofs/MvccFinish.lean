/-
  Invariant preservation for the finish section: deliver, publish; and newInstance.
-/
import Proofs.MvccCommit
namespace Proofs.Mvcc
open ZodbModel.Mvcc

theorem covers_map_append {inval : Option (List Nat)} {l : List Nat} {oid : Nat}
    (h : covers inval oid) : covers (inval.map (l ++ ·)) oid := by
  cases inval with
  | none => trivial
  | some m => simp only [covers, Option.map_some] at *; exact List.mem_append.mpr (Or.inr h)

theorem covers_map_append_left {inval : Option (List Nat)} {l : List Nat} {oid : Nat}
    (h : oid ∈ l) : covers (inval.map (l ++ ·)) oid := by
  cases inval with
  | none => trivial
  | some m => simp only [covers, Option.map_some]; exact List.mem_append.mpr (Or.inl h)

/-- an instance other than the one being delivered to -/
theorem instInv_deliver_other {log next i j} {f : Infl} {x : Inst}
    (v : InstInv log (some f) next i x) (hij : i ≠ j) :
    InstInv log (some { f with delivered := j :: f.delivered }) next i x := by
  have mem_iff : i ∈ j :: f.delivered ↔ i ∈ f.delivered := by simp [hij]
  exact { v with
    c2 := fun f' hf' => by
      simp only [Option.some.injEq] at hf'; subst hf'
      dsimp only; rw [mem_iff]; exact v.c2 f rfl
    c3 := by
      rcases v.c3 with h | ⟨f0, hf0, hp, hr⟩
      · exact Or.inl h
      · simp only [Option.some.injEq] at hf0; subst hf0
        exact Or.inr ⟨_, rfl, hp, hr⟩
    a2 := fun f' hf' hd => by
      simp only [Option.some.injEq] at hf'; subst hf'
      dsimp only at hd ⊢; rw [mem_iff] at hd; exact v.a2 f rfl hd
    b3 := fun f' hf' hd => by
      simp only [Option.some.injEq] at hf'; subst hf'
      dsimp only at hd ⊢; rw [mem_iff] at hd; exact v.b3 f rfl hd }

/-- the instance being delivered to -/
theorem instInv_deliver_self {log next n j} {f : Infl} {x : Inst}
    (g : Glob log (some f) next n) (v : InstInv log (some f) next j x) (hj : j ∉ f.delivered) :
    InstInv log (some { f with delivered := j :: f.delivered }) next j
      { x with ltid := f.tid, inval := x.inval.map (oidsOf f.writes ++ ·) } := by
  obtain ⟨g0, g1, g2, _, _⟩ := g.infl_ok f rfl
  have hlt : x.ltid < f.tid := (v.c2 f rfl).2 hj
  have hst : x.start ≤ f.tid := start_le_infl g v rfl hj
  exact { v with
    ltid_lt := g1
    c1 := fun T hT _ => Nat.le_of_lt (g2 T hT)
    c2 := fun f' hf' => by
      simp only [Option.some.injEq] at hf'; subst hf'
      exact ⟨fun _ => rfl, fun h => absurd (List.mem_cons_self) h⟩
    c3 := by
      rcases v.c3 with h | ⟨f0, hf0, hp, hr⟩
      · exact Or.inl h
      · simp only [Option.some.injEq] at hf0; subst hf0
        exact Or.inr ⟨_, rfl, hp, hr⟩
    s1 := by have := v.s1; dsimp only; omega
    s2 := fun L hL => by have := v.s2 L hL; dsimp only; omega
    a1 := fun T hT hr hs hw oid hoid => covers_map_append (v.a1 T hT hr hs hw oid hoid)
    a2 := fun f' hf' _ _ oid hoid => by
      simp only [Option.some.injEq] at hf'; subst hf'
      exact covers_map_append_left hoid
    b3 := fun f' hf' _ hlt' => by
      simp only [Option.some.injEq] at hf'; subst hf'
      dsimp only at hlt'; omega
    b4 := fun oid ser d hc => by
      rcases v.b4 oid ser d hc with h | h
      · exact Or.inl h
      · right; dsimp only; exact ⟨h.1, by omega⟩ }

theorem histInv_infl_tid {log next y} {f f' : Infl} (v : HistInv log (some f) next y)
    (ht : f'.tid = f.tid) : HistInv log (some f') next y :=
  { v with h2 := ⟨v.h2.1, fun f'' hf'' => by
      simp only [Option.some.injEq] at hf''; subst hf''; rw [ht]; exact v.h2.2 f rfl⟩ }

theorem inv_deliver {s s' : Sys} {j : Nat} (hinv : Inv s) (h : step s (.deliver j) = .ok s') :
    Inv s' := by
  obtain ⟨f, hf, hp, hjn, hwho, hjd, rfl⟩ := deliver_ok h
  have g := hinv.glob
  rw [hf] at g
  obtain ⟨g0, g1, g2, g3, g4⟩ := g.infl_ok f rfl
  refine ⟨⟨g.sorted, g.loglt, g.next_pos, ?_⟩, ?_, ?_⟩
  · intro f' hf'
    simp only [Option.some.injEq] at hf'; subst hf'
    refine ⟨g0, g1, g2, fun hne => absurd hp hne, ?_⟩
    intro k hk
    rcases List.mem_cons.mp hk with rfl | hk
    · exact ⟨hjn, hwho⟩
    · exact g4 k hk
  · intro i hi
    have v := hinv.inst i hi
    rw [hf] at v
    show InstInv s.log _ s.next i (upd s.insts j _ i)
    by_cases hij : i = j
    · subst hij; rw [upd_same]; exact instInv_deliver_self g v hjd
    · rw [upd_other _ _ _ _ hij]; exact instInv_deliver_other v hij
  · intro hh hlt
    have v := hinv.hist hh hlt
    rw [hf] at v
    exact histInv_infl_tid v rfl

end Proofs.Mvcc
