/-
  FilePool: no reader file is out while a finisher holds the write lock.
-/
import ZodbModel.Mvcc
namespace Proofs.Mvcc.FilePool
open ZodbModel.Mvcc.FilePool

def PInv (p : Pool) : Prop := (p.writing = true → p.out = 0 ∧ 0 < p.writers)

theorem pstep_inv {p p' : Pool} (a : PAct) (h : PInv p) (hs : pstep p a = some p') : PInv p' := by
  cases a with
  | announce =>
    simp only [pstep, Option.some.injEq] at hs; subst hs
    intro hw; have := h hw; exact ⟨this.1, by show 0 < p.writers + 1; omega⟩
  | acquire =>
    simp only [pstep] at hs
    split at hs
    · next hg => simp only [Option.some.injEq] at hs; subst hs; intro _; exact ⟨hg.2.2, hg.1⟩
    · cases hs
  | release =>
    simp only [pstep] at hs
    split at hs
    · simp only [Option.some.injEq] at hs; subst hs; intro hw; cases hw
    · cases hs
  | get =>
    simp only [pstep] at hs
    split at hs
    · next hg =>
      simp only [Option.some.injEq] at hs; subst hs
      intro hw; have := (h hw).2; omega
    · cases hs
  | put =>
    simp only [pstep] at hs
    split at hs
    · next hg =>
      simp only [Option.some.injEq] at hs; subst hs
      intro hw; have := (h hw).1; omega
    · cases hs

theorem pool_mutex {p : Pool} (hr : PReachable p) : ¬ (p.writing = true ∧ 0 < p.out) := by
  have hinv : PInv p := by
    induction hr with
    | init => intro h; cases h
    | step a _ hs ih => exact pstep_inv a ih hs
  intro ⟨hw, ho⟩
  have := (hinv hw).1; omega

end Proofs.Mvcc.FilePool
