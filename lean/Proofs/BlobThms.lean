/-
  C13: every reachable state satisfies the invariant; frame facts of single steps.
-/
import Proofs.BlobUndoLoop
import Proofs.BlobPack
namespace Proofs.Blob
open ZodbModel ZodbModel.Blob

theorem inv_next {s : St} (h : Inv s) (o : Op) (ha : Admissible s o) : Inv (next s o) := by
  cases o with
  | mkTemp n b => exact inv_mkTemp h n b
  | begin tid => exact inv_begin h tid
  | store oid val base => exact inv_store h oid val base
  | storeBlob oid n base => exact inv_storeBlob h oid n base true
  | restoreBlob oid n => exact inv_storeBlob h oid n 0 false
  | vote => exact inv_vote h
  | finish => exact inv_finish h
  | abort => exact inv_abort h
  | foreignAbort => exact inv_foreignAbort h
  | undo utid => exact inv_undo h utid
  | pack T drop keepOld => exact inv_pack h T drop keepOld ha

theorem reach_inv {s : St} (hr : Reach s) : Inv s := by
  induction hr with
  | init fl => exact inv_init fl
  | step o _ ha ih => exact inv_next ih o ha

/-- operations that can occur between `tpc_begin` and the end of a transaction -/
def InTxnOp : Op → Prop
  | .begin _ => False
  | .finish => False
  | .abort => False
  | .pack _ _ _ => False
  | _ => True

/-! ### what single operations do to `hist`, `txn`, `files` -/

theorem store_facts (s : St) (oid val base : Nat) :
    (store s oid val base).1.hist = s.hist ∧ (store s oid val base).1.files = s.files ∧
    (store s oid val base).1.dirty = s.dirty ∧ (store s oid val base).2.1 = [] ∧
    (∀ t, s.txn = some t → ∃ t', (store s oid val base).1.txn = some t' ∧ t'.tid = t.tid) ∧
    (s.txn = none → (store s oid val base).1.txn = none) := by
  unfold store
  cases hn : s.txn with
  | none => simp [hn]
  | some t =>
    simp only
    split
    · simp [hn]
    · split <;> simp [failTxn, setTxn]

theorem vote_facts (s : St) :
    (vote s).1.hist = s.hist ∧ (vote s).1.files = s.files ∧ (vote s).1.dirty = s.dirty ∧
    (vote s).2.1 = [] ∧
    (∀ t, s.txn = some t → ∃ t', (vote s).1.txn = some t' ∧ t'.tid = t.tid) ∧
    (s.txn = none → (vote s).1.txn = none) := by
  unfold vote
  cases hn : s.txn with
  | none => simp [hn]
  | some t =>
    simp only
    split <;> simp [setTxn, hn]

theorem storeBlob_facts (s : St) (oid n base : Nat) (check : Bool) :
    (storeBlob s oid n base check).1.hist = s.hist ∧
    (∀ t, s.txn = some t → (∃ t', (storeBlob s oid n base check).1.txn = some t' ∧ t'.tid = t.tid) ∧
      (∀ k : Key, k ≠ (oid, t.tid) →
        aget (storeBlob s oid n base check).1.files k = aget s.files k) ∧
      (∀ ev ∈ (storeBlob s oid n base check).2.1, ev = .rename (.tmp n) (.blob (oid, t.tid)))) ∧
    (s.txn = none → (storeBlob s oid n base check).1 = s ∧ (storeBlob s oid n base check).2.1 = []) := by
  unfold storeBlob
  cases hn : s.txn with
  | none => simp
  | some t =>
    simp only
    split
    · simp [hn]
    · split
      · simp [failTxn]
      · simp only [blobStoreBlob, setTxn]
        cases hb : aget s.tmp n with
        | none => simp [failTxn]
        | some b =>
          refine ⟨rfl, ?_, by simp⟩
          intro t0 ht0
          simp only [Option.some.injEq] at ht0
          subst ht0
          refine ⟨⟨_, rfl, rfl⟩, ?_, by simp⟩
          intro k hk
          show aget (aset s.files (oid, t.tid) b) k = aget s.files k
          rw [aget_aset]; simp [hk]

theorem undo_facts (s : St) (utid : Nat) :
    (undo s utid).1.hist = s.hist ∧
    (∀ t, s.txn = some t → (∃ t', (undo s utid).1.txn = some t' ∧ t'.tid = t.tid) ∧
      (∀ k : Key, k.2 ≠ t.tid → aget (undo s utid).1.files k = aget s.files k) ∧
      (∀ ev ∈ (undo s utid).2.1, UndoEvOK t.tid ev)) ∧
    (s.txn = none → (undo s utid).1 = s ∧ (undo s utid).2.1 = []) := by
  unfold undo
  cases hfl : s.flavor with
  | wrap =>
    refine ⟨rfl, ?_, fun _ => ⟨rfl, rfl⟩⟩
    intro t ht
    exact ⟨⟨t, ht, rfl⟩, fun _ _ => rfl, by simp⟩
  | fs =>
    simp only
    cases hn : s.txn with
    | none => simp
    | some t =>
      simp only
      split
      · simp [hn]
      · split
        · simp [failTxn]
        · refine ⟨rfl, ?_, by simp⟩
          intro t0 ht0
          simp only [Option.some.injEq] at ht0
          subst ht0
          refine ⟨⟨_, rfl, rfl⟩, ?_, ?_⟩
          · intro k hk
            exact undoFold_frame s.hist t.tid _ _ k hk
          · exact undoFold_evs s.hist t.tid _ _ (by simp)

/-- Inside a transaction, every operation other than begin / finish / abort / pack keeps the
    history, keeps the transaction open with the same tid, and touches only file names that carry
    that tid. -/
theorem step_in_txn {s : St} {t : Txn} (hn : s.txn = some t) (o : Op) (hin : InTxnOp o) :
    (next s o).hist = s.hist ∧ (∃ t', (next s o).txn = some t' ∧ t'.tid = t.tid) ∧
    ∀ k : Key, k.2 ≠ t.tid → aget (next s o).files k = aget s.files k := by
  cases o with
  | mkTemp n b => exact ⟨rfl, ⟨t, hn, rfl⟩, fun _ _ => rfl⟩
  | begin tid => cases hin
  | finish => cases hin
  | abort => cases hin
  | pack T drop keepOld => cases hin
  | foreignAbort => exact ⟨rfl, ⟨t, hn, rfl⟩, fun _ _ => rfl⟩
  | store oid val base =>
    obtain ⟨h1, h2, _, _, h3, _⟩ := store_facts s oid val base
    exact ⟨h1, h3 t hn, fun k _ => by show aget (store s oid val base).1.files k = _; rw [h2]⟩
  | vote =>
    obtain ⟨h1, h2, _, _, h3, _⟩ := vote_facts s
    exact ⟨h1, h3 t hn, fun k _ => by show aget (vote s).1.files k = _; rw [h2]⟩
  | storeBlob oid n base =>
    obtain ⟨h1, h2, _⟩ := storeBlob_facts s oid n base true
    obtain ⟨h3, h4, _⟩ := h2 t hn
    exact ⟨h1, h3, fun k hk => h4 k (by intro e; exact hk (by subst e; rfl))⟩
  | restoreBlob oid n =>
    obtain ⟨h1, h2, _⟩ := storeBlob_facts s oid n 0 false
    obtain ⟨h3, h4, _⟩ := h2 t hn
    exact ⟨h1, h3, fun k hk => h4 k (by intro e; exact hk (by subst e; rfl))⟩
  | undo utid =>
    obtain ⟨h1, h2, _⟩ := undo_facts s utid
    obtain ⟨h3, h4, _⟩ := h2 t hn
    exact ⟨h1, h3, h4⟩

/-- outside a transaction the same operations change nothing but the temp area -/
theorem step_no_txn {s : St} (hn : s.txn = none) (o : Op) (hin : InTxnOp o) :
    (next s o).hist = s.hist ∧ (next s o).txn = none ∧ (next s o).files = s.files ∧
    (next s o).dirty = s.dirty := by
  cases o with
  | mkTemp n b => exact ⟨rfl, hn, rfl, rfl⟩
  | begin tid => cases hin
  | finish => cases hin
  | abort => cases hin
  | pack T drop keepOld => cases hin
  | foreignAbort => exact ⟨rfl, hn, rfl, rfl⟩
  | store oid val base =>
    obtain ⟨h1, h2, h3, _, _, h4⟩ := store_facts s oid val base
    exact ⟨h1, h4 hn, h2, h3⟩
  | vote =>
    obtain ⟨h1, h2, h3, _, _, h4⟩ := vote_facts s
    exact ⟨h1, h4 hn, h2, h3⟩
  | storeBlob oid n base =>
    have := ((storeBlob_facts s oid n base true).2.2 hn).1
    show (storeBlob s oid n base true).1.hist = _ ∧ (storeBlob s oid n base true).1.txn = _ ∧
      (storeBlob s oid n base true).1.files = _ ∧ (storeBlob s oid n base true).1.dirty = _
    rw [this]; exact ⟨rfl, hn, rfl, rfl⟩
  | restoreBlob oid n =>
    have := ((storeBlob_facts s oid n 0 false).2.2 hn).1
    show (storeBlob s oid n 0 false).1.hist = _ ∧ (storeBlob s oid n 0 false).1.txn = _ ∧
      (storeBlob s oid n 0 false).1.files = _ ∧ (storeBlob s oid n 0 false).1.dirty = _
    rw [this]; exact ⟨rfl, hn, rfl, rfl⟩
  | undo utid =>
    have := ((undo_facts s utid).2.2 hn).1
    show (undo s utid).1.hist = _ ∧ (undo s utid).1.txn = _ ∧ (undo s utid).1.files = _ ∧
      (undo s utid).1.dirty = _
    rw [this]; exact ⟨rfl, hn, rfl, rfl⟩

end Proofs.Blob
