/-
  Invariant preservation for `pollApply` (the key step of DESIGN C02) and `read`.
-/
import Proofs.MvccLocal
namespace Proofs.Mvcc
open ZodbModel.Mvcc

theorem dropOids_some {c : Nat → Option (Nat × Data)} {l : List Nat} {oid : Nat} {e : Nat × Data}
    (h : dropOids c l oid = some e) : c oid = some e ∧ oid ∉ l := by
  unfold dropOids at h
  split at h
  · cases h
  · next hn => exact ⟨h, by simpa using hn⟩

theorem dropOids_none_of_mem {c : Nat → Option (Nat × Data)} {l : List Nat} {oid : Nat}
    (h : oid ∈ l) : dropOids c l oid = none := by
  unfold dropOids; simp [h]

theorem dropOids_none_of_none {c : Nat → Option (Nat × Data)} {l : List Nat} {oid : Nat}
    (h : c oid = none) : dropOids c l oid = none := by
  unfold dropOids; split <;> simp [h]

theorem polledCache_some {x : Inst} {oid : Nat} {e : Nat × Data} (h : polledCache x oid = some e) :
    x.cache oid = some e ∧ ¬ covers x.inval oid := by
  unfold polledCache applyInval at h
  split at h
  · cases h
  · next l hl =>
    have := dropOids_some h
    exact ⟨this.1, by simp only [covers, hl]; exact this.2⟩

theorem polledCache_none_of_covers {x : Inst} {oid : Nat} (h : covers x.inval oid) :
    polledCache x oid = none := by
  unfold polledCache applyInval
  split
  · rfl
  · next l hl => simp only [covers, hl] at h; exact dropOids_none_of_mem h

theorem polledCache_none_of_none {x : Inst} {oid : Nat} (h : x.cache oid = none) :
    polledCache x oid = none := by
  unfold polledCache applyInval
  split
  · rfl
  · exact dropOids_none_of_none h

theorem inv_pollApply {s s' : Sys} {i : Nat} (hinv : Inv s) (h : step s (.pollApply i) = .ok s') :
    Inv s' := by
  obtain ⟨L, hi, _, hp, rfl⟩ := pollApply_ok h
  have v := hinv.inst i hi
  have below := all_below_new_start v hp
  have hL := v.polled_le L hp
  have hr := v.c4 L hp
  have hs2 := v.s2 L hp
  apply inv_setInst hinv
  exact { v with
    polled_le := fun L' hL' => by cases hL'
    c4 := fun L' hL' => by cases hL'
    s1 := by dsimp only; omega
    s2 := fun L' hL' => by cases hL'
    a1 := fun T hT _ hst _ => by
      have := below T hT
      have hst' : max L (s.insts i).ltid + 1 ≤ T.tid := hst
      omega
    a2 := fun f hf hd hst => by
      have : (s.insts i).ltid = f.tid := (v.c2 f hf).1 hd
      have hst' : max L (s.insts i).ltid + 1 ≤ f.tid := hst
      omega
    b0 := fun oid ser d _ => by
      left; show (s.insts i).regAt < max L (s.insts i).ltid + 1; omega
    b1 := fun oid ser d hc => v.b1 oid ser d (polledCache_some hc).1
    b2 := fun oid ser d hc T hT hlt hoid => by
      obtain ⟨hc1, hnc⟩ := polledCache_some hc
      obtain ⟨h1, h2⟩ := v.b2 oid ser d hc1 T hT hlt hoid
      exfalso
      by_cases hreg : (s.insts i).regAt < T.tid
      · exact hnc (v.a1 T hT hreg h1 h2 oid hoid)
      · rcases v.b0 oid ser d hc1 with h0 | h0 <;> omega
    b3 := fun f hf hd _ oid hoid => by
      by_cases hst : (s.insts i).start ≤ f.tid
      · exact polledCache_none_of_covers (v.a2 f hf hd hst oid hoid)
      · exact polledCache_none_of_none (v.b3 f hf hd (by omega) oid hoid)
    b4 := fun oid ser d hc => by
      left
      show ser < max L (s.insts i).ltid + 1
      rcases v.b4 oid ser d (polledCache_some hc).1 with h4 | h4 <;> omega
    b5 := fun _ => by show (s.insts i).regAt < max L (s.insts i).ltid + 1; omega
    b6 := fun T hT _ => Or.inl (below T hT) }

theorem readEnabled_facts {s : Sys} {i oid : Nat} (h : readEnabled s i oid = true) :
    i < s.n ∧ (s.insts i).live = true := by
  simp only [readEnabled, Bool.and_eq_true, decide_eq_true_eq] at h
  exact ⟨h.1.1.1.1, h.1.1.2⟩

theorem not_finishing_delivered {s : Sys} (g : Glob s.log s.infl s.next s.n) (hfin : isFinishing s = false)
    {f : Infl} (hf : s.infl = some f) : f.delivered = [] := by
  apply (g.infl_ok f hf).2.2.2.1
  intro hp
  simp [isFinishing, finishing, hf, hp] at hfin

theorem inv_read {s s' : Sys} {i oid : Nat} (hinv : Inv s) (h : step s (.read i oid) = .ok s') :
    Inv s' := by
  obtain ⟨hen, hcase⟩ := read_ok h
  rcases hcase with rfl | ⟨ser, val, _, hmiss, hfin, hst, rfl⟩
  · exact hinv
  obtain ⟨hi, hlive⟩ := readEnabled_facts hen
  have v := hinv.inst i hi
  have hlt := stateAt_lt hst
  apply inv_setInst hinv
  exact { v with
    b0 := fun o ser' d hc => by
      left; exact v.b5 hlive
    b1 := fun o ser' d hc => by
      by_cases ho : o = oid
      · subst ho
        dsimp only at hc
        rw [upd_same] at hc
        simp only [Option.some.injEq, Prod.mk.injEq] at hc
        obtain ⟨rfl, rfl⟩ := hc
        exact stateAt_at_serial hst
      · dsimp only at hc; rw [upd_other _ _ _ _ ho] at hc; exact v.b1 o ser' d hc
    b2 := fun o ser' d hc T hT hlt' hoid => by
      by_cases ho : o = oid
      · subst ho
        dsimp only at hc
        rw [upd_same] at hc
        simp only [Option.some.injEq, Prod.mk.injEq] at hc
        obtain ⟨rfl, rfl⟩ := hc
        have hge : (s.insts i).start ≤ T.tid := by
          by_cases hb : T.tid < (s.insts i).start
          · have := stateAt_newest hinv.glob.sorted hst T hT hb hoid; omega
          · omega
        refine ⟨hge, fun hw => ?_⟩
        rcases v.b6 T hT hw with h6 | h6
        · omega
        · rw [hlive] at h6; cases h6
      · dsimp only at hc; rw [upd_other _ _ _ _ ho] at hc; exact v.b2 o ser' d hc T hT hlt' hoid
    b3 := fun f hf hd _ o _ => by
      rw [not_finishing_delivered hinv.glob hfin hf] at hd; cases hd
    b4 := fun o ser' d hc => by
      by_cases ho : o = oid
      · subst ho
        dsimp only at hc
        rw [upd_same] at hc
        simp only [Option.some.injEq, Prod.mk.injEq] at hc
        obtain ⟨rfl, rfl⟩ := hc
        exact Or.inl hlt
      · dsimp only at hc; rw [upd_other _ _ _ _ ho] at hc; exact v.b4 o ser' d hc }

end Proofs.Mvcc
