/-
  Helper lemmas for C04 (4): history, lastTransaction, iterator (both scan directions), undoLog,
  lastInvalidations and record_iternext of the model equal the `History` functions on `abs s`.
-/
import Proofs.FileStoreRefine
namespace Proofs.FileStoreRefine2
open ZodbModel ZodbModel.FileStore ZodbModel.History
open Proofs.FileStoreBasic Proofs.FileStoreHistory Proofs.FileStoreRefine

/-! ### history, lastTransaction -/

theorem history_refines {s : FS} (h : Inv s) (oid n : Nat) :
    FileStore.history s oid n = History.history (abs s) oid n := by
  rw [history_walk (revs_abs h.log oid)]
  unfold FileStore.history
  simp only [h.index oid, chain_lastPos h.log oid, List.isEmpty_map]
  cases hr : revRecs s.log oid with
  | nil => simp [(lastPos_eq_zero_iff oid s.log).2 hr]
  | cons th rest =>
    have hne : lastPos oid s.log ≠ 0 := fun h0 => by simp [(lastPos_eq_zero_iff oid s.log).1 h0] at hr
    simp only [hne, if_false, List.isEmpty_cons, Bool.false_eq_true]
    congr 1
    rw [← List.map_take, List.map_map, ← hr]
    apply List.map_congr_left
    intro x hx
    have hx' := List.mem_of_mem_take hx
    obtain ⟨a, b, _⟩ := mem_revRecs hx'
    simp only [Function.comp, Rev.entry, toRev]
    rw [storedSize_absRec]
    intro q hb hq
    obtain ⟨y, hy, _⟩ := back_valid h.log a b hb hq
    simp [hy]

theorem absLog_head_tid (log : Log) : (absLog log).head?.map Txn.tid = log.head?.map (·.tid) := by
  cases log with
  | nil => rfl
  | cons t older => rfl

theorem lastTransaction_refines {s : FS} (h : Inv s) :
    FileStore.lastTransaction s = History.lastTransaction (abs s) := by
  unfold FileStore.lastTransaction History.lastTransaction abs
  rw [h.ltid, List.getLast?_reverse, absLog_head_tid]
  rfl

/-! ### iterator -/

theorem scanForward_eq (start : Nat) (l : List FTxn) :
    scanForward start l = l.dropWhile (fun t => decide (t.tid < start)) := by
  induction l with
  | nil => rfl
  | cons t l ih =>
    simp only [scanForward, List.dropWhile_cons]
    by_cases h : start ≤ t.tid
    · have : ¬ t.tid < start := by omega
      simp [h, this]
    · have : t.tid < start := by omega
      simp [h, this, ih]

theorem dropWhile_append_all {α : Type} (p : α → Bool) (a b : List α) (h : ∀ x ∈ a, p x = true) :
    (a ++ b).dropWhile p = b.dropWhile p := by
  induction a with
  | nil => rfl
  | cons x a ih =>
    simp only [List.cons_append, List.dropWhile_cons, h x List.mem_cons_self, if_true]
    exact ih fun y hy => h y (List.mem_cons_of_mem _ hy)

theorem dropWhile_head_false {α : Type} (p : α → Bool) (l : List α)
    (h : ∀ x, l.head? = some x → p x = false) : l.dropWhile p = l := by
  cases l with
  | nil => rfl
  | cons x l => simp [h x rfl]

/-- newest-first list with strictly decreasing tids -/
abbrev DescT (l : List FTxn) : Prop := l.Pairwise (fun a b => b.tid < a.tid)

theorem scanBackward_eq (start : Nat) (older acc : List FTxn) (hs : DescT older)
    (hacc : ∀ x, acc.head? = some x → start < x.tid) :
    scanBackward start older acc =
      (older.reverse ++ acc).dropWhile (fun t => decide (t.tid < start)) := by
  induction older generalizing acc with
  | nil => simp only [scanBackward, List.reverse_nil, List.nil_append]
           rw [dropWhile_head_false]
           intro x hx; have := hacc x hx; simp; omega
  | cons t older ih =>
    obtain ⟨h1, h2⟩ := List.pairwise_cons.1 hs
    simp only [scanBackward, List.reverse_cons, List.append_assoc, List.singleton_append]
    by_cases hle : t.tid ≤ start
    · have hall : ∀ x ∈ older.reverse, decide (x.tid < start) = true := by
        intro x hx
        have := h1 x (List.mem_reverse.1 hx)
        simp; omega
      rw [dropWhile_append_all _ _ _ hall]
      by_cases heq : t.tid = start
      · simp [heq]
      · have hlt : t.tid < start := by omega
        simp only [hle, heq, if_true, if_false, List.dropWhile_cons, hlt, decide_true]
        rw [dropWhile_head_false]
        intro x hx; have := hacc x hx; simp; omega
    · simp only [hle, if_false]
      rw [ih (t :: acc) h2 (by intro x hx; simp at hx; subst hx; omega)]

theorem getLast_reverse_cons {α : Type} (t : α) (older : List α) :
    ∃ t1 rest, (t :: older).reverse = t1 :: rest := by
  cases h : (t :: older).reverse with
  | nil => simp at h
  | cons a b => exact ⟨a, b, rfl⟩

theorem descT_reverse_head {log : List FTxn} (hs : DescT log) {t1 : FTxn} {rest : List FTxn}
    (hr : log.reverse = t1 :: rest) : ∀ x ∈ rest, t1.tid < x.tid := by
  have : log = rest.reverse ++ [t1] := by
    have := congrArg List.reverse hr
    simpa using this
  subst this
  intro x hx
  have := List.pairwise_append.1 hs
  exact this.2.2 x (List.mem_reverse.2 hx) t1 (by simp)

/-- `_skip_to_start` lands on the first transaction with `tid ≥ start`, whichever way it scans -/
theorem skipToStart_eq (start : Nat) (back : Bool) (log : Log) (hs : DescT log) :
    skipToStart start back log = log.reverse.dropWhile (fun t => decide (t.tid < start)) := by
  cases log with
  | nil => rfl
  | cons tl older =>
    obtain ⟨t1, fwd, hr⟩ := getLast_reverse_cons tl older
    obtain ⟨h1, h2⟩ := List.pairwise_cons.1 hs
    unfold skipToStart
    rw [hr]
    simp only
    by_cases ha : start < t1.tid
    · have : ¬ t1.tid < start := by omega
      simp [ha, this]
    · by_cases hb : start = t1.tid
      · simp [hb]
      · simp only [ha, hb, if_false]
        by_cases hc : tl.tid ≤ start
        · simp only [hc, if_true]
          rw [← hr, List.reverse_cons]
          have hall : ∀ x ∈ older.reverse, decide (x.tid < start) = true := by
            intro x hx
            have := h1 x (List.mem_reverse.1 hx)
            simp; omega
          rw [dropWhile_append_all _ _ _ hall]
          by_cases hd : tl.tid = start
          · simp [hd]
          · have : tl.tid < start := by omega
            simp [hd, this]
        · simp only [hc, if_false]
          cases back with
          | true =>
            simp only [if_true]
            rw [scanBackward_eq start older [tl] h2 (by intro x hx; simp at hx; subst hx; omega),
              ← hr, List.reverse_cons]
          | false =>
            simp only [Bool.false_eq_true, if_false]
            exact scanForward_eq start (t1 :: fwd)

theorem filter_range_asc {α : Type} (tidOf : α → Nat) (l : List α)
    (hs : l.Pairwise (fun a b => tidOf a < tidOf b)) (a b : Nat) :
    l.filter (fun t => decide (a ≤ tidOf t) && decide (tidOf t ≤ b)) =
      (l.dropWhile (fun t => decide (tidOf t < a))).takeWhile (fun t => decide (tidOf t ≤ b)) := by
  induction l with
  | nil => rfl
  | cons t l ih =>
    obtain ⟨h1, h2⟩ := List.pairwise_cons.1 hs
    simp only [List.filter_cons, List.dropWhile_cons]
    by_cases ha : tidOf t < a
    · have : ¬ a ≤ tidOf t := by omega
      simp [ha, this, ih h2]
    · have hge : a ≤ tidOf t := by omega
      have hd : l.dropWhile (fun t => decide (tidOf t < a)) = l := by
        apply dropWhile_head_false
        intro x hx
        have := h1 x (List.mem_of_mem_head? hx)
        simp; omega
      simp only [ha, decide_false, hge, decide_true, Bool.true_and, Bool.false_eq_true, if_false,
        List.takeWhile_cons]
      by_cases hb : tidOf t ≤ b
      · simp only [hb, decide_true, if_true]
        rw [ih h2, hd]
      · simp only [hb, decide_false, Bool.false_eq_true, if_false]
        rw [List.filter_eq_nil_iff]
        intro x hx
        have := h1 x hx
        simp; omega

theorem filter_ge_asc {α : Type} (tidOf : α → Nat) (l : List α)
    (hs : l.Pairwise (fun a b => tidOf a < tidOf b)) (a : Nat) :
    l.filter (fun t => decide (a ≤ tidOf t)) = l.dropWhile (fun t => decide (tidOf t < a)) := by
  induction l with
  | nil => rfl
  | cons t l ih =>
    obtain ⟨h1, h2⟩ := List.pairwise_cons.1 hs
    simp only [List.filter_cons, List.dropWhile_cons]
    by_cases ha : tidOf t < a
    · have : ¬ a ≤ tidOf t := by omega
      simp [ha, this, ih h2]
    · have hge : a ≤ tidOf t := by omega
      simp only [ha, decide_false, hge, decide_true, if_true, Bool.false_eq_true, if_false]
      congr 1
      rw [List.filter_eq_self]
      intro x hx
      have := h1 x hx
      simp; omega

theorem logInv_descT {log : Log} (h : LogInv log) : DescT log := by
  induction log with
  | nil => exact List.Pairwise.nil
  | cons t older ih =>
    obtain ⟨hs, _, _, hi⟩ := h
    exact List.pairwise_cons.2 ⟨hs, ih hi⟩

theorem descT_reverse_asc {log : Log} (h : DescT log) :
    log.reverse.Pairwise (fun a b => a.tid < b.tid) := by
  rw [List.pairwise_reverse]; exact h

theorem absTxn_tid (log : Log) (t : FTxn) : (absTxn log t).tid = t.tid := rfl

theorem log_status {log : Log} (h : LogInv log) {t : FTxn} (ht : t ∈ log) : statusOk t.status := by
  induction log with
  | nil => cases ht
  | cons t' older ih =>
    obtain ⟨_, _, hst, hi⟩ := h
    rcases List.mem_cons.1 ht with rfl | ht
    · exact hst
    · exact ih hi ht

/-- the bounds of an iteration as a predicate on tids -/
def inRange (start stop : Option Nat) (tid : Nat) : Bool :=
  (match start with | none => true | some a => decide (a ≤ tid)) &&
  (match stop with | none => true | some b => decide (tid ≤ b))

theorem iterTake_no_c (stop : Option Nat) (l : List FTxn) (hc : ∀ t ∈ l, t.status ≠ stCheckpoint) :
    iterTake stop l = l.takeWhile fun t => (match stop with | none => true | some b => decide (t.tid ≤ b)) := by
  unfold iterTake
  induction l with
  | nil => rfl
  | cons t l ih =>
    have h1 : (t.status != stCheckpoint) = true := by simp [hc t List.mem_cons_self]
    simp only [List.takeWhile_cons, h1, Bool.and_true]
    rw [ih fun x hx => hc x (List.mem_cons_of_mem _ hx)]
    rfl

theorem takeWhile_all_true {α : Type} (l : List α) : l.takeWhile (fun _ => true) = l := by
  induction l with
  | nil => rfl
  | cons x l ih => simp [ih]

/-- iteration over a file that holds committed transactions only -/
theorem iterCore_eq (log : Log) (hd : DescT log) (hc : ∀ t ∈ log, t.status ≠ stCheckpoint)
    (start stop : Option Nat) (back : Bool) :
    iterTake stop (iterFrom start back log) = log.reverse.filter fun t => inRange start stop t.tid := by
  unfold iterFrom
  have hasc := descT_reverse_asc hd
  have hc' : ∀ t ∈ log.reverse, t.status ≠ stCheckpoint := fun t ht => hc t (List.mem_reverse.1 ht)
  cases start with
  | none =>
    simp only
    rw [iterTake_no_c stop _ hc']
    cases stop with
    | none =>
      simp only [inRange, Bool.and_self]
      rw [takeWhile_all_true, List.filter_eq_self.2]
      intro x _; rfl
    | some b =>
      simp only [inRange, Bool.true_and]
      have := filter_range_asc (fun t : FTxn => t.tid) log.reverse hasc 0 b
      simp only [Nat.zero_le, decide_true, Bool.true_and, Nat.not_lt_zero, decide_false] at this
      rw [this]
      congr 1
      exact (dropWhile_head_false _ _ (by intro x _; rfl)).symm
  | some a =>
    simp only
    rw [skipToStart_eq a back log hd]
    have hc'' : ∀ t ∈ log.reverse.dropWhile (fun t => decide (t.tid < a)), t.status ≠ stCheckpoint :=
      fun t ht => hc' t ((List.dropWhile_sublist _).subset ht)
    rw [iterTake_no_c stop _ hc'']
    cases stop with
    | none =>
      simp only [inRange, Bool.and_true]
      rw [takeWhile_all_true]
      exact (filter_ge_asc (fun t : FTxn => t.tid) log.reverse hasc a).symm
    | some b =>
      simp only [inRange]
      exact (filter_range_asc (fun t : FTxn => t.tid) log.reverse hasc a b).symm

theorem takeWhile_snoc_false {α : Type} (q : α → Bool) (m : List α) (v : α) (hq : q v = false) :
    (m ++ [v]).takeWhile q = m.takeWhile q := by
  induction m with
  | nil => simp [hq]
  | cons x m ih =>
    simp only [List.cons_append, List.takeWhile_cons, ih]

theorem takeWhile_dropWhile_snoc {α : Type} (p q : α → Bool) (l : List α) (v : α) (hq : q v = false) :
    ((l ++ [v]).dropWhile p).takeWhile q = (l.dropWhile p).takeWhile q := by
  induction l with
  | nil =>
    simp only [List.nil_append, List.dropWhile_cons, List.dropWhile_nil, List.takeWhile_nil]
    split
    · rfl
    · simp [hq]
  | cons x l ih =>
    simp only [List.cons_append, List.dropWhile_cons]
    split
    · exact ih
    · exact takeWhile_snoc_false q (x :: l) v hq

/-- a voted transaction at the end of the file (checkpoint flag set) is never reported -/
theorem iterVoted_eq (v : FTxn) (log : Log) (hv : v.status = stCheckpoint) (hd : DescT (v :: log))
    (start stop : Option Nat) (back : Bool) :
    iterTake stop (iterFrom start back (v :: log)) = iterTake stop (iterFrom start back log) := by
  unfold iterFrom
  have hd' : DescT log := (List.pairwise_cons.1 hd).2
  have hq : ((match stop with | none => true | some b => decide (v.tid ≤ b)) && v.status != stCheckpoint) = false := by
    simp [hv]
  cases start with
  | none =>
    simp only [List.reverse_cons]
    unfold iterTake
    exact takeWhile_snoc_false _ _ v hq
  | some a =>
    simp only
    rw [skipToStart_eq a back (v :: log) hd, skipToStart_eq a back log hd', List.reverse_cons]
    unfold iterTake
    exact takeWhile_dropWhile_snoc _ _ _ v hq

theorem iterator_refines {s : FS} (h : Inv s) (start stop : Option Nat) (back : Bool) :
    FileStore.iterator s start stop back = History.iterator (abs s) start stop := by
  have hd := logInv_descT h.log
  have hc : ∀ t ∈ s.log, t.status ≠ stCheckpoint := fun t ht => (log_status h.log ht).2
  -- the specification side: a filter over the committed log
  have hspec : History.iterator (abs s) start stop =
      (s.log.reverse.filter fun t => inRange start stop t.tid).map (absTxn s.log) := by
    unfold History.iterator abs
    rw [absLog_eq_map h.log, ← List.map_reverse, List.filter_map]
    rfl
  rw [hspec]
  unfold FileStore.iterator fileLog
  cases hs : s.txn with
  | none => simp only; rw [iterCore_eq s.log hd hc]
  | some st =>
    simp only
    by_cases hv : st.voted = true
    · simp only [hv, if_true]
      have hst := h.staged st hs
      have hdv : DescT ((⟨st.tid, stCheckpoint, st.user, st.desc, st.ext, st.recs⟩ : FTxn) :: s.log) := by
        refine List.pairwise_cons.2 ⟨?_, hd⟩
        intro t ht
        have := tid_le_lastTid h.log ht
        have := h.ltid
        have := hst.tid
        show t.tid < st.tid
        omega
      rw [iterVoted_eq _ s.log rfl hdv, iterCore_eq s.log hd hc]
      apply List.map_congr_left
      intro t ht
      have ht' : t ∈ s.log := List.mem_reverse.1 (List.mem_filter.1 ht).1
      exact absTxn_cons fun r hr q hb => back_lt h.log ht' hr hb
    · simp only [hv, Bool.false_eq_true, if_false]
      rw [iterCore_eq s.log hd hc]

/-! ### undo log -/

/-- the counting window of `UndoSearch` over the candidate transactions -/
def window {α : Type} (first last : Nat) : Nat → List α → List α
  | _, [] => []
  | i, c :: cs =>
    if last ≤ i then [] else (if first ≤ i then [c] else []) ++ window first last (i + 1) cs

theorem window_eq {α : Type} (first last i : Nat) (cs : List α) :
    window first last i cs = (cs.drop (first - i)).take (last - max first i) := by
  induction cs generalizing i with
  | nil => simp [window]
  | cons c cs ih =>
    simp only [window]
    by_cases h1 : last ≤ i
    · have : last - max first i = 0 := by omega
      simp [h1, this]
    · simp only [h1, if_false]
      by_cases h2 : first ≤ i
      · have e1 : first - i = 0 := by omega
        have e2 : first - (i + 1) = 0 := by omega
        have e3 : last - max first i = (last - max first (i + 1)) + 1 := by omega
        rw [ih (i + 1), e1, e2, e3]
        simp [h2]
      · have e1 : first - i = (first - (i + 1)) + 1 := by omega
        have e2 : max first i = max first (i + 1) := by omega
        rw [ih (i + 1), e1, e2]
        simp [h2]

def undoCands (p : UndoEntry → Bool) (log : Log) : List FTxn :=
  (log.takeWhile fun t => t.status != stPacked).filter fun t => t.status == stNormal && p (undoEntry t)

theorem window_of_le {α : Type} (first last i : Nat) (cs : List α) (h : last ≤ i) :
    window first last i cs = [] := by
  cases cs <;> simp [window, h]

theorem undoCands_packed (p : UndoEntry → Bool) {t : FTxn} (older : Log) (h : t.status = stPacked) :
    undoCands p (t :: older) = [] := by
  simp [undoCands, h]

theorem undoCands_taken (p : UndoEntry → Bool) {t : FTxn} (older : Log) (hp : t.status ≠ stPacked)
    (hn : t.status = stNormal) (ha : p (undoEntry t) = true) :
    undoCands p (t :: older) = t :: undoCands p older := by
  have hp' : (t.status != stPacked) = true := by simp [hp]
  have hn' : (t.status == stNormal) = true := by simp [hn]
  simp only [undoCands, List.takeWhile_cons, hp', if_true, List.filter_cons, hn', ha, Bool.and_self]

theorem undoCands_skipped (p : UndoEntry → Bool) {t : FTxn} (older : Log) (hp : t.status ≠ stPacked)
    (hn : t.status ≠ stNormal ∨ p (undoEntry t) = false) :
    undoCands p (t :: older) = undoCands p older := by
  have hp' : (t.status != stPacked) = true := by simp [hp]
  have hn' : (t.status == stNormal && p (undoEntry t)) = false := by
    rcases hn with hn | hn
    · simp [hn]
    · simp [hn]
  simp only [undoCands, List.takeWhile_cons, hp', if_true, List.filter_cons, hn', Bool.false_eq_true,
    if_false]

theorem undoSearch_eq (p : UndoEntry → Bool) (first last i : Nat) (log : Log) :
    undoSearch p first last i log = (window first last i (undoCands p log)).map undoEntry := by
  induction log generalizing i with
  | nil => rfl
  | cons t older ih =>
    have hge : ¬ logEnd (t :: older) ≤ 4 := by
      have := txn_size_ge t; have := logEnd_ge older; simp only [logEnd]; omega
    simp only [undoSearch]
    by_cases hl : last ≤ i
    · rw [if_pos (Or.inl hl), window_of_le _ _ _ _ hl]; rfl
    · rw [if_neg (by intro hh; rcases hh with hh | hh; exact hl hh; exact hge hh)]
      by_cases hp : t.status = stPacked
      · rw [if_pos hp, undoCands_packed p older hp]; rfl
      · rw [if_neg hp]
        by_cases hn : t.status ≠ stNormal ∨ p (undoEntry t) = false
        · rw [if_pos hn, undoCands_skipped p older hp hn, ih i]
        · have hn1 : t.status = stNormal := by
            cases Nat.decEq t.status stNormal with
            | isTrue e => exact e
            | isFalse e => exact absurd (Or.inl e) hn
          have hn2 : p (undoEntry t) = true := by
            cases hq : p (undoEntry t) with
            | true => rfl
            | false => exact absurd (Or.inr hq) hn
          rw [if_neg hn, undoCands_taken p older hp hn1 hn2, ih (i + 1)]
          simp only [window, hl, if_false, List.map_append]
          congr 1
          split <;> rfl

theorem recLen_absRec {log : Log} {r : DRec}
    (hv : ∀ q, r.body = .back q → q ≠ 0 → (recAt log q).isSome) : (absRec log r).recLen = r.size := by
  unfold absRec Rec.recLen DRec.size
  cases hb : r.body with
  | data d => rfl
  | back q =>
    by_cases hq : q = 0
    · simp [hq]
    · have := hv q hb hq
      simp only [hq, if_false]
      cases hrec : recAt log q with
      | none => simp [hrec] at this
      | some x => simp

theorem sum_map_reverse_recs (recs : List DRec) :
    ((recs.reverse.map DRec.size).sum) = recsSize recs := by
  induction recs with
  | nil => rfl
  | cons r recs ih =>
    simp only [List.reverse_cons, List.map_append, List.sum_append, List.map_cons, List.map_nil,
      List.sum_cons, List.sum_nil, recsSize, ih]
    omega

theorem tlen_absTxn {log : Log} (h : LogInv log) {t : FTxn} (ht : t ∈ log) :
    (absTxn log t).tlen = t.tlen := by
  unfold Txn.tlen absTxn FTxn.tlen FTxn.hdrLen
  simp only [List.map_map]
  have : (t.recs.reverse.map (Rec.recLen ∘ absRec log)) = t.recs.reverse.map DRec.size := by
    apply List.map_congr_left
    intro r hr
    simp only [Function.comp]
    apply recLen_absRec
    intro q hb hq
    obtain ⟨y, hy, _⟩ := back_valid h ht (List.mem_reverse.1 hr) hb hq
    simp [hy]
  rw [this, sum_map_reverse_recs]

theorem undoLogF_refines {s : FS} (h : Inv s) (p : UndoEntry → Bool) (first last : Nat) :
    FileStore.undoLogF s p first last = History.undoLogF (abs s) p first last := by
  unfold FileStore.undoLogF History.undoLogF abs
  rw [undoSearch_eq, window_eq, List.reverse_reverse, absLog_eq_map h.log]
  simp only [Nat.sub_zero, Nat.max_eq_left (Nat.zero_le first)]
  have hc : ((s.log.map (absTxn s.log)).takeWhile fun t => t.status != stPacked).filter
        (fun t => t.status == stNormal && p t.undoEntry) = (undoCands p s.log).map (absTxn s.log) := by
    unfold undoCands
    rw [List.takeWhile_map, List.filter_map]
    congr 1
    apply List.filter_congr
    intro t ht
    have ht' : t ∈ s.log := (List.takeWhile_sublist _).subset ht
    simp only [Function.comp, Txn.undoEntry, undoEntry, tlen_absTxn h.log ht']
    rfl
  rw [hc, ← List.map_drop, ← List.map_take, List.map_map]
  apply List.map_congr_left
  intro t ht
  have ht' : t ∈ s.log := by
    have := List.mem_of_mem_take ht
    have := List.mem_of_mem_drop this
    unfold undoCands at this
    exact (List.takeWhile_sublist _).subset (List.mem_filter.1 this).1
  simp only [Function.comp, Txn.undoEntry, undoEntry, tlen_absTxn h.log ht']
  rfl

theorem undoLog_refines {s : FS} (h : Inv s) (first last : Nat) :
    FileStore.undoLog s first last = History.undoLog (abs s) first last :=
  undoLogF_refines h _ first last

/-! ### lastInvalidations -/

theorem lastInvalidations_refines {s : FS} (h : Inv s) (n : Nat) :
    FileStore.lastInvalidations s n = History.lastInvalidations (abs s) n := by
  unfold FileStore.lastInvalidations History.lastInvalidations abs
  rw [List.reverse_reverse, absLog_eq_map h.log, ← List.map_take, ← List.map_reverse, List.map_map]
  apply List.map_congr_left
  intro t _
  simp only [Function.comp, absTxn, List.map_map]
  congr 1
  apply List.map_congr_left
  intro r _
  simp [absRec_oid]

/-! ### record_iternext -/

theorem min?_congr {l1 l2 : List Nat} (h : ∀ x, x ∈ l1 ↔ x ∈ l2) : l1.min? = l2.min? := by
  cases h1 : l1.min? with
  | none =>
    have e1 := List.min?_eq_none_iff.1 h1
    have : l2 = [] := by
      cases l2 with
      | nil => rfl
      | cons x l => have := (h x).2 List.mem_cons_self; rw [e1] at this; cases this
    rw [this]; rfl
  | some a =>
    obtain ⟨ha, hmin⟩ := List.min?_eq_some_iff.1 h1
    exact (List.min?_eq_some_iff.2 ⟨(h a).1 ha, fun b hb => hmin b ((h b).2 hb)⟩).symm

theorem mem_keys_iff {ix : Index} (hpos : ∀ kv ∈ ix, kv.2 ≠ 0) (o : Nat) :
    o ∈ ix.map (·.1) ↔ idxGet ix o ≠ 0 := by
  induction ix with
  | nil => simp [idxGet]
  | cons kv ix ih =>
    obtain ⟨k, v⟩ := kv
    have hv := hpos (k, v) List.mem_cons_self
    have ih := ih fun kv hkv => hpos kv (List.mem_cons_of_mem _ hkv)
    simp only [List.map_cons, List.mem_cons, idxGet]
    by_cases hk : k = o
    · simp only [hk, true_or, if_true, true_iff]; exact hv
    · have : ¬ o = k := fun e => hk e.symm
      simp only [this, false_or, hk, if_false]; exact ih

theorem mem_oids_absLog (log : Log) (o : Nat) :
    o ∈ History.oids (absLog log).reverse ↔ revRecs log o ≠ [] := by
  unfold History.oids
  simp only [List.mem_flatMap, List.mem_reverse, List.mem_map]
  induction log with
  | nil => simp [absLog, revRecs]
  | cons t older ih =>
    simp only [absLog, List.mem_cons, revRecs]
    cases hl : lastRecIn (logEnd older + t.hdrLen) t.recs o with
    | some rp =>
      obtain ⟨r, p⟩ := rp
      obtain ⟨h1, h2, _⟩ := lastRecIn_some hl
      simp only [ne_eq, reduceCtorEq, not_false_eq_true, iff_true]
      refine ⟨absTxn older t, Or.inl rfl, absRec older r, ?_, ?_⟩
      · simp only [absTxn, List.mem_map, List.mem_reverse]; exact ⟨r, h1, rfl⟩
      · rw [absRec_oid]; exact h2
    | none =>
      have hn := lastRecIn_none hl
      simp only
      rw [← ih]
      constructor
      · rintro ⟨tx, htx | htx, r, hr, ho⟩
        · subst htx
          simp only [absTxn, List.mem_map, List.mem_reverse] at hr
          obtain ⟨r', hr', rfl⟩ := hr
          rw [absRec_oid] at ho
          exact absurd ho (hn r' hr')
        · exact ⟨tx, htx, r, hr, ho⟩
      · rintro ⟨tx, htx, r, hr, ho⟩
        exact ⟨tx, Or.inr htx, r, hr, ho⟩

theorem idxMinKey_refines {s : FS} (h : Inv s) (k : Nat) :
    idxMinKey s.index k = History.nextOid (abs s) k := by
  unfold idxMinKey History.nextOid abs
  apply min?_congr
  intro x
  simp only [List.mem_filter]
  rw [mem_keys_iff h.idxpos, h.index, mem_oids_absLog]
  have := lastPos_eq_zero_iff x s.log
  constructor
  · rintro ⟨a, b⟩; exact ⟨fun e => a (this.2 e), b⟩
  · rintro ⟨a, b⟩; exact ⟨fun e => a (this.1 e), b⟩

/-- `record_iternext` as the code behaves: it takes the smallest INDEXED oid, whether or not the
    object still exists (the index keeps the oid of a deleted / un-created object), and fails there -/
def codeRecordIterNext (h : History) (next : Nat) : Except Err (Nat × Nat × Bytes × Option Nat) :=
  match History.nextOid h next with
  | none => .error .valueError
  | some oid =>
    match History.load h oid with
    | .error e => .error e
    | .ok (d, tid) => .ok (oid, tid, d, History.nextOid h (oid + 1))

theorem recordIterNext_code {s : FS} (h : Inv s) (next : Nat) :
    FileStore.recordIterNext s next = codeRecordIterNext (abs s) next := by
  unfold FileStore.recordIterNext codeRecordIterNext
  rw [idxMinKey_refines h]
  cases History.nextOid (abs s) next with
  | none => rfl
  | some oid =>
    simp only [load_refines h, idxMinKey_refines h]
    rfl

theorem nextExisting_eq_nextOid {h : History}
    (hall : ∀ o ∈ History.oids h, ∃ r, History.load h o = .ok r) (k : Nat) :
    History.nextExisting h k = History.nextOid h k := by
  unfold History.nextExisting History.nextOid
  congr 1
  apply List.filter_congr
  intro o ho
  obtain ⟨r, hr⟩ := hall o ho
  simp [hr]

/-- PARTIAL: when every object the storage knows currently exists, `record_iternext` answers from the
    history; with a deleted / un-created object among them it does not (see the witness in Props) -/
theorem recordIterNext_refines_partial {s : FS} (h : Inv s)
    (hall : ∀ o ∈ History.oids (abs s), ∃ r, History.load (abs s) o = .ok r) (next : Nat) :
    FileStore.recordIterNext s next = History.recordIterNext (abs s) next := by
  rw [recordIterNext_code h]
  unfold codeRecordIterNext History.recordIterNext
  simp only [nextExisting_eq_nextOid hall]
  rfl

end Proofs.FileStoreRefine2
