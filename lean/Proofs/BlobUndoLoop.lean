/-
  C13: facts about the record loop of undo that the property theorems need: which files it can
  touch, which raw events it issues, and what it establishes for every record it processed.
-/
import Proofs.BlobUndo
namespace Proofs.Blob
open ZodbModel ZodbModel.Blob

/-- the three things one iteration can do -/
inductive StepKind (h : List Rec) (tid : Nat) (a : UndoAcc) (r : Rec) (a' : UndoAcc) : Prop where
  | stuck (hf : a'.files = a.files) (hd : a'.dirty = a.dirty) (hs : a'.staged = a.staged)
      (he : a'.evs = a.evs) (hseen : a'.seen = a.seen) (hflag : (a'.failures || a'.broken) = true)
  | record (hf : a'.files = a.files) (hd : a'.dirty = a.dirty)
      (hs : a'.staged = undoRec h r tid :: a.staged.filter fun q => decide (q.oid ≠ r.oid))
      (he : a'.evs = a.evs)
      (hfl : a'.failures = a.failures) (hbr : a'.broken = a.broken)
      (hk : (undoRec h r tid).kind ≠ .blob)
      (hseen : a'.seen = r.oid :: a.seen) (hnew : r.oid ∉ a.seen)
      (hnone : aget a.files (r.oid, tid) = none)
  | copy (b : Bytes) (hb : aget a.files (r.oid, (undoRec h r tid).src) = some b)
      (hf : a'.files = aset a.files (r.oid, tid) b) (hd : a'.dirty = (r.oid, tid) :: a.dirty)
      (hs : a'.staged = undoRec h r tid :: a.staged.filter fun q => decide (q.oid ≠ r.oid))
      (he : a'.evs = a.evs ++ [.create .scratch, .write .scratch, .rename .scratch (.blob (r.oid, tid))])
      (hfl : a'.failures = a.failures) (hbr : a'.broken = a.broken)
      (hk : (undoRec h r tid).kind = .blob)
      (hseen : a'.seen = r.oid :: a.seen) (hnew : r.oid ∉ a.seen)

theorem undoOne_kind (h : List Rec) (tid : Nat) (a : UndoAcc) (r : Rec) :
    StepKind h tid a r (undoOne h tid a r) := by
  unfold undoOne
  split
  · rename_i hbr
    exact .stuck rfl rfl rfl rfl rfl (by simp [hbr])
  · split
    · exact .stuck rfl rfl rfl rfl rfl (by simp)
    · rename_i hns
      have hnew : r.oid ∉ a.seen := by
        intro hc; apply hns; simpa using hc
      split
      · exact .stuck rfl rfl rfl rfl rfl (by simp)
      · simp only
        split
        · rename_i hkind
          split
          · exact .stuck rfl rfl rfl rfl rfl (by simp)
          · rename_i b hb
            exact .copy b hb rfl rfl rfl rfl rfl rfl hkind rfl hnew
        all_goals
          rename_i hkind
          split
          · exact .stuck rfl rfl rfl rfl rfl (by simp)
          · rename_i hnone
            exact .record rfl rfl rfl rfl rfl rfl (fun hc => hkind hc) rfl hnew hnone

/-- the loop only touches file names that carry the tid of the transaction in progress -/
theorem undoOne_frame (h : List Rec) (tid : Nat) (a : UndoAcc) (r : Rec) (k : Key)
    (hk : k.2 ≠ tid) : aget (undoOne h tid a r).files k = aget a.files k := by
  cases undoOne_kind h tid a r with
  | stuck hf => rw [hf]
  | record hf => rw [hf]
  | copy b hb hf =>
    rw [hf, aget_aset]
    have : k ≠ (r.oid, tid) := by
      intro e; exact hk (by subst e; rfl)
    simp [this]

theorem undoFold_frame (h : List Rec) (tid : Nat) (recs : List Rec) (a : UndoAcc) (k : Key)
    (hk : k.2 ≠ tid) : aget (recs.foldl (undoOne h tid) a).files k = aget a.files k := by
  induction recs generalizing a with
  | nil => rfl
  | cons r rs ih => simp only [List.foldl_cons]; rw [ih, undoOne_frame h tid a r k hk]

/-- raw events of the loop: only scratch files are created / written, and renamed onto names that
    carry the tid of the transaction in progress -/
def UndoEvOK (tid : Nat) (ev : Ev) : Prop :=
  ev = .create .scratch ∨ ev = .write .scratch ∨ ∃ oid, ev = .rename .scratch (.blob (oid, tid))

theorem undoOne_evs (h : List Rec) (tid : Nat) (a : UndoAcc) (r : Rec)
    (ha : ∀ ev ∈ a.evs, UndoEvOK tid ev) : ∀ ev ∈ (undoOne h tid a r).evs, UndoEvOK tid ev := by
  cases undoOne_kind h tid a r with
  | stuck _ _ _ he => rw [he]; exact ha
  | record _ _ _ he => rw [he]; exact ha
  | copy b _ _ _ _ he =>
    rw [he]
    intro ev hev
    rcases List.mem_append.1 hev with hev | hev
    · exact ha ev hev
    · simp only [List.mem_cons, List.not_mem_nil, or_false] at hev
      rcases hev with hev | hev | hev
      · exact Or.inl hev
      · exact Or.inr (Or.inl hev)
      · exact Or.inr (Or.inr ⟨r.oid, hev⟩)

theorem undoFold_evs (h : List Rec) (tid : Nat) (recs : List Rec) (a : UndoAcc)
    (ha : ∀ ev ∈ a.evs, UndoEvOK tid ev) :
    ∀ ev ∈ (recs.foldl (undoOne h tid) a).evs, UndoEvOK tid ev := by
  induction recs generalizing a with
  | nil => exact ha
  | cons r rs ih => exact ih _ (undoOne_evs h tid a r ha)

/-- the failure flags never go down -/
theorem undoOne_flags (h : List Rec) (tid : Nat) (a : UndoAcc) (r : Rec)
    (hf : (a.failures || a.broken) = true) :
    ((undoOne h tid a r).failures || (undoOne h tid a r).broken) = true := by
  cases undoOne_kind h tid a r with
  | stuck _ _ _ _ _ hflag => exact hflag
  | record _ _ _ _ hfl hbr => rw [hfl, hbr]; exact hf
  | copy _ _ _ _ _ _ hfl hbr => rw [hfl, hbr]; exact hf

theorem undoFold_flags (h : List Rec) (tid : Nat) (recs : List Rec) (a : UndoAcc)
    (hf : (a.failures || a.broken) = true) :
    ((recs.foldl (undoOne h tid) a).failures || (recs.foldl (undoOne h tid) a).broken) = true := by
  induction recs generalizing a with
  | nil => exact hf
  | cons r rs ih => exact ih _ (undoOne_flags h tid a r hf)

/-- what undoing the record `r` has produced: a staged record for `(oid, tid of the undo)` that is a
    copy of the previous revision — and, when that is a blob revision, a file under the new name
    holding exactly the previous revision's bytes; otherwise (un-creation, non-blob) no file -/
def Restored (s : St) (t : Txn) (staged : List Rec) (files : Files) (r : Rec) : Prop :=
  ∃ nr ∈ staged, nr.key = (r.oid, t.tid) ∧
    match prevRec s.hist r.oid r.tid with
    | some p => nr.kind = p.kind ∧
        (p.kind = .blob → aget files (r.oid, t.tid) = aget s.files p.key ∧ (aget s.files p.key).isSome) ∧
        (p.kind ≠ .blob → aget files (r.oid, t.tid) = none)
    | none => nr.kind = .uncreate ∧ aget files (r.oid, t.tid) = none

/-- loop invariant: the model invariant plus "only in-flight names were touched" -/
def FInv (s : St) (t : Txn) (a : UndoAcc) : Prop :=
  Inv (accSt s t a) ∧ ∀ k : Key, k.2 ≠ t.tid → aget a.files k = aget s.files k

theorem finv_step {s : St} {t : Txn} (hfs : s.flavor = .fs) {a : UndoAcc} (h : FInv s t a) (r : Rec) :
    FInv s t (undoOne s.hist t.tid a r) :=
  ⟨inv_undoOne hfs h.1 r, fun k hk => by rw [undoOne_frame _ _ _ _ k hk]; exact h.2 k hk⟩

/-- a successful iteration establishes `Restored` for its record (and marks its oid as seen) -/
theorem restored_established {s : St} {t : Txn} {a : UndoAcc} (h : FInv s t a) (r : Rec)
    (hok : ((undoOne s.hist t.tid a r).failures || (undoOne s.hist t.tid a r).broken) = false) :
    Restored s t (undoOne s.hist t.tid a r).staged (undoOne s.hist t.tid a r).files r ∧
    r.oid ∈ (undoOne s.hist t.tid a r).seen := by
  have hn : (accSt s t a).txn = some (accTxn t a) := rfl
  cases undoOne_kind s.hist t.tid a r with
  | stuck _ _ _ _ _ hflag => rw [hflag] at hok; cases hok
  | record hf _ hs _ _ _ hk hseen _ hnone =>
    refine ⟨⟨undoRec s.hist r t.tid, by rw [hs]; exact List.mem_cons_self, undoRec_key _ _ _, ?_⟩,
      by rw [hseen]; exact List.mem_cons_self⟩
    have habs : aget (undoOne s.hist t.tid a r).files (r.oid, t.tid) = none := by
      rw [hf]; exact hnone
    cases hp : prevRec s.hist r.oid r.tid with
    | none => exact ⟨undoRec_uncreate_of_none hp, habs⟩
    | some p =>
      have hkk := undoRec_kind_of_some (tid := t.tid) hp
      refine ⟨hkk, ?_, fun _ => habs⟩
      intro hb; rw [hkk] at hk; exact absurd hb hk
  | copy b hb hf _ hs _ _ _ hk hseen _ =>
    refine ⟨⟨undoRec s.hist r t.tid, by rw [hs]; exact List.mem_cons_self, undoRec_key _ _ _, ?_⟩,
      by rw [hseen]; exact List.mem_cons_self⟩
    obtain ⟨p, hp, hpk, hsrc⟩ := undoRec_blob hk
    obtain ⟨hpm, hpo, hpt⟩ := prevRec_mem hp
    have hpfresh : p.tid < t.tid := h.1.fresh _ hn p hpm
    obtain ⟨hple, hpeq⟩ := h.1.srcHist p hpm hpk
    rw [hp]
    have hfile : aget (undoOne s.hist t.tid a r).files (r.oid, t.tid) = some b := by
      rw [hf, aget_aset]; simp
    have hsame : aget s.files p.key = some b := by
      have e1 : aget a.files p.key = aget s.files p.key := h.2 p.key (by show p.tid ≠ t.tid; omega)
      have e2 : aget a.files (p.oid, p.src) = aget a.files p.key := hpeq
      rw [← e1, ← e2, hpo, ← hsrc]; exact hb
    refine ⟨by rw [undoRec_kind_of_some hp], ?_, fun hnb => absurd hpk hnb⟩
    intro _
    rw [hfile, hsame]; exact ⟨rfl, rfl⟩

/-- later iterations of the same undo call do not disturb what an earlier one established -/
theorem restored_preserved {s : St} {t : Txn} {a : UndoAcc} (r r2 : Rec)
    (hR : Restored s t a.staged a.files r) (hseen : r.oid ∈ a.seen) :
    Restored s t (undoOne s.hist t.tid a r2).staged (undoOne s.hist t.tid a r2).files r ∧
    r.oid ∈ (undoOne s.hist t.tid a r2).seen := by
  obtain ⟨nr, hnr, hkey, hm⟩ := hR
  have hnro : nr.oid = r.oid := congrArg Prod.fst hkey
  cases undoOne_kind s.hist t.tid a r2 with
  | stuck hf _ hs _ hsn => rw [hf, hs, hsn]; exact ⟨⟨nr, hnr, hkey, hm⟩, hseen⟩
  | record hf _ hs _ _ _ _ hsn hnew =>
    have hne : r2.oid ≠ r.oid := fun e => hnew (e ▸ hseen)
    have hmem : nr ∈ a.staged.filter fun q => decide (q.oid ≠ r2.oid) :=
      List.mem_filter.2 ⟨hnr, by rw [hnro]; simpa using fun e => hne e.symm⟩
    rw [hf, hs, hsn]
    exact ⟨⟨nr, List.mem_cons_of_mem _ hmem, hkey, hm⟩, List.mem_cons_of_mem _ hseen⟩
  | copy b _ hf _ hs _ _ _ _ hsn hnew =>
    have hne : r2.oid ≠ r.oid := fun e => hnew (e ▸ hseen)
    have hmem : nr ∈ a.staged.filter fun q => decide (q.oid ≠ r2.oid) :=
      List.mem_filter.2 ⟨hnr, by rw [hnro]; simpa using fun e => hne e.symm⟩
    have hfile : aget (undoOne s.hist t.tid a r2).files (r.oid, t.tid) = aget a.files (r.oid, t.tid) := by
      rw [hf, aget_aset]
      have : ((r.oid, t.tid) : Key) ≠ (r2.oid, t.tid) := by
        intro e; exact hne (congrArg Prod.fst e).symm
      simp [this]
    refine ⟨⟨nr, by rw [hs]; exact List.mem_cons_of_mem _ hmem, hkey, ?_⟩,
      by rw [hsn]; exact List.mem_cons_of_mem _ hseen⟩
    rw [hfile]; exact hm

theorem restored_fold_preserved {s : St} {t : Txn} (recs : List Rec) {a : UndoAcc} (r : Rec)
    (hR : Restored s t a.staged a.files r) (hseen : r.oid ∈ a.seen) :
    Restored s t (recs.foldl (undoOne s.hist t.tid) a).staged
      (recs.foldl (undoOne s.hist t.tid) a).files r := by
  induction recs generalizing a with
  | nil => exact hR
  | cons r2 rs ih =>
    obtain ⟨h1, h2⟩ := restored_preserved r r2 hR hseen
    exact ih h1 h2

/-- if the whole loop ends without failure, every record of the list has been restored -/
theorem undoFold_restored {s : St} {t : Txn} (hfs : s.flavor = .fs) (recs : List Rec) {a : UndoAcc}
    (h : FInv s t a)
    (hok : ((recs.foldl (undoOne s.hist t.tid) a).failures
            || (recs.foldl (undoOne s.hist t.tid) a).broken) = false) :
    ∀ r ∈ recs, Restored s t (recs.foldl (undoOne s.hist t.tid) a).staged
      (recs.foldl (undoOne s.hist t.tid) a).files r := by
  induction recs generalizing a with
  | nil => intro r hr; cases hr
  | cons r0 rs ih =>
    intro r hr
    simp only [List.foldl_cons] at hok ⊢
    rcases List.mem_cons.1 hr with hr | hr
    · subst hr
      have hstep : ((undoOne s.hist t.tid a r).failures || (undoOne s.hist t.tid a r).broken) = false := by
        cases hfl : ((undoOne s.hist t.tid a r).failures || (undoOne s.hist t.tid a r).broken) with
        | false => rfl
        | true =>
          have := undoFold_flags s.hist t.tid rs _ hfl
          rw [this] at hok; cases hok
      obtain ⟨h1, h2⟩ := restored_established h r hstep
      exact restored_fold_preserved rs r h1 h2
    · exact ih (finv_step hfs h r0) hok r hr

end Proofs.Blob
