/-
  Connection model, part 19 (C12): the programs of C12 and the states they reach.
-/
import Proofs.ConnCommit12
namespace Proofs.Conn
open ZodbModel ZodbModel.Conn

/-- the steps of a C12 program: reads, modifications, `add`, savepoints, rollbacks, abort and commit
    (one connection, no injected failure) -/
def c12 : Op → Bool
  | .read _ | .modify _ _ | .link _ _ | .unlink _ _ | .add _ => true
  | .abort | .savepoint | .rollback _ | .peek _ => true
  | .commit f => f == .none
  | _ => false

/-- invariant of the states a C12 program can reach (at the boundaries of its steps) -/
def Good12 (s : State) : Prop := Inv12 s ∧ s.begun = false

theorem good12_init : Good12 init := ⟨inv12_init, rfl⟩

theorem rollbackSavepoint_begun (s : State) (p idx cr) : (rollbackSavepoint s p idx cr).begun = s.begun := by
  unfold rollbackSavepoint
  dsimp only
  split
  · show (abortObjs s).begun = _; exact abortObjs_begun s
  · rw [invalidateAll_begun]
    show (invalidateCreating _ _).begun = _
    rw [invalidateCreating_begun]
    show (abortObjs s).begun = _; exact abortObjs_begun s

theorem txnRollback_begun (s : State) (n : Nat) : (txnRollback s n).1.begun = s.begun := by
  unfold txnRollback
  cases s.sps[n]? with
  | none => rfl
  | some e =>
    cases e with
    | invalid => rfl
    | real p idx cr => exact rollbackSavepoint_begun _ p idx cr
    | abortSp joined =>
      cases joined with
      | false => rfl
      | true => exact connAbort_begun _

theorem txnRollback_notFailed (s : State) (n : Nat) : (txnRollback s n).2.isFailed = false := by
  unfold txnRollback
  cases s.sps[n]? with
  | none => rfl
  | some e => cases e <;> rfl

theorem savepoint_begun {s : State} (h : Inv12 s) (hb : s.begun = false) (bound : Nat) :
    (stepH bound s .savepoint).begun = false := by
  unfold stepH
  show (if (txnSavepoint bound s).2.isFailed = true then
    txnAbortAfterFailure (!s.needsToJoin) (txnSavepoint bound s).1 else (txnSavepoint bound s).1).begun = false
  by_cases hn : s.needsToJoin = true
  · rw [txnSavepoint_unjoined hn]
    simp only [Out.isFailed, Bool.false_eq_true, if_false]
    exact hb
  · have hj : s.needsToJoin = false := by simpa using hn
    cases hr : (connSavepoint bound s).2 with
    | some e =>
      rw [txnSavepoint_fail hj bound hr]
      simp only [Out.isFailed, if_true]
      unfold txnAbortAfterFailure
      exact afterCompletion_begun _
    | none =>
      rw [txnSavepoint_ok hj bound hr]
      simp only [Out.isFailed, Bool.false_eq_true, if_false]
      show (connSavepoint bound s).1.begun = false
      rw [(connSavepoint_spOk h hj bound hr).begun]; exact hb

theorem stepH_good12 (bound : Nat) (s : State) (op : Op) (hop : c12 op = true) (hg : Good12 s) :
    Good12 (stepH bound s op) := by
  obtain ⟨h, hb⟩ := hg
  cases op with
  | read i =>
    have h1 : (step bound s (.read i)).2.isFailed = false := by
      simp only [step]; split <;> rfl
    have h2 : (step bound s (.read i)).1 = (access s i).1 := by
      simp only [step]; split <;> rfl
    rw [stepH_of_notFailed _ _ _ h1, h2]
    exact ⟨access_inv12 h i, by rw [access_begun]; exact hb⟩
  | modify i v =>
    rw [stepH_of_notFailed bound s (.modify i v) (mutate_notFailed s i _)]
    exact ⟨mutate_inv12 h i _, by show (mutate s i _).1.begun = false; rw [mutate_begun]; exact hb⟩
  | link i j =>
    rw [stepH_of_notFailed bound s (.link i j) (mutate_notFailed s i _)]
    exact ⟨mutate_inv12 h i _, by show (mutate s i _).1.begun = false; rw [mutate_begun]; exact hb⟩
  | unlink i j =>
    rw [stepH_of_notFailed bound s (.unlink i j) (mutate_notFailed s i _)]
    exact ⟨mutate_inv12 h i _, by show (mutate s i _).1.begun = false; rw [mutate_begun]; exact hb⟩
  | add i =>
    have hnf : (step bound s (.add i)).2.isFailed = false := by
      show (opAdd s i).2.isFailed = false
      unfold opAdd; dsimp only; repeat' split
      all_goals rfl
    rw [stepH_of_notFailed _ _ _ hnf]
    exact ⟨opAdd_inv12 h i, by show (opAdd s i).1.begun = false; rw [opAdd_begun]; exact hb⟩
  | commit f =>
    have hf : f = .none := by simpa [c12] using hop
    subst hf
    have hi := txnCommit_inv12 h hb bound
    have hbb : (txnCommit bound s .none).1.begun = false := by
      unfold txnCommit; dsimp only; split <;> exact afterCompletion_begun _
    cases hfl : (step bound s (.commit .none)).2.isFailed with
    | true =>
      rw [stepH_of_failed _ _ _ hfl]
      have hj : s.needsToJoin = false := by
        cases hn : s.needsToJoin with
        | false => rfl
        | true =>
          have : (step bound s (.commit .none)).2 = .nothing := by
            show (txnCommit bound s .none).2 = _
            rw [txnCommit_none_unjoined hn]
          rw [this] at hfl; cases hfl
      refine ⟨?_, by unfold txnAbortAfterFailure; exact afterCompletion_begun _⟩
      unfold txnAbortAfterFailure
      simp only [hj, Bool.not_false, if_true]
      exact Inv12.abort_joined hi
    | false =>
      rw [stepH_of_notFailed _ _ _ hfl]
      exact ⟨hi, hbb⟩
  | abort =>
    rw [stepH_of_notFailed bound s .abort (by simp [step, Out.isFailed])]
    exact ⟨txnAbort_inv12 h, by show (txnAbort s).begun = false; unfold txnAbort; exact afterCompletion_begun _⟩
  | savepoint => exact ⟨savepoint_inv12 h bound, savepoint_begun h hb bound⟩
  | rollback n =>
    rw [stepH_of_notFailed bound s (.rollback n) (txnRollback_notFailed s n)]
    exact ⟨txnRollback_inv12 h n, by show (txnRollback s n).1.begun = false; rw [txnRollback_begun]; exact hb⟩
  | close => cases hop
  | open_ => cases hop
  | ext i v => cases hop
  | peek i =>
    rw [stepH_of_notFailed bound s (.peek i) (by simp only [step]; unfold opPeek; split <;> rfl)]
    exact ⟨h, hb⟩

/-- **every state a C12 program reaches satisfies the invariant** -/
theorem run_good12 (bound : Nat) (ops : List Op) (hops : ∀ op ∈ ops, c12 op = true) :
    ∀ s, Good12 s → Good12 (run bound s ops) := by
  induction ops with
  | nil => intro s hs; exact hs
  | cons op rest ih =>
    intro s hs
    simp only [run, List.foldl_cons]
    exact ih (fun o ho => hops o (List.mem_cons_of_mem _ ho)) _
      (stepH_good12 bound s op (hops op List.mem_cons_self) hs)

/-! ### the outcome of a commit after savepoints -/

/-- **A successful commit of a transaction with savepoint storage stores, for every object of the
    connection, exactly what the transaction could read last** — and the connection keeps reading it. -/
theorem commit_sp_core {s : State} (h : Inv12 s) (hj : s.needsToJoin = false) {t : TmpStore}
    (hsp : s.sp = some t) (bound : Nat) {tid : Nat} {oids : List Nat}
    (hout : (txnCommit bound s .none).2 = .committed tid oids) :
    (tid = s.lastTid + 1 ∧ (txnCommit bound s .none).1.lastTid = tid ∧
      (txnCommit bound s .none).1.log = (tid, oids) :: s.log) ∧
    (∀ i k v rf, (s.objs i).oid = some k → reads s i = .value v rf →
      reads (txnCommit bound s .none).1 i = .value v rf ∧
      ∃ c, (txnCommit bound s .none).1.committed.get k = some c ∧ c.val = v ∧ c.refs = rf ∧
        (k ∈ oids → c.serial = tid) ∧ (k ∉ oids → s.committed.get k = some c)) ∧
    (∀ k, k ∉ oids → (txnCommit bound s .none).1.committed.get k = s.committed.get k) ∧
    (txnCommit bound s .none).1.sp = none ∧ (txnCommit bound s .none).1.sps = [] ∧
    (txnCommit bound s .none).1.needsToJoin = true := by
  rw [txnCommit_none_joined hj] at hout ⊢
  rcases commitJoined_sp h hj hsp bound with ⟨e, X, hX, _⟩ | ⟨m, t', f, ok, ht', hfin, hX⟩
  · rw [hX] at hout; cases hout
  rw [hX] at hout ⊢
  dsimp only at hout ⊢
  have hop : f.opened = true := by rw [hfin.opened, ok.inv.opened]
  have hinv' := afterCompletion_of_prePoll12 hfin.prePoll hop
  have hinv11 := afterCompletion_of_prePoll hfin.prePoll hop
  obtain ⟨g, gobj⟩ := afterCompletion_facts f hop
  obtain ⟨g1, g2, g3, g4, g5, g6, g7, g8⟩ := g
  have hlog := afterCompletion_log f
  generalize afterCompletion f = s' at *
  have hflog := hfin.log
  rw [hflog] at hout
  simp only [Out.committed.injEq] at hout
  obtain ⟨htid, hoids⟩ := hout
  have w := ok.inv.tmp t' ht'
  have hmcm : m.committed = s.committed := shared_committed ok.shared
  have hmlt : m.lastTid = s.lastTid := by
    have := ok.shared; simp only [shared, Prod.mk.injEq] at this; exact this.2.1
  have hmlog : m.log = s.log := by
    have := ok.shared; simp only [shared, Prod.mk.injEq] at this; exact this.2.2
  have hmem : ∀ k, k ∈ oids ↔ t'.index.get k ≠ none := by
    intro k; rw [← hoids, Map.mem_keys_iff]
  have hntj : s'.needsToJoin = true := by rw [g8]; exact hfin.prePoll.ntj
  have hidle := hinv'.idle hntj
  refine ⟨⟨?_, ?_, ?_⟩, ?_, ?_, hidle.2.2, hinv11.spsNil, hntj⟩
  · rw [← htid, hfin.tid, hmlt]
  · rw [g6, htid]
  · rw [hlog, hflog, hoids, hmlog, ← htid, hfin.tid]
  · intro i k v rf hk hrd
    have hrs2 : reads (connTpcBegin (commitStart12 s)) i = reads s i :=
      reads_congr rfl rfl (fun _ => rfl)
    have hrm := ok.reads i k hk
    have hcm : m.cache.get k = some i := ok.owned i k hk
    obtain ⟨r, hlr, hrdm⟩ := reads_clean ok.inv hcm (ok.noChanged i)
    rw [hrm, hrs2, hrd] at hrdm
    simp only [Out.value.injEq] at hrdm
    obtain ⟨hv, hrf⟩ := hrdm
    have hcs' : s'.cache.get k = some i := by rw [g1, hfin.cache]; exact hcm
    have hnc' : (s'.objs i).status ≠ .changed := by
      intro hch
      have := hinv'.changedReg i hch
      rw [hidle.1] at this; cases this
    -- the committed record
    have hrec : ∃ c, s'.committed.get k = some c ∧ c.val = v ∧ c.refs = rf ∧
        (k ∈ oids → c.serial = tid) ∧ (k ∉ oids → s.committed.get k = some c) := by
      rw [g2]
      cases hx : t'.index.get k with
      | some p =>
        obtain ⟨r2, h1, h2, _⟩ := tmpRec_of_index w hx
        have : r = r2 := by
          unfold loadRec at hlr
          rw [ht'] at hlr
          simp only [hx, h2] at hlr
          cases hlr; rfl
        subst this
        refine ⟨_, hfin.stored k r h1, hv.symm, hrf.symm, fun _ => ?_, fun hn => ?_⟩
        · show m.lastTid + 1 = tid
          rw [← htid, hfin.tid]
        · exact absurd ((hmem k).2 (by rw [hx]; simp)) hn
      | none =>
        have hr : m.committed.get k = some r := by
          unfold loadRec at hlr
          rw [ht'] at hlr
          simp only [hx, ok.inv.snapEq] at hlr
          exact hlr
        refine ⟨r, by rw [hfin.others k hx]; exact hr, hv.symm, hrf.symm, fun hin => ?_, fun _ => ?_⟩
        · exact absurd hx ((hmem k).1 hin)
        · rw [← hmcm]; exact hr
    refine ⟨?_, hrec⟩
    obtain ⟨c, hc1, hc2, hc3, _⟩ := hrec
    obtain ⟨r3, hlr3, hrd3⟩ := reads_clean hinv' hcs' hnc'
    have : r3 = c := by
      unfold loadRec at hlr3
      rw [hidle.2.2] at hlr3
      simp only [hinv'.snapEq, hc1] at hlr3
      cases hlr3; rfl
    subst this
    rw [hrd3, hc2, hc3]
  · intro k hk
    have hx : t'.index.get k = none := by
      cases hx : t'.index.get k with
      | none => rfl
      | some p => exact absurd ((hmem k).2 (by rw [hx]; simp)) hk
    rw [g2, hfin.others k hx, hmcm]

/-! ### the outcome of an abort -/

theorem afterCompletion_sps (X : State) : (afterCompletion X).sps = [] := by
  unfold afterCompletion
  dsimp only
  split
  · unfold poll
    exact foldl_frame (fun t => t.sps) pollOne (fun t p => (pollOne_frame t p).2.2.2.2.2.2.2.1) _ _
  · rfl

/-- **`transaction.abort()` discards everything**, whatever was saved in savepoints: the storage is
    untouched, no savepoint remains, the objects of the committed database stay with the connection
    and read as committed, and nothing else belongs to the connection any more. -/
theorem abort_core {s : State} (h : Inv12 s) :
    shared (txnAbort s) = shared s ∧ (txnAbort s).sp = none ∧ (txnAbort s).sps = [] ∧
    (txnAbort s).needsToJoin = true ∧ (txnAbort s).registered = [] ∧
    (∀ i k, s.cache.get k = some i → s.committed.get k ≠ none → (txnAbort s).cache.get k = some i) ∧
    (∀ i k, (txnAbort s).cache.get k = some i →
      ∃ c, s.committed.get k = some c ∧ reads (txnAbort s) i = .value c.val c.refs) ∧
    (∀ i, ((txnAbort s).objs i).jar = true → ∃ k, (txnAbort s).cache.get k = some i) := by
  have hinv := txnAbort_inv12 h
  have hsh := txnAbort_shared s
  have hsps : (txnAbort s).sps = [] := by unfold txnAbort; exact afterCompletion_sps _
  have hkeep : (txnAbort s).needsToJoin = true ∧
      ∀ i k, s.cache.get k = some i → s.committed.get k ≠ none → (txnAbort s).cache.get k = some i := by
    unfold txnAbort
    dsimp only
    by_cases hn : s.needsToJoin = true
    · rw [if_pos hn]
      obtain ⟨g, _⟩ := afterCompletion_facts s h.opened
      refine ⟨by rw [g.2.2.2.2.2.2.2]; exact hn, ?_⟩
      intro i k hc _
      rw [g.1]; exact hc
    · rw [if_neg hn]
      have hd := connAbort_done h.abortReady
      have hop : (connAbort s).opened = true := by rw [hd.clean.2.opened]; exact h.opened
      obtain ⟨g, _⟩ := afterCompletion_facts (connAbort s) hop
      refine ⟨by rw [g.2.2.2.2.2.2.2]; exact hd.ntj, ?_⟩
      intro i k hc hcm
      rw [g.1]
      have hoid := hd.kept i k (h.str.cacheS k i hc) hcm
      have hkn := hd.clean.1.known i k hoid
      simp only [List.not_mem_nil, or_false, hd.addedNil, Map.get_nil] at hkn
      rcases hkn with h1 | h1
      · exact h1
      · cases h1
  obtain ⟨hntj, hkept⟩ := hkeep
  obtain ⟨hreg, hadd, hsp⟩ := hinv.idle hntj
  refine ⟨hsh, hsp, hsps, hntj, hreg, hkept, ?_, ?_⟩
  · intro i k hc
    have hnc : ((txnAbort s).objs i).status ≠ .changed := by
      intro hch
      have := hinv.changedReg i hch
      rw [hreg] at this; cases this
    obtain ⟨r, hlr, hrd⟩ := reads_clean hinv hc hnc
    refine ⟨r, ?_, hrd⟩
    unfold loadRec at hlr
    rw [hsp] at hlr
    simp only [hinv.snapEq, shared_committed hsh] at hlr
    exact hlr
  · intro i hjar
    rw [hinv.str.jarOid] at hjar
    cases ho : ((txnAbort s).objs i).oid with
    | none => rw [ho] at hjar; cases hjar
    | some k =>
      have hkn := hinv.str.known i k ho
      simp only [List.not_mem_nil, or_false, hadd, Map.get_nil] at hkn
      rcases hkn with h1 | h1
      · exact ⟨k, h1⟩
      · cases h1

end Proofs.Conn
