/-
  Helper lemmas for C03 / C10 about `ZodbModel/StoreRules.lean`: history lookups, the
  kind-independent form of the store decision (`storeSpec`), and basic facts on `step`.
  The inductive invariant lives in `Proofs/StoreRulesInv.lean`.  Core Lean only.
-/
import ZodbModel.StoreRules
import Proofs.Resolve
namespace Proofs.StoreRules
open ZodbModel ZodbModel.Resolve ZodbModel.StoreRules Proofs.Resolve

/-! ### history lookups -/

theorem currentTid_append (a b : Hist) (o : Oid) :
    currentTid (a ++ b) o = match currentTid a o with
                            | some t => some t
                            | none => currentTid b o := by
  induction a with
  | nil => simp [currentTid]
  | cons t a ih =>
    simp only [List.cons_append, currentTid]
    split
    · rfl
    · exact ih

theorem currentTid_mem {h : Hist} {o : Oid} {m : Tid} (hc : currentTid h o = some m) :
    ∃ t ∈ h, t.tid = m ∧ t.has o = true := by
  induction h with
  | nil => simp [currentTid] at hc
  | cons t h ih =>
    simp only [currentTid] at hc
    split at hc
    · injection hc with hc
      exact ⟨t, List.mem_cons_self, hc, by assumption⟩
    · obtain ⟨t', ht', h1, h2⟩ := ih hc
      exact ⟨t', List.mem_cons_of_mem _ ht', h1, h2⟩

theorem maxKeyTid_mem {h : Hist} {o : Oid} {m : Tid} (hm : maxKeyTid h o = some m) :
    ∃ t ∈ h, t.tid = m ∧ t.has o = true := by
  induction h generalizing m with
  | nil => simp [maxKeyTid] at hm
  | cons t h ih =>
    simp only [maxKeyTid] at hm
    cases hr : maxKeyTid h o with
    | none =>
      rw [hr] at hm
      simp only at hm
      split at hm
      · injection hm with hm
        exact ⟨t, List.mem_cons_self, hm, by assumption⟩
      · cases hm
    | some m' =>
      rw [hr] at hm
      simp only at hm
      obtain ⟨t', ht', h1, h2⟩ := ih hr
      split at hm
      · injection hm with hm
        by_cases hle : m' ≤ t.tid
        · exact ⟨t, List.mem_cons_self, by omega, by assumption⟩
        · exact ⟨t', List.mem_cons_of_mem _ ht', by omega, h2⟩
      · injection hm with hm
        exact ⟨t', List.mem_cons_of_mem _ ht', by omega, h2⟩

theorem maxKeyTid_none {h : Hist} {o : Oid} (hm : maxKeyTid h o = none) : currentTid h o = none := by
  induction h with
  | nil => rfl
  | cons t h ih =>
    simp only [maxKeyTid] at hm
    cases hr : maxKeyTid h o with
    | none =>
      rw [hr] at hm
      simp only at hm
      split at hm
      · cases hm
      · simp only [currentTid]
        rw [if_neg (by assumption)]
        exact ih hr
    | some m' =>
      rw [hr] at hm
      simp only at hm
      split at hm <;> cases hm

/-- with tids strictly decreasing along the (newest-first) history, `maxKey()` is the tid of the
    most recently committed revision -/
theorem maxKeyTid_eq_current {h : Hist} (hs : Sorted h) (o : Oid) : maxKeyTid h o = currentTid h o := by
  induction h with
  | nil => rfl
  | cons t h ih =>
    rw [Sorted, List.pairwise_cons] at hs
    have ih := ih hs.2
    simp only [maxKeyTid, currentTid]
    cases hr : maxKeyTid h o with
    | none =>
      simp only
      split
      · rfl
      · rw [← ih, hr]
    | some m =>
      simp only
      obtain ⟨t', ht', h1, _⟩ := maxKeyTid_mem hr
      have := hs.1 t' ht'
      split
      · congr 1; omega
      · rw [← ih, hr]

theorem curS_eq {k : Simple} {h : Hist} (hs : Sorted h) (o : Oid) : curS k h o = currentTid h o := by
  cases k with
  | file => rfl
  | mapping => exact maxKeyTid_eq_current hs o

theorem sorted_append {a b : Hist} (h : Sorted (a ++ b)) : Sorted a ∧ Sorted b := by
  unfold Sorted at *
  rw [List.pairwise_append] at h
  exact ⟨h.1, h.2.1⟩

/-- the tid a storage compares with is the tid of the immediately preceding revision -/
theorem curK_eq_view {k : Kind} {hist base : Hist} (hs : Sorted (viewOf k hist base)) (o : Oid) :
    curK k hist base o = currentTid (viewOf k hist base) o := by
  cases k with
  | simple k => exact curS_eq hs o
  | demo kc kb =>
    simp only [viewOf] at hs
    obtain ⟨h1, h2⟩ := sorted_append hs
    simp only [curK, viewOf, currentTid_append, curS_eq h1, curS_eq h2]
    cases currentTid hist o <;> rfl

theorem view_cons (k : Kind) (t : Txn) (hist base : Hist) :
    viewOf k (t :: hist) base = t :: viewOf k hist base := by
  cases k <;> rfl

/-! ### loadSerial returns a committed revision with that tid -/

theorem recData_mem {rs : List Rev} {o : Oid} {d : Record} (h : recData rs o = some d) :
    ∃ r ∈ rs, r.oid = o ∧ r.data = d := by
  induction rs with
  | nil => simp [recData] at h
  | cons r rs ih =>
    simp only [recData] at h
    split at h
    · split at h
      · cases h
      · injection h with h
        exact ⟨r, List.mem_cons_self, by assumption, h⟩
    · obtain ⟨r', hr', h1, h2⟩ := ih h
      exact ⟨r', List.mem_cons_of_mem _ hr', h1, h2⟩

theorem loadSerialFile_sound {h : Hist} {o : Oid} {ser : Tid} {d : Record}
    (hl : loadSerialFile h o ser = some d) : ∃ t ∈ h, t.tid = ser ∧ t.data o = some d := by
  induction h with
  | nil => simp [loadSerialFile] at hl
  | cons t h ih =>
    simp only [loadSerialFile] at hl
    cases hd : t.data o with
    | none =>
      rw [hd] at hl
      obtain ⟨t', ht', h1, h2⟩ := ih hl
      exact ⟨t', List.mem_cons_of_mem _ ht', h1, h2⟩
    | some d' =>
      rw [hd] at hl
      simp only at hl
      split at hl
      · injection hl with hl
        exact ⟨t, List.mem_cons_self, by assumption, by rw [hd, hl]⟩
      · split at hl
        · cases hl
        · obtain ⟨t', ht', h1, h2⟩ := ih hl
          exact ⟨t', List.mem_cons_of_mem _ ht', h1, h2⟩

theorem loadSerialMapping_sound {h : Hist} {o : Oid} {ser : Tid} {d : Record}
    (hl : loadSerialMapping h o ser = some d) : ∃ t ∈ h, t.tid = ser ∧ t.data o = some d := by
  induction h with
  | nil => simp [loadSerialMapping] at hl
  | cons t h ih =>
    simp only [loadSerialMapping] at hl
    split at hl
    · cases hd : t.data o with
      | none =>
        rw [hd] at hl
        obtain ⟨t', ht', h1, h2⟩ := ih hl
        exact ⟨t', List.mem_cons_of_mem _ ht', h1, h2⟩
      | some d' =>
        rw [hd] at hl
        injection hl with hl
        exact ⟨t, List.mem_cons_self, by assumption, by rw [hd, hl]⟩
    · obtain ⟨t', ht', h1, h2⟩ := ih hl
      exact ⟨t', List.mem_cons_of_mem _ ht', h1, h2⟩

theorem loadSerialS_sound {k : Simple} {h : Hist} {o : Oid} {ser : Tid} {d : Record}
    (hl : loadSerialS k h o ser = some d) : ∃ t ∈ h, t.tid = ser ∧ t.data o = some d := by
  cases k with
  | file => exact loadSerialFile_sound hl
  | mapping => exact loadSerialMapping_sound hl

/-- whatever `loadSerial(oid, serial)` returns is the data of a committed transaction with tid
    `serial` that wrote `oid` -/
theorem loadSerialK_sound {k : Kind} {hist base : Hist} {o : Oid} {ser : Tid} {d : Record}
    (hl : loadSerialK k hist base o ser = some d) :
    ∃ t ∈ viewOf k hist base, t.tid = ser ∧ t.data o = some d := by
  cases k with
  | simple k => exact loadSerialS_sound hl
  | demo kc kb =>
    simp only [loadSerialK] at hl
    simp only [viewOf, List.mem_append]
    cases h1 : loadSerialS kc hist o ser with
    | some d' =>
      rw [h1] at hl
      injection hl with hl
      obtain ⟨t, ht, h2, h3⟩ := loadSerialS_sound h1
      exact ⟨t, Or.inl ht, h2, by rw [h3, hl]⟩
    | none =>
      rw [h1] at hl
      obtain ⟨t, ht, h2, h3⟩ := loadSerialS_sound hl
      exact ⟨t, Or.inr ht, h2, h3⟩


/-! ### un-creation records cannot be loaded -/

theorem recData_none_of_not_has {rs : List Rev} {o : Oid}
    (h : rs.any (fun r => r.oid == o) = false) : recData rs o = none := by
  induction rs with
  | nil => rfl
  | cons r rs ih =>
    simp only [List.any_cons, Bool.or_eq_false_iff, beq_eq_false_iff_ne, ne_eq] at h
    simp only [recData, h.1, if_false]
    exact ih h.2

theorem recData_none_of_deleted {rs : List Rev} {o : Oid} (h : recDeleted rs o = true) :
    recData rs o = none := by
  induction rs with
  | nil => simp [recDeleted] at h
  | cons r rs ih =>
    simp only [recDeleted] at h
    simp only [recData]
    split
    · rename_i ho
      rw [if_pos ho] at h
      simp [h]
    · rename_i ho
      rw [if_neg ho] at h
      exact ih h

theorem loadSerialFile_none_of_lt {h : Hist} {o : Oid} {ser : Tid} (hlt : ∀ t ∈ h, t.tid < ser) :
    loadSerialFile h o ser = none := by
  induction h with
  | nil => rfl
  | cons t h ih =>
    simp only [loadSerialFile]
    have h1 := hlt t List.mem_cons_self
    have ih := ih (fun t' ht' => hlt t' (List.mem_cons_of_mem _ ht'))
    cases t.data o with
    | none => exact ih
    | some d =>
      simp only
      rw [if_neg (by omega), if_pos h1]

/-- `loadSerial(oid, tid of the current un-creation record)` raises POSKeyError -/
theorem loadSerialFile_deleted {h : Hist} (hs : Sorted h) {o : Oid} {ct : Tid}
    (hc : currentTid h o = some ct) (hd : currentDeleted h o = true) :
    loadSerialFile h o ct = none := by
  induction h with
  | nil => simp [currentTid] at hc
  | cons t h ih =>
    rw [Sorted, List.pairwise_cons] at hs
    simp only [currentTid] at hc
    simp only [currentDeleted] at hd
    simp only [loadSerialFile]
    by_cases hh : t.has o = true
    · rw [if_pos hh] at hc
      have hh' : t.recs.any (fun r => r.oid == o) = true := hh
      rw [if_pos hh'] at hd
      injection hc with hc
      have : t.data o = none := recData_none_of_deleted hd
      rw [this]
      apply loadSerialFile_none_of_lt
      intro t' ht'
      have := hs.1 t' ht'
      omega
    · rw [if_neg hh] at hc
      have hh' : ¬ t.recs.any (fun r => r.oid == o) = true := hh
      rw [if_neg hh'] at hd
      have : t.data o = none := recData_none_of_not_has (by
        cases hx : t.recs.any (fun r => r.oid == o) with
        | true => exact absurd hx hh'
        | false => rfl)
      rw [this]
      exact ih hs.2 hc hd

/-! ### the store decision in kind-independent form -/

def acceptRes (s : Sys) (oid : Oid) (serial : Tid) (data : Record) : StepRes :=
  { sys := { s with staged := { oid := oid, base := serial, data := data, wanted := data,
                                resolved := false } :: s.staged },
    out := .ok, calls := [] }

/-- what `store` does, stated against the immediately preceding revision `currentTid s.view oid`:
    no predecessor or matching serial → stage the writer's bytes; otherwise MappingStorage raises
    ConflictError, FileStorage/DemoStorage call `tryToResolveConflict(oid, ct, serial, data)` and
    stage its result (reporting the oid in `_resolved`) or raise ConflictError -/
def storeSpec (E : Env) (s : Sys) (oid : Oid) (serial : Tid) (data : Record) : StepRes :=
  match currentTid s.view oid with
  | none => acceptRes s oid serial data
  | some ct =>
    if serial = ct then acceptRes s oid serial data
    else if s.kind.resolves then
      let t := tryToResolve E (loadSerialK s.kind s.hist s.base) s.cache oid ct serial data none
      match t.out with
      | .ok d =>
        { sys := { s with cache := t.cache,
                          staged := { oid := oid, base := serial, data := d, wanted := data,
                                      resolved := true } :: s.staged,
                          resolved := oid :: s.resolved },
          out := .resolvedStore, calls := t.call.toList }
      | .error _ => { sys := { s with cache := t.cache }, out := .conflict, calls := t.call.toList }
    else { sys := s, out := .conflict, calls := [] }

theorem storeSimple_none (E : Env) (k : Simple) (h : Hist) (cache : List ClassId) (oid : Oid)
    (serial : Tid) (data : Record) (hc : curS k h oid = none) :
    storeSimple E k h cache oid serial data = { out := some (data, false), cache := cache, calls := [] } := by
  simp [storeSimple, hc]

theorem storeSimple_eq (E : Env) (k : Simple) (h : Hist) (cache : List ClassId) (oid : Oid)
    (serial : Tid) (data : Record) (hc : curS k h oid = some serial) :
    storeSimple E k h cache oid serial data = { out := some (data, false), cache := cache, calls := [] } := by
  simp [storeSimple, hc]

theorem storeSimple_mapping_ne (E : Env) (h : Hist) (cache : List ClassId) (oid : Oid)
    (serial ct : Tid) (data : Record) (hc : curS .mapping h oid = some ct) (hne : serial ≠ ct) :
    storeSimple E .mapping h cache oid serial data = { out := none, cache := cache, calls := [] } := by
  simp [storeSimple, hc, hne]



theorem loadSerialK_file (hist base : Hist) : loadSerialK (.simple .file) hist base = loadSerialFile hist := by
  funext o ser; rfl

theorem storeK_simple_eq (E : Env) (s : Sys) (k : Simple) (hk : s.kind = .simple k)
    (hs : Sorted s.view) (oid : Oid) (serial : Tid) (data : Record) :
    storeK E s oid serial data = storeSpec E s oid serial data := by
  have hcur : curS k s.hist oid = currentTid s.view oid := by
    have := curK_eq_view (k := s.kind) (hist := s.hist) (base := s.base) hs oid
    rw [hk] at this
    simpa [curK, Sys.view, hk] using this
  cases s with
  | mk kind base hist lock tid staged checked resolved innerResolved voted cache =>
  simp only at hk hcur
  subst hk
  simp only [storeK, storeSpec]
  cases hc : currentTid (Sys.view _) oid with
  | none =>
    rw [hc] at hcur
    rw [storeSimple_none E k hist cache oid serial data hcur]
    rfl
  | some ct =>
    rw [hc] at hcur
    simp only
    by_cases hne : serial = ct
    · subst hne
      rw [storeSimple_eq E k hist cache oid serial data hcur]
      simp [acceptRes]
    · simp only [hne, if_false]
      cases k with
      | mapping =>
        rw [storeSimple_mapping_ne E hist cache oid serial ct data hcur hne]
        simp [Kind.resolves]
      | file =>
        simp only [storeSimple, hcur, hne, if_false, Kind.resolves, if_true, loadSerialK_file]
        generalize tryToResolve E (loadSerialFile hist) cache oid ct serial data none = T
        cases T.out <;> rfl



theorem storeSimple_inner (E : Env) (k : Simple) (h : Hist) (cache : List ClassId) (oid : Oid)
    (ser : Tid) (d : Record) (hc : curS k h oid = none ∨ curS k h oid = some ser) :
    storeSimple E k h cache oid ser d = { out := some (d, false), cache := cache, calls := [] } := by
  rcases hc with hc | hc
  · exact storeSimple_none E k h cache oid ser d hc
  · exact storeSimple_eq E k h cache oid ser d hc

theorem storeK_demo_eq (E : Env) (s : Sys) (kc kb : Simple) (hk : s.kind = .demo kc kb)
    (hs : Sorted s.view) (hin : s.innerResolved = []) (oid : Oid) (serial : Tid) (data : Record) :
    storeK E s oid serial data = storeSpec E s oid serial data := by
  have hcur : curK (.demo kc kb) s.hist s.base oid = currentTid s.view oid := by
    have := curK_eq_view (k := s.kind) (hist := s.hist) (base := s.base) hs oid
    rw [hk] at this
    simpa [Sys.view, hk] using this
  cases s with
  | mk kind base hist lock tid staged checked resolved innerResolved voted cache =>
  simp only at hk hcur hin
  subst hk hin
  simp only [storeK, storeSpec]
  cases hc : currentTid (Sys.view _) oid with
  | none =>
    rw [hc] at hcur
    have hcs : curS kc hist oid = none := by
      simp only [curK] at hcur
      cases h1 : curS kc hist oid with
      | none => rfl
      | some t => rw [h1] at hcur; cases hcur
    simp only [hcur, Option.getD_none, if_true]
    rw [storeSimple_inner E kc hist cache oid serial data (Or.inl hcs)]
    rfl
  | some ct =>
    rw [hc] at hcur
    have hcs : curS kc hist oid = none ∨ curS kc hist oid = some ct := by
      simp only [curK] at hcur
      cases h1 : curS kc hist oid with
      | none => left; rfl
      | some t => rw [h1] at hcur; right; exact hcur
    simp only [hcur, Option.getD_some]
    by_cases hne : serial = ct
    · subst hne
      simp only [if_true]
      rw [storeSimple_inner E kc hist cache oid serial data hcs]
      rfl
    · have hne' : ¬ ct = serial := fun h => hne h.symm
      simp only [hne, hne', if_false, Kind.resolves, if_true]
      generalize tryToResolve E (loadSerialK (.demo kc kb) hist base) cache oid ct serial data none = T
      cases hT : T.out with
      | error e => rfl
      | ok rdata =>
        simp only
        rw [storeSimple_inner E kc hist T.cache oid ct rdata hcs]
        simp


/-- `store` by the lock holder = `storeSpec`, for every kind, in every state with ordered tids
    (the inner `changes.store` of a DemoStorage never conflicts and never resolves) -/
theorem storeK_eq (E : Env) (s : Sys) (hs : Sorted s.view) (hin : s.innerResolved = [])
    (oid : Oid) (serial : Tid) (data : Record) :
    storeK E s oid serial data = storeSpec E s oid serial data := by
  cases hk : s.kind with
  | simple k => exact storeK_simple_eq E s k hk hs oid serial data
  | demo kc kb => exact storeK_demo_eq E s kc kb hk hs hin oid serial data

/-! ### basic facts on `step` -/

/-- a call by anybody but the lock holder changes nothing at all -/
theorem step_nonholder (E : Env) (s : Sys) (t : TxnId) (op : Op) (hl : s.lock = some t)
    (ha : op.actor ≠ t) : (step E s op).sys = s := by
  cases op with
  | begin t' tid =>
    simp only [Op.actor] at ha
    simp only [step, hl]
    split <;> rfl
  | store t' oid serial data =>
    simp only [Op.actor] at ha
    have : ¬ (some t = some t') := fun h => ha (Option.some.inj h).symm
    simp [step, hl, this]
  | check t' oid serial =>
    simp only [Op.actor] at ha
    have : ¬ (some t = some t') := fun h => ha (Option.some.inj h).symm
    simp [step, hl, this]
  | delete t' oid serial =>
    simp only [Op.actor] at ha
    have : ¬ (some t = some t') := fun h => ha (Option.some.inj h).symm
    simp [step, hl, this]
  | vote t' =>
    simp only [Op.actor] at ha
    have : ¬ (some t = some t') := fun h => ha (Option.some.inj h).symm
    simp [step, hl, this]
  | finish t' =>
    simp only [Op.actor] at ha
    have : ¬ (some t = some t') := fun h => ha (Option.some.inj h).symm
    simp [step, hl, this]
  | abort t' =>
    simp only [Op.actor] at ha
    have : ¬ (some t = some t') := fun h => ha (Option.some.inj h).symm
    simp [step, hl, this]

/-- while nobody holds the lock only `begin` does anything -/
theorem step_idle (E : Env) (s : Sys) (op : Op) (hl : s.lock = none) :
    (step E s op).sys = s ∨ ∃ t tid, op = .begin t tid := by
  cases op with
  | begin t tid => right; exact ⟨t, tid, rfl⟩
  | store t oid serial data => left; simp [step, hl]
  | check t oid serial => left; simp [step, hl]
  | delete t oid serial => left; simp [step, hl]
  | vote t => left; simp [step, hl]
  | finish t => left; simp [step, hl]
  | abort t => left; simp [step, hl]

end Proofs.StoreRules
