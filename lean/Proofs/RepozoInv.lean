/-
  Helper lemmas for C18, part 2: the repository invariant and its preservation by `do_backup`.
-/
import Proofs.Repozo
namespace Proofs.Repozo
open ZodbModel ZodbModel.Repozo

/-! ### the invariant

`Good r top l H` walks the newest-first file list `l` in lockstep with the newest-first list `H` of
(date, committed bytes at that date) of the backups that wrote these files:
* the bytes reconstructed from every suffix (back to its full backup) are the snapshot of its date,
* `<date>.index` is the index of that snapshot,
* at the newest file of every chain (`top`), `<date of its full backup>.dat` is exactly the list
  of the chain's ranges and checksums,
* the oldest file is a full backup. -/
def Good (r : Repo) : Bool → List DFile → List (Nat × Bytes) → Prop
  | _, [], [] => True
  | top, f :: t, e :: h =>
      f.name.date = e.1 ∧ chainBytes (f :: t) = e.2 ∧ getK e.1 r.idxs = some e.2 ∧
      (top = true → ∃ D, chainDate (f :: t) = some D ∧ getK D r.dats = some (chainLines (f :: t))) ∧
      (t = [] → f.name.full = true) ∧
      Good r f.name.full t h
  | _, [], _ :: _ => False
  | _, _ :: _, [] => False

structure Inv (r : Repo) (H : List (Nat × Bytes)) : Prop where
  dec : DecDates r.files
  good : Good r true r.files H
  datKeys : KeysNodup r.dats
  datFull : ∀ p ∈ r.dats, ∃ f ∈ r.files, f.name.full = true ∧ f.name.date = p.1

theorem inv_empty : Inv Repo.empty [] :=
  ⟨List.Pairwise.nil, trivial, List.Pairwise.nil, fun p hp => by simp [Repo.empty] at hp⟩

theorem Good.weaken {r : Repo} {l : List DFile} {H : List (Nat × Bytes)} (h : Good r true l H) :
    Good r false l H := by
  cases l <;> cases H <;> simp_all [Good]

theorem chainDate_mem {l : List DFile} {D : Nat} (h : chainDate l = some D) :
    ∃ g ∈ l, g.name.date = D ∧ g.name.full = true := by
  induction l with
  | nil => simp [chainDate] at h
  | cons f t ih =>
    simp only [chainDate] at h
    split at h
    · rename_i hf
      exact ⟨f, List.mem_cons_self, by simpa using h, hf⟩
    · obtain ⟨g, hg, h1, h2⟩ := ih h
      exact ⟨g, List.mem_cons_of_mem _ hg, h1, h2⟩

/-- `Good` only looks at the `.dat`/`.index` of dates that occur in the list -/
theorem Good.frame {r r' : Repo} {top : Bool} {l : List DFile} {H : List (Nat × Bytes)}
    (hf : ∀ f ∈ l, getK f.name.date r'.idxs = getK f.name.date r.idxs ∧
                   getK f.name.date r'.dats = getK f.name.date r.dats)
    (h : Good r top l H) : Good r' top l H := by
  induction l generalizing top H with
  | nil => cases H <;> simp_all [Good]
  | cons f t ih =>
    cases H with
    | nil => simp [Good] at h
    | cons e hs =>
      obtain ⟨h1, h2, h3, h4, h5, h6⟩ := h
      refine ⟨h1, h2, ?_, ?_, h5, ih (fun g hg => hf g (List.mem_cons_of_mem _ hg)) h6⟩
      · rw [← h1, (hf f List.mem_cons_self).1, h1]; exact h3
      · intro ht
        obtain ⟨D, hD, hdat⟩ := h4 ht
        obtain ⟨g, hg, hgd, _⟩ := chainDate_mem hD
        refine ⟨D, hD, ?_⟩
        rw [← hgd, (hf g hg).2, hgd]; exact hdat

/-- … and, below the newest file of the newest chain, not at that chain's `.dat` -/
theorem Good.frame_head {r r' : Repo} {l : List DFile} {H : List (Nat × Bytes)} {D : Nat}
    (hd : DecDates l) (hD : chainDate l = some D)
    (hi : ∀ f ∈ l, getK f.name.date r'.idxs = getK f.name.date r.idxs)
    (hdat : ∀ f ∈ l, f.name.date ≠ D → getK f.name.date r'.dats = getK f.name.date r.dats)
    (h : Good r false l H) : Good r' false l H := by
  induction l generalizing H with
  | nil => cases H <;> simp_all [Good]
  | cons f t ih =>
    cases H with
    | nil => simp [Good] at h
    | cons e hs =>
      obtain ⟨h1, h2, h3, _, h5, h6⟩ := h
      have hdec := List.pairwise_cons.1 hd
      refine ⟨h1, h2, ?_, by simp, h5, ?_⟩
      · rw [← h1, hi f List.mem_cons_self, h1]; exact h3
      · simp only [chainDate] at hD
        by_cases hfull : f.name.full = true
        · rw [if_pos hfull] at hD
          have hDf : f.name.date = D := by simpa using hD
          rw [hfull] at h6 ⊢
          apply Good.frame _ h6
          intro g hg
          have := hdec.1 g hg
          exact ⟨hi g (List.mem_cons_of_mem _ hg), hdat g (List.mem_cons_of_mem _ hg) (by omega)⟩
        · rw [if_neg hfull] at hD
          have hff : f.name.full = false := by simpa using hfull
          rw [hff] at h6 ⊢
          exact ih hdec.2 hD (fun g hg => hi g (List.mem_cons_of_mem _ hg))
            (fun g hg => hdat g (List.mem_cons_of_mem _ hg)) h6

/-! ### what `find_files` returns for "now" on a repository satisfying the invariant -/

theorem findFiles_now {r : Repo} {H : List (Nat × Bytes)} {now : Nat} (hi : Inv r H)
    (hle : ∀ f ∈ r.files, f.name.date ≤ now) : findFiles r now = (upToFull r.files).reverse := by
  unfold findFiles
  rw [sortDesc_of_dec hi.dec, scanNeeded_of_le hi.dec hle]

theorem copyRange_committed (c t : Bytes) : copyRange (c ++ t) 0 c.length = c := by
  simp [copyRange]

theorem any_name_false {l : List DFile} {nm : Name} (h : ∀ f ∈ l, f.name.date < nm.date) :
    l.any (fun f => decide (f.name = nm)) = false := by
  rw [List.any_eq_false]
  intro f hf
  have := h f hf
  simp only [decide_eq_true_eq]
  intro e
  rw [e] at this
  omega

/-! ### a full backup -/

def fullFile (src : Src) (gz : Bool) (now : Nat) : DFile := ⟨⟨now, true, gz⟩, src.committed⟩

def fullRepo (r : Repo) (src : Src) (gz : Bool) (now : Nat) : Repo :=
  { files := fullFile src gz now :: r.files,
    dats := setK now [⟨⟨now, true, gz⟩, 0, src.committed.length, src.committed⟩] r.dats,
    idxs := setK now src.committed r.idxs }

theorem doFullBackup_eq {r : Repo} {src : Src} {o : BOpts} {now : Nat}
    (hlt : ∀ f ∈ r.files, f.name.date < now) :
    doFullBackup r src o now =
      (if o.killold then deleteOldBackups (fullRepo r src o.gz now) else fullRepo r src o.gz now,
       .full) := by
  unfold doFullBackup
  have : r.files.any (fun f => decide (f.name = (⟨now, true, o.gz⟩ : Name))) = false :=
    any_name_false (nm := ⟨now, true, o.gz⟩) hlt
  simp only [this]
  simp [Src.raw, copyRange_committed, fullRepo, fullFile]

theorem inv_fullRepo {r : Repo} {H : List (Nat × Bytes)} {src : Src} {gz : Bool} {now : Nat}
    (hi : Inv r H) (hlt : ∀ f ∈ r.files, f.name.date < now) :
    Inv (fullRepo r src gz now) ((now, src.committed) :: H) := by
  have hnokey : ∀ p ∈ r.dats, p.1 ≠ now := by
    intro p hp
    obtain ⟨f, hf, _, hfd⟩ := hi.datFull p hp
    have := hlt f hf
    omega
  refine ⟨?_, ?_, keysNodup_setK _ _ hi.datKeys, ?_⟩
  · exact List.pairwise_cons.2 ⟨hlt, hi.dec⟩
  · refine ⟨rfl, by simp [chainBytes, fullFile], by simp [fullRepo, getK_setK_self], ?_, ?_, ?_⟩
    · intro _
      exact ⟨now, by simp [chainDate, fullFile], by simp [fullRepo, getK_setK_self, chainLines, fullFile]⟩
    · intro _; rfl
    · show Good (fullRepo r src gz now) true r.files H
      apply Good.frame _ hi.good
      intro f hf
      have : f.name.date ≠ now := by have := hlt f hf; omega
      simp [fullRepo, getK_setK_ne this]
  · intro p hp
    rcases mem_setK.1 hp with hp | hp
    · subst hp
      exact ⟨fullFile src gz now, List.mem_cons_self, rfl, rfl⟩
    · obtain ⟨f, hf, h1, h2⟩ := hi.datFull p hp.1
      exact ⟨f, List.mem_cons_of_mem _ hf, h1, h2⟩

theorem filter_name_eq_self {l : List DFile} {f : DFile} (hlt : ∀ g ∈ l, g.name.date < f.name.date) :
    (f :: l).filter (fun g => decide (g.name = f.name)) = [f] := by
  rw [List.filter_cons_of_pos (by simp)]
  congr 1
  rw [List.filter_eq_nil_iff]
  intro g hg
  have := hlt g hg
  simp only [decide_eq_true_eq]
  intro e; rw [e] at this; omega

theorem filter_name_ne_self {l : List DFile} {f : DFile} (hlt : ∀ g ∈ l, g.name.date < f.name.date) :
    (f :: l).filter (fun g => decide (g.name ≠ f.name)) = l := by
  rw [List.filter_cons_of_neg (by simp)]
  rw [List.filter_eq_self]
  intro g hg
  have := hlt g hg
  simp only [ne_eq, decide_not, Bool.not_eq_eq_eq_not, Bool.not_true, decide_eq_false_iff_not]
  intro e; rw [e] at this; omega

theorem deleteOld_fullRepo {r : Repo} {H : List (Nat × Bytes)} {src : Src} {gz : Bool} {now : Nat}
    (hi : Inv r H) (hlt : ∀ f ∈ r.files, f.name.date < now) :
    deleteOldBackups (fullRepo r src gz now) =
      { files := [fullFile src gz now],
        dats := (fullRepo r src gz now).dats.filter
                  (fun p => !r.files.any (fun f => f.name.date == p.1)),
        idxs := (fullRepo r src gz now).idxs.filter
                  (fun p => !r.files.any (fun f => f.name.date == p.1)) } := by
  have hdec : DecDates (fullRepo r src gz now).files := List.pairwise_cons.2 ⟨hlt, hi.dec⟩
  unfold deleteOldBackups
  rw [sortDesc_of_dec hdec]
  have hfind : (fullRepo r src gz now).files.find? (fun f => f.name.full) = some (fullFile src gz now) := by
    simp [fullRepo, fullFile]
  rw [hfind]
  have hlt' : ∀ g ∈ r.files, g.name.date < (fullFile src gz now).name.date := hlt
  simp only [fullRepo] at hlt' ⊢
  rw [filter_name_eq_self hlt', filter_name_ne_self hlt']

theorem inv_deleteOld_fullRepo {r : Repo} {H : List (Nat × Bytes)} {src : Src} {gz : Bool} {now : Nat}
    (hi : Inv r H) (hlt : ∀ f ∈ r.files, f.name.date < now) :
    Inv (deleteOldBackups (fullRepo r src gz now)) [(now, src.committed)] := by
  rw [deleteOld_fullRepo hi hlt]
  have hg : (fun k => !r.files.any (fun f => f.name.date == k)) now = true := by
    simp only [Bool.not_eq_true', List.any_eq_false]
    intro f hf
    have := hlt f hf
    simp; omega
  have hinv := inv_fullRepo (src := src) (gz := gz) hi hlt
  refine ⟨by simp, ?_, List.Pairwise.sublist List.filter_sublist hinv.datKeys, ?_⟩
  · refine ⟨rfl, by simp [chainBytes, fullFile], ?_, ?_, fun _ => rfl, trivial⟩
    · show getK now (List.filter _ _) = _
      rw [getK_filter_key (fun k => !r.files.any (fun f => f.name.date == k)) now hg]
      simp [fullRepo, getK_setK_self]
    · intro _
      refine ⟨now, by simp [chainDate, fullFile], ?_⟩
      show getK now (List.filter _ _) = _
      rw [getK_filter_key (fun k => !r.files.any (fun f => f.name.date == k)) now hg]
      simp [fullRepo, getK_setK_self, chainLines, fullFile]
  · intro p hp
    rw [List.mem_filter] at hp
    rcases mem_setK.1 hp.1 with h | h
    · subst h
      exact ⟨fullFile src gz now, List.mem_cons_self, rfl, rfl⟩
    · obtain ⟨f, hf, _, h2⟩ := hi.datFull p h.1
      have := hp.2
      simp only [Bool.not_eq_true', List.any_eq_false] at this
      have := this f hf
      simp [h2] at this

/-! ### an incremental backup -/

def incrFile (src : Src) (gz : Bool) (now reposz : Nat) : DFile :=
  ⟨⟨now, false, gz⟩, src.committed.drop reposz⟩

def incrRepo (r : Repo) (src : Src) (gz : Bool) (now reposz D : Nat) (old : List DatLine) : Repo :=
  { files := incrFile src gz now reposz :: r.files,
    dats := setK D (old ++ [⟨⟨now, false, gz⟩, reposz, src.committed.length, src.committed.drop reposz⟩])
              r.dats,
    idxs := setK now src.committed r.idxs }

theorem copyRange_tail (c t : Bytes) (n : Nat) (h : n ≤ c.length) :
    copyRange (c ++ t) n (c.length - n) = c.drop n := by
  unfold copyRange
  rw [List.drop_append_of_le_length h]
  rw [List.take_append_of_le_length (by simp)]
  rw [List.take_of_length_le (by simp)]

theorem doIncrementalBackup_eq {r : Repo} {src : Src} {o : BOpts} {now reposz D : Nat}
    {f0 : DFile} {rest : List DFile} {old : List DatLine}
    (hlt : ∀ f ∈ r.files, f.name.date < now) (hle : reposz ≤ src.committed.length)
    (hD : f0.name.date = D) (hold : getK D r.dats = some old) :
    doIncrementalBackup r src o now reposz (f0 :: rest) =
      (incrRepo r src o.gz now reposz D old, .incr) := by
  unfold doIncrementalBackup
  have : r.files.any (fun f => decide (f.name = (⟨now, false, o.gz⟩ : Name))) = false :=
    any_name_false (nm := ⟨now, false, o.gz⟩) hlt
  simp only [this]
  have h2 : ¬ src.committed.length < reposz := by omega
  simp only [Bool.false_eq_true, if_false, h2, hD, hold]
  simp [Src.raw, copyRange_tail _ _ _ hle, incrRepo, incrFile]

theorem inv_incrRepo {r : Repo} {H : List (Nat × Bytes)} {src : Src} {gz : Bool} {now reposz D : Nat}
    (hi : Inv r H) (hlt : ∀ f ∈ r.files, f.name.date < now)
    (hD : chainDate r.files = some D)
    (hsz : reposz = (chainBytes r.files).length)
    (hpre : src.committed.take reposz = chainBytes r.files) :
    Inv (incrRepo r src gz now reposz D (chainLines r.files)) ((now, src.committed) :: H) := by
  obtain ⟨gD, hgD, hgDd, hgDf⟩ := chainDate_mem hD
  have hDlt : D < now := by have := hlt gD hgD; omega
  refine ⟨?_, ?_, keysNodup_setK _ _ hi.datKeys, ?_⟩
  · exact List.pairwise_cons.2 ⟨hlt, hi.dec⟩
  · have hne : r.files ≠ [] := by intro e; rw [e] at hD; simp [chainDate] at hD
    refine ⟨rfl, ?_, by simp [incrRepo, getK_setK_self], ?_, ?_, ?_⟩
    · show chainBytes (incrFile src gz now reposz :: r.files) = src.committed
      simp only [chainBytes, incrFile, Bool.false_eq_true, if_false]
      rw [← hpre, List.take_append_drop]
    · intro _
      refine ⟨D, by simp [chainDate, incrFile, hD], ?_⟩
      simp only [incrRepo, getK_setK_self, chainLines, incrFile, Bool.false_eq_true, if_false]
      have : (chainBytes r.files).length + (List.drop reposz src.committed).length = src.committed.length := by
        have h1 : (src.committed.take reposz).length = (chainBytes r.files).length := by rw [hpre]
        rw [List.length_take] at h1
        rw [List.length_drop]
        omega
      rw [this, hsz]
    · intro e; exact absurd e hne
    · show Good (incrRepo r src gz now reposz D (chainLines r.files)) false r.files H
      apply Good.frame_head hi.dec hD _ _ hi.good.weaken
      · intro f hf
        have : f.name.date ≠ now := by have := hlt f hf; omega
        simp [incrRepo, getK_setK_ne this]
      · intro f _ hfD
        simp [incrRepo, getK_setK_ne hfD]
  · intro p hp
    rcases mem_setK.1 hp with hp | hp
    · subst hp
      exact ⟨gD, List.mem_cons_of_mem _ hgD, hgDf, hgDd⟩
    · obtain ⟨f, hf, h1, h2⟩ := hi.datFull p hp.1
      exact ⟨f, List.mem_cons_of_mem _ hf, h1, h2⟩

/-- an assertion failure of `copyfile` leaves only an orphan `.index` behind -/
theorem inv_orphan_index {r : Repo} {H : List (Nat × Bytes)} {now : Nat} {b : Bytes}
    (hi : Inv r H) (hlt : ∀ f ∈ r.files, f.name.date < now) :
    Inv { r with idxs := setK now b r.idxs } H := by
  refine ⟨hi.dec, ?_, hi.datKeys, hi.datFull⟩
  apply Good.frame _ hi.good
  intro f hf
  have : f.name.date ≠ now := by have := hlt f hf; omega
  simp [getK_setK_ne this]

end Proofs.Repozo
