/-
  Helper lemmas for C08 (crash part): what Data.fs holds after every prefix of a pack's event list
  (`ZodbModel/PackDisk.lean`).  Core Lean only.
-/
import ZodbModel.PackDisk
namespace Proofs.PackDisk
open ZodbModel.PackDisk

/-! ### directory bookkeeping -/

theorem set_data_ne {d : Dir} {n : FName} {c : Option Content} (h : n ≠ .data) :
    (d.set n c).data = d.data := by
  cases n <;> first | exact absurd rfl h | rfl

theorem set_pack_ne {d : Dir} {n : FName} {c : Option Content} (h : n ≠ .pack) :
    (d.set n c).pack = d.pack := by
  cases n <;> first | exact absurd rfl h | rfl

theorem set_old_ne {d : Dir} {n : FName} {c : Option Content} (h : n ≠ .old) :
    (d.set n c).old = d.old := by
  cases n <;> first | exact absurd rfl h | rfl

/-- a `Safe` event acts on the data file only as a committer does -/
theorem data_apply_safe {d : Dir} {e : Ev} (h : Safe e = true) :
    (apply d e).data = commitStep d.data e := by
  cases e with
  | put n c =>
    have hn : n ≠ .data := by simpa [Safe] using h
    simp [apply, commitStep, set_data_ne hn]
  | remove n =>
    have hn : n ≠ .data := by simpa [Safe] using h
    simp [apply, commitStep, set_data_ne hn]
  | rename a b =>
    have hab : a ≠ .data ∧ b ≠ .data := by simpa [Safe] using h
    simp only [apply, commitStep]
    split
    · split
      · rfl
      · rw [set_data_ne hab.1, set_data_ne hab.2]
    · rfl
  | link a b =>
    have hb : b ≠ .data := by simpa [Safe] using h
    simp only [apply, commitStep]
    split
    · rw [set_data_ne hb]
    · rfl
  | vote => rfl
  | finish t => rfl
  | abort => rfl
  | ret t => rfl

theorem applyAll_append (d : Dir) (a b : List Ev) :
    applyAll d (a ++ b) = applyAll (applyAll d a) b := by
  simp [applyAll, List.foldl_append]

theorem applyAll_cons (d : Dir) (e : Ev) (es : List Ev) :
    applyAll d (e :: es) = applyAll (apply d e) es := rfl

theorem data_applyAll_safe {d : Dir} {es : List Ev} (h : ∀ e ∈ es, Safe e = true) :
    (applyAll d es).data = es.foldl commitStep d.data := by
  induction es generalizing d with
  | nil => rfl
  | cons e es ih =>
    rw [applyAll_cons, ih (fun x hx => h x (List.mem_cons_of_mem _ hx)),
      data_apply_safe (h e (List.mem_cons_self ..))]
    rfl

/-- committers' operations only ever append the transactions whose status byte was written -/
theorem fold_commit_db (es : List Ev) (u : List Tid) (b : Bool) :
    ∃ b', es.foldl commitStep (some (.db u b)) = some (.db (u ++ finishes es) b') := by
  induction es generalizing u b with
  | nil => exact ⟨b, by simp [finishes]⟩
  | cons e es ih =>
    cases e with
    | vote => simpa [commitStep, finishes] using ih u true
    | finish t =>
      obtain ⟨b', hb⟩ := ih (u ++ [t]) false
      exact ⟨b', by simp [commitStep, finishes, hb]⟩
    | abort => simpa [commitStep, finishes] using ih u false
    | put n c => simpa [commitStep, finishes] using ih u b
    | remove n => simpa [commitStep, finishes] using ih u b
    | rename a c => simpa [commitStep, finishes] using ih u b
    | link a c => simpa [commitStep, finishes] using ih u b
    | ret t => simpa [commitStep, finishes] using ih u b

theorem data_after_safe {d : Dir} {es : List Ev} {u : List Tid} {b : Bool}
    (hd : d.data = some (.db u b)) (h : ∀ e ∈ es, Safe e = true) :
    ∃ b', (applyAll d es).data = some (.db (u ++ finishes es) b') := by
  rw [data_applyAll_safe h, hd]
  exact fold_commit_db es u b

theorem finishes_append (a b : List Ev) : finishes (a ++ b) = finishes a ++ finishes b := by
  induction a with
  | nil => rfl
  | cons e a ih => cases e <;> simp [finishes, ih]

theorem rets_append (a b : List Ev) : rets (a ++ b) = rets a ++ rets b := by
  induction a with
  | nil => rfl
  | cons e a ih => cases e <;> simp [rets, ih]

theorem finishes_swapEvs (l : Bool) : finishes (swapEvs l) = [] := by
  cases l <;> rfl

theorem safe_take {es : List Ev} (h : ∀ e ∈ es, Safe e = true) (n : Nat) :
    ∀ e ∈ es.take n, Safe e = true := fun e he => h e (List.mem_of_mem_take he)

/-- opening a directory whose Data.fs is a database file yields its complete transactions -/
theorem openDir_db {d : Dir} {u : List Tid} {b : Bool} (h : d.data = some (.db u b)) :
    ∃ o, openDir d = some o ∧ o.txns = u ∧ o.created = false := by
  simp [openDir, h]

/-- opening a directory without Data.fs creates an empty database and keeps everything else -/
theorem openDir_missing {d : Dir} (h : d.data = none) :
    ∃ o, openDir d = some o ∧ o.txns = [] ∧ o.created = true ∧ o.after.old = d.old ∧
      o.after.pack = d.pack := by
  simp [openDir, h]

/-- the answer of an open never depends on the saved index or on leftover .pack / .old files -/
theorem openDir_txns_data_only {d d' : Dir} (h : d.data = d'.data) :
    (openDir d).map (·.txns) = (openDir d').map (·.txns) ∧
    (openDir d).map (·.created) = (openDir d').map (·.created) := by
  unfold openDir
  rw [h]
  cases d'.data with
  | none => simp
  | some c => cases c <;> simp

/-! ### the swap -/

def packOf (kept : List Tid) (k : Nat) (u : List Tid) : List Tid := kept ++ u.drop k

/-- what the harness / the protocol model guarantee about one pack's event list -/
structure WF (r : Run) (u0 kept : List Tid) (k : Nat) : Prop where
  /-- Data.fs holds the transactions `u0` when the pack starts (a commit may be in flight) -/
  data0 : ∃ b, r.d0.data = some (.db u0 b)
  safeA : ∀ e ∈ r.preA, Safe e = true
  safeB : ∀ e ∈ r.postB, Safe e = true
  /-- packpos lies inside what the packer copied -/
  kle : k ≤ (u0 ++ finishes r.preA).length
  /-- at the swap .pack is complete: the packed prefix followed by every later transaction
      (`PackProto`: the swap happens with the commit lock held, after EOF was seen) -/
  ready : (applyAll r.d0 r.preA).pack = some (.db (packOf kept k (u0 ++ finishes r.preA)) false)

def committed (r : Run) (u0 : List Tid) (cut : Nat) : List Tid := u0 ++ finishes (r.trace.take cut)
def returned (r : Run) (cut : Nat) : List Tid := rets (r.trace.take cut)

section
variable {r : Run} {u0 kept : List Tid} {k : Nat}

/-- cuts up to the swap: Data.fs is the unpacked file with every commit so far -/
theorem before_swap (wf : WF r u0 kept k) {cut : Nat} (hc : cut ≤ r.preA.length) :
    ∃ b, (image r.d0 r.trace cut).data = some (.db (committed r u0 cut) b) := by
  obtain ⟨b0, hd⟩ := wf.data0
  have ht : r.trace.take cut = r.preA.take cut := by
    unfold Run.trace
    rw [List.append_assoc, List.take_append_of_le_length hc]
  unfold image committed
  rw [ht]
  exact data_after_safe hd (safe_take wf.safeA cut)

/-- the directory just before the swap -/
theorem at_swap (wf : WF r u0 kept k) :
    ∃ b, (applyAll r.d0 r.preA).data = some (.db (u0 ++ finishes r.preA) b) := by
  obtain ⟨b0, hd⟩ := wf.data0
  exact data_after_safe hd wf.safeA

theorem take_trace_mid {cut : Nat} (hc : cut = r.preA.length + 1) :
    r.trace.take cut = r.preA ++ (swapEvs r.links).take 1 := by
  unfold Run.trace
  rw [List.append_assoc, List.take_append, List.take_of_length_le (by omega)]
  congr 1
  have : cut - r.preA.length = 1 := by omega
  rw [this]
  cases r.links <;> simp [swapEvs]

theorem take_trace_after {cut : Nat} (hc : r.preA.length + 2 ≤ cut) :
    r.trace.take cut = r.preA ++ swapEvs r.links ++ r.postB.take (cut - r.preA.length - 2) := by
  unfold Run.trace
  rw [List.append_assoc, List.append_assoc, List.take_append, List.take_of_length_le (by omega)]
  congr 1
  rw [List.take_append, List.take_of_length_le (by cases r.links <;> simp [swapEvs] <;> omega)]
  congr 2
  cases r.links <;> simp [swapEvs] <;> omega

/-- with hard links: between the two operations Data.fs is still the unpacked file -/
theorem mid_swap_links (wf : WF r u0 kept k) (hl : r.links = true) :
    ∃ b, (image r.d0 r.trace r.midSwapCut).data =
      some (.db (committed r u0 r.midSwapCut) b) := by
  obtain ⟨b, hb⟩ := at_swap wf
  refine ⟨b, ?_⟩
  unfold image committed Run.midSwapCut
  rw [take_trace_mid rfl, applyAll_append, finishes_append, hl]
  simp only [swapEvs, if_true, List.take_succ_cons, List.take_zero, applyAll, List.foldl_cons,
    List.foldl_nil, finishes, List.append_nil]
  show (apply (applyAll r.d0 r.preA) (.link .data .old)).data = _
  rw [data_apply_safe (by rfl), hb]
  rfl

/-- without hard links: between the two renames there is no Data.fs, the data sits in .old -/
theorem mid_swap_nolinks (wf : WF r u0 kept k) (hl : r.links = false) :
    (image r.d0 r.trace r.midSwapCut).data = none ∧
    ∃ b, (image r.d0 r.trace r.midSwapCut).old = some (.db (u0 ++ finishes r.preA) b) := by
  obtain ⟨b, hb⟩ := at_swap wf
  unfold image Run.midSwapCut
  rw [take_trace_mid rfl, applyAll_append, hl]
  simp only [swapEvs, Bool.false_eq_true, if_false, List.take_succ_cons, List.take_zero, applyAll,
    List.foldl_cons, List.foldl_nil]
  have hg : (List.foldl apply r.d0 r.preA).get .data = some (.db (u0 ++ finishes r.preA) b) := hb
  simp only [apply, hg]
  exact ⟨rfl, b, rfl⟩

/-- after the second operation Data.fs is the complete packed file … -/
theorem after_swap_data (wf : WF r u0 kept k) :
    (applyAll (applyAll r.d0 r.preA) (swapEvs r.links)).data =
      some (.db (packOf kept k (u0 ++ finishes r.preA)) false) := by
  obtain ⟨b, hb⟩ := at_swap wf
  have hp := wf.ready
  cases hl : r.links
  · -- rename data old; rename pack data
    simp only [swapEvs, Bool.false_eq_true, if_false, applyAll, List.foldl_cons, List.foldl_nil]
    have hg : (List.foldl apply r.d0 r.preA).get .data = some (.db (u0 ++ finishes r.preA) b) := hb
    have h1 : (apply (List.foldl apply r.d0 r.preA) (.rename .data .old)).pack =
        (List.foldl apply r.d0 r.preA).pack := by
      simp only [apply, hg]; rfl
    have hg2 : (apply (List.foldl apply r.d0 r.preA) (.rename .data .old)).get .pack =
        some (.db (packOf kept k (u0 ++ finishes r.preA)) false) := by
      show (apply _ _).pack = _
      rw [h1]; exact hp
    simp only [apply, hg2] at *
    rfl
  · simp only [swapEvs, if_true, applyAll, List.foldl_cons, List.foldl_nil]
    have h1 : (apply (List.foldl apply r.d0 r.preA) (.link .data .old)).pack =
        (List.foldl apply r.d0 r.preA).pack := by
      simp only [apply]
      split
      · rfl
      · rfl
    have hg2 : (apply (List.foldl apply r.d0 r.preA) (.link .data .old)).get .pack =
        some (.db (packOf kept k (u0 ++ finishes r.preA)) false) := by
      show (apply _ _).pack = _
      rw [h1]; exact hp
    simp only [apply, hg2] at *
    rfl

theorem packOf_append {kept : List Tid} {k : Nat} {u v : List Tid} (h : k ≤ u.length) :
    packOf kept k u ++ v = packOf kept k (u ++ v) := by
  unfold packOf
  rw [List.drop_append_of_le_length h, List.append_assoc]

/-- … and stays the packed database extended by the later commits -/
theorem after_swap (wf : WF r u0 kept k) {cut : Nat} (hc : r.preA.length + 2 ≤ cut) :
    ∃ b, (image r.d0 r.trace cut).data = some (.db (packOf kept k (committed r u0 cut)) b) := by
  unfold image committed
  rw [take_trace_after hc, applyAll_append, applyAll_append, finishes_append, finishes_append,
    finishes_swapEvs, List.append_nil]
  obtain ⟨b', hb'⟩ := data_after_safe (after_swap_data wf)
    (safe_take wf.safeB (cut - r.preA.length - 2))
  refine ⟨b', ?_⟩
  rw [hb', packOf_append wf.kle, List.append_assoc]

end

end Proofs.PackDisk
