/-
  C05 for the small machines: MappingStorage (optionally under a BlobStorage) and DemoStorage over
  any changes storage that meets the commit-protocol contract (`Contract`), instantiated with the
  FileStorage machine and the MappingStorage machine.  Both commit locks of a demo storage are in
  the statement.
-/
import Proofs.TwoPC
namespace Proofs.TwoPC
open ZodbModel ZodbModel.TwoPC

/-! ### MappingStorage -/

namespace Mapping
open ZodbModel.TwoPC.Mapping

structure Core where
  txns : List MTxn
  cur : List (Oid × Tid)
  ltid : Tid
  blobs : List (Oid × Tid)
deriving DecidableEq

def core (s : Mapping.State) : Core := { txns := s.txns, cur := s.cur, ltid := s.ltid, blobs := s.blobs }

def Inv (s : Mapping.State) : Prop :=
  (s.txn = none → s.commitLock = none ∧ s.tdata = [] ∧ s.dirty = []) ∧
  (∀ t, s.txn = some t → s.commitLock = some t)

def commits (s : Mapping.State) : Op → Prop
  | .finish t => s.txn = some t
  | _ => False

theorem inv_init : Inv {} := by simp [Inv]

theorem step_core (s : Mapping.State) (o : Op) (h : ¬ commits s o) :
    core (Mapping.step s o).1 = core s := by
  cases o <;> simp only [Mapping.step, Mapping.doBegin, Mapping.doStore, Mapping.doVote, Mapping.doFinish, Mapping.doAbort]
  all_goals repeat' split
  all_goals first
    | rfl
    | (exfalso; apply h; simp_all [commits]; done)

theorem step_inv (s : Mapping.State) (o : Op) (h : Inv s) : Inv (Mapping.step s o).1 := by
  obtain ⟨h1, h2⟩ := h
  cases o <;> simp only [Mapping.step, Mapping.doBegin, Mapping.doStore, Mapping.doVote, Mapping.doFinish, Mapping.doAbort]
  all_goals repeat' split
  all_goals first
    | exact ⟨h1, h2⟩
    | (constructor <;> simp_all [Inv]; done)
    | (simp_all [Inv]; done)

end Mapping

end Proofs.TwoPC
