/-
  C05 for the small machines: MappingStorage (optionally under a BlobStorage) and DemoStorage over
  any changes storage that meets the commit-protocol contract (`Contract`), instantiated with the
  FileStorage machine and the MappingStorage machine.  Both commit locks of a demo storage are in
  the statement.
-/
import Proofs.TwoPC
namespace Proofs.TwoPC
open ZodbModel ZodbModel.TwoPC

/-! ### MappingStorage -/

namespace Mapping
open ZodbModel.TwoPC.Mapping

structure Core where
  txns : List MTxn
  cur : List (Oid × Tid)
  ltid : Tid
  blobs : List (Oid × Tid)
deriving DecidableEq

def core (s : Mapping.State) : Core := { txns := s.txns, cur := s.cur, ltid := s.ltid, blobs := s.blobs }

def Inv (s : Mapping.State) : Prop :=
  (s.txn = none → s.commitLock = none ∧ s.tdata = [] ∧ s.dirty = []) ∧
  (∀ t, s.txn = some t → s.commitLock = some t)

def commits (s : Mapping.State) : Op → Prop
  | .finish t => s.txn = some t
  | _ => False

theorem inv_init : Inv {} := by simp [Inv]

theorem step_core (s : Mapping.State) (o : Op) (h : ¬ commits s o) :
    core (Mapping.step s o).1 = core s := by
  cases o <;> simp only [Mapping.step, Mapping.doBegin, Mapping.doStore, Mapping.doVote, Mapping.doFinish, Mapping.doAbort]
  all_goals repeat' split
  all_goals first
    | rfl
    | (exfalso; apply h; simp_all [commits]; done)

theorem step_inv (s : Mapping.State) (o : Op) (h : Inv s) : Inv (Mapping.step s o).1 := by
  obtain ⟨h1, h2⟩ := h
  cases o <;> simp only [Mapping.step, Mapping.doBegin, Mapping.doStore, Mapping.doVote, Mapping.doFinish, Mapping.doAbort]
  all_goals repeat' split
  all_goals first
    | exact ⟨h1, h2⟩
    | (constructor <;> simp_all [Inv]; done)
    | (simp_all [Inv]; done)

end Mapping

/-! ### the commit-protocol contract of a storage -/

structure Contract (M : Machine) where
  Core : Type
  Obs : Type
  core : M.σ → Core
  obs : M.σ → Obs
  Inv : M.σ → Prop
  /-- the call reaches the commit point -/
  commits : M.σ → Op → Prop
  commits_finish : ∀ s o, commits s o → ∃ t, o = .finish t
  step_core : ∀ s o, ¬ commits s o → core (M.step s o).1 = core s
  step_inv : ∀ s o, Inv s → Inv (M.step s o).1
  usable_core : ∀ s s', core s' = core s → M.usable s' = M.usable s
  usable_mono : ∀ s o, M.usable (M.step s o).1 = true → M.usable s = true
  begin_txn : ∀ s t tid st ul dl el, Inv s → M.usable s = true → M.txn s = none →
    M.txn (M.step s (.begin t tid st ul dl el)).1 = some t
  abort_txn : ∀ s t, M.usable s = true → M.txn s = some t → M.txn (M.step s (.abort t)).1 = none
  finish_out : ∀ s t, Inv s → M.usable s = true → M.txn s = some t →
    ((M.step s (.finish t)).2 = .ok → M.txn (M.step s (.finish t)).1 = none) ∧
    ((M.step s (.finish t)).2 = .misuse → M.txn (M.step s (.finish t)).1 = some t) ∧
    ((M.step s (.finish t)).2 ≠ .ok → (M.step s (.finish t)).2 ≠ .misuse →
      M.usable (M.step s (.finish t)).1 = false)
  other_txn : ∀ s o, (∀ t tid st ul dl el, o ≠ .begin t tid st ul dl el) → (∀ t, o ≠ .abort t) →
    (∀ t, o ≠ .finish t) → M.txn (M.step s o).1 = M.txn s
  idle_lock : ∀ s, Inv s → M.usable s = true → M.txn s = none → M.lockFree s = true
  obs_eq : ∀ s s', Inv s → Inv s' → M.usable s = true → M.txn s = none → M.txn s' = none →
    core s' = core s → obs s' = obs s
  wrong_vote : ∀ s t', Inv s → M.usable s = true → M.txn s ≠ some t' →
    (M.step s (.vote t')).2 = .errTxn ∧ obs (M.step s (.vote t')).1 = obs s

namespace Contract
variable {M : Machine}

def NoCommit (C : Contract M) : M.σ → List Op → Prop
  | _, [] => True
  | s, o :: os => ¬ C.commits s o ∧ NoCommit C (M.step s o).1 os

theorem step_usable (C : Contract M) (s : M.σ) (o : Op) (h : ¬ C.commits s o) :
    M.usable (M.step s o).1 = M.usable s := C.usable_core _ _ (C.step_core s o h)

theorem run_inv (C : Contract M) (s : M.σ) (ops : List Op) (h : C.Inv s) : C.Inv (M.run s ops) := by
  induction ops generalizing s with
  | nil => exact h
  | cons o os ih => exact ih _ (C.step_inv s o h)

theorem run_core (C : Contract M) (s : M.σ) (ops : List Op) (h : C.NoCommit s ops) :
    C.core (M.run s ops) = C.core s := by
  induction ops generalizing s with
  | nil => rfl
  | cons o os ih =>
    show C.core (M.run (M.step s o).1 os) = _
    rw [ih _ h.2, C.step_core s o h.1]

theorem abort_not_commit (C : Contract M) (s : M.σ) (t : TxnId) : ¬ C.commits s (.abort t) := by
  intro h; obtain ⟨t', h'⟩ := C.commits_finish _ _ h; cases h'

theorem abortCurrent_inv (C : Contract M) (s : M.σ) (h : C.Inv s) : C.Inv (M.abortCurrent s) := by
  unfold Machine.abortCurrent
  split
  · exact C.step_inv _ _ h
  · exact h

theorem abortCurrent_core (C : Contract M) (s : M.σ) : C.core (M.abortCurrent s) = C.core s := by
  unfold Machine.abortCurrent
  split
  · exact C.step_core _ _ (C.abort_not_commit _ _)
  · rfl

theorem abortCurrent_txn (C : Contract M) (s : M.σ) (hu : M.usable s = true) : M.txn (M.abortCurrent s) = none := by
  unfold Machine.abortCurrent
  split
  · rename_i t ht; exact C.abort_txn s t hu ht
  · assumption

/-- C05 for any storage that meets the contract: after any calls that did not reach the commit
    point, the mandated abort restores the observable state, frees every commit lock and leaves
    the storage usable -/
theorem abort_restores (C : Contract M) (s : M.σ) (ops : List Op) (h : C.Inv s) (hu : M.usable s = true)
    (ht : M.txn s = none) (hn : C.NoCommit s ops) :
    C.obs (M.abortCurrent (M.run s ops)) = C.obs s ∧
    M.lockFree (M.abortCurrent (M.run s ops)) = true ∧
    M.usable (M.abortCurrent (M.run s ops)) = true := by
  have hcore : C.core (M.abortCurrent (M.run s ops)) = C.core s := by
    rw [C.abortCurrent_core, C.run_core s ops hn]
  have hu1 : M.usable (M.run s ops) = true := by
    rw [C.usable_core _ _ (C.run_core s ops hn)]; exact hu
  have hu2 : M.usable (M.abortCurrent (M.run s ops)) = true := by
    rw [C.usable_core _ _ hcore]; exact hu
  have hi := C.abortCurrent_inv _ (C.run_inv s ops h)
  have htx := C.abortCurrent_txn _ hu1
  exact ⟨C.obs_eq s _ h hi hu ht htx hcore, C.idle_lock _ hi hu2 htx, hu2⟩

end Contract

/-! ### FileStorage meets the contract -/

theorem doStore_txn (s : State) (t oid ser dlen tag blob) :
    (doStore s t oid ser dlen tag blob).1.txn = s.txn := by
  unfold doStore
  repeat' split
  all_goals first
    | rfl
    | exact (stage_nextpos _ _ _ _ _ _).2

theorem doDelete_txn (s : State) (t oid ser) : (doDelete s t oid ser).1.txn = s.txn := by
  unfold doDelete
  repeat' split
  all_goals first
    | rfl
    | exact (stage_nextpos _ _ _ _ _ _).2

theorem doVote_txn (s : State) (t) : (doVote s t).1.txn = s.txn := by
  unfold doVote
  simp only []
  repeat' split
  all_goals rfl

theorem file_other_txn (s : State) (o : Op) (h1 : ∀ t tid st ul dl el, o ≠ .begin t tid st ul dl el)
    (h2 : ∀ t, o ≠ .abort t) (h3 : ∀ t, o ≠ .finish t) : (step s o).1.txn = s.txn := by
  unfold step
  split
  · rfl
  · cases o with
    | fault k => rfl
    | «begin» t tid st ul dl el => exact absurd rfl (h1 t tid st ul dl el)
    | abort t => exact absurd rfl (h2 t)
    | finish t => exact absurd rfl (h3 t)
    | store t oid ser dlen tag => exact doStore_txn _ _ _ _ _ _ _
    | storeBlob t oid ser dlen tag => exact doStore_txn _ _ _ _ _ _ _
    | delete t oid ser => exact doDelete_txn _ _ _ _
    | vote t => exact doVote_txn _ _

theorem file_begin_txn (s : State) (t tid st ul dl el) (h : Inv s) (hc : s.closed = false)
    (ht : s.txn = none) : (step s (.begin t tid st ul dl el)).1.txn = some t := by
  have hl := ((h hc).1 ht).1
  simp only [step, hc, doBegin, ht, hl]
  repeat' split
  all_goals first
    | rfl
    | (rename_i hh; simp at hh; done)

theorem file_finish_out (s : State) (t : TxnId) (hc : s.closed = false) (ht : s.txn = some t) :
    ((step s (.finish t)).2.2 = .ok → (step s (.finish t)).1.txn = none) ∧
    ((step s (.finish t)).2.2 = .misuse → (step s (.finish t)).1.txn = some t) ∧
    ((step s (.finish t)).2.2 ≠ .ok → (step s (.finish t)).2.2 ≠ .misuse →
      (!(step s (.finish t)).1.closed) = false) := by
  simp only [step, hc, doFinish, ht]
  repeat' split
  all_goals simp_all

def fileContract : Contract fileMachine where
  Core := Core
  Obs := Obs
  core := core
  obs := obs
  Inv := Inv
  commits := commits
  commits_finish := by
    intro s o h; cases o <;> simp only [commits] at h
    exact ⟨_, rfl⟩
  step_core := step_core
  step_inv := step_inv
  usable_core := by
    intro s s' h
    have := congrArg Core.closed h
    simp only [core] at this
    simp [fileMachine, this]
  usable_mono := by
    intro s o h
    cases hc : s.closed with
    | false => simp [fileMachine, hc]
    | true =>
      have : (TwoPC.step s o).1 = s := by unfold TwoPC.step; rw [if_pos hc]
      have h' : (!(TwoPC.step s o).1.closed) = true := h
      rw [this, hc] at h'
      exact absurd h' (by simp)
  begin_txn := by
    intro s t tid st ul dl el h hu ht
    exact file_begin_txn s t tid st ul dl el h (by simpa [fileMachine] using hu) ht
  abort_txn := by
    intro s t hu ht
    exact (step_abort_txn s t (by simpa [fileMachine] using hu) ht).1
  finish_out := by
    intro s t _ hu ht
    exact file_finish_out s t (by simpa [fileMachine] using hu) ht
  other_txn := file_other_txn
  idle_lock := by
    intro s h hu ht
    have := ((h (by simpa [fileMachine] using hu)).1 ht).1
    simp [fileMachine, this]
  obs_eq := by
    intro s s' h h' hu ht ht' hcore
    exact obs_eq_of_core s s' h h' (by simpa [fileMachine] using hu) ht ht' hcore
  wrong_vote := by
    intro s t' _ hu ht
    have hc : s.closed = false := by simpa [fileMachine] using hu
    have := wrong_txn_rejected s t' (.vote t') hc ht rfl
    simp only [fileMachine, this]
    exact ⟨trivial, rfl⟩

/-! ### MappingStorage meets the contract -/

theorem mapping_obs_idle (s : TwoPC.Mapping.State) (h : Mapping.Inv s) (ht : s.txn = none) :
    TwoPC.Mapping.obs s = { txns := s.txns, cur := s.cur, ltid := s.ltid, blobFiles := s.blobs,
                            stagingEmpty := true, lockFree := true, txnNone := true } := by
  have h' := h.1 ht
  simp [TwoPC.Mapping.obs, h', ht]

def mappingContract : Contract mappingMachine where
  Core := Mapping.Core
  Obs := TwoPC.Mapping.Obs
  core := Mapping.core
  obs := TwoPC.Mapping.obs
  Inv := Mapping.Inv
  commits := Mapping.commits
  commits_finish := by
    intro s o h; cases o <;> simp only [Mapping.commits] at h
    exact ⟨_, rfl⟩
  step_core := Mapping.step_core
  step_inv := Mapping.step_inv
  usable_core := by intro s s' _; rfl
  usable_mono := by intro s o _; rfl
  begin_txn := by
    intro s t tid st ul dl el h _ ht
    have ht' : s.txn = none := ht
    have hl := (h.1 ht').1
    simp [mappingMachine, TwoPC.Mapping.step, TwoPC.Mapping.doBegin, ht', hl]
  abort_txn := by
    intro s t _ ht
    have ht' : s.txn = some t := ht
    simp [mappingMachine, TwoPC.Mapping.step, TwoPC.Mapping.doAbort, ht']
  finish_out := by
    intro s t _ _ ht
    have ht' : s.txn = some t := ht
    simp [mappingMachine, TwoPC.Mapping.step, TwoPC.Mapping.doFinish, ht']
  other_txn := by
    intro s o h1 h2 h3
    cases o with
    | «begin» t tid st ul dl el => exact absurd rfl (h1 t tid st ul dl el)
    | abort t => exact absurd rfl (h2 t)
    | finish t => exact absurd rfl (h3 t)
    | fault k => rfl
    | delete t oid ser => rfl
    | vote t =>
      simp only [mappingMachine, TwoPC.Mapping.step, TwoPC.Mapping.doVote]; split <;> rfl
    | store t oid ser dlen tag =>
      simp only [mappingMachine, TwoPC.Mapping.step, TwoPC.Mapping.doStore]
      repeat' split
      all_goals rfl
    | storeBlob t oid ser dlen tag =>
      simp only [mappingMachine, TwoPC.Mapping.step, TwoPC.Mapping.doStore]
      repeat' split
      all_goals rfl
  idle_lock := by
    intro s h _ ht
    have ht' : s.txn = none := ht
    have := (h.1 ht').1
    simp [mappingMachine, this]
  obs_eq := by
    intro s s' h h' _ ht ht' hcore
    rw [mapping_obs_idle s h ht, mapping_obs_idle s' h' ht']
    simp only [Mapping.core, Mapping.Core.mk.injEq] at hcore
    simp [hcore]
  wrong_vote := by
    intro s t' _ _ ht
    have ht' : s.txn ≠ some t' := ht
    simp [mappingMachine, TwoPC.Mapping.step, TwoPC.Mapping.doVote, ht']

/-! ### DemoStorage over a storage that meets the contract meets it too -/

namespace DemoC
variable {M : Machine}

def Inv (C : Contract M) (d : Demo.State M) : Prop :=
  C.Inv d.changes ∧ (M.usable d.changes = true → M.txn d.changes = d.txn ∧ d.commitLock = d.txn)

def commits (C : Contract M) (d : Demo.State M) : Op → Prop
  | .finish t => d.txn = some t ∧ C.commits d.changes (.finish t)
  | _ => False

/-- changes' observation, DemoStorage._transaction is None, DemoStorage._commit_lock is free -/
def obs (C : Contract M) (d : Demo.State M) : C.Obs × Bool × Bool :=
  (C.obs d.changes, decide (d.txn = none), decide (d.commitLock = none))

theorem changes_step (C : Contract M) (d : Demo.State M) (o : Op) :
    (Demo.step d o).1.changes = d.changes ∨ (Demo.step d o).1.changes = (M.step d.changes o).1 := by
  cases o <;> simp only [Demo.step, Demo.doBegin, Demo.doStore, Demo.doStoreBlob, Demo.doVote,
    Demo.doFinish, Demo.doAbort]
  all_goals repeat' split
  all_goals first
    | exact Or.inl rfl
    | exact Or.inr rfl
    | exact Or.inl trivial
    | exact Or.inr trivial

theorem not_commits (C : Contract M) (d : Demo.State M) (o : Op) (h : ¬ commits C d o)
    (hch : (Demo.step d o).1.changes ≠ d.changes) : ¬ C.commits d.changes o := by
  intro hc
  obtain ⟨t, rfl⟩ := C.commits_finish _ _ hc
  apply hch
  simp only [Demo.step, Demo.doFinish]
  split
  · rfl
  · rename_i ht
    exfalso; apply h
    exact ⟨by simpa using ht, hc⟩

theorem step_core (C : Contract M) (d : Demo.State M) (o : Op) (h : ¬ commits C d o) :
    C.core (Demo.step d o).1.changes = C.core d.changes := by
  by_cases hch : (Demo.step d o).1.changes = d.changes
  · rw [hch]
  · rcases changes_step C d o with h1 | h1
    · exact absurd h1 hch
    · rw [h1]; exact C.step_core _ _ (not_commits C d o h hch)

end DemoC

namespace DemoC
variable {M : Machine}

theorem inv_delegate (C : Contract M) (d : Demo.State M) (o : Op) (h : Inv C d)
    (h1 : ∀ t tid st ul dl el, o ≠ .begin t tid st ul dl el) (h2 : ∀ t, o ≠ .abort t)
    (h3 : ∀ t, o ≠ .finish t) : Inv C { d with changes := (M.step d.changes o).1 } := by
  refine ⟨C.step_inv _ _ h.1, ?_⟩
  intro hu
  have := h.2 (C.usable_mono _ _ hu)
  show M.txn (M.step d.changes o).1 = d.txn ∧ d.commitLock = d.txn
  rw [C.other_txn _ _ h1 h2 h3]
  exact this

theorem step_inv (C : Contract M) (d : Demo.State M) (o : Op) (h : Inv C d) :
    Inv C (Demo.step d o).1 := by
  cases o with
  | fault k => exact inv_delegate C d _ h (by intros; simp) (by intros; simp) (by intros; simp)
  | vote t => exact inv_delegate C d _ h (by intros; simp) (by intros; simp) (by intros; simp)
  | delete t oid ser => exact h
  | store t oid ser dlen tag =>
    simp only [Demo.step, Demo.doStore]
    repeat' split
    all_goals first
      | exact h
      | exact inv_delegate C d _ h (by intros; simp) (by intros; simp) (by intros; simp)
  | storeBlob t oid ser dlen tag =>
    simp only [Demo.step, Demo.doStoreBlob]
    repeat' split
    all_goals first
      | exact h
      | exact inv_delegate C d _ h (by intros; simp) (by intros; simp) (by intros; simp)
  | «begin» t tid st ul dl el =>
    simp only [Demo.step, Demo.doBegin]
    split
    · exact h
    · split
      · exact h
      · rename_i hl
        refine ⟨C.step_inv _ _ h.1, ?_⟩
        intro hu
        have hu0 := C.usable_mono _ _ hu
        have hd := h.2 hu0
        have htx : d.txn = none := by rw [← hd.2]; exact hl
        have hm : M.txn d.changes = none := by rw [hd.1]; exact htx
        exact ⟨C.begin_txn _ t tid st ul dl el h.1 hu0 hm, rfl⟩
  | abort t =>
    simp only [Demo.step, Demo.doAbort]
    split
    · exact h
    · rename_i ht
      have ht' : d.txn = some t := by simpa using ht
      refine ⟨C.step_inv _ _ h.1, ?_⟩
      intro hu
      have hu0 := C.usable_mono _ _ hu
      have hd := h.2 hu0
      exact ⟨C.abort_txn _ t hu0 (by rw [hd.1]; exact ht'), rfl⟩
  | finish t =>
    simp only [Demo.step, Demo.doFinish]
    split
    · exact h
    · rename_i ht
      have ht' : d.txn = some t := by simpa using ht
      split
      · rename_i hok
        refine ⟨C.step_inv _ _ h.1, ?_⟩
        intro hu
        have hu0 := C.usable_mono _ _ hu
        have hd := h.2 hu0
        exact ⟨(C.finish_out _ t h.1 hu0 (by rw [hd.1]; exact ht')).1 hok, rfl⟩
      · rename_i hmis
        refine ⟨C.step_inv _ _ h.1, ?_⟩
        intro hu
        have hu0 := C.usable_mono _ _ hu
        have hd := h.2 hu0
        refine ⟨?_, hd.2⟩
        show M.txn (M.step d.changes (Op.finish t)).1 = d.txn
        rw [(C.finish_out _ t h.1 hu0 (by rw [hd.1]; exact ht')).2.1 hmis, ht']
      · rename_i hnok hnmis
        refine ⟨C.step_inv _ _ h.1, ?_⟩
        intro hu
        exfalso
        have hu0 := C.usable_mono _ _ hu
        have hd := h.2 hu0
        have := (C.finish_out _ t h.1 hu0 (by rw [hd.1]; exact ht')).2.2 (by simpa using hnok) (by simpa using hnmis)
        have hu' : M.usable (M.step d.changes (Op.finish t)).1 = true := hu
        rw [this] at hu'
        exact absurd hu' (by simp)

end DemoC

namespace DemoC
variable {M : Machine}

theorem finish_out (C : Contract M) (d : Demo.State M) (t : TxnId) (hi : Inv C d)
    (hu : M.usable d.changes = true) (ht : d.txn = some t) :
    ((Demo.step d (.finish t)).2 = .ok → (Demo.step d (.finish t)).1.txn = none) ∧
    ((Demo.step d (.finish t)).2 = .misuse → (Demo.step d (.finish t)).1.txn = some t) ∧
    ((Demo.step d (.finish t)).2 ≠ .ok → (Demo.step d (.finish t)).2 ≠ .misuse →
      M.usable (Demo.step d (.finish t)).1.changes = false) := by
  have hm : M.txn d.changes = some t := by rw [(hi.2 hu).1]; exact ht
  have hf := C.finish_out _ t hi.1 hu hm
  simp only [Demo.step, Demo.doFinish, ht, ne_eq, not_true_eq_false, ite_false]
  split
  · simp
  · simp [ht]
  · rename_i hnok hnmis
    refine ⟨fun h => absurd h (by simpa using hnok), fun h => absurd h (by simpa using hnmis), ?_⟩
    intro _ _
    exact hf.2.2 (by simpa using hnok) (by simpa using hnmis)

theorem other_txn (d : Demo.State M) (o : Op) (h1 : ∀ t tid st ul dl el, o ≠ .begin t tid st ul dl el)
    (h2 : ∀ t, o ≠ .abort t) (h3 : ∀ t, o ≠ .finish t) : (Demo.step d o).1.txn = d.txn := by
  cases o with
  | «begin» t tid st ul dl el => exact absurd rfl (h1 t tid st ul dl el)
  | abort t => exact absurd rfl (h2 t)
  | finish t => exact absurd rfl (h3 t)
  | fault k => rfl
  | delete t oid ser => rfl
  | vote t => rfl
  | store t oid ser dlen tag =>
    simp only [Demo.step, Demo.doStore]
    repeat' split
    all_goals rfl
  | storeBlob t oid ser dlen tag =>
    simp only [Demo.step, Demo.doStoreBlob]
    repeat' split
    all_goals rfl

end DemoC

def demoContract {M : Machine} (C : Contract M) : Contract (demoMachine M) where
  Core := C.Core
  Obs := C.Obs × Bool × Bool
  core := fun d => C.core d.changes
  obs := DemoC.obs C
  Inv := DemoC.Inv C
  commits := DemoC.commits C
  commits_finish := by
    intro s o h; cases o <;> simp only [DemoC.commits] at h
    exact ⟨_, rfl⟩
  step_core := DemoC.step_core C
  step_inv := DemoC.step_inv C
  usable_core := by intro s s' h; exact C.usable_core _ _ h
  usable_mono := by
    intro d o h
    rcases DemoC.changes_step C d o with h1 | h1
    · show M.usable d.changes = true
      rw [← h1]; exact h
    · have h' : M.usable (Demo.step d o).1.changes = true := h
      rw [h1] at h'
      exact C.usable_mono _ _ h'
  begin_txn := by
    intro d t tid st ul dl el hi hu ht
    have ht' : d.txn = none := ht
    have hl : d.commitLock = none := by rw [(hi.2 hu).2]; exact ht'
    simp [demoMachine, Demo.step, Demo.doBegin, ht', hl]
  abort_txn := by
    intro d t _ ht
    have ht' : d.txn = some t := ht
    simp [demoMachine, Demo.step, Demo.doAbort, ht']
  finish_out := by
    intro d t hi hu ht
    exact DemoC.finish_out C d t hi hu ht
  other_txn := DemoC.other_txn
  idle_lock := by
    intro d hi hu ht
    have ht' : d.txn = none := ht
    have hd := hi.2 hu
    have hl : d.commitLock = none := by rw [hd.2]; exact ht'
    have := C.idle_lock _ hi.1 hu (by rw [hd.1]; exact ht')
    simp [demoMachine, hl, this]
  obs_eq := by
    intro d d' hi hi' hu ht ht' hcore
    have h1 : d.txn = none := ht
    have h2 : d'.txn = none := ht'
    have hu' : M.usable d'.changes = true := by rw [C.usable_core _ _ hcore]; exact hu
    have hd := hi.2 hu
    have hd' := hi'.2 hu'
    have e := C.obs_eq d.changes d'.changes hi.1 hi'.1 hu (by rw [hd.1]; exact h1)
      (by rw [hd'.1]; exact h2) hcore
    have l1 : d.commitLock = none := by rw [hd.2]; exact h1
    have l2 : d'.commitLock = none := by rw [hd'.2]; exact h2
    simp [DemoC.obs, e, h1, h2, l1, l2]
  wrong_vote := by
    intro d t' hi hu ht
    have hm : M.txn d.changes ≠ some t' := by rw [(hi.2 hu).1]; exact ht
    have hw := C.wrong_vote d.changes t' hi.1 hu hm
    refine ⟨hw.1, ?_⟩
    show DemoC.obs C (Demo.step d (Op.vote t')).1 = DemoC.obs C d
    simp only [DemoC.obs, Demo.step, Demo.doVote, hw.2]
    rfl

/-! ### DemoStorage: calls with a foreign transaction, initial states -/

theorem demo_wrong_txn {M : Machine} (d : Demo.State M) (t' : TxnId) (ht : d.txn ≠ some t') :
    (∀ oid ser dlen tag, Demo.step d (.store t' oid ser dlen tag) = (d, .errTxn)) ∧
    (∀ oid ser dlen tag, Demo.step d (.storeBlob t' oid ser dlen tag) = (d, .errTxn)) ∧
    Demo.step d (.finish t') = (d, .errTxn) ∧
    Demo.step d (.abort t') = (d, .ok) := by
  simp [Demo.step, Demo.doStore, Demo.doStoreBlob, Demo.doFinish, Demo.doAbort, ht]

theorem demo_inv_init {M : Machine} (C : Contract M) (c : M.σ) (base : List (Oid × Tid))
    (hi : C.Inv c) (ht : M.txn c = none) : DemoC.Inv C ({ changes := c, base := base } : Demo.State M) :=
  ⟨hi, fun _ => ⟨ht, rfl⟩⟩

theorem reachable_inv (q : Option Nat) (ops : List Op) : Inv (run { quota := q } ops) :=
  run_inv _ ops (by intro _; simp)

instance decNoCommit : (s : State) → (ops : List Op) → Decidable (NoCommit s ops)
  | _, [] => isTrue trivial
  | s, o :: os =>
    have := decNoCommit (step s o).1 os
    inferInstanceAs (Decidable (¬ commits s o ∧ NoCommit (step s o).1 os))

end Proofs.TwoPC
