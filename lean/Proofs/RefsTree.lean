/-
  C14 helper lemmas, part 1: value trees (`ZodbModel.Refs.Tree`).  The stateful traversal of a tree
  is the stateful traversal of its list of leaves, and it preserves the skeleton — so every
  statement about `persistent_id` / `persistent_load` hooks can be proved over plain lists.
  Core Lean only.
-/
import ZodbModel.Refs
namespace Proofs.Refs
open ZodbModel ZodbModel.Refs ZodbModel.Refs.Tree

variable {L M N σ ε : Type}

/-! ### Forall2 -/

theorem forall2_length {R : L → M → Prop} {as : List L} {bs : List M} (h : Forall2 R as bs) :
    as.length = bs.length := by
  induction h with
  | nil => rfl
  | cons _ _ ih => simp [ih]

theorem forall2_imp {R S : L → M → Prop} (hrs : ∀ a b, R a b → S a b) {as : List L} {bs : List M}
    (h : Forall2 R as bs) : Forall2 S as bs := by
  induction h with
  | nil => exact .nil
  | cons h _ ih => exact .cons (hrs _ _ h) ih

theorem forall2_imp_mem {R S : L → M → Prop} {as : List L} {bs : List M}
    (h : Forall2 R as bs) (hrs : ∀ a b, a ∈ as → b ∈ bs → R a b → S a b) : Forall2 S as bs := by
  induction h with
  | nil => exact .nil
  | cons h _ ih =>
    refine .cons (hrs _ _ (by simp) (by simp) h) (ih ?_)
    intro a b ha hb
    exact hrs a b (List.mem_cons_of_mem _ ha) (List.mem_cons_of_mem _ hb)

theorem forall2_append {R : L → M → Prop} {as as' : List L} {bs bs' : List M}
    (h : Forall2 R as bs) (h' : Forall2 R as' bs') : Forall2 R (as ++ as') (bs ++ bs') := by
  induction h with
  | nil => simpa using h'
  | cons h _ ih => exact .cons h ih

theorem forall2_comp {R : L → M → Prop} {S : M → N → Prop} {T : L → N → Prop}
    (hc : ∀ a b c, R a b → S b c → T a c) {as : List L} {bs : List M} {cs : List N}
    (h : Forall2 R as bs) (h' : Forall2 S bs cs) : Forall2 T as cs := by
  induction h generalizing cs with
  | nil => cases h'; exact .nil
  | cons h _ ih =>
    cases h' with
    | cons h1 h2 => exact .cons (hc _ _ _ h h1) (ih h2)

theorem forall2_get {R : L → M → Prop} {as : List L} {bs : List M} (h : Forall2 R as bs)
    {a : L} (ha : a ∈ as) : ∃ b, b ∈ bs ∧ R a b := by
  induction h with
  | nil => simp at ha
  | cons h _ ih =>
    rcases List.mem_cons.1 ha with rfl | ha
    · exact ⟨_, by simp, h⟩
    · obtain ⟨b, hb, hr⟩ := ih ha
      exact ⟨b, List.mem_cons_of_mem _ hb, hr⟩

theorem forall2_get_right {R : L → M → Prop} {as : List L} {bs : List M} (h : Forall2 R as bs)
    {b : M} (hb : b ∈ bs) : ∃ a, a ∈ as ∧ R a b := by
  induction h with
  | nil => simp at hb
  | cons h _ ih =>
    rcases List.mem_cons.1 hb with rfl | hb
    · exact ⟨_, by simp, h⟩
    · obtain ⟨a, ha, hr⟩ := ih hb
      exact ⟨a, List.mem_cons_of_mem _ ha, hr⟩

/-! ### mapS -/

theorem mapS_nil (f : σ → L → Except ε (M × σ)) (s : σ) : mapS f s [] = .ok ([], s) := rfl

theorem mapS_cons_ok {f : σ → L → Except ε (M × σ)} {s s' : σ} {l : L} {ls : List L} {ms : List M}
    (h : mapS f s (l :: ls) = .ok (ms, s')) :
    ∃ m s1 ms', f s l = .ok (m, s1) ∧ mapS f s1 ls = .ok (ms', s') ∧ ms = m :: ms' := by
  simp only [mapS] at h
  cases hf : f s l with
  | error e => simp [hf] at h
  | ok p =>
    obtain ⟨m, s1⟩ := p
    simp only [hf] at h
    cases hr : mapS f s1 ls with
    | error e => simp [hr] at h
    | ok q =>
      obtain ⟨ms', s2⟩ := q
      simp only [hr, Except.ok.injEq, Prod.mk.injEq] at h
      obtain ⟨rfl, rfl⟩ := h
      exact ⟨m, s1, ms', rfl, hr, rfl⟩

theorem mapS_append_ok {f : σ → L → Except ε (M × σ)} {a b : List L} {s s' : σ} {ms : List M}
    (h : mapS f s (a ++ b) = .ok (ms, s')) :
    ∃ ma s1 mb, mapS f s a = .ok (ma, s1) ∧ mapS f s1 b = .ok (mb, s') ∧ ms = ma ++ mb := by
  induction a generalizing s ms with
  | nil => exact ⟨[], s, ms, rfl, by simpa using h, rfl⟩
  | cons x xs ih =>
    obtain ⟨m, s1, ms', hf, hr, rfl⟩ := mapS_cons_ok (by simpa using h)
    obtain ⟨ma, s2, mb, h1, h2, rfl⟩ := ih hr
    refine ⟨m :: ma, s2, mb, ?_, h2, rfl⟩
    simp [mapS, hf, h1]

theorem mapS_append_of_ok {f : σ → L → Except ε (M × σ)} {a b : List L} {s s1 s' : σ}
    {ma mb : List M} (h1 : mapS f s a = .ok (ma, s1)) (h2 : mapS f s1 b = .ok (mb, s')) :
    mapS f s (a ++ b) = .ok (ma ++ mb, s') := by
  induction a generalizing s ma with
  | nil => simp [mapS] at h1; obtain ⟨rfl, rfl⟩ := h1; simpa using h2
  | cons x xs ih =>
    obtain ⟨m, s2, ms', hf, hr, rfl⟩ := mapS_cons_ok h1
    simp [mapS, hf, ih hr]

/-- an invariant-style induction principle for `mapS`: a reflexive, transitive relation between the
    state before and after that every step establishes, and a relation `R` between each leaf and its
    image that holds in the state after the step and survives later steps -/
theorem mapS_rel {f : σ → L → Except ε (M × σ)} (Inv : σ → Prop) (Ext : σ → σ → Prop)
    (R : σ → L → M → Prop)
    (refl : ∀ s, Ext s s) (trans : ∀ a b c, Ext a b → Ext b c → Ext a c)
    (mono : ∀ s s' l m, Ext s s' → R s l m → R s' l m)
    (step : ∀ s l m s', Inv s → f s l = .ok (m, s') → Inv s' ∧ Ext s s' ∧ R s' l m)
    {ls : List L} {s s' : σ} {ms : List M} (hi : Inv s) (h : mapS f s ls = .ok (ms, s')) :
    Inv s' ∧ Ext s s' ∧ Forall2 (R s') ls ms := by
  induction ls generalizing s ms with
  | nil =>
    simp [mapS] at h; obtain ⟨rfl, rfl⟩ := h
    exact ⟨hi, refl _, .nil⟩
  | cons l ls ih =>
    obtain ⟨m, s1, ms', hf, hr, rfl⟩ := mapS_cons_ok h
    obtain ⟨i1, e1, r1⟩ := step _ _ _ _ hi hf
    obtain ⟨i2, e2, r2⟩ := ih i1 hr
    exact ⟨i2, trans _ _ _ e1 e2, .cons (mono _ _ _ _ e2 r1) r2⟩

/-- the same with a side condition on the leaves -/
theorem mapS_rel_mem {f : σ → L → Except ε (M × σ)} (Inv : σ → Prop) (Ext : σ → σ → Prop)
    (R : σ → L → M → Prop) (Q : L → Prop)
    (refl : ∀ s, Ext s s) (trans : ∀ a b c, Ext a b → Ext b c → Ext a c)
    (mono : ∀ s s' l m, Ext s s' → R s l m → R s' l m)
    (step : ∀ s l m s', Q l → Inv s → f s l = .ok (m, s') → Inv s' ∧ Ext s s' ∧ R s' l m)
    {ls : List L} {s s' : σ} {ms : List M} (hq : ∀ l ∈ ls, Q l) (hi : Inv s)
    (h : mapS f s ls = .ok (ms, s')) :
    Inv s' ∧ Ext s s' ∧ Forall2 (R s') ls ms := by
  induction ls generalizing s ms with
  | nil =>
    simp [mapS] at h; obtain ⟨rfl, rfl⟩ := h
    exact ⟨hi, refl _, .nil⟩
  | cons l ls ih =>
    obtain ⟨m, s1, ms', hf, hr, rfl⟩ := mapS_cons_ok h
    obtain ⟨i1, e1, r1⟩ := step _ _ _ _ (hq l (by simp)) hi hf
    obtain ⟨i2, e2, r2⟩ := ih (fun l hl => hq l (List.mem_cons_of_mem _ hl)) i1 hr
    exact ⟨i2, trans _ _ _ e1 e2, .cons (mono _ _ _ _ e2 r1) r2⟩

/-! ### traverse = mapS over the leaves, skeleton preserved -/

mutual
theorem traverse_leaves (f : σ → L → Except ε (M × σ)) :
    ∀ (t : Tree L) (s : σ) (t' : Tree M) (s' : σ), traverse f s t = .ok (t', s') →
      mapS f s t.leaves = .ok (t'.leaves, s')
  | .atom a, s, t', s', h => by
    simp [traverse] at h; obtain ⟨rfl, rfl⟩ := h; simp [leaves, mapS]
  | .leaf l, s, t', s', h => by
    simp only [traverse] at h
    cases hf : f s l with
    | error e => simp [hf] at h
    | ok p =>
      obtain ⟨m, s1⟩ := p
      simp [hf] at h; obtain ⟨rfl, rfl⟩ := h
      simp [leaves, mapS, hf]
  | .node k ks, s, t', s', h => by
    simp only [traverse] at h
    cases hf : traverseL f s ks with
    | error e => simp [hf] at h
    | ok p =>
      obtain ⟨ks', s1⟩ := p
      simp [hf] at h; obtain ⟨rfl, rfl⟩ := h
      simpa [leaves] using traverseL_leaves f ks s ks' s1 hf
theorem traverseL_leaves (f : σ → L → Except ε (M × σ)) :
    ∀ (ts : List (Tree L)) (s : σ) (ts' : List (Tree M)) (s' : σ),
      traverseL f s ts = .ok (ts', s') → mapS f s (leavesL ts) = .ok (leavesL ts', s')
  | [], s, ts', s', h => by
    simp [traverseL] at h; obtain ⟨rfl, rfl⟩ := h; simp [leavesL, mapS]
  | t :: ts, s, ts', s', h => by
    simp only [traverseL] at h
    cases h1 : traverse f s t with
    | error e => simp [h1] at h
    | ok p =>
      obtain ⟨t1, s1⟩ := p
      simp only [h1] at h
      cases h2 : traverseL f s1 ts with
      | error e => simp [h2] at h
      | ok q =>
        obtain ⟨ts1, s2⟩ := q
        simp [h2] at h; obtain ⟨rfl, rfl⟩ := h
        simp only [leavesL]
        exact mapS_append_of_ok (traverse_leaves f t s t1 s1 h1) (traverseL_leaves f ts s1 ts1 s2 h2)
end

mutual
theorem traverse_skel (f : σ → L → Except ε (M × σ)) :
    ∀ (t : Tree L) (s : σ) (t' : Tree M) (s' : σ), traverse f s t = .ok (t', s') → t.skel = t'.skel
  | .atom a, s, t', s', h => by
    simp [traverse] at h; obtain ⟨rfl, rfl⟩ := h; simp [skel]
  | .leaf l, s, t', s', h => by
    simp only [traverse] at h
    cases hf : f s l with
    | error e => simp [hf] at h
    | ok p =>
      obtain ⟨m, s1⟩ := p
      simp [hf] at h; obtain ⟨rfl, rfl⟩ := h
      simp [skel]
  | .node k ks, s, t', s', h => by
    simp only [traverse] at h
    cases hf : traverseL f s ks with
    | error e => simp [hf] at h
    | ok p =>
      obtain ⟨ks', s1⟩ := p
      simp [hf] at h; obtain ⟨rfl, rfl⟩ := h
      simp [skel, traverseL_skel f ks s ks' s1 hf]
theorem traverseL_skel (f : σ → L → Except ε (M × σ)) :
    ∀ (ts : List (Tree L)) (s : σ) (ts' : List (Tree M)) (s' : σ),
      traverseL f s ts = .ok (ts', s') → skelL ts = skelL ts'
  | [], s, ts', s', h => by
    simp [traverseL] at h; obtain ⟨rfl, rfl⟩ := h; simp [skelL]
  | t :: ts, s, ts', s', h => by
    simp only [traverseL] at h
    cases h1 : traverse f s t with
    | error e => simp [h1] at h
    | ok p =>
      obtain ⟨t1, s1⟩ := p
      simp only [h1] at h
      cases h2 : traverseL f s1 ts with
      | error e => simp [h2] at h
      | ok q =>
        obtain ⟨ts1, s2⟩ := q
        simp [h2] at h; obtain ⟨rfl, rfl⟩ := h
        simp [skelL, traverse_skel f t s t1 s1 h1, traverseL_skel f ts s1 ts1 s2 h2]
end

mutual
/-- the atoms are part of the skeleton -/
theorem atoms_skel : ∀ (t : Tree L), t.skel.atoms = t.atoms
  | .atom a => by simp [skel, atoms]
  | .leaf l => by simp [skel, atoms]
  | .node k ks => by simp [skel, atoms, atomsL_skelL ks]
theorem atomsL_skelL : ∀ (ts : List (Tree L)), atomsL (skelL ts) = atomsL ts
  | [] => by simp [skelL, atomsL]
  | t :: ts => by simp [skelL, atomsL, atoms_skel t, atomsL_skelL ts]
end

mutual
/-- so is the number of leaves -/
theorem leaves_skel_length : ∀ (t : Tree L), t.skel.leaves.length = t.leaves.length
  | .atom a => by simp [skel, leaves]
  | .leaf l => by simp [skel, leaves]
  | .node k ks => by simp [skel, leaves, leavesL_skelL_length ks]
theorem leavesL_skelL_length : ∀ (ts : List (Tree L)), (leavesL (skelL ts)).length = (leavesL ts).length
  | [] => by simp [skelL, leavesL]
  | t :: ts => by simp [skelL, leavesL, leaves_skel_length t, leavesL_skelL_length ts]
end

theorem atoms_eq_of_skel {t : Tree L} {t' : Tree M} (h : t.skel = t'.skel) : t.atoms = t'.atoms := by
  rw [← atoms_skel t, ← atoms_skel t', h]

/-- traversal relates the tree to its image leaf by leaf, whatever `mapS_rel` can establish -/
theorem traverse_rel {f : σ → L → Except ε (M × σ)} (Inv : σ → Prop) (Ext : σ → σ → Prop)
    (R : σ → L → M → Prop)
    (refl : ∀ s, Ext s s) (trans : ∀ a b c, Ext a b → Ext b c → Ext a c)
    (mono : ∀ s s' l m, Ext s s' → R s l m → R s' l m)
    (step : ∀ s l m s', Inv s → f s l = .ok (m, s') → Inv s' ∧ Ext s s' ∧ R s' l m)
    {t : Tree L} {s s' : σ} {t' : Tree M} (hi : Inv s) (h : traverse f s t = .ok (t', s')) :
    Inv s' ∧ Ext s s' ∧ Tree.Rel (R s') t t' := by
  obtain ⟨i, e, r⟩ := mapS_rel Inv Ext R refl trans mono step hi (traverse_leaves f t s t' s' h)
  exact ⟨i, e, traverse_skel f t s t' s' h, r⟩

theorem Rel.imp {R S : L → M → Prop} (hrs : ∀ a b, R a b → S a b) {t : Tree L} {t' : Tree M}
    (h : Tree.Rel R t t') : Tree.Rel S t t' := ⟨h.1, forall2_imp hrs h.2⟩

theorem Rel.comp {R : L → M → Prop} {S : M → N → Prop} {T : L → N → Prop}
    (hc : ∀ a b c, R a b → S b c → T a c) {t : Tree L} {t' : Tree M} {t'' : Tree N}
    (h : Tree.Rel R t t') (h' : Tree.Rel S t' t'') : Tree.Rel T t t'' :=
  ⟨h.1.trans h'.1, forall2_comp hc h.2 h'.2⟩

theorem Rel.atoms {R : L → M → Prop} {t : Tree L} {t' : Tree M} (h : Tree.Rel R t t') :
    t.atoms = t'.atoms := atoms_eq_of_skel h.1

mutual
/-- a traversal fails only with an error of its hook -/
theorem traverse_error (f : σ → L → Except ε (M × σ)) (e : ε) (hf : ∀ s l, f s l ≠ .error e) :
    ∀ (t : Tree L) (s : σ), traverse f s t ≠ .error e
  | .atom a, s => by simp [traverse]
  | .leaf l, s => by
    simp only [traverse]
    cases h : f s l with
    | error e' => intro hc; simp only [Except.error.injEq] at hc; subst hc; exact hf s l h
    | ok p => simp
  | .node k ks, s => by
    simp only [traverse]
    cases h : traverseL f s ks with
    | error e' =>
      intro hc; simp only [Except.error.injEq] at hc; subst hc
      exact traverseL_error f e' hf ks s h
    | ok p => simp
theorem traverseL_error (f : σ → L → Except ε (M × σ)) (e : ε) (hf : ∀ s l, f s l ≠ .error e) :
    ∀ (ts : List (Tree L)) (s : σ), traverseL f s ts ≠ .error e
  | [], s => by simp [traverseL]
  | t :: ts, s => by
    simp only [traverseL]
    cases h1 : traverse f s t with
    | error e' =>
      intro hc; simp only [Except.error.injEq] at hc; subst hc
      exact traverse_error f e' hf t s h1
    | ok p =>
      obtain ⟨t1, s1⟩ := p
      simp only
      cases h2 : traverseL f s1 ts with
      | error e' =>
        intro hc; simp only [Except.error.injEq] at hc; subst hc
        exact traverseL_error f e' hf ts s1 h2
      | ok q => simp
end

end Proofs.Refs
