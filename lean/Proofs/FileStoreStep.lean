/-
  Helper lemmas for C04 (5): every transition of the model preserves the invariant; only `finish`
  changes the abstract history (it appends the staged transaction); reopening (index rebuilt by a
  forward scan of the file) gives back the same state.
-/
import Proofs.FileStoreBasic
import Proofs.FileStoreTid
namespace Proofs.FileStoreStep
open ZodbModel ZodbModel.FileStore
open Proofs.FileStoreBasic

theorem inv_init : Inv init := by
  refine ⟨trivial, rfl, fun _ => rfl, (fun kv hkv => by cases hkv), rfl, Nat.le_refl _, ?_⟩
  intro st h; simp [init] at h

/-! ### staging records -/

theorem stage_inv {s : FS} {st : Staged} {r : DRec} (h : Inv s) (hs : s.txn = some st)
    (hr : RecOk s.log st.tid r) : Inv (stage s st r) := by
  have hst := h.staged st hs
  refine ⟨h.log, h.pos, h.index, h.idxpos, h.ltid, h.ts, ?_⟩
  intro st' hst'
  simp only [stage, Option.some.injEq] at hst'
  subst hst'
  refine ⟨?_, hst.tid, hst.ts, hst.status, ?_⟩
  · intro r' hr'
    rcases List.mem_cons.1 hr' with rfl | hr'
    · exact hr
    · exact hst.recs r' hr'
  · show (r.oid, s.pos + recsSize st.recs + st.thl) :: st.tindex = _
    rw [hst.tindex]
    simp only [withPos, List.map_cons]
    congr 2
    show s.pos + recsSize st.recs + st.thl = s.pos + st.thl + recsSize st.recs
    omega

theorem stage_log (s : FS) (st : Staged) (r : DRec) : (stage s st r).log = s.log := rfl
theorem stage_txn (s : FS) (st : Staged) (r : DRec) :
    (stage s st r).txn = some { st with recs := r :: st.recs,
                                        tindex := (r.oid, s.pos + recsSize st.recs + st.thl) :: st.tindex } := rfl

/-- staging a list of records one after the other (the loop of `_txn_undo_write`) -/
def stageAll (s : FS) (rs : List DRec) : FS :=
  rs.foldl (fun s' r => match s'.txn with
                        | some st' => stage s' st' r
                        | none => s') s

theorem stageAll_inv {s : FS} {st : Staged} (rs : List DRec) (h : Inv s) (hs : s.txn = some st)
    (hr : ∀ r ∈ rs, RecOk s.log st.tid r) : Inv (stageAll s rs) := by
  induction rs generalizing s st with
  | nil => exact h
  | cons r rs ih =>
    simp only [stageAll, List.foldl_cons, hs]
    have h1 := stage_inv h hs (hr r List.mem_cons_self)
    exact ih (s := stage s st r) h1 (stage_txn s st r)
      (fun r' hr' => by rw [stage_log]; exact hr r' (List.mem_cons_of_mem _ hr'))

theorem stageAll_log (s : FS) (rs : List DRec) : (stageAll s rs).log = s.log := by
  induction rs generalizing s with
  | nil => rfl
  | cons r rs ih =>
    simp only [stageAll, List.foldl_cons]
    cases hs : s.txn with
    | none => exact ih s
    | some st => exact (ih (stage s st r)).trans (stage_log s st r)

/-! ### begin, store, delete -/

theorem lt_beginTid {s : FS} (h : FileStore.Inv s) (tid? : Option Nat) (now : Nat)
    (htid : match tid? with | some t => s.ltid < t | none => True) : s.ltid < beginTid s tid? now := by
  unfold beginTid
  cases tid? with
  | some t => exact htid
  | none =>
    have := Proofs.FileStoreTid.lt_newTid s.ts now
    have := h.ts
    simp only; omega

theorem begin_inv {s : FS} (h : FileStore.Inv s) (tid? : Option Nat) (now status : Nat) (u d e : Bytes)
    (hok : OpOk s (.begin tid? now status u d e)) : FileStore.Inv (begin s tid? now status u d e).1 := by
  unfold begin
  cases hs : s.txn with
  | some st => exact h
  | none =>
    have hlt := lt_beginTid h tid? now hok.2
    refine ⟨h.log, h.pos, h.index, h.idxpos, h.ltid, Nat.le_of_lt hlt, ?_⟩
    intro st' hst'
    simp only [Option.some.injEq] at hst'
    subst hst'
    exact ⟨(fun r hr => by cases hr), hlt, rfl, hok.1, rfl⟩

theorem store_inv {s : FS} (h : Inv s) (oid serial : Nat) (data : Bytes) (hd : data ≠ []) :
    Inv (store s oid serial data).1 := by
  unfold store
  cases hs : s.txn with
  | none => exact h
  | some st =>
    simp only
    split
    · exact h
    · exact stage_inv h hs ⟨rfl, by simp only; rw [h.index], hd⟩

theorem delete_inv {s : FS} (h : Inv s) (oid serial : Nat) : Inv (delete s oid serial).1 := by
  unfold delete
  cases hs : s.txn with
  | none => exact h
  | some st =>
    simp only
    split
    · exact h
    · split
      · exact h
      · exact stage_inv h hs ⟨rfl, by simp only; rw [h.index], Or.inl rfl⟩

/-! ### restore -/

theorem txnFind_some {tid : Nat} {log : Log} {t : FTxn} {older : Log}
    (h : txnFind tid log = some (t, older)) : ∃ newer, log = newer ++ t :: older ∧ t.tid = tid := by
  induction log with
  | nil => simp [txnFind] at h
  | cons t' log ih =>
    simp only [txnFind] at h
    split at h
    · split at h
      · injection h with h; injection h with h1 h2
        subst h1 h2
        exact ⟨[], rfl, by assumption⟩
      · obtain ⟨newer, h1, h2⟩ := ih h
        exact ⟨t' :: newer, by rw [h1]; rfl, h2⟩
    · simp at h

theorem txnFind_complete {tid : Nat} {log : Log} {t : FTxn} (ht : t ∈ log) (htid : t.tid = tid) :
    (txnFind tid log).isSome := by
  induction log with
  | nil => simp at ht
  | cons t' log ih =>
    have hge : 4 < logEnd (t' :: log) := by
      have := txn_size_ge t'; have := logEnd_ge log; simp only [logEnd]; omega
    simp only [txnFind, hge, if_true]
    split
    · rfl
    · rename_i hne
      rcases List.mem_cons.1 ht with rfl | ht
      · exact absurd htid hne
      · exact ih ht

theorem dataFind_ok {base : Nat} {recs : List DRec} {oid : Nat} {data : Option Bytes} {pp : Nat}
    (h : dataFind base recs oid data = .ok pp) (hne : pp ≠ 0) :
    ∃ r, lastRecIn base recs oid = some (r, pp) := by
  unfold dataFind at h
  cases hl : lastRecIn base recs oid with
  | none => simp [hl] at h; exact absurd h.symm hne
  | some rp =>
    obtain ⟨r, p⟩ := rp
    simp only [hl] at h
    cases hb : r.body with
    | back q =>
      simp only [hb] at h
      injection h with h; subst h
      exact ⟨r, rfl⟩
    | data d =>
      simp only [hb] at h
      cases data with
      | none => simp at h
      | some d' =>
        simp only at h
        split at h
        · injection h with h; exact absurd h.symm hne
        · split at h
          · injection h with h; subst h; exact ⟨r, rfl⟩
          · injection h with h; exact absurd h.symm hne

theorem restorePrevPos_valid {s : FS} {oid : Nat} {data : Option Bytes} {prevTxn : Option Nat} {p : Nat}
    (hp : restorePrevPos s oid data prevTxn = .ok p) (hne : p ≠ 0) :
    ∃ th, recAt s.log p = some th ∧ th.2.oid = oid := by
  unfold restorePrevPos at hp
  cases prevTxn with
  | none => simp at hp; exact absurd hp.symm hne
  | some pt =>
    simp only at hp
    cases hf : txnFind pt s.log with
    | none => simp [hf] at hp; exact absurd hp.symm hne
    | some to =>
      obtain ⟨t, older⟩ := to
      simp only [hf] at hp
      obtain ⟨r, hr⟩ := dataFind_ok hp hne
      obtain ⟨_, h2, h3, h4, h5⟩ := lastRecIn_some hr
      obtain ⟨newer, hlog, _⟩ := txnFind_some hf
      refine ⟨(t, r), ?_, h2⟩
      have hlt : p < logEnd (t :: older) := by
        have := size_ge r
        simp only [logEnd, FTxn.size, FTxn.tlen]; omega
      rw [hlog, recAt_append_of_lt newer hlt]
      have := hdrLen_ge t
      simp only [recAt]
      rw [if_pos (by omega), h5]; rfl

theorem restore_inv {s : FS} (h : FileStore.Inv s) (oid serial : Nat) (data : Option Bytes)
    (prevTxn : Option Nat) (hok : OpOk s (.restore oid serial data prevTxn)) :
    FileStore.Inv (restore s oid serial data prevTxn).1 := by
  obtain ⟨hser, hdat⟩ := hok
  unfold restore
  cases hs : s.txn with
  | none => exact h
  | some st =>
    simp only
    cases hpp : restorePrevPos s oid data prevTxn with
    | error e => exact h
    | ok p =>
      simp only
      apply stage_inv h hs
      refine ⟨hser st hs, by simp only; rw [h.index], ?_⟩
      unfold restoreBody
      by_cases hp : p = 0
      · simp only [hp, ne_eq, not_true_eq_false, if_false]
        cases data with
        | none => exact Or.inl rfl
        | some d => simp only; intro hd; exact hdat (by rw [hd])
      · simp only [ne_eq, hp, not_false_eq_true, if_true]
        exact Or.inr (restorePrevPos_valid hpp hp)

/-! ### undo -/

theorem undoRecord_some {s : FS} {st : Staged} {h : DRec} {pos back prev : Nat}
    (hu : undoRecord s st h pos = some (back, prev)) :
    prev = idxGet s.index h.oid ∧ (back = 0 ∨ (back = h.prev ∧ h.prev ≠ 0)) := by
  unfold undoRecord at hu
  simp only at hu
  split at hu
  · simp at hu
  · split at hu
    · injection hu with hu; injection hu with h1 h2
      exact ⟨h2.symm, Or.inl h1.symm⟩
    · split at hu
      · injection hu with hu; injection hu with h1 h2
        rename_i hne _
        exact ⟨h2.symm, Or.inr ⟨h1.symm, hne⟩⟩
      · simp at hu

theorem undoLoop_ok (s : FS) (st : Staged) (P : DRec → Prop) (l : List (DRec × Nat))
    (acc : List DRec × List Nat) (hacc : ∀ r ∈ acc.1, P r)
    (hstep : ∀ hp ∈ l, ∀ back prev, undoRecord s st hp.1 hp.2 = some (back, prev) →
      P ⟨hp.1.oid, st.tid, prev, .back back⟩) :
    ∀ r ∈ (undoLoop s st l acc).1, P r := by
  induction l generalizing acc with
  | nil => exact hacc
  | cons hp l ih =>
    obtain ⟨h', pos⟩ := hp
    obtain ⟨new, failures⟩ := acc
    simp only [undoLoop]
    cases hu : undoRecord s st h' pos with
    | none =>
      simp only
      exact ih _ hacc (fun x hx => hstep x (List.mem_cons_of_mem _ hx))
    | some bp =>
      obtain ⟨back, prev⟩ := bp
      simp only
      apply ih
      · intro r hr
        rcases List.mem_cons.1 hr with rfl | hr
        · exact hstep (h', pos) List.mem_cons_self back prev hu
        · exact hacc r hr
      · exact fun x hx => hstep x (List.mem_cons_of_mem _ hx)

theorem undo_eq_stageAll (s : FS) (tid : Nat) :
    (undo s tid).1 = s ∨
    ∃ st t older, s.txn = some st ∧ txnFind tid s.log = some (t, older) ∧
      (undo s tid).1 = stageAll s
        (undoLoop s st (withPos (logEnd older + t.hdrLen) t.recs).reverse ([], [])).1.reverse := by
  unfold undo
  cases hs : s.txn with
  | none => exact Or.inl rfl
  | some st =>
    simp only
    cases hf : txnFind tid s.log with
    | none => exact Or.inl rfl
    | some to =>
      obtain ⟨t, older⟩ := to
      simp only
      split
      · exact Or.inl rfl
      · cases hl : undoLoop s st (withPos (logEnd older + t.hdrLen) t.recs).reverse ([], []) with
        | mk new failures =>
          cases failures with
          | nil => exact Or.inr ⟨st, t, older, rfl, rfl, by rw [hl]; rfl⟩
          | cons f fs => exact Or.inl rfl

theorem undo_inv {s : FS} (h : Inv s) (tid : Nat) : Inv (undo s tid).1 := by
  rcases undo_eq_stageAll s tid with he | ⟨st, t, older, hs, hf, he⟩
  · rw [he]; exact h
  · rw [he]
    obtain ⟨newer, hlog, _⟩ := txnFind_some hf
    have htlog : t ∈ s.log := by rw [hlog]; simp
    -- the invariant of the part of the log that starts at `t`
    have hsub : LogInv (t :: older) := by
      have := h.log
      rw [hlog] at this
      clear hlog
      induction newer with
      | nil => exact this
      | cons x newer ih => exact ih this.2.2.2
    apply stageAll_inv _ h hs
    intro r hr
    rw [List.mem_reverse] at hr
    refine undoLoop_ok s st (RecOk s.log st.tid) _ ([], []) (by intro r hr; cases hr) ?_ r hr
    intro hp hmem back prev hu
    obtain ⟨h', pos⟩ := hp
    obtain ⟨hprev, hback⟩ := undoRecord_some hu
    obtain ⟨hin, _, _⟩ := mem_withPos (List.mem_reverse.1 hmem)
    refine ⟨rfl, by simp only; rw [hprev, h.index], ?_⟩
    simp only
    rcases hback with h0 | ⟨hb, hne⟩
    · exact Or.inl h0
    · right
      have hpre := (hsub.2.1 h' hin).2.1
      rw [hpre] at hne
      obtain ⟨th, h1, h2⟩ := lastPos_recAt hne
      refine ⟨th, ?_, h2⟩
      have hlt : lastPos h'.oid older < logEnd older := lastPos_lt _ _
      rw [hb, hpre, hlog, recAt_append_of_lt newer (by simp only [logEnd]; omega),
        recAt_cons_of_lt hlt]
      exact h1

/-! ### vote, finish, abort -/

theorem vote_inv {s : FS} (h : Inv s) : Inv (vote s).1 := by
  unfold vote
  cases hs : s.txn with
  | none => exact h
  | some st =>
    have hst := h.staged st hs
    refine ⟨h.log, h.pos, h.index, h.idxpos, h.ltid, h.ts, ?_⟩
    intro st' hst'
    simp only [Option.some.injEq] at hst'
    subst hst'
    exact ⟨hst.recs, hst.tid, hst.ts, hst.status, hst.tindex⟩

theorem abort_inv {s : FS} (h : Inv s) : Inv (abort s).1 := by
  refine ⟨h.log, h.pos, h.index, h.idxpos, h.ltid, h.ts, ?_⟩
  intro st hst; simp [abort] at hst

theorem finish_inv {s : FS} (h : Inv s) : Inv (finish s).1 := by
  unfold finish
  cases hs : s.txn with
  | none => exact h
  | some st =>
    have hst := h.staged st hs
    simp only
    split
    · refine ⟨⟨?_, hst.recs, hst.status, h.log⟩, ?_, ?_, ?_, rfl, ?_, ?_⟩
      · intro t' ht'
        have := tid_le_lastTid h.log ht'
        have := h.ltid
        have := hst.tid
        show t'.tid < st.tid
        omega
      · show s.pos + st.toTxn.size = logEnd (st.toTxn :: s.log)
        rw [h.pos]; rfl
      · intro oid
        show idxGet (st.tindex ++ s.index) oid = lastPos oid (st.toTxn :: s.log)
        rw [hst.tindex, idxGet_withPos_append, h.pos]
        simp only [lastPos, h.index]
        rfl
      · intro kv hkv
        have hkv' : kv ∈ st.tindex ++ s.index := hkv
        rcases List.mem_append.1 hkv' with hk | hk
        · rw [hst.tindex] at hk
          obtain ⟨rp, hrp, rfl⟩ := List.mem_map.1 hk
          have := (mem_withPos (r := rp.1) (p := rp.2) hrp).2.2
          have hthl : 23 ≤ st.thl := by unfold Staged.thl; omega
          simp only; omega
        · exact h.idxpos kv hk
      · show st.tid ≤ s.ts
        rw [hst.ts]; exact Nat.le_refl _
      · intro st' hst'; simp at hst'
    · exact h

/-! ### reopen: the index rebuilt by a forward scan -/

theorem withPos_append_singleton (base : Nat) (a : List DRec) (r : DRec) :
    withPos base (a ++ [r]) = (withPos (base + r.size) a) ++ [(r, base)] := by
  induction a with
  | nil => simp [withPos, recsSize]
  | cons x a ih =>
    simp only [List.cons_append, withPos, ih, recsSize_append, recsSize]
    congr 2
    omega

theorem scanRecs_eq (ix : Index) (pos : Nat) (l : List DRec) :
    scanRecs ix pos l =
      ((withPos pos l.reverse).map (fun rp => (rp.1.oid, rp.2)) ++ ix, pos + recsSize l.reverse) := by
  induction l generalizing ix pos with
  | nil => simp [scanRecs, withPos, recsSize]
  | cons r l ih =>
    simp only [scanRecs, ih, List.reverse_cons, withPos_append_singleton, List.map_append, List.map_cons,
      List.map_nil, List.append_assoc, List.singleton_append, recsSize_append, recsSize]
    congr 1
    omega

/-- the index as the scan builds it: per transaction, the offsets of its records, newest first -/
def rebuild : Log → Index
  | [] => []
  | t :: older =>
    (withPos (logEnd older + t.hdrLen) t.recs).map (fun rp => (rp.1.oid, rp.2)) ++ rebuild older

theorem readIndex_cons (t : FTxn) (older : Log) :
    readIndex (t :: older) = scanTxn (readIndex older) t := by
  unfold readIndex
  rw [List.reverse_cons, List.foldl_append]
  rfl

theorem readIndex_eq (log : Log) : readIndex log = (rebuild log, logEnd log, lastTid log) := by
  induction log with
  | nil => rfl
  | cons t older ih =>
    rw [readIndex_cons, ih]
    simp only [scanTxn, scanRecs_eq, List.reverse_reverse, List.append_nil, rebuild, logEnd, FTxn.size,
      FTxn.tlen, lastTid, List.head?_cons, Option.map_some, Option.getD_some]
    congr 2
    omega

theorem idxGet_rebuild (log : Log) (oid : Nat) : idxGet (rebuild log) oid = lastPos oid log := by
  induction log with
  | nil => rfl
  | cons t older ih =>
    rw [rebuild, idxGet_withPos_append, ih]; rfl

theorem rebuild_pos (log : Log) : ∀ kv ∈ rebuild log, kv.2 ≠ 0 := by
  induction log with
  | nil => intro kv hkv; cases hkv
  | cons t older ih =>
    intro kv hkv
    simp only [rebuild] at hkv
    rcases List.mem_append.1 hkv with hk | hk
    · obtain ⟨rp, hrp, rfl⟩ := List.mem_map.1 hk
      have := (mem_withPos (r := rp.1) (p := rp.2) hrp).2.2
      have := hdrLen_ge t
      simp only; omega
    · exact ih kv hk

theorem reopen_inv {s : FS} (h : Inv s) : Inv (reopen s) := by
  unfold reopen
  simp only [readIndex_eq]
  refine ⟨h.log, rfl, idxGet_rebuild s.log, rebuild_pos s.log, rfl, Nat.le_refl _, ?_⟩
  intro st hst; simp at hst

/-! ### all steps -/

theorem step_inv {s : FS} (h : Inv s) (op : Op) (hok : OpOk s op) : Inv (step s op).1 := by
  cases op with
  | begin tid? now status u d e => exact begin_inv h tid? now status u d e hok
  | store oid serial data => exact store_inv h oid serial data hok
  | delete oid serial => exact delete_inv h oid serial
  | restore oid serial data prevTxn => exact restore_inv h oid serial data prevTxn hok
  | undo tid => exact undo_inv h tid
  | vote => exact vote_inv h
  | finish => exact finish_inv h
  | abort => exact abort_inv h
  | reopen => exact reopen_inv h

/-- the committed log after a step: unchanged, except that a successful `finish` puts the staged
    transaction on top -/
theorem step_log (s : FS) (op : Op) :
    (step s op).1.log = s.log ∨
    ∃ st, op = .finish ∧ s.txn = some st ∧ st.voted = true ∧ (step s op).1.log = st.toTxn :: s.log := by
  cases op with
  | begin tid? now status u d e =>
    left; simp only [step, begin]
    cases s.txn <;> rfl
  | store oid serial data =>
    left; simp only [step, store]
    cases s.txn with
    | none => rfl
    | some st => simp only; split <;> rfl
  | delete oid serial =>
    left; simp only [step, delete]
    cases s.txn with
    | none => rfl
    | some st =>
      simp only
      split
      · rfl
      · split <;> rfl
  | restore oid serial data prevTxn =>
    left; simp only [step, restore]
    cases s.txn with
    | none => rfl
    | some st => simp only; split <;> rfl
  | undo tid =>
    left
    rcases undo_eq_stageAll s tid with he | ⟨st, t, older, _, _, he⟩
    · simp only [step, he]
    · simp only [step, he, stageAll_log]
  | vote =>
    left; simp only [step, vote]
    cases s.txn <;> rfl
  | finish =>
    simp only [step, finish]
    cases hs : s.txn with
    | none => left; rfl
    | some st =>
      simp only
      cases hv : st.voted with
      | false => left; rfl
      | true => right; exact ⟨st, by simp [hv]⟩
  | abort => left; rfl
  | reopen => left; rfl

end Proofs.FileStoreStep
