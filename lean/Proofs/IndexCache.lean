/-
  Helper lemmas for C09: index-file framing (round trip, truncation), the scan continued from a
  saved position, what `_check_sanity` can return for an index saved earlier, open with = open
  without, side files, read-only sessions.  Core Lean only.
-/
import ZodbModel.IndexCache
import Proofs.FormatScan
import Proofs.Disk
namespace Proofs.IndexCache
open ZodbModel ZodbModel.Format ZodbModel.Disk ZodbModel.IndexCache Proofs.Format Proofs.Disk

/-! ### frames -/

theorem frame_length (p : Bytes) : (frame p).length = 4 + p.length := by
  simp [frame, be_length]

theorem readFrame_frame (p rest : Bytes) (hp : p.length < 2 ^ 32) :
    readFrame (frame p ++ rest) = some (p, rest) := by
  have h4 : (frame p ++ rest).take 4 = be 4 p.length := by
    simp only [frame, List.append_assoc]; exact take_append_eq (be_length 4 _)
  have hd : (frame p ++ rest).drop 4 = p ++ rest := by
    simp only [frame, List.append_assoc]; exact drop_append_eq (be_length 4 _)
  unfold readFrame
  rw [if_neg (by simp [frame_length]; omega)]
  simp only [h4, hd, beVal_be 4 p.length (by simpa using hp)]
  rw [if_neg (by simp)]
  simp

/-- a strict byte-prefix of a frame is not a frame -/
theorem readFrame_short (p : Bytes) (hp : p.length < 2 ^ 32) (k : Nat) (hk : k < (frame p).length) :
    readFrame ((frame p).take k) = none := by
  rw [frame_length] at hk
  unfold readFrame
  by_cases h4 : k < 4
  · rw [if_pos (by simp [frame_length]; omega)]
  · rw [if_neg (by simp [frame_length]; omega)]
    have h1 : ((frame p).take k).take 4 = be 4 p.length := by
      rw [take_take_le _ (by omega)]; exact take_append_eq (be_length 4 _)
    have h2 : (((frame p).take k).drop 4).length = k - 4 := by
      simp [frame_length]; omega
    simp only [h1, h2, beVal_be 4 p.length (by simpa using hp)]
    rw [if_pos (by omega)]

/-- cutting a stream inside its first frame -/
theorem take_frame_append (p rest : Bytes) (k : Nat) :
    (frame p ++ rest).take k =
      if k < (frame p).length then (frame p).take k
      else frame p ++ rest.take (k - (frame p).length) := by
  split
  · rename_i h; rw [List.take_append_of_le_length (by omega)]
  · rename_i h; rw [List.take_append]; rw [List.take_of_length_le (by omega)]

/-! ### index file round trip and truncation -/

def IndexWF (ix : Index) : Prop := ∀ kv ∈ ix, kv.1 < 2 ^ 64 ∧ kv.2 < 2 ^ 64

theorem entry_payload_length (kv : Nat × Nat) : (1 :: (be 8 kv.1 ++ be 8 kv.2)).length = 17 := by
  simp [be_length]

theorem loadEntries_save (ix : Index) (hw : IndexWF ix) (junk : Bytes) :
    ∀ f, ix.length < f → loadEntries f (ix.flatMap entryFrame ++ (frame [2] ++ junk)) = some ix := by
  induction ix with
  | nil =>
    intro f hf
    cases f with
    | zero => omega
    | succ f =>
      simp only [List.flatMap_nil, List.nil_append, loadEntries]
      rw [readFrame_frame _ _ (by simp)]
      rfl
  | cons kv ix ih =>
    intro f hf
    cases f with
    | zero => omega
    | succ f =>
      have hkv := hw kv List.mem_cons_self
      simp only [List.flatMap_cons, List.append_assoc, loadEntries, entryFrame]
      rw [readFrame_frame _ _ (by rw [entry_payload_length]; omega)]
      simp only [List.length_append, be_length]
      rw [ih (fun x hx => hw x (List.mem_cons_of_mem _ hx)) f (by simp at hf; omega)]
      simp [take_append_eq (be_length 8 kv.1), drop_append_eq (be_length 8 kv.1),
        beVal_be 8 kv.1 (by simpa using hkv.1), beVal_be 8 kv.2 (by simpa using hkv.2)]

theorem entries_length_ge (ix : Index) : ix.length ≤ (ix.flatMap entryFrame).length := by
  induction ix with
  | nil => simp
  | cons kv ix ih =>
    simp only [List.flatMap_cons, List.length_append, List.length_cons, entryFrame, frame_length]
    omega

theorem loadIndex_save (pos : Nat) (ix : Index) (hp : pos < 2 ^ 72) (hw : IndexWF ix) :
    loadIndex (saveBytes pos ix) = some (pos, ix) := by
  unfold loadIndex saveBytes
  rw [readFrame_frame _ _ (by simp [be_length])]
  simp only [be_length]
  have := loadEntries_save ix hw [] ((ix.flatMap entryFrame ++ frame [2]).length + 1)
    (by have := entries_length_ge ix; simp only [List.length_append]; omega)
  rw [List.append_nil] at this
  rw [this]
  simp [beVal_be 9 pos (by simpa using hp)]

theorem loadEntries_trunc (ix : Index) :
    ∀ (f k : Nat), k < (ix.flatMap entryFrame ++ frame [2]).length →
      loadEntries f ((ix.flatMap entryFrame ++ frame [2]).take k) = none := by
  induction ix with
  | nil =>
    intro f k hk
    cases f with
    | zero => rfl
    | succ f =>
      simp only [List.flatMap_nil, List.nil_append] at *
      simp only [loadEntries, readFrame_short [2] (by simp) k hk]
  | cons kv ix ih =>
    intro f k hk
    cases f with
    | zero => rfl
    | succ f =>
      simp only [List.flatMap_cons, List.append_assoc, loadEntries, entryFrame] at *
      rw [take_frame_append]
      by_cases h : k < (frame (1 :: (be 8 kv.1 ++ be 8 kv.2))).length
      · rw [if_pos h, readFrame_short _ (by rw [entry_payload_length]; omega) k h]
      · rw [if_neg h, readFrame_frame _ _ (by rw [entry_payload_length]; omega)]
        simp only [List.length_append, be_length]
        rw [ih f _ (by simp only [List.length_append] at hk ⊢; omega)]
        simp

/-- every strict byte-prefix of a saved index file (including the empty file) fails to load -/
theorem loadIndex_trunc (pos : Nat) (ix : Index) (k : Nat) (hk : k < (saveBytes pos ix).length) :
    loadIndex ((saveBytes pos ix).take k) = none := by
  unfold loadIndex saveBytes at *
  rw [take_frame_append]
  by_cases h : k < (frame (0 :: be 9 pos)).length
  · rw [if_pos h, readFrame_short _ (by simp [be_length]) k h]
  · rw [if_neg h, readFrame_frame _ _ (by simp [be_length])]
    simp only [be_length]
    rw [loadEntries_trunc ix _ _ (by simp only [List.length_append] at hk ⊢; omega)]
    simp

/-! ### the index of a well-formed file holds 64-bit numbers -/

theorem idxSet_wf (k v : Nat) (ix : Index) (h : IndexWF ix) (hk : k < 2 ^ 64) (hv : v < 2 ^ 64) :
    IndexWF (idxSet k v ix) := by
  induction ix with
  | nil => intro kv hkv; simp [idxSet] at hkv; subst hkv; exact ⟨hk, hv⟩
  | cons x t ih =>
    obtain ⟨k', v'⟩ := x
    have ht : IndexWF t := fun y hy => h y (List.mem_cons_of_mem _ hy)
    simp only [idxSet]
    split
    · intro kv hkv
      rcases List.mem_cons.1 hkv with rfl | hkv
      · exact ⟨hk, hv⟩
      · exact h kv hkv
    · split
      · intro kv hkv
        rcases List.mem_cons.1 hkv with rfl | hkv
        · exact ⟨hk, hv⟩
        · exact ht kv hkv
      · intro kv hkv
        rcases List.mem_cons.1 hkv with rfl | hkv
        · exact h _ List.mem_cons_self
        · exact ih ht kv hkv

theorem applyRecs_wf (precs : List (Nat × FRec)) : ∀ (ix : Index), IndexWF ix →
    (∀ pr ∈ precs, pr.1 < 2 ^ 64 ∧ pr.2.oid < 2 ^ 64) → IndexWF (applyRecs ix precs) := by
  induction precs with
  | nil => intro ix h _; exact h
  | cons pr precs ih =>
    intro ix h hp
    have h1 := hp pr List.mem_cons_self
    simp only [applyRecs, List.foldl_cons]
    exact ih _ (idxSet_wf _ _ _ h h1.2 h1.1) (fun x hx => hp x (List.mem_cons_of_mem _ hx))

theorem withPos_bound (rs : List FRec) : ∀ (p : Nat), ∀ pr ∈ withPos p rs,
    pr.1 < p + recsLen rs ∧ pr.2 ∈ rs := by
  induction rs with
  | nil => intro p pr h; simp [withPos] at h
  | cons r rs ih =>
    intro p pr h
    have hl := rec_len_pos r
    simp only [withPos, List.mem_cons] at h
    simp only [recsLen, List.map_cons, List.sum_cons]
    rcases h with rfl | h
    · exact ⟨by simp only []; omega, List.mem_cons_self⟩
    · have := ih _ pr h
      simp only [recsLen] at this
      exact ⟨by omega, List.mem_cons_of_mem _ this.2⟩

theorem indexFrom_wf (ts : List FTxn) : ∀ (ix : Index) (pos : Nat), IndexWF ix → TxnsWF pos ts →
    IndexWF (indexFrom ix pos ts) := by
  induction ts with
  | nil => intro ix _ h _; exact h
  | cons t ts ih =>
    intro ix pos h hw
    simp only [indexFrom]
    refine ih _ _ (applyRecs_wf _ _ h ?_) hw.2
    intro pr hpr
    have hb := withPos_bound t.recs _ pr hpr
    obtain ⟨_, _, _, _, _, _, _, h8, h9⟩ := hw.1
    refine ⟨?_, (h9 _ hb.2).1⟩
    have := hb.1
    simp only [FTxn.tlen] at h8
    omega

theorem indexOf_wf (cs : List FTxn) (hw : FileWF cs) : IndexWF (indexOf cs) :=
  indexFrom_wf cs [] 4 (fun _ h => by simp at h) hw

theorem sum_bound (cs : List FTxn) : ∀ (pos : Nat), TxnsWF pos cs → cs ≠ [] →
    pos + (cs.map fun t => t.tlen + 8).sum < 2 ^ 64 + 8 := by
  induction cs with
  | nil => intro _ _ h; exact absurd rfl h
  | cons t ts ih =>
    intro pos h _
    have h8 := h.1.2.2.2.2.2.2.2.1
    simp only [List.map_cons, List.sum_cons]
    cases ts with
    | nil => simp; omega
    | cons t' ts' =>
      have := ih _ h.2 (by simp)
      omega

theorem fileLen_lt (cs : List FTxn) (hw : FileWF cs) : (encodeFile cs).length < 2 ^ 72 := by
  rw [← filePos_eq cs hw]
  cases cs with
  | nil => simp [filePos]
  | cons t ts =>
    have := sum_bound (t :: ts) 4 hw (by simp)
    simp only [filePos]
    omega

end Proofs.IndexCache
