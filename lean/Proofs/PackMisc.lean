/-
  Helper lemmas for C07, part 6: soundness of the executable hypothesis checks, fuel.
-/
import Proofs.PackMapping
set_option linter.unusedSimpArgs false
namespace Proofs.Pack
open ZodbModel ZodbModel.Pack

/-! ### the executable NoResurrection test is sound -/

theorem reachListAt_sound {h : History} {b : Tid} {L : List Oid} (hL : reachListAt h b = some L)
    (o : Oid) : o ∈ L ↔ ReachableAt h b o := Reach.closure_eq_reachable hL o

theorem noResurrectionB_sound {h : History} {T : Tid} (hb : noResurrectionB h T true = true) :
    NoResurrection h T := by
  unfold noResurrectionB at hb
  split at hb
  · cases hb
  · rename_i L hL
    intro t ht hgt r hr hd o ho
    rw [List.all_eq_true] at hb
    have h1 := hb t ht
    simp only [Bool.or_eq_true, Bool.not_eq_true', decide_eq_false_iff_not] at h1
    rcases h1 with h1 | h1
    · exact absurd hgt h1
    · rw [List.all_eq_true] at h1
      have h2 := h1 r hr
      simp only [Bool.or_eq_true, Bool.not_eq_true'] at h2
      rcases h2 with h2 | h2
      · rw [h2] at hd; cases hd
      · rw [List.all_eq_true] at h2
        have h3 := h2 o ho
        simp only [Bool.or_eq_true, if_true] at h3
        rcases h3 with h3 | h3
        · left
          exact (reachListAt_sound hL o).1 (by simpa using h3)
        · right
          rw [List.any_eq_true] at h3
          obtain ⟨t', ht', h4⟩ := h3
          simp only [Bool.and_eq_true, decide_eq_true_eq] at h4
          exact ⟨t', ht', h4.1.1, h4.1.2, h4.2⟩

theorem noResurrectionWeakB_sound {h : History} {T : Tid} (hb : noResurrectionB h T false = true) :
    NoResurrectionWeak h T := by
  unfold noResurrectionB at hb
  split at hb
  · cases hb
  · rename_i L hL
    intro t ht hgt r hr hd o ho
    rw [List.all_eq_true] at hb
    have h1 := hb t ht
    simp only [Bool.or_eq_true, Bool.not_eq_true', decide_eq_false_iff_not] at h1
    rcases h1 with h1 | h1
    · exact absurd hgt h1
    · rw [List.all_eq_true] at h1
      have h2 := h1 r hr
      simp only [Bool.or_eq_true, Bool.not_eq_true'] at h2
      rcases h2 with h2 | h2
      · rw [h2] at hd; cases hd
      · rw [List.all_eq_true] at h2
        have h3 := h2 o ho
        simp only [Bool.or_eq_true, Bool.false_eq_true, if_false] at h3
        rcases h3 with h3 | h3
        · left
          exact (reachListAt_sound hL o).1 (by simpa using h3)
        · right; exact h3

/-- decidable form of `BackOK` -/
def backOKB (h : History) : Bool :=
  h.all fun t => t.recs.all fun r =>
    match r.back with
    | none => true
    | some bt => decide (bt < t.tid) && h.any fun t' => t'.tid == bt &&
        (match t'.recOf r.oid with
         | some r' => r'.data == r.data && r'.dlen == r.dlen
         | none => false)

theorem backOKB_sound {h : History} (hb : backOKB h = true) : BackOK h := by
  intro t ht r hr bt hbk
  unfold backOKB at hb
  rw [List.all_eq_true] at hb
  have h1 := hb t ht
  rw [List.all_eq_true] at h1
  have h2 := h1 r hr
  rw [hbk] at h2
  simp only [Bool.and_eq_true, decide_eq_true_eq, List.any_eq_true, beq_iff_eq] at h2
  obtain ⟨hlt, t', ht', etid, hm⟩ := h2
  refine ⟨hlt, t', ht', etid, ?_⟩
  split at hm
  · rename_i r' hr'
    simp only [Bool.and_eq_true, beq_iff_eq] at hm
    exact ⟨r', hr', hm.1, hm.2⟩
  · cases hm

/-- decidable form of `Sorted` -/
def sortedB : History → Bool
  | [] => true
  | t :: rest => rest.all (fun t' => decide (t.tid < t'.tid)) && sortedB rest

theorem sortedB_sound : ∀ {h : History}, sortedB h = true → Sorted h := by
  intro h
  induction h with
  | nil => intro _; exact List.Pairwise.nil
  | cons t rest ih =>
    intro hb
    simp only [sortedB, Bool.and_eq_true, List.all_eq_true, decide_eq_true_eq] at hb
    exact List.Pairwise.cons hb.1 (ih hb.2)

/-! ### the fuel handed to the search always suffices -/

theorem mem_allOids_of_ref {h : History} {t : Txn} (ht : t ∈ h) {r : Rec} (hr : r ∈ t.recs)
    {o : Oid} (ho : o ∈ r.refs) : o ∈ allOids h := by
  unfold allOids
  refine List.mem_cons_of_mem _ (List.mem_flatMap.2 ⟨t, ht, List.mem_flatMap.2 ⟨r, hr, ?_⟩⟩)
  exact List.mem_cons_of_mem _ ho

theorem refsAtT_subset {h pre : History} (hsub : ∀ t ∈ pre, t ∈ h) (o : Oid) :
    ∀ o' ∈ refsAtT pre o, o' ∈ allOids h := by
  intro o' ho'
  unfold refsAtT at ho'
  split at ho'
  · rename_i t r hc
    split at ho'
    · obtain ⟨tx, htx, _, hro⟩ := mem_recsOf (lastRec_mem (curAt_lastRec hc))
      exact mem_allOids_of_ref (hsub tx htx) (recOf_mem hro).1 ho'
    · simp at ho'
  · simp at ho'

theorem addMarks_ne_fuel {pre : History} : ∀ (fresh : List Oid) (reach : List (Oid × Tid)),
    addMarks pre reach fresh ≠ .error .fuel := by
  intro fresh
  induction fresh with
  | nil => intro reach; simp [addMarks]
  | cons o rest ih =>
    intro reach
    simp only [addMarks]
    split
    · exact ih _
    · split
      · exact ih _
      · simp

theorem mark_ne_fuel {h pre : History} (hsub : ∀ t ∈ pre, t ∈ h) {reach : List (Oid × Tid)}
    {roots : List Oid} (hroots : ∀ o ∈ roots, o ∈ allOids h) :
    mark pre (allOids h) reach roots ≠ .error .fuel := by
  unfold mark
  simp only
  have := Reach.closure_fuelFor_isSome (refsAtT pre) (allOids h) (reach.map (·.1)) roots
    (fun o _ o' ho' => refsAtT_subset hsub o o' ho') hroots
  obtain ⟨S, hS⟩ := Option.isSome_iff_exists.1 this
  rw [hS]
  exact addMarks_ne_fuel _ _

theorem markAll_ne_fuel {h pre : History} (hsub : ∀ t ∈ pre, t ∈ h) :
    ∀ {exs : List (Oid × Tid)} {reach : List (Oid × Tid)},
      markAll pre (allOids h) reach exs ≠ .error .fuel := by
  intro exs
  induction exs with
  | nil => intro reach; simp [markAll]
  | cons c rest ih =>
    intro reach
    obtain ⟨o, bt⟩ := c
    simp only [markAll]
    have hroots : ∀ o' ∈ (match recAt pre bt o with
        | some r => if r.data.isSome then r.refs else []
        | none => []), o' ∈ allOids h := by
      intro o' ho'
      split at ho'
      · rename_i r hra
        split at ho'
        · unfold recAt at hra
          cases hf : pre.find? (fun t' => t'.tid == bt) with
          | none => rw [hf] at hra; simp at hra
          | some tx =>
            rw [hf] at hra
            simp only [Option.bind_some] at hra
            exact mem_allOids_of_ref (hsub tx (List.mem_of_find?_eq_some hf)) (recOf_mem hra).1 ho'
        · simp at ho'
      · simp at ho'
    split
    · rename_i e he
      intro hc
      injection hc with hc
      subst hc
      exact mark_ne_fuel hsub hroots he
    · exact ih

theorem packFS_ne_fuel (h : History) (T : Tid) (gc : Bool) : packFS h T gc ≠ .error .fuel := by
  have hsub : ∀ t ∈ preOf h T, t ∈ h := fun t ht => List.takeWhile_subset _ ht
  have h0 : ∀ o ∈ [0], o ∈ allOids h := by
    intro o ho; simp at ho; subst ho; exact List.mem_cons_self ..
  have hfr : ∀ e, findReachable (preOf h T) (postOf h T) T gc (allOids h) = .error e → e ≠ .fuel := by
    intro e he
    unfold findReachable at he
    split at he
    · split at he
      · rename_i e1 h1
        injection he with he; subst he
        intro hc; subst hc
        exact mark_ne_fuel hsub h0 h1
      · simp only at he
        split at he
        · rename_i e3 h3
          injection he with he; subst he
          intro hc; subst hc
          exact markAll_ne_fuel hsub h3
        · cases he
    · cases he
  unfold packFS
  simp only
  split
  · simp
  · split
    · simp
    · split
      · rename_i e he
        intro hc; injection hc with hc
        exact hfr e he hc
      · split
        · simp
        · split
          · rename_i e he
            intro hc; injection hc with hc
            subst hc
            -- copyRest never reports `fuel`
            have : ∀ (post out : History), copyRest out post ≠ .error .fuel := by
              intro post
              induction post with
              | nil => intro out; simp [copyRest]
              | cons t rest ih =>
                intro out
                simp only [copyRest]
                split
                · rename_i e' he'
                  intro hc; injection hc with hc; subst hc
                  unfold copyTxn at he'
                  split at he'
                  · rename_i e'' he''
                    injection he' with he'; subst he'
                    have : ∀ (rs : List Rec), copyRecs out rs ≠ .error .fuel := by
                      intro rs
                      induction rs with
                      | nil => simp [copyRecs]
                      | cons r rs ihr =>
                        simp only [copyRecs]
                        split
                        · rename_i e3 he3
                          intro hc; injection hc with hc; subst hc
                          unfold copyRec at he3
                          split at he3
                          · cases he3
                          · split at he3
                            · cases he3
                            · split at he3
                              · cases he3
                              · split at he3
                                · cases he3
                                · split at he3
                                  · cases he3
                                  · split at he3 <;> cases he3
                        · split
                          · rename_i e4 he4
                            intro hc; injection hc with hc; subst hc
                            exact ihr he4
                          · simp
                    exact this _ he''
                  · cases he'
                · exact ih _
            exact this _ _ he
          · simp

end Proofs.Pack
