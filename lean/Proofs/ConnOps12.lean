/-
  Connection model, part 15 (C12): every program step keeps the invariant `Inv12`
  (savepoint, rollback, abort, commit with savepoints).
-/
import Proofs.ConnAbort12
namespace Proofs.Conn
open ZodbModel ZodbModel.Conn

/-- `Inv12` does not look at `fail`, `nstores`, `begun`, `modified`, `staged`, `log`, `d2`; the list of
    savepoints may be replaced by any list that satisfies the savepoint clauses -/
theorem Inv12.transfer {s s' : State} (h : Inv12 s) (ho : s'.objs = s.objs) (hc : s'.cache = s.cache)
    (ha : s'.added = s.added) (hn : s'.nextOid = s.nextOid) (hsp : s'.sp = s.sp)
    (hcr : s'.creating = s.creating) (hsn : s'.snap = s.snap) (hcm : s'.committed = s.committed)
    (hlt : s'.lastTid = s.lastTid) (hop : s'.opened = s.opened) (hreg : s'.registered = s.registered)
    (hntj : s'.needsToJoin = s.needsToJoin)
    (h1 : ∀ t, s.sp = some t → ∀ p idx cr, SpEntry.real p idx cr ∈ s'.sps → EntryWF s.committed t p idx cr)
    (h2 : s.sp = none → ∀ p idx cr, SpEntry.real p idx cr ∉ s'.sps)
    (h3 : s'.sps.Pairwise entryLe)
    (h4 : s.needsToJoin = false → SpEntry.abortSp false ∉ s'.sps) : Inv12 s' := by
  have hl : ∀ k, loadRec s' k = loadRec s k := by
    intro k; unfold loadRec; rw [hsp, hsn]
  obtain ⟨f1, f2⟩ := h.frame (s' := s') hc hcm hsp (by
    intro t ht k i hk hi; rw [ho]; exact (h.tmp t ht).crSerial k i hk hi)
  refine ⟨h.str.congr ho hc ha hn, by rw [hcr]; exact h.creatingNil, by rw [hop]; exact h.opened,
    by rw [hsn, hcm]; exact h.snapEq, by rw [hreg, ho]; exact h.regOid,
    by rw [hreg, ho, ha]; exact h.regStatus, by rw [ha, hreg]; exact h.addedReg,
    by rw [ho, hreg]; exact h.changedReg, by rw [hntj, hreg, ha, hsp]; exact h.idle,
    by rw [ho]; exact h.serial0, by rw [ha, ho]; exact h.addedSerial,
    by rw [hcm, hn]; exact h.commFresh, by rw [ha, hcm]; exact h.addedUncommitted,
    by rw [hcm, hlt]; exact h.tidB, ?_, f1, f2, by rw [hsp, hcm]; exact h1, by rw [hsp]; exact h2, h3,
    by rw [hntj]; exact h4⟩
  intro k i hci
  rw [hc] at hci
  rw [hl, ho]
  exact h.coh k i hci

theorem Inv12.same {s s' : State} (h : Inv12 s) (ho : s'.objs = s.objs) (hc : s'.cache = s.cache)
    (ha : s'.added = s.added) (hn : s'.nextOid = s.nextOid) (hsp : s'.sp = s.sp)
    (hcr : s'.creating = s.creating) (hsn : s'.snap = s.snap) (hcm : s'.committed = s.committed)
    (hlt : s'.lastTid = s.lastTid) (hop : s'.opened = s.opened) (hreg : s'.registered = s.registered)
    (hntj : s'.needsToJoin = s.needsToJoin) (hsps : s'.sps = s.sps) : Inv12 s' :=
  h.transfer ho hc ha hn hsp hcr hsn hcm hlt hop hreg hntj (by rw [hsps]; exact h.spsReal)
    (by rw [hsps]; exact h.spsNone) (by rw [hsps]; exact h.spsOrder) (by rw [hsps]; exact h.spsFlag)

/-! ### `transaction.abort()` -/

theorem Inv12.abort_joined {s : State} (h : Inv12 s) : Inv12 (afterCompletion (connAbort s)) := by
  have hd := connAbort_done h.abortReady
  apply abortDone_afterCompletion h.abortReady hd
  rw [hd.clean.2.opened]; exact h.opened

theorem afterCompletion_inv12 {s : State} (h : Inv12 s) (hn : s.needsToJoin = true) :
    Inv12 (afterCompletion s) := by
  obtain ⟨h1, h2, h3⟩ := h.idle hn
  have hi := afterCompletion_inv11 (h.toInv11 h3) hn
  have he : afterCompletion { s with sps := [] } = afterCompletion s := rfl
  rw [he] at hi
  apply hi.toInv12
  · rw [afterCompletion_opened]; exact h.opened
  · obtain ⟨f, _⟩ := afterCompletion_facts s h.opened
    rw [f.2.2.1, f.2.1]

theorem txnAbort_inv12 {s : State} (h : Inv12 s) : Inv12 (txnAbort s) := by
  unfold txnAbort
  dsimp only
  split
  · rename_i hn; exact afterCompletion_inv12 h hn
  · exact h.abort_joined

/-! ### `transaction.savepoint()` -/

theorem ensureTmp_fields (s : State) : (ensureTmp s).sps = s.sps ∧ (ensureTmp s).committed = s.committed ∧
    (ensureTmp s).needsToJoin = s.needsToJoin ∧ (ensureTmp s).opened = s.opened := by
  unfold ensureTmp; split <;> exact ⟨rfl, rfl, rfl, rfl⟩

/-- a failed `Connection.savepoint` leaves a state that the cleanup can deal with -/
theorem connSavepoint_fail {s : State} (h : Inv12 s) (hj : s.needsToJoin = false) (bound : Nat)
    (hf : (connSavepoint bound s).2 ≠ none) :
    AbortReady (connSavepoint bound s).1 ∧ (connSavepoint bound s).1.opened = true := by
  have he := ensureTmp_inv12 h hj
  obtain ⟨t0, hsp0⟩ := ensureTmp_some s
  obtain ⟨_, g2⟩ := savepoint_loop he hsp0 bound
  unfold connSavepoint at hf ⊢
  dsimp only at hf ⊢
  cases hr : (connCommitPlain bound (ensureTmp s)).2 with
  | none => rw [hr] at hf; exact absurd rfl hf
  | some e =>
    dsimp only
    obtain ⟨hP, hF⟩ := g2 (by rw [hr]; simp)
    exact ⟨failState_abortReady he hsp0 hP hF, by rw [hP.opened]; exact he.opened⟩

/-- a successful `Connection.savepoint` -/
theorem connSavepoint_ok {s : State} (h : Inv12 s) (hj : s.needsToJoin = false) (bound : Nat)
    (hok : (connSavepoint bound s).2 = none) :
    Inv12 (connSavepoint bound s).1 ∧ (connSavepoint bound s).1.registered = [] ∧
    (connSavepoint bound s).1.added = [] ∧ (connSavepoint bound s).1.sps = s.sps ∧
    (connSavepoint bound s).1.needsToJoin = false ∧
    ∃ t', (connSavepoint bound s).1.sp = some t' ∧
      EntryWF s.committed t' t'.position t'.index t'.creating := by
  have he := ensureTmp_inv12 h hj
  obtain ⟨t0, hsp0⟩ := ensureTmp_some s
  obtain ⟨g1, _⟩ := savepoint_loop he hsp0 bound
  obtain ⟨f1, f2, f3, f4⟩ := ensureTmp_fields s
  unfold connSavepoint at hok ⊢
  dsimp only at hok ⊢
  cases hr : (connCommitPlain bound (ensureTmp s)).2 with
  | some e => rw [hr] at hok; cases hok
  | none =>
    dsimp only
    obtain ⟨hP, hJ, hadd, hnc, _⟩ := g1 hr
    have := savepoint_merge he hsp0 (by rw [f3]; exact hj) hP hJ hadd hnc
    rw [f1, f2] at this
    exact this

theorem Inv12.pushAbortSp {s : State} (h : Inv12 s) (hn : s.needsToJoin = true) :
    Inv12 { s with sps := s.sps ++ [.abortSp false] } := by
  obtain ⟨_, _, hsp⟩ := h.idle hn
  refine h.transfer rfl rfl rfl rfl rfl rfl rfl rfl rfl rfl rfl rfl ?_ ?_ ?_ ?_
  · intro t ht; rw [hsp] at ht; cases ht
  · intro _ p idx cr hm
    have hm' : SpEntry.real p idx cr ∈ s.sps ++ [.abortSp false] := hm
    simp only [List.mem_append, List.mem_singleton, reduceCtorEq, or_false] at hm'
    exact h.spsNone hsp p idx cr hm'
  · show (s.sps ++ [SpEntry.abortSp false]).Pairwise entryLe
    rw [List.pairwise_append]
    refine ⟨h.spsOrder, List.pairwise_singleton _ _, ?_⟩
    intro a ha b hb
    simp only [List.mem_singleton] at hb
    subst hb
    cases a with
    | real p idx cr => exact absurd ha (h.spsNone hsp p idx cr)
    | abortSp j => trivial
    | invalid => trivial
  · intro hf; rw [hn] at hf; cases hf

theorem Inv12.pushReal {m : State} (h : Inv12 m) (hj : m.needsToJoin = false) {t' : TmpStore}
    (hsp : m.sp = some t') (hw : EntryWF m.committed t' t'.position t'.index t'.creating) :
    Inv12 { m with sps := m.sps ++ [.real t'.position t'.index t'.creating] } := by
  refine h.transfer rfl rfl rfl rfl rfl rfl rfl rfl rfl rfl rfl rfl ?_ ?_ ?_ ?_
  · intro t ht p idx cr hm
    rw [hsp] at ht; cases ht
    have hm' : SpEntry.real p idx cr ∈ m.sps ++ [.real t'.position t'.index t'.creating] := hm
    simp only [List.mem_append, List.mem_singleton, SpEntry.real.injEq] at hm'
    rcases hm' with hm' | ⟨rfl, rfl, rfl⟩
    · exact h.spsReal t' hsp p idx cr hm'
    · exact hw
  · intro hn; rw [hsp] at hn; cases hn
  · show (m.sps ++ [SpEntry.real t'.position t'.index t'.creating]).Pairwise entryLe
    rw [List.pairwise_append]
    refine ⟨h.spsOrder, List.pairwise_singleton _ _, ?_⟩
    intro a ha b hb
    simp only [List.mem_singleton] at hb
    subst hb
    cases a with
    | real p idx cr =>
      have we := h.spsReal t' hsp p idx cr ha
      exact ⟨we.le, we.idxSub, we.crSub⟩
    | abortSp j => trivial
    | invalid => trivial
  · intro _ hm
    have hm' : SpEntry.abortSp false ∈ m.sps ++ [.real t'.position t'.index t'.creating] := hm
    simp only [List.mem_append, List.mem_singleton, reduceCtorEq, or_false] at hm'
    exact h.spsFlag hj hm'

theorem spState_of {m : State} {t' : TmpStore} (h : m.sp = some t') :
    spState m = .real t'.position t'.index t'.creating := by
  unfold spState; rw [h]

theorem txnSavepoint_unjoined {s : State} (hn : s.needsToJoin = true) (bound : Nat) :
    txnSavepoint bound s = ({ s with sps := s.sps ++ [.abortSp false] }, .ok) := by
  unfold txnSavepoint; rw [if_pos hn]

theorem txnSavepoint_fail {s : State} (hj : s.needsToJoin = false) (bound : Nat) {e : Err}
    (hr : (connSavepoint bound s).2 = some e) :
    txnSavepoint bound s = (cleanup false (connSavepoint bound s).1, .failed e) := by
  unfold txnSavepoint; simp only [hj, Bool.false_eq_true, if_false]; rw [hr]

theorem txnSavepoint_ok {s : State} (hj : s.needsToJoin = false) (bound : Nat)
    (hr : (connSavepoint bound s).2 = none) :
    txnSavepoint bound s = ({ (connSavepoint bound s).1 with
      sps := (connSavepoint bound s).1.sps ++ [spState (connSavepoint bound s).1] }, .ok) := by
  unfold txnSavepoint; simp only [hj, Bool.false_eq_true, if_false]; rw [hr]

/-- **`transaction.savepoint()`** as the harness runs it (a failed one is followed by an abort) -/
theorem savepoint_inv12 {s : State} (h : Inv12 s) (bound : Nat) : Inv12 (stepH bound s .savepoint) := by
  unfold stepH
  show Inv12 (if (txnSavepoint bound s).2.isFailed = true then
    txnAbortAfterFailure (!s.needsToJoin) (txnSavepoint bound s).1 else (txnSavepoint bound s).1)
  by_cases hn : s.needsToJoin = true
  · rw [txnSavepoint_unjoined hn]
    simp only [Out.isFailed, Bool.false_eq_true, if_false]
    exact h.pushAbortSp hn
  · have hj : s.needsToJoin = false := by simpa using hn
    cases hr : (connSavepoint bound s).2 with
    | some e =>
      rw [txnSavepoint_fail hj bound hr]
      simp only [Out.isFailed, if_true, hj, Bool.not_false]
      obtain ⟨hr1, hop⟩ := connSavepoint_fail h hj bound (by rw [hr]; simp)
      unfold txnAbortAfterFailure
      simp only [if_true]
      have hd := connAbort_again (cleanup_done hr1)
      apply abortDone_afterCompletion hr1 hd
      rw [hd.clean.2.opened]; exact hop
    | none =>
      rw [txnSavepoint_ok hj bound hr]
      simp only [Out.isFailed, Bool.false_eq_true, if_false]
      obtain ⟨hi, _, _, hsps, hj', t', ht', hw⟩ := connSavepoint_ok h hj bound hr
      rw [spState_of ht']
      have hcm : (connSavepoint bound s).1.committed = s.committed :=
        shared_committed (connSavepoint_shared bound s)
      exact hi.pushReal hj' ht' (by rw [hcm]; exact hw)

end Proofs.Conn
