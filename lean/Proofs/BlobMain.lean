/-
  C13: the statements behind `Props/C13.lean`.
-/
import Proofs.BlobThms
namespace Proofs.Blob
open ZodbModel ZodbModel.Blob

/-! ### files = committed blob records -/

theorem files_match_records {s : St} (hr : Reach s) (hn : s.txn = none) (k : Key) :
    (aget s.files k).isSome ↔ BlobRecIn s.hist k := by
  have h := reach_inv hr
  rw [h.filesIff k, h.dirty_nil hn]; simp

/-! ### bytes -/

theorem storeBlob_exact {s : St} {t : Txn} (hn : s.txn = some t) (oid n base : Nat) (check : Bool)
    (b : Bytes) (hb : aget s.tmp n = some b)
    (hok : (storeBlob s oid n base check).2.2 = .ok) :
    aget (storeBlob s oid n base check).1.files (oid, t.tid) = some b ∧
    ∃ t', (storeBlob s oid n base check).1.txn = some t' ∧
      (∃ r ∈ t'.staged, r.key = (oid, t.tid) ∧ r.kind = .blob) := by
  unfold storeBlob at hok ⊢
  simp only [hn] at hok ⊢
  split
  · rename_i hc; simp [hc] at hok
  · rename_i hc
    simp only [hc, if_false] at hok
    split
    · rename_i hc2; simp [hc2] at hok
    · simp only [blobStoreBlob, setTxn, hb]
      refine ⟨by rw [aget_aset]; simp, _, rfl, _, List.mem_cons_self, rfl, rfl⟩

theorem storeBlob_keeps_existing {s : St} (h : Inv s) (oid n base : Nat) (check : Bool) (k : Key)
    (b : Bytes) (hkb : aget s.files k = some b) :
    aget (storeBlob s oid n base check).1.files k = some b := by
  unfold storeBlob
  cases hn : s.txn with
  | none => exact hkb
  | some t =>
    simp only
    split
    · exact hkb
    · rename_i hns
      split
      · exact hkb
      · simp only [blobStoreBlob, setTxn]
        cases hb : aget s.tmp n with
        | none => exact hkb
        | some b' =>
          show aget (aset s.files (oid, t.tid) b') k = some b
          rw [aget_aset]
          by_cases e : k = (oid, t.tid)
          · exfalso
            have h1 : (aget s.files k).isSome := by rw [hkb]; rfl
            have h2 := (h.own_file hn k (by subst e; rfl)).1 h1
            obtain ⟨q, hq, hqk, _⟩ := h.dirtyStaged t hn k h2
            apply hns
            right
            simp only [isStaged, List.any_eq_true]
            refine ⟨q, hq, ?_⟩
            have := congrArg Prod.fst hqk
            rw [e] at this
            exact decide_eq_true this
          · simp only [e, if_false]; exact hkb

theorem undo_keeps_existing {s : St} (h : Inv s) (utid : Nat) (k : Key) (b : Bytes)
    (hkb : aget s.files k = some b) (hkd : k ∉ s.dirty) : aget (undo s utid).1.files k = some b := by
  cases hn : s.txn with
  | none => rw [((undo_facts s utid).2.2 hn).1]; exact hkb
  | some t =>
    have hne : k.2 ≠ t.tid := by
      intro e
      exact hkd ((h.own_file hn k e).1 (by rw [hkb]; rfl))
    rw [((undo_facts s utid).2.1 t hn).2.1 k hne]; exact hkb

/-- The bytes of a blob file never change: a step leaves every existing file as it is, or removes
    it — and it removes it only by aborting the transaction that created it, or by a pack after
    which no kept blob record names it.  Only exception: a file the transaction in progress has put
    in place itself (a dirty, not yet committed name) may be replaced by a further `undo` of that
    same transaction (multi-undo). -/
theorem file_fate {s : St} (h : Inv s) (o : Op) (ha : Admissible s o) (k : Key) (b : Bytes)
    (hkb : aget s.files k = some b) :
    aget (next s o).files k = some b ∨
    (aget (next s o).files k = none ∧
      ((o = .abort ∧ k ∈ s.dirty) ∨
       (∃ T drop ko, o = .pack T drop ko ∧ ¬ BlobRecIn (next s o).hist k))) ∨
    (k ∈ s.dirty ∧ ∃ utid, o = .undo utid) := by
  have hI' := inv_next h o ha
  cases o with
  | mkTemp n b' => exact Or.inl hkb
  | begin tid =>
    left
    show aget (begin s tid).1.files k = some b
    unfold begin
    cases s.txn with
    | some t => exact hkb
    | none => simp only; split <;> exact hkb
  | store oid val base =>
    left
    show aget (store s oid val base).1.files k = some b
    rw [(store_facts s oid val base).2.1]; exact hkb
  | storeBlob oid n base => exact Or.inl (storeBlob_keeps_existing h oid n base true k b hkb)
  | restoreBlob oid n => exact Or.inl (storeBlob_keeps_existing h oid n 0 false k b hkb)
  | vote =>
    left
    show aget (vote s).1.files k = some b
    rw [(vote_facts s).2.1]; exact hkb
  | finish =>
    left
    show aget (finish s).1.files k = some b
    unfold finish
    cases s.txn with
    | none => exact hkb
    | some t => simp only; split <;> exact hkb
  | foreignAbort => exact Or.inl hkb
  | undo utid =>
    by_cases hkd : k ∈ s.dirty
    · exact Or.inr (Or.inr ⟨hkd, utid, rfl⟩)
    · exact Or.inl (undo_keeps_existing h utid k b hkb hkd)
  | abort =>
    show aget (abort s).1.files k = some b ∨ (aget (abort s).1.files k = none ∧ _) ∨ _
    unfold abort
    cases hn : s.txn with
    | none => exact Or.inl hkb
    | some t =>
      simp only
      rw [aget_blobTpcAbort]
      by_cases hd : k ∈ s.dirty
      · right; left; simp [hd]
      · left; simp [hd, hkb]
  | pack T drop ko =>
    cases hc : aget (next s (.pack T drop ko)).files k with
    | none =>
      right; left
      refine ⟨rfl, Or.inr ⟨T, drop, ko, rfl, ?_⟩⟩
      intro hb
      have := (hI'.filesIff k).2 (Or.inl hb)
      rw [hc] at this; cases this
    | some b' =>
      left
      have : aget (pack s T drop ko).1.files k = some b' := hc
      unfold pack at this
      cases hfl : s.flavor with
      | fs =>
        simp only [hfl] at this
        cases hn : s.txn with
        | some t => simp only [hn] at this; rw [← this, hkb]
        | none =>
          simp only [hn] at this
          rw [aget_removeTagged] at this
          split at this
          · cases this
          · rw [← this, hkb]
      | wrap =>
        simp only [hfl] at this
        rw [aget_packNonUndoing] at this
        split at this
        · rw [← this, hkb]
        · cases this

/-! ### abort at every phase -/

/-- the state reached inside a transaction opened on `s0` with tid `tid` -/
def InTxnOf (s0 : St) (tid : Nat) (s : St) : Prop :=
  Inv s ∧ s.hist = s0.hist ∧ (∃ t, s.txn = some t ∧ t.tid = tid) ∧
  ∀ k : Key, k.2 ≠ tid → aget s.files k = aget s0.files k

theorem inTxnOf_run {s0 s : St} {tid : Nat} (h : InTxnOf s0 tid s) (body : List Op)
    (hb : ∀ o ∈ body, InTxnOp o) : InTxnOf s0 tid (run s body) := by
  induction body generalizing s with
  | nil => exact h
  | cons o os ih =>
    apply ih _ (fun o' ho' => hb o' (List.mem_cons_of_mem _ ho'))
    obtain ⟨hI, hh, ⟨t, ht, htid⟩, hf⟩ := h
    have hin := hb o List.mem_cons_self
    obtain ⟨h1, ⟨t', ht', htid'⟩, h3⟩ := step_in_txn ht o hin
    refine ⟨inv_next hI o ?_, by rw [h1, hh], ⟨t', ht', by rw [htid', htid]⟩, ?_⟩
    · cases o <;> first | trivial | cases hin
    · intro k hk
      rw [h3 k (by rw [htid]; exact hk)]; exact hf k hk

theorem noTxn_run {s : St} (hn : s.txn = none) (body : List Op) (hb : ∀ o ∈ body, InTxnOp o) :
    (run s body).hist = s.hist ∧ (run s body).txn = none ∧ (run s body).files = s.files ∧
    (run s body).dirty = s.dirty := by
  induction body generalizing s with
  | nil => exact ⟨rfl, hn, rfl, rfl⟩
  | cons o os ih =>
    obtain ⟨h1, h2, h3, h4⟩ := step_no_txn hn o (hb o List.mem_cons_self)
    obtain ⟨i1, i2, i3, i4⟩ := ih h2 (fun o' ho' => hb o' (List.mem_cons_of_mem _ ho'))
    exact ⟨by rw [show run s (o :: os) = run (next s o) os from rfl, i1, h1], i2,
      by rw [show run s (o :: os) = run (next s o) os from rfl, i3, h3],
      by rw [show run s (o :: os) = run (next s o) os from rfl, i4, h4]⟩

theorem run_append (s : St) (a b : List Op) : run s (a ++ b) = run (run s a) b := by
  simp [run, List.foldl_append]

/-- begin; any operations of a transaction (stores, blob stores, undo, a vote or not, failing calls,
    foreign aborts); abort ⇒ the blob directory and the records are what they were. -/
theorem abort_leaves_no_blob {s : St} (h : Inv s) (hn : s.txn = none) (tid : Nat) (body : List Op)
    (hb : ∀ o ∈ body, InTxnOp o) :
    let s' := run s (.begin tid :: body ++ [.abort])
    (∀ k, aget s'.files k = aget s.files k) ∧ s'.hist = s.hist ∧ s'.txn = none ∧ s'.dirty = [] := by
  intro s'
  have hs' : s' = next (run (next s (.begin tid)) body) .abort := by
    show run s (.begin tid :: body ++ [.abort]) = _
    rw [show (Op.begin tid :: body ++ [Op.abort]) = (Op.begin tid :: body) ++ [Op.abort] from rfl,
      run_append]
    rfl
  have hd := h.dirty_nil hn
  -- did begin open a transaction?
  have hbegin : (next s (.begin tid) = s) ∨
      (InTxnOf s tid (next s (.begin tid))) := by
    show ((begin s tid).1 = s) ∨ InTxnOf s tid (begin s tid).1
    have hIb := inv_begin h tid
    unfold begin at hIb ⊢
    simp only [hn] at hIb ⊢
    split
    · right
      rw [if_pos (by assumption)] at hIb
      exact ⟨hIb, rfl, ⟨_, rfl, rfl⟩, fun _ _ => rfl⟩
    · left; rfl
  rcases hbegin with hbe | hbe
  · -- begin refused: nothing happens at all
    rw [hbe] at hs'
    obtain ⟨i1, i2, i3, i4⟩ := noTxn_run hn body hb
    have : s' = run s body := by
      rw [hs']
      show (abort (run s body)).1 = run s body
      unfold abort; rw [i2]
    rw [this]
    exact ⟨fun k => by rw [i3], i1, i2, by rw [i4, hd]⟩
  · obtain ⟨hI, hh, ⟨t, ht, htid⟩, hf⟩ := inTxnOf_run hbe body hb
    have hfresh := hI.fresh t ht
    have hdt := hI.dirty_tid ht
    rw [hs']
    show (∀ k, aget (abort _).1.files k = _) ∧ (abort _).1.hist = _ ∧ (abort _).1.txn = none ∧
      (abort _).1.dirty = []
    unfold abort
    rw [ht]
    simp only
    refine ⟨?_, hh, trivial, trivial⟩
    intro k
    rw [aget_blobTpcAbort]
    by_cases hk : k.2 = tid
    · -- a name of the aborted transaction: it did not exist before and does not exist now
      have h0 : aget s.files k = none := by
        cases hc : aget s.files k with
        | none => rfl
        | some b =>
          exfalso
          have h1 : (aget s.files k).isSome := by rw [hc]; rfl
          rcases (h.filesIff k).1 h1 with ⟨r, hr, hrk, _⟩ | hd'
          · have h2 := hfresh r (by rw [hh]; exact hr)
            have h3 : k.2 = r.tid := by rw [← hrk]; rfl
            omega
          · rw [hd] at hd'; cases hd'
      rw [h0]
      by_cases hdk : k ∈ (run (next s (.begin tid)) body).dirty
      · simp [hdk]
      · simp only [hdk, if_false]
        cases hc : aget (run (next s (.begin tid)) body).files k with
        | none => rfl
        | some b =>
          exfalso
          have h1 : (aget (run (next s (.begin tid)) body).files k).isSome := by rw [hc]; rfl
          exact hdk ((hI.own_file ht k (by rw [htid]; exact hk)).1 h1)
    · have hdk : k ∉ (run (next s (.begin tid)) body).dirty := by
        intro hc; exact hk (by rw [hdt k hc, htid])
      simp only [hdk, if_false]
      exact hf k hk

/-! ### uncommitted data is invisible -/

/-- While a transaction is in progress, no step changes (creates, removes, alters) any file a reader
    of committed data can name: every committed record carries a tid below the transaction's tid,
    and files under such names stay exactly as they are. -/
theorem uncommitted_invisible {s : St} (h : Inv s) {t : Txn} (hn : s.txn = some t) (o : Op)
    (ha : Admissible s o) (k : Key) (hk : k.2 < t.tid) :
    aget (next s o).files k = aget s.files k := by
  have hne : k.2 ≠ t.tid := by omega
  cases o with
  | mkTemp n b => rfl
  | foreignAbort => rfl
  | store oid val base => exact (step_in_txn hn (.store oid val base) trivial).2.2 k hne
  | storeBlob oid n base => exact (step_in_txn hn (.storeBlob oid n base) trivial).2.2 k hne
  | restoreBlob oid n => exact (step_in_txn hn (.restoreBlob oid n) trivial).2.2 k hne
  | vote => exact (step_in_txn hn (.vote) trivial).2.2 k hne
  | undo utid => exact (step_in_txn hn (.undo utid) trivial).2.2 k hne
  | begin tid =>
    show aget (begin s tid).1.files k = _
    unfold begin; rw [hn]
  | finish =>
    show aget (finish s).1.files k = _
    unfold finish; rw [hn]; simp only; split <;> rfl
  | abort =>
    show aget (abort s).1.files k = _
    unfold abort; rw [hn]; simp only
    rw [aget_blobTpcAbort]
    have : k ∉ s.dirty := by
      intro hc; exact hne (h.dirty_tid hn k hc)
    simp [this]
  | pack T drop ko =>
    show aget (pack s T drop ko).1.files k = _
    unfold pack
    cases hfl : s.flavor with
    | fs => simp only; rw [hn]
    | wrap =>
      have := (ha hfl).1
      rw [hn] at this; cases this

/-! ### undo -/

/-- A successful undo of transaction `utid` has, for EVERY record of that transaction, staged a
    record under the undo transaction's tid that is a copy of the revision before `utid`; if that
    revision is a blob revision, the file `(oid, undo tid)` holds exactly its bytes; if there is no
    earlier revision (un-creation) or it is not a blob revision, there is no such file. -/
theorem undo_restores_blob {s : St} (h : Inv s) {t : Txn} (hn : s.txn = some t) (utid : Nat)
    (hok : (undo s utid).2.2 = .ok) :
    ∃ t', (undo s utid).1.txn = some t' ∧ t'.tid = t.tid ∧
      ∀ r ∈ s.hist, r.tid = utid → Restored s t t'.staged (undo s utid).1.files r := by
  obtain ⟨fl, files, tmp, hist, txn, dirty, packedTo⟩ := s
  simp only at hn
  subst hn
  cases fl with
  | wrap => simp [undo] at hok
  | fs =>
    unfold undo at hok ⊢
    simp only at hok ⊢
    split at hok
    · cases hok
    · rename_i hc
      rw [if_neg hc]
      split at hok
      · cases hok
      · rename_i hc2
        rw [if_neg hc2]
        refine ⟨_, rfl, rfl, ?_⟩
        intro r hr hrt
        let s0 : St := { flavor := .fs, files := files, tmp := tmp, hist := hist, txn := some t,
                         dirty := dirty, packedTo := packedTo }
        have h0 : FInv s0 t (acc0 s0 t) := by
          refine ⟨?_, fun _ _ => rfl⟩
          refine h.congr rfl rfl rfl ?_ rfl
          show some (accTxn t (acc0 s0 t)) = some t
          simp [accTxn, acc0]
        have hflags : ((List.foldl (undoOne hist t.tid) (acc0 s0 t) (txnRecs hist utid)).failures
            || (List.foldl (undoOne hist t.tid) (acc0 s0 t) (txnRecs hist utid)).broken) = false := by
          change (if (List.foldl (undoOne hist t.tid) (acc0 s0 t) (txnRecs hist utid)).broken = true
            then Out.err Err.keyError
            else if (List.foldl (undoOne hist t.tid) (acc0 s0 t) (txnRecs hist utid)).failures = true
              then Out.err Err.undo else Out.ok) = Out.ok at hok
          cases hb : (List.foldl (undoOne hist t.tid) (acc0 s0 t) (txnRecs hist utid)).broken
          · cases hf : (List.foldl (undoOne hist t.tid) (acc0 s0 t) (txnRecs hist utid)).failures
            · rfl
            · rw [hb, hf] at hok; simp at hok
          · rw [hb] at hok; simp at hok
        have hmem : r ∈ txnRecs hist utid := by
          unfold txnRecs
          simp only [List.mem_reverse, List.mem_filter, decide_eq_true_eq]
          exact ⟨hr, hrt⟩
        exact undoFold_restored (s := s0) rfl (txnRecs hist utid) h0 hflags r hmem

/-! ### pack -/

theorem pack_files_sub (s : St) (T : Nat) (drop : List Key) (ko : Bool) (k : Key) :
    aget (pack s T drop ko).1.files k = aget s.files k ∨ aget (pack s T drop ko).1.files k = none := by
  unfold pack
  cases s.flavor with
  | fs =>
    simp only
    cases s.txn with
    | some t => exact Or.inl rfl
    | none =>
      simp only
      rw [aget_removeTagged]
      split
      · exact Or.inr rfl
      · exact Or.inl rfl
  | wrap =>
    simp only
    rw [aget_packNonUndoing]
    split
    · exact Or.inl rfl
    · exact Or.inr rfl

theorem pack_hist (s : St) (T : Nat) (drop : List Key) (ko : Bool) (hn : s.txn = none) :
    (pack s T drop ko).1.hist = packHist T drop s.hist ∧ (pack s T drop ko).1.txn = none := by
  unfold pack
  cases s.flavor with
  | fs => simp only; rw [hn]; exact ⟨rfl, rfl⟩
  | wrap => exact ⟨rfl, hn⟩

/-- pack removes precisely the files of the revisions it removes: the file of every blob revision
    whose record is kept stays, with its bytes; every other file is gone; and the kept blob
    revisions are the old ones minus those the base pack dropped (never one after the pack time). -/
theorem pack_removes_exactly {s : St} (h : Inv s) (hn : s.txn = none) (T : Nat) (drop : List Key)
    (ko : Bool) (ha : Admissible s (.pack T drop ko)) :
    let s' := next s (.pack T drop ko)
    (∀ k, BlobRecIn s'.hist k → aget s'.files k = aget s.files k ∧ (aget s.files k).isSome) ∧
    (∀ k, ¬ BlobRecIn s'.hist k → aget s'.files k = none) ∧
    (∀ k, BlobRecIn s'.hist k ↔ (BlobRecIn s.hist k ∧ ¬ (k ∈ drop ∧ k.2 ≤ T))) := by
  intro s'
  have hI' : Inv s' := inv_next h _ ha
  obtain ⟨hh, ht⟩ := pack_hist s T drop ko hn
  have hd' : s'.dirty = [] := hI'.dirty_nil ht
  refine ⟨?_, ?_, ?_⟩
  · intro k hb
    have h1 : (aget s'.files k).isSome := (hI'.filesIff k).2 (Or.inl hb)
    rcases pack_files_sub s T drop ko k with e | e
    · have e' : aget s'.files k = aget s.files k := e
      exact ⟨e', by rw [← e']; exact h1⟩
    · have e' : aget s'.files k = none := e
      rw [e'] at h1; cases h1
  · intro k hb
    cases hc : aget s'.files k with
    | none => rfl
    | some b =>
      exfalso
      have h1 : (aget s'.files k).isSome := by rw [hc]; rfl
      rcases (hI'.filesIff k).1 h1 with hb' | hd
      · exact hb hb'
      · rw [hd'] at hd; cases hd
  · intro k
    have : s'.hist = packHist T drop s.hist := hh
    rw [this, blobRecIn_packHist]
    have hdk : dkey T drop k = false ↔ ¬ (k ∈ drop ∧ k.2 ≤ T) := by
      unfold dkey
      simp only [decide_eq_false_iff_not, List.contains_iff_mem]
    rw [hdk]

/-- the same for `_packUndoing` (wrapper over an undo-capable base storage): keep a file iff
    `loadSerial` of its (oid, tid) still succeeds -/
theorem packUndoing_removes_exactly {s : St} (h : Inv s) (hn : s.txn = none) (T : Nat)
    (drop : List Key) :
    let h' := packHist T drop s.hist
    (∀ k, BlobRecIn h' k → aget (packUndoing s.files h') k = aget s.files k ∧ (aget s.files k).isSome) ∧
    (∀ k, ¬ BlobRecIn h' k → aget (packUndoing s.files h') k = none) := by
  intro h'
  have hd := h.dirty_nil hn
  have hfile : ∀ k, (aget s.files k).isSome ↔ BlobRecIn s.hist k := by
    intro k; rw [h.filesIff k, hd]; simp
  constructor
  · intro k hb
    rw [aget_packUndoing]
    obtain ⟨r', hr', hk', hbk⟩ := hb
    have : loadSerialOk h' k = true := loadSerialOk_iff.2 ⟨r', hr', hk', by rw [hbk]; simp⟩
    simp only [this, if_true, true_and]
    exact (hfile k).2 (blobRecIn_packHist.1 ⟨r', hr', hk', hbk⟩).1
  · intro k hb
    rw [aget_packUndoing]
    split
    · rename_i hc
      obtain ⟨r', hr', hk', _⟩ := loadSerialOk_iff.1 hc
      obtain ⟨r, hr, hdk, rfl⟩ := mem_packHist.1 hr'
      rw [adj_key] at hk'
      cases hf : aget s.files k with
      | none => rfl
      | some b =>
        exfalso
        have hb0 := (hfile k).1 (by rw [hf]; rfl)
        exact hb (blobRecIn_packHist.2 ⟨hb0, by rw [← hk']; exact hdk⟩)
    · rfl

/-! ### raw events: committed files are never rewritten -/

/-- what a raw file-system event of a step may be -/
def EvOK (s : St) (o : Op) : Ev → Prop
  | .create p => ∀ k, p ≠ .blob k
  | .write p => ∀ k, p ≠ .blob k
  | .link _ b => ∀ k, b ≠ .blob k
  | .rename (.blob _) _ => ∃ T drop ko, o = .pack T drop ko
  | .rename _ (.blob k) => ∃ t, s.txn = some t ∧ k.2 = t.tid
  | .rename _ _ => True
  | .remove (.blob k) => (o = .abort ∧ k ∈ s.dirty) ∨ ∃ T drop ko, o = .pack T drop ko
  | .remove _ => True

theorem blobTpcAbort_evs (fs : Files) (ks : List Key) :
    ∀ ev ∈ (blobTpcAbort fs ks).2, ∃ k ∈ ks, ev = .remove (.blob k) := by
  induction ks generalizing fs with
  | nil => intro ev hev; simp [blobTpcAbort] at hev
  | cons k0 ks ih =>
    intro ev hev
    simp only [blobTpcAbort] at hev
    cases h0 : aget fs k0 with
    | some b =>
      simp only [h0, List.mem_cons] at hev
      rcases hev with hev | hev
      · exact ⟨k0, List.mem_cons_self, hev⟩
      · obtain ⟨k, hk, he⟩ := ih _ ev hev
        exact ⟨k, List.mem_cons_of_mem _ hk, he⟩
    | none =>
      simp only [h0] at hev
      obtain ⟨k, hk, he⟩ := ih _ ev hev
      exact ⟨k, List.mem_cons_of_mem _ hk, he⟩

theorem removeTagged_evs (ko : Bool) (fs : Files) (ks : List Key) :
    ∀ ev ∈ (removeTagged ko fs ks).2,
      ∃ k, ev = .remove (.blob k) ∨ ev = .rename (.blob k) (.old k) := by
  induction ks generalizing fs with
  | nil => intro ev hev; simp [removeTagged] at hev
  | cons k0 ks ih =>
    intro ev hev
    simp only [removeTagged] at hev
    cases h0 : aget fs k0 with
    | some b =>
      simp only [h0, List.mem_cons] at hev
      rcases hev with hev | hev
      · refine ⟨k0, ?_⟩
        cases ko
        · left; simpa using hev
        · right; simpa using hev
      · exact ih _ ev hev
    | none =>
      simp only [h0] at hev
      exact ih _ ev hev

/-- No step creates, writes, truncates or links onto a committed-named path; a rename onto such a
    path happens only inside a transaction and only onto a name carrying that transaction's tid
    (no committed record has that tid: `Inv.fresh`); files leave the directory only by the abort of
    their transaction or by a pack. -/
theorem events_ok (s : St) (o : Op) : ∀ ev ∈ (step s o).2.1, EvOK s o ev := by
  cases o with
  | mkTemp n b =>
    intro ev hev
    simp only [step, mkTemp, List.mem_cons, List.not_mem_nil, or_false] at hev
    rcases hev with rfl | rfl <;> intro k hk <;> cases hk
  | begin tid =>
    intro ev hev
    simp only [step, begin] at hev
    cases hn : s.txn with
    | some t => simp [hn] at hev
    | none => simp only [hn] at hev; split at hev <;> simp at hev
  | store oid val base =>
    intro ev hev
    have := (store_facts s oid val base).2.2.2.1
    simp only [step] at hev
    rw [this] at hev; cases hev
  | vote =>
    intro ev hev
    have := (vote_facts s).2.2.2.1
    simp only [step] at hev
    rw [this] at hev; cases hev
  | finish =>
    intro ev hev
    simp only [step, finish] at hev
    cases hn : s.txn with
    | none => simp [hn] at hev
    | some t => simp only [hn] at hev; split at hev <;> simp at hev
  | foreignAbort => intro ev hev; simp [step, foreignAbort] at hev
  | storeBlob oid n base =>
    intro ev hev
    cases hn : s.txn with
    | none =>
      have := ((storeBlob_facts s oid n base true).2.2 hn).2
      simp only [step] at hev
      rw [this] at hev; cases hev
    | some t =>
      have := ((storeBlob_facts s oid n base true).2.1 t hn).2.2 ev hev
      rw [this]
      exact ⟨t, hn, rfl⟩
  | restoreBlob oid n =>
    intro ev hev
    cases hn : s.txn with
    | none =>
      have := ((storeBlob_facts s oid n 0 false).2.2 hn).2
      simp only [step] at hev
      rw [this] at hev; cases hev
    | some t =>
      have := ((storeBlob_facts s oid n 0 false).2.1 t hn).2.2 ev hev
      rw [this]
      exact ⟨t, hn, rfl⟩
  | undo utid =>
    intro ev hev
    cases hn : s.txn with
    | none =>
      have := ((undo_facts s utid).2.2 hn).2
      simp only [step] at hev
      rw [this] at hev; cases hev
    | some t =>
      rcases ((undo_facts s utid).2.1 t hn).2.2 ev hev with e | e | ⟨oid, e⟩
      · rw [e]; intro k hk; cases hk
      · rw [e]; intro k hk; cases hk
      · rw [e]; exact ⟨t, hn, rfl⟩
  | abort =>
    intro ev hev
    simp only [step, abort] at hev
    cases hn : s.txn with
    | none => simp [hn] at hev
    | some t =>
      simp only [hn] at hev
      obtain ⟨k, hk, he⟩ := blobTpcAbort_evs _ _ ev hev
      rw [he]; exact Or.inl ⟨rfl, hk⟩
  | pack T drop ko =>
    intro ev hev
    simp only [step, pack] at hev
    cases hfl : s.flavor with
    | fs =>
      simp only [hfl] at hev
      cases hn : s.txn with
      | some t => simp [hn] at hev
      | none =>
        simp only [hn, List.mem_append] at hev
        rcases hev with hev | hev
        · obtain ⟨k, he | he⟩ := removeTagged_evs _ _ _ ev hev
          · rw [he]; exact Or.inr ⟨T, drop, ko, rfl⟩
          · rw [he]; exact ⟨T, drop, ko, rfl⟩
        · unfold linkRest at hev
          split at hev
          · simp only [List.mem_map] at hev
            obtain ⟨e, _, rfl⟩ := hev
            intro k hk; cases hk
          · cases hev
    | wrap =>
      simp only [hfl] at hev
      unfold removedEvs at hev
      simp only [List.mem_map] at hev
      obtain ⟨e, _, rfl⟩ := hev
      exact Or.inr ⟨T, drop, ko, rfl⟩

/-! ### savepoints -/

theorem idxGet_mem {ix : List (Nat × Nat)} {oid p : Nat} (h : idxGet ix oid = some p) :
    (oid, p) ∈ ix := by
  induction ix with
  | nil => simp [idxGet] at h
  | cons e t ih =>
    obtain ⟨o, q⟩ := e
    simp only [idxGet] at h
    split at h
    · rename_i ho; cases h; subst ho; exact List.mem_cons_self
    · exact List.mem_cons_of_mem _ (ih h)

/-- what stays fixed after a savepoint with write position `base` -/
def TsFrame (base : Nat) (ts0 ts : TmpStore) : Prop :=
  base ≤ ts.position ∧ ∀ oid p, p < base → aget ts.spFiles (oid, p) = aget ts0.spFiles (oid, p)

theorem tsFrame_run (base : Nat) (ts0 ts : TmpStore) (h : TsFrame base ts0 ts) (ops : List TsOp)
    (hv : ∀ o ∈ ops, TsOp.After base o) : TsFrame base ts0 (runTs ts ops) := by
  induction ops generalizing ts with
  | nil => exact h
  | cons o os ih =>
    apply ih _ _ (fun o' ho' => hv o' (List.mem_cons_of_mem _ ho'))
    have ho := hv o List.mem_cons_self
    cases o with
    | store oid b len =>
      refine ⟨by show base ≤ ts.position + len + 1; have := h.1; omega, ?_⟩
      intro oid' p hp
      show aget (aset ts.spFiles (oid, ts.position) b) (oid', p) = _
      rw [aget_aset]
      have : ((oid', p) : Nat × Nat) ≠ (oid, ts.position) := by
        intro e; have := congrArg Prod.snd e; simp only at this; have := h.1; omega
      simp only [this, if_false]
      exact h.2 oid' p hp
    | rollback st => exact ⟨ho, h.2⟩

/-- Rolling back to a savepoint shows, for every blob, exactly the file that savepoint saw — no
    matter which blobs later savepoints stored and which rollbacks to later savepoints happened in
    between (repair 47a289a: savepoint blob files are named by record position). -/
theorem savepoint_rollback_restores (ts : TmpStore) (hI : TsInv ts) (ops : List TsOp)
    (hv : ∀ o ∈ ops, TsOp.After ts.position o) (oid : Nat) :
    ((runTs ts ops).reset ts.state).loadBlob oid = ts.loadBlob oid := by
  have hf := tsFrame_run ts.position ts ts ⟨Nat.le_refl _, fun _ _ _ => rfl⟩ ops hv
  unfold TmpStore.loadBlob
  show (match idxGet ts.index oid with
        | none => none
        | some p => aget (runTs ts ops).spFiles (oid, p)) = _
  cases hp : idxGet ts.index oid with
  | none => rfl
  | some p =>
    simp only
    exact hf.2 oid p (hI (oid, p) (idxGet_mem hp))

/-! ### every run on FileStorage is admissible -/

theorem next_flavor (s : St) (o : Op) : (next s o).flavor = s.flavor := by
  cases o with
  | mkTemp n b => rfl
  | foreignAbort => rfl
  | begin tid =>
    show (begin s tid).1.flavor = _
    unfold begin
    cases s.txn with
    | some t => rfl
    | none => simp only; split <;> rfl
  | store oid val base =>
    show (store s oid val base).1.flavor = _
    unfold store
    cases s.txn with
    | none => rfl
    | some t =>
      simp only
      split
      · rfl
      · split <;> rfl
  | storeBlob oid n base =>
    show (storeBlob s oid n base true).1.flavor = _
    unfold storeBlob
    cases s.txn with
    | none => rfl
    | some t =>
      simp only
      split
      · rfl
      · split
        · rfl
        · simp only [blobStoreBlob, setTxn]
          cases aget s.tmp n <;> rfl
  | restoreBlob oid n =>
    show (storeBlob s oid n 0 false).1.flavor = _
    unfold storeBlob
    cases s.txn with
    | none => rfl
    | some t =>
      simp only
      split
      · rfl
      · split
        · rfl
        · simp only [blobStoreBlob, setTxn]
          cases aget s.tmp n <;> rfl
  | vote =>
    show (vote s).1.flavor = _
    unfold vote
    cases s.txn with
    | none => rfl
    | some t => simp only; split <;> rfl
  | finish =>
    show (finish s).1.flavor = _
    unfold finish
    cases s.txn with
    | none => rfl
    | some t => simp only; split <;> rfl
  | abort =>
    show (abort s).1.flavor = _
    unfold abort
    cases s.txn <;> rfl
  | undo utid =>
    show (undo s utid).1.flavor = _
    unfold undo
    cases hfl : s.flavor with
    | wrap => exact hfl
    | fs =>
      simp only
      cases s.txn with
      | none => exact hfl
      | some t =>
        simp only
        split
        · exact hfl
        · split <;> first | exact hfl | rfl
  | pack T drop ko =>
    show (pack s T drop ko).1.flavor = _
    unfold pack
    cases hfl : s.flavor with
    | fs =>
      simp only
      cases s.txn with
      | some t => exact hfl
      | none => rfl
    | wrap => rfl

theorem run_flavor (s : St) (ops : List Op) : (run s ops).flavor = s.flavor := by
  induction ops generalizing s with
  | nil => rfl
  | cons o os ih => rw [show run s (o :: os) = run (next s o) os from rfl, ih, next_flavor]

theorem reach_run_of {s : St} (hr : Reach s) (hfs : s.flavor = .fs) (ops : List Op) :
    Reach (run s ops) := by
  induction ops generalizing s with
  | nil => exact hr
  | cons o os ih =>
    apply ih
    · refine Reach.step o hr ?_
      cases o <;> first | trivial | (intro hw; rw [hfs] at hw; cases hw)
    · rw [next_flavor]; exact hfs

/-- on FileStorage every operation sequence is a history the theorems cover -/
theorem reach_run_fs (ops : List Op) : Reach (run (init .fs) ops) :=
  reach_run_of (Reach.init .fs) rfl ops

end Proofs.Blob
