/-
  C13: the statements behind `Props/C13.lean`.
-/
import Proofs.BlobThms
namespace Proofs.Blob
open ZodbModel ZodbModel.Blob

/-! ### files = committed blob records -/

theorem files_match_records {s : St} (hr : Reach s) (hn : s.txn = none) (k : Key) :
    (aget s.files k).isSome ↔ BlobRecIn s.hist k := by
  have h := reach_inv hr
  rw [h.filesIff k, h.dirty_nil hn]; simp

/-! ### bytes -/

theorem storeBlob_exact {s : St} {t : Txn} (hn : s.txn = some t) (oid n base : Nat) (check : Bool)
    (b : Bytes) (hb : aget s.tmp n = some b)
    (hok : (storeBlob s oid n base check).2.2 = .ok) :
    aget (storeBlob s oid n base check).1.files (oid, t.tid) = some b ∧
    ∃ t', (storeBlob s oid n base check).1.txn = some t' ∧
      (∃ r ∈ t'.staged, r.key = (oid, t.tid) ∧ r.kind = .blob) := by
  unfold storeBlob at hok ⊢
  simp only [hn] at hok ⊢
  split
  · rename_i hc; simp [hc] at hok
  · rename_i hc
    simp only [hc, if_false] at hok
    split
    · rename_i hc2; simp [hc2] at hok
    · simp only [blobStoreBlob, setTxn, hb]
      refine ⟨by rw [aget_aset]; simp, _, rfl, _, List.mem_cons_self, rfl, rfl⟩

theorem storeBlob_keeps_existing {s : St} (h : Inv s) (oid n base : Nat) (check : Bool) (k : Key)
    (b : Bytes) (hkb : aget s.files k = some b) :
    aget (storeBlob s oid n base check).1.files k = some b := by
  unfold storeBlob
  cases hn : s.txn with
  | none => exact hkb
  | some t =>
    simp only
    split
    · exact hkb
    · rename_i hns
      split
      · exact hkb
      · simp only [blobStoreBlob, setTxn]
        cases hb : aget s.tmp n with
        | none => exact hkb
        | some b' =>
          show aget (aset s.files (oid, t.tid) b') k = some b
          rw [aget_aset]
          by_cases e : k = (oid, t.tid)
          · exfalso
            have h1 : (aget s.files k).isSome := by rw [hkb]; rfl
            have h2 := (h.own_file hn k (by subst e; rfl)).1 h1
            obtain ⟨q, hq, hqk, _⟩ := h.dirtyStaged t hn k h2
            apply hns
            right
            simp only [isStaged, List.any_eq_true]
            refine ⟨q, hq, ?_⟩
            have := congrArg Prod.fst hqk
            rw [e] at this
            exact decide_eq_true this
          · simp only [e, if_false]; exact hkb

theorem undo_keeps_existing {s : St} (h : Inv s) (utid : Nat) (k : Key) (b : Bytes)
    (hkb : aget s.files k = some b) : aget (undo s utid).1.files k = some b := by
  unfold undo
  cases hfl : s.flavor with
  | wrap => exact hkb
  | fs =>
    simp only
    cases hn : s.txn with
    | none => exact hkb
    | some t =>
      simp only
      split
      · exact hkb
      · split
        · exact hkb
        · have h0 : Inv (accSt s t (acc0 s t)) := by
            refine h.congr rfl rfl rfl ?_ rfl
            show some (accTxn t (acc0 s t)) = s.txn
            rw [hn]; simp [accTxn, acc0]
          exact undoFold_files_mono hfl (txnRecs s.hist utid) h0 k b hkb

/-- The bytes of a blob file never change: a step leaves every existing file as it is, or removes
    it — and it removes it only by aborting the transaction that created it, or by a pack after
    which no kept blob record names it. -/
theorem file_fate {s : St} (h : Inv s) (o : Op) (ha : Admissible s o) (k : Key) (b : Bytes)
    (hkb : aget s.files k = some b) :
    aget (next s o).files k = some b ∨
    (aget (next s o).files k = none ∧
      ((o = .abort ∧ k ∈ s.dirty) ∨
       (∃ T drop ko, o = .pack T drop ko ∧ ¬ BlobRecIn (next s o).hist k))) := by
  have hI' := inv_next h o ha
  cases o with
  | mkTemp n b' => exact Or.inl hkb
  | begin tid =>
    left
    show aget (begin s tid).1.files k = some b
    unfold begin
    cases s.txn with
    | some t => exact hkb
    | none => simp only; split <;> exact hkb
  | store oid val base =>
    left
    show aget (store s oid val base).1.files k = some b
    rw [(store_facts s oid val base).2.1]; exact hkb
  | storeBlob oid n base => exact Or.inl (storeBlob_keeps_existing h oid n base true k b hkb)
  | restoreBlob oid n => exact Or.inl (storeBlob_keeps_existing h oid n 0 false k b hkb)
  | vote =>
    left
    show aget (vote s).1.files k = some b
    rw [(vote_facts s).2.1]; exact hkb
  | finish =>
    left
    show aget (finish s).1.files k = some b
    unfold finish
    cases s.txn with
    | none => exact hkb
    | some t => simp only; split <;> exact hkb
  | foreignAbort => exact Or.inl hkb
  | undo utid => exact Or.inl (undo_keeps_existing h utid k b hkb)
  | abort =>
    show aget (abort s).1.files k = some b ∨ (aget (abort s).1.files k = none ∧ _)
    unfold abort
    cases hn : s.txn with
    | none => exact Or.inl hkb
    | some t =>
      simp only
      rw [aget_blobTpcAbort]
      by_cases hd : k ∈ s.dirty
      · right; simp [hd]
      · left; simp [hd, hkb]
  | pack T drop ko =>
    cases hc : aget (next s (.pack T drop ko)).files k with
    | none =>
      right
      refine ⟨rfl, Or.inr ⟨T, drop, ko, rfl, ?_⟩⟩
      intro hb
      have := (hI'.filesIff k).2 (Or.inl hb)
      rw [hc] at this; cases this
    | some b' =>
      left
      have : aget (pack s T drop ko).1.files k = some b' := hc
      unfold pack at this
      cases hfl : s.flavor with
      | fs =>
        simp only [hfl] at this
        cases hn : s.txn with
        | some t => simp only [hn] at this; rw [← this, hkb]
        | none =>
          simp only [hn] at this
          rw [aget_removeTagged] at this
          split at this
          · cases this
          · rw [← this, hkb]
      | wrap =>
        simp only [hfl] at this
        rw [aget_packNonUndoing] at this
        split at this
        · rw [← this, hkb]
        · cases this

/-! ### abort at every phase -/

/-- the state reached inside a transaction opened on `s0` with tid `tid` -/
def InTxnOf (s0 : St) (tid : Nat) (s : St) : Prop :=
  Inv s ∧ s.hist = s0.hist ∧ (∃ t, s.txn = some t ∧ t.tid = tid) ∧
  ∀ k : Key, k.2 ≠ tid → aget s.files k = aget s0.files k

theorem inTxnOf_run {s0 s : St} {tid : Nat} (h : InTxnOf s0 tid s) (body : List Op)
    (hb : ∀ o ∈ body, InTxnOp o) : InTxnOf s0 tid (run s body) := by
  induction body generalizing s with
  | nil => exact h
  | cons o os ih =>
    apply ih _ (fun o' ho' => hb o' (List.mem_cons_of_mem _ ho'))
    obtain ⟨hI, hh, ⟨t, ht, htid⟩, hf⟩ := h
    have hin := hb o List.mem_cons_self
    obtain ⟨h1, ⟨t', ht', htid'⟩, h3⟩ := step_in_txn ht o hin
    refine ⟨inv_next hI o ?_, by rw [h1, hh], ⟨t', ht', by rw [htid', htid]⟩, ?_⟩
    · cases o <;> first | trivial | cases hin
    · intro k hk
      rw [h3 k (by rw [htid]; exact hk)]; exact hf k hk

theorem noTxn_run {s : St} (hn : s.txn = none) (body : List Op) (hb : ∀ o ∈ body, InTxnOp o) :
    (run s body).hist = s.hist ∧ (run s body).txn = none ∧ (run s body).files = s.files ∧
    (run s body).dirty = s.dirty := by
  induction body generalizing s with
  | nil => exact ⟨rfl, hn, rfl, rfl⟩
  | cons o os ih =>
    obtain ⟨h1, h2, h3, h4⟩ := step_no_txn hn o (hb o List.mem_cons_self)
    obtain ⟨i1, i2, i3, i4⟩ := ih h2 (fun o' ho' => hb o' (List.mem_cons_of_mem _ ho'))
    exact ⟨by rw [show run s (o :: os) = run (next s o) os from rfl, i1, h1], i2,
      by rw [show run s (o :: os) = run (next s o) os from rfl, i3, h3],
      by rw [show run s (o :: os) = run (next s o) os from rfl, i4, h4]⟩

theorem run_append (s : St) (a b : List Op) : run s (a ++ b) = run (run s a) b := by
  simp [run, List.foldl_append]

/-- begin; any operations of a transaction (stores, blob stores, undo, a vote or not, failing calls,
    foreign aborts); abort ⇒ the blob directory and the records are what they were. -/
theorem abort_leaves_no_blob {s : St} (h : Inv s) (hn : s.txn = none) (tid : Nat) (body : List Op)
    (hb : ∀ o ∈ body, InTxnOp o) :
    let s' := run s (.begin tid :: body ++ [.abort])
    (∀ k, aget s'.files k = aget s.files k) ∧ s'.hist = s.hist ∧ s'.txn = none ∧ s'.dirty = [] := by
  intro s'
  have hs' : s' = next (run (next s (.begin tid)) body) .abort := by
    show run s (.begin tid :: body ++ [.abort]) = _
    rw [show (Op.begin tid :: body ++ [Op.abort]) = (Op.begin tid :: body) ++ [Op.abort] from rfl,
      run_append]
    rfl
  have hd := h.dirty_nil hn
  -- did begin open a transaction?
  have hbegin : (next s (.begin tid) = s) ∨
      (InTxnOf s tid (next s (.begin tid))) := by
    show ((begin s tid).1 = s) ∨ InTxnOf s tid (begin s tid).1
    have hIb := inv_begin h tid
    unfold begin at hIb ⊢
    simp only [hn] at hIb ⊢
    split
    · right
      rw [if_pos (by assumption)] at hIb
      exact ⟨hIb, rfl, ⟨_, rfl, rfl⟩, fun _ _ => rfl⟩
    · left; rfl
  rcases hbegin with hbe | hbe
  · -- begin refused: nothing happens at all
    rw [hbe] at hs'
    obtain ⟨i1, i2, i3, i4⟩ := noTxn_run hn body hb
    have : s' = run s body := by
      rw [hs']
      show (abort (run s body)).1 = run s body
      unfold abort; rw [i2]
    rw [this]
    exact ⟨fun k => by rw [i3], i1, i2, by rw [i4, hd]⟩
  · obtain ⟨hI, hh, ⟨t, ht, htid⟩, hf⟩ := inTxnOf_run hbe body hb
    have hfresh := hI.fresh t ht
    have hdt := hI.dirty_tid ht
    rw [hs']
    show (∀ k, aget (abort _).1.files k = _) ∧ (abort _).1.hist = _ ∧ (abort _).1.txn = none ∧
      (abort _).1.dirty = []
    unfold abort
    rw [ht]
    simp only
    refine ⟨?_, hh, trivial, trivial⟩
    intro k
    rw [aget_blobTpcAbort]
    by_cases hk : k.2 = tid
    · -- a name of the aborted transaction: it did not exist before and does not exist now
      have h0 : aget s.files k = none := by
        cases hc : aget s.files k with
        | none => rfl
        | some b =>
          exfalso
          have h1 : (aget s.files k).isSome := by rw [hc]; rfl
          rcases (h.filesIff k).1 h1 with ⟨r, hr, hrk, _⟩ | hd'
          · have h2 := hfresh r (by rw [hh]; exact hr)
            have h3 : k.2 = r.tid := by rw [← hrk]; rfl
            omega
          · rw [hd] at hd'; cases hd'
      rw [h0]
      by_cases hdk : k ∈ (run (next s (.begin tid)) body).dirty
      · simp [hdk]
      · simp only [hdk, if_false]
        cases hc : aget (run (next s (.begin tid)) body).files k with
        | none => rfl
        | some b =>
          exfalso
          have h1 : (aget (run (next s (.begin tid)) body).files k).isSome := by rw [hc]; rfl
          exact hdk ((hI.own_file ht k (by rw [htid]; exact hk)).1 h1)
    · have hdk : k ∉ (run (next s (.begin tid)) body).dirty := by
        intro hc; exact hk (by rw [hdt k hc, htid])
      simp only [hdk, if_false]
      exact hf k hk

/-! ### uncommitted data is invisible -/

/-- While a transaction is in progress, no step changes (creates, removes, alters) any file a reader
    of committed data can name: every committed record carries a tid below the transaction's tid,
    and files under such names stay exactly as they are. -/
theorem uncommitted_invisible {s : St} (h : Inv s) {t : Txn} (hn : s.txn = some t) (o : Op)
    (ha : Admissible s o) (k : Key) (hk : k.2 < t.tid) :
    aget (next s o).files k = aget s.files k := by
  have hne : k.2 ≠ t.tid := by omega
  cases o with
  | mkTemp n b => rfl
  | foreignAbort => rfl
  | store oid val base => exact (step_in_txn hn (.store oid val base) trivial).2.2 k hne
  | storeBlob oid n base => exact (step_in_txn hn (.storeBlob oid n base) trivial).2.2 k hne
  | restoreBlob oid n => exact (step_in_txn hn (.restoreBlob oid n) trivial).2.2 k hne
  | vote => exact (step_in_txn hn (.vote) trivial).2.2 k hne
  | undo utid => exact (step_in_txn hn (.undo utid) trivial).2.2 k hne
  | begin tid =>
    show aget (begin s tid).1.files k = _
    unfold begin; rw [hn]
  | finish =>
    show aget (finish s).1.files k = _
    unfold finish; rw [hn]; simp only; split <;> rfl
  | abort =>
    show aget (abort s).1.files k = _
    unfold abort; rw [hn]; simp only
    rw [aget_blobTpcAbort]
    have : k ∉ s.dirty := by
      intro hc; exact hne (h.dirty_tid hn k hc)
    simp [this]
  | pack T drop ko =>
    show aget (pack s T drop ko).1.files k = _
    unfold pack
    cases hfl : s.flavor with
    | fs => simp only; rw [hn]
    | wrap =>
      have := (ha hfl).1
      rw [hn] at this; cases this

end Proofs.Blob
