/-
  Connection model, part 5: what `abort`, `tpc_abort`, `_invalidate_creating`, `_abort_savepoint` and a
  rollback can do to an object: nothing, make it a ghost, or disown it.
-/
import Proofs.ConnInv
namespace Proofs.Conn
open ZodbModel ZodbModel.Conn

/-- `s'` is reached from `s` by cleanup steps only -/
structure Shrink (s s' : State) : Prop where
  cache : ∀ k i, s'.cache.get k = some i → s.cache.get k = some i
  added : ∀ k i, s'.added.get k = some i → s.added.get k = some i
  oid : ∀ j, (s'.objs j).oid = (s.objs j).oid ∨ ((s'.objs j).oid = none ∧ (s.objs j).oid ≠ none)
  val : ∀ j, (s'.objs j).val = (s.objs j).val ∧ (s'.objs j).refs = (s.objs j).refs ∧
             (s'.objs j).serial = (s.objs j).serial
  status : ∀ j, (s'.objs j).status = (s.objs j).status ∨ (s'.objs j).status = .ghost ∨
                ((s.objs j).status = .changed ∧ (s'.objs j).status = .uptodate ∧ (s'.objs j).oid = none)
  ghostKept : ∀ j, (s.objs j).status = .ghost → (s'.objs j).status = .ghost
  noneKept : ∀ j, (s.objs j).oid = none → s'.objs j = s.objs j
  lost : ∀ j, (s'.objs j).oid = none → (s.objs j).oid ≠ none → (s'.objs j).status = .ghost → s'.d2 = true
  disownedClean : ∀ j, (s'.objs j).oid = none → (s.objs j).oid ≠ none → (s'.objs j).status ≠ .changed
  ghostWhy : ∀ j, (s'.objs j).status = .ghost → (s.objs j).status = .ghost ∨ ∃ k, s.cache.get k = some j
  d2 : s.d2 = true → s'.d2 = true
  nextOid : s'.nextOid = s.nextOid
  snap : s'.snap = s.snap
  opened : s'.opened = s.opened

theorem Shrink.refl (s : State) : Shrink s s := by
  refine ⟨fun _ _ h => h, fun _ _ h => h, fun _ => Or.inl rfl, fun _ => ⟨rfl, rfl, rfl⟩,
    fun _ => Or.inl rfl, fun _ h => h, fun _ _ => rfl, ?_, ?_, fun _ h => Or.inl h, fun h => h,
    rfl, rfl, rfl⟩
  · intro j h1 h2; exact absurd h1 h2
  · intro j h1 h2; exact absurd h1 h2

theorem Shrink.trans {a b c : State} (h1 : Shrink a b) (h2 : Shrink b c) : Shrink a c := by
  constructor
  · intro k i h; exact h1.cache k i (h2.cache k i h)
  · intro k i h; exact h1.added k i (h2.added k i h)
  · intro j
    have := h1.oid j; have := h2.oid j
    grind
  · intro j
    have := h1.val j; have := h2.val j
    grind
  · intro j
    have := h1.status j; have := h2.status j; have := h2.oid j; have := h1.ghostKept j
    have := h2.ghostKept j
    grind
  · intro j hj; exact h2.ghostKept j (h1.ghostKept j hj)
  · intro j hj
    have := h1.noneKept j hj
    rw [h2.noneKept j (by rw [this]; exact hj), this]
  · intro j hn hs hg
    by_cases hb : (b.objs j).oid = none
    · have := h2.noneKept j hb
      rw [this] at hg
      exact h2.d2 (h1.lost j hb hs hg)
    · exact h2.lost j hn hb hg
  · intro j hn hs
    by_cases hb : (b.objs j).oid = none
    · rw [h2.noneKept j hb]; exact h1.disownedClean j hb hs
    · exact h2.disownedClean j hn hb
  · intro j hg
    rcases h2.ghostWhy j hg with h3 | ⟨k, h3⟩
    · exact h1.ghostWhy j h3
    · exact Or.inr ⟨k, h1.cache k j h3⟩
  · intro h; exact h2.d2 (h1.d2 h)
  · rw [h2.nextOid, h1.nextOid]
  · rw [h2.snap, h1.snap]
  · rw [h2.opened, h1.opened]

theorem Shrink.congr {s s' t : State} (h : Shrink s s') (ho : t.objs = s'.objs) (hc : t.cache = s'.cache)
    (ha : t.added = s'.added) (hd : t.d2 = s'.d2) (hn : t.nextOid = s'.nextOid) (hs : t.snap = s'.snap)
    (hp : t.opened = s'.opened) : Shrink s t := by
  constructor
  · rw [hc]; exact h.cache
  · rw [ha]; exact h.added
  · rw [ho]; exact h.oid
  · rw [ho]; exact h.val
  · rw [ho]; exact h.status
  · rw [ho]; exact h.ghostKept
  · rw [ho]; exact h.noneKept
  · rw [ho, hd]; exact h.lost
  · rw [ho]; exact h.disownedClean
  · rw [ho]; exact h.ghostWhy
  · rw [hd]; exact h.d2
  · rw [hn]; exact h.nextOid
  · rw [hs]; exact h.snap
  · rw [hp]; exact h.opened

/-- `s'` is reached from `s` by cleanup steps and the ownership bookkeeping is still consistent -/
def Clean (P : List ObjId) (s s' : State) : Prop := Str P s' ∧ Shrink s s'

theorem Clean.refl {P s} (h : Str P s) : Clean P s s := ⟨h, Shrink.refl s⟩

theorem Clean.step {P a b c} (h1 : Clean P a b) (h2 : Str P b → Clean P b c) : Clean P a c :=
  ⟨(h2 h1.1).1, h1.2.trans (h2 h1.1).2⟩

/-- updating fields that neither `Str` nor `Shrink` look at -/
theorem Clean.upd {P a b} (h : Clean P a b) (t : State) (ho : t.objs = b.objs) (hc : t.cache = b.cache)
    (ha : t.added = b.added) (hd : t.d2 = b.d2) (hn : t.nextOid = b.nextOid) (hs : t.snap = b.snap)
    (hp : t.opened = b.opened) : Clean P a t :=
  ⟨h.1.congr ho hc ha hn, h.2.congr ho hc ha hd hn hs hp⟩

theorem invalidate_clean {P s} (h : Str P s) (k) : Clean P s (invalidate s k) := by
  refine ⟨invalidate_str h k, ?_⟩
  unfold invalidate
  split
  · rename_i i hi
    have := h.cacheS k i hi
    constructor <;> simp only [setO] <;> intros <;> grind
  · exact Shrink.refl s

theorem remove_shrink (s : State) (i k) (hk : (s.objs i).oid = some k) :
    Shrink s (disown { s with cache := s.cache.del k, added := s.added.del k } i) := by
  constructor
  · intro k' j hj; simp only [disown, setO, Map.get_del] at hj; grind
  · intro k' j hj; simp only [disown, setO, Map.get_del] at hj; grind
  · intro j; simp only [disown, setO]; grind
  · intro j; simp only [disown, setO]; grind
  · intro j; simp only [disown, setO]; grind
  · intro j; simp only [disown, setO]; grind
  · intro j; simp only [disown, setO]; grind
  · intro j; simp only [disown, setO]; grind
  · intro j; simp only [disown, setO]; grind
  · intro j; simp only [disown, setO]; grind
  · intro h; simp only [disown, setO]; simp [h]
  · rfl
  · rfl
  · rfl

theorem uncreate_clean {P s} (h : Str P s) (k) : Clean P s (uncreate s k) := by
  refine ⟨uncreate_str h k, ?_⟩
  unfold uncreate
  split
  · rename_i i hi
    have hoid := h.cacheS k i hi
    have hadd : s.added.get k = none := by
      cases ha : s.added.get k with
      | none => rfl
      | some j => have := (h.addedS k j ha).2; rw [hi] at this; cases this
    have := remove_shrink s i k hoid
    rw [Map.del_of_get_none s.added k hadd] at this
    exact this
  · exact Shrink.refl s

theorem abortOne_clean {P s} (h : Str P s) (i) : Clean P s (abortOne s i) := by
  refine ⟨abortOne_str h i, ?_⟩
  unfold abortOne
  split
  · exact Shrink.refl s
  · rename_i k hk
    split
    · exact (remove_shrink s i k hk).congr rfl rfl rfl rfl rfl rfl rfl
    · split
      · exact Shrink.refl s
      · exact (invalidate_clean h k).2

/-- folding cleanup steps -/
theorem foldl_clean {β : Type} {P} (f : State → β → State)
    (hf : ∀ s x, Str P s → Clean P s (f s x)) :
    ∀ (l : List β) (s : State), Str P s → Clean P s (l.foldl f s) := by
  intro l
  induction l with
  | nil => intro s hs; exact Clean.refl hs
  | cons x t ih =>
    intro s hs
    exact (hf s x hs).step (fun h => ih _ h)

theorem invalidateAll_clean {P s} (h : Str P s) (ks) : Clean P s (invalidateAll s ks) :=
  foldl_clean invalidate (fun _ k h => invalidate_clean h k) ks s h

theorem invalidateCreating_clean {P s} (h : Str P s) (ks) : Clean P s (invalidateCreating s ks) :=
  foldl_clean uncreate (fun _ k h => uncreate_clean h k) ks s h

theorem abortObjs_clean {P s} (h : Str P s) : Clean P s (abortObjs s) :=
  foldl_clean abortOne (fun _ k h => abortOne_clean h k) _ s h

theorem tpcCleanup_clean {P s} (h : Str P s) : Clean P s (tpcCleanup s) :=
  (Clean.refl h).upd _ rfl rfl rfl rfl rfl rfl rfl

theorem dropTmp_clean {P s} (h : Str P s) : Clean P s (dropTmp s) :=
  (Clean.refl h).upd _ rfl rfl rfl rfl rfl rfl rfl

theorem storageAbort_clean {P s} (h : Str P s) : Clean P s (storageAbort s) :=
  (Clean.refl h).upd _ rfl rfl rfl rfl rfl rfl rfl

theorem clearRegistered_clean {P s} (h : Str P s) : Clean P s (clearRegistered s) :=
  (Clean.refl h).upd _ rfl rfl rfl rfl rfl rfl rfl

theorem resetTmp_clean {P s} (h : Str P s) (t p idx cr) : Clean P s (resetTmp s t p idx cr) :=
  (Clean.refl h).upd _ rfl rfl rfl rfl rfl rfl rfl

theorem invalidateOwnCreating_clean {P s} (h : Str P s) : Clean P s (invalidateOwnCreating s) :=
  (invalidateCreating_clean h _).upd _ rfl rfl rfl rfl rfl rfl rfl

theorem invalidateModified_clean {P s} (h : Str P s) : Clean P s (invalidateModified s) :=
  invalidateAll_clean h _

theorem abortSavepoint_clean {P s} (h : Str P s) : Clean P s (abortSavepoint s) := by
  unfold abortSavepoint
  split
  · exact Clean.refl h
  · exact ((invalidateCreating_clean h _).step dropTmp_clean).step (fun h => invalidateAll_clean h _)

theorem connAbort_clean {P s} (h : Str P s) : Clean P s (connAbort s) :=
  (((abortObjs_clean h).step abortSavepoint_clean).step invalidateOwnCreating_clean).step tpcCleanup_clean

theorem drainAdded_clean {P s} (h : Str P s) : Clean P s (drainAdded s) := by
  refine ⟨drainAdded_str h, ?_⟩
  unfold drainAdded
  dsimp only
  suffices h' : ∀ (l : Map ObjId) (t : State), Str P t → t.added = l →
      Shrink t (l.foldl (fun (s : State) (p : Oid × ObjId) =>
        disown { s with added := s.added.del p.1 } p.2) t) by
    have h1 := h' s.added s h rfl
    constructor
    · exact h1.cache
    · intro k i hk; simp at hk
    · exact h1.oid
    · exact h1.val
    · exact h1.status
    · exact h1.ghostKept
    · exact h1.noneKept
    · exact h1.lost
    · exact h1.disownedClean
    · exact h1.ghostWhy
    · exact h1.d2
    · exact h1.nextOid
    · exact h1.snap
    · exact h1.opened
  intro l
  induction l with
  | nil => intro t _ _; exact Shrink.refl t
  | cons x rest ih =>
    obtain ⟨k, i⟩ := x
    intro t ht hl
    simp only [List.foldl_cons]
    have hs := ht.addedSorted
    rw [hl] at hs
    have hget : t.added.get k = some i := by rw [hl]; simp [Map.get]
    have ⟨hoid, hc⟩ := ht.addedS k i hget
    have hrem := ht.remove i k hoid
    have hsh := remove_shrink t i k hoid
    rw [Map.del_of_get_none t.cache k hc] at hrem hsh
    refine Shrink.trans (b := disown { t with added := t.added.del k } i)
      (hsh.congr rfl rfl rfl rfl rfl rfl rfl) (ih _ (hrem.congr rfl rfl rfl rfl) ?_)
    show t.added.del k = rest
    rw [hl]; exact Map.del_head_sorted hs

theorem connTpcAbort_clean {P s} (h : Str P s) : Clean P s (connTpcAbort s) := by
  unfold connTpcAbort
  split
  · exact Clean.refl h
  · exact ((((((abortSavepoint_clean h).step storageAbort_clean).step invalidateModified_clean).step
      invalidateOwnCreating_clean).step drainAdded_clean).step tpcCleanup_clean)

theorem cleanup_clean {P s} (h : Str P s) (v) : Clean P s (cleanup v s) := by
  unfold cleanup
  split
  · exact connTpcAbort_clean h
  · exact (connAbort_clean h).step connTpcAbort_clean

theorem rollbackSavepoint_clean {P s} (h : Str P s) (p idx cr) :
    Clean P s (rollbackSavepoint s p idx cr) := by
  unfold rollbackSavepoint
  dsimp only
  have h1 := (abortObjs_clean h).step clearRegistered_clean
  split
  · exact h1
  · exact ((h1.step (fun h => invalidateCreating_clean h _)).step
      (fun h => resetTmp_clean h _ _ _ _)).step (fun h => invalidateAll_clean h _)

theorem pollOne_str {P s} (h : Str P s) (p) : Str P (pollOne s p) := by
  unfold pollOne
  dsimp only
  repeat' split
  all_goals first | exact h | exact h.setO_same _ _ rfl rfl

theorem poll_str {P s} (h : Str P s) : Str P (poll s) := by
  unfold poll
  exact foldl_pres (Str P) pollOne (fun _ k h => pollOne_str h k) _ _ (h.congr rfl rfl rfl rfl)

theorem afterCompletion_str {P s} (h : Str P s) : Str P (afterCompletion s) := by
  unfold afterCompletion
  dsimp only
  split
  · exact poll_str (h.congr rfl rfl rfl rfl)
  · exact h.congr rfl rfl rfl rfl

/-! ### effects: what is guaranteed to have happened -/

/-- generic: each step establishes a property for its own element, and later steps keep it -/
theorem foldl_effect {β : Type} {P} (f : State → β → State) (Q : β → State → Prop)
    (hf : ∀ s x, Str P s → Clean P s (f s x))
    (s0 : State)
    (hest : ∀ t x, Str P t → Shrink s0 t → Q x (f t x))
    (hstab : ∀ t t' x, Shrink t t' → Q x t → Q x t') :
    ∀ (l : List β) (s : State), Str P s → Shrink s0 s → ∀ x ∈ l, Q x (l.foldl f s) := by
  intro l
  induction l with
  | nil => intro s _ _ x hx; cases hx
  | cons y t ih =>
    intro s hs h0 x hx
    simp only [List.foldl_cons]
    rcases List.mem_cons.1 hx with hx | hx
    · subst hx
      exact hstab _ _ x (foldl_clean f hf t _ (hf s x hs).1).2 (hest s x hs h0)
    · exact ih _ (hf s y hs).1 (h0.trans (hf s y hs).2) x hx

/-- after `_invalidate_creating(ks)` no key of `ks` is in the cache -/
theorem invalidateCreating_cache {P s} (h : Str P s) (ks) :
    ∀ k ∈ ks, (invalidateCreating s ks).cache.get k = none :=
  foldl_effect uncreate (fun k t => t.cache.get k = none)
    (fun _ k h => uncreate_clean h k) s
    (by
      intro t k _ _
      unfold uncreate
      split
      · simp [disown, setO]
      · assumption)
    (by
      intro t t' k hsh hq
      cases hc : t'.cache.get k with
      | none => rfl
      | some i => have := hsh.cache k i hc; rw [hq] at this; cases this)
    ks s h (Shrink.refl s)

/-- after `cache.invalidate(ks)` every cached object under a key of `ks` is a ghost -/
theorem invalidateAll_ghost {P s} (h : Str P s) (ks) :
    ∀ k ∈ ks, ∀ i, (invalidateAll s ks).cache.get k = some i →
      ((invalidateAll s ks).objs i).status = .ghost :=
  foldl_effect invalidate (fun k t => ∀ i, t.cache.get k = some i → (t.objs i).status = .ghost)
    (fun _ k h => invalidate_clean h k) s
    (by
      intro t k _ _ i hi
      unfold invalidate at hi ⊢
      split at hi
      · rename_i j hj
        simp only [setO] at hi ⊢
        rw [hj] at hi; cases hi
        simp
      · rename_i hn; rw [hn] at hi; cases hi)
    (by
      intro t t' k hsh hq i hi
      exact hsh.ghostKept i (hq i (hsh.cache k i hi)))
    ks s h (Shrink.refl s)

/-- `foldl_effect` with an extra invariant of the steps -/
theorem foldl_effectI {β : Type} {P} (f : State → β → State) (Q : β → State → Prop) (I : State → Prop)
    (hf : ∀ s x, Str P s → Clean P s (f s x)) (hI : ∀ s x, I s → I (f s x))
    (s0 : State)
    (hest : ∀ t x, Str P t → Shrink s0 t → I t → Q x (f t x))
    (hstab : ∀ t t' x, Shrink t t' → Q x t → Q x t') :
    ∀ (l : List β) (s : State), Str P s → Shrink s0 s → I s → ∀ x ∈ l, Q x (l.foldl f s) := by
  intro l
  induction l with
  | nil => intro s _ _ _ x hx; cases hx
  | cons y t ih =>
    intro s hs h0 hi x hx
    simp only [List.foldl_cons]
    rcases List.mem_cons.1 hx with hx | hx
    · subst hx
      exact hstab _ _ x (foldl_clean f hf t _ (hf s x hs).1).2 (hest s x hs h0 hi)
    · exact ih _ (hf s y hs).1 (h0.trans (hf s y hs).2) (hI s y hi) x hx

theorem abortOne_sp (s : State) (i) : (abortOne s i).sp = s.sp := by
  unfold abortOne
  split
  · rfl
  · split
    · rfl
    · split
      · rfl
      · unfold invalidate; split <;> rfl

theorem abortOne_creating (s : State) (i) : (abortOne s i).creating = s.creating := by
  unfold abortOne
  split
  · rfl
  · split
    · rfl
    · split
      · rfl
      · unfold invalidate; split <;> rfl

/-- after `_abort`: every registered object is either disowned (it was in `_added`), or a ghost, or a new
    object that was stored already (left alone: `_invalidate_creating` disowns it with its state) -/
theorem abortObjs_effect {s} (h : Str [] s) :
    ∀ i ∈ s.registered, ∀ k, (s.objs i).oid = some k →
      (s.added.get k = some i → ((abortObjs s).objs i).oid = none) ∧
      (s.added.get k = none → s.creating.has k = false → tmpCreated s k = false →
        ((abortObjs s).objs i).status = .ghost ∨ ((abortObjs s).objs i).oid = none) := by
  intro i hi k hk
  have := foldl_effectI (P := []) abortOne
    (fun i t => ∀ k, (s.objs i).oid = some k →
      (s.added.get k = some i → (t.objs i).oid = none) ∧
      (s.added.get k = none → s.creating.has k = false → tmpCreated s k = false →
        (t.objs i).status = .ghost ∨ (t.objs i).oid = none))
    (fun t => t.creating = s.creating ∧ t.sp = s.sp)
    (fun _ k h => abortOne_clean h k)
    (fun t x hI => by rw [abortOne_creating, abortOne_sp]; exact hI) s
    (by
      intro t i ht hsh hcrsp k hk
      obtain ⟨hcr, hspe⟩ := hcrsp
      have hoid := hsh.oid i
      rw [hk] at hoid
      unfold abortOne
      rcases hoid with hoid | hoid
      · rw [hoid]
        dsimp only
        have hkn := ht.known i k hoid
        simp only [List.not_mem_nil, or_false] at hkn
        constructor
        · intro ha
          have hc := (h.addedS k i ha).2
          have : t.added.get k = some i := by
            rcases hkn with h1 | h1
            · have := hsh.cache k i h1; rw [hc] at this; cases this
            · exact h1
          have hhas : t.added.has k = true := by rw [Map.has_iff, this]; simp
          rw [if_pos hhas]
          simp [disown, setO]
        · intro ha hncr hntc
          have hnone : t.added.get k = none := by
            cases hc : t.added.get k with
            | none => rfl
            | some j => have := hsh.added k j hc; rw [ha] at this; cases this
          have hhas : ¬ t.added.has k = true := by rw [Map.has_iff, hnone]; simp
          rw [if_neg hhas]
          have hcr' : ¬ (t.creating.has k || tmpCreated t k) = true := by
            have : tmpCreated t k = tmpCreated s k := by unfold tmpCreated; rw [hspe]
            rw [hcr, hncr, this, hntc]; simp
          rw [if_neg hcr']
          rcases hkn with h1 | h1
          · left
            unfold invalidate
            rw [h1]
            simp [setO]
          · rw [hnone] at h1; cases h1
      · rw [hoid.1]
        exact ⟨fun _ => hoid.1, fun _ _ _ => Or.inr hoid.1⟩)
    (by
      intro t t' i hsh hq k hk
      obtain ⟨h1, h2⟩ := hq k hk
      constructor
      · intro ha
        have := hsh.noneKept i (h1 ha)
        rw [this]; exact h1 ha
      · intro ha hncr hntc
        rcases h2 ha hncr hntc with h3 | h3
        · exact Or.inl (hsh.ghostKept i h3)
        · right; rw [hsh.noneKept i h3]; exact h3)
    s.registered s h (Shrink.refl s) ⟨rfl, rfl⟩ i hi
  exact this k hk

end Proofs.Conn
