/-
  Connection model, part 5: what `abort`, `tpc_abort`, `_invalidate_creating`, `_abort_savepoint` and a
  rollback can do to an object: nothing, make it a ghost, or disown it.
-/
import Proofs.ConnInv
namespace Proofs.Conn
open ZodbModel ZodbModel.Conn

/-- `s'` is reached from `s` by cleanup steps only -/
structure Shrink (s s' : State) : Prop where
  cache : ∀ k i, s'.cache.get k = some i → s.cache.get k = some i
  added : ∀ k i, s'.added.get k = some i → s.added.get k = some i
  oid : ∀ j, (s'.objs j).oid = (s.objs j).oid ∨ ((s'.objs j).oid = none ∧ (s.objs j).oid ≠ none)
  val : ∀ j, (s'.objs j).val = (s.objs j).val ∧ (s'.objs j).refs = (s.objs j).refs ∧
             (s'.objs j).serial = (s.objs j).serial
  status : ∀ j, (s'.objs j).status = (s.objs j).status ∨ (s'.objs j).status = .ghost ∨
                ((s.objs j).status = .changed ∧ (s'.objs j).status = .uptodate ∧ (s'.objs j).oid = none)
  ghostKept : ∀ j, (s.objs j).status = .ghost → (s'.objs j).status = .ghost
  noneKept : ∀ j, (s.objs j).oid = none → s'.objs j = s.objs j
  lost : ∀ j, (s'.objs j).oid = none → (s.objs j).oid ≠ none → (s'.objs j).status = .ghost → s'.d2 = true
  d2 : s.d2 = true → s'.d2 = true
  nextOid : s'.nextOid = s.nextOid
  snap : s'.snap = s.snap
  opened : s'.opened = s.opened

theorem Shrink.refl (s : State) : Shrink s s := by
  constructor <;> simp
  intro j h1 h2; exact absurd h1 h2

theorem Shrink.trans {a b c : State} (h1 : Shrink a b) (h2 : Shrink b c) : Shrink a c := by
  constructor
  · intro k i h; exact h1.cache k i (h2.cache k i h)
  · intro k i h; exact h1.added k i (h2.added k i h)
  · intro j
    have := h1.oid j; have := h2.oid j
    grind
  · intro j
    have := h1.val j; have := h2.val j
    grind
  · intro j
    have := h1.status j; have := h2.status j; have := h2.oid j; have := h1.ghostKept j
    have := h2.ghostKept j
    grind
  · intro j hj; exact h2.ghostKept j (h1.ghostKept j hj)
  · intro j hj
    have := h1.noneKept j hj
    rw [h2.noneKept j (by rw [this]; exact hj), this]
  · intro j hn hs hg
    by_cases hb : (b.objs j).oid = none
    · have := h2.noneKept j hb
      rw [this] at hg
      exact h2.d2 (h1.lost j hb hs hg)
    · exact h2.lost j hn hb hg
  · intro h; exact h2.d2 (h1.d2 h)
  · rw [h2.nextOid, h1.nextOid]
  · rw [h2.snap, h1.snap]
  · rw [h2.opened, h1.opened]

theorem Shrink.congr {s s' t : State} (h : Shrink s s') (ho : t.objs = s'.objs) (hc : t.cache = s'.cache)
    (ha : t.added = s'.added) (hd : t.d2 = s'.d2) (hn : t.nextOid = s'.nextOid) (hs : t.snap = s'.snap)
    (hp : t.opened = s'.opened) : Shrink s t := by
  constructor
  · rw [hc]; exact h.cache
  · rw [ha]; exact h.added
  · rw [ho]; exact h.oid
  · rw [ho]; exact h.val
  · rw [ho]; exact h.status
  · rw [ho]; exact h.ghostKept
  · rw [ho]; exact h.noneKept
  · rw [ho, hd]; exact h.lost
  · rw [hd]; exact h.d2
  · rw [hn]; exact h.nextOid
  · rw [hs]; exact h.snap
  · rw [hp]; exact h.opened

theorem invalidate_shrink {P s} (h : Str P s) (k) : Shrink s (invalidate s k) := by
  unfold invalidate
  split
  · rename_i i hi
    have := h.cacheS k i hi
    constructor <;> simp only [setO] <;> intros <;> grind
  · exact Shrink.refl s

theorem remove_shrink (s : State) (i k) (hk : (s.objs i).oid = some k) :
    Shrink s (disown { s with cache := s.cache.del k, added := s.added.del k } i) := by
  constructor
  · intro k' j hj; simp only [disown, setO, Map.get_del] at hj; grind
  · intro k' j hj; simp only [disown, setO, Map.get_del] at hj; grind
  · intro j; simp only [disown, setO]; grind
  · intro j; simp only [disown, setO]; grind
  · intro j; simp only [disown, setO]; grind
  · intro j; simp only [disown, setO]; grind
  · intro j; simp only [disown, setO]; grind
  · intro j; simp only [disown, setO]; grind
  · intro h; simp only [disown, setO]; simp [h]
  · rfl
  · rfl
  · rfl

theorem uncreate_shrink {P s} (h : Str P s) (k) : Shrink s (uncreate s k) := by
  unfold uncreate
  split
  · rename_i i hi
    have hoid := h.cacheS k i hi
    have hadd : s.added.get k = none := by
      cases ha : s.added.get k with
      | none => rfl
      | some j => have := (h.addedS k j ha).2; rw [hi] at this; cases this
    have := remove_shrink s i k hoid
    rw [Map.del_of_get_none s.added k hadd] at this
    exact this
  · exact Shrink.refl s

theorem abortOne_shrink {P s} (h : Str P s) (i) : Shrink s (abortOne s i) := by
  unfold abortOne
  split
  · exact Shrink.refl s
  · rename_i k hk
    split
    · exact (remove_shrink s i k hk).congr rfl rfl rfl rfl rfl rfl rfl
    · exact invalidate_shrink h k

/-- folding cleanup steps: `Str` is kept and the result is a `Shrink` of the start -/
theorem foldl_shrink {β : Type} {P} (f : State → β → State)
    (hstr : ∀ s x, Str P s → Str P (f s x)) (hsh : ∀ s x, Str P s → Shrink s (f s x)) :
    ∀ (l : List β) (s : State), Str P s → Shrink s (l.foldl f s) := by
  intro l
  induction l with
  | nil => intro s _; exact Shrink.refl s
  | cons x t ih =>
    intro s hs
    exact (hsh s x hs).trans (ih _ (hstr s x hs))

theorem invalidateAll_shrink {P s} (h : Str P s) (ks) : Shrink s (invalidateAll s ks) :=
  foldl_shrink invalidate (fun _ k h => invalidate_str h k) (fun _ k h => invalidate_shrink h k) ks s h

theorem invalidateCreating_shrink {P s} (h : Str P s) (ks) : Shrink s (invalidateCreating s ks) :=
  foldl_shrink uncreate (fun _ k h => uncreate_str h k) (fun _ k h => uncreate_shrink h k) ks s h

theorem abortObjs_shrink {P s} (h : Str P s) : Shrink s (abortObjs s) :=
  foldl_shrink abortOne (fun _ k h => abortOne_str h k) (fun _ k h => abortOne_shrink h k) _ s h

theorem abortSavepoint_shrink {P s} (h : Str P s) : Shrink s (abortSavepoint s) := by
  unfold abortSavepoint
  split
  · exact Shrink.refl s
  · rename_i t ht
    dsimp only
    have h1 := invalidateCreating_shrink h t.creating.keys
    have h1s := invalidateCreating_str h t.creating.keys
    have h2 : Shrink s { invalidateCreating s t.creating.keys with sp := none } :=
      h1.congr rfl rfl rfl rfl rfl rfl rfl
    have h2s : Str P { invalidateCreating s t.creating.keys with sp := none } :=
      h1s.congr rfl rfl rfl rfl
    exact h2.trans (invalidateAll_shrink h2s _)

theorem connAbort_shrink {P s} (h : Str P s) : Shrink s (connAbort s) := by
  unfold connAbort tpcCleanup
  dsimp only
  have h1 := abortObjs_shrink h
  have h1s := abortObjs_str h
  have h2 := abortSavepoint_shrink h1s
  have h2s := abortSavepoint_str h1s
  have h3 := invalidateCreating_shrink h2s (abortSavepoint (abortObjs s)).creating.keys
  exact ((h1.trans h2).trans h3).congr rfl rfl rfl rfl rfl rfl rfl


theorem drainAdded_shrink {P s} (h : Str P s) : Shrink s (drainAdded s) := by
  unfold drainAdded
  dsimp only
  suffices h' : ∀ (l : Map ObjId) (t : State), Str P t → t.added = l →
      Shrink t (l.foldl (fun (s : State) (p : Oid × ObjId) =>
        disown { s with added := s.added.del p.1 } p.2) t) by
    have h1 := h' s.added s h rfl
    refine Shrink.congr (s' := { _ with added := [] }) ?_ rfl rfl rfl rfl rfl rfl rfl
    constructor
    · exact h1.cache
    · intro k i hk; simp at hk
    · exact h1.oid
    · exact h1.val
    · exact h1.status
    · exact h1.ghostKept
    · exact h1.noneKept
    · exact h1.lost
    · exact h1.d2
    · exact h1.nextOid
    · exact h1.snap
    · exact h1.opened
  intro l
  induction l with
  | nil => intro t _ _; exact Shrink.refl t
  | cons x rest ih =>
    obtain ⟨k, i⟩ := x
    intro t ht hl
    simp only [List.foldl_cons]
    have hs := ht.addedSorted
    rw [hl] at hs
    have hget : t.added.get k = some i := by rw [hl]; simp [Map.get]
    have ⟨hoid, hc⟩ := ht.addedS k i hget
    have hrem := ht.remove i k hoid
    have hsh := remove_shrink t i k hoid
    rw [Map.del_of_get_none t.cache k hc] at hrem hsh
    refine Shrink.trans (b := disown { t with added := t.added.del k } i)
      (hsh.congr rfl rfl rfl rfl rfl rfl rfl) (ih _ (hrem.congr rfl rfl rfl rfl) ?_)
    show t.added.del k = rest
    rw [hl]; exact Map.del_head_sorted hs

theorem connTpcAbort_shrink {P s} (h : Str P s) : Shrink s (connTpcAbort s) := by
  unfold connTpcAbort tpcCleanup
  dsimp only
  split
  · exact Shrink.refl s
  · have h1 := abortSavepoint_shrink h
    have h1s := abortSavepoint_str h
    have h2s : Str P { abortSavepoint s with staged := [] } := h1s.congr rfl rfl rfl rfl
    have h2 : Shrink s { abortSavepoint s with staged := [] } := h1.congr rfl rfl rfl rfl rfl rfl rfl
    have h3 := invalidateAll_shrink h2s (abortSavepoint s).modified
    have h3s := invalidateAll_str h2s (abortSavepoint s).modified
    have h4 := invalidateCreating_shrink h3s
      (invalidateAll { abortSavepoint s with staged := [] } (abortSavepoint s).modified).creating.keys
    have h4s := invalidateCreating_str h3s
      (invalidateAll { abortSavepoint s with staged := [] } (abortSavepoint s).modified).creating.keys
    have h5s : Str P { invalidateCreating
      (invalidateAll { abortSavepoint s with staged := [] } (abortSavepoint s).modified)
      (invalidateAll { abortSavepoint s with staged := [] } (abortSavepoint s).modified).creating.keys
        with creating := [] } := h4s.congr rfl rfl rfl rfl
    have h5 := drainAdded_shrink h5s
    refine Shrink.congr (s' := drainAdded _) ?_ rfl rfl rfl rfl rfl rfl rfl
    exact ((h2.trans h3).trans (h4.congr rfl rfl rfl rfl rfl rfl rfl)).trans h5

theorem cleanup_shrink {P s} (h : Str P s) (v) : Shrink s (cleanup v s) := by
  unfold cleanup
  split
  · exact connTpcAbort_shrink h
  · exact (connAbort_shrink h).trans (connTpcAbort_shrink (connAbort_str h))

theorem rollbackSavepoint_shrink {P s} (h : Str P s) (p idx cr) :
    Shrink s (rollbackSavepoint s p idx cr) := by
  unfold rollbackSavepoint
  dsimp only
  have h1 := abortObjs_shrink h
  have h1s := abortObjs_str h
  split
  · exact h1.congr rfl rfl rfl rfl rfl rfl rfl
  · rename_i t ht
    have h2s : Str P { abortObjs s with registered := [] } := h1s.congr rfl rfl rfl rfl
    have h3 := invalidateCreating_shrink h2s (t.creating.keys.filter fun k => !cr.has k)
    have h3s := invalidateCreating_str h2s (t.creating.keys.filter fun k => !cr.has k)
    have h4s : Str P { invalidateCreating { abortObjs s with registered := [] }
        (t.creating.keys.filter fun k => !cr.has k) with sp := some (t.reset p idx cr) } :=
      h3s.congr rfl rfl rfl rfl
    have h4 := invalidateAll_shrink h4s t.index.keys
    exact ((h1.congr rfl rfl rfl rfl rfl rfl rfl).trans
      (h3.congr rfl rfl rfl rfl rfl rfl rfl)).trans h4

/-! ### effects: what is guaranteed to have happened -/

/-- generic: each step establishes a property for its own element, and later steps keep it -/
theorem foldl_effect {β : Type} {P} (f : State → β → State) (Q : β → State → Prop)
    (hstr : ∀ s x, Str P s → Str P (f s x)) (hsh : ∀ s x, Str P s → Shrink s (f s x))
    (s0 : State)
    (hest : ∀ t x, Str P t → Shrink s0 t → Q x (f t x))
    (hstab : ∀ t t' x, Shrink t t' → Q x t → Q x t') :
    ∀ (l : List β) (s : State), Str P s → Shrink s0 s → ∀ x ∈ l, Q x (l.foldl f s) := by
  intro l
  induction l with
  | nil => intro s _ _ x hx; cases hx
  | cons y t ih =>
    intro s hs h0 x hx
    simp only [List.foldl_cons]
    rcases List.mem_cons.1 hx with hx | hx
    · subst hx
      exact hstab _ _ x (foldl_shrink f hstr hsh t _ (hstr s x hs)) (hest s x hs h0)
    · exact ih _ (hstr s y hs) (h0.trans (hsh s y hs)) x hx

/-- after `_invalidate_creating(ks)` no key of `ks` is in the cache -/
theorem invalidateCreating_cache {P s} (h : Str P s) (ks) :
    ∀ k ∈ ks, (invalidateCreating s ks).cache.get k = none :=
  foldl_effect uncreate (fun k t => t.cache.get k = none)
    (fun _ k h => uncreate_str h k) (fun _ k h => uncreate_shrink h k) s
    (by
      intro t k _ _
      unfold uncreate
      split
      · simp [disown, setO]
      · rename_i hn
        cases hc : t.cache.get k with
        | none => rfl
        | some i => exact absurd hc (hn i))
    (by
      intro t t' k hsh hq
      cases hc : t'.cache.get k with
      | none => rfl
      | some i => have := hsh.cache k i hc; rw [hq] at this; cases this)
    ks s h (Shrink.refl s)

/-- after `cache.invalidate(ks)` every cached object under a key of `ks` is a ghost -/
theorem invalidateAll_ghost {P s} (h : Str P s) (ks) :
    ∀ k ∈ ks, ∀ i, (invalidateAll s ks).cache.get k = some i →
      ((invalidateAll s ks).objs i).status = .ghost :=
  foldl_effect invalidate (fun k t => ∀ i, t.cache.get k = some i → (t.objs i).status = .ghost)
    (fun _ k h => invalidate_str h k) (fun _ k h => invalidate_shrink h k) s
    (by
      intro t k _ _ i hi
      unfold invalidate at hi ⊢
      split at hi
      · rename_i j hj
        simp only [setO] at hi ⊢
        rw [hj] at hi; cases hi
        simp
      · exact hi)
    (by
      intro t t' k hsh hq i hi
      exact hsh.ghostKept i (hq i (hsh.cache k i hi)))
    ks s h (Shrink.refl s)

/-- after `_abort`: every registered object is either disowned (it was in `_added`) or a ghost -/
theorem abortObjs_effect {s} (h : Str [] s) :
    ∀ i ∈ s.registered, ∀ k, (s.objs i).oid = some k →
      (s.added.get k = some i → ((abortObjs s).objs i).oid = none) ∧
      (s.added.get k = none →
        ((abortObjs s).objs i).status = .ghost ∨ ((abortObjs s).objs i).oid = none) := by
  intro i hi k hk
  have := foldl_effect (P := []) abortOne
    (fun i t => ∀ k, (s.objs i).oid = some k →
      (s.added.get k = some i → (t.objs i).oid = none) ∧
      (s.added.get k = none → (t.objs i).status = .ghost ∨ (t.objs i).oid = none))
    (fun _ k h => abortOne_str h k) (fun _ k h => abortOne_shrink h k) s
    (by
      intro t i ht hsh k hk
      have hoid := hsh.oid i
      rw [hk] at hoid
      unfold abortOne
      rcases hoid with hoid | hoid
      · rw [hoid]
        dsimp only
        have hkn := ht.known i k hoid
        simp only [List.not_mem_nil, or_false] at hkn
        constructor
        · intro ha
          have hc := (h.addedS k i ha).2
          have : t.added.get k = some i := by
            rcases hkn with h1 | h1
            · have := hsh.cache k i h1; rw [hc] at this; cases this
            · exact h1
          have hhas : t.added.has k = true := by rw [Map.has_iff, this]; simp
          rw [if_pos hhas]
          simp [disown, setO]
        · intro ha
          have hnone : t.added.get k = none := by
            cases hc : t.added.get k with
            | none => rfl
            | some j => have := hsh.added k j hc; rw [ha] at this; cases this
          have hhas : ¬ t.added.has k = true := by rw [Map.has_iff, hnone]; simp
          rw [if_neg hhas]
          rcases hkn with h1 | h1
          · left
            unfold invalidate
            rw [h1]
            simp [setO]
          · rw [hnone] at h1; cases h1
      · rw [hoid.1]
        exact ⟨fun _ => hoid.1, fun _ => Or.inr hoid.1⟩)
    (by
      intro t t' i hsh hq k hk
      obtain ⟨h1, h2⟩ := hq k hk
      constructor
      · intro ha
        have := hsh.noneKept i (h1 ha)
        rw [this]; exact h1 ha
      · intro ha
        rcases h2 ha with h3 | h3
        · exact Or.inl (hsh.ghostKept i h3)
        · right; rw [hsh.noneKept i h3]; exact h3)
    s.registered s h (Shrink.refl s) i hi
  exact this k hk

end Proofs.Conn
