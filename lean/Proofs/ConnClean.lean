/-
  Connection model, part 5: what `abort`, `tpc_abort`, `_invalidate_creating`, `_abort_savepoint` and a
  rollback can do to an object: nothing, make it a ghost, or disown it.
-/
import Proofs.ConnInv
namespace Proofs.Conn
open ZodbModel ZodbModel.Conn

/-- `s'` is reached from `s` by cleanup steps only -/
structure Shrink (s s' : State) : Prop where
  cache : ∀ k i, s'.cache.get k = some i → s.cache.get k = some i
  added : ∀ k i, s'.added.get k = some i → s.added.get k = some i
  oid : ∀ j, (s'.objs j).oid = (s.objs j).oid ∨ ((s'.objs j).oid = none ∧ (s.objs j).oid ≠ none)
  val : ∀ j, (s'.objs j).val = (s.objs j).val ∧ (s'.objs j).refs = (s.objs j).refs ∧
             (s'.objs j).serial = (s.objs j).serial
  status : ∀ j, (s'.objs j).status = (s.objs j).status ∨ (s'.objs j).status = .ghost ∨
                ((s.objs j).status = .changed ∧ (s'.objs j).status = .uptodate ∧ (s'.objs j).oid = none)
  ghostKept : ∀ j, (s.objs j).status = .ghost → (s'.objs j).status = .ghost
  noneKept : ∀ j, (s.objs j).oid = none → s'.objs j = s.objs j
  lost : ∀ j, (s'.objs j).oid = none → (s.objs j).oid ≠ none → (s'.objs j).status = .ghost → s'.d2 = true
  d2 : s.d2 = true → s'.d2 = true
  nextOid : s'.nextOid = s.nextOid
  snap : s'.snap = s.snap
  opened : s'.opened = s.opened

theorem Shrink.refl (s : State) : Shrink s s := by
  constructor <;> simp
  intro j h1 h2; exact absurd h1 h2

theorem Shrink.trans {a b c : State} (h1 : Shrink a b) (h2 : Shrink b c) : Shrink a c := by
  constructor
  · intro k i h; exact h1.cache k i (h2.cache k i h)
  · intro k i h; exact h1.added k i (h2.added k i h)
  · intro j
    have := h1.oid j; have := h2.oid j
    grind
  · intro j
    have := h1.val j; have := h2.val j
    grind
  · intro j
    have := h1.status j; have := h2.status j; have := h2.oid j; have := h1.ghostKept j
    have := h2.ghostKept j
    grind
  · intro j hj; exact h2.ghostKept j (h1.ghostKept j hj)
  · intro j hj
    have := h1.noneKept j hj
    rw [h2.noneKept j (by rw [this]; exact hj), this]
  · intro j hn hs hg
    by_cases hb : (b.objs j).oid = none
    · have := h2.noneKept j hb
      rw [this] at hg
      exact h2.d2 (h1.lost j hb hs hg)
    · exact h2.lost j hn hb hg
  · intro h; exact h2.d2 (h1.d2 h)
  · rw [h2.nextOid, h1.nextOid]
  · rw [h2.snap, h1.snap]
  · rw [h2.opened, h1.opened]

theorem Shrink.congr {s s' t : State} (h : Shrink s s') (ho : t.objs = s'.objs) (hc : t.cache = s'.cache)
    (ha : t.added = s'.added) (hd : t.d2 = s'.d2) (hn : t.nextOid = s'.nextOid) (hs : t.snap = s'.snap)
    (hp : t.opened = s'.opened) : Shrink s t := by
  constructor
  · rw [hc]; exact h.cache
  · rw [ha]; exact h.added
  · rw [ho]; exact h.oid
  · rw [ho]; exact h.val
  · rw [ho]; exact h.status
  · rw [ho]; exact h.ghostKept
  · rw [ho]; exact h.noneKept
  · rw [ho, hd]; exact h.lost
  · rw [hd]; exact h.d2
  · rw [hn]; exact h.nextOid
  · rw [hs]; exact h.snap
  · rw [hp]; exact h.opened

theorem invalidate_shrink {P s} (h : Str P s) (k) : Shrink s (invalidate s k) := by
  unfold invalidate
  split
  · rename_i i hi
    have := h.cacheS k i hi
    constructor <;> simp only [setO] <;> intros <;> grind
  · exact Shrink.refl s

theorem remove_shrink (s : State) (i k) (hk : (s.objs i).oid = some k) :
    Shrink s (disown { s with cache := s.cache.del k, added := s.added.del k } i) := by
  constructor
  · intro k' j hj; simp only [disown, setO, Map.get_del] at hj; grind
  · intro k' j hj; simp only [disown, setO, Map.get_del] at hj; grind
  · intro j; simp only [disown, setO]; grind
  · intro j; simp only [disown, setO]; grind
  · intro j; simp only [disown, setO]; grind
  · intro j; simp only [disown, setO]; grind
  · intro j; simp only [disown, setO]; grind
  · intro j; simp only [disown, setO]; grind
  · intro h; simp only [disown, setO]; simp [h]
  · rfl
  · rfl
  · rfl

theorem uncreate_shrink {P s} (h : Str P s) (k) : Shrink s (uncreate s k) := by
  unfold uncreate
  split
  · rename_i i hi
    have hoid := h.cacheS k i hi
    have hadd : s.added.get k = none := by
      cases ha : s.added.get k with
      | none => rfl
      | some j => have := (h.addedS k j ha).2; rw [hi] at this; cases this
    have := remove_shrink s i k hoid
    rw [Map.del_of_get_none s.added k hadd] at this
    exact this
  · exact Shrink.refl s

theorem abortOne_shrink {P s} (h : Str P s) (i) : Shrink s (abortOne s i) := by
  unfold abortOne
  split
  · exact Shrink.refl s
  · rename_i k hk
    split
    · exact (remove_shrink s i k hk).congr rfl rfl rfl rfl rfl rfl rfl
    · exact invalidate_shrink h k

/-- folding cleanup steps: `Str` is kept and the result is a `Shrink` of the start -/
theorem foldl_shrink {β : Type} {P} (f : State → β → State)
    (hstr : ∀ s x, Str P s → Str P (f s x)) (hsh : ∀ s x, Str P s → Shrink s (f s x)) :
    ∀ (l : List β) (s : State), Str P s → Shrink s (l.foldl f s) := by
  intro l
  induction l with
  | nil => intro s _; exact Shrink.refl s
  | cons x t ih =>
    intro s hs
    exact (hsh s x hs).trans (ih _ (hstr s x hs))

theorem invalidateAll_shrink {P s} (h : Str P s) (ks) : Shrink s (invalidateAll s ks) :=
  foldl_shrink invalidate (fun _ k h => invalidate_str h k) (fun _ k h => invalidate_shrink h k) ks s h

theorem invalidateCreating_shrink {P s} (h : Str P s) (ks) : Shrink s (invalidateCreating s ks) :=
  foldl_shrink uncreate (fun _ k h => uncreate_str h k) (fun _ k h => uncreate_shrink h k) ks s h

theorem abortObjs_shrink {P s} (h : Str P s) : Shrink s (abortObjs s) :=
  foldl_shrink abortOne (fun _ k h => abortOne_str h k) (fun _ k h => abortOne_shrink h k) _ s h

theorem abortSavepoint_shrink {P s} (h : Str P s) : Shrink s (abortSavepoint s) := by
  unfold abortSavepoint
  split
  · exact Shrink.refl s
  · rename_i t ht
    have h1 := invalidateCreating_shrink h t.creating.keys
    have h1s := invalidateCreating_str h t.creating.keys
    have h2 : Shrink s { invalidateCreating s t.creating.keys with sp := none } :=
      h1.congr rfl rfl rfl rfl rfl rfl rfl
    exact h2.trans (invalidateAll_shrink (h1s.congr rfl rfl rfl rfl) _)

theorem connAbort_shrink {P s} (h : Str P s) : Shrink s (connAbort s) := by
  unfold connAbort tpcCleanup
  dsimp only
  have h1 := abortObjs_shrink h
  have h1s := abortObjs_str h
  have h2 := abortSavepoint_shrink h1s
  have h2s := abortSavepoint_str h1s
  have h3 := invalidateCreating_shrink h2s (abortSavepoint (abortObjs s)).creating.keys
  exact ((h1.trans h2).trans h3).congr rfl rfl rfl rfl rfl rfl rfl

end Proofs.Conn
