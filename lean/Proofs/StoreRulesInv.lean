/-
  The inductive invariant of the commit-lock machine of `ZodbModel/StoreRules.lean` and its
  preservation by every step (C03 / C10).  Core Lean only.
-/
import Proofs.StoreRules
namespace Proofs.StoreRules
open ZodbModel ZodbModel.Resolve ZodbModel.StoreRules Proofs.Resolve

/-! ### what a store by the lock holder does -/

/-- outcome of `storeSpec`: either ConflictError and nothing but the `_unresolvable` cache changes,
    or exactly one revision is staged, it is `RevOK` against the committed history, and its oid is
    reported in `_resolved` iff it went through resolution -/
inductive StoreOutcome (E : Env) (s : Sys) (oid : Oid) (serial : Tid) (data : Record) (r : StepRes) : Prop
  | conflict (hout : r.out = .conflict) (hsys : r.sys = { s with cache := r.sys.cache })
      (hcur : ∃ ct, currentTid s.view oid = some ct ∧ serial ≠ ct)
  | stored (rev : Rev) (hoid : rev.oid = oid) (hbase : rev.base = serial) (hwanted : rev.wanted = data)
      (hok : RevOK E s.kind s.hist s.base rev)
      (hsys : r.sys = { s with cache := r.sys.cache, staged := rev :: s.staged,
                               resolved := if rev.resolved then oid :: s.resolved else s.resolved })
      (hout : r.out = if rev.resolved then .resolvedStore else .ok)

theorem revOK_accept (E : Env) (s : Sys) (oid : Oid) (serial : Tid) (data : Record)
    (h : currentTid s.view oid = none ∨ currentTid s.view oid = some serial) :
    RevOK E s.kind s.hist s.base
      { oid := oid, base := serial, data := data, wanted := data, resolved := false } := by
  unfold RevOK
  have hv : viewOf s.kind s.hist s.base = s.view := rfl
  rw [hv]
  rcases h with h | h
  · rw [h]; exact ⟨rfl, rfl⟩
  · rw [h]; exact Or.inl ⟨rfl, rfl, rfl⟩

theorem storeSpec_outcome (E : Env) (s : Sys) (oid : Oid) (serial : Tid) (data : Record) :
    StoreOutcome E s oid serial data (storeSpec E s oid serial data) := by
  unfold storeSpec
  cases hc : currentTid s.view oid with
  | none =>
    simp only
    exact .stored _ rfl rfl rfl (revOK_accept E s oid serial data (Or.inl hc)) rfl rfl
  | some ct =>
    simp only
    by_cases hne : serial = ct
    · subst hne
      simp only [if_true]
      exact .stored _ rfl rfl rfl (revOK_accept E s oid serial data (Or.inr hc)) rfl rfl
    · simp only [hne, if_false]
      cases hr : s.kind.resolves with
      | false =>
        simp only [Bool.false_eq_true, if_false]
        exact .conflict rfl rfl ⟨ct, hc, hne⟩
      | true =>
        simp only [if_true]
        cases ht : (tryToResolve E (loadSerialK s.kind s.hist s.base) s.cache oid ct serial data none).out with
        | error e =>
          simp only
          exact .conflict rfl rfl ⟨ct, hc, hne⟩
        | ok d =>
          simp only
          refine .stored { oid := oid, base := serial, data := d, wanted := data, resolved := true }
            rfl rfl rfl ?_ rfl rfl
          unfold RevOK
          have hv : viewOf s.kind s.hist s.base = s.view := rfl
          rw [hv, hc]
          right
          refine ⟨hne, rfl, ?_⟩
          obtain ⟨old, committed, m, hinv, hres, hd⟩ := (tryToResolve_ok_iff _ _ _ _ _ _ _ _ _).1 ht
          refine ⟨old, committed, m, hinv.oldLoaded, ?_, hres, hd⟩
          have := hinv.committedLoaded
          simpa [committedOf] using this

theorem storeSpec_cache_sound (E : Env) (s : Sys) (oid : Oid) (serial : Tid) (data : Record)
    (h : CacheSound E s.cache) : CacheSound E (storeSpec E s oid serial data).sys.cache := by
  unfold storeSpec
  cases currentTid s.view oid with
  | none => exact h
  | some ct =>
    simp only
    split
    · exact h
    · split
      · have := tryToResolve_cache_sound E (loadSerialK s.kind s.hist s.base) s.cache oid ct serial
          data none h
        revert this
        generalize tryToResolve E (loadSerialK s.kind s.hist s.base) s.cache oid ct serial data none = T
        intro this
        cases T.out <;> exact this
      · exact h

/-! ### the invariant -/

structure Inv (E : Env) (k : Kind) (base : Hist) (s : Sys) : Prop where
  kind : s.kind = k
  base : s.base = base
  sorted : Sorted s.view
  tidFresh : s.lock ≠ none → ∀ t ∈ s.view, t.tid < s.tid
  idle : s.lock = none → s.staged = [] ∧ s.checked = [] ∧ s.resolved = []
  inner : s.innerResolved = []
  staged : ∀ r ∈ s.staged, RevOK E s.kind s.hist s.base r
  nlu : NLU E s.kind s.base s.hist
  checked : ∀ p ∈ s.checked, currentTid s.view p.1 = some p.2
  rc : RC s.kind s.base s.hist
  cache : CacheSound E s.cache
  resolvedIff : ∀ o, o ∈ s.resolved ↔ ∃ r ∈ s.staged, r.oid = o ∧ r.resolved = true

theorem inv_init (E : Env) (k : Kind) (base : Hist) (hb : Sorted base) : Inv E k base (init k base) where
  kind := rfl
  base := rfl
  sorted := by
    cases k with
    | simple k => exact List.Pairwise.nil
    | demo kc kb => simpa [Sys.view, init, viewOf] using hb
  tidFresh := by intro h; exact absurd rfl h
  idle := fun _ => ⟨rfl, rfl, rfl⟩
  inner := rfl
  staged := by intro r hr; cases hr
  nlu := trivial
  checked := by intro p hp; cases hp
  rc := trivial
  cache := by intro c hc; cases hc
  resolvedIff := by intro o; simp [init]

theorem inv_begin (E : Env) (k : Kind) (base : Hist) (s : Sys) (t : TxnId) (tid : Tid)
    (h : Inv E k base s) (hop : OpOK s (.begin t tid)) : Inv E k base (step E s (.begin t tid)).sys := by
  cases hl : s.lock with
  | some t' =>
    have : (step E s (.begin t tid)).sys = s := by
      simp only [step, hl]; split <;> rfl
    rw [this]; exact h
  | none =>
    have : (step E s (.begin t tid)).sys =
        { s with lock := some t, tid := tid, staged := [], checked := [], resolved := [],
                 innerResolved := [], voted := false } := by
      simp only [step, hl]
    rw [this]
    exact {
      kind := h.kind, base := h.base, sorted := h.sorted
      tidFresh := fun _ => hop
      idle := by intro hh; cases hh
      inner := rfl
      staged := by intro r hr; cases hr
      nlu := h.nlu
      checked := by intro p hp; cases hp
      rc := h.rc
      cache := h.cache
      resolvedIff := by intro o; simp }

theorem inv_store (E : Env) (k : Kind) (base : Hist) (s : Sys) (t : TxnId) (oid : Oid) (serial : Tid)
    (data : Record) (h : Inv E k base s) : Inv E k base (step E s (.store t oid serial data)).sys := by
  by_cases hl : s.lock = some t
  · have hstep : (step E s (.store t oid serial data)).sys = (storeSpec E s oid serial data).sys := by
      simp only [step, hl, if_true]
      rw [storeK_eq E s h.sorted h.inner]
    rw [hstep]
    have hcs := storeSpec_cache_sound E s oid serial data h.cache
    cases storeSpec_outcome E s oid serial data with
    | conflict hout hsys _ =>
      rw [hsys] at hcs ⊢
      exact { kind := h.kind, base := h.base, sorted := h.sorted, tidFresh := h.tidFresh,
              idle := h.idle, inner := h.inner, staged := h.staged, nlu := h.nlu,
              checked := h.checked, rc := h.rc, cache := hcs, resolvedIff := h.resolvedIff }
    | stored rev hoid hbase hwanted hok hsys hout =>
      rw [hsys] at hcs ⊢
      exact {
        kind := h.kind, base := h.base, sorted := h.sorted, tidFresh := h.tidFresh
        idle := by intro hh; rw [hl] at hh; cases hh
        inner := h.inner
        staged := by
          intro r hr
          rcases List.mem_cons.1 hr with hr | hr
          · rw [hr]; exact hok
          · exact h.staged r hr
        nlu := h.nlu
        checked := h.checked
        rc := h.rc
        cache := hcs
        resolvedIff := by
          intro o
          simp only [List.mem_cons]
          cases hres : rev.resolved with
          | true =>
            simp only [if_true, List.mem_cons, h.resolvedIff o]
            constructor
            · rintro (ho | ⟨r, hr, h1, h2⟩)
              · exact ⟨rev, Or.inl rfl, by rw [hoid, ho], hres⟩
              · exact ⟨r, Or.inr hr, h1, h2⟩
            · rintro ⟨r, hr | hr, h1, h2⟩
              · left; rw [← h1, hr, hoid]
              · right; exact ⟨r, hr, h1, h2⟩
          | false =>
            simp only [Bool.false_eq_true, if_false, h.resolvedIff o]
            constructor
            · rintro ⟨r, hr, h1, h2⟩
              exact ⟨r, Or.inr hr, h1, h2⟩
            · rintro ⟨r, hr | hr, h1, h2⟩
              · rw [hr, hres] at h2; cases h2
              · exact ⟨r, hr, h1, h2⟩ }
  · have : (step E s (.store t oid serial data)).sys = s := by simp [step, hl]
    rw [this]; exact h

theorem inv_check (E : Env) (k : Kind) (base : Hist) (s : Sys) (t : TxnId) (oid : Oid) (serial : Tid)
    (h : Inv E k base s) : Inv E k base (step E s (.check t oid serial)).sys := by
  by_cases hl : s.lock = some t
  · simp only [step]
    rw [if_pos hl]
    by_cases hdel : checkDeleted s oid = true
    · rw [if_pos hdel]; exact h
    rw [if_neg hdel]
    cases hc : curK s.kind s.hist s.base oid with
    | none => exact h
    | some ct =>
      simp only
      by_cases he : ct = serial
      · simp only [he, if_true]
        exact {
          kind := h.kind, base := h.base, sorted := h.sorted, tidFresh := h.tidFresh
          idle := by intro hh; rw [hl] at hh; cases hh
          inner := h.inner, staged := h.staged, nlu := h.nlu
          checked := by
            intro p hp
            rcases List.mem_cons.1 hp with hp | hp
            · rw [hp]
              have := curK_eq_view (k := s.kind) (hist := s.hist) (base := s.base) h.sorted oid
              rw [hc, he] at this
              exact this.symm
            · exact h.checked p hp
          rc := h.rc, cache := h.cache, resolvedIff := h.resolvedIff }
      · simp only [he, if_false]; exact h
  · have : (step E s (.check t oid serial)).sys = s := by simp [step, hl]
    rw [this]; exact h

/-- what `deleteObject` does: nothing, or (FileStorage, serial = tid of the current revision) it
    stages an un-creation record -/
theorem step_delete_cases (E : Env) (s : Sys) (t : TxnId) (oid : Oid) (serial : Tid) :
    (step E s (.delete t oid serial)).sys = s ∨
    (s.kind = .simple .file ∧ s.lock = some t ∧ currentTid s.hist oid = some serial ∧
      (step E s (.delete t oid serial)).out = .ok ∧
      (step E s (.delete t oid serial)).sys =
        { s with staged := { oid := oid, base := serial, data := tomb, wanted := tomb,
                             resolved := false, deleted := true } :: s.staged }) := by
  cases s with
  | mk kind base hist lock tid staged checked resolved innerResolved voted cache =>
  by_cases hl : lock = some t
  · simp only [step]
    rw [if_pos hl]
    cases kind with
    | demo kc kb => left; rfl
    | simple sk =>
      cases sk with
      | mapping => left; rfl
      | file =>
        simp only
        cases hc : currentTid hist oid with
        | none => left; rfl
        | some ct =>
          simp only
          by_cases he : serial = ct
          · right
            rw [if_pos he]
            subst he
            refine ⟨?_, hl, ?_, ?_, ?_⟩ <;> first | rfl | trivial | exact hc
          · left; rw [if_neg he]
  · left
    simp [step, hl]

theorem inv_delete (E : Env) (k : Kind) (base : Hist) (s : Sys) (t : TxnId) (oid : Oid) (serial : Tid)
    (h : Inv E k base s) : Inv E k base (step E s (.delete t oid serial)).sys := by
  rcases step_delete_cases E s t oid serial with h0 | ⟨hk, hl, hc, _, hsys⟩
  · rw [h0]; exact h
  · rw [hsys]
    exact {
      kind := h.kind, base := h.base, sorted := h.sorted, tidFresh := h.tidFresh
      idle := by intro hh; rw [hl] at hh; cases hh
      inner := h.inner
      staged := by
        intro r hr
        rcases List.mem_cons.1 hr with hr | hr
        · rw [hr]
          unfold RevOK
          have hv : viewOf s.kind s.hist s.base = s.hist := by rw [hk]; rfl
          show (match currentTid (viewOf s.kind s.hist s.base) oid with
                | none => _
                | some ct => _)
          rw [hv, hc]
          exact Or.inl ⟨rfl, rfl, rfl⟩
        · exact h.staged r hr
      nlu := h.nlu, checked := h.checked, rc := h.rc, cache := h.cache
      resolvedIff := by
        intro o
        rw [h.resolvedIff o]
        constructor
        · rintro ⟨r, hr, h1, h2⟩
          exact ⟨r, List.mem_cons_of_mem _ hr, h1, h2⟩
        · rintro ⟨r, hr, h1, h2⟩
          rcases List.mem_cons.1 hr with hr | hr
          · rw [hr] at h2; cases h2
          · exact ⟨r, hr, h1, h2⟩ }

theorem inv_vote (E : Env) (k : Kind) (base : Hist) (s : Sys) (t : TxnId)
    (h : Inv E k base s) : Inv E k base (step E s (.vote t)).sys := by
  by_cases hl : s.lock = some t
  · have : (step E s (.vote t)).sys = { s with voted := true } := by
      simp only [step, hl, if_true]
      cases s.kind with
      | simple k => rfl
      | demo kc kb => simp only; split <;> rfl
    rw [this]
    exact { kind := h.kind, base := h.base, sorted := h.sorted, tidFresh := h.tidFresh,
            idle := h.idle, inner := h.inner, staged := h.staged, nlu := h.nlu,
            checked := h.checked, rc := h.rc, cache := h.cache, resolvedIff := h.resolvedIff }
  · have : (step E s (.vote t)).sys = s := by simp [step, hl]
    rw [this]; exact h

theorem inv_release (E : Env) (k : Kind) (base : Hist) (s : Sys)
    (hk : s.kind = k) (hb : s.base = base) (hs : Sorted s.view) (hn : NLU E s.kind s.base s.hist)
    (hr : RC s.kind s.base s.hist) (hc : CacheSound E s.cache) : Inv E k base (release s) where
  kind := hk
  base := hb
  sorted := hs
  tidFresh := by intro hh; exact absurd rfl hh
  idle := fun _ => ⟨rfl, rfl, rfl⟩
  inner := rfl
  staged := by intro r hr; cases hr
  nlu := hn
  checked := by intro p hp; cases hp
  rc := hr
  cache := hc
  resolvedIff := by intro o; simp [release]

theorem inv_finish (E : Env) (k : Kind) (base : Hist) (s : Sys) (t : TxnId)
    (h : Inv E k base s) : Inv E k base (step E s (.finish t)).sys := by
  by_cases hl : s.lock = some t
  · simp only [step]
    rw [if_pos hl]
    have hne : s.lock ≠ none := by rw [hl]; simp
    apply inv_release E k base
      { s with hist := { tid := s.tid, recs := s.staged, checked := s.checked } :: s.hist } h.kind h.base
    · show Sorted (viewOf s.kind (_ :: s.hist) s.base)
      rw [view_cons]
      unfold Sorted
      rw [List.pairwise_cons]
      exact ⟨fun t' ht' => h.tidFresh hne t' ht', h.sorted⟩
    · exact ⟨h.staged, h.nlu⟩
    · exact ⟨h.checked, h.rc⟩
    · exact h.cache
  · have : (step E s (.finish t)).sys = s := by simp [step, hl]
    rw [this]; exact h

theorem inv_abort (E : Env) (k : Kind) (base : Hist) (s : Sys) (t : TxnId)
    (h : Inv E k base s) : Inv E k base (step E s (.abort t)).sys := by
  by_cases hl : s.lock = some t
  · simp only [step]
    rw [if_pos hl]
    exact inv_release E k base s h.kind h.base h.sorted h.nlu h.rc h.cache
  · have : (step E s (.abort t)).sys = s := by simp [step, hl]
    rw [this]; exact h

theorem inv_step (E : Env) (k : Kind) (base : Hist) (s : Sys) (op : Op)
    (h : Inv E k base s) (hop : OpOK s op) : Inv E k base (step E s op).sys := by
  cases op with
  | begin t tid => exact inv_begin E k base s t tid h hop
  | store t oid serial data => exact inv_store E k base s t oid serial data h
  | check t oid serial => exact inv_check E k base s t oid serial h
  | delete t oid serial => exact inv_delete E k base s t oid serial h
  | vote t => exact inv_vote E k base s t h
  | finish t => exact inv_finish E k base s t h
  | abort t => exact inv_abort E k base s t h

theorem reachable_inv (E : Env) (k : Kind) (base : Hist) (hb : Sorted base) (s : Sys)
    (h : Reachable E k base s) : Inv E k base s := by
  induction h with
  | init => exact inv_init E k base hb
  | step op _ hop ih => exact inv_step E k base _ op ih hop

end Proofs.StoreRules
