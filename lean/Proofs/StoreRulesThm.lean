/-
  Consequences of the invariant (`Proofs/StoreRulesInv.lean`) in the shape the property files
  `Props/C03.lean` and `Props/C10.lean` state them.  Core Lean only.
-/
import Proofs.StoreRulesInv
namespace Proofs.StoreRules
open ZodbModel ZodbModel.Resolve ZodbModel.StoreRules Proofs.Resolve

/-! ### history only grows at the holder's finish -/

theorem storeSpec_hist (E : Env) (s : Sys) (oid : Oid) (serial : Tid) (data : Record) :
    (storeSpec E s oid serial data).sys.hist = s.hist ∧
    (storeSpec E s oid serial data).sys.lock = s.lock ∧
    (storeSpec E s oid serial data).sys.base = s.base ∧
    (storeSpec E s oid serial data).sys.kind = s.kind ∧
    (storeSpec E s oid serial data).sys.checked = s.checked ∧
    (storeSpec E s oid serial data).sys.tid = s.tid := by
  cases storeSpec_outcome E s oid serial data with
  | conflict _ hsys _ => rw [hsys]; exact ⟨rfl, rfl, rfl, rfl, rfl, rfl⟩
  | stored _ _ _ _ _ hsys _ => rw [hsys]; exact ⟨rfl, rfl, rfl, rfl, rfl, rfl⟩

theorem storeK_hist (E : Env) (s : Sys) (oid : Oid) (serial : Tid) (data : Record) :
    (storeK E s oid serial data).sys.hist = s.hist := by
  unfold storeK
  cases s.kind with
  | simple k =>
    simp only
    cases (storeSimple E k s.hist s.cache oid serial data).out with
    | none => rfl
    | some p => rfl
  | demo kc kb =>
    simp only
    split
    · cases (storeSimple E kc s.hist s.cache oid serial data).out with
      | none => rfl
      | some p => rfl
    · generalize tryToResolve E (loadSerialK (.demo kc kb) s.hist s.base) s.cache oid
        ((curK (.demo kc kb) s.hist s.base oid).getD serial) serial data none = T
      cases hT : T.out with
      | error e => rfl
      | ok rdata =>
        simp only
        cases (storeSimple E kc s.hist T.cache oid
          ((curK (.demo kc kb) s.hist s.base oid).getD serial) rdata).out with
        | none => rfl
        | some p => rfl

theorem step_check_sys (E : Env) (s : Sys) (t : TxnId) (oid : Oid) (serial : Tid) :
    (step E s (.check t oid serial)).sys = s ∨
    ((step E s (.check t oid serial)).out = .ok ∧
     (step E s (.check t oid serial)).sys = { s with checked := (oid, serial) :: s.checked }) := by
  simp only [step]
  split
  · by_cases hdel : checkDeleted s oid = true
    · rw [if_pos hdel]; left; rfl
    · rw [if_neg hdel]
      cases curK s.kind s.hist s.base oid with
      | none => left; rfl
      | some ct =>
        simp only
        split
        · right; exact ⟨rfl, rfl⟩
        · left; rfl
  · left; rfl

/-- in ANY state (reachable or not) the committed history changes only when the lock holder's
    `tpc_finish` prepends its own staged transaction -/
theorem step_hist (E : Env) (s : Sys) (op : Op) :
    (step E s op).sys.hist = s.hist ∨
    (∃ t, op = .finish t ∧ s.lock = some t ∧
      (step E s op).sys.hist = { tid := s.tid, recs := s.staged, checked := s.checked } :: s.hist) := by
  cases op with
  | begin t tid =>
    left
    simp only [step]
    cases s.lock with
    | none => rfl
    | some t' => simp only; split <;> rfl
  | store t oid serial data =>
    left
    simp only [step]
    split
    · exact storeK_hist E s oid serial data
    · rfl
  | check t oid serial =>
    left
    rcases step_check_sys E s t oid serial with h | ⟨_, h⟩ <;> rw [h]
  | delete t oid serial =>
    left
    rcases step_delete_cases E s t oid serial with h | ⟨_, _, _, _, h⟩ <;> rw [h]
  | vote t =>
    left
    simp only [step]
    split
    · cases s.kind with
      | simple k => rfl
      | demo kc kb => simp only; split <;> rfl
    · rfl
  | finish t =>
    by_cases hl : s.lock = some t
    · right
      refine ⟨t, rfl, hl, ?_⟩
      simp only [step]
      rw [if_pos hl]
      rfl
    · left
      simp only [step]
      rw [if_neg hl]
  | abort t =>
    left
    simp only [step]
    split <;> rfl

/-- the lock is taken only by a `begin` on a free lock and given up only by the holder's
    finish / abort -/
theorem step_lock (E : Env) (s : Sys) (op : Op) :
    (step E s op).sys.lock = s.lock ∨
    (s.lock = none ∧ ∃ t tid, op = .begin t tid ∧ (step E s op).sys.lock = some t) ∨
    (∃ t, s.lock = some t ∧ (op = .finish t ∨ op = .abort t) ∧ (step E s op).sys.lock = none) := by
  cases op with
  | begin t tid =>
    cases hl : s.lock with
    | none => right; left; exact ⟨rfl, t, tid, rfl, by simp [step, hl]⟩
    | some t' =>
      left
      simp only [step, hl]
      split <;> simp [hl]
  | store t oid serial data =>
    left
    simp only [step]
    split
    · rename_i hl
      unfold storeK
      cases s.kind with
      | simple k =>
        simp only
        cases (storeSimple E k s.hist s.cache oid serial data).out with
        | none => rfl
        | some p => rfl
      | demo kc kb =>
        simp only
        split
        · cases (storeSimple E kc s.hist s.cache oid serial data).out with
          | none => rfl
          | some p => rfl
        · generalize tryToResolve E (loadSerialK (.demo kc kb) s.hist s.base) s.cache oid
            ((curK (.demo kc kb) s.hist s.base oid).getD serial) serial data none = T
          cases hT : T.out with
          | error e => rfl
          | ok rdata =>
            simp only
            cases (storeSimple E kc s.hist T.cache oid
              ((curK (.demo kc kb) s.hist s.base oid).getD serial) rdata).out with
            | none => rfl
            | some p => rfl
    · rfl
  | check t oid serial =>
    left
    rcases step_check_sys E s t oid serial with h | ⟨_, h⟩ <;> rw [h]
  | delete t oid serial =>
    left
    rcases step_delete_cases E s t oid serial with h | ⟨_, _, _, _, h⟩ <;> rw [h]
  | vote t =>
    left
    simp only [step]
    split
    · cases s.kind with
      | simple k => rfl
      | demo kc kb => simp only; split <;> rfl
    · rfl
  | finish t =>
    by_cases hl : s.lock = some t
    · right; right
      refine ⟨t, hl, Or.inl rfl, ?_⟩
      simp only [step]
      rw [if_pos hl]
      rfl
    · left
      simp only [step]
      rw [if_neg hl]
  | abort t =>
    by_cases hl : s.lock = some t
    · right; right
      refine ⟨t, hl, Or.inr rfl, ?_⟩
      simp only [step]
      rw [if_pos hl]
      rfl
    · left
      simp only [step]
      rw [if_neg hl]

/-- a whole schedule fragment in which the holder `t` makes no call leaves the state untouched -/
theorem run_nonholder (E : Env) (s : Sys) (t : TxnId) (ops : List Op) (hl : s.lock = some t)
    (ha : ∀ op ∈ ops, op.actor ≠ t) : run E s ops = s := by
  induction ops generalizing s with
  | nil => rfl
  | cons op ops ih =>
    simp only [run]
    have h1 : (step E s op).sys = s := step_nonholder E s t op hl (ha op List.mem_cons_self)
    rw [h1]
    exact ih s hl (fun op' h' => ha op' (List.mem_cons_of_mem _ h'))

/-! ### outputs of the steps in reachable states -/

theorem step_store_eq (E : Env) (k : Kind) (base : Hist) (s : Sys) (h : Inv E k base s)
    (t : TxnId) (hl : s.lock = some t) (oid : Oid) (serial : Tid) (data : Record) :
    step E s (.store t oid serial data) = storeSpec E s oid serial data := by
  simp only [step]
  rw [if_pos hl]
  exact storeK_eq E s h.sorted h.inner oid serial data

theorem step_check_out (E : Env) (k : Kind) (base : Hist) (s : Sys) (h : Inv E k base s)
    (t : TxnId) (oid : Oid) (serial : Tid) :
    (step E s (.check t oid serial)).out =
      if s.lock = some t then
        if checkDeleted s oid then .keyError else
        match currentTid s.view oid with
        | none => .keyError
        | some ct => if ct = serial then .ok else .readConflict
      else .txnError := by
  have hc := curK_eq_view (k := s.kind) (hist := s.hist) (base := s.base) h.sorted oid
  have hv : viewOf s.kind s.hist s.base = s.view := rfl
  rw [hv] at hc
  simp only [step]
  split
  · by_cases hdel : checkDeleted s oid = true
    · rw [if_pos hdel, if_pos hdel]
    · rw [if_neg hdel, if_neg hdel, hc]
      cases currentTid s.view oid with
      | none => rfl
      | some ct => simp only; split <;> rfl
  · rfl

/-- a check that returns ok: the complete effect -/
theorem step_check_ok (E : Env) (s : Sys) (t : TxnId) (oid : Oid) (serial : Tid)
    (ho : (step E s (.check t oid serial)).out = .ok) :
    s.lock = some t ∧ checkDeleted s oid = false ∧ curK s.kind s.hist s.base oid = some serial ∧
    (step E s (.check t oid serial)).sys = { s with checked := (oid, serial) :: s.checked } := by
  simp only [step] at ho ⊢
  by_cases hl : s.lock = some t
  · rw [if_pos hl] at ho ⊢
    by_cases hdel : checkDeleted s oid = true
    · rw [if_pos hdel] at ho; cases ho
    · rw [if_neg hdel] at ho ⊢
      cases hc : curK s.kind s.hist s.base oid with
      | none => rw [hc] at ho; cases ho
      | some ct =>
        rw [hc] at ho
        simp only at ho ⊢
        by_cases he : ct = serial
        · rw [if_pos he]
          refine ⟨hl, ?_, by rw [he], rfl⟩
          cases hx : checkDeleted s oid with
          | true => exact absurd hx hdel
          | false => rfl
        · rw [if_neg he] at ho; cases ho
  · rw [if_neg hl] at ho; cases ho

theorem step_vote_out (E : Env) (k : Kind) (base : Hist) (s : Sys) (h : Inv E k base s)
    (t : TxnId) (hl : s.lock = some t) : (step E s (.vote t)).out = .voted s.resolved := by
  simp only [step]
  rw [if_pos hl]
  cases s.kind with
  | simple k => rfl
  | demo kc kb => simp only [h.inner, if_true]

/-! ### NLU in "every split of the history" form -/

theorem nlu_split (E : Env) (k : Kind) (base : Hist) (hist : Hist) (h : NLU E k base hist)
    (newer : Hist) (t : Txn) (older : Hist) (hs : hist = newer ++ t :: older) :
    ∀ r ∈ t.recs, RevOK E k older base r := by
  induction newer generalizing hist with
  | nil =>
    subst hs
    exact h.1
  | cons n newer ih =>
    subst hs
    exact ih (newer ++ t :: older) h.2 rfl

theorem rc_split (k : Kind) (base : Hist) (hist : Hist) (h : RC k base hist)
    (newer : Hist) (t : Txn) (older : Hist) (hs : hist = newer ++ t :: older) :
    ∀ p ∈ t.checked, currentTid (viewOf k older base) p.1 = some p.2 := by
  induction newer generalizing hist with
  | nil =>
    subst hs
    exact h.1
  | cons n newer ih =>
    subst hs
    exact ih (newer ++ t :: older) h.2 rfl

/-! ### conflict resolution through the machine -/

/-- a store that goes through resolution: the exact result, including the resolver call -/
theorem storeSpec_resolved (E : Env) (s : Sys) (oid : Oid) (serial ct : Tid) (data : Record)
    (hc : currentTid s.view oid = some ct) (hne : serial ≠ ct) (hk : s.kind.resolves = true)
    (old committed : Record) (m : LState)
    (hi : Invoked E (loadSerialK s.kind s.hist s.base) s.cache oid ct serial data none old committed)
    (hr : E.resolver data.hdr.cls (loadState E.ci old.state) (loadState E.ci committed.state)
            (loadState E.ci data.state) = .ok m) :
    storeSpec E s oid serial data =
      { sys := { s with staged := { oid := oid, base := serial,
                                    data := { hdr := data.hdr, state := dumpState m },
                                    wanted := data, resolved := true } :: s.staged,
                        resolved := oid :: s.resolved },
        out := .resolvedStore,
        calls := [{ cls := data.hdr.cls, old := loadState E.ci old.state,
                    committed := loadState E.ci committed.state,
                    new := loadState E.ci data.state }] } := by
  have hT : tryToResolve E (loadSerialK s.kind s.hist s.base) s.cache oid ct serial data none =
      { out := .ok { hdr := data.hdr, state := dumpState m }, cache := s.cache,
        call := some { cls := data.hdr.cls, old := loadState E.ci old.state,
                       committed := loadState E.ci committed.state,
                       new := loadState E.ci data.state } } := by
    unfold tryToResolve
    rw [tryCore_invoked E _ s.cache oid ct serial data none old committed hi]
    simp only [hr, funnel]
  unfold storeSpec
  rw [hc]
  simp only [hne, if_false, hk, if_true, hT, Option.toList]

/-- a store that conflicts and cannot be resolved -/
theorem storeSpec_unresolvable (E : Env) (s : Sys) (oid : Oid) (serial ct : Tid) (data : Record)
    (hc : currentTid s.view oid = some ct) (hne : serial ≠ ct)
    (hbad : s.kind.resolves = false ∨
      (tryToResolve E (loadSerialK s.kind s.hist s.base) s.cache oid ct serial data none).out =
        .error { oid := oid, committedSerial := ct, oldSerial := serial }) :
    (storeSpec E s oid serial data).out = .conflict ∧
    (storeSpec E s oid serial data).sys = { s with cache := (storeSpec E s oid serial data).sys.cache } := by
  unfold storeSpec
  rw [hc]
  simp only [hne, if_false]
  cases hk : s.kind.resolves with
  | false => simp only [Bool.false_eq_true, if_false]; exact ⟨trivial, trivial⟩
  | true =>
    simp only [if_true]
    rcases hbad with hbad | hbad
    · rw [hk] at hbad; cases hbad
    · rw [hbad]
      exact ⟨rfl, rfl⟩

/-- the resolver is invoked at most once per store, and only with the three states the property
    names -/
theorem storeSpec_calls (E : Env) (s : Sys) (oid : Oid) (serial : Tid) (data : Record) (c : Call)
    (hc : c ∈ (storeSpec E s oid serial data).calls) :
    ∃ ct old committed, currentTid s.view oid = some ct ∧ serial ≠ ct ∧
      loadSerialK s.kind s.hist s.base oid serial = some old ∧
      loadSerialK s.kind s.hist s.base oid ct = some committed ∧
      (storeSpec E s oid serial data).calls = [c] ∧
      c = { cls := data.hdr.cls, old := loadState E.ci old.state,
            committed := loadState E.ci committed.state, new := loadState E.ci data.state } := by
  unfold storeSpec at hc ⊢
  cases hcur : currentTid s.view oid with
  | none => rw [hcur] at hc; simp [acceptRes] at hc
  | some ct =>
    rw [hcur] at hc
    simp only at hc ⊢
    by_cases hne : serial = ct
    · simp [hne, acceptRes] at hc
    · simp only [hne, if_false] at hc ⊢
      cases hk : s.kind.resolves with
      | false => rw [hk] at hc; simp at hc
      | true =>
        rw [hk] at hc
        simp only [if_true] at hc ⊢
        have hcall := tryToResolve_call E (loadSerialK s.kind s.hist s.base) s.cache oid ct serial data none
        revert hc hcall
        generalize tryToResolve E (loadSerialK s.kind s.hist s.base) s.cache oid ct serial data none = T
        intro hc hcall
        have hmem : c ∈ T.call.toList := by
          cases hT : T.out with
          | ok d => rw [hT] at hc; exact hc
          | error e => rw [hT] at hc; exact hc
        cases hcl : T.call with
        | none => rw [hcl] at hmem; simp at hmem
        | some c' =>
          rw [hcl] at hmem
          simp only [Option.toList, List.mem_singleton] at hmem
          subst hmem
          obtain ⟨old, committed, hinv, hcq⟩ := hcall c hcl
          refine ⟨ct, old, committed, rfl, hne, hinv.oldLoaded, ?_, ?_, hcq⟩
          · have := hinv.committedLoaded
            simpa [committedOf] using this
          · cases hT : T.out <;> simp [Option.toList]


/-- a store whose outcome is `resolvedStore`: the complete result -/
theorem storeSpec_resolvedStore (E : Env) (s : Sys) (oid : Oid) (serial : Tid) (data : Record)
    (ho : (storeSpec E s oid serial data).out = .resolvedStore) :
    ∃ ct old committed m, currentTid s.view oid = some ct ∧ serial ≠ ct ∧ s.kind.resolves = true ∧
      Invoked E (loadSerialK s.kind s.hist s.base) s.cache oid ct serial data none old committed ∧
      E.resolver data.hdr.cls (loadState E.ci old.state) (loadState E.ci committed.state)
        (loadState E.ci data.state) = .ok m := by
  unfold storeSpec at ho
  cases hc : currentTid s.view oid with
  | none => rw [hc] at ho; simp [acceptRes] at ho
  | some ct =>
    rw [hc] at ho
    simp only at ho
    by_cases hne : serial = ct
    · simp [hne, acceptRes] at ho
    · simp only [hne, if_false] at ho
      cases hk : s.kind.resolves with
      | false => rw [hk] at ho; simp at ho
      | true =>
        rw [hk] at ho
        simp only [if_true] at ho
        cases ht : (tryToResolve E (loadSerialK s.kind s.hist s.base) s.cache oid ct serial data none).out with
        | error e => rw [ht] at ho; simp at ho
        | ok d =>
          obtain ⟨old, committed, m, hinv, hres, _⟩ := (tryToResolve_ok_iff _ _ _ _ _ _ _ _ _).1 ht
          exact ⟨ct, old, committed, m, rfl, hne, rfl, hinv, hres⟩

/-! ### concrete runs are reachable (used by the non-vacuity examples) -/

/-- every `begin` of the run draws a tid later than everything visible at that moment -/
def RunOK (E : Env) : Sys → List Op → Prop
  | _, [] => True
  | s, op :: ops => OpOK s op ∧ RunOK E (step E s op).sys ops

theorem reachable_run (E : Env) (k : Kind) (base : Hist) (s : Sys) (h : Reachable E k base s)
    (ops : List Op) (hok : RunOK E s ops) : Reachable E k base (run E s ops) := by
  induction ops generalizing s with
  | nil => exact h
  | cons op ops ih => exact ih _ (.step op h hok.1) hok.2

instance (s : Sys) (op : Op) : Decidable (OpOK s op) := by
  cases op <;> unfold OpOK <;> infer_instance

instance instDecidableRunOK (E : Env) : (s : Sys) → (ops : List Op) → Decidable (RunOK E s ops)
  | _, [] => isTrue trivial
  | s, op :: ops =>
    have := instDecidableRunOK E (step E s op).sys ops
    by unfold RunOK; infer_instance

/-! ### a successful readCurrent check stays valid until the holder itself finishes or aborts -/

theorem step_vote_sys (E : Env) (s : Sys) (t : TxnId) (hl : s.lock = some t) :
    (step E s (.vote t)).sys = { s with voted := true } := by
  simp only [step]
  rw [if_pos hl]
  cases s.kind with
  | simple k => rfl
  | demo kc kb => simp only; split <;> rfl

theorem step_keeps_checked (E : Env) (k : Kind) (base : Hist) (s : Sys) (hi : Inv E k base s)
    (t : TxnId) (hl : s.lock = some t) (op : Op) (h1 : op ≠ .finish t) (h2 : op ≠ .abort t) :
    (step E s op).sys.lock = some t ∧ ∀ p ∈ s.checked, p ∈ (step E s op).sys.checked := by
  by_cases ha : op.actor = t
  · cases op with
    | begin t' tid =>
      simp only [Op.actor] at ha
      subst ha
      have : (step E s (.begin t' tid)).sys = s := by simp [step, hl]
      rw [this]; exact ⟨hl, fun p hp => hp⟩
    | store t' oid serial data =>
      simp only [Op.actor] at ha
      subst ha
      rw [step_store_eq E k base s hi t' hl]
      obtain ⟨_, h2', _, _, h5, _⟩ := storeSpec_hist E s oid serial data
      rw [h2', h5]
      exact ⟨hl, fun p hp => hp⟩
    | check t' oid serial =>
      rcases step_check_sys E s t' oid serial with h | ⟨_, h⟩
      · rw [h]; exact ⟨hl, fun p hp => hp⟩
      · rw [h]; exact ⟨hl, fun p hp => List.mem_cons_of_mem _ hp⟩
    | delete t' oid serial =>
      rcases step_delete_cases E s t' oid serial with h | ⟨_, _, _, _, h⟩
      · rw [h]; exact ⟨hl, fun p hp => hp⟩
      · rw [h]; exact ⟨hl, fun p hp => hp⟩
    | vote t' =>
      simp only [Op.actor] at ha
      subst ha
      rw [step_vote_sys E s t' hl]
      exact ⟨hl, fun p hp => hp⟩
    | finish t' =>
      simp only [Op.actor] at ha
      subst ha
      exact absurd rfl h1
    | abort t' =>
      simp only [Op.actor] at ha
      subst ha
      exact absurd rfl h2
  · rw [step_nonholder E s t op hl ha]
    exact ⟨hl, fun p hp => hp⟩

/-- over ANY continuation of the schedule that does not contain the holder's own finish / abort,
    the holder keeps the lock and every pair it has checked successfully is still current -/
theorem run_keeps_checked (E : Env) (k : Kind) (base : Hist) (hb : Sorted base) (s : Sys)
    (h : Reachable E k base s) (t : TxnId) (hl : s.lock = some t) (ops : List Op)
    (hops : ∀ op ∈ ops, op ≠ .finish t ∧ op ≠ .abort t) (hok : RunOK E s ops) :
    (run E s ops).lock = some t ∧ ∀ p ∈ s.checked, currentTid (run E s ops).view p.1 = some p.2 := by
  induction ops generalizing s with
  | nil =>
    exact ⟨hl, (reachable_inv E k base hb s h).checked⟩
  | cons op ops ih =>
    simp only [run]
    have hi := reachable_inv E k base hb s h
    obtain ⟨h1, h2⟩ := hops op List.mem_cons_self
    obtain ⟨hl', hck⟩ := step_keeps_checked E k base s hi t hl op h1 h2
    obtain ⟨r1, r2⟩ := ih (step E s op).sys (.step op h hok.1) hl'
      (fun op' h' => hops op' (List.mem_cons_of_mem _ h')) hok.2
    exact ⟨r1, fun p hp => r2 p (hck p hp)⟩

end Proofs.StoreRules
