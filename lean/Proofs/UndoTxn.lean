/-
  Helper lemmas for C06, part 5: a whole undo transaction (`undoTxn`: begin, undo calls,
  abort-or-finish) on a well-formed log.  Core Lean only.
-/
import Proofs.UndoCall
namespace Proofs.Undo
open ZodbModel ZodbModel.Undo

/-! ### one call, as `undoCall` returns it -/

theorem undoCall_eq (resolve : Resolver) {newer : Log} {T : Txn} {older : Log}
    (hInv : Inv (newer ++ T :: older)) (S : List Rec) (utid : Nat) :
    undoCall resolve (newer ++ T :: older) S utid T.tid =
      if T.packed then .error .nonUndoable
      else
        let res := undoLoop resolve S (flat (newer ++ T :: older)) utid (flat older).length T.recs
        if res.2 = [] then .ok (res.1 ++ S, res.1.map (·.oid)) else .error (.failures res.2) := by
  unfold undoCall
  rw [txnFind_inv hInv]

theorem list_eq_nil_iff_forall_not_mem {α} (l : List α) : l = [] ↔ ∀ a, a ∉ l := by
  cases l with
  | nil => simp
  | cons a l => simp only [reduceCtorEq, false_iff]; exact fun h => h a (by simp)

/-- one undo call succeeds iff no object of `T` is refused -/
theorem undoCall_ok_iff (resolve : Resolver) {newer : Log} {T : Txn} {older : Log}
    (hInv : Inv (newer ++ T :: older)) (hp : T.packed = false) {utid : Nat} {S : List Rec}
    (hS : StagedOK utid (flat (newer ++ T :: older)) S) :
    (∃ x, undoCall resolve (newer ++ T :: older) S utid T.tid = .ok x) ↔
      ∀ oid ∈ T.oids,
        verdictFor resolve (S ++ flat (newer ++ T :: older)) T older oid ≠ .refuse := by
  rw [undoCall_eq resolve hInv, hp]
  simp only [Bool.false_eq_true, if_false]
  have hiff := undoLoop_fail_iff resolve hInv hp hS
  constructor
  · rintro ⟨x, hx⟩ oid ho hv
    split at hx
    · rename_i hnil
      have := (hiff oid).2 ⟨ho, hv⟩
      rw [hnil] at this; simp at this
    · simp at hx
  · intro h
    have hnil : (undoLoop resolve S (flat (newer ++ T :: older)) utid (flat older).length T.recs).2
        = [] := by
      rw [list_eq_nil_iff_forall_not_mem]
      intro oid hm
      obtain ⟨ho, hv⟩ := (hiff oid).1 hm
      exact h oid ho hv
    rw [if_pos hnil]
    exact ⟨_, rfl⟩

/-- shape and effect of a successful undo call -/
theorem undoCall_ok (resolve : Resolver) {newer : Log} {T : Txn} {older : Log}
    (hInv : Inv (newer ++ T :: older)) {utid : Nat} {S : List Rec}
    (hS : StagedOK utid (flat (newer ++ T :: older)) S) {S' : List Rec} {oids : List Nat}
    (h : undoCall resolve (newer ++ T :: older) S utid T.tid = .ok (S', oids)) :
    let F := flat (newer ++ T :: older)
    ∃ N, S' = N ++ S ∧ oids = N.map (·.oid) ∧ StagedOK utid F S' ∧ T.packed = false ∧
      N = (undoLoop resolve S F utid (flat older).length T.recs).1 ∧
      (∀ oid, oid ∈ oids ↔ oid ∈ T.oids) ∧
      (∀ oid ∈ T.oids, verdictFor resolve (S ++ F) T older oid ≠ .refuse) := by
  intro F
  rw [undoCall_eq resolve hInv] at h
  by_cases hp : T.packed = true
  · rw [if_pos hp] at h; simp at h
  · rw [if_neg hp] at h
    have hp' : T.packed = false := by simpa using hp
    simp only at h
    split at h
    · rename_i hnil
      simp only [Except.ok.injEq, Prod.mk.injEq] at h
      obtain ⟨h1, h2⟩ := h
      have hN := undoLoop_staged resolve hInv hp' utid S
      have hiff := undoLoop_fail_iff resolve hInv hp' hS
      have hnoref : ∀ oid ∈ T.oids, verdictFor resolve (S ++ F) T older oid ≠ .refuse := by
        intro oid ho hv
        have := (hiff oid).2 ⟨ho, hv⟩
        rw [hnil] at this; simp at this
      refine ⟨_, h1.symm, h2.symm, ?_, hp', rfl, ?_, hnoref⟩
      · rw [← h1]
        intro x hx
        rcases List.mem_append.1 hx with hx | hx
        · exact hN x hx
        · exact hS x hx
      · intro oid
        rw [← h2]
        constructor
        · intro hm
          obtain ⟨x, hx, hxo⟩ := List.mem_map.1 hm
          obtain ⟨_, _, r, hr, _, hro, _⟩ := undoLoop_mem resolve S F utid _ T.recs x hx
          exact List.mem_map.2 ⟨r, hr, by rw [hro, hxo]⟩
        · intro ho
          obtain ⟨r, k, hn⟩ := newestFor_isSome_of_mem ho
          have hrec := undoRecord_ctx resolve hInv hp' hS hn
          have hv := hnoref oid ho
          cases hpl : verdictPayload r (verdictFor resolve (S ++ F) T older oid) with
          | none => exact absurd (verdictPayload_eq_none.1 hpl) hv
          | some pl =>
            have := (undoLoop_spec resolve S F utid (flat older).length oid T.recs r k hn).2 pl
              (by rw [hrec]; exact hpl)
            have hm := List.mem_of_find?_eq_some this
            exact List.mem_map.2 ⟨_, hm, rfl⟩
    · simp at h

/-! ### the undo transaction -/

theorem undoTxn_single (resolve : Resolver) (L : Log) (utid tid : Nat) :
    undoTxn resolve L utid [tid] =
      match undoCall resolve L [] utid tid with
      | .error e => (L, some e)
      | .ok (S, _) => ({ tid := utid, packed := false, recs := S } :: L, none) := by
  unfold undoTxn undoAll
  cases undoCall resolve L [] utid tid with
  | error e => rfl
  | ok x => rfl

theorem stagedOK_nil (utid : Nat) (F : List Rec) : StagedOK utid F [] := by
  intro s hs; simp at hs

/-- `undoAll` keeps the staged records well formed -/
theorem undoAll_staged (resolve : Resolver) {L : Log} (hInv : Inv L) (utid : Nat) (ids : List Nat)
    (S S' : List Rec) (hS : StagedOK utid (flat L) S)
    (h : undoAll resolve L utid ids S = .ok S') : StagedOK utid (flat L) S' := by
  induction ids generalizing S with
  | nil => simp only [undoAll, Except.ok.injEq] at h; rw [← h]; exact hS
  | cons tid rest ih =>
    simp only [undoAll] at h
    cases hc : undoCall resolve L S utid tid with
    | error e => rw [hc] at h; simp at h
    | ok x =>
      obtain ⟨S1, oids⟩ := x
      rw [hc] at h
      simp only at h
      apply ih S1 _ h
      -- locate the transaction
      unfold undoCall at hc
      cases hf : txnFind tid L with
      | none => rw [hf] at hc; simp at hc
      | some y =>
        obtain ⟨T, older⟩ := y
        obtain ⟨newer, hL, ht⟩ := txnFind_some hf
        subst hL
        have hc' : undoCall resolve (newer ++ T :: older) S utid T.tid = .ok (S1, oids) := by
          unfold undoCall; rw [ht, hf]; rw [hf] at hc; exact hc
        obtain ⟨N, _, _, hok, _⟩ := undoCall_ok resolve hInv hS hc'
        exact hok

/-- a successful undo transaction is one ordinary, well-formed transaction appended to the log -/
theorem undoTxn_inv (resolve : Resolver) {L : Log} (hInv : Inv L) (utid : Nat)
    (hu : ∀ t ∈ L, t.tid < utid) (ids : List Nat) {L' : Log}
    (h : undoTxn resolve L utid ids = (L', none)) :
    ∃ U, L' = U :: L ∧ U.tid = utid ∧ U.packed = false ∧ Inv (U :: L) := by
  unfold undoTxn at h
  cases ha : undoAll resolve L utid ids [] with
  | error e => rw [ha] at h; simp at h
  | ok S =>
    rw [ha] at h
    simp only [Prod.mk.injEq, and_true] at h
    refine ⟨_, h.symm, rfl, rfl, ?_, hu, (fun hc => by cases hc), hInv⟩
    exact undoAll_staged resolve hInv utid ids [] S (stagedOK_nil _ _) ha

/-! ### untouched objects and earlier revisions -/

theorem loadBefore_staged {utid : Nat} {F N : List Rec} (hN : StagedOK utid F N) (oid b : Nat)
    (hb : b ≤ utid) (hk : lastPos oid F ≠ 0 ∨ ∀ n ∈ N, n.oid ≠ oid) :
    (loadBefore (N ++ F) oid b).rev = (loadBefore F oid b).rev := by
  rcases hk with hk | hk
  · unfold loadBefore
    have : lastPos oid (N ++ F) ≠ 0 := by
      rw [lastPos_append]; split <;> omega
    rw [if_neg hk, if_neg this]
    apply chaseBefore_newer
    intro n hn ho
    have := hN n hn
    exact ⟨by rw [this.1]; exact hb, by rw [← ho]; exact this.2.1 rfl⟩
  · rw [loadBefore_append_of_not_mem oid b N F hk]

theorem loadSerial_staged {utid : Nat} {F N : List Rec} (hN : StagedOK utid F N) (oid s : Nat)
    (hs : s < utid) : loadSerial (N ++ F) oid s = loadSerial F oid s := by
  unfold loadSerial
  apply chaseSerial_newer
  intro n hn ho
  have := hN n hn
  exact ⟨by rw [this.1]; exact hs, by rw [← ho]; exact this.2.1 rfl⟩

/-! ### undoing the newest transaction -/

theorem sameRev_self (V : List Rec) (oid : Nat) : sameRev V oid (lastPos oid V) = true := by
  simp [sameRev]

theorem specVerdict_same (resolve : Resolver) (oid : Nat) (u c p : Option Bytes) :
    specVerdict resolve oid true u c p = .restore := by
  simp [specVerdict]

end Proofs.Undo
