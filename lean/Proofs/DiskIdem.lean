/-
  Recovery is idempotent on ARBITRARY bytes (not only on crash images of a history): whatever a
  writable open makes of a file, opening the result again finds the same state and has nothing to
  cut off.  Core Lean only.
-/
import Proofs.FormatLocal
import Proofs.Disk
namespace Proofs.Disk
open ZodbModel ZodbModel.Format ZodbModel.Disk Proofs.Format

theorem recover_idempotent_any (b : Bytes) (r : Recovered) (h : recover b = .ok r)
    (hs : r.how ≠ .stop) :
    recover r.bytes = .ok { r with how := .eof, saved := none } := by
  unfold recover at h
  cases hri : readIndex b 4 [] 0 with
  | error e => rw [hri] at h; simp at h
  | ok sr =>
    rw [hri] at h
    simp only [Except.ok.injEq] at h
    subst h
    simp only [] at hs ⊢
    unfold readIndex at hri
    split at hri
    · -- the empty file: gets the magic written
      rename_i h0
      simp only [Except.ok.injEq] at hri
      subst hri
      rw [if_pos h0]
      simp [recover, readIndex, magic, scan, parseTxn_nil]
    · rename_i h0
      split at hri
      · simp at hri
      · rename_i h4
        split at hri
        · simp at hri
        · rename_i hmagic
          have hmagic' : b.take 4 = magic := by
            by_cases hx : b.take 4 = magic
            · exact hx
            · exact absurd hx (by simpa using hmagic)
          rw [if_neg h0]
          have hge := scan_pos_ge _ _ _ _ _ hri
          have hlen : (b.take sr.pos).length = min sr.pos b.length := List.length_take
          have hscan := scan_take _ _ _ _ _ hri hs (by simp; omega)
          have hri2 : readIndex (b.take sr.pos) 4 [] 0 = .ok { sr with how := .eof } := by
            unfold readIndex
            rw [if_neg (by omega), if_neg (by omega), take_take_ge _ hge, if_neg (by simp [hmagic']),
              List.drop_take,
              scan_fuel _ (b.length + 1) _ _ _ (by simp; omega) (by simp; omega)]
            exact hscan
          have key : ∀ (x : Bytes), x = b.take sr.pos →
              recover x = .ok { bytes := x, pos := sr.pos, index := sr.index, ltid := sr.ltid,
                                txns := sr.txns, how := .eof, saved := none } := by
            intro x hx
            subst hx
            simp only [recover, hri2]
            rw [if_neg (by omega)]
          -- the bytes after the open are `b.take sr.pos` in every case
          cases hh : sr.how with
          | eof =>
            have := scan_eof_pos _ _ _ _ _ hri hh (by simp; omega)
            simp only [List.length_drop] at this
            exact key _ (by rw [List.take_of_length_le (by omega)])
          | truncShort => exact key _ rfl
          | truncSave => exact key _ rfl
          | stop => exact absurd hh hs

end Proofs.Disk
