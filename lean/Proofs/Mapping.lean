/-
  Helper lemmas for C04, MappingStorage part: the model of `MappingStorage`
  (`ZodbModel/Mapping.lean`) refines the list-of-transactions specification.
-/
import ZodbModel.Mapping
import Proofs.FileStoreTid
namespace Proofs.Mapping
open ZodbModel ZodbModel.Mapping ZodbModel.History

/-! ### association lists -/

abbrev Sorted {α} (l : AL α) : Prop := l.Pairwise (fun a b => a.1 < b.1)

theorem alGet_alSet {α} (k k' : Nat) (v : α) (l : AL α) :
    alGet k' (alSet k v l) = if k' = k then some v else alGet k' l := by
  induction l with
  | nil => simp [alSet, alGet]
  | cons x t ih =>
    obtain ⟨k₀, v₀⟩ := x
    simp only [alSet]
    split
    · simp [alGet]
    · split
      · subst_vars
        simp only [alGet]
        split <;> rfl
      · simp only [alGet, ih]
        split
        · subst_vars
          rw [if_neg (by omega)]
        · rfl

theorem alSet_append_of_gt {α} (k : Nat) (v : α) (l : AL α) (h : ∀ x ∈ l, x.1 < k) :
    alSet k v l = l ++ [(k, v)] := by
  induction l with
  | nil => rfl
  | cons x t ih =>
    obtain ⟨k₀, v₀⟩ := x
    have h0 := h (k₀, v₀) List.mem_cons_self
    simp only at h0
    simp only [alSet]
    rw [if_neg (by omega), if_neg (by omega), ih fun y hy => h y (List.mem_cons_of_mem _ hy)]
    rfl

theorem alGet_dictSet {α} (k k' : Nat) (v : α) (l : AL α) :
    alGet k' (dictSet k v l) = if k' = k then some v else alGet k' l := by
  induction l with
  | nil => simp [dictSet, alGet]
  | cons x t ih =>
    obtain ⟨k₀, v₀⟩ := x
    simp only [dictSet]
    split
    · subst_vars
      simp only [alGet]
      split <;> rfl
    · simp only [alGet, ih]
      split
      · subst_vars
        rename_i h
        rw [if_neg (fun e => h e.symm)]
      · rfl

theorem keys_dictSet {α} (k : Nat) (v : α) (l : AL α) :
    ∀ x, x ∈ (dictSet k v l).map (·.1) ↔ x = k ∨ x ∈ l.map (·.1) := by
  induction l with
  | nil => simp [dictSet]
  | cons y t ih =>
    obtain ⟨k₀, v₀⟩ := y
    intro x
    simp only [dictSet]
    split
    · subst_vars; simp
    · simp only [List.map_cons, List.mem_cons, ih x]
      constructor
      · rintro (h | h | h)
        · exact Or.inr (Or.inl h)
        · exact Or.inl h
        · exact Or.inr (Or.inr h)
      · rintro (h | h | h)
        · exact Or.inr (Or.inl h)
        · exact Or.inl h
        · exact Or.inr (Or.inr h)

theorem nodup_dictSet {α} (k : Nat) (v : α) (l : AL α) (h : (l.map (·.1)).Nodup) :
    ((dictSet k v l).map (·.1)).Nodup := by
  induction l with
  | nil => simp [dictSet]
  | cons y t ih =>
    obtain ⟨k₀, v₀⟩ := y
    simp only [List.map_cons, List.nodup_cons] at h
    simp only [dictSet]
    split
    · subst_vars; simpa using h
    · rename_i hne
      simp only [List.map_cons, List.nodup_cons]
      refine ⟨?_, ih h.2⟩
      intro hm
      rcases (keys_dictSet k v t k₀).1 hm with e | e
      · exact hne e.symm
      · exact h.1 e

theorem alGet_mem {α} {k : Nat} {v : α} {l : AL α} (h : alGet k l = some v) : (k, v) ∈ l := by
  induction l with
  | nil => simp [alGet] at h
  | cons x t ih =>
    obtain ⟨k', v'⟩ := x
    simp only [alGet] at h
    split at h
    · simp_all
    · exact List.mem_cons_of_mem _ (ih h)

theorem alGet_none_iff {α} {k : Nat} {l : AL α} : alGet k l = none ↔ k ∉ l.map (·.1) := by
  induction l with
  | nil => simp [alGet]
  | cons x t ih =>
    obtain ⟨k', v'⟩ := x
    simp only [alGet, List.map_cons, List.mem_cons, not_or]
    split
    · subst_vars; simp
    · rename_i h; rw [ih]; simp [h]

/-! ### the abstraction -/

def revAL (h : History) (oid : Nat) : AL Bytes := (revs h oid).map fun r => (r.tid, r.record.data.getD [])

structure Inv (m : MS) : Prop where
  sorted : Sorted m.txns
  keys : ∀ kt ∈ m.txns, kt.2.tid = kt.1
  uniq : ∀ kt ∈ m.txns, (kt.2.data.map (·.1)).Nodup
  data : ∀ oid, (alGet oid m.data).getD [] = revAL (abs m) oid
  ltid : m.ltid = ((m.txns.getLast?).map (·.1)).getD 0
  staged : ∀ st, m.txn = some st → (st.tdata.map (·.1)).Nodup ∧ ∀ kt ∈ m.txns, kt.1 < st.tid

theorem recOf_toTxn (t : MTxn) (oid : Nat) (hu : (t.data.map (·.1)).Nodup) :
    (toTxn t).recOf oid = (alGet oid t.data).map fun d => ⟨oid, some d, none⟩ := by
  unfold Txn.recOf toTxn
  simp only
  generalize t.data = data at hu
  induction data with
  | nil => rfl
  | cons kv rest ih =>
    obtain ⟨k, v⟩ := kv
    simp only [List.map_cons, List.nodup_cons] at hu
    simp only [List.map_cons, List.filter_cons, alGet]
    by_cases hk : k = oid
    · subst hk
      have hnil : (rest.map fun od => (⟨od.1, some od.2, none⟩ : Rec)).filter (fun r => r.oid == k) = [] := by
        rw [List.filter_eq_nil_iff]
        intro r hr
        obtain ⟨od, hod, rfl⟩ := List.mem_map.1 hr
        simp only [beq_iff_eq]
        intro e
        exact hu.1 (List.mem_map.2 ⟨od, hod, e⟩)
      simp [hnil]
    · have : ¬ oid = k := fun e => hk e.symm
      simp only [beq_iff_eq, hk, if_false, this]
      exact ih hu.2

theorem revs_data_some {m : MS} (h : Inv m) (oid : Nat) :
    ∀ r ∈ revs (abs m) oid, r.record.data = some (r.record.data.getD []) ∧ r.record.dataTxn = none := by
  intro r hr
  unfold revs abs at hr
  simp only [List.mem_filterMap, List.mem_map] at hr
  obtain ⟨tx, ⟨kt, hkt, rfl⟩, hr⟩ := hr
  rw [recOf_toTxn _ _ (h.uniq kt hkt)] at hr
  cases hg : alGet oid kt.2.data with
  | none => simp [hg] at hr
  | some d =>
    simp only [hg, Option.map_some, Option.some.injEq] at hr
    subst hr
    exact ⟨rfl, rfl⟩

theorem tidData_eq {m : MS} (h : Inv m) (oid : Nat) :
    tidData m oid = if (revs (abs m) oid).isEmpty then none else some (revAL (abs m) oid) := by
  have hd := h.data oid
  unfold tidData
  cases hg : alGet oid m.data with
  | none =>
    simp only [hg, Option.getD_none] at hd
    have : revs (abs m) oid = [] := by
      unfold revAL at hd
      exact List.map_eq_nil_iff.1 hd.symm
    simp [this]
  | some td =>
    simp only [hg, Option.getD_some] at hd
    cases td with
    | nil =>
      have : revs (abs m) oid = [] := by
        unfold revAL at hd
        exact List.map_eq_nil_iff.1 hd.symm
      simp [this]
    | cons x l =>
      have hne : revs (abs m) oid ≠ [] := by
        intro e; unfold revAL at hd; rw [e] at hd; simp at hd
      have : (revs (abs m) oid).isEmpty = false := by
        cases hr : revs (abs m) oid with
        | nil => exact absurd hr hne
        | cons _ _ => rfl
      simp only [this, Bool.false_eq_true, if_false, hd]

/-! ### queries -/

theorem loadBefore_refines {m : MS} (h : Inv m) (oid b : Nat) :
    Mapping.loadBefore m oid b = History.loadBefore (abs m) oid b := by
  unfold Mapping.loadBefore History.loadBefore
  rw [tidData_eq h]
  by_cases he : (revs (abs m) oid).isEmpty = true
  · simp only [he, if_true]
  · simp only [he, if_false, Bool.false_eq_true]
    by_cases hb : b = 0
    · subst hb
      have : (revs (abs m) oid).filter (fun r => decide (r.tid < 0)) = [] := by
        rw [List.filter_eq_nil_iff]; intro r _; simp
      rw [if_pos rfl, this]
      rfl
    · simp only [hb, if_false, revAL, List.filter_map, List.getLast?_map, List.head?_map]
      have hf : ((fun kv : Nat × Bytes => decide (kv.1 ≤ b - 1)) ∘ fun r : Rev => (r.tid, r.record.data.getD [])) =
          fun r : Rev => decide (r.tid < b) := by
        funext r
        simp only [Function.comp]
        congr 1
        apply propext
        constructor <;> intro <;> omega
      rw [hf]
      cases hl : ((revs (abs m) oid).filter fun r => decide (r.tid < b)).getLast? with
      | none => rfl
      | some r =>
        have hm : r ∈ revs (abs m) oid :=
          (List.mem_filter.1 (List.mem_of_getLast? hl)).1
        obtain ⟨hd, _⟩ := revs_data_some h oid r hm
        simp only [Option.map_some]
        rw [hd]
        simp only [Option.getD_some]
        have hg : ((fun kv : Nat × Bytes => decide (b ≤ kv.1)) ∘ fun r : Rev => (r.tid, r.record.data.getD [])) =
            fun r : Rev => decide (b ≤ r.tid) := rfl
        rw [hg]
        congr 4
        cases ((revs (abs m) oid).filter fun r => decide (b ≤ r.tid)).head? <;> rfl

theorem loadSerial_refines {m : MS} (h : Inv m) (oid serial : Nat) :
    Mapping.loadSerial m oid serial = History.loadSerial (abs m) oid serial := by
  unfold Mapping.loadSerial History.loadSerial
  rw [tidData_eq h]
  have key : ∀ l : List Rev, (∀ r ∈ l, r.record.data = some (r.record.data.getD [])) →
      (match alGet serial (l.map fun r => (r.tid, r.record.data.getD [])) with
       | some d => (Except.ok d : Except Err Bytes)
       | none => .error .keyError) =
      match l.find? (fun r => r.tid == serial) with
      | none => .error .keyError
      | some r => match r.record.data with
        | none => .error .keyError
        | some d => .ok d := by
    intro l hl
    induction l with
    | nil => rfl
    | cons r l ih =>
      simp only [List.map_cons, alGet, List.find?_cons]
      by_cases hs : serial = r.tid
      · subst hs
        simp only [if_true, beq_self_eq_true]
        rw [hl r List.mem_cons_self]
        rfl
      · have : (r.tid == serial) = false := by simp; exact fun e => hs e.symm
        simp only [hs, if_false, this]
        exact ih fun x hx => hl x (List.mem_cons_of_mem _ hx)
  by_cases he : (revs (abs m) oid).isEmpty = true
  · have : revs (abs m) oid = [] := List.isEmpty_iff.1 he
    simp [this]
  · simp only [he, if_false, Bool.false_eq_true, revAL]
    exact key _ fun r hr => (revs_data_some h oid r hr).1

theorem getTid_refines {m : MS} (h : Inv m) (oid : Nat) :
    Mapping.getTid m oid = History.getTid (abs m) oid := by
  unfold Mapping.getTid History.getTid
  rw [tidData_eq h]
  by_cases he : (revs (abs m) oid).isEmpty = true
  · have : revs (abs m) oid = [] := List.isEmpty_iff.1 he
    simp [this]
  · simp only [he, if_false, Bool.false_eq_true, revAL, List.getLast?_map]
    cases hl : (revs (abs m) oid).getLast? with
    | none => rfl
    | some r =>
      obtain ⟨hd, _⟩ := revs_data_some h oid r (List.mem_of_getLast? hl)
      simp only [Option.map_some]
      rw [hd]
      rfl

theorem lastTransaction_refines {m : MS} (h : Inv m) :
    Mapping.lastTransaction m = History.lastTransaction (abs m) := by
  unfold Mapping.lastTransaction History.lastTransaction abs
  rw [h.ltid, List.getLast?_map]
  cases hl : m.txns.getLast? with
  | none => rfl
  | some kt =>
    simp only [Option.map_some, Option.getD_some, toTxn]
    exact (h.keys kt (List.mem_of_getLast? hl)).symm

theorem iterator_refines {m : MS} (h : Inv m) (start stop : Option Nat) :
    Mapping.iterator m start stop = History.iterator (abs m) start stop := by
  unfold Mapping.iterator History.iterator abs
  rw [List.filter_map]
  congr 1
  apply List.filter_congr
  intro kt hkt
  simp only [Function.comp, toTxn, h.keys kt hkt]
  rfl

/-! ### history -/

theorem alGet_of_mem_sorted {α} {k : Nat} {v : α} {l : AL α} (hs : Sorted l) (h : (k, v) ∈ l) :
    alGet k l = some v := by
  induction l with
  | nil => cases h
  | cons x t ih =>
    obtain ⟨k', v'⟩ := x
    obtain ⟨h1, h2⟩ := List.pairwise_cons.1 hs
    simp only [alGet]
    rcases List.mem_cons.1 h with h | h
    · injection h with e1 e2; subst e1 e2; simp
    · have := h1 _ h
      simp only at this
      rw [if_neg (by omega)]
      exact ih h2 h

theorem revs_origin {m : MS} (h : Inv m) (oid : Nat) {r : Rev} (hr : r ∈ revs (abs m) oid) :
    ∃ kt ∈ m.txns, r.tid = kt.1 ∧ r.user = kt.2.user ∧ r.desc = kt.2.desc ∧ r.ext = kt.2.ext := by
  unfold revs abs at hr
  simp only [List.mem_filterMap, List.mem_map] at hr
  obtain ⟨tx, ⟨kt, hkt, rfl⟩, hr⟩ := hr
  cases hg : (toTxn kt.2).recOf oid with
  | none => simp [hg] at hr
  | some rec =>
    simp only [hg, Option.map_some, Option.some.injEq] at hr
    subst hr
    exact ⟨kt, hkt, h.keys kt hkt, rfl, rfl, rfl⟩

theorem filterMap_eq_map' {α β : Type} (F : α → Option β) (G : α → β) (l : List α)
    (h : ∀ x ∈ l, F x = some (G x)) : l.filterMap F = l.map G := by
  induction l with
  | nil => rfl
  | cons x l ih =>
    simp only [List.filterMap_cons, h x List.mem_cons_self, List.map_cons]
    rw [ih fun y hy => h y (List.mem_cons_of_mem _ hy)]

theorem history_refines {m : MS} (h : Inv m) (oid n : Nat) :
    Mapping.history m oid n = History.history (abs m) oid n := by
  unfold Mapping.history History.history
  rw [tidData_eq h]
  by_cases he : (revs (abs m) oid).isEmpty = true
  · simp only [he, if_true]
  · simp only [he, if_false, Bool.false_eq_true, revAL]
    congr 1
    rw [← List.map_reverse, ← List.map_take, List.filterMap_map]
    apply filterMap_eq_map'
    intro r hr
    have hm : r ∈ revs (abs m) oid := List.mem_reverse.1 (List.mem_of_mem_take hr)
    obtain ⟨kt, hkt, e1, e2, e3, e4⟩ := revs_origin h oid hm
    obtain ⟨hd, hx⟩ := revs_data_some h oid r hm
    have hg : alGet r.tid m.txns = some kt.2 := by
      rw [e1]; exact alGet_of_mem_sorted h.sorted hkt
    simp only [Function.comp, hg, Option.map_some, Rev.entry, Rec.storedSize, e2, e3, e4]
    congr 2
    rw [hx, hd]
    rfl

/-! ### transitions -/

theorem inv_init : Inv Mapping.init := by
  refine ⟨List.Pairwise.nil, ?_, ?_, fun _ => rfl, rfl, ?_⟩
  · intro kt hkt; cases hkt
  · intro kt hkt; cases hkt
  · intro st hst; simp [Mapping.init] at hst

theorem le_last_of_sorted {α} {l : AL α} (hs : Sorted l) {k : Nat} {v : α} (hl : l.getLast? = some (k, v)) :
    ∀ x ∈ l, x.1 ≤ k := by
  induction l with
  | nil => intro x hx; cases hx
  | cons y t ih =>
    obtain ⟨h1, h2⟩ := List.pairwise_cons.1 hs
    intro x hx
    cases t with
    | nil =>
      simp at hl
      rcases List.mem_cons.1 hx with rfl | hx
      · rw [hl]; exact Nat.le_refl _
      · cases hx
    | cons z t' =>
      have hl' : (z :: t').getLast? = some (k, v) := by
        rw [List.getLast?_cons_cons] at hl; exact hl
      rcases List.mem_cons.1 hx with rfl | hx
      · have hk := List.mem_of_getLast? hl'
        have := h1 _ hk
        simp only at this
        omega
      · exact ih h2 hl' x hx

/-- what the caller owes: an explicit tid lies above the last committed one -/
def BeginOk (m : MS) (tid? : Option Nat) : Prop :=
  match tid? with
  | some t => m.ltid < t
  | none => True

theorem beginTid_gt {m : MS} (h : Inv m) (tid? : Option Nat) (now : Nat) (hok : BeginOk m tid?) :
    ∀ kt ∈ m.txns, kt.1 < beginTid m tid? now := by
  intro kt hkt
  unfold beginTid
  cases tid? with
  | some t =>
    simp only
    have hl := h.ltid
    cases hg : m.txns.getLast? with
    | none => rw [List.getLast?_eq_none_iff.1 hg] at hkt; cases hkt
    | some kv =>
      obtain ⟨k, v⟩ := kv
      have := le_last_of_sorted h.sorted hg kt hkt
      simp only [hg, Option.map_some, Option.getD_some] at hl
      have : m.ltid < t := hok
      omega
  | none =>
    simp only
    cases hg : m.txns.getLast? with
    | none => rw [List.getLast?_eq_none_iff.1 hg] at hkt; cases hkt
    | some kv =>
      obtain ⟨k, v⟩ := kv
      have := le_last_of_sorted h.sorted hg kt hkt
      have := Proofs.FileStoreTid.lt_later now k
      simp only; omega

theorem begin_inv {m : MS} (h : Inv m) (tid? : Option Nat) (now : Nat) (u d e : Bytes)
    (hok : BeginOk m tid?) : Inv (Mapping.begin m tid? now u d e).1 := by
  unfold Mapping.begin
  cases hs : m.txn with
  | some st => exact h
  | none =>
    refine ⟨h.sorted, h.keys, h.uniq, h.data, h.ltid, ?_⟩
    intro st hst
    simp only [Option.some.injEq] at hst
    subst hst
    exact ⟨List.nodup_nil, beginTid_gt h tid? now hok⟩

theorem store_inv {m : MS} (h : Inv m) (oid serial : Nat) (data : Bytes) :
    Inv (Mapping.store m oid serial data).1 := by
  unfold Mapping.store
  cases hs : m.txn with
  | none => exact h
  | some st =>
    simp only
    split
    · exact h
    · refine ⟨h.sorted, h.keys, h.uniq, h.data, h.ltid, ?_⟩
      intro st' hst'
      simp only [Option.some.injEq] at hst'
      subst hst'
      obtain ⟨h1, h2⟩ := h.staged st hs
      exact ⟨nodup_dictSet oid data st.tdata h1, h2⟩

theorem abort_inv {m : MS} (h : Inv m) : Inv (Mapping.abort m).1 := by
  refine ⟨h.sorted, h.keys, h.uniq, h.data, h.ltid, ?_⟩
  intro st hst; simp [Mapping.abort] at hst

/-- the loop of `tpc_finish` over `tdata` -/
def finishStep (tid : Nat) (acc : AL (AL Bytes)) (od : Nat × Bytes) : AL (AL Bytes) :=
  alSet od.1 (alSet tid od.2 ((alGet od.1 acc).getD [])) acc

theorem fold_data (tid : Nat) (td : AL Bytes) (hn : (td.map (·.1)).Nodup) (acc : AL (AL Bytes))
    (hlt : ∀ o ∈ td.map (·.1), ∀ x ∈ (alGet o acc).getD [], x.1 < tid) (oid : Nat) :
    (alGet oid (td.foldl (finishStep tid) acc)).getD [] =
      (alGet oid acc).getD [] ++ (match alGet oid td with
                                  | some d => [(tid, d)]
                                  | none => []) := by
  induction td generalizing acc with
  | nil => simp [alGet]
  | cons od rest ih =>
    obtain ⟨o, d⟩ := od
    simp only [List.map_cons, List.nodup_cons] at hn
    simp only [List.foldl_cons]
    have hstep : ∀ o', alGet o' (finishStep tid acc (o, d)) =
        if o' = o then some ((alGet o acc).getD [] ++ [(tid, d)]) else alGet o' acc := by
      intro o'
      unfold finishStep
      simp only
      rw [alGet_alSet, alSet_append_of_gt tid d _ (hlt o (by simp))]
    rw [ih hn.2 (finishStep tid acc (o, d))]
    · rw [hstep oid]
      simp only [alGet]
      by_cases ho : oid = o
      · subst ho
        have : alGet oid rest = none := alGet_none_iff.2 hn.1
        simp [this]
      · simp [ho]
    · intro o' ho' x hx
      have hne : o' ≠ o := fun e => hn.1 (e ▸ ho')
      rw [hstep o', if_neg hne] at hx
      exact hlt o' (by simp [ho']) x hx

theorem revs_append_one (h : History) (t : Txn) (oid : Nat) :
    revs (h ++ [t]) oid = revs h oid ++ (match t.recOf oid with
                                          | some r => [⟨t.tid, t.user, t.desc, t.ext, r⟩]
                                          | none => []) := by
  unfold revs
  rw [List.filterMap_append]
  congr 1
  simp only [List.filterMap_cons, List.filterMap_nil]
  cases t.recOf oid <;> rfl

theorem finish_inv {m : MS} (h : Inv m) : Inv (Mapping.finish m).1 := by
  unfold Mapping.finish
  cases hs : m.txn with
  | none => exact h
  | some st =>
    obtain ⟨hn, hgt⟩ := h.staged st hs
    have happ := alSet_append_of_gt st.tid (⟨st.tid, st.user, st.desc, st.ext, st.tdata⟩ : MTxn) m.txns hgt
    have habs : abs { data := st.tdata.foldl (finishStep st.tid) m.data,
                      txns := m.txns ++ [(st.tid, ⟨st.tid, st.user, st.desc, st.ext, st.tdata⟩)],
                      ltid := st.tid, txn := none } =
        abs m ++ [toTxn ⟨st.tid, st.user, st.desc, st.ext, st.tdata⟩] := by
      simp [abs]
    simp only
    show Inv { data := st.tdata.foldl (finishStep st.tid) m.data,
               txns := alSet st.tid ⟨st.tid, st.user, st.desc, st.ext, st.tdata⟩ m.txns,
               ltid := st.tid, txn := none }
    rw [happ]
    refine ⟨?_, ?_, ?_, ?_, ?_, ?_⟩
    · show Sorted (m.txns ++ [_])
      rw [Sorted, List.pairwise_append]
      refine ⟨h.sorted, List.pairwise_singleton _ _, ?_⟩
      intro a ha b hb
      simp only [List.mem_singleton] at hb
      subst hb
      exact hgt a ha
    · intro kt hkt
      rcases List.mem_append.1 hkt with hk | hk
      · exact h.keys kt hk
      · simp only [List.mem_singleton] at hk; subst hk; rfl
    · intro kt hkt
      rcases List.mem_append.1 hkt with hk | hk
      · exact h.uniq kt hk
      · simp only [List.mem_singleton] at hk; subst hk; exact hn
    · intro oid
      rw [habs]
      show (alGet oid (st.tdata.foldl (finishStep st.tid) m.data)).getD [] = _
      rw [fold_data st.tid st.tdata hn m.data ?_ oid, h.data oid]
      · unfold revAL
        rw [revs_append_one, List.map_append, recOf_toTxn _ _ hn]
        congr 1
        cases alGet oid st.tdata <;> rfl
      · intro o _ x hx
        rw [h.data o] at hx
        unfold revAL at hx
        obtain ⟨r, hr, rfl⟩ := List.mem_map.1 hx
        obtain ⟨kt, hkt, e1, _⟩ := revs_origin h o hr
        have := hgt kt hkt
        simp only; omega
    · show st.tid = _
      simp
    · intro st' hst'; simp at hst'

/-- what the caller owes for a step (only `begin` with an explicit tid has an obligation) -/
def OpOk (m : MS) : Op → Prop
  | .begin tid? _ _ _ _ => BeginOk m tid?
  | _ => True

theorem step_inv {m : MS} (h : Inv m) (op : Op) (hok : OpOk m op) : Inv (Mapping.step m op).1 := by
  cases op with
  | begin tid? now u d e => exact begin_inv h tid? now u d e hok
  | store oid serial data => exact store_inv h oid serial data
  | finish => exact finish_inv h
  | abort => exact abort_inv h

/-- only `finish` changes the history: it appends the staged transaction -/
theorem step_abs {m : MS} (h : Inv m) (op : Op) :
    abs (Mapping.step m op).1 = abs m ∨
    ∃ st, op = .finish ∧ m.txn = some st ∧
      abs (Mapping.step m op).1 = abs m ++ [toTxn ⟨st.tid, st.user, st.desc, st.ext, st.tdata⟩] := by
  cases op with
  | begin tid? now u d e =>
    left; simp only [Mapping.step, Mapping.begin]
    cases m.txn <;> rfl
  | store oid serial data =>
    left; simp only [Mapping.step, Mapping.store]
    cases m.txn with
    | none => rfl
    | some st => simp only; split <;> rfl
  | abort => left; rfl
  | finish =>
    simp only [Mapping.step, Mapping.finish]
    cases hs : m.txn with
    | none => left; rfl
    | some st =>
      right
      obtain ⟨_, hgt⟩ := h.staged st hs
      refine ⟨st, ?_⟩
      simp only [abs, alSet_append_of_gt st.tid _ m.txns hgt]
      simp

/-- tids strictly increase in commit order -/
theorem abs_wf {m : MS} (h : Inv m) : History.WF (abs m) := by
  unfold History.WF abs
  rw [List.pairwise_map]
  refine List.Pairwise.imp_of_mem ?_ h.sorted
  intro a b ha hb hab
  simp only [toTxn, h.keys a ha, h.keys b hb]
  exact hab

end Proofs.Mapping
