/-
  Helper lemmas for C10 (`Props/C10.lean`) about `ZodbModel/Resolve.lean`.  Core Lean only.
-/
import ZodbModel.Resolve
namespace Proofs.Resolve
open ZodbModel ZodbModel.Resolve

/-- decidable equality of results, so that concrete runs of the model can be checked by `decide` -/
instance instDecidableEqExcept {ε α : Type} [DecidableEq ε] [DecidableEq α] :
    DecidableEq (Except ε α) := fun a b =>
  match a, b with
  | .ok x, .ok y =>
    if h : x = y then isTrue (by rw [h]) else isFalse (fun e => h (by injection e))
  | .error x, .error y =>
    if h : x = y then isTrue (by rw [h]) else isFalse (fun e => h (by injection e))
  | .ok _, .error _ => isFalse (fun e => by cases e)
  | .error _, .ok _ => isFalse (fun e => by cases e)

/-! ### references -/

/-- what one pickled class slot looks like after unpickle → PersistentReference → pickle:
    an importable global stays a global, an unimportable one becomes its `(module, name)` tuple -/
def normPK (ci : ClassId → ClassInfo) : PKlass → PKlass
  | .global c => if (ci c).importable then .global c else .named c
  | .named c => .named c

def normRef (ci : ClassId → ClassInfo) (r : PRef) : PRef := r.mapK (normPK ci)

/-- embedding of the class slot kept in a PersistentReference back into unpickled slots -/
def embedK : NKlass → LKlass
  | .cls c => .cls c
  | .named c => .named c

def LKlass.isBad : LKlass → Bool
  | .bad _ => true
  | _ => false

def noBad (r : LRef) : Prop := ∀ k, r.klass = some k → LKlass.isBad k = false

theorem mapK_mapK {κ κ' κ'' : Type} (f : κ → κ') (g : κ' → κ'') (r : Ref κ) :
    (r.mapK f).mapK g = r.mapK (g ∘ f) := by
  cases r <;> rfl

theorem mapK_id {κ : Type} (r : Ref κ) : r.mapK id = r := by
  cases r <;> rfl

theorem mapK_congr {κ κ' : Type} (f g : κ → κ') (r : Ref κ)
    (h : ∀ k, r.klass = some k → f k = g k) : r.mapK f = r.mapK g := by
  cases r <;> simp_all [Ref.mapK, Ref.klass]

theorem mapK_oid {κ κ' : Type} (f : κ → κ') (r : Ref κ) : (r.mapK f).oid = r.oid := by
  cases r <;> rfl

theorem mapK_db {κ κ' : Type} (f : κ → κ') (r : Ref κ) : (r.mapK f).db = r.db := by
  cases r <;> rfl

theorem mapK_isWeak {κ κ' : Type} (f : κ → κ') (r : Ref κ) : (r.mapK f).isWeak = r.isWeak := by
  cases r <;> rfl

theorem mapK_klass {κ κ' : Type} (f : κ → κ') (r : Ref κ) : (r.mapK f).klass = r.klass.map f := by
  cases r <;> rfl

/-- `persistent_id ∘ persistent_load` on the data `persistent_load` receives: identity on all seven
    formats, except that a `BadClass` slot is rewritten to its `(module, name)` tuple -/
theorem persistentId_persistentLoad (r : LRef) :
    persistentId (persistentLoad r) = r.mapK normK := rfl

/-- … in particular it IS the identity when no class slot is a `BadClass` -/
theorem persistentId_persistentLoad_noBad (r : LRef) (h : noBad r) :
    (persistentId (persistentLoad r)).mapK embedK = r := by
  rw [persistentId_persistentLoad, mapK_mapK]
  have : r.mapK (embedK ∘ normK) = r.mapK id := by
    apply mapK_congr
    intro k hk
    have := h k hk
    cases k <;> simp_all [embedK, normK, LKlass.isBad]
  rw [this, mapK_id]

theorem normK_unpickle (ci : ClassId → ClassInfo) (k : PKlass) :
    pickleKlass (normK (unpickleKlass ci k)) = normPK ci k := by
  cases k with
  | global c =>
    by_cases h : (ci c).importable = true <;>
      simp [unpickleKlass, findGlobal, normPK, normK, pickleKlass, h]
  | named c => rfl

/-- a pickled reference through unpickling, `persistent_load`, `persistent_id` and pickling -/
theorem dumpRef_loadRef (ci : ClassId → ClassInfo) (r : PRef) :
    dumpRef (loadRef ci r) = normRef ci r := by
  unfold dumpRef loadRef normRef
  rw [persistentId_persistentLoad, mapK_mapK, mapK_mapK]
  apply mapK_congr
  intro k _
  exact normK_unpickle ci k

theorem normPK_id (ci : ClassId → ClassInfo) (k : PKlass) : (normPK ci k).id = k.id := by
  cases k with
  | global c => simp only [normPK]; split <;> rfl
  | named c => rfl

theorem normPK_importable (ci : ClassId → ClassInfo) (k : PKlass) (h : (ci k.id).importable = true) :
    normPK ci k = k := by
  cases k with
  | global c => simp only [normPK, PKlass.id] at *; simp [h]
  | named c => rfl

theorem normPK_idem (ci : ClassId → ClassInfo) (k : PKlass) : normPK ci (normPK ci k) = normPK ci k := by
  cases k with
  | global c =>
    by_cases h : (ci c).importable = true <;> simp [normPK, h]
  | named c => rfl

/-- every class named inside a reference can be imported -/
def RefImportable (ci : ClassId → ClassInfo) (r : PRef) : Prop :=
  ∀ k, r.klass = some k → (ci k.id).importable = true

theorem normRef_importable (ci : ClassId → ClassInfo) (r : PRef) (h : RefImportable ci r) :
    normRef ci r = r := by
  unfold normRef
  have : r.mapK (normPK ci) = r.mapK id := by
    apply mapK_congr
    intro k hk
    exact normPK_importable ci k (h k hk)
  rw [this, mapK_id]

theorem normRef_idem (ci : ClassId → ClassInfo) (r : PRef) : normRef ci (normRef ci r) = normRef ci r := by
  unfold normRef
  rw [mapK_mapK]
  apply mapK_congr
  intro k _
  exact normPK_idem ci k

/-- what a reference denotes: target oid, database, weakness, the class named (if any) and the
    format (constructor) are all untouched by the round trip -/
theorem normRef_same_target (ci : ClassId → ClassInfo) (r : PRef) :
    (normRef ci r).oid = r.oid ∧ (normRef ci r).db = r.db ∧ (normRef ci r).isWeak = r.isWeak ∧
    (normRef ci r).klass.map PKlass.id = r.klass.map PKlass.id := by
  refine ⟨mapK_oid _ _, mapK_db _ _, mapK_isWeak _ _, ?_⟩
  unfold normRef
  rw [mapK_klass]
  cases r.klass with
  | none => rfl
  | some k => simp [normPK_id]

/-- the attributes of the `PersistentReference` the resolver sees -/
theorem loadRef_attrs (ci : ClassId → ClassInfo) (r : PRef) :
    (loadRef ci r).oid = r.oid ∧ (loadRef ci r).database_name = r.db ∧
    (loadRef ci r).weak = r.isWeak := by
  unfold loadRef persistentLoad
  exact ⟨mapK_oid _ _, mapK_db _ _, mapK_isWeak _ _⟩

/-! ### states -/

theorem tree_map_map {ρ σ τ : Type} (f : ρ → σ) (g : σ → τ) (t : Tree ρ) :
    (t.map f).map g = t.map (g ∘ f) := by
  induction t with
  | atom n => rfl
  | ref r => rfl
  | pair a b iha ihb => simp [Tree.map, iha, ihb]

theorem tree_map_congr {ρ σ : Type} (f g : ρ → σ) (t : Tree ρ) (h : ∀ r ∈ t.refs, f r = g r) :
    t.map f = t.map g := by
  induction t with
  | atom n => rfl
  | ref r => simp [Tree.map, h r (by simp [Tree.refs])]
  | pair a b iha ihb =>
    simp only [Tree.map]
    rw [iha (fun r hr => h r (by simp [Tree.refs, hr])), ihb (fun r hr => h r (by simp [Tree.refs, hr]))]

theorem tree_map_id {ρ : Type} (t : Tree ρ) : t.map id = t := by
  induction t with
  | atom n => rfl
  | ref r => rfl
  | pair a b iha ihb => simp [Tree.map, iha, ihb]

theorem tree_refs_map {ρ σ : Type} (f : ρ → σ) (t : Tree ρ) : (t.map f).refs = t.refs.map f := by
  induction t with
  | atom n => rfl
  | ref r => rfl
  | pair a b iha ihb => simp [Tree.map, Tree.refs, iha, ihb]

/-- a whole state through `state()` and back through the pickler -/
theorem dumpState_loadState (ci : ClassId → ClassInfo) (s : PState) :
    dumpState (loadState ci s) = s.map (normRef ci) := by
  unfold dumpState loadState
  rw [tree_map_map]
  apply tree_map_congr
  intro r _
  exact dumpRef_loadRef ci r

theorem dumpState_loadState_importable (ci : ClassId → ClassInfo) (s : PState)
    (h : ∀ r ∈ s.refs, RefImportable ci r) : dumpState (loadState ci s) = s := by
  rw [dumpState_loadState]
  have : s.map (normRef ci) = s.map id := by
    apply tree_map_congr
    intro r hr
    exact normRef_importable ci r (h r hr)
  rw [this, tree_map_id]

/-- the references of a re-pickled state are the normalised references the resolver returned, in
    order: none dropped, none invented by the pickling layer -/
theorem dumpState_refs (s : LState) : (dumpState s).refs = s.refs.map dumpRef := tree_refs_map _ _

/-! ### tryToResolveConflict -/

/-- the committed revision the resolver is given -/
def committedOf (loadSerial : Oid → Tid → Option Record) (oid : Oid) (committedSerial : Tid)
    (committedData : Option Record) : Option Record :=
  match committedData with
  | some d => some d
  | none => loadSerial oid committedSerial

/-- the conditions under which resolution gets as far as calling the resolver -/
structure Invoked (E : Env) (loadSerial : Oid → Tid → Option Record) (cache : List ClassId)
    (oid : Oid) (committedSerial oldSerial : Tid) (newpickle : Record)
    (committedData : Option Record) (old committed : Record) : Prop where
  importable : (E.ci newpickle.hdr.cls).importable = true
  notCached : newpickle.hdr.cls ∉ cache
  hasResolver : (E.ci newpickle.hdr.cls).hasResolver = true
  oldLoaded : loadSerial oid oldSerial = some old
  committedLoaded : committedOf loadSerial oid committedSerial committedData = some committed

theorem tryCore_invoked (E : Env) (ls : Oid → Tid → Option Record) (cache : List ClassId)
    (oid : Oid) (cs os : Tid) (np : Record) (cd : Option Record) (old committed : Record)
    (h : Invoked E ls cache oid cs os np cd old committed) :
    tryCore E ls cache oid cs os np cd =
      let call : Call := { cls := np.hdr.cls, old := loadState E.ci old.state,
                           committed := loadState E.ci committed.state,
                           new := loadState E.ci np.state }
      match E.resolver np.hdr.cls call.old call.committed call.new with
      | .error .conflict => { out := .error .conflict, cache := cache, call := some call }
      | .error (.other n) => { out := .error (.resolverRaised n), cache := cache, call := some call }
      | .ok resolved => { out := .ok { hdr := np.hdr, state := dumpState resolved },
                          cache := cache, call := some call } := by
  obtain ⟨h1, h2, h3, h4, h5⟩ := h
  unfold tryCore
  simp only [findGlobal, h1, if_true, h2, if_false, h3, Bool.not_true, h4]
  unfold committedOf at h5
  cases cd with
  | some d =>
    simp only at h5
    injection h5 with h5
    subst h5
    rfl
  | none =>
    simp only at h5
    simp only [h5]
    rfl

/-! branch equations of `tryCore` (one per early exit) -/

theorem tryCore_unimportable (E : Env) (ls : Oid → Tid → Option Record) (cache : List ClassId)
    (oid : Oid) (cs os : Tid) (np : Record) (cd : Option Record)
    (h1 : (E.ci np.hdr.cls).importable = false) :
    tryCore E ls cache oid cs os np cd = { out := .error .badClass, cache := cache, call := none } := by
  unfold tryCore
  simp [findGlobal, h1]

theorem tryCore_cached (E : Env) (ls : Oid → Tid → Option Record) (cache : List ClassId)
    (oid : Oid) (cs os : Tid) (np : Record) (cd : Option Record)
    (h1 : (E.ci np.hdr.cls).importable = true) (h2 : np.hdr.cls ∈ cache) :
    tryCore E ls cache oid cs os np cd = { out := .error .conflict, cache := cache, call := none } := by
  unfold tryCore
  simp [findGlobal, h1, h2]

theorem tryCore_noResolver (E : Env) (ls : Oid → Tid → Option Record) (cache : List ClassId)
    (oid : Oid) (cs os : Tid) (np : Record) (cd : Option Record)
    (h1 : (E.ci np.hdr.cls).importable = true) (h2 : np.hdr.cls ∉ cache)
    (h3 : (E.ci np.hdr.cls).hasResolver = false) :
    tryCore E ls cache oid cs os np cd =
      { out := .error .conflict, cache := np.hdr.cls :: cache, call := none } := by
  unfold tryCore
  simp [findGlobal, h1, h2, h3]

theorem tryCore_oldMissing (E : Env) (ls : Oid → Tid → Option Record) (cache : List ClassId)
    (oid : Oid) (cs os : Tid) (np : Record) (cd : Option Record)
    (h1 : (E.ci np.hdr.cls).importable = true) (h2 : np.hdr.cls ∉ cache)
    (h3 : (E.ci np.hdr.cls).hasResolver = true) (h4 : ls oid os = none) :
    tryCore E ls cache oid cs os np cd = { out := .error .keyError, cache := cache, call := none } := by
  unfold tryCore
  simp [findGlobal, h1, h2, h3, h4]

theorem tryCore_committedMissing (E : Env) (ls : Oid → Tid → Option Record) (cache : List ClassId)
    (oid : Oid) (cs os : Tid) (np : Record) (cd : Option Record) (old : Record)
    (h1 : (E.ci np.hdr.cls).importable = true) (h2 : np.hdr.cls ∉ cache)
    (h3 : (E.ci np.hdr.cls).hasResolver = true) (h4 : ls oid os = some old)
    (h5 : committedOf ls oid cs cd = none) :
    tryCore E ls cache oid cs os np cd = { out := .error .keyError, cache := cache, call := none } := by
  unfold tryCore
  unfold committedOf at h5
  cases cd with
  | some d => simp at h5
  | none =>
    simp only at h5
    simp [findGlobal, h1, h2, h3, h4, h5]

/-- if the resolver is not reached, resolution fails, the resolver is not called, and the cache
    grows only by a class without resolver -/
theorem tryCore_not_invoked (E : Env) (ls : Oid → Tid → Option Record) (cache : List ClassId)
    (oid : Oid) (cs os : Tid) (np : Record) (cd : Option Record)
    (h : ¬ ∃ old committed, Invoked E ls cache oid cs os np cd old committed) :
    (∃ e, (tryCore E ls cache oid cs os np cd).out = .error e) ∧
    (tryCore E ls cache oid cs os np cd).call = none ∧
    ((tryCore E ls cache oid cs os np cd).cache = cache ∨
     ((tryCore E ls cache oid cs os np cd).cache = np.hdr.cls :: cache ∧
      (E.ci np.hdr.cls).importable = true ∧ (E.ci np.hdr.cls).hasResolver = false)) := by
  cases h1 : (E.ci np.hdr.cls).importable with
  | false =>
    rw [tryCore_unimportable E ls cache oid cs os np cd h1]
    exact ⟨⟨_, rfl⟩, rfl, Or.inl rfl⟩
  | true =>
    by_cases h2 : np.hdr.cls ∈ cache
    · rw [tryCore_cached E ls cache oid cs os np cd h1 h2]
      exact ⟨⟨_, rfl⟩, rfl, Or.inl rfl⟩
    · cases h3 : (E.ci np.hdr.cls).hasResolver with
      | false =>
        rw [tryCore_noResolver E ls cache oid cs os np cd h1 h2 h3]
        exact ⟨⟨_, rfl⟩, rfl, Or.inr ⟨rfl, rfl, rfl⟩⟩
      | true =>
        cases h4 : ls oid os with
        | none =>
          rw [tryCore_oldMissing E ls cache oid cs os np cd h1 h2 h3 h4]
          exact ⟨⟨_, rfl⟩, rfl, Or.inl rfl⟩
        | some old =>
          cases h5 : committedOf ls oid cs cd with
          | none =>
            rw [tryCore_committedMissing E ls cache oid cs os np cd old h1 h2 h3 h4 h5]
            exact ⟨⟨_, rfl⟩, rfl, Or.inl rfl⟩
          | some committed =>
            exact absurd ⟨old, committed, ⟨h1, h2, h3, h4, h5⟩⟩ h

/-- when the resolver is reached the cache is untouched and the call is recorded -/
theorem tryCore_invoked_cache (E : Env) (ls : Oid → Tid → Option Record) (cache : List ClassId)
    (oid : Oid) (cs os : Tid) (np : Record) (cd : Option Record) (old committed : Record)
    (h : Invoked E ls cache oid cs os np cd old committed) :
    (tryCore E ls cache oid cs os np cd).cache = cache := by
  rw [tryCore_invoked E ls cache oid cs os np cd old committed h]
  simp only
  cases E.resolver np.hdr.cls (loadState E.ci old.state) (loadState E.ci committed.state)
      (loadState E.ci np.state) with
  | error e => cases e <;> rfl
  | ok m => rfl

theorem funnel_ok_iff {α : Type} (oid : Oid) (cs os : Tid) (r : Except Exc α) (a : α) :
    funnel oid cs os r = .ok a ↔ r = .ok a := by
  cases r <;> simp [funnel]

theorem funnel_error {α : Type} (oid : Oid) (cs os : Tid) (r : Except Exc α) (e : ConflictErr) :
    funnel oid cs os r = .error e → e = { oid := oid, committedSerial := cs, oldSerial := os } := by
  cases r <;> simp [funnel]
  intro h; exact h.symm

/-- exact characterisation of success: the resolver was reached with the states loaded at
    `oldSerial` / `committedSerial` (or the `committedData` shortcut) and the new pickle, it returned
    `m`, and the result is `meta(new)` followed by `m` re-pickled -/
theorem tryToResolve_ok_iff (E : Env) (ls : Oid → Tid → Option Record) (cache : List ClassId)
    (oid : Oid) (cs os : Tid) (np : Record) (cd : Option Record) (d : Record) :
    (tryToResolve E ls cache oid cs os np cd).out = .ok d ↔
    ∃ old committed m, Invoked E ls cache oid cs os np cd old committed ∧
      E.resolver np.hdr.cls (loadState E.ci old.state) (loadState E.ci committed.state)
        (loadState E.ci np.state) = .ok m ∧
      d = { hdr := np.hdr, state := dumpState m } := by
  unfold tryToResolve
  simp only [funnel_ok_iff]
  constructor
  · intro h
    by_cases hi : ∃ old committed, Invoked E ls cache oid cs os np cd old committed
    · obtain ⟨old, committed, hinv⟩ := hi
      rw [tryCore_invoked E ls cache oid cs os np cd old committed hinv] at h
      simp only at h
      refine ⟨old, committed, ?_⟩
      cases hr : E.resolver np.hdr.cls (loadState E.ci old.state) (loadState E.ci committed.state)
          (loadState E.ci np.state) with
      | error e =>
        rw [hr] at h
        cases e <;> simp at h
      | ok m =>
        rw [hr] at h
        simp only at h
        injection h with h
        exact ⟨m, hinv, rfl, h.symm⟩
    · obtain ⟨⟨e, he⟩, _, _⟩ := tryCore_not_invoked E ls cache oid cs os np cd hi
      rw [he] at h
      cases h
  · rintro ⟨old, committed, m, hinv, hr, hd⟩
    rw [tryCore_invoked E ls cache oid cs os np cd old committed hinv]
    simp only [hr, hd]

/-- every failure leaves as the one ConflictError built at the end of the function -/
theorem tryToResolve_error (E : Env) (ls : Oid → Tid → Option Record) (cache : List ClassId)
    (oid : Oid) (cs os : Tid) (np : Record) (cd : Option Record) (e : ConflictErr)
    (h : (tryToResolve E ls cache oid cs os np cd).out = .error e) :
    e = { oid := oid, committedSerial := cs, oldSerial := os } :=
  funnel_error oid cs os _ e h

/-- the resolver, when called, is called with exactly (state at oldSerial, state at
    committedSerial / committedData, state of the new pickle) — in this order -/
theorem tryToResolve_call (E : Env) (ls : Oid → Tid → Option Record) (cache : List ClassId)
    (oid : Oid) (cs os : Tid) (np : Record) (cd : Option Record) (k : Call)
    (h : (tryToResolve E ls cache oid cs os np cd).call = some k) :
    ∃ old committed, Invoked E ls cache oid cs os np cd old committed ∧
      k = { cls := np.hdr.cls, old := loadState E.ci old.state,
            committed := loadState E.ci committed.state, new := loadState E.ci np.state } := by
  unfold tryToResolve at h
  simp only at h
  by_cases hi : ∃ old committed, Invoked E ls cache oid cs os np cd old committed
  · obtain ⟨old, committed, hinv⟩ := hi
    refine ⟨old, committed, hinv, ?_⟩
    rw [tryCore_invoked E ls cache oid cs os np cd old committed hinv] at h
    simp only at h
    cases hr : E.resolver np.hdr.cls (loadState E.ci old.state) (loadState E.ci committed.state)
        (loadState E.ci np.state) with
    | error e =>
      rw [hr] at h
      cases e <;> simp at h <;> exact h.symm
    | ok m =>
      rw [hr] at h
      simp at h
      exact h.symm
  · have := (tryCore_not_invoked E ls cache oid cs os np cd hi).2.1
    rw [this] at h
    cases h

/-- failure cases named by the property: class not importable, class without resolver, resolver
    raises ConflictError, resolver raises anything else, a revision cannot be loaded -/
theorem tryToResolve_fails (E : Env) (ls : Oid → Tid → Option Record) (cache : List ClassId)
    (oid : Oid) (cs os : Tid) (np : Record) (cd : Option Record)
    (h : (E.ci np.hdr.cls).importable = false ∨ (E.ci np.hdr.cls).hasResolver = false ∨
         np.hdr.cls ∈ cache ∨ ls oid os = none ∨ committedOf ls oid cs cd = none ∨
         ∀ old committed, ls oid os = some old → committedOf ls oid cs cd = some committed →
           ∃ e, E.resolver np.hdr.cls (loadState E.ci old.state) (loadState E.ci committed.state)
             (loadState E.ci np.state) = .error e) :
    (tryToResolve E ls cache oid cs os np cd).out =
      .error { oid := oid, committedSerial := cs, oldSerial := os } := by
  cases hout : (tryToResolve E ls cache oid cs os np cd).out with
  | error e => rw [tryToResolve_error E ls cache oid cs os np cd e hout]
  | ok d =>
    obtain ⟨old, committed, m, ⟨h1, h2, h3, h4, h5⟩, hr, _⟩ :=
      (tryToResolve_ok_iff E ls cache oid cs os np cd d).1 hout
    rcases h with h | h | h | h | h | h
    · simp [h] at h1
    · simp [h] at h3
    · exact absurd h h2
    · simp [h] at h4
    · simp [h] at h5
    · obtain ⟨e, he⟩ := h old committed h4 h5
      rw [he] at hr
      cases hr

/-- the `_unresolvable` cache only grows by the class of the new pickle, and only when that class is
    importable and has no resolver -/
theorem tryToResolve_cache (E : Env) (ls : Oid → Tid → Option Record) (cache : List ClassId)
    (oid : Oid) (cs os : Tid) (np : Record) (cd : Option Record) :
    (tryToResolve E ls cache oid cs os np cd).cache = cache ∨
    ((tryToResolve E ls cache oid cs os np cd).cache = np.hdr.cls :: cache ∧
      (E.ci np.hdr.cls).importable = true ∧ (E.ci np.hdr.cls).hasResolver = false ∧
      ∃ e, (tryToResolve E ls cache oid cs os np cd).out = .error e) := by
  by_cases hi : ∃ old committed, Invoked E ls cache oid cs os np cd old committed
  · obtain ⟨old, committed, hinv⟩ := hi
    left
    exact tryCore_invoked_cache E ls cache oid cs os np cd old committed hinv
  · obtain ⟨⟨e, he⟩, _, hc⟩ := tryCore_not_invoked E ls cache oid cs os np cd hi
    rcases hc with hc | ⟨hc, h1, h3⟩
    · left; exact hc
    · right
      refine ⟨hc, h1, h3, ?_⟩
      unfold tryToResolve
      simp only [he, funnel]
      exact ⟨_, rfl⟩

/-- cache soundness: only importable classes without resolver are ever cached, so the shortcut
    `if klass in _unresolvable: raise ConflictError` never rejects a resolvable class -/
def CacheSound (E : Env) (cache : List ClassId) : Prop :=
  ∀ c ∈ cache, (E.ci c).hasResolver = false

theorem tryToResolve_cache_sound (E : Env) (ls : Oid → Tid → Option Record) (cache : List ClassId)
    (oid : Oid) (cs os : Tid) (np : Record) (cd : Option Record) (h : CacheSound E cache) :
    CacheSound E (tryToResolve E ls cache oid cs os np cd).cache := by
  rcases tryToResolve_cache E ls cache oid cs os np cd with h' | ⟨h', _, h3, _⟩
  · rw [h']; exact h
  · rw [h']
    intro c hc
    rcases List.mem_cons.1 hc with hc | hc
    · rw [hc]; exact h3
    · exact h c hc

/-! ### the undo call -/

theorem undoResolve_ok_iff (E : Env) (ls : Oid → Tid → Option Record) (cache : List ClassId)
    (oid : Oid) (ctid undone : Tid) (pre cur d : Record) :
    (undoResolve E ls cache oid ctid undone pre cur).out = .ok d ↔
    (tryToResolve E ls cache oid ctid undone pre (some cur)).out = .ok d := by
  unfold undoResolve
  simp only
  cases (tryToResolve E ls cache oid ctid undone pre (some cur)).out <;> simp

end Proofs.Resolve
