/-
  Helper lemmas for C16, part 2: stacks (`Store`), the store-level hypotheses, and the queries of a
  whole stack as queries on its concatenated history.
-/
import Proofs.Demo
namespace Proofs.Demo
open ZodbModel ZodbModel.Demo

/-! ### revisions of a stack -/

theorem revsOf_append (a b : List Txn) (o : Oid) : revsOf (a ++ b) o = revsOf a o ++ revsOf b o := by
  simp [revsOf, List.filterMap_append]

theorem revs_leaf (l : Layer) (o : Oid) : (Store.leaf l).revs o = l.revs o := rfl

theorem revs_demo (b : Store) (c : Layer) (ds : DState) (o : Oid) :
    (Store.demo b c ds).revs o = b.revs o ++ c.revs o := by
  simp [Store.revs, Store.iterator, revsOf_append, Layer.revs]

theorem recOf_mem {recs : Recs} {o : Oid} {d : Option Data} (h : recOf recs o = some d) :
    (o, d) ∈ recs := by
  unfold recOf at h
  cases hf : recs.reverse.find? (fun r => r.1 = o) with
  | none => rw [hf] at h; simp at h
  | some r =>
    rw [hf] at h
    have h1 := List.mem_of_find?_eq_some hf
    have h2 : r.1 = o := by simpa using List.find?_some hf
    simp only [Option.map_some, Option.some.injEq] at h
    obtain ⟨a, b⟩ := r
    simp only at h h2
    subst h h2
    simpa using h1

theorem mem_revsOf {txns : List Txn} {o : Oid} {x : Rev} (h : x ∈ revsOf txns o) :
    ∃ t ∈ txns, t.tid = x.1 ∧ (o, x.2) ∈ t.recs := by
  unfold revsOf at h
  rw [List.mem_filterMap] at h
  obtain ⟨t, ht, he⟩ := h
  cases hr : recOf t.recs o with
  | none => rw [hr] at he; simp at he
  | some d =>
    rw [hr] at he
    simp only [Option.map_some, Option.some.injEq] at he
    subst he
    exact ⟨t, ht, rfl, recOf_mem hr⟩

theorem revsOf_sorted {txns : List Txn} (h : txns.Pairwise (fun a b => a.tid < b.tid)) (o : Oid) :
    (revsOf txns o).Pairwise (fun x y => x.1 < y.1) := by
  unfold revsOf
  refine List.Pairwise.filterMap _ ?_ h
  intro a a' haa b hb b' hb'
  cases h1 : recOf a.recs o with
  | none => rw [h1] at hb; simp at hb
  | some d =>
    cases h2 : recOf a'.recs o with
    | none => rw [h2] at hb'; simp at hb'
    | some d' =>
      rw [h1] at hb; rw [h2] at hb'
      simp only [Option.map_some, Option.some.injEq] at hb hb'
      subst hb hb'
      exact haa

/-! ### store-level hypotheses (all decidable) -/

/-- each changes layer: transactions in strictly increasing tid order -/
def Sorted : Store → Prop
  | .leaf l => l.txns.Pairwise (fun a b => a.tid < b.tid)
  | .demo b c _ => Sorted b ∧ c.txns.Pairwise (fun a b => a.tid < b.tid)

/-- **TidOrdered**: every tid of a changes layer is above every tid below it -/
def TidOrdered : Store → Prop
  | .leaf _ => True
  | .demo b c _ => TidOrdered b ∧ ∀ x ∈ b.iterator, ∀ y ∈ c.txns, x.tid < y.tid

/-- every tid is below `maxtid` -/
def BelowMax (s : Store) : Prop := ∀ t ∈ s.iterator, t.tid < maxtid

/-- an un-creation record is written into a changes layer only for an oid unknown below -/
def UncreateOverNothing : Store → Prop
  | .leaf _ => True
  | .demo b c _ => UncreateOverNothing b ∧ ∀ t ∈ c.txns, ∀ r ∈ t.recs, r.2 = none → b.revs r.1 = []

instance decSorted : (s : Store) → Decidable (Sorted s)
  | .leaf l => by unfold Sorted; exact inferInstance
  | .demo b c _ => by unfold Sorted; exact @instDecidableAnd _ _ (decSorted b) inferInstance

instance decTidOrdered : (s : Store) → Decidable (TidOrdered s)
  | .leaf _ => isTrue trivial
  | .demo b c _ => by unfold TidOrdered; exact @instDecidableAnd _ _ (decTidOrdered b) inferInstance

instance (s : Store) : Decidable (BelowMax s) := by unfold BelowMax; exact inferInstance

instance decUncreate : (s : Store) → Decidable (UncreateOverNothing s)
  | .leaf _ => isTrue trivial
  | .demo b c _ => by
    unfold UncreateOverNothing; exact @instDecidableAnd _ _ (decUncreate b) inferInstance

/-- the per-oid hypotheses, level by level -/
def OidOK : Store → Oid → Prop
  | .leaf _, _ => True
  | .demo b c _, o => OidOK b o ∧ LevelOK (b.revs o) (c.revs o)

theorem belowMax_base {b : Store} {c : Layer} {ds : DState} (h : BelowMax (.demo b c ds)) :
    BelowMax b := fun t ht => h t (by simp [Store.iterator, ht])

theorem oidOK_of {s : Store} (hs : Sorted s) (ho : TidOrdered s) (hm : BelowMax s)
    (hu : UncreateOverNothing s) (o : Oid) : OidOK s o := by
  induction s with
  | leaf l => trivial
  | demo b c ds ih =>
    refine ⟨ih hs.1 ho.1 (belowMax_base hm) hu.1, ⟨revsOf_sorted hs.2 o, ?_⟩, ?_, ?_⟩
    · intro x hx
      obtain ⟨t, ht, he, _⟩ := mem_revsOf hx
      rw [← he]
      exact hm t (by simp [Store.iterator, ht])
    · intro x hx y hy
      obtain ⟨t, ht, he, _⟩ := mem_revsOf hx
      obtain ⟨t', ht', he', _⟩ := mem_revsOf hy
      rw [← he, ← he']
      exact ho.2 t ht t' ht'
    · intro hnd
      apply Classical.byContradiction
      intro hb
      apply hnd
      intro y hy hn
      obtain ⟨t, ht, _, hr⟩ := mem_revsOf hy
      exact hb (hu.2 t ht (o, y.2) hr hn)

/-! ### every query of a stack = the query on its concatenated history -/

theorem store_loadBefore_vis (s : Store) (o : Oid) (h : OidOK s o) (t : Tid) :
    vis (s.loadBefore o t) = vis (loadBeforeR (s.revs o) t) := by
  induction s generalizing t with
  | leaf l => rfl
  | demo b c ds ih =>
    rw [revs_demo]
    exact demoLoadBefore_vis h.2 t (ih h.1 t)

theorem allData_append {a b : List Rev} (h : AllData (a ++ b)) : AllData a ∧ AllData b :=
  ⟨fun x hx => h x (by simp [hx]), fun x hx => h x (by simp [hx])⟩

theorem store_loadBefore_exact (s : Store) (o : Oid) (h : OidOK s o) (hd : AllData (s.revs o))
    (t : Tid) : s.loadBefore o t = loadBeforeR (s.revs o) t := by
  induction s generalizing t with
  | leaf l => rfl
  | demo b c ds ih =>
    rw [revs_demo] at hd ⊢
    exact demoLoadBefore_exact h.2 (allData_append hd).1 t (ih h.1 (allData_append hd).1 t)

/-- the only error a read raises is POSKeyError -/
theorem loadBeforeR_err {r : List Rev} {t : Tid} {e : Err} (h : loadBeforeR r t = .error e) :
    e = .keyError := by
  rcases loadBeforeR_cases r t with ⟨_, h1⟩ | ⟨_, _, h1⟩ | ⟨_, _, h1⟩ | ⟨_, _, _, h1⟩ <;>
    rw [h1] at h <;> cases h <;> rfl

theorem findEnd_err {rc : List Rev} {f : Nat} {t : Tid} {e : Err} (h : findEnd rc f t = .error e) :
    e = .keyError := by
  induction f generalizing t with
  | zero => simp [findEnd] at h
  | succ f ih =>
    unfold findEnd at h
    split at h
    · rename_i x hx
      cases h
      exact loadBeforeR_err hx
    · cases h
    · exact ih h

theorem store_loadBefore_err (s : Store) (o : Oid) (t : Tid) {e : Err}
    (h : s.loadBefore o t = .error e) : e = .keyError := by
  induction s generalizing t with
  | leaf l => exact loadBeforeR_err h
  | demo b c ds ih =>
    simp only [Store.loadBefore, demoLoadBefore] at h
    split at h
    · exact ih _ h
    · cases h
    · split at h
      · cases h
      · cases h
      · cases h
      · split at h
        · cases h
        · split at h
          · rename_i x hx
            cases h
            exact findEnd_err hx
          · cases h

theorem currentOf_of_vis {x y : Except Err (Option LB)} (hv : vis x = vis y)
    (hx : ∀ e, x = .error e → e = .keyError) (hy : ∀ e, y = .error e → e = .keyError) :
    currentOf x = currentOf y := by
  match x, y with
  | .ok (some a), .ok (some b) =>
    simp only [vis, Option.some.injEq] at hv
    subst hv; rfl
  | .ok (some a), .ok none => simp [vis] at hv
  | .ok (some a), .error _ => simp [vis] at hv
  | .ok none, .ok (some b) => simp [vis] at hv
  | .error _, .ok (some b) => simp [vis] at hv
  | .ok none, .ok none => rfl
  | .ok none, .error e => rw [hy e rfl]; rfl
  | .error e, .ok none => rw [hx e rfl]; rfl
  | .error e, .error e' => rw [hx e rfl, hy e' rfl]

theorem store_load (s : Store) (o : Oid) (h : OidOK s o) : s.load o = loadCurrentR (s.revs o) :=
  currentOf_of_vis (store_loadBefore_vis s o h maxtid)
    (fun _ he => store_loadBefore_err s o maxtid he) (fun _ he => loadBeforeR_err he)

theorem store_loadSerial (s : Store) (o : Oid) (h : OidOK s o) (ser : Tid) :
    s.loadSerial o ser = loadSerialR (s.revs o) ser := by
  induction s with
  | leaf l => rfl
  | demo b c ds ih =>
    rw [revs_demo]
    exact demoLoadSerial_merge h.2.ordered ser (ih h.1)

theorem store_getTid (s : Store) (o : Oid) (h : OidOK s o) : s.getTid o = getTidR (s.revs o) := by
  induction s with
  | leaf l => rfl
  | demo b c ds ih =>
    rw [revs_demo]
    exact demoGetTid_merge h.2.uncreate (ih h.1)

theorem store_history (s : Store) (o : Oid) (n : Nat) (hn : 1 ≤ n) :
    s.history o n = historyR (s.revs o) n := by
  induction s generalizing n with
  | leaf l => rfl
  | demo b c ds ih =>
    rw [revs_demo]
    exact demoHistory_merge hn (fun m hm => ih m hm)

end Proofs.Demo
