/-
  C09 helper lemmas, part 2: the scan continued from a saved position equals the full scan; what
  `_check_sanity` can return for an index saved earlier; open with index = open without; side
  files; read-only sessions.  Core Lean only.
-/
import Proofs.IndexCache
namespace Proofs.IndexCache
open ZodbModel ZodbModel.Format ZodbModel.Disk ZodbModel.IndexCache Proofs.Format Proofs.Disk

/-! ### scanning from the saved position -/

theorem lastTid_append (l : Nat) (cs : List FTxn) (t : FTxn) : lastTid l (cs ++ [t]) = t.tid := by
  induction cs generalizing l with
  | nil => rfl
  | cons c cs ih => simp only [List.cons_append, lastTid]; exact ih _

/-- `read_index(start = saved pos, index = saved index, ltid)` on a file that still begins with the
    data the index was saved for — followed by ANY bytes `ext` (later commits, torn tails, garbage)
    — is the full scan, except that the full scan also lists the transactions before `pos`. -/
theorem readIndex_from_saved (cs : List FTxn) (hw : FileWF cs) (ext : Bytes) (l : Nat) :
    readIndex (encodeFile cs ++ ext) 4 [] l
      = (readIndex (encodeFile cs ++ ext) (encodeFile cs).length (indexOf cs) (lastTid l cs)).map
          (ScanResult.withTxns cs) := by
  have hP : (encodeFile cs).length = 4 + (encodeTxns cs).length := by
    simp [encodeFile, magic]; omega
  have hlen : (encodeFile cs ++ ext).length = 4 + (encodeTxns cs).length + ext.length := by
    rw [List.length_append, hP]
  have hge := encodeTxns_length_ge cs 4 hw
  have htake : (encodeFile cs ++ ext).take 4 = magic := by
    simp only [encodeFile, List.append_assoc]; exact take_append_eq rfl
  have hdrop4 : (encodeFile cs ++ ext).drop 4 = encodeTxns cs ++ ext := by
    simp only [encodeFile, List.append_assoc]; exact drop_append_eq rfl
  have hdropP : (encodeFile cs ++ ext).drop (encodeFile cs).length = ext := drop_append_eq rfl
  obtain ⟨f, hf⟩ : ∃ f, (encodeFile cs ++ ext).length + 1 = cs.length + f :=
    ⟨(encodeFile cs ++ ext).length + 1 - cs.length, by omega⟩
  unfold readIndex
  rw [if_neg (by omega), if_neg (by omega), if_neg (by simp [htake]), if_neg (by omega),
    if_neg (by omega), if_neg (by simp [htake]), hdrop4, hdropP]
  have h0 : scan ((encodeFile cs ++ ext).length + 1) (encodeTxns cs ++ ext) 4 ⟨[], l, []⟩
      = scan f ext (4 + (encodeTxns cs).length) ⟨indexFrom [] 4 cs, lastTid l cs, [] ++ cs⟩ := by
    rw [hf]; exact scan_encode cs 4 _ _ _ hw
  have h1 := scan_txns f ext (4 + (encodeTxns cs).length) (indexFrom [] 4 cs) (lastTid l cs) cs []
  have h2 := scan_fuel f ((encodeFile cs ++ ext).length + 1) ext (4 + (encodeTxns cs).length)
    ⟨indexFrom [] 4 cs, lastTid l cs, []⟩ (by omega) (by omega)
  rw [List.append_nil] at h1
  rw [List.nil_append] at h0
  rw [h0, h1, h2, hP, indexOf]

/-! ### `_check_sanity` returns the tid of the transaction that ends at the saved position -/

theorem sanityStep_back {file : Bytes} {index : Index} {pos : Nat} {ltid : Option Nat} {pos' l : Nat}
    (h : sanityStep file index pos ltid = .back pos' l) :
    ∃ hd, readTxnHeaderAt file (pos - beVal ((file.drop (pos - 8)).take 8) - 8) = .ok hd ∧
      l = ltid.getD hd.tid := by
  unfold sanityStep at h
  simp only [] at h
  repeat' (split at h <;> try (simp at h))
  all_goals exact ⟨_, by assumption, h.2.symm⟩

theorem sanityStep_done {file : Bytes} {index : Index} {pos : Nat} {ltid : Option Nat} {l : Nat}
    (h : sanityStep file index pos ltid = .done (.ok (some l))) :
    ∃ hd, readTxnHeaderAt file (pos - beVal ((file.drop (pos - 8)).take 8) - 8) = .ok hd ∧
      l = ltid.getD hd.tid := by
  unfold sanityStep at h
  simp only [] at h
  repeat' (split at h <;> try (simp at h))
  all_goals exact ⟨_, by assumption, h.symm⟩

theorem sanityWalk_some (file : Bytes) (index : Index) : ∀ (f pos l l' : Nat),
    sanityWalk file index f pos (some l) = .ok (some l') → l' = l := by
  intro f
  induction f with
  | zero => intro pos l l' h; simp [sanityWalk] at h
  | succ f ih =>
    intro pos l l' h
    simp only [sanityWalk] at h
    split at h
    · rename_i r heq
      subst h
      obtain ⟨hd, _, e⟩ := sanityStep_done heq
      simpa using e
    · rename_i pos' l0 heq
      obtain ⟨hd, _, e⟩ := sanityStep_back heq
      have := ih _ _ _ h
      simp at e
      omega

theorem sanityWalk_first (file : Bytes) (index : Index) (f pos l' : Nat)
    (h : sanityWalk file index (f + 1) pos none = .ok (some l')) :
    ∃ hd, readTxnHeaderAt file (pos - beVal ((file.drop (pos - 8)).take 8) - 8) = .ok hd ∧
      l' = hd.tid := by
  simp only [sanityWalk] at h
  split at h
  · rename_i r heq
    subst h
    obtain ⟨hd, h1, e⟩ := sanityStep_done heq
    exact ⟨hd, h1, by simpa using e⟩
  · rename_i pos' l0 heq
    obtain ⟨hd, h1, e⟩ := sanityStep_back heq
    have := sanityWalk_some _ _ _ _ _ _ h
    exact ⟨hd, h1, by simp at e; omega⟩

theorem lastTxnWF (cs : List FTxn) (t : FTxn) (hw : FileWF (cs ++ [t])) : TxnWF (filePos cs) t := by
  have : ∀ (cs : List FTxn) (pos : Nat), TxnsWF pos (cs ++ [t]) →
      TxnWF (pos + (cs.map fun t => t.tlen + 8).sum) t := by
    intro cs
    induction cs with
    | nil => intro pos h; simpa using h.1
    | cons c cs ih =>
      intro pos h
      have := ih _ h.2
      simp only [List.map_cons, List.sum_cons]
      rw [← Nat.add_assoc]; exact this
  exact this cs 4 hw

/-- the last transaction of a well-formed file, seen from its end: the redundant length in front of
    `pos`, the header it leads back to, and where the records start -/
theorem header_at_end (cs : List FTxn) (t : FTxn) (hw : FileWF (cs ++ [t])) (ext : Bytes) :
    let file := encodeFile (cs ++ [t]) ++ ext
    let pos := (encodeFile (cs ++ [t])).length
    beVal ((file.drop (pos - 8)).take 8) = t.tlen ∧ pos - t.tlen - 8 = (encodeFile cs).length ∧
    readTxnHeaderAt file (encodeFile cs).length
      = .ok ⟨t.tid, t.tlen, t.status, t.user.length, t.desc.length, t.ext.length⟩ ∧
    file.drop ((encodeFile cs).length + (23 + t.user.length + t.desc.length + t.ext.length))
      = encodeRecs t.recs ++ (be 8 t.tlen ++ ext) := by
  have ht := lastTxnWF cs t hw
  obtain ⟨h1, h2, h3, h4, h5, h6, h7, h8, h9⟩ := ht
  have hb := recWF_body h9
  have hlenT : (encodeTxn t).length = t.tlen + 8 := encodeTxnSt_length _ _ hb
  have hfile : encodeFile (cs ++ [t]) = encodeFile cs ++ encodeTxn t := encodeFile_append cs t
  have hpos : (encodeFile (cs ++ [t])).length = (encodeFile cs).length + (t.tlen + 8) := by
    rw [hfile, List.length_append, hlenT]
  have hrl := encodeRecs_length _ hb
  have hH := encodeHdr_length t.tid t.tlen t.status t.user.length t.desc.length t.ext.length
  have hparts := encodeTxnSt_parts t.status t ext
  refine ⟨?_, by omega, ?_, ?_⟩
  · -- the redundant length in front of `pos`
    have e : encodeFile (cs ++ [t]) ++ ext =
        (encodeFile cs ++ (encodeHdr t.tid t.tlen t.status t.user.length t.desc.length t.ext.length ++
          t.user ++ t.desc ++ t.ext ++ encodeRecs t.recs)) ++ (be 8 t.tlen ++ ext) := by
      rw [hfile, List.append_assoc, encodeTxn, hparts]; simp
    rw [e, hpos]
    have := slice_mid (encodeFile cs ++ (encodeHdr t.tid t.tlen t.status t.user.length t.desc.length
      t.ext.length ++ t.user ++ t.desc ++ t.ext ++ encodeRecs t.recs)) (be 8 t.tlen) ext
      (n := (encodeFile cs).length + (t.tlen + 8) - 8) (m := 8)
      (by simp [hrl, FTxn.tlen, FTxn.hdrLen]; omega) (be_length 8 _)
    rw [this, beVal_be 8 t.tlen (by simpa using (by omega : t.tlen < 2 ^ 64))]
  · -- the header at the start of `t`
    have e : encodeFile (cs ++ [t]) ++ ext = encodeFile cs ++
        (encodeHdr t.tid t.tlen t.status t.user.length t.desc.length t.ext.length ++
          (t.user ++ (t.desc ++ (t.ext ++ (encodeRecs t.recs ++ (be 8 t.tlen ++ ext)))))) := by
      rw [hfile, List.append_assoc, encodeTxn, hparts]
    have hs : ((encodeFile (cs ++ [t]) ++ ext).drop (encodeFile cs).length).take 23 =
        encodeHdr t.tid t.tlen t.status t.user.length t.desc.length t.ext.length ++ [] := by
      rw [e, List.append_nil]; exact slice_mid _ _ _ rfl hH
    unfold readTxnHeaderAt
    simp only [hs, parseHdr_encode _ _ _ _ _ _ _ (by omega : t.tid < 2 ^ 64)
      (by omega : t.tlen < 2 ^ 64) (by omega : t.status < 256) h5 h6 h7]
    rw [if_neg (by simp), if_neg (by omega)]
  · -- the records
    have e : encodeFile (cs ++ [t]) ++ ext = (encodeFile cs ++
        (encodeHdr t.tid t.tlen t.status t.user.length t.desc.length t.ext.length ++
          t.user ++ t.desc ++ t.ext)) ++ (encodeRecs t.recs ++ (be 8 t.tlen ++ ext)) := by
      rw [hfile, List.append_assoc, encodeTxn, hparts]; simp
    rw [e]
    exact drop_append_eq (by simp [hH]; omega)

theorem checkSanity_saved (cs : List FTxn) (hw : FileWF cs) (ext : Bytes) (ix : Index) (l l' : Nat)
    (h : checkSanity (encodeFile cs ++ ext) ix (encodeFile cs).length = .ok (some l')) :
    l' = lastTid l cs := by
  unfold checkSanity at h
  split at h
  · simp at h
  · rename_i h100
    split at h
    · simp at h
    · rcases List.eq_nil_or_concat cs with rfl | ⟨cs', t, rfl⟩
      · simp [encodeFile, magic, encodeTxns] at h100
      · rw [List.concat_eq_append] at *
        rw [lastTid_append]
        obtain ⟨f, hf⟩ : ∃ f, (encodeFile (cs' ++ [t])).length = f + 1 :=
          ⟨(encodeFile (cs' ++ [t])).length - 1, by omega⟩
        rw [hf] at h
        obtain ⟨hd, h1, h2⟩ := sanityWalk_first _ _ _ _ _ h
        obtain ⟨e1, e2, e3, _⟩ := header_at_end cs' t hw ext
        rw [← hf, e1, e2, e3] at h1
        injection h1 with h1
        rw [h2, ← h1]

/-! ### open with a saved index = open without -/

theorem finishOpen_state (ro : Bool) (file : Bytes) (u u' : Bool) (r : ScanResult) (a : List FTxn) :
    (finishOpen ro file u (ScanResult.withTxns a r)).state = (finishOpen ro file u' r).state := rfl

/-- the index was saved when `cs` was committed; the file now is that data followed by anything -/
theorem openWith_saved (ro : Bool) (cs : List FTxn) (hw : FileWF cs) (ext : Bytes) (o : Opened)
    (h : openWith ro (encodeFile cs ++ ext) (some (saveIndex cs)) = .ok o) :
    ∃ o', openWith ro (encodeFile cs ++ ext) none = .ok o' ∧ o'.state = o.state := by
  unfold openWith restoreIndex at h ⊢
  simp only [saveIndex] at h
  cases hs : checkSanity (encodeFile cs ++ ext) (indexOf cs) (encodeFile cs).length with
  | error e => rw [hs] at h; exact ⟨o, h, rfl⟩
  | ok v =>
    rw [hs] at h
    cases v with
    | none => exact ⟨o, h, rfl⟩
    | some l' =>
      have hl := checkSanity_saved cs hw ext _ 0 l' hs
      subst hl
      simp only [] at h ⊢
      rw [readIndex_from_saved cs hw ext 0]
      cases hr : readIndex (encodeFile cs ++ ext) (encodeFile cs).length (indexOf cs) (lastTid 0 cs) with
      | error e => rw [hr] at h; simp at h
      | ok r =>
        rw [hr] at h
        simp only [Except.map]
        injection h with h
        exact ⟨_, rfl, by rw [← h]; exact finishOpen_state _ _ _ _ _ _⟩

/-- an index the sanity check rejects (or that does not load) is simply ignored -/
theorem openWith_rejected (ro : Bool) (file : Bytes) (s : SavedIndex)
    (h : ∀ l, checkSanity file s.index s.pos ≠ .ok (some l)) :
    openWith ro file (some s) = openWith ro file none := by
  unfold openWith restoreIndex
  cases hs : checkSanity file s.index s.pos with
  | error e => simp only [hs]
  | ok v =>
    cases v with
    | none => simp only [hs]
    | some l => exact absurd hs (h l)

/-! ### side files -/

theorem openDir_congr (ro : Bool) (d d' : Dir) (h1 : dirGet d "" = dirGet d' "")
    (h2 : dirGet d ".index" = dirGet d' ".index") :
    (openDir ro d).map (·.1) = (openDir ro d').map (·.1) := by
  unfold openDir
  rw [h1, h2]
  cases dirGet d' "" with
  | none => rfl
  | some file =>
    simp only []
    cases openFile ro file (dirGet d' ".index") with
    | error e => rfl
    | ok o => rfl

/-! ### read-only -/

theorem saveIndexEvents_ro (d : Dir) (pos : Nat) (ix : Index) : saveIndexEvents true d pos ix = [] := rfl

theorem openDir_ro (d : Dir) (o : Opened) (evs : List FsEv) (h : openDir true d = .ok (o, evs)) :
    evs = [] ∧ some o.bytes = dirGet d "" := by
  unfold openDir at h
  cases hf : dirGet d "" with
  | none => rw [hf] at h; simp at h
  | some file =>
    rw [hf] at h
    simp only [] at h
    cases ho : openFile true file (dirGet d ".index") with
    | error e => rw [ho] at h; simp at h
    | ok o' =>
      rw [ho] at h
      simp only [Except.ok.injEq, Prod.mk.injEq] at h
      obtain ⟨rfl, rfl⟩ := h
      refine ⟨by simp [openEvents, saveIndexEvents], ?_⟩
      unfold openFile openWith at ho
      repeat' (split at ho <;> try (simp at ho))
      all_goals (subst ho; rfl)

theorem apiStep_ro (s : Session) (d : Dir) (pos : Nat) (ix : Index) (op : ApiOp)
    (hro : s.ro = true) (ht : s.inTxn = false) :
    (apiStep s d pos ix op).1.ro = true ∧ (apiStep s d pos ix op).1.inTxn = false ∧
    (apiStep s d pos ix op).2.2 = [] ∧
    (op.isWrite = true → (apiStep s d pos ix op).2.1 = .readOnly ∨
                          (apiStep s d pos ix op).2.1 = .storageTransaction) := by
  cases op <;> simp [apiStep, hro, ht, ApiOp.isWrite, saveIndexEvents]

theorem runApi_ro (d : Dir) (pos : Nat) (ix : Index) (ops : List ApiOp) : ∀ (s : Session),
    s.ro = true → s.inTxn = false →
    (runApi d pos ix s ops).2 = [] ∧
    ∀ oo ∈ (runApi d pos ix s ops).1, oo.1.isWrite = true →
      oo.2 = .readOnly ∨ oo.2 = .storageTransaction := by
  induction ops with
  | nil => intro s _ _; simp [runApi]
  | cons op ops ih =>
    intro s hro ht
    obtain ⟨h1, h2, h3, h4⟩ := apiStep_ro s d pos ix op hro ht
    obtain ⟨i1, i2⟩ := ih _ h1 h2
    simp only [runApi]
    refine ⟨by rw [h3, i1]; rfl, ?_⟩
    intro oo hoo hw
    rcases List.mem_cons.1 hoo with rfl | hoo
    · exact h4 hw
    · exact i2 oo hoo hw

end Proofs.IndexCache
