/-
  Helper lemmas for C04 (1): offsets, record lookup, the prev-pointer chain, back pointers.
  Core Lean only.
-/
import ZodbModel.FileStore
namespace Proofs.FileStoreBasic
open ZodbModel ZodbModel.FileStore

/-! ### sizes and offsets -/

theorem size_ge (r : DRec) : 42 ≤ r.size := by
  unfold DRec.size; omega

theorem recsSize_append (a b : List DRec) : recsSize (a ++ b) = recsSize a + recsSize b := by
  induction a with
  | nil => simp [recsSize]
  | cons r a ih => simp only [List.cons_append, recsSize, ih]; omega

theorem hdrLen_ge (t : FTxn) : 23 ≤ t.hdrLen := by
  unfold FTxn.hdrLen; omega

theorem txn_size_ge (t : FTxn) : 31 ≤ t.size := by
  have := hdrLen_ge t
  unfold FTxn.size FTxn.tlen; omega

theorem txn_size_eq (t : FTxn) : t.size = t.hdrLen + recsSize t.recs + 8 := rfl

theorem logEnd_ge (log : Log) : 4 ≤ logEnd log := by
  induction log with
  | nil => simp [logEnd]
  | cons t older ih => simp only [logEnd]; omega

theorem logEnd_cons (t : FTxn) (older : Log) : logEnd (t :: older) = logEnd older + t.size := rfl

theorem logEnd_append (a b : Log) : logEnd b ≤ logEnd (a ++ b) := by
  induction a with
  | nil => simp
  | cons t a ih => simp only [List.cons_append, logEnd]; omega

/-! ### records of one transaction -/

theorem recAtIn_some {base : Nat} {recs : List DRec} {p : Nat} {r : DRec}
    (h : recAtIn base recs p = some r) :
    r ∈ recs ∧ base ≤ p ∧ p + r.size ≤ base + recsSize recs := by
  induction recs with
  | nil => simp [recAtIn] at h
  | cons r' older ih =>
    simp only [recAtIn] at h
    split at h
    · injection h with h; subst h
      refine ⟨List.mem_cons_self, by omega, ?_⟩
      simp only [recsSize]; omega
    · obtain ⟨h1, h2, h3⟩ := ih h
      refine ⟨List.mem_cons_of_mem _ h1, h2, ?_⟩
      simp only [recsSize]; omega

theorem lastRecIn_some {base : Nat} {recs : List DRec} {oid : Nat} {r : DRec} {p : Nat}
    (h : lastRecIn base recs oid = some (r, p)) :
    r ∈ recs ∧ r.oid = oid ∧ base ≤ p ∧ p + r.size ≤ base + recsSize recs ∧
    recAtIn base recs p = some r := by
  induction recs with
  | nil => simp [lastRecIn] at h
  | cons r' older ih =>
    simp only [lastRecIn] at h
    split at h
    · injection h with h
      injection h with h1 h2
      subst h1 h2
      refine ⟨List.mem_cons_self, by assumption, by omega, ?_, ?_⟩
      · simp only [recsSize]; omega
      · simp [recAtIn]
    · obtain ⟨h1, h2, h3, h4, h5⟩ := ih h
      have := size_ge r
      refine ⟨List.mem_cons_of_mem _ h1, h2, h3, ?_, ?_⟩
      · simp only [recsSize]; omega
      · simp only [recAtIn]
        rw [if_neg (by omega)]
        exact h5

theorem lastRecIn_none {base : Nat} {recs : List DRec} {oid : Nat}
    (h : lastRecIn base recs oid = none) : ∀ r ∈ recs, r.oid ≠ oid := by
  induction recs with
  | nil => simp
  | cons r' older ih =>
    simp only [lastRecIn] at h
    split at h
    · simp at h
    · intro r hr
      rcases List.mem_cons.1 hr with rfl | hr
      · assumption
      · exact ih h r hr

theorem lastRecIn_fst (base : Nat) (recs : List DRec) (oid : Nat) :
    (lastRecIn base recs oid).map (·.1) = recs.find? (fun r => r.oid == oid) := by
  induction recs with
  | nil => simp [lastRecIn]
  | cons r older ih =>
    simp only [lastRecIn, List.find?_cons]
    by_cases h : r.oid = oid
    · simp [h]
    · have : (r.oid == oid) = false := by simp [h]
      simp only [h, if_false, this]; exact ih

theorem lastRecIn_base (b1 b2 : Nat) (recs : List DRec) (oid : Nat) :
    (lastRecIn b1 recs oid).map (·.1) = (lastRecIn b2 recs oid).map (·.1) := by
  rw [lastRecIn_fst, lastRecIn_fst]

/-! ### the index as an association list -/

theorem idxGet_withPos_append (base : Nat) (recs : List DRec) (ix : Index) (oid : Nat) :
    idxGet ((withPos base recs).map (fun rp => (rp.1.oid, rp.2)) ++ ix) oid =
      match lastRecIn base recs oid with
      | some (_, p) => p
      | none => idxGet ix oid := by
  induction recs with
  | nil => simp [withPos, lastRecIn]
  | cons r older ih =>
    simp only [withPos, List.map_cons, List.cons_append, idxGet, lastRecIn]
    by_cases h : r.oid = oid
    · simp [h]
    · simp only [h, if_false]; exact ih

theorem idxGet_withPos (base : Nat) (recs : List DRec) (oid : Nat) :
    idxGet ((withPos base recs).map (fun rp => (rp.1.oid, rp.2))) oid =
      match lastRecIn base recs oid with
      | some (_, p) => p
      | none => 0 := by
  have := idxGet_withPos_append base recs [] oid
  simpa [idxGet] using this

theorem mem_withPos {base : Nat} {recs : List DRec} {r : DRec} {p : Nat}
    (h : (r, p) ∈ withPos base recs) : r ∈ recs ∧ recAtIn base recs p = some r ∧ base ≤ p := by
  induction recs with
  | nil => simp [withPos] at h
  | cons r' older ih =>
    simp only [withPos, List.mem_cons] at h
    rcases h with h | h
    · injection h with h1 h2
      subst h1 h2
      exact ⟨List.mem_cons_self, by simp [recAtIn], by omega⟩
    · obtain ⟨h1, h2, h3⟩ := ih h
      have ⟨_, _, h4⟩ := recAtIn_some h2
      have := size_ge r
      refine ⟨List.mem_cons_of_mem _ h1, ?_, h3⟩
      simp only [recAtIn]
      rw [if_neg (by omega)]
      exact h2

/-! ### record lookup in the log -/

theorem recAt_cons_of_lt {t : FTxn} {older : Log} {p : Nat} (h : p < logEnd older) :
    recAt (t :: older) p = recAt older p := by
  simp only [recAt]; rw [if_neg (by omega)]

theorem chain_cons_of_lt {t : FTxn} {older : Log} {p : Nat} (h : p < logEnd older) :
    chain (t :: older) p = chain older p := by
  simp only [chain]; rw [if_neg (by omega)]

theorem loadBack_cons_of_lt {t : FTxn} {older : Log} {p : Nat} (h : p < logEnd older) :
    loadBack (t :: older) p = loadBack older p := by
  simp only [loadBack]; rw [if_neg (by omega)]

theorem recAt_append_of_lt (newer : Log) {older : Log} {p : Nat} (h : p < logEnd older) :
    recAt (newer ++ older) p = recAt older p := by
  induction newer with
  | nil => rfl
  | cons t newer ih =>
    rw [List.cons_append, recAt_cons_of_lt, ih]
    have := logEnd_append newer older; omega

theorem loadBack_append_of_lt (newer : Log) {older : Log} {p : Nat} (h : p < logEnd older) :
    loadBack (newer ++ older) p = loadBack older p := by
  induction newer with
  | nil => rfl
  | cons t newer ih =>
    rw [List.cons_append, loadBack_cons_of_lt, ih]
    have := logEnd_append newer older; omega

theorem recAt_some {log : Log} {p : Nat} {th : FTxn × DRec} (h : recAt log p = some th) :
    p < logEnd log ∧ 27 ≤ p ∧ th.1 ∈ log ∧ th.2 ∈ th.1.recs := by
  induction log with
  | nil => simp [recAt] at h
  | cons t older ih =>
    simp only [recAt] at h
    split at h
    · cases h' : recAtIn (logEnd older + t.hdrLen) t.recs p with
      | none => simp [h'] at h
      | some r =>
        simp only [h', Option.map_some] at h
        injection h with h; subst h
        obtain ⟨h1, h2, h3⟩ := recAtIn_some h'
        have := size_ge r
        have := logEnd_ge older
        have := hdrLen_ge t
        refine ⟨?_, by omega, List.mem_cons_self, h1⟩
        simp only [logEnd, FTxn.size, FTxn.tlen]; omega
    · obtain ⟨h1, h2, h3, h4⟩ := ih h
      refine ⟨?_, h2, List.mem_cons_of_mem _ h3, h4⟩
      simp only [logEnd]; omega

theorem recAt_zero (log : Log) : recAt log 0 = none := by
  cases h : recAt log 0 with
  | none => rfl
  | some th => have := (recAt_some h).2.1; omega

theorem loadBack_zero (log : Log) : loadBack log 0 = none := by
  induction log with
  | nil => rfl
  | cons t older ih =>
    rw [loadBack_cons_of_lt (by have := logEnd_ge older; omega), ih]

theorem chain_zero (log : Log) : chain log 0 = [] := by
  induction log with
  | nil => rfl
  | cons t older ih =>
    rw [chain_cons_of_lt (by have := logEnd_ge older; omega), ih]

/-! ### `lastPos`: what the index must say -/

theorem lastPos_lt (oid : Nat) (log : Log) : lastPos oid log < logEnd log := by
  induction log with
  | nil => simp [lastPos, logEnd]
  | cons t older ih =>
    simp only [lastPos]
    split
    · rename_i r p h
      obtain ⟨_, _, _, h4, _⟩ := lastRecIn_some h
      have := size_ge r
      simp only [logEnd, FTxn.size, FTxn.tlen]; omega
    · simp only [logEnd]; omega

theorem lastPos_recAt {oid : Nat} {log : Log} (h : lastPos oid log ≠ 0) :
    ∃ th, recAt log (lastPos oid log) = some th ∧ th.2.oid = oid := by
  induction log with
  | nil => simp [lastPos] at h
  | cons t older ih =>
    simp only [lastPos] at h ⊢
    split
    · rename_i r p h'
      obtain ⟨_, h2, h3, _, h5⟩ := lastRecIn_some h'
      have := hdrLen_ge t
      refine ⟨(t, r), ?_, h2⟩
      simp only [recAt]
      rw [if_pos (by omega), h5]; rfl
    · rename_i h'
      simp only [h'] at h
      obtain ⟨th, h1, h2⟩ := ih h
      exact ⟨th, by rw [recAt_cons_of_lt (lastPos_lt oid older)]; exact h1, h2⟩

/-- the revisions of `oid` in a log, newest first: the newest record of the oid in every
    transaction that has one (list-level description of what the prev chain visits) -/
def revRecs : Log → Nat → List (FTxn × DRec)
  | [], _ => []
  | t :: older, oid =>
    match lastRecIn (logEnd older + t.hdrLen) t.recs oid with
    | some (r, _) => (t, r) :: revRecs older oid
    | none => revRecs older oid

theorem lastPos_eq_zero_iff (oid : Nat) (log : Log) : lastPos oid log = 0 ↔ revRecs log oid = [] := by
  induction log with
  | nil => simp [lastPos, revRecs]
  | cons t older ih =>
    cases hl : lastRecIn (logEnd older + t.hdrLen) t.recs oid with
    | none => simp only [lastPos, revRecs, hl]; exact ih
    | some rp =>
      obtain ⟨r, p⟩ := rp
      obtain ⟨_, _, h3, _, _⟩ := lastRecIn_some hl
      have := logEnd_ge older
      simp only [lastPos, revRecs, hl]
      constructor
      · intro; omega
      · intro h; simp at h

/-- MAIN LEMMA (pointer chasing = list spec): starting from the index entry, the prev pointers
    visit exactly the newest record of the oid in every transaction that has one. -/
theorem chain_lastPos {log : Log} (h : LogInv log) (oid : Nat) :
    chain log (lastPos oid log) = revRecs log oid := by
  induction log with
  | nil => rfl
  | cons t older ih =>
    obtain ⟨_, hr, _, hi⟩ := h
    cases hl : lastRecIn (logEnd older + t.hdrLen) t.recs oid with
    | none =>
      simp only [lastPos, revRecs, hl]
      rw [chain_cons_of_lt (lastPos_lt oid older), ih hi]
    | some rp =>
      obtain ⟨r, p⟩ := rp
      obtain ⟨h1, h2, h3, _, h5⟩ := lastRecIn_some hl
      have := hdrLen_ge t
      simp only [lastPos, revRecs, hl, chain]
      rw [if_pos (by omega), h5]
      simp only
      have hp := (hr r h1).2.1
      rw [hp, h2, ih hi]

theorem mem_revRecs {log : Log} {oid : Nat} {th : FTxn × DRec} (h : th ∈ revRecs log oid) :
    th.1 ∈ log ∧ th.2 ∈ th.1.recs ∧ th.2.oid = oid := by
  induction log with
  | nil => simp [revRecs] at h
  | cons t older ih =>
    simp only [revRecs] at h
    split at h
    · rename_i r p h'
      obtain ⟨h1, h2, _⟩ := lastRecIn_some h'
      rcases List.mem_cons.1 h with rfl | h
      · exact ⟨List.mem_cons_self, h1, h2⟩
      · obtain ⟨a, b, c⟩ := ih h
        exact ⟨List.mem_cons_of_mem _ a, b, c⟩
    · obtain ⟨a, b, c⟩ := ih h
      exact ⟨List.mem_cons_of_mem _ a, b, c⟩

/-! ### consequences of the log invariant -/

theorem rec_tid {log : Log} (h : LogInv log) {t : FTxn} (ht : t ∈ log) {r : DRec} (hr : r ∈ t.recs) :
    r.tid = t.tid := by
  induction log with
  | nil => simp at ht
  | cons t' older ih =>
    obtain ⟨_, hrec, _, hi⟩ := h
    rcases List.mem_cons.1 ht with rfl | ht
    · exact (hrec r hr).1
    · exact ih hi ht

theorem tid_le_lastTid {log : Log} (h : LogInv log) {t : FTxn} (ht : t ∈ log) : t.tid ≤ lastTid log := by
  cases log with
  | nil => simp at ht
  | cons t' older =>
    obtain ⟨hs, _, _, _⟩ := h
    simp only [lastTid, List.head?_cons, Option.map_some, Option.getD_some]
    rcases List.mem_cons.1 ht with rfl | ht
    · omega
    · have := hs t ht; omega

/-- back pointers point backwards, into the file in front of their own transaction -/
theorem back_lt {log : Log} (h : LogInv log) {t : FTxn} (ht : t ∈ log) {r : DRec} (hr : r ∈ t.recs)
    {q : Nat} (hb : r.body = .back q) : q < logEnd log := by
  induction log with
  | nil => simp at ht
  | cons t' older ih =>
    obtain ⟨_, hrec, _, hi⟩ := h
    have hge := txn_size_ge t'
    rcases List.mem_cons.1 ht with rfl | ht
    · have := (hrec r hr).2.2
      rw [hb] at this
      simp only at this
      rcases this with rfl | ⟨th, h1, _⟩
      · have := logEnd_ge (t :: older); omega
      · have := (recAt_some h1).1
        simp only [logEnd]; omega
    · have := ih hi ht
      simp only [logEnd]; omega

/-- a non-zero back pointer names a record of the same object (in the whole log) -/
theorem back_valid {log : Log} (h : LogInv log) {t : FTxn} (ht : t ∈ log) {r : DRec} (hr : r ∈ t.recs)
    {q : Nat} (hb : r.body = .back q) (hq : q ≠ 0) : ∃ th, recAt log q = some th ∧ th.2.oid = r.oid := by
  induction log with
  | nil => simp at ht
  | cons t' older ih =>
    obtain ⟨_, hrec, _, hi⟩ := h
    rcases List.mem_cons.1 ht with rfl | ht
    · have := (hrec r hr).2.2
      rw [hb] at this
      simp only at this
      rcases this with h0 | ⟨th', h1, h2⟩
      · exact absurd h0 hq
      · exact ⟨th', by rw [recAt_cons_of_lt (recAt_some h1).1, h1], h2⟩
    · have hlt := back_lt hi ht hr hb
      obtain ⟨th, h1, h2⟩ := ih hi ht
      exact ⟨th, by rw [recAt_cons_of_lt hlt, h1], h2⟩

theorem revRecs_tid_lt {log : Log} (h : LogInv log) {oid : Nat} {th : FTxn × DRec}
    (hm : th ∈ revRecs log oid) : th.1.tid ≤ lastTid log :=
  tid_le_lastTid h (mem_revRecs hm).1

/-- the revisions are strictly ordered by tid, newest first -/
theorem revRecs_sorted {log : Log} (h : LogInv log) (oid : Nat) :
    (revRecs log oid).Pairwise (fun a b => b.2.tid < a.2.tid) := by
  induction log with
  | nil => simp [revRecs]
  | cons t older ih =>
    have h' := h
    obtain ⟨hs, hrec, _, hi⟩ := h
    simp only [revRecs]
    split
    · rename_i r p hl
      obtain ⟨h1, _⟩ := lastRecIn_some hl
      refine List.pairwise_cons.2 ⟨?_, ih hi⟩
      intro th hth
      obtain ⟨a, b, _⟩ := mem_revRecs hth
      have e1 := rec_tid hi a b
      have e2 := (hrec r h1).1
      have := hs th.1 a
      simp only; omega
    · exact ih hi

end Proofs.FileStoreBasic
