/-
  LINK lemmas: a DemoStorage (`ZodbModel/Demo.lean`, C16) whose base does not know an oid — in
  particular a DemoStorage over an EMPTY base — answers every query about it exactly as its
  changes storage alone; and tid generation (`ZodbModel/Tid.lean`) against the tid rules the other
  models assume.  Core Lean only.
-/
import ZodbModel.Demo
import ZodbModel.Tid
import ZodbModel.StoreRules
import ZodbModel.Mvcc
import ZodbModel.Copy
import ZodbModel.Undo
import ZodbModel.FileStore
namespace Proofs.Links
open ZodbModel ZodbModel.Demo

/-! ### demo storage over a base that does not hold the oid -/

theorem loadBeforeR_error {r : List Rev} {t : Tid} {e : Err} (h : loadBeforeR r t = .error e) :
    e = .keyError := by
  unfold loadBeforeR at h
  split at h
  · cases h; rfl
  · split at h
    · cases h
    · cases h; rfl
    · cases h

theorem demoLoadBefore_unknown (lb : Tid → Except Err (Option LB)) (rc : List Rev) (t : Tid)
    (hb : ∀ t', lb t' = .error .keyError) : demoLoadBefore lb rc t = loadBeforeR rc t := by
  unfold demoLoadBefore
  cases h : loadBeforeR rc t with
  | error e => rw [loadBeforeR_error h]; exact hb t
  | ok x =>
    cases x with
    | none => simp [hb t]
    | some r => rfl

theorem loadSerialR_error {r : List Rev} {s : Tid} {e : Err} (h : loadSerialR r s = .error e) :
    e = .keyError := by
  unfold loadSerialR at h
  split at h
  · cases h
  · cases h; rfl

theorem demoLoadSerial_unknown (ls : Except Err Data) (rc : List Rev) (s : Tid)
    (hb : ls = .error .keyError) : demoLoadSerial ls rc s = loadSerialR rc s := by
  unfold demoLoadSerial
  cases h : loadSerialR rc s with
  | error e => rw [loadSerialR_error h]; exact hb
  | ok d => rfl

theorem getTidR_error {r : List Rev} {e : Err} (h : getTidR r = .error e) : e = .keyError := by
  unfold getTidR at h
  split at h
  · cases h
  · cases h; rfl

theorem demoGetTid_unknown (gt : Except Err Tid) (rc : List Rev) (hb : gt = .error .keyError) :
    demoGetTid gt rc = getTidR rc := by
  unfold demoGetTid
  cases h : getTidR rc with
  | error e => rw [getTidR_error h]; exact hb
  | ok d => rfl

/-- `history(oid, n)` for `n > 0` (for `n = 0` DemoStorage answers `[]` even for an unknown oid,
    where a plain storage raises KeyError — see the example in `Props/Links.lean`) -/
theorem demoHistory_unknown (hB : Nat → Except Err (List Tid)) (rc : List Rev) (n : Nat) (hn : 0 < n)
    (hb : ∀ m, hB m = .error .keyError) : demoHistory hB rc n = historyR rc n := by
  unfold demoHistory
  cases hH : historyR rc n with
  | error e =>
    have he : e = .keyError := by
      unfold historyR at hH
      split at hH
      · cases hH; rfl
      · cases hH
    subst he
    simp only [List.length_nil, Nat.sub_zero]
    rw [if_neg (by omega), hb]; rfl
  | ok L =>
    have hL : L ≠ [] := by
      unfold historyR at hH
      split at hH
      · cases hH
      · rename_i hE
        have hne : rc ≠ [] := fun e => hE (by simp [e])
        have hlen : 0 < rc.length := List.length_pos_iff.2 hne
        injection hH with hH
        intro e
        rw [e] at hH
        have := congrArg List.length hH
        simp only [List.length_map, List.length_take, List.length_reverse, List.length_nil] at this
        omega
    simp only []
    by_cases hm : n - L.length = 0
    · rw [if_pos hm]
    · rw [if_neg hm, hb]
      cases L with
      | nil => exact absurd rfl hL
      | cons a l => rfl

/-- the empty base (`DemoStorage()` over a fresh MappingStorage / FileStorage) -/
def emptyBase (canUndo : Bool) : Store := .leaf (Layer.empty canUndo)

theorem emptyBase_loadBefore (cu : Bool) (o : Oid) (t : Tid) :
    (emptyBase cu).loadBefore o t = .error .keyError := rfl
theorem emptyBase_loadSerial (cu : Bool) (o : Oid) (s : Tid) :
    (emptyBase cu).loadSerial o s = .error .keyError := rfl
theorem emptyBase_getTid (cu : Bool) (o : Oid) : (emptyBase cu).getTid o = .error .keyError := rfl
theorem emptyBase_history (cu : Bool) (o : Oid) (n : Nat) :
    (emptyBase cu).history o n = .error .keyError := rfl

/-! ### tid generation -/

theorem later_gt (now prev : Nat) : prev < Tid.later now prev := by
  unfold Tid.later; split <;> omega

theorem later_ge_now (now prev : Nat) : now ≤ Tid.later now prev := by
  unfold Tid.later; split <;> omega

end Proofs.Links
